(* Proofs/SpscK3Proofs.v — invariants of the K3 SPSC model (Chan/SpscK3.v), for every capacity,
   every pair of programs and every schedule.
     LifeInv  handle lifecycle: flags / counts are functions of the pcs, Ring::drop runs alone
     LockInv  the two waiter-cell mutexes
     RingInv  index protocol, slot ownership, FIFO, conservation          (C01 C02 C03 C09)
     WaitInv  register / fence / re-check / park  vs  publish / fence / gate / wake_one  (C05)
   Structure of every step lemma: case split by thread and pc, the step equation is inverted into
   its branches, the new state is a nest of setters that `st_goal` projects away. *)
From Fibre Require Import Common.Base Common.Conc Chan.SpscK3.
From Coq Require Import ZifyBool ZifyNat ZifyN.

(* ---------------------------------------------------------------- tactics *)
Ltac unf_steps :=
  unfold p_done_op, c_done_op, p_release, c_release, p_push_ok, p_push_err, p_wake_done,
    c_pop_some, c_pop_none, c_wake_done, p_lock_pw, c_lock_cw, write_slot, take_slot in *.

(* break the step equation [H : ... = Some (s', e)] into its branches *)
Ltac inv_step H :=
  first [ discriminate H
        | match type of H with
          | Some (_, _) = Some _ => injection H as <- <-
          | Some (if ?x then _ else _) = Some _ => destruct x eqn:?; inv_step H
          | (let '(_, _) := pop_core _ _ _ ?p in _) = Some _ => destruct p; cbn [pop_core] in H; inv_step H
          | (if ?x then _ else _) = Some _ => destruct x eqn:?; inv_step H
          | (match ?x with _ => _ end) = Some _ => destruct x eqn:?; inv_step H
          end ].

Ltac st_goal := cbn [tail head ch ct slots p_closed c_closed pdropped cdropped scount rcount p_rel c_rel cw_lock cw_slot recv_w c_notif tok_c pw_lock pw_slot send_w p_notif tok_p ppc cpc pprog cprog pseq accepted received dropped chand presults cresults bad
  set_tail set_head set_ch set_ct set_slots set_p_closed set_c_closed set_pdropped set_cdropped set_scount set_rcount set_p_rel set_c_rel set_cw_lock set_cw_slot set_recv_w set_c_notif set_tok_c set_pw_lock set_pw_slot set_send_w set_p_notif set_tok_p set_ppc set_cpc set_pprog set_cprog set_pseq set_accepted set_received set_dropped set_chand set_presults set_cresults set_bad].
Ltac st_in H := cbn [tail head ch ct slots p_closed c_closed pdropped cdropped scount rcount p_rel c_rel cw_lock cw_slot recv_w c_notif tok_c pw_lock pw_slot send_w p_notif tok_p ppc cpc pprog cprog pseq accepted received dropped chand presults cresults bad
  set_tail set_head set_ch set_ct set_slots set_p_closed set_c_closed set_pdropped set_cdropped set_scount set_rcount set_p_rel set_c_rel set_cw_lock set_cw_slot set_recv_w set_c_notif set_tok_c set_pw_lock set_pw_slot set_send_w set_p_notif set_tok_p set_ppc set_cpc set_pprog set_cprog set_pseq set_accepted set_received set_dropped set_chand set_presults set_cresults set_bad] in H.

Ltac split_goal :=
  repeat match goal with
  | |- context [if ?b then _ else _] => let E := fresh "E" in destruct b eqn:E; st_in E
  | |- context [match ?x with _ => _ end] => let E := fresh "E" in destruct x eqn:E; st_in E
  end.


(* ================================================================ LifeInv *)
Definition p_isrel pc := match pc with PDrain _ | PDone => true | _ => false end.
Definition c_isrel pc := match pc with CDrain _ | CDone => true | _ => false end.
Definition p_isdrain pc := match pc with PDrain _ => true | _ => false end.
Definition c_isdrain pc := match pc with CDrain _ => true | _ => false end.
Definition p_aftersub pc := match pc with PWake WDrop _ | PDrain _ | PDone => true | _ => false end.
Definition c_aftersub pc := match pc with CWake WDrop _ | CDrain _ | CDone => true | _ => false end.
Definition p_afterst pc := match pc with PDrSub => true | _ => p_aftersub pc end.
Definition c_afterst pc := match pc with CDrSub => true | _ => c_aftersub pc end.
Definition p_afterswap pc := match pc with PDrStore => true | _ => p_afterst pc end.
Definition c_afterswap pc := match pc with CDrStore => true | _ => c_afterst pc end.

Ltac cls := cbn [p_isrel c_isrel p_aftersub c_aftersub p_afterst c_afterst p_afterswap c_afterswap p_isdrain c_isdrain].
Ltac cls_in H := cbn [p_isrel c_isrel p_aftersub c_aftersub p_afterst c_afterst p_afterswap c_afterswap p_isdrain c_isdrain] in H.

(* every lifecycle flag and count is a function of the owning thread's pc; Ring::drop runs only
   after the other thread has finished *)
Record LifeInv (s : st) : Prop := {
  L_prel : p_rel s = p_isrel (ppc s);
  L_crel : c_rel s = c_isrel (cpc s);
  L_pdr : p_isdrain (ppc s) = true -> cpc s = CDone;
  L_cdr : c_isdrain (cpc s) = true -> ppc s = PDone;
  L_sc : scount s = if p_aftersub (ppc s) then 0 else 1;
  L_rc : rcount s = if c_aftersub (cpc s) then 0 else 1;
  L_pcl : p_closed s = p_afterswap (ppc s);
  L_ccl : c_closed s = c_afterswap (cpc s);
  L_pd : pdropped s = p_afterst (ppc s);
  L_cd : cdropped s = c_afterst (cpc s)
}.

Lemma Life_init pp0 cp0 : LifeInv (init pp0 cp0).
Proof. constructor; cbn; try reflexivity; discriminate. Qed.

Section Life.
Variables cap phys : N.

Lemma Life_step s t c s' e : LifeInv s -> step cap phys s t c = Some (s', e) -> LifeInv s'.
Proof.
  intros [H1 H2 H3 H4 H5 H6 H7 H8 H9 H10] Hs.
  destruct t; cbn [step] in Hs; [unfold pstep in Hs | unfold cstep in Hs].
  - destruct (ppc s) eqn:Epc; rewrite ?Epc in H1, H2, H3, H4, H5, H6, H7, H8, H9, H10;
      cls_in H1; cls_in H2; cls_in H3; cls_in H4; cls_in H5; cls_in H6; cls_in H7; cls_in H8; cls_in H9; cls_in H10;
      unf_steps; inv_step Hs; unf_steps; split_goal.
    all: constructor; st_goal; rewrite ?Epc; cls.
    all: try assumption; try reflexivity; try congruence.
    all: try (rewrite H5; reflexivity).
    all: try (intros X; try discriminate X; specialize (H3 X); congruence).
    all: try (intros X; try discriminate X; specialize (H4 X); congruence).
    (* the producer releases last: the consumer is CDone, not draining *)
    all: intros _; destruct (cpc s) eqn:Ec; cls_in H2; try congruence;
      cls_in H4; specialize (H4 eq_refl); discriminate.
  - destruct (cpc s) eqn:Epc; rewrite ?Epc in H1, H2, H3, H4, H5, H6, H7, H8, H9, H10;
      cls_in H1; cls_in H2; cls_in H3; cls_in H4; cls_in H5; cls_in H6; cls_in H7; cls_in H8; cls_in H9; cls_in H10;
      unf_steps; inv_step Hs; unf_steps; split_goal.
    all: constructor; st_goal; rewrite ?Epc; cls.
    all: try assumption; try reflexivity; try congruence.
    all: try (rewrite H6; reflexivity).
    all: try (intros X; try discriminate X; specialize (H4 X); congruence).
    all: try (intros X; try discriminate X; specialize (H3 X); congruence).
    all: intros _; destruct (ppc s) eqn:Ec; cls_in H1; try congruence;
      cls_in H3; specialize (H3 eq_refl); discriminate.
Qed.
End Life.

(* ================================================================ LockInv *)
Definition p_holds_cw pc :=
  match pc with PWake _ WkSt0 | PWake _ WkStN | PWake _ (WkUnlock _) => true | _ => false end.
Definition c_holds_cw pc :=
  match pc with CReg RgSt | CReg RgUnlock | CUnreg _ UnSt | CUnreg _ UnUnlock => true | _ => false end.
Definition c_holds_pw pc :=
  match pc with CWake _ WkSt0 | CWake _ WkStN | CWake _ (WkUnlock _) => true | _ => false end.
Definition p_holds_pw pc :=
  match pc with PReg RgSt | PReg RgUnlock | PUnreg _ UnSt | PUnreg _ UnUnlock => true | _ => false end.

Ltac lks := cbn [p_holds_cw c_holds_cw c_holds_pw p_holds_pw orb andb].
Ltac lks_in H := cbn [p_holds_cw c_holds_cw c_holds_pw p_holds_pw orb andb] in H.

(* each mutex is held exactly when one thread is inside a critical section, never both *)
Record LockInv (s : st) : Prop := {
  K_cw : cw_lock s = p_holds_cw (ppc s) || c_holds_cw (cpc s);
  K_cwx : p_holds_cw (ppc s) && c_holds_cw (cpc s) = false;
  K_pw : pw_lock s = p_holds_pw (ppc s) || c_holds_pw (cpc s);
  K_pwx : p_holds_pw (ppc s) && c_holds_pw (cpc s) = false
}.

Lemma Lock_init pp0 cp0 : LockInv (init pp0 cp0).
Proof. constructor; reflexivity. Qed.

Section Lock.
Variables cap phys : N.

Lemma Lock_step s t c s' e : LockInv s -> step cap phys s t c = Some (s', e) -> LockInv s'.
Proof.
  intros [H1 H2 H3 H4] Hs.
  destruct t; cbn [step] in Hs; [unfold pstep in Hs | unfold cstep in Hs].
  - destruct (ppc s) eqn:Epc; rewrite ?Epc in H1, H2, H3, H4; lks_in H1; lks_in H2; lks_in H3; lks_in H4;
      unf_steps; inv_step Hs; unf_steps; split_goal.
    all: constructor; st_goal; rewrite ?Epc; lks.
    all: try assumption; try reflexivity.
    all: try (destruct (c_holds_cw (cpc s)); cbn in *; congruence).
    all: try (destruct (c_holds_pw (cpc s)); cbn in *; congruence).
  - destruct (cpc s) eqn:Epc; rewrite ?Epc in H1, H2, H3, H4; lks_in H1; lks_in H2; lks_in H3; lks_in H4;
      unf_steps; inv_step Hs; unf_steps; split_goal.
    all: constructor; st_goal; rewrite ?Epc; lks.
    all: try assumption; try reflexivity.
    all: try (destruct (p_holds_cw (ppc s)); cbn in *; congruence).
    all: try (destruct (p_holds_pw (ppc s)); cbn in *; congruence).
Qed.
End Lock.

(* ================================================================ RingInv *)
Lemma mod_window a b m : 0 < m -> a <= b -> b < a + m -> a mod m = b mod m -> a = b.
Proof.
  intros Hm Hab Hlt He.
  pose proof (N.div_mod a m ltac:(lia)) as Ha. pose proof (N.div_mod b m ltac:(lia)) as Hb.
  pose proof (N.mod_lt a m ltac:(lia)) as Ra.
  rewrite <- He in Hb.
  assert (b / m = a / m) by nia.
  congruence.
Qed.

Lemma upd_eq f k v : upd f k v k = v.
Proof. unfold upd. rewrite N.eqb_refl. reflexivity. Qed.
Lemma upd_neq f k v x : x <> k -> upd f k v x = f x.
Proof. unfold upd. intros H. destruct (N.eqb_spec x k); congruence. Qed.

Lemma firstn_succ_nth (l : list N) n v :
  nth_error l n = Some v -> firstn (S n) l = firstn n l ++ [v].
Proof.
  revert l. induction n as [|n IH]; intros [|x l] H; cbn in *; try discriminate.
  - congruence.
  - rewrite (IH l H). reflexivity.
Qed.

(* slot ownership: the cells of the window [lo, hi) hold exactly the written payloads lo..hi-1,
   every other cell is empty *)
Definition Own (phys : N) (sl : N -> option N) (lo hi : N) (w : list N) : Prop :=
  (forall j, lo <= j < hi -> sl (j mod phys) = nth_error w (N.to_nat j)) /\
  (forall k, (forall j, lo <= j < hi -> j mod phys <> k) -> sl k = None).

Lemma own_target_free phys sl lo hi w :
  0 < phys -> Own phys sl lo hi w -> lo <= hi -> hi < lo + phys -> sl (hi mod phys) = None.
Proof.
  intros Hp [_ H2] Hle Hlt. apply H2. intros j Hj He.
  assert (j = hi) by (apply (mod_window j hi phys); lia). lia.
Qed.

Lemma own_write phys sl lo hi w v :
  0 < phys -> Own phys sl lo hi w -> lo <= hi -> hi < lo + phys -> N.of_nat (length w) = hi ->
  Own phys (upd sl (hi mod phys) (Some v)) lo (hi + 1) (w ++ [v]).
Proof.
  intros Hp [H1 H2] Hle Hlt Hlen. split.
  - intros j Hj. destruct (N.eq_dec j hi) as [->|Hne].
    + rewrite upd_eq. rewrite nth_error_app2 by lia.
      replace (N.to_nat hi - length w)%nat with 0%nat by lia. reflexivity.
    + rewrite upd_neq.
      * rewrite H1 by lia. rewrite nth_error_app1 by lia. reflexivity.
      * intros He. apply Hne. apply (mod_window j hi phys); lia.
  - intros k Hk. rewrite upd_neq.
    + apply H2. intros j Hj. apply Hk. lia.
    + intros ->. apply (Hk hi); [lia | reflexivity].
Qed.

Lemma own_take phys sl lo hi w :
  0 < phys -> Own phys sl lo hi w -> lo < hi -> hi <= lo + phys ->
  sl (lo mod phys) = nth_error w (N.to_nat lo) /\
  Own phys (upd sl (lo mod phys) None) (lo + 1) hi w.
Proof.
  intros Hp [H1 H2] Hlt Hle. split; [apply H1; lia|]. split.
  - intros j Hj. rewrite upd_neq; [apply H1; lia|].
    intros He. assert (lo = j) by (apply (mod_window lo j phys); lia). lia.
  - intros k Hk. destruct (N.eq_dec k (lo mod phys)) as [->|Hne].
    + apply upd_eq.
    + rewrite upd_neq by exact Hne. apply H2. intros j Hj.
      destruct (N.eq_dec j lo) as [->|Hjl]; [congruence | apply Hk; lia].
Qed.

(* the ring invariant: index order, capacity, cached-index licences, FIFO, slot ownership *)
Definition p_pastchk pc := match pc with PPush _ Slot | PPush _ StIdx => true | _ => false end.
Definition c_atslot pc := match pc with CPop _ Slot | CDrain Slot => true | _ => false end.
Definition p_atslot pc := match pc with PDrain Slot => true | _ => false end.

Ltac rcl := cbn [p_pastchk c_atslot p_atslot p_wrote c_took p_took c_isrel p_isrel p_isdrain c_isdrain orb andb b2n].
Ltac rcl_in H := cbn [p_pastchk c_atslot p_atslot p_wrote c_took p_took c_isrel p_isrel p_isdrain c_isdrain orb andb b2n] in H.
Ltac nrm := rewrite ?N.add_0_r, ?app_nil_r, ?orb_false_r, ?orb_true_r.
Ltac nrm_in H := rewrite ?N.add_0_r, ?app_nil_r, ?orb_false_r, ?orb_true_r in H.

Record RingInv (cap phys : N) (s : st) : Prop := {
  R_o1 : ch s <= head s;
  R_lo : lo s <= ct s;
  R_o2 : head s <= lo s;
  R_o3 : ct s <= tail s;
  R_cap : tail s <= head s + cap;
  R_hi : hi s <= ch s + cap;
  R_pchk : p_pastchk (ppc s) = true -> tail s < ch s + cap;
  R_cchk : c_atslot (cpc s) || p_atslot (ppc s) = true -> head s < ct s;
  R_len : N.of_nat (length (accepted s)) = tail s;
  R_fifo : received s ++ dropped s = firstn (N.to_nat (lo s)) (accepted s);
  R_drp : c_isrel (cpc s) = false -> dropped s = [];
  R_own : Own phys (slots s) (lo s) (hi s) (written s);
  R_bad : bad s = false
}.

Lemma Ring_frame cap phys s s' :
  RingInv cap phys s ->
  tail s' = tail s -> head s' = head s -> ch s' = ch s -> ct s' = ct s -> slots s' = slots s ->
  accepted s' = accepted s -> received s' = received s -> dropped s' = dropped s -> bad s' = bad s ->
  written s' = written s -> lo s' = lo s -> hi s' = hi s ->
  (p_pastchk (ppc s') = true -> p_pastchk (ppc s) = true) ->
  (c_atslot (cpc s') || p_atslot (ppc s') = true -> c_atslot (cpc s) || p_atslot (ppc s) = true) ->
  (c_isrel (cpc s') = false -> c_isrel (cpc s) = false) ->
  RingInv cap phys s'.
Proof.
  intros [] E1 E2 E3 E4 E5 E6 E7 E8 E9 E10 E11 E12 I1 I2 I3.
  constructor; rewrite ?E1, ?E2, ?E3, ?E4, ?E5, ?E6, ?E7, ?E8, ?E9, ?E10, ?E11, ?E12; auto.
Qed.

Lemma firstn_app_le (l : list N) (x : N) n : (n <= length l)%nat -> firstn n (l ++ [x]) = firstn n l.
Proof.
  intros H. rewrite firstn_app. replace (n - length l)%nat with 0%nat by lia. cbn. apply app_nil_r.
Qed.

Lemma p_took_drain pc : p_isdrain pc = false -> p_took pc = false /\ p_atslot pc = false.
Proof. destruct pc; cbn; intros; try discriminate; split; reflexivity. Qed.
Section R.
Variables cap phys : N.
Hypothesis Hcap : 0 < cap.
Hypothesis Hphys : cap <= phys.

Lemma Ring_init pp0 cp0 : RingInv cap phys (init pp0 cp0).
Proof.
  constructor; unfold Own, lo, hi, took, wrote, written; cbn; try lia; try reflexivity; try discriminate.
  split; intros; [exfalso; lia | reflexivity].
Qed.

Ltac frame HR Epc :=
  apply (Ring_frame _ _ _ _ HR); unfold written, lo, hi, wrote, took; st_goal; rewrite ?Epc; rcl;
  try reflexivity; try (intros X; exact X); try discriminate.

Ltac ring_hyps HR :=
  destruct HR as [Ro1 Rlo Ro2 Ro3 Rcap Rhi Rpchk Rcchk Rlen Rfifo Rdrp Rown Rbad];
  unfold written, lo, hi, wrote, took in *.
Ltac ring_simpl :=
  cbn [p_pastchk c_atslot p_atslot p_wrote c_took p_took c_isrel p_isrel p_isdrain c_isdrain orb andb b2n] in *;
  rewrite ?N.add_0_r, ?app_nil_r, ?orb_false_r, ?orb_true_r in *.
Ltac ring_goal Epc :=
  constructor; unfold written, lo, hi, wrote, took; st_goal; rewrite ?Epc; rcl; nrm.

Lemma Ring_step s t c s' e :
  LifeInv s -> RingInv cap phys s -> step cap phys s t c = Some (s', e) -> RingInv cap phys s'.
Proof.
  intros HL HR Hs.
  destruct t; cbn [step] in Hs; [unfold pstep in Hs | unfold cstep in Hs].
  - destruct (ppc s) eqn:Epc; unf_steps; inv_step Hs; unf_steps; split_goal.
    all: try solve [frame HR Epc].
    all: try (assert (Ecd : cpc s = CDone) by (apply (L_pdr _ HL); rewrite Epc; reflexivity));
      clear HL; ring_hyps HR; rewrite ?Epc in *; try rewrite Ecd in *;
      ring_simpl; ring_goal Epc; try rewrite Ecd; rcl; nrm.
    all: try assumption; try discriminate.
    all: try lia.
    all: try (match goal with |- (_ = _) -> _ => intros _ end; lia).
    all: try (rewrite app_length; cbn [length]; lia).
    all: try (rewrite firstn_app_le by lia; assumption).
    all: try (apply own_write; [lia | assumption | lia | lia | lia]).
    all: try (exfalso; match goal with E : slots _ (tail _ mod _) = Some _ |- _ =>
                     rewrite (own_target_free phys _ _ _ _ ltac:(lia) Rown) in E by lia; discriminate end).
    all: try (destruct (own_take phys _ _ _ _ ltac:(lia) Rown ltac:(lia) ltac:(lia)) as [Hv Hown'];
                   match goal with E : slots _ (head _ mod _) = Some _ |- _ => rewrite E in Hv | E : slots _ (head _ mod _) = None |- _ => rewrite E in Hv end).
    all: try exact Hown'.
    all: try (rewrite app_assoc, Rfifo; match goal with |- context [N.to_nat (?h + 1)] => replace (N.to_nat (h + 1)) with (S (N.to_nat h)) by lia end;
                   symmetry; apply firstn_succ_nth; congruence).
    all: try (exfalso; symmetry in Hv; apply nth_error_None in Hv; lia).
  - destruct (cpc s) eqn:Epc; unf_steps; inv_step Hs; unf_steps; split_goal.
    all: try solve [frame HR Epc].
    all: try (assert (Ecd : ppc s = PDone) by (apply (L_cdr _ HL); rewrite Epc; reflexivity)).
    all: try (assert (Hnd : p_took (ppc s) = false /\ p_atslot (ppc s) = false)
                     by (apply p_took_drain; destruct (p_isdrain (ppc s)) eqn:X; [|reflexivity];
                         pose proof (L_pdr _ HL X); congruence);
                   destruct Hnd as [Hnd1 Hnd2]).
    all: clear HL; ring_hyps HR; rewrite ?Epc in *; try rewrite Ecd in *; try rewrite Hnd1 in *; try rewrite Hnd2 in *;
      ring_simpl; ring_goal Epc; try rewrite Ecd; try rewrite Hnd1; try rewrite Hnd2; rcl; nrm.
    all: try assumption; try discriminate.
    all: try lia.
    all: try (match goal with |- (_ = _) -> _ => intros _ end; lia).
    all: try (specialize (Rdrp eq_refl); rewrite Rdrp in *; rewrite ?app_nil_r in * ).
    all: try (destruct (own_take phys _ _ _ _ ltac:(lia) Rown ltac:(lia) ltac:(lia)) as [Hv Hown'];
                   try rewrite nth_error_app1 in Hv by lia;
                   match goal with E : slots _ (head _ mod _) = Some _ |- _ => rewrite E in Hv
                                 | E : slots _ (head _ mod _) = None |- _ => rewrite E in Hv end).
    all: try exact Hown'.
    all: try (rewrite ?app_assoc, Rfifo; match goal with |- context [N.to_nat (?h + 1)] => replace (N.to_nat (h + 1)) with (S (N.to_nat h)) by lia end;
                   symmetry; apply firstn_succ_nth; congruence).
    all: try (exfalso; symmetry in Hv; apply nth_error_None in Hv; lia).
Qed.
End R.

(* ================================================================ WaitInv *)
(* ---- consumer waits, producer wakes *)
Definition c_reg pc := match pc with
  | CPop (CLoop true) _ | CPop (CLoopD true) _ | CSc (SLoop true) | CPark | CSwap | CFence => true | _ => false end.
Definition c_regging pc := match pc with CReg RgSt | CReg RgUnlock => true | _ => false end.
Definition c_rgst pc := match pc with CReg RgSt => true | _ => false end.
Definition c_unreg0 pc := match pc with CUnreg _ UnLock => true | _ => false end.
Definition c_unreg1 pc := match pc with CUnreg _ UnSt | CUnreg _ UnUnlock => true | _ => false end.
Definition c_fresh pc := match pc with
  | CPop CTry1 _ | CPop CTry2 _ | CPop CFirst _ | CSc STry | CPop (CLoop false) _ | CPop (CLoopD false) _
  | CSc (SLoop false) | CSpinDec | CReg _ => true | _ => false end.
Definition c_dz pc := match pc with CSc (SLoop true) | CPark => true | _ => false end.
Definition c_ispark pc := match pc with CPark => true | _ => false end.
Definition c_isswap pc := match pc with CSwap => true | _ => false end.
Definition p_taking pc := match pc with PWake _ WkSt0 | PWake _ WkStN => true | _ => false end.
Definition p_notified pc := match pc with PWake _ (WkUnlock true) | PWake _ WkUnpark => true | _ => false end.
Definition p_owes pc := match pc with PUnreg UOk _ | PNfFence | PNfLd => true | _ => false end.
Definition p_wklock pc := match pc with PWake _ WkLock => true | _ => false end.
Definition p_dwklock pc := match pc with PWake WDrop WkLock => true | _ => false end.

Ltac wcl := cbn [c_reg c_regging c_rgst c_unreg0 c_unreg1 c_fresh c_dz c_ispark c_isswap p_taking p_notified p_owes p_wklock p_dwklock
                 p_holds_cw c_holds_cw p_holds_pw c_holds_pw p_aftersub c_aftersub p_afterst c_afterst p_isdrain c_isdrain orb andb negb].
Ltac wcl_all := cbn [c_reg c_regging c_rgst c_unreg0 c_unreg1 c_fresh c_dz c_ispark c_isswap p_taking p_notified p_owes p_wklock p_dwklock
                 p_holds_cw c_holds_cw p_holds_pw c_holds_pw p_aftersub c_aftersub p_afterst c_afterst p_isdrain c_isdrain orb andb negb] in *.

Record WCa (s : st) : Prop := {
  W_S : cw_slot s = true -> c_reg (cpc s) || c_regging (cpc s) || c_unreg0 (cpc s) = true;
  W_C2 : c_regging (cpc s) = true -> cw_slot s = true;
  W_P1 : p_holds_cw (ppc s) = true -> cw_slot s = false;
  W_C1 : c_unreg1 (cpc s) = true -> cw_slot s = false;
  W_G : cw_slot s = true -> c_rgst (cpc s) = false -> recv_w s = 1;
  W_Lv : p_taking (ppc s) = true -> c_reg (cpc s) || c_unreg0 (cpc s) = true /\ c_notif s = false;
  W_N : c_notif s = true -> cw_slot s = false;
  W_Nf : c_fresh (cpc s) = true -> c_notif s = false;
  W_Nt : p_notified (ppc s) = true -> c_reg (cpc s) = true -> cw_slot s = false -> c_notif s = true;
  W_T : c_reg (cpc s) = true -> cw_slot s = false ->
        p_taking (ppc s) || p_notified (ppc s) = true \/
        (c_notif s = true /\ (tok_c s = true \/ c_isswap (cpc s) = true))
}.

Record WC3 (s : st) : Prop := {
  W_D : c_dz (cpc s) = true ->
        head s = ct s /\ (tail s = ct s \/ p_owes (ppc s) = true \/ p_wklock (ppc s) = true \/ cw_slot s = false);
  W_D2 : c_ispark (cpc s) = true ->
        p_aftersub (ppc s) = false \/ p_dwklock (ppc s) = true \/ cw_slot s = false
}.

Ltac case_pc x :=
  destruct x;
  repeat match goal with
  | v : cctx |- _ => destruct v | v : sctx |- _ => destruct v | v : pctx |- _ => destruct v
  | v : rg |- _ => destruct v | v : un |- _ => destruct v | v : wk |- _ => destruct v
  | v : pp |- _ => destruct v | v : wctx |- _ => destruct v | v : bool |- _ => destruct v
  | v : cuctx |- _ => destruct v | v : puctx |- _ => destruct v
  end.

Lemma c_cls pc :
  (c_regging pc = true -> c_holds_cw pc = true) /\ (c_unreg1 pc = true -> c_holds_cw pc = true) /\
  (c_rgst pc = true -> c_regging pc = true) /\
  (c_reg pc = true -> c_holds_cw pc = false /\ c_fresh pc = false /\ c_regging pc = false /\ c_unreg0 pc = false /\ c_unreg1 pc = false) /\
  (c_unreg0 pc = true -> c_holds_cw pc = false /\ c_fresh pc = false /\ c_reg pc = false /\ c_regging pc = false) /\
  (c_dz pc = true -> c_reg pc = true /\ c_rgst pc = false) /\ (c_ispark pc = true -> c_dz pc = true) /\
  (c_isswap pc = true -> c_reg pc = true).
Proof. case_pc pc; cbn; repeat split; congruence. Qed.

Section W.
Variables cap phys : N.

Ltac fin := intros; wcl_all; first [discriminate | assumption | solve [timeout 2 congruence] | solve [timeout 2 auto]].

Lemma p_cls pc :
  (p_taking pc = true -> p_holds_cw pc = true /\ p_notified pc = false) /\
  (p_notified pc = true -> p_taking pc = false).
Proof. case_pc pc; cbn; repeat split; congruence. Qed.

Lemma WCa_step s t c s' e :
  LockInv s -> WCa s -> step cap phys s t c = Some (s', e) -> WCa s'.
Proof.
  intros [K1 K2 _ _] [H1 H2 H3 H4 H5 H6 H7 H8 H9 H10] Hs.
  destruct t; cbn [step] in Hs; [unfold pstep in Hs | unfold cstep in Hs].
  - destruct (ppc s) eqn:Epc; rewrite ?Epc in *; wcl_all; unf_steps; inv_step Hs; unf_steps; split_goal.
    all: constructor; st_goal; rewrite ?Epc; wcl.
    all: try assumption.
    all: try solve [fin].
    all: destruct (c_cls (cpc s)) as (Q1 & Q2 & Q3 & Q4 & Q5 & Q6 & Q7 & Q8);
      destruct (c_holds_cw (cpc s)); cbn [orb andb] in *; try discriminate.
    all: try solve [intuition congruence].
    all: destruct (c_reg (cpc s)), (c_regging (cpc s)), (c_unreg0 (cpc s)), (c_fresh (cpc s)), (c_notif s);
      cbn [orb andb] in *; try solve [intuition congruence].
  - destruct (cpc s) eqn:Epc; rewrite ?Epc in *; wcl_all; unf_steps; inv_step Hs; unf_steps; split_goal.
    all: constructor; st_goal; rewrite ?Epc; wcl.
    all: try assumption.
    all: try solve [fin].
    all: destruct (p_cls (ppc s)) as (Q1 & Q2);
      destruct (p_taking (ppc s)), (p_notified (ppc s)), (p_holds_cw (ppc s)), (c_notif s), (cw_slot s);
      cbn [orb andb negb] in *; try solve [intuition congruence].
Qed.

Lemma WC3_step s t c s' e :
  LifeInv s -> WCa s -> WC3 s -> step cap phys s t c = Some (s', e) -> WC3 s'.
Proof.
  intros HL [H1 H2 H3 H4 H5 H6 H7 H8 H9 H10] [D1 D2] Hs.
  pose proof (L_sc _ HL) as Lsc. pose proof (L_pdr _ HL) as Lpdr. pose proof (L_pcl _ HL) as Lpcl.
  pose proof (L_ccl _ HL) as Lccl. clear HL.
  destruct t; cbn [step] in Hs; [unfold pstep in Hs | unfold cstep in Hs].
  - destruct (ppc s) eqn:Epc; rewrite ?Epc in *; wcl_all; unf_steps; inv_step Hs; unf_steps; split_goal.
    all: constructor; st_goal; rewrite ?Epc; wcl.
    all: try assumption.
    all: try solve [fin].
    all: try congruence.
    all: try (rewrite Lsc in *; discriminate).
    all: try (rewrite (Lpdr eq_refl) in *; wcl_all; discriminate).
    all: destruct (c_cls (cpc s)) as (Q1 & Q2 & Q3 & Q4 & Q5 & Q6 & Q7 & Q8).
    all: try solve [intuition congruence].
    { intros X. destruct (D1 X) as [A B]. split; [exact A|]. destruct (cw_slot s) eqn:Es; [|auto].
      exfalso. rewrite (H5 eq_refl (proj2 (Q6 X))) in E. discriminate. }
  - destruct (cpc s) eqn:Epc; rewrite ?Epc in *; wcl_all; unf_steps; inv_step Hs; unf_steps; split_goal.
    all: constructor; st_goal; rewrite ?Epc; wcl.
    all: try assumption.
    all: try solve [fin].
    + intros _. split; [apply N.eqb_eq; exact E | left; reflexivity].
    + intros _. destruct (p_aftersub (ppc s)); [rewrite Lsc in *; discriminate | left; reflexivity].
Qed.
End W.

(* ---- producer waits, consumer wakes (mirror image) *)
Definition p_reg pc := match pc with
  | PCd (KLoop true) | PPush (KLoop true) _ | PPark | PSwap | PFence => true | _ => false end.
Definition p_regging pc := match pc with PReg RgSt | PReg RgUnlock => true | _ => false end.
Definition p_rgst pc := match pc with PReg RgSt => true | _ => false end.
Definition p_unreg0 pc := match pc with PUnreg _ UnLock => true | _ => false end.
Definition p_unreg1 pc := match pc with PUnreg _ UnSt | PUnreg _ UnUnlock => true | _ => false end.
Definition p_fresh pc := match pc with
  | PCd KTry | PCd KFirst | PCd (KLoop false) | PPush KTry _ | PPush KFirst _ | PPush (KLoop false) _
  | PSpinDec | PReg _ => true | _ => false end.
Definition p_ispark pc := match pc with PPark => true | _ => false end.
Definition p_isswap pc := match pc with PSwap => true | _ => false end.
Definition p_d2z pc := match pc with PPush (KLoop true) LdA | PPush (KLoop true) LdB | PPark => true | _ => false end.
Definition c_taking pc := match pc with CWake _ WkSt0 | CWake _ WkStN => true | _ => false end.
Definition c_notified pc := match pc with CWake _ (WkUnlock true) | CWake _ WkUnpark => true | _ => false end.
Definition c_owes pc := match pc with CUnreg CUVal _ | CNfFence | CNfLd => true | _ => false end.
Definition c_wklock pc := match pc with CWake _ WkLock => true | _ => false end.
Definition c_dpend pc := match pc with CDrSub | CWake WDrop WkLock => true | _ => false end.

Ltac wpl := cbn [p_reg p_regging p_rgst p_unreg0 p_unreg1 p_fresh p_ispark p_isswap p_d2z c_taking c_notified c_owes c_wklock c_dpend
                 p_holds_cw c_holds_cw p_holds_pw c_holds_pw p_aftersub c_aftersub p_afterst c_afterst p_isdrain c_isdrain orb andb negb].
Ltac wpl_all := cbn [p_reg p_regging p_rgst p_unreg0 p_unreg1 p_fresh p_ispark p_isswap p_d2z c_taking c_notified c_owes c_wklock c_dpend
                 p_holds_cw c_holds_cw p_holds_pw c_holds_pw p_aftersub c_aftersub p_afterst c_afterst p_isdrain c_isdrain orb andb negb] in *.

Record WPa (s : st) : Prop := {
  V_S : pw_slot s = true -> p_reg (ppc s) || p_regging (ppc s) || p_unreg0 (ppc s) = true;
  V_C2 : p_regging (ppc s) = true -> pw_slot s = true;
  V_P1 : c_holds_pw (cpc s) = true -> pw_slot s = false;
  V_C1 : p_unreg1 (ppc s) = true -> pw_slot s = false;
  V_G : pw_slot s = true -> p_rgst (ppc s) = false -> send_w s = 1;
  V_Lv : c_taking (cpc s) = true -> p_reg (ppc s) || p_unreg0 (ppc s) = true /\ p_notif s = false;
  V_N : p_notif s = true -> pw_slot s = false;
  V_Nf : p_fresh (ppc s) = true -> p_notif s = false;
  V_Nt : c_notified (cpc s) = true -> p_reg (ppc s) = true -> pw_slot s = false -> p_notif s = true;
  V_T : p_reg (ppc s) = true -> pw_slot s = false ->
        c_taking (cpc s) || c_notified (cpc s) = true \/
        (p_notif s = true /\ (tok_p s = true \/ p_isswap (ppc s) = true))
}.

Record WP3 (cap : N) (s : st) : Prop := {
  V_D : p_ispark (ppc s) = true ->
        cap <= tail s - ch s /\ (head s = ch s \/ c_owes (cpc s) = true \/ c_wklock (cpc s) = true \/ pw_slot s = false);
  V_D2 : p_d2z (ppc s) = true ->
        c_afterst (cpc s) = false \/ c_dpend (cpc s) = true \/ pw_slot s = false
}.

Lemma p_cls2 pc :
  (p_regging pc = true -> p_holds_pw pc = true) /\ (p_unreg1 pc = true -> p_holds_pw pc = true) /\
  (p_rgst pc = true -> p_regging pc = true) /\
  (p_reg pc = true -> p_holds_pw pc = false /\ p_fresh pc = false /\ p_regging pc = false /\ p_unreg0 pc = false /\ p_unreg1 pc = false) /\
  (p_unreg0 pc = true -> p_holds_pw pc = false /\ p_fresh pc = false /\ p_reg pc = false /\ p_regging pc = false) /\
  (p_ispark pc = true -> p_reg pc = true /\ p_rgst pc = false /\ p_d2z pc = true) /\
  (p_d2z pc = true -> p_reg pc = true /\ p_rgst pc = false) /\
  (p_isswap pc = true -> p_reg pc = true).
Proof. case_pc pc; cbn; repeat split; congruence. Qed.

Lemma c_cls2 pc :
  (c_taking pc = true -> c_holds_pw pc = true /\ c_notified pc = false) /\
  (c_notified pc = true -> c_taking pc = false).
Proof. case_pc pc; cbn; repeat split; congruence. Qed.

Section WP.
Variables cap phys : N.

Ltac finp := intros; wpl_all; first [discriminate | assumption | solve [timeout 2 congruence] | solve [timeout 2 auto]].

Lemma WPa_step s t c s' e :
  LockInv s -> WPa s -> step cap phys s t c = Some (s', e) -> WPa s'.
Proof.
  intros [_ _ K1 K2] [H1 H2 H3 H4 H5 H6 H7 H8 H9 H10] Hs.
  destruct t; cbn [step] in Hs; [unfold pstep in Hs | unfold cstep in Hs].
  - destruct (ppc s) eqn:Epc; rewrite ?Epc in *; wpl_all; unf_steps; inv_step Hs; unf_steps; split_goal.
    all: constructor; st_goal; rewrite ?Epc; wpl.
    all: try assumption.
    all: try solve [finp].
    all: destruct (c_cls2 (cpc s)) as (Q1 & Q2);
      destruct (c_taking (cpc s)), (c_notified (cpc s)), (c_holds_pw (cpc s)), (p_notif s), (pw_slot s);
      cbn [orb andb negb] in *; try solve [intuition congruence].
  - destruct (cpc s) eqn:Epc; rewrite ?Epc in *; wpl_all; unf_steps; inv_step Hs; unf_steps; split_goal.
    all: constructor; st_goal; rewrite ?Epc; wpl.
    all: try assumption.
    all: try solve [finp].
    all: destruct (p_cls2 (ppc s)) as (Q1 & Q2 & Q3 & Q4 & Q5 & Q6 & Q7 & Q8);
      destruct (p_holds_pw (ppc s)); cbn [orb andb] in *; try discriminate.
    all: try solve [intuition congruence].
    all: destruct (p_reg (ppc s)), (p_regging (ppc s)), (p_unreg0 (ppc s)), (p_fresh (ppc s)), (p_notif s);
      cbn [orb andb] in *; try solve [intuition congruence].
Qed.

Lemma WP3_step s t c s' e :
  LifeInv s -> WPa s -> WP3 cap s -> step cap phys s t c = Some (s', e) -> WP3 cap s'.
Proof.
  intros HL [H1 H2 H3 H4 H5 H6 H7 H8 H9 H10] [D1 D2] Hs.
  pose proof (L_rc _ HL) as Lrc. pose proof (L_cdr _ HL) as Lcdr. pose proof (L_pcl _ HL) as Lpcl.
  pose proof (L_ccl _ HL) as Lccl. pose proof (L_cd _ HL) as Lcd. clear HL.
  destruct t; cbn [step] in Hs; [unfold pstep in Hs | unfold cstep in Hs].
  - destruct (ppc s) eqn:Epc; rewrite ?Epc in *; wpl_all; unf_steps; inv_step Hs; unf_steps; split_goal.
    all: constructor; st_goal; rewrite ?Epc; wpl.
    all: try assumption.
    all: try solve [finp].
    + intros X. destruct k as [| |[]]; discriminate X.
    + intros _. split; [apply N.leb_le; exact E | left; reflexivity].
    + intros X. destruct k as [| |[]]; discriminate X.
  - destruct (cpc s) eqn:Epc; rewrite ?Epc in *; wpl_all; unf_steps; inv_step Hs; unf_steps; split_goal.
    all: constructor; st_goal; rewrite ?Epc; wpl.
    all: try assumption.
    all: try solve [finp].
    all: try congruence.
    all: try (rewrite Lrc in *; discriminate).
    all: try (rewrite (Lcdr eq_refl) in *; wpl_all; discriminate).
    all: destruct (p_cls2 (ppc s)) as (Q1 & Q2 & Q3 & Q4 & Q5 & Q6 & Q7 & Q8).
    all: try solve [timeout 5 (intuition congruence)].
    { intros X. destruct (D1 X) as [A B]. split; [exact A|]. destruct (pw_slot s) eqn:Es; [|auto].
      exfalso. rewrite (H5 eq_refl (proj1 (proj2 (Q6 X)))) in E. discriminate. }
Qed.
End WP.

(* ================================================================ EndInv *)
Definition p_isdone pc := match pc with PDone => true | _ => false end.
Definition c_isdone pc := match pc with CDone => true | _ => false end.
Definition EndInv (s : st) : Prop := p_isdone (ppc s) = true -> c_isdone (cpc s) = true -> head s = tail s.

Lemma c_isdone_rel pc : c_isdone pc = true -> c_isrel pc = true.
Proof. destruct pc; cbn; congruence. Qed.
Lemma p_isdone_rel pc : p_isdone pc = true -> p_isrel pc = true.
Proof. destruct pc; cbn; congruence. Qed.

Section E.
Variables cap phys : N.
Lemma End_step s t c s' e : LifeInv s -> EndInv s -> step cap phys s t c = Some (s', e) -> EndInv s'.
Proof.
  intros HL HE Hs. pose proof (L_prel _ HL) as L1. pose proof (L_crel _ HL) as L2.
  unfold EndInv in *.
  destruct t; cbn [step] in Hs; [unfold pstep in Hs | unfold cstep in Hs].
  - destruct (ppc s) eqn:Epc; unf_steps; inv_step Hs; unf_steps; split_goal; st_goal; cbn [p_isdone c_isdone];
      try discriminate; try (intros _ X; apply c_isdone_rel in X; congruence).
    all: try (intros _ _; lia).
    all: try (rewrite Epc; cbn [p_isdone c_isdone]; discriminate).
  - destruct (cpc s) eqn:Epc; unf_steps; inv_step Hs; unf_steps; split_goal; st_goal; cbn [p_isdone c_isdone];
      try discriminate; try (intros X _; apply p_isdone_rel in X; congruence).
    all: try (intros _ _; lia).
    all: try (rewrite Epc; cbn [p_isdone c_isdone]; discriminate).
Qed.
End E.

(* ================================================================ the combined invariant *)
Record Inv (cap phys : N) (s : st) : Prop := {
  I_life : LifeInv s;
  I_lock : LockInv s;
  I_ring : RingInv cap phys s;
  I_wca : WCa s;
  I_wc3 : WC3 s;
  I_wpa : WPa s;
  I_wp3 : WP3 cap s;
  I_end : EndInv s
}.

Lemma WCa_init pp0 cp0 : WCa (init pp0 cp0).
Proof. constructor; cbn; intros; try discriminate; try reflexivity; auto. Qed.
Lemma WC3_init pp0 cp0 : WC3 (init pp0 cp0).
Proof. constructor; cbn; intros; discriminate. Qed.
Lemma WPa_init pp0 cp0 : WPa (init pp0 cp0).
Proof. constructor; cbn; intros; try discriminate; try reflexivity; auto. Qed.
Lemma WP3_init cap pp0 cp0 : WP3 cap (init pp0 cp0).
Proof. constructor; cbn; intros; discriminate. Qed.

Section Main.
Variables cap phys : N.
Hypothesis Hcap : 0 < cap.
Hypothesis Hphys : cap <= phys.
Variable pp0 : list pop.
Variable cp0 : list cop.

Lemma Inv_init : Inv cap phys (init pp0 cp0).
Proof.
  constructor; [apply Life_init | apply Lock_init | apply Ring_init; assumption
               | apply WCa_init | apply WC3_init | apply WPa_init | apply WP3_init | discriminate].
Qed.

Lemma Inv_step s t c s' e : Inv cap phys s -> step cap phys s t c = Some (s', e) -> Inv cap phys s'.
Proof.
  intros [HL HK HR HA H3 HB H4 HE] Hs. constructor.
  - eapply Life_step; eassumption.
  - eapply Lock_step; eassumption.
  - eapply Ring_step; eassumption.
  - eapply WCa_step; eassumption.
  - eapply WC3_step; eassumption.
  - eapply WPa_step; eassumption.
  - eapply WP3_step; eassumption.
  - eapply End_step; eassumption.
Qed.

Theorem Inv_reachable s : reachable (sys cap phys pp0 cp0) s -> Inv cap phys s.
Proof.
  apply (invariant_lift (sys cap phys pp0 cp0) (Inv cap phys)).
  - exact Inv_init.
  - intros s0 t c s' e. exact (Inv_step s0 t c s' e).
Qed.

(* ---------------------------------------------------------------- C03 *)
Theorem occupancy_bounded s :
  reachable (sys cap phys pp0 cp0) s -> head s <= tail s /\ tail s - head s <= cap.
Proof.
  intros Hr. destruct (I_ring _ _ _ (Inv_reachable s Hr)) as [Ro1 Rlo Ro2 Ro3 Rcap _ _ _ _ _ _ _ _].
  unfold lo in *. lia.
Qed.

(* push reports Err only when the ring holds exactly cap items at the refresh read *)
Theorem push_err_only_when_full s k :
  reachable (sys cap phys pp0 cp0) s -> ppc s = PPush k LdB ->
  N.leb cap (tail s - head s) = true -> tail s = head s + cap.
Proof.
  intros Hr _ E. destruct (I_ring _ _ _ (Inv_reachable s Hr)) as [Ro1 Rlo Ro2 Ro3 Rcap _ _ _ _ _ _ _ _].
  unfold lo in *. lia.
Qed.

(* pop reports None only when the ring is empty at the refresh read (by the test itself) *)
Theorem pop_none_only_when_empty s k :
  cpc s = CPop k LdB -> N.eqb (head s) (tail s) = true -> tail s - head s = 0.
Proof. intros _ E. lia. Qed.

(* ---------------------------------------------------------------- C02 / C01 *)
Lemma firstn_app_l (l x : list N) n : (n <= length l)%nat -> firstn n (l ++ x) = firstn n l.
Proof.
  intros H. rewrite firstn_app. replace (n - length l)%nat with 0%nat by lia. cbn. apply app_nil_r.
Qed.

(* what the consumer took, what Ring::drop dropped and what the ring still owns, concatenated in
   this order, is exactly the sequence of payloads the producer wrote, in send order *)
Theorem fifo_conservation s :
  reachable (sys cap phys pp0 cp0) s ->
  received s ++ dropped s ++ buffered s = written s.
Proof.
  intros Hr. destruct (I_ring _ _ _ (Inv_reachable s Hr)) as [Ro1 Rlo Ro2 Ro3 Rcap Rhi _ _ Rlen Rfifo _ _ _].
  unfold buffered. rewrite app_assoc, Rfifo.
  rewrite <- (firstn_skipn (N.to_nat (lo s)) (written s)) at 2. f_equal.
  unfold written. symmetry. apply firstn_app_l. lia.
Qed.

(* ---------------------------------------------------------------- C09 *)
Theorem slot_ownership s :
  reachable (sys cap phys pp0 cp0) s ->
  bad s = false /\
  (forall j, lo s <= j < hi s -> slots s (j mod phys) = nth_error (written s) (N.to_nat j)) /\
  (forall k, (forall j, lo s <= j < hi s -> j mod phys <> k) -> slots s k = None).
Proof.
  intros Hr. destruct (I_ring _ _ _ (Inv_reachable s Hr)) as [_ _ _ _ _ _ _ _ _ _ _ [O1 O2] Rb].
  auto.
Qed.

(* after both handles are gone and Ring::drop has run: every cell is empty and every accepted
   payload was either received or dropped by the teardown, exactly once, in order *)
Theorem teardown_drains_residue s :
  reachable (sys cap phys pp0 cp0) s -> ppc s = PDone -> cpc s = CDone ->
  (forall k, slots s k = None) /\ received s ++ dropped s = accepted s.
Proof.
  intros Hr Ep Ec. pose proof (Inv_reachable s Hr) as HI.
  destruct (I_ring _ _ _ HI) as [Ro1 Rlo Ro2 Ro3 Rcap Rhi _ _ Rlen Rfifo _ [O1 O2] _].
  assert (Eht : head s = tail s) by (apply (I_end _ _ _ HI); [rewrite Ep | rewrite Ec]; reflexivity).
  unfold lo, hi, took, wrote, written in *. rewrite Ep, Ec in *. cbn [c_took p_took p_wrote orb b2n] in *.
  split.
  - intros k. apply O2. intros j Hj. lia.
  - rewrite Rfifo. apply firstn_all2. lia.
Qed.

(* ---------------------------------------------------------------- C05 *)
Lemma pstep_none s : pstep cap phys s CGo = None ->
  ppc s = PDone \/ (ppc s = PPark /\ tok_p s = false).
Proof.
  unfold pstep. intros H. destruct (ppc s) eqn:E; auto.
  all: try (right; split; [reflexivity|]; destruct (tok_p s); [discriminate H | reflexivity]).
  all: exfalso; unf_steps;
    repeat (match type of H with
            | (let '(_, _) := pop_core _ _ _ ?p in _) = None => destruct p; cbn [pop_core] in H
            | (match ?x with _ => _ end) = None => destruct x eqn:?
            end); discriminate.
Qed.

Lemma cstep_none s : cstep phys s CGo = None ->
  cpc s = CDone \/ (cpc s = CPark /\ tok_c s = false).
Proof.
  unfold cstep. intros H. destruct (cpc s) eqn:E; auto.
  all: try (right; split; [reflexivity|]; destruct (tok_c s); [discriminate H | reflexivity]).
  all: exfalso; unf_steps;
    repeat (match type of H with
            | (let '(_, _) := pop_core _ _ _ ?p in _) = None => destruct p; cbn [pop_core] in H
            | (match ?x with _ => _ end) = None => destruct x eqn:?
            end); discriminate.
Qed.

(* no lost wakeup, safety form: in a reachable state where nobody can move (spurious wake-ups
   aside), a parked consumer faces an empty ring and a live sender, a parked producer faces a
   full ring and a live receiver *)
Theorem no_lost_wakeup s :
  reachable (sys cap phys pp0 cp0) s -> quiescent_ns cap phys s ->
  (consumer_parked s -> head s = tail s /\ scount s <> 0) /\
  (producer_parked s -> tail s = head s + cap /\ cdropped s = false).
Proof.
  intros Hr Hq. pose proof (Inv_reachable s Hr) as HI.
  destruct (Hq TP) as [Hp _]. destruct (Hq TC) as [Hc _]. cbn [step] in Hp, Hc.
  apply pstep_none in Hp. apply cstep_none in Hc.
  destruct (I_ring _ _ _ HI) as [Ro1 Rlo Ro2 Ro3 Rcap Rhi _ _ _ _ _ _ _].
  pose proof (L_sc _ (I_life _ _ _ HI)) as Lsc. pose proof (L_cd _ (I_life _ _ _ HI)) as Lcd.
  split.
  - intros [Ec Et].
    destruct (I_wca _ _ _ HI) as [_ _ _ _ _ _ _ _ _ T]. destruct (I_wc3 _ _ _ HI) as [D D2].
    rewrite Ec in *. cbn [c_reg c_dz c_ispark c_isswap] in *.
    specialize (D eq_refl). specialize (D2 eq_refl). specialize (T eq_refl).
    assert (Hsl : cw_slot s = true).
    { destruct (cw_slot s); [reflexivity|]. destruct (T eq_refl) as [X | [_ [X | X]]]; try congruence.
      destruct Hp as [Ep | [Ep _]]; rewrite Ep in X; discriminate X. }
    rewrite Hsl in *. destruct D as [Dh Dd]. split.
    + destruct Dd as [X | [X | [X | X]]]; try congruence;
        destruct Hp as [Ep | [Ep _]]; rewrite Ep in X; discriminate X.
    + destruct D2 as [X | [X | X]]; try congruence.
      * rewrite X in Lsc. rewrite Lsc. discriminate.
      * destruct Hp as [Ep | [Ep _]]; rewrite Ep in X; discriminate X.
  - intros [Ep Et].
    destruct (I_wpa _ _ _ HI) as [_ _ _ _ _ _ _ _ _ T]. destruct (I_wp3 _ _ _ HI) as [D D2].
    rewrite Ep in *. cbn [p_reg p_d2z p_ispark p_isswap] in *.
    specialize (D eq_refl). specialize (D2 eq_refl). specialize (T eq_refl).
    assert (Hsl : pw_slot s = true).
    { destruct (pw_slot s); [reflexivity|]. destruct (T eq_refl) as [X | [_ [X | X]]]; try congruence.
      destruct Hc as [Ec | [Ec _]]; rewrite Ec in X; discriminate X. }
    rewrite Hsl in *. destruct D as [Dh Dd]. split.
    + assert (head s = ch s).
      { destruct Dd as [X | [X | [X | X]]]; try congruence;
          destruct Hc as [Ec | [Ec _]]; rewrite Ec in X; discriminate X. }
      unfold lo in *. lia.
    + destruct D2 as [X | [X | X]]; try congruence.
      destruct Hc as [Ec | [Ec _]]; rewrite Ec in X; discriminate X.
Qed.

(* hence: the protocol cannot deadlock -- the only quiescent reachable states are the final ones *)
Theorem deadlock_free s :
  reachable (sys cap phys pp0 cp0) s -> quiescent_ns cap phys s -> ppc s = PDone /\ cpc s = CDone.
Proof.
  intros Hr Hq. destruct (no_lost_wakeup s Hr Hq) as [NC NP].
  pose proof (Inv_reachable s Hr) as HI.
  pose proof (L_sc _ (I_life _ _ _ HI)) as Lsc. pose proof (L_cd _ (I_life _ _ _ HI)) as Lcd.
  destruct (Hq TP) as [Hp _]. destruct (Hq TC) as [Hc _]. cbn [step] in Hp, Hc.
  apply pstep_none in Hp. apply cstep_none in Hc.
  destruct Hc as [Ec | [Ec Etc]].
  - destruct Hp as [Ep | [Ep Etp]]; [auto|].
    destruct (NP (conj Ep Etp)) as [_ X]. rewrite Ec in Lcd. cbn in Lcd. congruence.
  - destruct (NC (conj Ec Etc)) as [He Hs].
    destruct Hp as [Ep | [Ep Etp]].
    + rewrite Ep in Lsc. cbn in Lsc. congruence.
    + destruct (NP (conj Ep Etp)) as [Hf _]. lia.
Qed.
End Main.

