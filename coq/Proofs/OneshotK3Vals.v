(* Proofs/OneshotK3Vals.v — conservation of the payload (K3 oneshot model): at most one value is ever
   written; it is in exactly one place (slot / taken by the receiver / destroyed by channel code);
   send results agree with what was written.  For every cfg, N, programs and schedules. *)
From Coq Require Import List Arith Bool Lia.
From Fibre Require Import Common.Conc Chan.OneshotK3 Proofs.OneshotK3Base Proofs.OneshotK3Life Proofs.OneshotK3Slot.
Import ListNotations.

Lemma cons_take (a b w : list nat) v : length w <= 1 -> a ++ b ++ [v] = w -> a = [] /\ b = [] /\ w = [v].
Proof.
  intros L E. destruct a as [|x a].
  - destruct b as [|y b].
    + cbn in E. auto.
    + exfalso. rewrite <- E in L. cbn in L. rewrite app_length in L. cbn in L. lia.
  - exfalso. rewrite <- E in L. cbn in L. rewrite !app_length in L. cbn in L. lia.
Qed.

Lemma nil_of_notin (l : list nat) : (forall x, ~ In x l) -> l = [].
Proof. destruct l as [|a l]; [reflexivity|]. intros H. exfalso. apply (H a). left. reflexivity. Qed.

Lemma app3_nil (a b c : list nat) : a ++ b ++ c = [] -> a = [] /\ b = [] /\ c = [].
Proof.
  intros H. apply app_eq_nil in H. destruct H as [A H]. apply app_eq_nil in H. destruct H. auto.
Qed.

Lemma NoDup_snoc (l : list nat) x : NoDup l -> ~ In x l -> NoDup (l ++ [x]).
Proof.
  induction l as [|a l IH]; intros N H; cbn.
  - constructor; [intros []|constructor].
  - inversion N; subst. constructor.
    + rewrite in_app_iff. intros [X|[X|[]]]; [contradiction|]. subst. apply H. left. reflexivity.
    + apply IH; [assumption|]. intros X. apply H. right. exact X.
Qed.

Section Vals.
  Variable C : cfg.
  Variable n : nat.
  Variable sprog : nat -> sop.

  Notation inr := (inr n).
  Notation LInv := (LInv n).
  Notation SInv := (SInv).

  Definition sendz (p : spc_t) : bool :=
    match p with
    | SRd | SLoad | SCas | SRd2 | SBack | SLock | SSwap | SUnlock | WTake WSend | WUnpark WSend => true
    | _ => false
    end.

  Record GInv (s : st) : Prop := mkGInv {
    g_len : length (wrote s) <= 1;
    g_cons : got s ++ dropped s ++ slot_l s = wrote s;
    g_wst : forall w, In w (wrote s) -> cs s = Sent \/ cs s = Taken \/ (cs s = Writing /\ spc s w = SSwap);
    g_wz : forall t, In t (wrote s) -> prewrite (spc s t) = false /\ sprog t = SSend /\ inr t;
    g_sz : forall t, sendz (spc s t) = true -> sprog t = SSend;
    g_ok : forall t, okzone (spc s t) = true -> wrote s = [t] /\ ~ In t (oks s);
    g_oks : forall t, In t (oks s) -> In t (wrote s);
    g_oksnd : NoDup (oks s);
    g_back : forall t, In t (back s) -> ~ In t (wrote s);
    g_bz : forall t, In t (back s) -> prewrite (spc s t) = false;
    g_hand : returned s ++ inhand s = got s
  }.

  Lemma GInv_init rp : GInv (init n rp).
  Proof.
    constructor; cbn; intros; try discriminate; try congruence; auto; try contradiction.
    constructor.
  Qed.

  Ltac lst :=
    unfold returned, inhand, dropped, slot_l in *; fsimpl;
    repeat match goal with E : slot _ = _ |- _ => rewrite E end;
    rewrite ?flat_map_app, ?map_app in *; cbn [flat_map rres_val map fst app] in *;
    rewrite ?app_nil_r in *.

  Ltac innorm :=
    repeat match goal with
           | H : In _ (_ ++ [_]) |- _ => apply in_app_iff in H; destruct H as [H|[H|[]]]; [|subst]
           | H : In _ [_] |- _ => destruct H as [H|[]]; subst
           | H : In _ [] |- _ => destruct H
           | I : ?P -> true = false /\ _ |- _ =>
               assert (~ P) by (let X := fresh in intro X; destruct (I X); discriminate); clear I
           | I : ?P -> true = false |- _ =>
               assert (~ P) by (let X := fresh in intro X; specialize (I X); discriminate); clear I
           end.

  Ltac prep :=
    intros; fsimpl; pcsimpl; spec_refl;
    try match goal with E : wrote ?s = [] |- _ => rewrite ?E in *; cbn [length In app] in * end;
    innorm;
    repeat match goal with
           | I : ?P -> _, H : ?P |- _ => match type of P with Prop => specialize (I H) end
           end;
    repeat match goal with
           | H : _ \/ _ |- _ => destruct H as [H|H]
           | H : exists _, _ |- _ => destruct H as [? H]
           | H : _ /\ _ |- _ => destruct H
           end.

  Ltac fwdg :=
    repeat match goal with
           | I : forall t, writer (spc ?s t) = true -> cs ?s = Writing, H : writer (spc ?s ?t) = true |- _ =>
               lazymatch goal with X : cs s = Writing |- _ => fail | _ => pose proof (I t H) end
           | I : forall u, writer (spc ?s u) = true -> ?t = u, H : writer (spc ?s ?u) = true |- _ =>
               lazymatch goal with X : t = u |- _ => fail | _ => pose proof (I u H) end
           | H : spc ?s ?u = SSwap |- _ =>
               lazymatch goal with X : writer (spc s u) = true |- _ => fail
               | _ => assert (writer (spc s u) = true) by (rewrite H; reflexivity) end
           | I : forall t, okzone (spc ?s t) = true -> _, H : okzone (spc ?s ?u) = true |- _ =>
               lazymatch goal with X : okzone (spc s u) = true -> True |- _ => fail
               | _ => let Y := fresh in pose proof (I u H) as Y; assert (okzone (spc s u) = true -> True) by (intros; exact Logic.I) end
           | I : forall w, In w (wrote ?s) -> cs ?s = Sent \/ _, H : In ?w (wrote ?s) |- _ =>
               lazymatch goal with X : In w (wrote s) -> True |- _ => fail
               | _ => let Y := fresh in pose proof (I w H) as Y; assert (In w (wrote s) -> True) by (intros; exact Logic.I) end
           end.

  Ltac gsolve1 :=
    try discriminate; try congruence; try (exfalso; congruence); eauto; try lia;
    try (repeat match goal with E : _ = [] |- _ => rewrite E end; cbn [app]; reflexivity);
    try (match goal with E : wrote ?s = _ |- context [wrote ?s] => rewrite E end; cbn [In]; solve [auto]);
    try (apply NoDup_snoc; [assumption|]; solve [eauto | tauto | congruence]);
    try (rewrite ?in_app_iff; cbn [In]; solve [intuition (eauto; congruence)]);
    try (fwdg;
         repeat match goal with
                | H : _ \/ _ |- _ => destruct H as [H|H]
                | H : _ /\ _ |- _ => destruct H
                end;
         fwdg; first [congruence | (exfalso; congruence) | solve [eauto]]);
    try (match goal with
         | Hl : forallb is_local ?l = true |- _ =>
             let X := fresh in pose proof (vals_app_local [] l Hl) as X; cbn in X; rewrite X; rewrite ?app_nil_r
         end; congruence);
    try (match goal with
         | Hc : ?a ++ ?b ++ [?v] = ?w, Hl : length ?w <= 1 |- _ =>
             destruct (cons_take a b w v Hl Hc) as [? [? ?]]
         end; lst; repeat match goal with E : ?x = [] |- _ => rewrite E in * end; cbn [app] in *;
         first [congruence | lia | solve [eauto]]);
    try (repeat split; first [assumption | congruence | solve [eauto]]).

  Lemma GInv_rstep s s' e : LInv s -> SInv s -> GInv s -> rstep C s = Some (s', e) -> GInv s'.
  Proof.
    intros L V G H.
    rstep_cases H; norm; try exact G;
    destruct L as [Irng Ird Iopen Iw1 Iwu Iw3 Idcas2 Itk Itkr Itku1 Icl Itku2 Itcas Iunr Iabs Itclose Ilast Icnt Iarc Ish1a Ish1b Ish2a Ish2b];
    destruct V as [Vec Vsent Vwr1 Vwr Vtk1 Vtk2 Vtk3 Vshd Vunr];
    destruct G as [Glen Gcons Gwst Gwz Gsz Gok Goks Goksnd Gback Gbz Ghand];
    repeat match goal with b : bool |- _ => destruct b end;
    repeat match goal with E : ?x = _ |- _ => is_var x; lazymatch type of x with tctx => subst x | option nat => subst x | wsite => subst x end end;
    unfold returned, inhand, dropped, slot_l in *;
    rewrite ?Epc in *; repeat match goal with E : slot _ = _ |- _ => rewrite E in * end;
    pcsimpl; spec_refl; cbv iota in *; rewrite ?app_nil_r in *;
    try (exfalso;
         match goal with
         | I : forall c0 : tctx, TNone ?c <> TNone c0 /\ _ |- _ => exact (proj1 (I c) eq_refl)
         | I : forall c0 : tctx, TUnlock ?c None <> TNone c0 /\ _ |- _ => exact (proj2 (I c) eq_refl)
         | I : forall c0 : tctx, TFLoad ?c <> TFLoad c0 /\ _ |- _ => exact (proj1 (I c) eq_refl)
         | I : forall c0 : tctx, TFCnt ?c <> TFLoad c0 /\ _ |- _ => exact (proj2 (I c) eq_refl)
         end).
    all: constructor; lst; prep; gsolve1.
  Qed.

  Lemma wrote_nil_writer s t :
    LInv s -> GInv s -> writer (spc s t) = true -> spc s t <> SSwap -> wrote s = [].
  Proof.
    intros L G W E. apply nil_of_notin. intros w Hw.
    pose proof (l_w1 _ _ L t W) as X.
    destruct (g_wst _ G w Hw) as [A|[A|[A B]]]; try congruence.
    assert (W2 : writer (spc s w) = true) by (rewrite B; reflexivity).
    pose proof (l_wu _ _ L w t W2 W). subst. congruence.
  Qed.

  Ltac splitvars :=
    repeat match goal with
           | u : nat |- _ => lazymatch goal with
                             | |- context [upd _ ?t0 _ u] => split_thr u t0
                             | H : context [upd _ ?t0 _ u] |- _ => split_thr u t0
                             end
           end.

  Lemma GInv_sstep s t s' e : inr t -> LInv s -> SInv s -> GInv s -> sstep sprog s t = Some (s', e) -> GInv s'.
  Proof.
    intros Rt L V G H.
    pose proof (wrote_nil_writer s t L G) as Hwn.
    sstep_cases H; norm; try exact G;
    destruct L as [Irng Ird Iopen Iw1 Iwu Iw3 Idcas2 Itk Itkr Itku1 Icl Itku2 Itcas Iunr Iabs Itclose Ilast Icnt Iarc Ish1a Ish1b Ish2a Ish2b];
    destruct V as [Vec Vsent Vwr1 Vwr Vtk1 Vtk2 Vtk3 Vshd Vunr];
    destruct G as [Glen Gcons Gwst Gwz Gsz Gok Goks Goksnd Gback Gbz Ghand];
    repeat match goal with E : ?x = _ |- _ => is_var x; lazymatch type of x with tctx => subst x | option nat => subst x | wsite => subst x end end;
    pose proof (Iw1 t) as Iw1t;
    assert (Iwut : writer (spc s t) = true -> forall u, writer (spc s u) = true -> t = u) by (intros X u; exact (Iwu t u X));
    pose proof (Gwz t) as Gwzt; pose proof (Gsz t) as Gszt; pose proof (Gok t) as Gokt; pose proof (Gbz t) as Gbzt;
    pose proof (Vwr1 t) as Vwr1t;
    unfold returned, inhand, dropped, slot_l in *;
    cbv beta in *; rewrite Epc in *; repeat match goal with E : slot _ = _ |- _ => rewrite E in * end;
    pcsimpl; spec_refl; repeat match goal with E : slot _ = _ |- _ => rewrite E in * end;
    cbv iota in *; rewrite ?app_nil_r in *;
    repeat match goal with X : ?a <> ?b -> _ |- _ => specialize (X ltac:(discriminate)) end;
    try (rewrite Hwn in *; cbn [length In] in *;
         match goal with X : _ ++ _ ++ _ = [] |- _ => destruct (app3_nil _ _ _ X) as [? [? ?]] end).
    all: constructor; lst; intros; splitvars; rewrite ?Epc in *; prep; gsolve1.
  Qed.

  Lemma GInv_step s t c s' e :
    LInv s -> SInv s -> GInv s -> step C n sprog s t c = Some (s', e) -> GInv s'.
  Proof.
    intros L V G H. unfold step in H. destruct t as [|k].
    - exact (GInv_rstep _ _ _ L V G H).
    - destruct (Nat.leb (S k) n) eqn:E; [|discriminate].
      apply Nat.leb_le in E. apply (GInv_sstep s (S k) s' e); [unfold OneshotK3Life.inr; lia|exact L|exact V|exact G|exact H].
  Qed.

  Definition Inv1 (s : st) : Prop := LInv s /\ SInv s /\ GInv s.

  Theorem Inv1_reachable rp s : reachable (sys C n sprog rp) s -> Inv1 s.
  Proof.
    apply (invariant_lift (sys C n sprog rp) Inv1).
    - split; [apply LInv_init|split; [apply SInv_init|apply GInv_init]].
    - intros s0 t c s1 e [L [V G]] H. split; [|split].
      + exact (LInv_step C n sprog s0 t c s1 e L H).
      + exact (SInv_step C n sprog s0 t c s1 e L V H).
      + exact (GInv_step s0 t c s1 e L V G H).
  Qed.

  (* ---------------------------------------------------------------- consequences *)
  Lemma cntf_all_false f k : (forall t, 1 <= t <= k -> f t = false) -> cntf f k = 0.
  Proof.
    induction k as [|k IH]; intros H; cbn [cntf]; [reflexivity|].
    rewrite (H (S k)) by lia. rewrite IH; [reflexivity|]. intros t Ht. apply H. lia.
  Qed.

  Lemma all_done_shdone s : LInv s -> all_done n s -> shdone s.
  Proof.
    intros L [R S]. unfold shdone. split; [|split].
    - rewrite (l_arc _ _ L). rewrite R. cbn [rrel].
      rewrite cntf_all_false; [reflexivity|]. intros t Ht. cbv beta. rewrite (S t Ht). reflexivity.
    - rewrite R. discriminate.
    - intros t X. destruct (le_lt_dec 1 t) as [A|A]; [destruct (le_lt_dec t n) as [B|B]|].
      + rewrite (S t (conj A B)) in X. discriminate.
      + rewrite (l_rng _ _ L t) in X; [discriminate|]. unfold OneshotK3Life.inr. lia.
      + rewrite (l_rng _ _ L t) in X; [discriminate|]. unfold OneshotK3Life.inr. lia.
  Qed.

  Section Thms.
    Variable rp : list rop.
    Variable s : st.
    Hypothesis R : reachable (sys C n sprog rp) s.

    (* at most one sender is ever inside the EMPTY->WRITING critical section *)
    Theorem k3_one_writer t u : writer (spc s t) = true -> writer (spc s u) = true -> t = u.
    Proof. destruct (Inv1_reachable rp s R) as [L _]. apply (l_wu _ _ L). Qed.

    Theorem k3_writing_iff_writer : cs s = Writing <-> exists t, inr t /\ writer (spc s t) = true.
    Proof.
      destruct (Inv1_reachable rp s R) as [L _]. split.
      - apply (l_w3 _ _ L).
      - intros [t [_ W]]. apply (l_w1 _ _ L t W).
    Qed.

    (* at most one value is ever written into the slot, at most one send reports Ok, and it is that writer's *)
    Theorem k3_one_value : length (wrote s) <= 1.
    Proof. destruct (Inv1_reachable rp s R) as [_ [_ G]]. apply (g_len _ G). Qed.

    Theorem k3_one_ok : length (oks s) <= 1 /\ incl (oks s) (wrote s).
    Proof.
      destruct (Inv1_reachable rp s R) as [_ [_ G]].
      assert (I : incl (oks s) (wrote s)) by (intros x Hx; apply (g_oks _ G x Hx)).
      split; [|exact I].
      pose proof (NoDup_incl_length (g_oksnd _ G) I). pose proof (g_len _ G). lia.
    Qed.

    (* a send that failed (Sent / Closed) never wrote its value: it was handed back untouched *)
    Theorem k3_failed_send_no_effect t : In t (back s) -> ~ In t (wrote s) /\ ~ In t (oks s).
    Proof.
      destruct (Inv1_reachable rp s R) as [_ [_ G]]. intros H. split.
      - apply (g_back _ G t H).
      - intros X. apply (g_back _ G t H). apply (g_oks _ G t X).
    Qed.

    (* the slot is occupied exactly as the state machine says *)
    Theorem k3_slot_state :
      (cs s = Empty \/ cs s = Closed -> slot s = None) /\
      (cs s = Sent -> slot s <> None \/ shdone s) /\
      (cs s = Writing -> slot s = None \/ exists t, spc s t = SSwap /\ slot s = Some t) /\
      (cs s = Taken -> slot s <> None -> rtaker (rpc s) = true \/ exists t, spc s t = DLock).
    Proof.
      destruct (Inv1_reachable rp s R) as [_ [V _]]. split; [|split; [|split]].
      - apply (v_ec _ V).
      - apply (v_sent _ V).
      - intros W. destruct (v_wr _ V W) as [X|[t X]]; [left; exact X|right].
        exists t. split; [exact X|apply (v_wr1 _ V t X)].
      - apply (v_tk3 _ V).
    Qed.

    (* conservation: every written value is in exactly one place *)
    Theorem k3_conservation :
      (returned s ++ inhand s) ++ dropped s ++ slot_l s = wrote s.
    Proof.
      destruct (Inv1_reachable rp s R) as [_ [_ G]]. rewrite (g_hand _ G). apply (g_cons _ G).
    Qed.

    Theorem k3_no_dup_no_phantom : NoDup (returned s) /\ incl (returned s) (wrote s) /\ length (returned s) <= 1.
    Proof.
      pose proof k3_conservation as E. pose proof k3_one_value as Ln.
      assert (Ll : length (returned s) <= 1).
      { rewrite <- E in Ln. rewrite !app_length in Ln. lia. }
      split; [|split; [|exact Ll]].
      - destruct (returned s) as [|a [|b l]]; [constructor|constructor; [intros []|constructor]|cbn in Ll; lia].
      - intros x Hx. rewrite <- E. apply in_or_app. left. apply in_or_app. left. exact Hx.
    Qed.

    (* after teardown: the slot is empty and every written value was consumed exactly once, by the
       receiver's take or by exactly one destructor (receiver close/drop, last sender, shared drop) *)
    Theorem k3_final_accounting :
      all_done n s ->
      slot s = None /\ returned s ++ dropped s = wrote s /\ length (returned s) + length (drops s) = length (wrote s).
    Proof.
      intros D. destruct (Inv1_reachable rp s R) as [L [V G]].
      pose proof (v_shd _ V (all_done_shdone s L D)) as Sl.
      pose proof k3_conservation as E. unfold slot_l, inhand in E. rewrite Sl in E.
      destruct D as [Rd _]. rewrite Rd in E. rewrite !app_nil_r in E.
      split; [exact Sl|split; [exact E|]].
      rewrite <- E. rewrite app_length. unfold dropped. rewrite map_length. reflexivity.
    Qed.

    Theorem k3_ok_value_consumed_once v :
      all_done n s -> In v (oks s) ->
      (returned s = [v] /\ drops s = []) \/ (returned s = [] /\ exists d, drops s = [(v, d)]).
    Proof.
      intros D Hv. destruct (k3_final_accounting D) as [_ [E Ln]].
      destruct k3_one_ok as [_ I]. pose proof (I v Hv) as Hw. pose proof k3_one_value as L1.
      destruct (wrote s) as [|w [|w2 l]] eqn:Ew; [destruct Hw| |cbn in L1; lia].
      destruct Hw as [->|[]]. cbn [length] in Ln.
      destruct (returned s) as [|a [|b l]] eqn:Er.
      - right. split; [reflexivity|]. unfold dropped in E. cbn [app] in E.
        destruct (drops s) as [|[x d] [|y l]]; cbn in E, Ln; try discriminate; try lia.
        injection E as ->. exists d. reflexivity.
      - left. cbn in E, Ln. destruct (drops s); [|cbn in Ln; lia].
        unfold dropped in E. cbn in E. injection E as ->. split; reflexivity.
      - cbn in Ln. lia.
    Qed.
  End Thms.
End Vals.


