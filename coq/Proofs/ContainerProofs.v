(* Proofs/ContainerProofs.v — lemmas and main theorems about Ioc/Container.v (property C18). *)
From Fibre Require Import Common.Base Ioc.Container.

(** * equality tests *)
Lemma oN_eqb_spec a b : reflect (a = b) (oN_eqb a b).
Proof.
  destruct a as [x|], b as [y|]; cbn [oN_eqb]; try (constructor; congruence).
  destruct (N.eqb_spec x y); constructor; congruence.
Qed.

Lemma key_eqb_spec a b : reflect (a = b) (key_eqb a b).
Proof.
  destruct a as [t n], b as [t' n']. unfold key_eqb. cbn [fst snd].
  destruct (N.eqb_spec t t'); cbn [andb]; [|constructor; congruence].
  destruct (oN_eqb_spec n n'); constructor; congruence.
Qed.

Lemma slot_eqb_spec a b : reflect (a = b) (slot_eqb a b).
Proof.
  destruct a as [c k], b as [c' k']. unfold slot_eqb. cbn [fst snd].
  destruct (N.eqb_spec c c'); cbn [andb]; [|constructor; congruence].
  destruct (key_eqb_spec k k'); constructor; congruence.
Qed.

Lemma slot_eqb_refl a : slot_eqb a a = true.
Proof. destruct (slot_eqb_spec a a); congruence. Qed.

Lemma kmem_In k l : kmem k l = true <-> In k l.
Proof.
  unfold kmem. rewrite existsb_exists. split.
  - intros [x [Hx He]]. destruct (key_eqb_spec k x); [subst; exact Hx | discriminate].
  - intros H. exists k. split; [exact H|]. destruct (key_eqb_spec k k); congruence.
Qed.

Lemma kmem_false k l : kmem k l = false <-> ~ In k l.
Proof.
  rewrite <- kmem_In. destruct (kmem k l); split; intros H.
  - discriminate.
  - exfalso. apply H. reflexivity.
  - intros H2. discriminate.
  - reflexivity.
Qed.

(** * association-list facts *)
Lemma plookup_In sl l p : plookup sl l = Some p -> In (sl, p) l.
Proof.
  induction l as [|[sl' p'] t IH]; cbn [plookup]; intros H; [discriminate|].
  destruct (slot_eqb_spec sl sl') as [->|Hn].
  - inversion H; subst. left. reflexivity.
  - right. apply IH. exact H.
Qed.

Lemma plookup_premove_eq sl l : plookup sl (premove sl l) = None.
Proof.
  induction l as [|[sl' p'] t IH]; cbn [premove plookup]; [reflexivity|].
  destruct (slot_eqb_spec sl sl') as [->|Hn]; [exact IH|].
  cbn [plookup]. destruct (slot_eqb_spec sl sl'); [contradiction | exact IH].
Qed.

Lemma plookup_premove_neq sl z l : z <> sl -> plookup z (premove sl l) = plookup z l.
Proof.
  intros Hne. induction l as [|[sl' p'] t IH]; cbn [premove plookup]; [reflexivity|].
  destruct (slot_eqb_spec sl sl') as [->|Hn].
  - destruct (slot_eqb_spec z sl'); [contradiction | exact IH].
  - cbn [plookup]. destruct (slot_eqb_spec z sl'); [reflexivity | exact IH].
Qed.

Lemma plookup_pinsert sl p z l :
  plookup z (pinsert sl p l) = if slot_eqb z sl then Some p else plookup z l.
Proof.
  unfold pinsert. cbn [plookup].
  destruct (slot_eqb_spec z sl) as [->|Hn]; [reflexivity|].
  apply plookup_premove_neq. exact Hn.
Qed.

Lemma plookup_pset sl p z l :
  plookup z (pset sl p l) =
  if slot_eqb z sl then match plookup sl l with Some _ => Some p | None => None end
  else plookup z l.
Proof.
  induction l as [|[sl' p'] t IH]; cbn [pset plookup].
  - destruct (slot_eqb z sl); reflexivity.
  - destruct (slot_eqb_spec sl sl') as [->|Hn]; cbn [plookup].
    + destruct (slot_eqb_spec z sl'); reflexivity.
    + destruct (slot_eqb_spec z sl') as [->|Hn2].
      * destruct (slot_eqb_spec sl' sl); [congruence | reflexivity].
      * exact IH.
Qed.

(** shape of a provider: everything but the cell *)
Definition pshape (p : provider) : N * script * bool :=
  (pfid p, pscript p, match p with PSingleton _ _ _ => true | PTransient _ _ => false end).
Definition eshape (x : slot * provider) : slot * (N * script * bool) := (fst x, pshape (snd x)).
Definition same_shape (l l' : pmap) : Prop := map eshape l' = map eshape l.

Lemma same_shape_refl l : same_shape l l.
Proof. reflexivity. Qed.

Lemma same_shape_trans a b c : same_shape a b -> same_shape b c -> same_shape a c.
Proof. unfold same_shape. congruence. Qed.

Lemma same_shape_sym a b : same_shape a b -> same_shape b a.
Proof. unfold same_shape. congruence. Qed.

Lemma same_shape_lookup l l' z :
  same_shape l l' -> option_map pshape (plookup z l') = option_map pshape (plookup z l).
Proof.
  unfold same_shape. revert l'.
  induction l as [|[a p] t IH]; intros [|[a' p'] t'] H; cbn [map] in H; try discriminate; [reflexivity|].
  assert (Hh : eshape (a', p') = eshape (a, p)) by congruence.
  assert (Ht : map eshape t' = map eshape t) by congruence.
  pose proof (f_equal fst Hh) as Ha. pose proof (f_equal snd Hh) as Hp.
  unfold eshape in Ha, Hp. cbn [fst snd] in Ha, Hp. subst a'.
  cbn [plookup]. destruct (slot_eqb z a).
  - cbn [option_map]. congruence.
  - apply IH. exact Ht.
Qed.

Lemma same_shape_keys l l' : same_shape l l' -> map fst l' = map fst l.
Proof.
  unfold same_shape. intros H.
  assert (E : forall m : pmap, map fst m = map fst (map eshape m)).
  { intros m. rewrite map_map. apply map_ext. intros [a p]. reflexivity. }
  rewrite (E l'), (E l), H. reflexivity.
Qed.

Lemma same_shape_pset sl p p' l :
  plookup sl l = Some p -> pshape p' = pshape p -> same_shape l (pset sl p' l).
Proof.
  unfold same_shape. induction l as [|[a q] t IH]; cbn [plookup pset]; intros H Hs; [discriminate|].
  destruct (slot_eqb_spec sl a) as [->|Hn].
  - inversion H; subst. cbn [map]. unfold eshape. cbn [fst snd]. rewrite Hs. reflexivity.
  - cbn [map]. f_equal. apply IH; assumption.
Qed.

Lemma same_shape_some l l' z p :
  same_shape l l' -> plookup z l' = Some p ->
  exists q, plookup z l = Some q /\ pshape q = pshape p.
Proof.
  intros H E. pose proof (same_shape_lookup l l' z H) as S. rewrite E in S. cbn [option_map] in S.
  destruct (plookup z l) as [q|]; cbn [option_map] in S; [|discriminate].
  exists q. split; [reflexivity | congruence].
Qed.

Lemma same_shape_none l l' z : same_shape l l' -> plookup z l = None -> plookup z l' = None.
Proof.
  intros H E. pose proof (same_shape_lookup l l' z H) as S. rewrite E in S. cbn [option_map] in S.
  destruct (plookup z l'); [discriminate | reflexivity].
Qed.

(** * an induction principle for [resolve] / [run_deps] *)
Section ResolveInd.
  Variable P : nat -> st -> list key -> slot -> st -> res -> Prop.
  Variable Q : nat -> list key -> st -> script -> list (option N) -> st -> dres -> Prop.

  Definition deps_of (f : nat) (stk : list key) := run_deps (fun s0 dsl => resolve f s0 stk dsl).

  Hypothesis P_fuel : forall s stk sl, P O s stk sl s RFuel.
  Hypothesis P_hit : forall f s stk sl, kmem (skey sl) stk = true -> P (S f) s stk sl s RPanic.
  Hypothesis P_none : forall f s stk sl,
    kmem (skey sl) stk = false -> plookup sl (provs s) = None -> P (S f) s stk sl s RNone.
  Hypothesis P_cached : forall f s stk sl p i,
    kmem (skey sl) stk = false -> plookup sl (provs s) = Some p -> cached p = Some i ->
    P (S f) s stk sl s (RSome i).
  Hypothesis P_ok : forall f s stk sl p s1 seen,
    kmem (skey sl) stk = false -> plookup sl (provs s) = Some p -> cached p = None ->
    deps_of f (skey sl :: stk) (mark_started s (pfid p)) (pscript p) [] = (s1, DOk seen) ->
    Q f (skey sl :: stk) (mark_started s (pfid p)) (pscript p) [] s1 (DOk seen) ->
    P (S f) s stk sl (complete s1 sl p seen) (RSome (next s1)).
  Hypothesis P_panic : forall f s stk sl p s1,
    kmem (skey sl) stk = false -> plookup sl (provs s) = Some p -> cached p = None ->
    deps_of f (skey sl :: stk) (mark_started s (pfid p)) (pscript p) [] = (s1, DPanic) ->
    Q f (skey sl :: stk) (mark_started s (pfid p)) (pscript p) [] s1 DPanic ->
    P (S f) s stk sl s1 RPanic.
  Hypothesis P_dfuel : forall f s stk sl p s1,
    kmem (skey sl) stk = false -> plookup sl (provs s) = Some p -> cached p = None ->
    deps_of f (skey sl :: stk) (mark_started s (pfid p)) (pscript p) [] = (s1, DFuel) ->
    Q f (skey sl :: stk) (mark_started s (pfid p)) (pscript p) [] s1 DFuel ->
    P (S f) s stk sl s1 RFuel.

  Hypothesis Q_nil : forall f stk s seen, Q f stk s [] seen s (DOk seen).
  Hypothesis Q_panic : forall f stk s d req r seen s1,
    resolve f s stk d = (s1, RPanic) -> P f s stk d s1 RPanic -> Q f stk s ((d, req) :: r) seen s1 DPanic.
  Hypothesis Q_fuel : forall f stk s d req r seen s1,
    resolve f s stk d = (s1, RFuel) -> P f s stk d s1 RFuel -> Q f stk s ((d, req) :: r) seen s1 DFuel.
  Hypothesis Q_req : forall f stk s d r seen s1,
    resolve f s stk d = (s1, RNone) -> P f s stk d s1 RNone -> Q f stk s ((d, true) :: r) seen s1 DPanic.
  Hypothesis Q_skip : forall f stk s d r seen s1 s2 dr,
    resolve f s stk d = (s1, RNone) -> P f s stk d s1 RNone ->
    deps_of f stk s1 r (seen ++ [None]) = (s2, dr) ->
    Q f stk s1 r (seen ++ [None]) s2 dr -> Q f stk s ((d, false) :: r) seen s2 dr.
  Hypothesis Q_some : forall f stk s d req r seen s1 i s2 dr,
    resolve f s stk d = (s1, RSome i) -> P f s stk d s1 (RSome i) ->
    deps_of f stk s1 r (seen ++ [Some i]) = (s2, dr) ->
    Q f stk s1 r (seen ++ [Some i]) s2 dr -> Q f stk s ((d, req) :: r) seen s2 dr.

  Lemma deps_ind_aux f :
    (forall s stk sl s' r, resolve f s stk sl = (s', r) -> P f s stk sl s' r) ->
    forall stk sc s seen s' d, deps_of f stk s sc seen = (s', d) -> Q f stk s sc seen s' d.
  Proof.
    intros IH stk sc. induction sc as [|[d0 req] r IHr]; intros s seen s' d H.
    - unfold deps_of in H. cbn [run_deps] in H. injection H as <- <-. apply Q_nil.
    - unfold deps_of in H. cbn [run_deps] in H.
      destruct (resolve f s stk d0) as [s1 x] eqn:E.
      pose proof (IH _ _ _ _ _ E) as HP.
      destruct x as [|i| |].
      + destruct req.
        * injection H as <- <-. apply Q_req; assumption.
        * apply (Q_skip f stk s d0 r seen s1 s' d E HP H). apply IHr. exact H.
      + apply (Q_some f stk s d0 req r seen s1 i s' d E HP H). apply IHr. exact H.
      + injection H as <- <-. apply Q_panic; assumption.
      + injection H as <- <-. apply Q_fuel; assumption.
  Qed.

  Lemma resolve_ind2 : forall f s stk sl s' r, resolve f s stk sl = (s', r) -> P f s stk sl s' r.
  Proof.
    induction f as [|f IH]; intros s stk sl s' r H.
    - cbn [resolve] in H. injection H as <- <-. apply P_fuel.
    - cbn [resolve] in H.
      destruct (kmem (skey sl) stk) eqn:Ek.
      { injection H as <- <-. apply P_hit. exact Ek. }
      destruct (plookup sl (provs s)) as [p|] eqn:El.
      2:{ injection H as <- <-. apply P_none; assumption. }
      destruct (cached p) as [i|] eqn:Ec.
      { injection H as <- <-. apply (P_cached f s stk sl p i); assumption. }
      destruct (run_deps (fun s' dsl => resolve f s' (skey sl :: stk) dsl)
                         (mark_started s (pfid p)) (pscript p) []) as [s1 d] eqn:Ed.
      pose proof (deps_ind_aux f IH _ _ _ _ _ _ Ed) as HQ.
      destruct d as [seen| |]; injection H as <- <-.
      + apply P_ok; assumption.
      + apply (P_panic f s stk sl p s1); assumption.
      + apply (P_dfuel f s stk sl p s1); assumption.
  Qed.

  Lemma deps_ind2 : forall f stk sc s seen s' d,
    deps_of f stk s sc seen = (s', d) -> Q f stk s sc seen s' d.
  Proof. intros f. apply deps_ind_aux. apply resolve_ind2. Qed.

  Lemma resolve_both :
    (forall f s stk sl s' r, resolve f s stk sl = (s', r) -> P f s stk sl s' r) /\
    (forall f stk sc s seen s' d, deps_of f stk s sc seen = (s', d) -> Q f stk s sc seen s' d).
  Proof. split; [exact resolve_ind2 | exact deps_ind2]. Qed.
End ResolveInd.

(** * what a resolution never changes: registrations, their ids and scripts; ids only grow *)
Definition stable (s s' : st) : Prop :=
  same_shape (provs s) (provs s') /\ nextf s' = nextf s /\ kinds s' = kinds s /\ next s <= next s'.

Lemma stable_refl s : stable s s.
Proof. unfold stable. repeat split; try reflexivity; lia. Qed.

Lemma stable_trans a b c : stable a b -> stable b c -> stable a c.
Proof.
  unfold stable. intros (A1 & A2 & A3 & A4) (B1 & B2 & B3 & B4).
  split; [eapply same_shape_trans; eassumption|].
  split; [congruence|]. split; [congruence | lia].
Qed.

Lemma stable_started s fid : stable s (mark_started s fid).
Proof. unfold stable, mark_started. cbn [provs nextf kinds next]. repeat split; try reflexivity; lia. Qed.

Lemma complete_lookup s sl p seen z q :
  plookup sl (provs s) = Some q ->
  plookup z (provs (complete s sl p seen)) =
  if slot_eqb z sl
  then match p with
       | PSingleton fid _ sc => Some (PSingleton fid (Some (next s)) sc)
       | PTransient _ _ => Some q
       end
  else plookup z (provs s).
Proof.
  intros Hq. unfold complete. cbn [provs]. destruct p as [fid c sc|fid sc].
  - rewrite plookup_pset, Hq. reflexivity.
  - destruct (slot_eqb_spec z sl) as [->|Hn]; [exact Hq | reflexivity].
Qed.

Lemma stable_complete s sl p q seen :
  plookup sl (provs s) = Some q -> pshape q = pshape p -> stable s (complete s sl p seen).
Proof.
  intros Hq Hs. unfold stable. repeat split.
  - unfold complete. cbn [provs]. destruct p as [fid c sc|fid sc]; [|apply same_shape_refl].
    eapply same_shape_pset; [exact Hq|]. rewrite Hs. reflexivity.
  - unfold complete. cbn [next]. lia.
Qed.

Lemma stable_both :
  (forall f s stk sl s' r, resolve f s stk sl = (s', r) -> stable s s') /\
  (forall f stk sc s seen s' d, deps_of f stk s sc seen = (s', d) -> stable s s').
Proof.
  apply (resolve_both (fun _ s _ _ s' _ => stable s s') (fun _ _ s _ _ s' _ => stable s s')).
  - intros. apply stable_refl.
  - intros. apply stable_refl.
  - intros. apply stable_refl.
  - intros. apply stable_refl.
  - intros f s stk sl p s1 seen Hk Hl Hc Hd HQ.
    assert (St1 : stable s s1) by (eapply stable_trans; [apply stable_started | exact HQ]).
    eapply stable_trans; [exact St1|].
    destruct St1 as (Sh & _).
    destruct (same_shape_some _ _ sl p (same_shape_sym _ _ Sh) Hl) as (q & Hq & Hs).
    eapply stable_complete; [exact Hq | exact Hs].
  - intros f s stk sl p s1 Hk Hl Hc Hd HQ. eapply stable_trans; [apply stable_started | exact HQ].
  - intros f s stk sl p s1 Hk Hl Hc Hd HQ. eapply stable_trans; [apply stable_started | exact HQ].
  - intros. apply stable_refl.
  - intros; assumption.
  - intros; assumption.
  - intros; assumption.
  - intros. eapply stable_trans; eassumption.
  - intros. eapply stable_trans; eassumption.
Qed.

Definition resolve_stable := proj1 stable_both.
Definition deps_stable := proj2 stable_both.

(** a successful or None answer means the key was not on the resolution stack *)
Lemma resolve_hit f s stk sl s' r :
  resolve f s stk sl = (s', r) -> kmem (skey sl) stk = true -> r = RPanic \/ r = RFuel.
Proof.
  destruct f as [|f]; cbn [resolve]; intros H Hk.
  - injection H as <- <-. right. reflexivity.
  - rewrite Hk in H. injection H as <- <-. left. reflexivity.
Qed.

(** * slots whose key is on the resolution stack are not touched *)
Lemma stack_frame_both :
  (forall f s stk sl s' r, resolve f s stk sl = (s', r) ->
     forall z, In (skey z) stk -> plookup z (provs s') = plookup z (provs s)) /\
  (forall f stk sc s seen s' d, deps_of f stk s sc seen = (s', d) ->
     forall z, In (skey z) stk -> plookup z (provs s') = plookup z (provs s)).
Proof.
  apply (resolve_both
    (fun _ s stk _ s' _ => forall z, In (skey z) stk -> plookup z (provs s') = plookup z (provs s))
    (fun _ stk s _ _ s' _ => forall z, In (skey z) stk -> plookup z (provs s') = plookup z (provs s))).
  - reflexivity.
  - reflexivity.
  - reflexivity.
  - reflexivity.
  - intros f s stk sl p s1 seen Hk Hl Hc Hd HQ z Hz.
    assert (Hsl : plookup sl (provs s1) = Some p).
    { rewrite (HQ sl (or_introl eq_refl)). exact Hl. }
    rewrite (complete_lookup s1 sl p seen z p Hsl).
    destruct (slot_eqb_spec z sl) as [->|Hn].
    + apply kmem_false in Hk. contradiction.
    + rewrite (HQ z (or_intror Hz)). reflexivity.
  - intros f s stk sl p s1 Hk Hl Hc Hd HQ z Hz. rewrite (HQ z (or_intror Hz)). reflexivity.
  - intros f s stk sl p s1 Hk Hl Hc Hd HQ z Hz. rewrite (HQ z (or_intror Hz)). reflexivity.
  - reflexivity.
  - intros; auto.
  - intros; auto.
  - intros; auto.
  - intros f stk s d r seen s1 s2 dr E HP Ed HQ z Hz. rewrite (HQ z Hz). apply HP. exact Hz.
  - intros f stk s d req r seen s1 i s2 dr E HP Ed HQ z Hz. rewrite (HQ z Hz). apply HP. exact Hz.
Qed.

Definition resolve_stack_frame := proj1 stack_frame_both.
Definition deps_stack_frame := proj2 stack_frame_both.

(** * the supplied fuel never runs out *)
Definition offstack (stk : list key) (x : slot * provider) : bool := negb (kmem (skey (fst x)) stk).
Definition room (pv : pmap) (stk : list key) : nat := length (filter (offstack stk) pv).

Lemma filter_length_le {A} (f g : A -> bool) l :
  (forall x, f x = true -> g x = true) -> (length (filter f l) <= length (filter g l))%nat.
Proof.
  intros H. induction l as [|x t IH]; cbn [filter length]; [lia|].
  destruct (f x) eqn:Ef.
  - rewrite (H x Ef). cbn [length]. lia.
  - destruct (g x); cbn [length]; lia.
Qed.

Lemma filter_length_lt {A} (f g : A -> bool) l a :
  (forall x, f x = true -> g x = true) -> In a l -> f a = false -> g a = true ->
  (length (filter f l) < length (filter g l))%nat.
Proof.
  intros H Hin Hf Hg. induction l as [|x t IH]; [contradiction|].
  cbn [filter]. destruct Hin as [->|Hin].
  - rewrite Hf, Hg. cbn [length]. pose proof (filter_length_le f g t H). lia.
  - specialize (IH Hin). destruct (f x) eqn:Ef.
    + rewrite (H x Ef). cbn [length]. lia.
    + destruct (g x); cbn [length]; lia.
Qed.

Lemma offstack_mono k stk x : offstack (k :: stk) x = true -> offstack stk x = true.
Proof.
  unfold offstack. cbn [kmem existsb]. fold (kmem (skey (fst x)) stk).
  destruct (key_eqb (skey (fst x)) k); cbn [orb negb]; [discriminate | auto].
Qed.

Lemma room_push pv sl p stk :
  plookup sl pv = Some p -> kmem (skey sl) stk = false -> (room pv (skey sl :: stk) < room pv stk)%nat.
Proof.
  intros Hl Hk. apply plookup_In in Hl. unfold room.
  apply (filter_length_lt _ _ pv (sl, p)); [apply offstack_mono | exact Hl | |].
  - unfold offstack. cbn [fst kmem existsb].
    destruct (key_eqb_spec (skey sl) (skey sl)) as [_|Hn]; [reflexivity | congruence].
  - unfold offstack. cbn [fst]. rewrite Hk. reflexivity.
Qed.

Lemma room_keys pv stk :
  room pv stk = length (filter (fun sl => negb (kmem (skey sl) stk)) (map fst pv)).
Proof.
  unfold room. induction pv as [|x t IH]; cbn [filter map length]; [reflexivity|].
  unfold offstack at 1. destruct (negb (kmem (skey (fst x)) stk)); cbn [length]; rewrite IH; reflexivity.
Qed.

Lemma room_shape pv pv' stk : same_shape pv pv' -> room pv' stk = room pv stk.
Proof. intros H. rewrite !room_keys, (same_shape_keys _ _ H). reflexivity. Qed.

Lemma fuel_both :
  (forall f s stk sl s' r, resolve f s stk sl = (s', r) ->
     (room (provs s) stk < f)%nat -> r <> RFuel) /\
  (forall f stk sc s seen s' d, deps_of f stk s sc seen = (s', d) ->
     (room (provs s) stk < f)%nat -> d <> DFuel).
Proof.
  apply (resolve_both
    (fun f s stk _ _ r => (room (provs s) stk < f)%nat -> r <> RFuel)
    (fun f stk s _ _ _ d => (room (provs s) stk < f)%nat -> d <> DFuel)).
  - intros s stk sl H. lia.
  - intros; discriminate.
  - intros; discriminate.
  - intros; discriminate.
  - intros; discriminate.
  - intros; discriminate.
  - intros f s stk sl p s1 Hk Hl Hc Hd HQ Hr. exfalso. apply HQ; [|reflexivity].
    cbn [mark_started provs]. pose proof (room_push _ _ _ _ Hl Hk). lia.
  - intros; discriminate.
  - intros; discriminate.
  - intros f stk s d req r seen s1 E HP Hr. exfalso. apply (HP Hr). reflexivity.
  - intros; discriminate.
  - intros f stk s d r seen s1 s2 dr E HP Ed HQ Hr. apply HQ.
    rewrite (room_shape _ _ stk (proj1 (resolve_stable _ _ _ _ _ _ E))). exact Hr.
  - intros f stk s d req r seen s1 i s2 dr E HP Ed HQ Hr. apply HQ.
    rewrite (room_shape _ _ stk (proj1 (resolve_stable _ _ _ _ _ _ E))). exact Hr.
Qed.

Lemma room_top pv : room pv [] = length pv.
Proof.
  unfold room. induction pv as [|x t IH]; cbn [filter length]; [reflexivity|].
  unfold offstack at 1. cbn [kmem existsb negb length]. rewrite IH. reflexivity.
Qed.

(** out-of-fuel is unreachable: every resolution terminates with None, Some or Panic *)
Theorem no_out_of_fuel s sl : snd (resolve (fuel_of s) s [] sl) <> RFuel.
Proof.
  destruct (resolve (fuel_of s) s [] sl) as [s' r] eqn:E. cbn [snd].
  eapply (proj1 fuel_both); [exact E|]. rewrite room_top. unfold fuel_of. lia.
Qed.

(** * dependency cycles are reported by a panic *)
(* the script a resolution of [a] would run now: registered, and not an initialised singleton *)
Definition lscript (pv : pmap) (a : slot) : option script :=
  match plookup a pv with
  | Some p => match cached p with None => Some (pscript p) | Some _ => None end
  | None => None
  end.

(* reach pv a b: a path of length >= 1 along scripts that would run (live edges) *)
Inductive reach (pv : pmap) : slot -> slot -> Prop :=
| reach_step a sc b req : lscript pv a = Some sc -> In (b, req) sc -> reach pv a b
| reach_trans a sc c req b : lscript pv a = Some sc -> In (c, req) sc -> reach pv c b -> reach pv a b.

Definition bad (pv : pmap) (stk : list key) (a : slot) : Prop :=
  exists b, reach pv a b /\ (In (skey b) stk \/ reach pv b b).

Definition NC (pv0 : pmap) (stk : list key) (pv : pmap) : Prop :=
  forall z, bad pv0 stk z -> plookup z pv = plookup z pv0.

Lemma lscript_inv pv a sc :
  lscript pv a = Some sc -> exists p, plookup a pv = Some p /\ cached p = None /\ pscript p = sc.
Proof.
  unfold lscript. destruct (plookup a pv) as [p|]; [|discriminate].
  destruct (cached p) eqn:E; [discriminate|]. intros H. injection H as <-. eauto.
Qed.

Lemma lscript_of pv a p : plookup a pv = Some p -> cached p = None -> lscript pv a = Some (pscript p).
Proof. unfold lscript. intros -> ->. reflexivity. Qed.

Lemma reach_lscript pv a b : reach pv a b -> exists sc, lscript pv a = Some sc.
Proof. intros H. destruct H; eauto. Qed.

Lemma reach_transfer pv0 pv b :
  (forall x, reach pv0 x b -> plookup x pv = plookup x pv0) ->
  forall z, reach pv0 z b -> reach pv z b.
Proof.
  intros T z H. induction H as [a sc b req Hs Hin | a sc c req b Hs Hin Hr IH].
  - apply (reach_step pv a sc b req); [|exact Hin].
    unfold lscript. rewrite (T a (reach_step pv0 a sc b req Hs Hin)). exact Hs.
  - apply (reach_trans pv a sc c req b); [|exact Hin|apply IH; exact T].
    unfold lscript. rewrite (T a (reach_trans pv0 a sc c req b Hs Hin Hr)). exact Hs.
Qed.

Lemma bad_transfer pv0 stk pv stk' z :
  NC pv0 stk pv -> incl stk stk' -> bad pv0 stk z -> bad pv stk' z.
Proof.
  intros HNC Hincl (b & Hr & Hc). exists b.
  assert (T : forall x, reach pv0 x b -> plookup x pv = plookup x pv0).
  { intros x Hx. apply HNC. exists b. split; [exact Hx | exact Hc]. }
  split; [apply (reach_transfer pv0 pv b T); exact Hr|].
  destruct Hc as [Hc|Hc]; [left; apply Hincl; exact Hc | right; apply (reach_transfer pv0 pv b T); exact Hc].
Qed.

Lemma run_core pv0 stk s a p s1 d :
  plookup a (provs s) = Some p -> cached p = None ->
  NC pv0 stk (provs s) ->
  (forall pv0', NC pv0' (skey a :: stk) (provs s) ->
     NC pv0' (skey a :: stk) (provs s1) /\
     ((exists b req, In (b, req) (pscript p) /\ (In (skey b) (skey a :: stk) \/ bad pv0' (skey a :: stk) b)) ->
      d = DPanic \/ d = DFuel)) ->
  (forall z, bad pv0 stk z -> plookup z (provs s1) = plookup z (provs s)) /\
  (bad pv0 stk a -> d = DPanic \/ d = DFuel).
Proof.
  intros Hl Hc HNC HQ.
  destruct (HQ (provs s)) as (NC1 & Hd); [intros z _; reflexivity|].
  assert (TR : forall z, bad pv0 stk z -> bad (provs s) (skey a :: stk) z).
  { intros z Hz. eapply bad_transfer; [exact HNC | | exact Hz]. intros x Hx. right. exact Hx. }
  split.
  - intros z Hz. apply NC1. apply TR. exact Hz.
  - intros Hb. apply Hd. pose proof Hb as (b & Hr & Hcb).
    assert (Hsc : forall sc, lscript pv0 a = Some sc -> sc = pscript p).
    { intros sc Hs. unfold lscript in Hs. rewrite <- (HNC a Hb), Hl, Hc in Hs. congruence. }
    inversion Hr as [a' sc b' req Hs Hin | a' sc c req b' Hs Hin Hr']; subst.
    + exists b, req. rewrite <- (Hsc sc Hs). split; [exact Hin|].
      destruct Hcb as [Hk|Hcyc].
      * left. right. exact Hk.
      * right. apply TR. exists b. split; [exact Hcyc | right; exact Hcyc].
    + exists c, req. rewrite <- (Hsc sc Hs). split; [exact Hin|].
      right. apply TR. exists b. split; [exact Hr' | exact Hcb].
Qed.

Lemma cyc_both :
  (forall f s stk a s' r, resolve f s stk a = (s', r) ->
     forall pv0, NC pv0 stk (provs s) ->
       NC pv0 stk (provs s') /\ (bad pv0 stk a -> r = RPanic \/ r = RFuel)) /\
  (forall f stk sc s seen s' d, deps_of f stk s sc seen = (s', d) ->
     forall pv0, NC pv0 stk (provs s) ->
       NC pv0 stk (provs s') /\
       ((exists b req, In (b, req) sc /\ (In (skey b) stk \/ bad pv0 stk b)) -> d = DPanic \/ d = DFuel)).
Proof.
  apply (resolve_both
    (fun _ s stk a s' r => forall pv0, NC pv0 stk (provs s) ->
       NC pv0 stk (provs s') /\ (bad pv0 stk a -> r = RPanic \/ r = RFuel))
    (fun _ stk s sc _ s' d => forall pv0, NC pv0 stk (provs s) ->
       NC pv0 stk (provs s') /\
       ((exists b req, In (b, req) sc /\ (In (skey b) stk \/ bad pv0 stk b)) -> d = DPanic \/ d = DFuel))).
  - intros s stk sl pv0 H. split; [exact H | intros _; right; reflexivity].
  - intros f s stk sl Hk pv0 H. split; [exact H | intros _; left; reflexivity].
  - intros f s stk sl Hk Hl pv0 H. split; [exact H|]. intros Hb. exfalso.
    pose proof Hb as (b & Hr & _). destruct (reach_lscript _ _ _ Hr) as (sc & Hs).
    destruct (lscript_inv _ _ _ Hs) as (p & Hp & _). rewrite <- (H sl Hb), Hl in Hp. discriminate.
  - intros f s stk sl p i Hk Hl Hc pv0 H. split; [exact H|]. intros Hb. exfalso.
    pose proof Hb as (b & Hr & _). destruct (reach_lscript _ _ _ Hr) as (sc & Hs).
    destruct (lscript_inv _ _ _ Hs) as (p' & Hp & Hc' & _). rewrite <- (H sl Hb), Hl in Hp.
    injection Hp as <-. congruence.
  - intros f s stk sl p s1 seen Hk Hl Hc Hd HQ pv0 H.
    destruct (run_core pv0 stk s sl p s1 (DOk seen) Hl Hc H HQ) as (F & G).
    assert (Hnb : ~ bad pv0 stk sl).
    { intros Hb. destruct (G Hb); discriminate. }
    split; [|intros Hb; contradiction].
    intros z Hz.
    assert (Hsl : plookup sl (provs s1) = Some p).
    { rewrite (deps_stack_frame _ _ _ _ _ _ _ Hd sl (or_introl eq_refl)). exact Hl. }
    rewrite (complete_lookup s1 sl p seen z p Hsl).
    destruct (slot_eqb_spec z sl) as [->|Hn]; [contradiction|].
    rewrite (F z Hz). apply H. exact Hz.
  - intros f s stk sl p s1 Hk Hl Hc Hd HQ pv0 H.
    destruct (run_core pv0 stk s sl p s1 DPanic Hl Hc H HQ) as (F & G).
    split; [|intros _; left; reflexivity].
    intros z Hz. rewrite (F z Hz). apply H. exact Hz.
  - intros f s stk sl p s1 Hk Hl Hc Hd HQ pv0 H.
    destruct (run_core pv0 stk s sl p s1 DFuel Hl Hc H HQ) as (F & G).
    split; [|intros _; right; reflexivity].
    intros z Hz. rewrite (F z Hz). apply H. exact Hz.
  - intros f stk s seen pv0 H. split; [exact H|]. intros (b & req & [] & _).
  - intros f stk s d req r seen s1 E HP pv0 H. split; [apply (HP pv0 H) | intros _; left; reflexivity].
  - intros f stk s d req r seen s1 E HP pv0 H. split; [apply (HP pv0 H) | intros _; right; reflexivity].
  - intros f stk s d r seen s1 E HP pv0 H. split; [apply (HP pv0 H) | intros _; left; reflexivity].
  - intros f stk s d r seen s1 s2 dr E HP Ed HQ pv0 H.
    destruct (HP pv0 H) as (N1 & B1). destruct (HQ pv0 N1) as (N2 & B2).
    split; [exact N2|]. intros (b & req & [Heq|Hin] & Hc).
    + injection Heq as <- <-. exfalso. destruct Hc as [Hk|Hb].
      * apply kmem_In in Hk. destruct (resolve_hit _ _ _ _ _ _ E Hk); discriminate.
      * destruct (B1 Hb); discriminate.
    + apply B2. exists b, req. split; assumption.
  - intros f stk s d req r seen s1 i s2 dr E HP Ed HQ pv0 H.
    destruct (HP pv0 H) as (N1 & B1). destruct (HQ pv0 N1) as (N2 & B2).
    split; [exact N2|]. intros (b & req' & [Heq|Hin] & Hc).
    + injection Heq as <- <-. exfalso. destruct Hc as [Hk|Hb].
      * apply kmem_In in Hk. destruct (resolve_hit _ _ _ _ _ _ E Hk); discriminate.
      * destruct (B1 Hb); discriminate.
    + apply B2. exists b, req'. split; assumption.
Qed.

Lemma reach_inv pv a b :
  reach pv a b -> exists sc c req, lscript pv a = Some sc /\ In (c, req) sc /\ (c = b \/ reach pv c b).
Proof. intros H. destruct H; eauto 8. Qed.

(** If, from the resolved slot, scripts that would run now lead back to the slot's own key, or to
    any cycle of such scripts, the resolution panics (it neither hangs, nor overflows, nor answers). *)
Theorem cycle_panics s sl b :
  reach (provs s) sl b -> (skey b = skey sl \/ reach (provs s) b b) ->
  snd (step s (Resolve sl)) = OPanic.
Proof.
  intros Hr Hc. cbn [step].
  destruct (resolve (fuel_of s) s [] sl) as [s' r] eqn:E. cbn [snd].
  pose proof (no_out_of_fuel s sl) as NF. rewrite E in NF. cbn [snd] in NF.
  assert (Hp : r = RPanic); [|rewrite Hp; reflexivity].
  unfold fuel_of in E. cbn [resolve kmem existsb] in E.
  destruct (reach_inv _ _ _ Hr) as (sc & c & req & Hs & Hin & Hnext).
  destruct (lscript_inv _ _ _ Hs) as (p & Hp & Hcp & Hsc).
  rewrite Hp, Hcp in E.
  destruct (run_deps (fun s'0 dsl => resolve (length (provs s)) s'0 [skey sl] dsl)
                     (mark_started s (pfid p)) (pscript p) []) as [s1 d] eqn:Ed.
  assert (Hd : d = DPanic \/ d = DFuel).
  { refine (proj2 (proj2 cyc_both _ _ _ _ _ _ _ Ed (provs s) _) _).
    - intros z _. reflexivity.
    - rewrite Hsc. exists c, req. split; [exact Hin|].
      destruct Hnext as [->|Hcb].
      + destruct Hc as [Hk|Hcyc].
        * left. left. symmetry. exact Hk.
        * right. exists b. split; [exact Hcyc | right; exact Hcyc].
      + right. exists b. split; [exact Hcb|].
        destruct Hc as [Hk|Hcyc]; [left; left; symmetry; exact Hk | right; exact Hcyc]. }
  destruct Hd as [->| ->]; injection E as <- <-; [reflexivity | contradiction].
Qed.

(** * the state invariant (holds at top level and inside running factories) *)
Definition kind_match (p : provider) (k : kind) : Prop :=
  match p, k with
  | PTransient _ _, KTransient => True
  | PSingleton _ _ _, KSingleton => True
  | PSingleton _ (Some _) _, KInstance => True
  | _, _ => False
  end.

Definition cnt (x : N) (l : list N) : nat := count_occ N.eq_dec l x.

Lemma cnt_cons_eq x l : cnt x (x :: l) = S (cnt x l).
Proof. unfold cnt. apply count_occ_cons_eq. reflexivity. Qed.

Lemma cnt_cons_neq x y l : y <> x -> cnt x (y :: l) = cnt x l.
Proof. unfold cnt. intros H. apply count_occ_cons_neq. exact H. Qed.

Lemma cnt_zero x l : ~ In x l -> cnt x l = 0%nat.
Proof. unfold cnt. intros H. apply count_occ_not_In. exact H. Qed.

Record Inv (s : st) : Prop := {
  inv_fid_lt : forall sl p, plookup sl (provs s) = Some p -> pfid p < nextf s;
  inv_fid_inj : forall sl sl' p p',
      plookup sl (provs s) = Some p -> plookup sl' (provs s) = Some p' -> pfid p = pfid p' -> sl = sl';
  inv_cell : forall sl fid i sc,
      plookup sl (provs s) = Some (PSingleton fid (Some i) sc) ->
      (exists ds, ilookup i (insts s) = Some (fid, ds)) /\ i < next s;
  inv_empty : forall sl fid sc,
      plookup sl (provs s) = Some (PSingleton fid None sc) -> cnt fid (completed s) = 0%nat;
  inv_kinds_lt : forall f k, In (f, k) (kinds s) -> f < nextf s;
  inv_kind_ok : forall sl p k,
      plookup sl (provs s) = Some p -> In (pfid p, k) (kinds s) -> kind_match p k;
  inv_once : forall f k, In (f, k) (kinds s) -> k <> KTransient -> (cnt f (completed s) <= 1)%nat;
  inv_inst : forall f, In (f, KInstance) (kinds s) -> cnt f (started s) = 0%nat;
  inv_logs_lt : forall f, In f (started s) \/ In f (completed s) -> f < nextf s
}.

Lemma inv_init : Inv init.
Proof.
  constructor; cbn [init provs kinds started completed plookup]; intros; try discriminate;
    try contradiction.
  destruct H; contradiction.
Qed.

Lemma ilookup_skip i j x l : i <> j -> ilookup i ((j, x) :: l) = ilookup i l.
Proof. intros H. cbn [ilookup]. destruct (N.eqb_spec i j); [contradiction | reflexivity]. Qed.

Lemma ilookup_head i x l : ilookup i ((i, x) :: l) = Some x.
Proof. cbn [ilookup]. rewrite N.eqb_refl. reflexivity. Qed.

Lemma inv_register_gen s sl pnew k s' :
  Inv s ->
  provs s' = pinsert sl pnew (provs s) -> pfid pnew = nextf s -> nextf s' = nextf s + 1 ->
  kinds s' = (nextf s, k) :: kinds s -> started s' = started s -> completed s' = completed s ->
  kind_match pnew k -> next s <= next s' ->
  (forall i, i < next s -> ilookup i (insts s') = ilookup i (insts s)) ->
  (forall fid i sc, pnew = PSingleton fid (Some i) sc ->
     (exists ds, ilookup i (insts s') = Some (fid, ds)) /\ i < next s') ->
  Inv s'.
Proof.
  intros I Hp Hf Hnf Hk Hst Hco Hkm Hn Hil Hnew.
  assert (LK : forall z, plookup z (provs s') = if slot_eqb z sl then Some pnew else plookup z (provs s)).
  { intros z. rewrite Hp. apply plookup_pinsert. }
  assert (Hfresh : ~ In (nextf s) (started s) /\ ~ In (nextf s) (completed s)).
  { split; intros Hin; [pose proof (inv_logs_lt s I _ (or_introl Hin)) | pose proof (inv_logs_lt s I _ (or_intror Hin))]; lia. }
  constructor.
  - intros z p H. rewrite LK in H. destruct (slot_eqb z sl).
    + injection H as <-. lia.
    + pose proof (inv_fid_lt s I z p H). lia.
  - intros z z' p p' H H' E. rewrite LK in H, H'.
    destruct (slot_eqb_spec z sl) as [->|Hn1]; destruct (slot_eqb_spec z' sl) as [->|Hn2]; try reflexivity.
    + injection H as <-. pose proof (inv_fid_lt s I z' p' H'). lia.
    + injection H' as <-. pose proof (inv_fid_lt s I z p H). lia.
    + apply (inv_fid_inj s I z z' p p' H H' E).
  - intros z fid i sc H. rewrite LK in H. destruct (slot_eqb z sl).
    + injection H as ->. apply (Hnew fid i sc). reflexivity.
    + destruct (inv_cell s I z fid i sc H) as ((ds & Hds) & Hlt). split; [|lia].
      exists ds. rewrite (Hil i Hlt). exact Hds.
  - intros z fid sc H. rewrite LK in H. rewrite Hco. destruct (slot_eqb z sl).
    + injection H as ->. cbn [pfid] in Hf. subst fid. apply cnt_zero. apply Hfresh.
    + apply (inv_empty s I z fid sc H).
  - intros f k0 H. rewrite Hk in H. destruct H as [E|H].
    + injection E as <- <-. lia.
    + pose proof (inv_kinds_lt s I f k0 H). lia.
  - intros z p k0 H Hin. rewrite LK in H. rewrite Hk in Hin. destruct (slot_eqb z sl).
    + injection H as <-. destruct Hin as [E|Hin].
      * injection E as _ <-. exact Hkm.
      * pose proof (inv_kinds_lt s I _ _ Hin). lia.
    + destruct Hin as [E|Hin].
      * injection E as E _. pose proof (inv_fid_lt s I z p H). lia.
      * apply (inv_kind_ok s I z p k0 H Hin).
  - intros f k0 H Hne. rewrite Hk in H. rewrite Hco. destruct H as [E|H].
    + injection E as <- <-. rewrite cnt_zero; [lia | apply Hfresh].
    + apply (inv_once s I f k0 H Hne).
  - intros f H. rewrite Hk in H. rewrite Hst. destruct H as [E|H].
    + injection E as <- _. apply cnt_zero. apply Hfresh.
    + apply (inv_inst s I f H).
  - intros f H. rewrite Hst, Hco in H. pose proof (inv_logs_lt s I f H). lia.
Qed.

Lemma inv_register s k sl sc : Inv s -> Inv (register s k sl sc).
Proof.
  intros I. destruct k; unfold register.
  - eapply (inv_register_gen s sl (PSingleton (nextf s) None sc) KSingleton); try exact I;
      cbn [provs nextf kinds started completed next insts pfid kind_match]; try reflexivity; try exact Logic.I.
    intros fid i sc' H. discriminate.
  - eapply (inv_register_gen s sl (PTransient (nextf s) sc) KTransient); try exact I;
      cbn [provs nextf kinds started completed next insts pfid kind_match]; try reflexivity; try exact Logic.I.
    intros fid i sc' H. discriminate.
  - eapply (inv_register_gen s sl (PSingleton (nextf s) (Some (next s)) []) KInstance); try exact I;
      cbn [provs nextf kinds started completed next insts pfid kind_match]; try reflexivity; try exact Logic.I.
    + lia.
    + intros i Hi. apply ilookup_skip. lia.
    + intros fid i sc' H. injection H as <- <- <-. split; [|lia]. exists []. apply ilookup_head.
Qed.

Lemma inv_started s a p :
  Inv s -> plookup a (provs s) = Some p -> cached p = None -> Inv (mark_started s (pfid p)).
Proof.
  intros I Hl Hc. constructor; unfold mark_started; cbn [provs nextf insts next kinds started completed].
  - apply (inv_fid_lt s I).
  - apply (inv_fid_inj s I).
  - apply (inv_cell s I).
  - apply (inv_empty s I).
  - apply (inv_kinds_lt s I).
  - apply (inv_kind_ok s I).
  - apply (inv_once s I).
  - intros f H. destruct (N.eq_dec (pfid p) f) as [E|E].
    + exfalso. subst f. pose proof (inv_kind_ok s I a p KInstance Hl H) as M.
      destruct p as [fid [i|] sc|fid sc]; cbn [kind_match cached] in *; try contradiction; discriminate.
    + rewrite (cnt_cons_neq f (pfid p) _ E). apply (inv_inst s I f H).
  - intros f [[E|H]|H].
    + subst f. apply (inv_fid_lt s I a p Hl).
    + apply (inv_logs_lt s I f (or_introl H)).
    + apply (inv_logs_lt s I f (or_intror H)).
Qed.

Lemma inv_complete s a p seen :
  Inv s -> plookup a (provs s) = Some p -> cached p = None -> Inv (complete s a p seen).
Proof.
  intros I Hl Hc.
  pose proof (fun z => complete_lookup s a p seen z p Hl) as CL.
  assert (NF : nextf (complete s a p seen) = nextf s) by reflexivity.
  assert (KD : kinds (complete s a p seen) = kinds s) by reflexivity.
  assert (ST : started (complete s a p seen) = started s) by reflexivity.
  assert (CO : completed (complete s a p seen) = pfid p :: completed s) by reflexivity.
  assert (NX : next (complete s a p seen) = next s + 1) by reflexivity.
  assert (IN : insts (complete s a p seen) = (next s, (pfid p, seen)) :: insts s) by reflexivity.
  assert (SH : forall z q, plookup z (provs (complete s a p seen)) = Some q ->
                exists q0, plookup z (provs s) = Some q0 /\ pfid q0 = pfid q).
  { intros z q H. rewrite CL in H. destruct (slot_eqb_spec z a) as [->|Hn].
    - exists p. split; [exact Hl|]. destruct p; injection H as <-; reflexivity.
    - exists q. split; [exact H | reflexivity]. }
  constructor.
  - intros z q H. destruct (SH z q H) as (q0 & H0 & E). rewrite NF, <- E. apply (inv_fid_lt s I z q0 H0).
  - intros z z' q q' H H' E. destruct (SH z q H) as (q0 & H0 & E0). destruct (SH z' q' H') as (q0' & H0' & E0').
    apply (inv_fid_inj s I z z' q0 q0' H0 H0'). congruence.
  - intros z fid i sc H. rewrite CL in H. rewrite IN, NX. destruct (slot_eqb_spec z a) as [->|Hn].
    + destruct p as [fid0 c sc0|fid0 sc0].
      * injection H as <- <- <-. split; [|lia]. exists seen. cbn [pfid]. apply ilookup_head.
      * discriminate.
    + destruct (inv_cell s I z fid i sc H) as ((ds & Hds) & Hlt).
      split; [|lia]. exists ds. rewrite ilookup_skip; [exact Hds | lia].
  - intros z fid sc H. rewrite CL in H. rewrite CO. destruct (slot_eqb_spec z a) as [->|Hn].
    + destruct p as [fid0 c sc0|fid0 sc0]; discriminate.
    + rewrite cnt_cons_neq; [apply (inv_empty s I z fid sc H)|].
      intros E. apply Hn. symmetry.
      apply (inv_fid_inj s I a z p (PSingleton fid None sc) Hl H). exact E.
  - intros f k H. rewrite KD in H. rewrite NF. apply (inv_kinds_lt s I f k H).
  - intros z q k H Hin. rewrite KD in Hin. rewrite CL in H. destruct (slot_eqb_spec z a) as [->|Hn].
    + pose proof (inv_kind_ok s I a p k Hl) as M.
      destruct p as [fid0 [i0|] sc0|fid0 sc0]; cbn [cached] in Hc; try discriminate;
        injection H as <-; cbn [pfid] in *; specialize (M Hin); destruct k; cbn [kind_match] in *; auto.
    + apply (inv_kind_ok s I z q k H Hin).
  - intros f k H Hne. rewrite KD in H. rewrite CO. destruct (N.eq_dec (pfid p) f) as [E|E].
    + subst f. rewrite cnt_cons_eq. pose proof (inv_kind_ok s I a p k Hl H) as M.
      destruct p as [fid0 [i0|] sc0|fid0 sc0]; cbn [cached] in Hc; try discriminate.
      * cbn [pfid]. rewrite (inv_empty s I a fid0 sc0 Hl). lia.
      * destruct k; cbn [kind_match] in M; try contradiction; congruence.
    + rewrite cnt_cons_neq; [apply (inv_once s I f k H Hne) | exact E].
  - intros f H. rewrite KD in H. rewrite ST. apply (inv_inst s I f H).
  - intros f H. rewrite ST, CO, NF in *. destruct H as [H|[E|H]].
    + apply (inv_logs_lt s I f (or_introl H)).
    + subst f. apply (inv_fid_lt s I a p Hl).
    + apply (inv_logs_lt s I f (or_intror H)).
Qed.

Lemma inv_both :
  (forall f s stk sl s' r, resolve f s stk sl = (s', r) -> Inv s -> Inv s') /\
  (forall f stk sc s seen s' d, deps_of f stk s sc seen = (s', d) -> Inv s -> Inv s').
Proof.
  apply (resolve_both (fun _ s _ _ s' _ => Inv s -> Inv s') (fun _ _ s _ _ s' _ => Inv s -> Inv s')).
  - auto.
  - auto.
  - auto.
  - auto.
  - intros f s stk sl p s1 seen Hk Hl Hc Hd HQ I.
    apply inv_complete; [apply HQ; eapply inv_started; eassumption | | exact Hc].
    rewrite (deps_stack_frame _ _ _ _ _ _ _ Hd sl (or_introl eq_refl)). exact Hl.
  - intros f s stk sl p s1 Hk Hl Hc Hd HQ I. apply HQ. eapply inv_started; eassumption.
  - intros f s stk sl p s1 Hk Hl Hc Hd HQ I. apply HQ. eapply inv_started; eassumption.
  - auto.
  - auto.
  - auto.
  - auto.
  - auto.
  - auto.
Qed.

Lemma inv_step s o : Inv s -> Inv (fst (step s o)).
Proof.
  intros I. destruct o as [k sl sc|sl]; cbn [step fst].
  - apply inv_register. exact I.
  - destruct (resolve (fuel_of s) s [] sl) as [s' r] eqn:E. cbn [fst].
    apply (proj1 inv_both _ _ _ _ _ _ E I).
Qed.

Lemma run_app s a b :
  run s (a ++ b) = let '(s1, xs) := run s a in let '(s2, ys) := run s1 b in (s2, xs ++ ys).
Proof.
  revert s. induction a as [|o t IH]; intros s; cbn [app run].
  - destruct (run s b); reflexivity.
  - destruct (step s o) as [s1 x]. rewrite IH. destruct (run s1 t) as [s2 xs].
    destruct (run s2 b) as [s3 ys]. reflexivity.
Qed.

Lemma inv_run s ops : Inv s -> Inv (fst (run s ops)).
Proof.
  revert s. induction ops as [|o t IH]; intros s I; cbn [run fst]; [exact I|].
  destruct (step s o) as [s1 x] eqn:E. specialize (IH s1).
  destruct (run s1 t) as [s2 xs]. cbn [fst] in *. apply IH.
  pose proof (inv_step s o I) as J. rewrite E in J. exact J.
Qed.

Lemma inv_reachable ops : Inv (fst (run init ops)).
Proof. apply inv_run. apply inv_init. Qed.

(** * property clauses *)
Lemma step_resolve_inv s sl s' o :
  step s (Resolve sl) = (s', o) -> exists r, resolve (fuel_of s) s [] sl = (s', r) /\ o = out_of s' r.
Proof.
  cbn [step]. destruct (resolve (fuel_of s) s [] sl) as [s1 r]. intros H. injection H as <- <-.
  exists r. split; reflexivity.
Qed.

Lemma out_of_some s r i f ds : out_of s r = OSome i f ds -> r = RSome i.
Proof.
  destruct r as [|j| |]; cbn [out_of]; try discriminate.
  destruct (ilookup j (insts s)) as [[f0 ds0]|]; intros H; injection H as <- _ _; reflexivity.
Qed.

(** one unfolding of a successful resolution *)
Lemma resolve_some f s stk sl s' i :
  resolve f s stk sl = (s', RSome i) -> Inv s ->
  exists p, plookup sl (provs s) = Some p /\
    (exists ds, ilookup i (insts s') = Some (pfid p, ds)) /\
    ((cached p = Some i /\ s' = s) \/
     (cached p = None /\ next s <= i /\ i < next s' /\
      plookup sl (provs s') = Some (match p with
                                    | PSingleton fid _ sc => PSingleton fid (Some i) sc
                                    | PTransient _ _ => p end))).
Proof.
  intros H I. destruct f as [|f]; cbn [resolve] in H; [discriminate|].
  destruct (kmem (skey sl) stk) eqn:Ek; [discriminate|].
  destruct (plookup sl (provs s)) as [p|] eqn:El; [|discriminate].
  exists p. split; [reflexivity|].
  destruct (cached p) as [j|] eqn:Ec.
  - injection H as <- <-. split; [|left; split; reflexivity].
    destruct p as [fid [c|] sc|fid sc]; cbn [cached] in Ec; try discriminate. injection Ec as ->.
    destruct (inv_cell s I sl fid j sc El) as (Hds & _). exact Hds.
  - destruct (run_deps (fun s'0 dsl => resolve f s'0 (skey sl :: stk) dsl)
                       (mark_started s (pfid p)) (pscript p) []) as [s1 d] eqn:Ed.
    destruct d as [seen| |]; try discriminate. injection H as <- <-.
    assert (Hsl : plookup sl (provs s1) = Some p).
    { rewrite (deps_stack_frame _ _ _ _ _ _ _ Ed sl (or_introl eq_refl)). exact El. }
    pose proof (deps_stable _ _ _ _ _ _ _ Ed) as (_ & _ & _ & Hn). cbn [mark_started next] in Hn.
    split; [exists seen; cbn [complete insts]; apply ilookup_head|].
    right. split; [reflexivity|]. split; [exact Hn|]. split; [cbn [complete next]; lia|].
    rewrite (complete_lookup s1 sl p seen sl p Hsl), slot_eqb_refl.
    destruct p; reflexivity.
Qed.

(** unregistered => None, and nothing changes *)
Theorem unregistered_none s sl :
  plookup sl (provs s) = None -> step s (Resolve sl) = (s, ONone).
Proof.
  intros H. cbn [step]. unfold fuel_of. cbn [resolve kmem existsb]. rewrite H. reflexivity.
Qed.

Definition registers (sl : slot) (o : op) : bool :=
  match o with Register _ sl' _ => slot_eqb sl sl' | Resolve _ => false end.
Definition no_register (sl : slot) (ops : list op) : Prop := forallb (fun o => negb (registers sl o)) ops = true.

Lemma step_stable s sl s' o : step s (Resolve sl) = (s', o) -> stable s s'.
Proof.
  intros H. destruct (step_resolve_inv _ _ _ _ H) as (r & E & _). exact (resolve_stable _ _ _ _ _ _ E).
Qed.

Lemma register_lookup s k sl sc z :
  plookup z (provs (register s k sl sc)) =
  if slot_eqb z sl
  then Some (match k with
             | KSingleton => PSingleton (nextf s) None sc
             | KTransient => PTransient (nextf s) sc
             | KInstance => PSingleton (nextf s) (Some (next s)) []
             end)
  else plookup z (provs s).
Proof. destruct k; unfold register; cbn [provs]; apply plookup_pinsert. Qed.

(** a key is unregistered exactly when no registration of it occurred *)
Lemma registered_run s ops sl :
  plookup sl (provs (fst (run s ops))) = None <-> plookup sl (provs s) = None /\ no_register sl ops.
Proof.
  unfold no_register. revert s. induction ops as [|o t IH]; intros s; cbn [run fst forallb].
  - tauto.
  - destruct (step s o) as [s1 x] eqn:E. specialize (IH s1). destruct (run s1 t) as [s2 xs]. cbn [fst] in *.
    rewrite IH. destruct o as [k sl' sc|sl']; cbn [registers].
    + cbn [step] in E. injection E as <- _. rewrite register_lookup.
      destruct (slot_eqb sl sl'); cbn [negb andb]; split; intros [A B]; try discriminate; auto.
    + cbn [negb andb]. pose proof (step_stable _ _ _ _ E) as (Sh & _).
      split; intros [A B]; split; auto.
      * destruct (plookup sl (provs s)) as [p|] eqn:El; [|reflexivity].
        destruct (same_shape_some _ _ sl p (same_shape_sym _ _ Sh) El) as (q & Hq & _). congruence.
      * eapply same_shape_none; eassumption.
Qed.

Theorem unregistered_history ops sl :
  no_register sl ops ->
  let s := fst (run init ops) in step s (Resolve sl) = (s, ONone).
Proof.
  intros H. cbn zeta. apply unregistered_none. apply registered_run. split; [reflexivity | exact H].
Qed.

(** the registration found at a key is the latest one *)
Lemma fid_stable_run s ops sl :
  no_register sl ops ->
  option_map pfid (plookup sl (provs (fst (run s ops)))) = option_map pfid (plookup sl (provs s)).
Proof.
  unfold no_register. revert s. induction ops as [|o t IH]; intros s H; cbn [run fst forallb] in *; [reflexivity|].
  apply andb_true_iff in H as [H1 H2].
  destruct (step s o) as [s1 x] eqn:E. specialize (IH s1 H2). destruct (run s1 t) as [s2 xs]. cbn [fst] in *.
  rewrite IH. destruct o as [k sl' sc|sl']; cbn [registers] in H1.
  - cbn [step] in E. injection E as <- _. rewrite register_lookup.
    destruct (slot_eqb sl sl'); [discriminate | reflexivity].
  - pose proof (step_stable _ _ _ _ E) as (Sh & _).
    pose proof (same_shape_lookup _ _ sl Sh) as L.
    destruct (plookup sl (provs s1)) as [p1|], (plookup sl (provs s)) as [p0|]; cbn [option_map] in *;
      try discriminate; [|reflexivity]. unfold pshape in L. congruence.
Qed.

(** an instance handed out for a key was produced by the registration currently at that key *)
Theorem resolved_by_current s sl s' i f ds :
  Inv s -> step s (Resolve sl) = (s', OSome i f ds) ->
  exists p, plookup sl (provs s) = Some p /\ pfid p = f.
Proof.
  intros I H. destruct (step_resolve_inv _ _ _ _ H) as (r & E & Ho).
  symmetry in Ho. pose proof (out_of_some _ _ _ _ _ Ho) as ->.
  destruct (resolve_some _ _ _ _ _ _ E I) as (p & Hp & (ds' & Hds) & _).
  exists p. split; [exact Hp|]. cbn [out_of] in Ho. rewrite Hds in Ho. congruence.
Qed.

Theorem latest_wins s k sl sc ops s3 i f ds :
  Inv s -> no_register sl ops ->
  let s1 := fst (step s (Register k sl sc)) in
  let s2 := fst (run s1 ops) in
  step s2 (Resolve sl) = (s3, OSome i f ds) -> f = nextf s.
Proof.
  intros I Hn s1 s2 H.
  assert (I2 : Inv s2) by (apply inv_run; apply inv_step; exact I).
  destruct (resolved_by_current _ _ _ _ _ _ I2 H) as (p & Hp & <-).
  pose proof (fid_stable_run s1 ops sl Hn) as L. fold s2 in L. rewrite Hp in L.
  unfold s1 in L. cbn [step fst] in L. rewrite register_lookup, slot_eqb_refl in L.
  cbn [option_map] in L. destruct k; cbn [pfid] in L; congruence.
Qed.

(** distinct keys never alias: the producing registration sits at the resolved slot and nowhere else *)
Theorem no_alias s sl s' i f ds sl' p' :
  Inv s -> step s (Resolve sl) = (s', OSome i f ds) ->
  plookup sl' (provs s) = Some p' -> pfid p' = f -> sl' = sl.
Proof.
  intros I H Hp' Hf. destruct (resolved_by_current _ _ _ _ _ _ I H) as (p & Hp & E).
  apply (inv_fid_inj s I sl' sl p' p Hp' Hp). congruence.
Qed.

(** a resolution only touches slots reachable through dependency scripts *)
Inductive sreach (pv : pmap) : slot -> slot -> Prop :=
| sr_refl a : sreach pv a a
| sr_step a p c req b : plookup a pv = Some p -> In (c, req) (pscript p) -> sreach pv c b -> sreach pv a b.

Lemma sreach_shape pv pv' a b : same_shape pv pv' -> sreach pv' a b -> sreach pv a b.
Proof.
  intros Sh H. induction H as [a | a p c req b Hp Hin Hr IH]; [apply sr_refl|].
  destruct (same_shape_some _ _ a p Sh Hp) as (q & Hq & Hs).
  apply (sr_step pv a q c req b Hq); [|exact IH]. unfold pshape in Hs. replace (pscript q) with (pscript p) by congruence.
  exact Hin.
Qed.

Lemma frame_both :
  (forall f s stk a s' r, resolve f s stk a = (s', r) ->
     forall z, ~ sreach (provs s) a z -> plookup z (provs s') = plookup z (provs s)) /\
  (forall f stk sc s seen s' d, deps_of f stk s sc seen = (s', d) ->
     forall z, (forall c req, In (c, req) sc -> ~ sreach (provs s) c z) ->
       plookup z (provs s') = plookup z (provs s)).
Proof.
  apply (resolve_both
    (fun _ s _ a s' _ => forall z, ~ sreach (provs s) a z -> plookup z (provs s') = plookup z (provs s))
    (fun _ _ s sc _ s' _ => forall z, (forall c req, In (c, req) sc -> ~ sreach (provs s) c z) ->
       plookup z (provs s') = plookup z (provs s))).
  - reflexivity.
  - reflexivity.
  - reflexivity.
  - reflexivity.
  - intros f s stk sl p s1 seen Hk Hl Hc Hd HQ z Hz.
    assert (Hsl : plookup sl (provs s1) = Some p).
    { rewrite (deps_stack_frame _ _ _ _ _ _ _ Hd sl (or_introl eq_refl)). exact Hl. }
    rewrite (complete_lookup s1 sl p seen z p Hsl).
    destruct (slot_eqb_spec z sl) as [->|Hn]; [exfalso; apply Hz; apply sr_refl|].
    apply HQ. intros c req Hin Hr. apply Hz. apply (sr_step _ sl p c req z Hl Hin Hr).
  - intros f s stk sl p s1 Hk Hl Hc Hd HQ z Hz.
    apply HQ. intros c req Hin Hr. apply Hz. apply (sr_step _ sl p c req z Hl Hin Hr).
  - intros f s stk sl p s1 Hk Hl Hc Hd HQ z Hz.
    apply HQ. intros c req Hin Hr. apply Hz. apply (sr_step _ sl p c req z Hl Hin Hr).
  - reflexivity.
  - intros f stk s d req r seen s1 E HP z Hz. apply HP. apply (Hz d req). left. reflexivity.
  - intros f stk s d req r seen s1 E HP z Hz. apply HP. apply (Hz d req). left. reflexivity.
  - intros f stk s d r seen s1 E HP z Hz. apply HP. apply (Hz d true). left. reflexivity.
  - intros f stk s d r seen s1 s2 dr E HP Ed HQ z Hz.
    rewrite HQ; [apply HP; apply (Hz d false); left; reflexivity|].
    intros c req Hin Hr. apply (Hz c req (or_intror Hin)).
    eapply sreach_shape; [exact (proj1 (resolve_stable _ _ _ _ _ _ E)) | exact Hr].
  - intros f stk s d req r seen s1 i s2 dr E HP Ed HQ z Hz.
    rewrite HQ; [apply HP; apply (Hz d req); left; reflexivity|].
    intros c req' Hin Hr. apply (Hz c req' (or_intror Hin)).
    eapply sreach_shape; [exact (proj1 (resolve_stable _ _ _ _ _ _ E)) | exact Hr].
Qed.

Theorem resolve_frame s sl s' o z :
  step s (Resolve sl) = (s', o) -> ~ sreach (provs s) sl z -> plookup z (provs s') = plookup z (provs s).
Proof.
  intros H Hz. destruct (step_resolve_inv _ _ _ _ H) as (r & E & _).
  exact (proj1 frame_both _ _ _ _ _ _ E z Hz).
Qed.

(** transient => a fresh instance on every resolution *)
Theorem transient_fresh s sl fid sc s' i f ds :
  Inv s -> plookup sl (provs s) = Some (PTransient fid sc) ->
  step s (Resolve sl) = (s', OSome i f ds) -> next s <= i /\ i < next s'.
Proof.
  intros I Hp H. destruct (step_resolve_inv _ _ _ _ H) as (r & E & Ho).
  symmetry in Ho. pose proof (out_of_some _ _ _ _ _ Ho) as ->.
  destruct (resolve_some _ _ _ _ _ _ E I) as (p & Hp' & _ & [[Hc _]|(_ & A & B & _)]).
  - rewrite Hp in Hp'. injection Hp' as <-. discriminate.
  - split; assumption.
Qed.

Lemma step_next_mono s o : next s <= next (fst (step s o)).
Proof.
  destruct o as [k sl sc|sl].
  - cbn [step fst]. destruct k; unfold register; cbn [next]; lia.
  - destruct (step s (Resolve sl)) as [s' x] eqn:E. cbn [fst]. apply (step_stable _ _ _ _ E).
Qed.

Lemma run_next_mono s ops : next s <= next (fst (run s ops)).
Proof.
  revert s. induction ops as [|o t IH]; intros s; cbn [run fst]; [lia|].
  pose proof (step_next_mono s o) as M. destruct (step s o) as [s1 x]. specialize (IH s1).
  destruct (run s1 t) as [s2 xs]. cbn [fst] in *. lia.
Qed.

Lemma step_out_lt s sl s' i f ds : Inv s -> step s (Resolve sl) = (s', OSome i f ds) -> i < next s'.
Proof.
  intros I H. destruct (step_resolve_inv _ _ _ _ H) as (r & E & Ho).
  symmetry in Ho. pose proof (out_of_some _ _ _ _ _ Ho) as ->.
  destruct (resolve_some _ _ _ _ _ _ E I) as (p & Hp & _ & [[Hc ->]|(_ & _ & B & _)]); [|exact B].
  destruct p as [fid [c|] sc|fid sc]; cbn [cached] in Hc; try discriminate. injection Hc as ->.
  apply (inv_cell s I sl fid i sc Hp).
Qed.

Lemma outs_lt s ops s' outs j f ds :
  Inv s -> run s ops = (s', outs) -> In (OSome j f ds) outs -> j < next s'.
Proof.
  revert s s' outs. induction ops as [|o t IH]; intros s s' outs I H Hin; cbn [run] in H.
  - injection H as <- <-. contradiction.
  - destruct (step s o) as [s1 x] eqn:E. destruct (run s1 t) as [s2 xs] eqn:Er. injection H as <- <-.
    assert (I1 : Inv s1) by (pose proof (inv_step s o I) as J; rewrite E in J; exact J).
    destruct Hin as [->|Hin]; [|apply (IH s1 s2 xs I1 Er Hin)].
    pose proof (run_next_mono s1 t) as M. rewrite Er in M. cbn [fst] in M.
    destruct o as [k sl sc|sl]; [cbn [step] in E; discriminate|].
    pose proof (step_out_lt _ _ _ _ _ _ I E). lia.
Qed.

Theorem transient_never_repeats ops s outs sl fid sc s' i f ds :
  run init ops = (s, outs) -> plookup sl (provs s) = Some (PTransient fid sc) ->
  step s (Resolve sl) = (s', OSome i f ds) ->
  forall j f' ds', In (OSome j f' ds') outs -> j < i.
Proof.
  intros Hr Hp H j f' ds' Hin.
  assert (I : Inv s) by (pose proof (inv_reachable ops) as J; rewrite Hr in J; exact J).
  pose proof (outs_lt init ops s outs j f' ds' inv_init Hr Hin).
  destruct (transient_fresh _ _ _ _ _ _ _ _ I Hp H). lia.
Qed.

(** singleton => the factory completes at most once per registration; add_instance never runs one *)
Theorem singleton_once ops f k :
  let s := fst (run init ops) in
  In (f, k) (kinds s) -> k <> KTransient -> (cnt f (completed s) <= 1)%nat.
Proof. cbn zeta. apply inv_once. apply inv_reachable. Qed.

Theorem instance_factory_never_runs ops f :
  let s := fst (run init ops) in In (f, KInstance) (kinds s) -> cnt f (started s) = 0%nat.
Proof. cbn zeta. apply inv_inst. apply inv_reachable. Qed.

Lemma kinds_grow s ops x : In x (kinds s) -> In x (kinds (fst (run s ops))).
Proof.
  revert s. induction ops as [|o t IH]; intros s H; cbn [run fst]; [exact H|].
  destruct (step s o) as [s1 y] eqn:E. specialize (IH s1). destruct (run s1 t) as [s2 ys]. cbn [fst] in *.
  apply IH. destruct o as [k sl sc|sl].
  - cbn [step] in E. injection E as <- _. destruct k; unfold register; cbn [kinds]; right; exact H.
  - destruct (step_stable _ _ _ _ E) as (_ & _ & -> & _). exact H.
Qed.

Lemma register_kind s k sl sc : In (nextf s, k) (kinds (register s k sl sc)).
Proof. destruct k; unfold register; cbn [kinds]; left; reflexivity. Qed.

(** an initialised cell stays as it is until the key is registered again *)
Lemma cell_both :
  (forall f s stk a s' r, resolve f s stk a = (s', r) ->
     forall z fid i sc, plookup z (provs s) = Some (PSingleton fid (Some i) sc) ->
       plookup z (provs s') = Some (PSingleton fid (Some i) sc)) /\
  (forall f stk sc0 s seen s' d, deps_of f stk s sc0 seen = (s', d) ->
     forall z fid i sc, plookup z (provs s) = Some (PSingleton fid (Some i) sc) ->
       plookup z (provs s') = Some (PSingleton fid (Some i) sc)).
Proof.
  apply (resolve_both
    (fun _ s _ _ s' _ => forall z fid i sc, plookup z (provs s) = Some (PSingleton fid (Some i) sc) ->
       plookup z (provs s') = Some (PSingleton fid (Some i) sc))
    (fun _ _ s _ _ s' _ => forall z fid i sc, plookup z (provs s) = Some (PSingleton fid (Some i) sc) ->
       plookup z (provs s') = Some (PSingleton fid (Some i) sc))); auto.
  intros f s stk sl p s1 seen Hk Hl Hc Hd HQ z fid i sc Hz.
  assert (Hsl : plookup sl (provs s1) = Some p).
  { rewrite (deps_stack_frame _ _ _ _ _ _ _ Hd sl (or_introl eq_refl)). exact Hl. }
  rewrite (complete_lookup s1 sl p seen z p Hsl).
  destruct (slot_eqb_spec z sl) as [->|Hn].
  - rewrite Hl in Hz. injection Hz as ->. discriminate.
  - apply HQ. exact Hz.
Qed.

Lemma cell_stable_run s ops sl fid i sc :
  no_register sl ops -> plookup sl (provs s) = Some (PSingleton fid (Some i) sc) ->
  plookup sl (provs (fst (run s ops))) = Some (PSingleton fid (Some i) sc).
Proof.
  unfold no_register. revert s. induction ops as [|o t IH]; intros s H Hp; cbn [run fst forallb] in *; [exact Hp|].
  apply andb_true_iff in H as [H1 H2].
  destruct (step s o) as [s1 x] eqn:E. specialize (IH s1 H2). destruct (run s1 t) as [s2 xs]. cbn [fst] in *.
  apply IH. destruct o as [k sl' sc'|sl']; cbn [registers] in H1.
  - cbn [step] in E. injection E as <- _. rewrite register_lookup.
    destruct (slot_eqb sl sl'); [discriminate | exact Hp].
  - destruct (step_resolve_inv _ _ _ _ E) as (r & Er & _).
    exact (proj1 cell_both _ _ _ _ _ _ Er sl fid i sc Hp).
Qed.

Lemma cached_resolve s sl fid i sc :
  plookup sl (provs s) = Some (PSingleton fid (Some i) sc) ->
  exists f ds, step s (Resolve sl) = (s, OSome i f ds).
Proof.
  intros H. cbn [step]. unfold fuel_of. cbn [resolve kmem existsb]. rewrite H. cbn [cached out_of].
  destruct (ilookup i (insts s)) as [[f ds]|]; eauto.
Qed.

(** singleton: once a resolution has succeeded, every later resolution — whatever happens in
    between, short of registering the key again — returns the same instance and changes nothing *)
Theorem singleton_same s sl fid c sc s1 i f ds ops :
  Inv s -> plookup sl (provs s) = Some (PSingleton fid c sc) ->
  step s (Resolve sl) = (s1, OSome i f ds) ->
  no_register sl ops ->
  let s2 := fst (run s1 ops) in
  exists f' ds', step s2 (Resolve sl) = (s2, OSome i f' ds').
Proof.
  intros I Hp H Hn s2.
  destruct (step_resolve_inv _ _ _ _ H) as (r & E & Ho).
  symmetry in Ho. pose proof (out_of_some _ _ _ _ _ Ho) as ->.
  destruct (resolve_some _ _ _ _ _ _ E I) as (p & Hp' & _ & D).
  rewrite Hp in Hp'. injection Hp' as <-.
  assert (C1 : plookup sl (provs s1) = Some (PSingleton fid (Some i) sc)).
  { destruct D as [[Hc ->]|(_ & _ & _ & Hl)]; [|exact Hl].
    destruct c as [c|]; cbn [cached] in Hc; [|discriminate]. injection Hc as ->. exact Hp. }
  apply (cached_resolve s2 sl fid i sc). apply cell_stable_run; assumption.
Qed.

(** * why a resolution panics (and finding F-33: the cause may be a mere key clash) *)
(* [path] = the slots whose factories are running (innermost first).  [hit] decides when the slot
   being resolved counts as "already being resolved". *)
Inductive pcause (hit : list slot -> slot -> Prop) (pv : pmap) : list slot -> slot -> Prop :=
| pc_hit path a : hit path a -> pcause hit pv path a
| pc_missing path a sc v : lscript pv a = Some sc -> In (v, true) sc -> plookup v pv = None ->
                           pcause hit pv path a
| pc_dep path a sc v req : lscript pv a = Some sc -> In (v, req) sc -> pcause hit pv (a :: path) v ->
                           pcause hit pv path a.

(* what the code does: RESOLVING_STACK holds (type, name) keys, whatever the container *)
Definition hit_key (path : list slot) (a : slot) : Prop := In (skey a) (map skey path).
(* what "a dependency cycle" means: the very same registration slot is being resolved *)
Definition hit_slot (path : list slot) (a : slot) : Prop := In a path.

Definition later (pv pv1 : pmap) : Prop :=
  (forall z sc, lscript pv1 z = Some sc -> lscript pv z = Some sc) /\
  (forall z, plookup z pv1 = None -> plookup z pv = None).

Lemma pcause_later hit pv pv1 path a : later pv pv1 -> pcause hit pv1 path a -> pcause hit pv path a.
Proof.
  intros (L1 & L2) H. induction H as [path a Hh | path a sc v Hs Hin Hn | path a sc v req Hs Hin Hc IH].
  - apply pc_hit. exact Hh.
  - eapply pc_missing; [apply L1; exact Hs | exact Hin | apply L2; exact Hn].
  - eapply pc_dep; [apply L1; exact Hs | exact Hin | exact IH].
Qed.

Lemma resolve_later f s stk a s' r : resolve f s stk a = (s', r) -> later (provs s) (provs s').
Proof.
  intros E. pose proof (resolve_stable _ _ _ _ _ _ E) as (Sh & _). split.
  - intros z sc Hs. destruct (lscript_inv _ _ _ Hs) as (p' & Hp' & Hc' & Hsc).
    destruct (same_shape_some _ _ z p' Sh Hp') as (q & Hq & Hsh).
    unfold lscript. rewrite Hq. destruct (cached q) as [i|] eqn:Ec.
    + destruct q as [fid [c|] sc0|fid sc0]; cbn [cached] in Ec; try discriminate. injection Ec as ->.
      rewrite (proj1 cell_both _ _ _ _ _ _ E z fid i sc0 Hq) in Hp'. injection Hp' as <-. discriminate.
    + unfold pshape in Hsh. f_equal. congruence.
  - intros z Hz. eapply same_shape_none; [apply same_shape_sym; exact Sh | exact Hz].
Qed.

Lemma resolve_none f s stk a s' : resolve f s stk a = (s', RNone) -> plookup a (provs s) = None.
Proof.
  destruct f as [|f]; cbn [resolve]; [discriminate|].
  destruct (kmem (skey a) stk); [discriminate|].
  destruct (plookup a (provs s)) as [p|]; [|reflexivity].
  destruct (cached p); [discriminate|].
  destruct (run_deps _ _ _ _) as [s1 d]. destruct d; discriminate.
Qed.

Lemma cause_both :
  (forall f s stk a s' r, resolve f s stk a = (s', r) ->
     forall path, stk = map skey path -> r = RPanic -> pcause hit_key (provs s) path a) /\
  (forall f stk sc s seen s' d, deps_of f stk s sc seen = (s', d) ->
     forall path, stk = map skey path -> d = DPanic ->
       exists v req, In (v, req) sc /\
         (pcause hit_key (provs s) path v \/ (req = true /\ plookup v (provs s) = None))).
Proof.
  apply (resolve_both
    (fun _ s stk a _ r => forall path, stk = map skey path -> r = RPanic -> pcause hit_key (provs s) path a)
    (fun _ stk s sc _ _ d => forall path, stk = map skey path -> d = DPanic ->
       exists v req, In (v, req) sc /\
         (pcause hit_key (provs s) path v \/ (req = true /\ plookup v (provs s) = None))));
    try (intros; discriminate).
  - intros f s stk sl Hk path -> _. apply pc_hit. unfold hit_key. apply kmem_In. exact Hk.
  - intros f s stk sl p s1 Hk Hl Hc Hd HQ path -> _.
    destruct (HQ (sl :: path) eq_refl eq_refl) as (v & req & Hin & [Hp|[-> Hn]]).
    + eapply pc_dep; [apply lscript_of; eassumption | exact Hin | exact Hp].
    + eapply pc_missing; [apply lscript_of; eassumption | exact Hin | exact Hn].
  - intros f stk s d req r seen s1 E HP path Hs _. exists d, req. split; [left; reflexivity|].
    left. apply (HP path Hs eq_refl).
  - intros f stk s d r seen s1 E HP path Hs _. exists d, true. split; [left; reflexivity|].
    right. split; [reflexivity | exact (resolve_none _ _ _ _ _ E)].
  - intros f stk s d r seen s1 s2 dr E HP Ed HQ path Hs Hd.
    destruct (HQ path Hs Hd) as (v & req & Hin & Hc). exists v, req. split; [right; exact Hin|].
    pose proof (resolve_later _ _ _ _ _ _ E) as L.
    destruct Hc as [Hp|[-> Hn]]; [left; eapply pcause_later; eassumption | right; split; [reflexivity | apply L; exact Hn]].
  - intros f stk s d req r seen s1 i s2 dr E HP Ed HQ path Hs Hd.
    destruct (HQ path Hs Hd) as (v & req' & Hin & Hc). exists v, req'. split; [right; exact Hin|].
    pose proof (resolve_later _ _ _ _ _ _ E) as L.
    destruct Hc as [Hp|[-> Hn]]; [left; eapply pcause_later; eassumption | right; split; [reflexivity | apply L; exact Hn]].
Qed.

(** every panic has a cause in the state it started from: along scripts that would run, either a
    required dependency is unregistered, or a KEY met again while its factory is running *)
Theorem panic_has_cause s sl s' :
  step s (Resolve sl) = (s', OPanic) -> pcause hit_key (provs s) [] sl.
Proof.
  intros H. destruct (step_resolve_inv _ _ _ _ H) as (r & E & Ho).
  assert (r = RPanic) as ->.
  { destruct r as [|i| |]; cbn [out_of] in Ho; try discriminate; [|reflexivity].
    destruct (ilookup i (insts s')) as [[f0 ds0]|]; discriminate. }
  exact (proj1 cause_both _ _ _ _ _ _ E [] eq_refl eq_refl).
Qed.

(** The full statement one would want — a panic only for a genuine cycle (the same registration
    slot met again) or a missing required dependency — is FALSE of the code (finding F-33): *)
Definition no_spurious_panic : Prop :=
  forall ops sl s', let s := fst (run init ops) in
    step s (Resolve sl) = (s', OPanic) -> pcause hit_slot (provs s) [] sl.

Definition f33_ops : list op :=
  [ Register KSingleton (0, (0, None)) [((1, (0, None)), true)];    (* container 0: T0 needs container 1's T0 *)
    Register KSingleton (1, (0, None)) [] ].                         (* container 1: T0, no dependencies *)

Lemma f33_panics : snd (step (fst (run init f33_ops)) (Resolve (0, (0, None)))) = OPanic.
Proof. vm_compute. reflexivity. Qed.

Theorem no_spurious_panic_refuted : ~ no_spurious_panic.
Proof.
  intros H.
  destruct (step (fst (run init f33_ops)) (Resolve (0, (0, None)))) as [s' o] eqn:E.
  pose proof f33_panics as P. rewrite E in P. cbn [snd] in P. subst o.
  specialize (H f33_ops (0, (0, None)) s' E). cbn zeta in H.
  assert (PV : provs (fst (run init f33_ops)) =
               [((1, (0, None)), PSingleton 1 None []);
                ((0, (0, None)), PSingleton 0 None [((1, (0, None)), true)])]) by (vm_compute; reflexivity).
  rewrite PV in H. clear PV E.
  inversion H as [path a Hh | path a sc v Hs Hin Hn | path a sc v req Hs Hin Hc]; subst.
  - contradiction.
  - vm_compute in Hs. injection Hs as <-. destruct Hin as [Ev|[]]. injection Ev as <-.
    vm_compute in Hn. discriminate.
  - vm_compute in Hs. injection Hs as <-. destruct Hin as [Ev|[]]. injection Ev as <- <-.
    inversion Hc as [path a Hh | path a sc v Hs Hin Hn | path a sc v req Hs Hin Hc']; subst.
    + destruct Hh as [Eq|[]]. discriminate.
    + vm_compute in Hs. injection Hs as <-. contradiction.
    + vm_compute in Hs. injection Hs as <-. contradiction.
Qed.
