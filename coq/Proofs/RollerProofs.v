(* Proofs/RollerProofs.v — lemmas and main theorems about the rolling-file model Log/Roller.v.
   Pinned statements live in Props/C20_roller.v. *)
From Fibre Require Import Common.Base Log.Roller.
From Coq Require Import Sorted ZifyBool ZifyNat ZifyN.

(* ------------------------------------------------------------------ bytes *)
Lemma bytes_app a b : bytes (a ++ b) = bytes a + bytes b.
Proof. induction a as [|r t IH]; cbn [app bytes]; lia. Qed.

Definition posrec (r : rcd) : Prop := 0 < snd r.

Lemma bytes_zero_nil l : Forall posrec l -> bytes l = 0 -> l = [].
Proof.
  destruct l as [|r t]; [reflexivity|]. intros HF Hb. inversion HF as [|? ? Hr _]; subst.
  unfold posrec in Hr. cbn [bytes] in Hb. lia.
Qed.

(* ------------------------------------------------------------------ key order *)
Definition klt (a b : N * N) : Prop := fst a < fst b \/ (fst a = fst b /\ snd a < snd b).

Lemma key_ltb_iff a b : key_ltb a b = true <-> klt a b.
Proof.
  unfold key_ltb, klt. rewrite orb_true_iff, andb_true_iff, !N.ltb_lt, N.eqb_eq. reflexivity.
Qed.

Lemma key_ltb_spec a b : BoolSpec (klt a b) (~ klt a b) (key_ltb a b).
Proof.
  destruct (key_ltb a b) eqn:E; constructor; rewrite <- key_ltb_iff; congruence.
Qed.

Lemma klt_trans a b c : klt a b -> klt b c -> klt a c.
Proof. unfold klt. lia. Qed.

Lemma klt_irrefl a : ~ klt a a.
Proof. unfold klt. lia. Qed.

Lemma klt_total a b : a <> b -> ~ klt a b -> klt b a.
Proof.
  destruct a as [a1 a2], b as [b1 b2]. unfold klt. cbn [fst snd]. intros Hne Hn.
  assert (a1 <> b1 \/ a2 <> b2) as Hd.
  { destruct (N.eq_dec a1 b1), (N.eq_dec a2 b2); subst; auto. }
  lia.
Qed.

(* newest first: strictly descending (period, seq) *)
Definition descK (ks : list (N * N)) : Prop := StronglySorted (fun a b => klt b a) ks.

Lemma descK_app_inv a b :
  descK (a ++ b) -> descK a /\ descK b /\ (forall x y, In x a -> In y b -> klt y x).
Proof.
  unfold descK. induction a as [|h t IH]; cbn [app]; intros H.
  - split; [constructor|]. split; [exact H|]. intros x y [].
  - inversion H as [|? ? Hs Hf]; subst. destruct (IH Hs) as (Ha & Hb & Hab).
    rewrite Forall_forall in Hf. split; [|split].
    + constructor; [exact Ha|]. apply Forall_forall. intros x Hx. apply Hf. apply in_or_app. left. exact Hx.
    + exact Hb.
    + intros x y [Hx|Hx] Hy.
      * subst. apply Hf. apply in_or_app. right. exact Hy.
      * apply Hab; assumption.
Qed.

Lemma descK_firstn n ks : descK ks -> descK (firstn n ks).
Proof. intros H. rewrite <- (firstn_skipn n ks) in H. apply descK_app_inv in H. tauto. Qed.

Lemma descK_NoDup ks : descK ks -> NoDup ks.
Proof.
  unfold descK. induction 1 as [|h t Hs IH Hf]; constructor; [|exact IH].
  intros Hin. rewrite Forall_forall in Hf. apply (klt_irrefl h). apply Hf. exact Hin.
Qed.

(* ------------------------------------------------------------------ list helpers *)
Lemma In_insert_desc f l x : In x (insert_desc f l) <-> x = f \/ In x l.
Proof.
  induction l as [|g t IH]; cbn [insert_desc In].
  - intuition.
  - destruct (key_ltb (key g) (key f)); cbn [In]; [intuition|]. rewrite IH. intuition.
Qed.

Lemma length_insert_desc f l : length (insert_desc f l) = S (length l).
Proof.
  induction l as [|g t IH]; cbn [insert_desc length]; [reflexivity|].
  destruct (key_ltb (key g) (key f)); cbn [length]; [reflexivity|]. rewrite IH. reflexivity.
Qed.

Lemma insert_desc_perm f l : Permutation (insert_desc f l) (f :: l).
Proof.
  induction l as [|g t IH]; cbn [insert_desc]; [apply Permutation_refl|].
  destruct (key_ltb (key g) (key f)); [apply Permutation_refl|].
  eapply Permutation_trans; [apply perm_skip; exact IH | apply perm_swap].
Qed.

Lemma insert_desc_head f l :
  (forall g, In g l -> klt (key g) (key f)) -> insert_desc f l = f :: l.
Proof.
  destruct l as [|g t]; cbn [insert_desc]; [reflexivity|]. intros H.
  destruct (key_ltb_spec (key g) (key f)) as [_|Hn]; [reflexivity|].
  exfalso. apply Hn. apply H. left. reflexivity.
Qed.

Lemma insert_desc_sorted f l :
  descK (map key l) -> ~ In (key f) (map key l) -> descK (map key (insert_desc f l)).
Proof.
  unfold descK. induction l as [|g t IH]; cbn [insert_desc map]; intros Hs Hfresh.
  - constructor; constructor.
  - inversion Hs as [|? ? Hst Hf]; subst. rewrite Forall_forall in Hf.
    destruct (key_ltb_spec (key g) (key f)) as [Hlt|Hn]; cbn [map].
    + constructor; [exact Hs|]. constructor; [exact Hlt|]. apply Forall_forall. intros x Hx.
      eapply klt_trans; [apply Hf; exact Hx | exact Hlt].
    + constructor.
      * apply IH; [exact Hst|]. intros Hi. apply Hfresh. right. exact Hi.
      * apply Forall_forall. intros x Hx. apply in_map_iff in Hx. destruct Hx as (y & <- & Hy).
        apply In_insert_desc in Hy. destruct Hy as [->|Hy].
        -- apply klt_total; [|exact Hn]. intros He. apply Hfresh. left. exact He.
        -- apply Hf. apply in_map. exact Hy.
Qed.

Lemma compress_keys k l : map key (compress_from k l) = map key l.
Proof.
  revert k. induction l as [|f t IH]; intros k; cbn [compress_from map]; [reflexivity|].
  destruct k; cbn [map]; rewrite IH; reflexivity.
Qed.

Lemma compress_datas k l : map rdata (compress_from k l) = map rdata l.
Proof.
  revert k. induction l as [|f t IH]; intros k; cbn [compress_from map]; [reflexivity|].
  destruct k; cbn [map]; rewrite IH; reflexivity.
Qed.

Lemma compress_length k l : length (compress_from k l) = length l.
Proof. rewrite <- (map_length key), compress_keys, map_length. reflexivity. Qed.

Lemma In_compress k l f :
  In f (compress_from k l) -> exists g, In g l /\ key g = key f /\ rdata g = rdata f.
Proof.
  revert k. induction l as [|h t IH]; intros k; cbn [compress_from]; [intros []|].
  destruct k; cbn [In]; intros [He|Hi].
  - subst. exists h. split; [left; reflexivity|]. split; reflexivity.
  - destruct (IH _ Hi) as (g & Hg & E). exists g. split; [right; exact Hg | exact E].
  - subst. exists f. split; [left; reflexivity|]. split; reflexivity.
  - destruct (IH _ Hi) as (g & Hg & E). exists g. split; [right; exact Hg | exact E].
Qed.

Lemma In_firstn {A} n (l : list A) x : In x (firstn n l) -> In x l.
Proof. intros H. rewrite <- (firstn_skipn n l). apply in_or_app. left. exact H. Qed.

Lemma In_skipn {A} n (l : list A) x : In x (skipn n l) -> In x l.
Proof. intros H. rewrite <- (firstn_skipn n l). apply in_or_app. right. exact H. Qed.

Lemma concat_map_perm {A B} (g : A -> list B) a b :
  Permutation a b -> Permutation (concat (map g a)) (concat (map g b)).
Proof.
  induction 1 as [| x l l' _ IH | x y l | l l' l'' _ IH1 _ IH2]; cbn [map concat].
  - constructor.
  - apply Permutation_app_head. exact IH.
  - rewrite !app_assoc. apply Permutation_app_tail. apply Permutation_app_comm.
  - eapply Permutation_trans; eauto.
Qed.

(* ------------------------------------------------------------------ sequence choice: never an existing name *)
Lemma last_seq_ge p l f : In f l -> rp f = p -> rs f <= last_seq p l.
Proof.
  induction l as [|g t IH]; cbn [last_seq In]; [intros []|]. intros [->|Hi] Hp.
  - destruct (N.eqb_spec (rp f) p); lia.
  - specialize (IH Hi Hp). destruct (N.eqb_spec (rp g) p); lia.
Qed.

(* holds in EVERY state, reachable or not: the name a roll renames onto is not in the directory,
   neither plain nor compressed *)
Lemma roll_file_fresh st f : In f (rolled st) -> key f <> key (roll_file st).
Proof.
  intros Hi He.
  assert (Hp : rp f = cur_period st) by (apply (f_equal fst) in He; exact He).
  assert (Hs : rs f = last_seq (cur_period st) (rolled st) + 1) by (apply (f_equal snd) in He; exact He).
  pose proof (last_seq_ge (cur_period st) (rolled st) f Hi Hp). lia.
Qed.

Lemma fs_remove_id nf l : (forall g, In g l -> key g <> key nf) -> fs_remove nf l = l.
Proof.
  unfold fs_remove. induction l as [|g t IH]; cbn [filter]; intros H; [reflexivity|].
  assert (Hg : same_name g nf = false).
  { unfold same_name. destruct (N.eqb_spec (rp g) (rp nf)) as [Ep|]; [|reflexivity].
    destruct (N.eqb_spec (rs g) (rs nf)) as [Es|]; [|reflexivity].
    exfalso. apply (H g); [left; reflexivity|]. unfold key. congruence. }
  rewrite Hg. cbn [negb]. f_equal. apply IH. intros x Hx. apply H. right. exact Hx.
Qed.

Lemma roll_no_clobber st : fs_remove (roll_file st) (rolled st) = rolled st.
Proof. apply fs_remove_id. intros g Hg. apply roll_file_fresh. exact Hg. Qed.

Lemma roll_file_fresh_keys st : ~ In (key (roll_file st)) (map key (rolled st)).
Proof.
  intros Hi. apply in_map_iff in Hi. destruct Hi as (f & He & Hf).
  exact (roll_file_fresh st f Hf He).
Qed.

(* ------------------------------------------------------------------ the BufWriter *)
Lemma bufwrite_rolled st r : rolled (bufwrite st r) = rolled st.
Proof.
  unfold bufwrite. destruct (_ <? _); [reflexivity|].
  destruct (_ <? _); destruct (_ <=? _); reflexivity.
Qed.

Lemma bufwrite_gone st r : gone (bufwrite st r) = gone st.
Proof.
  unfold bufwrite. destruct (_ <? _); [reflexivity|].
  destruct (_ <? _); destruct (_ <=? _); reflexivity.
Qed.

Lemma bufwrite_period st r : cur_period (bufwrite st r) = cur_period st.
Proof.
  unfold bufwrite. destruct (_ <? _); [reflexivity|].
  destruct (_ <? _); destruct (_ <=? _); reflexivity.
Qed.

Lemma bufwrite_bytes st r :
  bytes (adisk (bufwrite st r) ++ abuf (bufwrite st r)) = bytes (adisk st ++ abuf st) + snd r.
Proof.
  unfold bufwrite. destruct (_ <? _); [cbn [adisk abuf]; rewrite !bytes_app; cbn [bytes]; lia|].
  destruct (_ <? _); destruct (_ <=? _); cbn [adisk abuf flush]; rewrite !bytes_app; cbn [bytes]; lia.
Qed.

Lemma bufwrite_perm st r :
  Permutation (adisk (bufwrite st r) ++ abuf (bufwrite st r)) (adisk st ++ abuf st ++ [r]).
Proof.
  assert (E : forall a b : list rcd, Permutation ((a ++ [r]) ++ b) (a ++ b ++ [r])).
  { intros a b. rewrite <- app_assoc. apply Permutation_app_head. apply Permutation_app_comm. }
  unfold bufwrite. destruct (_ <? _); [apply Permutation_refl|].
  destruct (_ <? _); destruct (_ <=? _); cbn [adisk abuf flush].
  - rewrite app_nil_r, <- app_assoc. apply Permutation_refl.
  - rewrite <- app_assoc. apply Permutation_refl.
  - apply E.
  - apply Permutation_refl.
Qed.

(* the record goes after everything written before it (disk first, then buffer) *)
Lemma bufwrite_order st r :
  Forall posrec (abuf st) ->
  adisk (bufwrite st r) ++ abuf (bufwrite st r) = adisk st ++ abuf st ++ [r].
Proof.
  intros Hpos. unfold bufwrite.
  destruct (N.ltb_spec (snd r) (bufcap - bytes (abuf st))) as [_|H1]; [reflexivity|].
  destruct (N.ltb_spec (bufcap - bytes (abuf st)) (snd r)) as [_|H2];
    destruct (N.leb_spec bufcap (snd r)) as [H3|H3]; cbn [adisk abuf flush].
  - rewrite app_nil_r, <- app_assoc. reflexivity.
  - rewrite <- app_assoc. reflexivity.
  - assert (Hz : abuf st = []).
    { apply bytes_zero_nil; [exact Hpos|]. unfold bufcap in *. lia. }
    rewrite Hz. rewrite app_nil_r. reflexivity.
  - reflexivity.
Qed.

Lemma bufwrite_pos st r : posrec r -> Forall posrec (abuf st) -> Forall posrec (abuf (bufwrite st r)).
Proof.
  intros Hr Hpos. unfold bufwrite. destruct (_ <? _); cbn [abuf].
  - apply Forall_app. split; [exact Hpos | constructor; [exact Hr | constructor]].
  - destruct (_ <? _); destruct (_ <=? _); cbn [abuf flush];
      try exact Hpos; try constructor; try (apply Forall_app; split; [exact Hpos|]); repeat constructor; exact Hr.
Qed.

(* ------------------------------------------------------------------ reachability at primitive granularity:
   every state the code can be in between two of its primitive actions (a superset of the states
   between API calls) *)
Inductive reach (pol : policy) : state -> Prop :=
| r_start fs p : reach pol (start pol fs p)
| r_roll st now : reach pol st -> reach pol (roll pol st now)
| r_flush st : reach pol st -> reach pol (flush st)
| r_append st r : reach pol st -> posrec r -> reach pol (append st r)
| r_restart st p : reach pol st -> reach pol (restart pol st p).

Lemma write_reach pol st p r : reach pol st -> reach pol (write pol st p r).
Proof.
  intros H. unfold write.
  assert (H1 : reach pol (if cur_period st <? eff pol p then roll pol st p else st)).
  { destruct (_ <? _); [apply r_roll|]; exact H. }
  destruct (N.eqb_spec (snd r) 0) as [|Hr]; [exact H1|].
  assert (H2 : reach pol (append (if cur_period st <? eff pol p then roll pol st p else st) r)).
  { apply r_append; [exact H1|]. unfold posrec. lia. }
  destruct (p_max_size pol); [|exact H2]. destruct (_ <=? _); [apply r_roll|]; exact H2.
Qed.

Lemma step_reach pol st o : reach pol st -> reach pol (step pol st o).
Proof.
  intros H. destruct o; cbn [step]; [apply write_reach | apply r_restart | apply r_flush]; exact H.
Qed.

Lemma run_from_reach pol ops : forall st, reach pol st -> reach pol (run_from pol st ops).
Proof.
  unfold run_from. induction ops as [|o t IH]; cbn [fold_left]; intros st H; [exact H|].
  apply IH. apply step_reach. exact H.
Qed.

Lemma run_reach pol fs p0 ops : reach pol (run pol fs p0 ops).
Proof. apply run_from_reach. apply r_start. Qed.

(* ------------------------------------------------------------------ invariant of all reachable states *)
Record Inv (pol : policy) (st : state) : Prop := mkInv {
  inv_sorted : descK (map key (rolled st));
  inv_count : forall m, p_max_retained pol = Some m -> (length (rolled st) <= N.to_nat m)%nat;
  inv_gone : forall k f, In k (gone st) -> In f (rolled st) -> klt k (key f);
  inv_full : gone st <> [] ->
             exists m, p_max_retained pol = Some m /\ length (rolled st) = N.to_nat m;
  inv_pos : Forall posrec (abuf st) }.

Lemma roll_inv pol st now : Inv pol st -> Inv pol (roll pol st now).
Proof.
  intros [Hs Hc Hg Hf Hp]. unfold roll. rewrite roll_no_clobber.
  set (nf := roll_file st). set (all := insert_desc nf (rolled st)).
  assert (Hall : descK (map key all)).
  { apply insert_desc_sorted; [exact Hs | apply roll_file_fresh_keys]. }
  assert (Hlen : length all = S (length (rolled st))) by apply length_insert_desc.
  destruct (p_max_retained pol) as [m|] eqn:Em.
  - set (n := N.to_nat m).
    assert (Hsplit : all = firstn n all ++ skipn n all) by (symmetry; apply firstn_skipn).
    assert (Hall' : descK (map key (firstn n all) ++ map key (skipn n all))).
    { rewrite <- map_app, <- Hsplit. exact Hall. }
    apply descK_app_inv in Hall'. destruct Hall' as (Hk1 & _ & Hcross).
    assert (Hkeys : forall kept', map key kept' = map key (firstn n all) -> length kept' = length (firstn n all)).
    { intros kept' E. rewrite <- (map_length key kept'), E, map_length. reflexivity. }
    set (kept' := match p_compression pol with
                  | Some k => compress_from (N.to_nat k) (firstn n all) | None => firstn n all end).
    assert (Ek : map key kept' = map key (firstn n all)).
    { unfold kept'. destruct (p_compression pol); [apply compress_keys | reflexivity]. }
    constructor; cbn [rolled gone abuf].
    + rewrite Ek. exact Hk1.
    + intros m' E. assert (m' = m) by congruence. subst m'. rewrite (Hkeys _ Ek). apply firstn_le_length.
    + intros k f Hk Hfi.
      assert (Hfk : In (key f) (map key (firstn n all))) by (rewrite <- Ek; apply in_map; exact Hfi).
      apply in_app_or in Hk. destruct Hk as [Hk|Hk].
      * apply Hcross; assumption.
      * (* k was deleted earlier: the directory was full, so the new file displaced an older one *)
        apply in_map_iff in Hfk. destruct Hfk as (g & Egk & Hgi). rewrite <- Egk.
        assert (Hga : In g all) by (eapply In_firstn; exact Hgi).
        apply In_insert_desc in Hga. destruct Hga as [->|Hga]; [|apply Hg; assumption].
        destruct Hf as (m' & E' & Hfull); [intros E0; rewrite E0 in Hk; exact Hk|].
        assert (m' = m) by congruence. subst m'. fold n in Hfull.
        assert (Hsk : skipn n all <> []).
        { intros E0. pose proof (f_equal (@length _) Hsplit) as HL. rewrite app_length, E0 in HL.
          pose proof (firstn_le_length n all). cbn [length] in HL. lia. }
        assert (Hex : exists x, In x (skipn n all)).
        { destruct (skipn n all) as [|x xs]; [exfalso; apply Hsk; reflexivity|]. exists x. left. reflexivity. }
        destruct Hex as (x & Hxs).
        assert (Hxa : In x all) by (eapply In_skipn; exact Hxs).
        assert (Hlt : klt (key x) (key nf)).
        { apply Hcross; [apply in_map; exact Hgi | apply in_map; exact Hxs]. }
        apply In_insert_desc in Hxa. destruct Hxa as [->|Hxa]; [exfalso; exact (klt_irrefl _ Hlt)|].
        eapply klt_trans; [apply Hg; eassumption | exact Hlt].
    + intros Hne. exists m. split; [exact Em|]. rewrite (Hkeys _ Ek).
      apply firstn_length_le. fold n.
      destruct (Nat.le_gt_cases n (length all)) as [Hle|Hgt]; [exact Hle|]. exfalso.
      assert (Hsk0 : skipn n all = []) by (apply skipn_all2; lia).
      rewrite Hsk0 in Hne. cbn [map app] in Hne.
      destruct Hf as (m' & E' & Hfull); [exact Hne|].
      assert (m' = m) by congruence. subst m'. fold n in Hfull. lia.
    + constructor.
  - set (kept' := match p_compression pol with
                  | Some k => compress_from (N.to_nat k) all | None => all end).
    assert (Ek : map key kept' = map key all).
    { unfold kept'. destruct (p_compression pol); [apply compress_keys | reflexivity]. }
    assert (Hg0 : gone st = []).
    { destruct (gone st) eqn:E0; [reflexivity|]. destruct Hf as (m' & E' & _); congruence. }
    constructor; cbn [rolled gone abuf app map].
    + rewrite Ek. exact Hall.
    + intros m' E. congruence.
    + rewrite Hg0. intros k f [].
    + rewrite Hg0. intros Hne. exfalso. apply Hne. reflexivity.
    + constructor.
Qed.

Lemma flush_inv pol st : Inv pol st -> Inv pol (flush st).
Proof. intros [Hs Hc Hg Hf Hp]. constructor; cbn [flush rolled gone abuf]; try assumption. constructor. Qed.

Lemma append_inv pol st r : posrec r -> Inv pol st -> Inv pol (append st r).
Proof.
  intros Hr [Hs Hc Hg Hf Hp]. unfold append.
  constructor; cbn [rolled gone abuf]; rewrite ?bufwrite_rolled, ?bufwrite_gone; try assumption.
  apply bufwrite_pos; assumption.
Qed.

Lemma restart_inv pol st p : Inv pol st -> Inv pol (restart pol st p).
Proof. intros [Hs Hc Hg Hf Hp]. constructor; cbn [restart flush rolled gone abuf]; try assumption. constructor. Qed.

Lemma start_inv pol fs p : Inv pol (start pol fs p).
Proof.
  constructor; cbn [start rolled gone abuf map length].
  - constructor.
  - intros. lia.
  - intros k f [].
  - intros H. exfalso. apply H. reflexivity.
  - constructor.
Qed.

Theorem reach_inv pol st : reach pol st -> Inv pol st.
Proof.
  induction 1 as [fs p | st now _ IH | st _ IH | st r _ IH Hr | st p _ IH].
  - apply start_inv.
  - apply roll_inv; exact IH.
  - apply flush_inv; exact IH.
  - apply append_inv; assumption.
  - apply restart_inv; exact IH.
Qed.

(* ------------------------------------------------------------------ what a roll does to the files *)
Lemma In_compress_conv k l g :
  In g l -> exists f, In f (compress_from k l) /\ key f = key g /\ rdata f = rdata g.
Proof.
  revert k. induction l as [|h t IH]; intros k; [intros []|]. cbn [compress_from].
  destruct k; cbn [In]; intros [He|Hi].
  - subst. exists (gz g). split; [left; reflexivity|]. split; reflexivity.
  - destruct (IH 0%nat Hi) as (f & Hf & E). exists f. split; [right; exact Hf | exact E].
  - subst. exists g. split; [left; reflexivity|]. split; reflexivity.
  - destruct (IH k Hi) as (f & Hf & E). exists f. split; [right; exact Hf | exact E].
Qed.

(* every file present after a roll is the newly rolled file or a file that was there before
   (same period, sequence and content; possibly compressed meanwhile) *)
Lemma roll_files_from pol st now f :
  In f (rolled (roll pol st now)) ->
  exists g, (g = roll_file st \/ In g (rolled st)) /\ key g = key f /\ rdata g = rdata f.
Proof.
  unfold roll. rewrite roll_no_clobber. cbn [rolled]. intros Hi.
  set (all := insert_desc (roll_file st) (rolled st)) in *.
  set (kept := match p_max_retained pol with Some m => firstn (N.to_nat m) all | None => all end) in *.
  assert (Hk : exists g, In g kept /\ key g = key f /\ rdata g = rdata f).
  { destruct (p_compression pol); [apply In_compress in Hi; exact Hi|].
    exists f. split; [exact Hi|]. split; reflexivity. }
  destruct Hk as (g & Hg & E). exists g. split; [|exact E].
  assert (Ha : In g all).
  { unfold kept in Hg. destruct (p_max_retained pol); [eapply In_firstn; exact Hg | exact Hg]. }
  apply In_insert_desc in Ha. exact Ha.
Qed.

(* a file leaves the directory only through retention, and then it is recorded in `gone` *)
Lemma roll_accounts pol st now g :
  g = roll_file st \/ In g (rolled st) ->
  (exists f, In f (rolled (roll pol st now)) /\ key f = key g /\ rdata f = rdata g)
  \/ In (key g) (gone (roll pol st now)).
Proof.
  intros Hg. unfold roll. rewrite roll_no_clobber. cbn [rolled gone].
  set (all := insert_desc (roll_file st) (rolled st)).
  assert (Ha : In g all) by (apply In_insert_desc; exact Hg).
  assert (Hc : forall kept, In g kept ->
     exists f, In f (match p_compression pol with Some k => compress_from (N.to_nat k) kept | None => kept end)
               /\ key f = key g /\ rdata f = rdata g).
  { intros kept Hk. destruct (p_compression pol); [apply In_compress_conv; exact Hk|].
    exists g. split; [exact Hk|]. split; reflexivity. }
  destruct (p_max_retained pol) as [m|].
  - rewrite <- (firstn_skipn (N.to_nat m) all) in Ha. apply in_app_or in Ha. destruct Ha as [Ha|Ha].
    + left. apply Hc. exact Ha.
    + right. apply in_or_app. left. apply in_map. exact Ha.
  - left. apply Hc. exact Ha.
Qed.

Lemma roll_gone_unlimited pol st now :
  p_max_retained pol = None -> gone (roll pol st now) = gone st.
Proof. intros E. unfold roll. cbn [gone]. rewrite E. reflexivity. Qed.

(* ------------------------------------------------------------------ (b) the size rule *)
(* d minus its last record is below the limit (or empty) *)
Definition bbl (m : N) (d : list rcd) : Prop := forall i r, d = i ++ [r] -> bytes i = 0 \/ bytes i < m.

Record SizeInv (pol : policy) (st : state) : Prop := mkSizeInv {
  sz_eq : cur_size st = bytes (adisk st ++ abuf st);
  sz_lim : forall m, p_max_size pol = Some m -> cur_size st = 0 \/ cur_size st < m;
  sz_files : forall m f, p_max_size pol = Some m -> In f (rolled st) -> bbl m (rdata f) }.

Lemma size_bbl_active pol st m :
  SizeInv pol st -> p_max_size pol = Some m -> bbl m (adisk st ++ abuf st).
Proof.
  intros [He Hl _] Em i r Ed. specialize (Hl m Em). rewrite He, Ed, bytes_app in Hl.
  cbn [bytes] in Hl. lia.
Qed.

Lemma roll_size pol st now :
  (forall m, p_max_size pol = Some m -> bbl m (adisk st ++ abuf st)) ->
  (forall m f, p_max_size pol = Some m -> In f (rolled st) -> bbl m (rdata f)) ->
  SizeInv pol (roll pol st now).
Proof.
  intros Ha Hf. constructor.
  - reflexivity.
  - intros m _. left. reflexivity.
  - intros m f Em Hi. apply roll_files_from in Hi. destruct Hi as (g & [->|Hg] & _ & Ed); rewrite <- Ed.
    + apply Ha. exact Em.
    + eapply Hf; eassumption.
Qed.

Lemma write_size pol st p r : reach pol st -> SizeInv pol st -> SizeInv pol (write pol st p r).
Proof.
  intros Hr Hs. unfold write.
  set (st1 := if cur_period st <? eff pol p then roll pol st p else st).
  assert (Hr1 : reach pol st1) by (unfold st1; destruct (_ <? _); [apply r_roll|]; exact Hr).
  assert (Hs1 : SizeInv pol st1).
  { unfold st1. destruct (_ <? _); [|exact Hs]. apply roll_size.
    - intros m Em. eapply size_bbl_active; eassumption.
    - apply (sz_files _ _ Hs). }
  destruct (N.eqb_spec (snd r) 0) as [|Hnz]; [exact Hs1|].
  set (st2 := append st1 r).
  assert (He2 : cur_size st2 = bytes (adisk st2 ++ abuf st2)).
  { unfold st2, append. cbn [cur_size adisk abuf]. rewrite bufwrite_bytes, (sz_eq _ _ Hs1). reflexivity. }
  assert (Hf2 : forall m f, p_max_size pol = Some m -> In f (rolled st2) -> bbl m (rdata f)).
  { unfold st2, append. cbn [rolled]. rewrite bufwrite_rolled. apply (sz_files _ _ Hs1). }
  destruct (p_max_size pol) as [m|] eqn:Em; rewrite <- Em in Hf2.
  - destruct (N.leb_spec m (cur_size st2)) as [Hge|Hlt].
    + apply roll_size; [|exact Hf2]. intros m' Em' i r' Ed.
      assert (m' = m) by congruence. subst m'.
      assert (Ho : adisk st2 ++ abuf st2 = (adisk st1 ++ abuf st1) ++ [r]).
      { unfold st2, append. cbn [adisk abuf]. rewrite bufwrite_order, app_assoc; [reflexivity|].
        apply (inv_pos _ _ (reach_inv _ _ Hr1)). }
      rewrite Ho in Ed. apply app_inj_tail in Ed. destruct Ed as [<- _].
      rewrite <- (sz_eq _ _ Hs1). apply (sz_lim _ _ Hs1). exact Em.
    + constructor; [exact He2 | | exact Hf2]. intros m' Em'. assert (m' = m) by congruence. subst m'.
      right. exact Hlt.
  - constructor; [exact He2 | | exact Hf2]. intros m' Em'. congruence.
Qed.

Lemma step_size pol st o : reach pol st -> SizeInv pol st -> SizeInv pol (step pol st o).
Proof.
  intros Hr Hs. destruct o as [p r|p|]; cbn [step].
  - apply write_size; assumption.
  - destruct Hs as [He Hl Hf]. constructor; cbn [restart flush cur_size adisk abuf rolled].
    + rewrite app_nil_r. reflexivity.
    + intros m Em. rewrite <- He. apply Hl. exact Em.
    + exact Hf.
  - destruct Hs as [He Hl Hf]. constructor; cbn [flush cur_size adisk abuf rolled].
    + rewrite app_nil_r. exact He.
    + exact Hl.
    + exact Hf.
Qed.

Theorem run_size pol fs p0 ops : SizeInv pol (run pol fs p0 ops).
Proof.
  unfold run. assert (H : forall st, reach pol st -> SizeInv pol st -> SizeInv pol (run_from pol st ops)).
  { unfold run_from. induction ops as [|o t IH]; cbn [fold_left]; intros st Hr Hs; [exact Hs|].
    apply IH; [apply step_reach; exact Hr | apply step_size; assumption]. }
  apply H; [apply r_start|]. constructor; cbn [start cur_size adisk abuf rolled app bytes].
  - reflexivity.
  - intros m _. left. reflexivity.
  - intros m f _ [].
Qed.

(* one `write` call: optional time roll, then the whole record goes into the then-current file,
   then optionally that file (the record being its last) is rolled *)
Theorem write_atomic pol st p r :
  reach pol st -> posrec r ->
  exists st1, (st1 = st \/ st1 = roll pol st p) /\
    let st2 := append st1 r in
    adisk st2 ++ abuf st2 = adisk st1 ++ abuf st1 ++ [r] /\
    rdata (roll_file st2) = adisk st1 ++ abuf st1 ++ [r] /\
    (write pol st p r = st2 \/ write pol st p r = roll pol st2 p).
Proof.
  intros Hr Hp. exists (if cur_period st <? eff pol p then roll pol st p else st).
  split; [destruct (_ <? _); auto|].
  set (st1 := if cur_period st <? eff pol p then roll pol st p else st).
  assert (Hr1 : reach pol st1) by (unfold st1; destruct (_ <? _); [apply r_roll|]; exact Hr).
  assert (Ho : adisk (append st1 r) ++ abuf (append st1 r) = adisk st1 ++ abuf st1 ++ [r]).
  { unfold append. cbn [adisk abuf]. apply bufwrite_order. apply (inv_pos _ _ (reach_inv _ _ Hr1)). }
  cbn zeta. split; [exact Ho|]. split; [exact Ho|].
  unfold write. fold st1. unfold posrec in Hp.
  destruct (N.eqb_spec (snd r) 0) as [E|_]; [lia|].
  destruct (p_max_size pol); [destruct (_ <=? _)|]; auto.
Qed.

(* ------------------------------------------------------------------ (a) the stream, monotone clock *)
Definition keys_le (st : state) : Prop := forall f, In f (rolled st) -> rp f <= cur_period st.

Lemma roll_all_head st : keys_le st -> insert_desc (roll_file st) (rolled st) = roll_file st :: rolled st.
Proof.
  intros Hk. apply insert_desc_head. intros g Hg. unfold klt, key, roll_file. cbn [fst snd rp rs].
  specialize (Hk g Hg). destruct (N.eq_dec (rp g) (cur_period st)) as [E|Hne]; [|left; lia].
  right. split; [exact E|]. pose proof (last_seq_ge _ _ _ Hg E). lia.
Qed.

Lemma concat_rev_cons {A} (d : list A) (ds : list (list A)) :
  concat (rev (d :: ds)) = concat (rev ds) ++ d.
Proof. cbn [rev]. rewrite concat_app. cbn [concat]. rewrite app_nil_r. reflexivity. Qed.

Lemma roll_logical pol st now :
  keys_le st ->
  exists lost, logical st = lost ++ logical (roll pol st now)
               /\ (p_max_retained pol = None -> lost = []).
Proof.
  intros Hk. unfold roll. rewrite roll_no_clobber, (roll_all_head st Hk).
  set (all := roll_file st :: rolled st).
  assert (Hl : logical st = concat (rev (map rdata all))).
  { unfold logical, all. cbn [map]. rewrite concat_rev_cons. reflexivity. }
  assert (Hc : forall kept, map rdata (match p_compression pol with
                 | Some k => compress_from (N.to_nat k) kept | None => kept end) = map rdata kept).
  { intros kept. destruct (p_compression pol); [apply compress_datas | reflexivity]. }
  unfold logical at 2. cbn [rolled adisk abuf]. rewrite !app_nil_r, Hc, Hl.
  destruct (p_max_retained pol) as [m|].
  - exists (concat (rev (map rdata (skipn (N.to_nat m) all)))). split; [|discriminate].
    rewrite <- (firstn_skipn (N.to_nat m) all) at 1. rewrite map_app, rev_app_distr, concat_app. reflexivity.
  - exists []. split; reflexivity.
Qed.

Lemma roll_keys_le pol st now :
  keys_le st -> cur_period st <= eff pol now -> keys_le (roll pol st now).
Proof.
  intros Hk Hc f Hf. apply roll_files_from in Hf. destruct Hf as (g & Hg & Ek & _).
  assert (E : rp f = rp g) by (apply (f_equal fst) in Ek; symmetry; exact Ek).
  rewrite E. unfold roll. cbn [cur_period]. destruct Hg as [->|Hg].
  - unfold roll_file. cbn [rp]. exact Hc.
  - specialize (Hk g Hg). lia.
Qed.

Lemma append_logical st r :
  Forall posrec (abuf st) -> logical (append st r) = logical st ++ [r].
Proof.
  intros Hp. unfold logical, append. cbn [rolled adisk abuf].
  rewrite bufwrite_rolled, (bufwrite_order st r Hp), <- !app_assoc. reflexivity.
Qed.

Record Mono (pol : policy) (st : state) (c : N) : Prop := mkMono {
  mo_cur : cur_period st <= eff pol c;
  mo_keys : keys_le st }.

Lemma write_stream pol st c p r :
  reach pol st -> Mono pol st c -> eff pol c <= eff pol p ->
  exists lost,
    logical st ++ (if snd r =? 0 then [] else [r]) = lost ++ logical (write pol st p r)
    /\ (p_max_retained pol = None -> lost = [])
    /\ Mono pol (write pol st p r) p.
Proof.
  intros Hr [Hc Hk] Hcp. unfold write.
  set (st1 := if cur_period st <? eff pol p then roll pol st p else st).
  assert (Hr1 : reach pol st1) by (unfold st1; destruct (_ <? _); [apply r_roll|]; exact Hr).
  assert (H1 : exists lost1, logical st = lost1 ++ logical st1
                 /\ (p_max_retained pol = None -> lost1 = []) /\ Mono pol st1 p).
  { unfold st1. destruct (N.ltb_spec (cur_period st) (eff pol p)) as [Hlt|Hge].
    - destruct (roll_logical pol st p Hk) as (l1 & E1 & N1). exists l1. split; [exact E1|]. split; [exact N1|].
      constructor; [unfold roll; cbn [cur_period]; lia | apply roll_keys_le; [exact Hk | lia]].
    - exists []. split; [reflexivity|]. split; [reflexivity|]. constructor; [lia | exact Hk]. }
  destruct H1 as (lost1 & E1 & N1 & [Hc1 Hk1]).
  destruct (N.eqb_spec (snd r) 0) as [Ez|Hnz].
  - exists lost1. rewrite app_nil_r. split; [exact E1|]. split; [exact N1|]. constructor; assumption.
  - set (st2 := append st1 r).
    assert (E2 : logical st2 = logical st1 ++ [r]).
    { apply append_logical. apply (inv_pos _ _ (reach_inv _ _ Hr1)). }
    assert (Hc2 : cur_period st2 = cur_period st1).
    { unfold st2, append. cbn [cur_period]. apply bufwrite_period. }
    assert (Hk2 : keys_le st2).
    { intros f Hf. rewrite Hc2. apply Hk1. unfold st2, append in Hf. cbn [rolled] in Hf.
      rewrite bufwrite_rolled in Hf. exact Hf. }
    assert (Hno : exists lost, logical st ++ [r] = lost ++ logical st2
                   /\ (p_max_retained pol = None -> lost = []) /\ Mono pol st2 p).
    { exists lost1. rewrite E2, E1, app_assoc. split; [reflexivity|]. split; [exact N1|].
      constructor; [rewrite Hc2; exact Hc1 | exact Hk2]. }
    assert (Hyes : exists lost, logical st ++ [r] = lost ++ logical (roll pol st2 p)
                   /\ (p_max_retained pol = None -> lost = []) /\ Mono pol (roll pol st2 p) p).
    { destruct (roll_logical pol st2 p Hk2) as (l2 & E3 & N3). exists (lost1 ++ l2).
      rewrite E1, <- !app_assoc, <- E3, E2. split; [reflexivity|]. split.
      - intros En. rewrite (N1 En), (N3 En). reflexivity.
      - constructor; [unfold roll; cbn [cur_period]; lia|]. apply roll_keys_le; [exact Hk2 | rewrite Hc2; exact Hc1]. }
    destruct (p_max_size pol); [destruct (_ <=? _)|]; assumption.
Qed.

Lemma step_stream pol st c o :
  reach pol st -> Mono pol st c ->
  (forall p, op_time o = Some p -> eff pol c <= eff pol p) ->
  exists lost,
    logical st ++ written [o] = lost ++ logical (step pol st o)
    /\ (p_max_retained pol = None -> lost = [])
    /\ Mono pol (step pol st o) (match op_time o with Some p => p | None => c end).
Proof.
  intros Hr Hm Ht. destruct o as [p r|p|]; cbn [step written flat_map op_time].
  - rewrite app_nil_r. apply (write_stream pol st c p r Hr Hm). apply Ht. reflexivity.
  - exists []. destruct Hm as [Hc Hk]. rewrite app_nil_r. split; [|split; [reflexivity|]].
    + unfold logical, restart, flush. cbn [rolled adisk abuf app]. rewrite app_nil_r. reflexivity.
    + assert (Hcp : eff pol c <= eff pol p) by (apply Ht; reflexivity).
      constructor; [cbn [restart cur_period]; lia|].
      intros f Hf. cbn [restart flush rolled cur_period] in *. specialize (Hk f Hf). lia.
  - exists []. destruct Hm as [Hc Hk]. rewrite app_nil_r. split; [|split; [reflexivity|]].
    + unfold logical, flush. cbn [rolled adisk abuf app]. rewrite app_nil_r. reflexivity.
    + constructor; [exact Hc | exact Hk].
Qed.

Lemma written_cons o t : written (o :: t) = written [o] ++ written t.
Proof. unfold written. cbn [flat_map]. rewrite app_nil_r. reflexivity. Qed.

Lemma run_from_stream pol ops : forall st c,
  reach pol st -> Mono pol st c -> monotone_from pol c ops ->
  exists lost, logical st ++ written ops = lost ++ logical (run_from pol st ops)
               /\ (p_max_retained pol = None -> lost = []).
Proof.
  induction ops as [|o t IH]; intros st c Hr Hm Hmono.
  - exists []. cbn [written flat_map run_from fold_left app]. rewrite app_nil_r. split; reflexivity.
  - cbn [monotone_from] in Hmono.
    assert (Ht : forall p, op_time o = Some p -> eff pol c <= eff pol p).
    { intros p E. rewrite E in Hmono. tauto. }
    destruct (step_stream pol st c o Hr Hm Ht) as (l1 & E1 & N1 & Hm1).
    assert (Hmono' : monotone_from pol (match op_time o with Some p => p | None => c end) t).
    { destruct (op_time o); tauto. }
    destruct (IH _ _ (step_reach pol st o Hr) Hm1 Hmono') as (l2 & E2 & N2).
    exists (l1 ++ l2). rewrite written_cons, app_assoc, E1, <- !app_assoc, E2.
    split; [reflexivity|]. intros En. rewrite (N1 En), (N2 En). reflexivity.
Qed.

Theorem run_stream pol fs p0 ops :
  monotone pol p0 ops ->
  exists lost, written ops = lost ++ logical (run pol fs p0 ops)
               /\ (p_max_retained pol = None -> lost = []).
Proof.
  intros Hm. destruct (run_from_stream pol ops (start pol fs p0) p0) as (lost & E & N).
  - apply r_start.
  - constructor; [cbn [start cur_period]; lia | intros f []].
  - exact Hm.
  - exists lost. split; [exact E | exact N].
Qed.

(* ------------------------------------------------------------------ unlimited retention, ANY clock: nothing lost, nothing duplicated *)
Lemma roll_perm pol st now :
  p_max_retained pol = None -> Permutation (all_records st) (all_records (roll pol st now)).
Proof.
  intros En. unfold roll. rewrite roll_no_clobber, En. unfold all_records at 2. cbn [rolled adisk abuf].
  rewrite !app_nil_r.
  assert (Hc : map rdata (match p_compression pol with
                 | Some k => compress_from (N.to_nat k) (insert_desc (roll_file st) (rolled st))
                 | None => insert_desc (roll_file st) (rolled st) end)
               = map rdata (insert_desc (roll_file st) (rolled st))).
  { destruct (p_compression pol); [apply compress_datas | reflexivity]. }
  rewrite Hc. eapply Permutation_trans;
    [|apply Permutation_sym; apply (concat_map_perm rdata); apply insert_desc_perm].
  unfold all_records. cbn [map concat roll_file rdata]. apply Permutation_app_comm.
Qed.

Lemma append_perm st r : Permutation (all_records st ++ [r]) (all_records (append st r)).
Proof.
  unfold all_records, append. cbn [rolled adisk abuf]. rewrite bufwrite_rolled, <- app_assoc.
  apply Permutation_app_head. rewrite <- app_assoc. apply Permutation_sym. apply bufwrite_perm.
Qed.

Lemma step_perm pol st o :
  p_max_retained pol = None ->
  Permutation (all_records st ++ written [o]) (all_records (step pol st o)).
Proof.
  intros En. destruct o as [p r|p|]; cbn [step written flat_map]; rewrite app_nil_r.
  - unfold write.
    set (st1 := if cur_period st <? eff pol p then roll pol st p else st).
    assert (H1 : Permutation (all_records st) (all_records st1)).
    { unfold st1. destruct (_ <? _); [apply roll_perm; exact En | apply Permutation_refl]. }
    destruct (snd r =? 0); [rewrite app_nil_r; exact H1|].
    assert (H2 : Permutation (all_records st ++ [r]) (all_records (append st1 r))).
    { eapply Permutation_trans; [apply Permutation_app_tail; exact H1 | apply append_perm]. }
    destruct (p_max_size pol); [destruct (_ <=? _)|]; try exact H2.
    eapply Permutation_trans; [exact H2 | apply roll_perm; exact En].
  - unfold all_records, restart, flush. cbn [rolled adisk abuf]. rewrite !app_nil_r. apply Permutation_refl.
  - unfold all_records, flush. cbn [rolled adisk abuf]. rewrite !app_nil_r. apply Permutation_refl.
Qed.

Theorem run_perm pol fs p0 ops :
  p_max_retained pol = None -> Permutation (written ops) (all_records (run pol fs p0 ops)).
Proof.
  intros En. unfold run.
  assert (H : forall st, Permutation (all_records st ++ written ops) (all_records (run_from pol st ops))).
  { unfold run_from. induction ops as [|o t IH]; intros st.
    - cbn [written flat_map fold_left]. rewrite app_nil_r. apply Permutation_refl.
    - rewrite written_cons, app_assoc. cbn [fold_left].
      eapply Permutation_trans; [apply Permutation_app_tail; apply step_perm; exact En | apply IH]. }
  apply (H (start pol fs p0)).
Qed.

(* ------------------------------------------------------------------ the clock hypothesis is needed (finding F-roller-clock) *)
(* The statement without the monotone-clock hypothesis. *)
Definition stream_full : Prop :=
  forall pol fs p0 ops,
    exists lost, written ops = lost ++ logical (run pol fs p0 ops)
                 /\ (p_max_retained pol = None -> lost = []).

(* started in period 5, the clock then reads period 3: the first size roll is named after period 5,
   the second after period 3, so with max_retained = 1 cleanup keeps (5,1) = the OLDER record and
   deletes the newest one. *)
Definition clock_witness_pol := mkPolicy false (Some 6) (Some 1) None.
Definition clock_witness_ops := [Write 3 (1, 7); Write 3 (2, 7); Flush].

Lemma clock_witness_state :
  run clock_witness_pol [] 5 clock_witness_ops = mkState [mkFile 5 1 false [(1, 7)]] [] [] 0 3 [(3, 1)] [].
Proof. vm_compute. reflexivity. Qed.

Theorem stream_refuted_backward_clock : ~ stream_full.
Proof.
  intros H. destruct (H clock_witness_pol [] 5 clock_witness_ops) as (lost & E & _).
  rewrite clock_witness_state in E. vm_compute in E.
  destruct lost as [|a [|b lost]]; cbn [app] in E.
  - congruence.
  - congruence.
  - apply (f_equal (@length _)) in E. cbn [length] in E. rewrite app_length in E. cbn [length] in E. lia.
Qed.

(* the same two writes with unlimited retention: nothing is lost, but reading the files in
   (period, sequence) order yields the records in the wrong order *)
Lemma clock_witness_reorder :
  logical (run (mkPolicy false (Some 6) None None) [] 5 clock_witness_ops) = [(2, 7); (1, 7)].
Proof. vm_compute. reflexivity. Qed.

(* ------------------------------------------------------------------ foreign files (sibling appenders, unrelated files) *)
Lemma bufwrite_foreign st r : foreign (bufwrite st r) = foreign st.
Proof.
  unfold bufwrite. destruct (_ <? _); [reflexivity|].
  destruct (_ <? _); destruct (_ <=? _); reflexivity.
Qed.

Lemma step_foreign pol st o : foreign (step pol st o) = foreign st.
Proof.
  destruct o as [p r|p|]; cbn [step]; [|reflexivity|reflexivity].
  unfold write.
  assert (H1 : foreign (if cur_period st <? eff pol p then roll pol st p else st) = foreign st)
    by (destruct (_ <? _); reflexivity).
  destruct (snd r =? 0); [exact H1|].
  assert (H2 : foreign (append (if cur_period st <? eff pol p then roll pol st p else st) r) = foreign st).
  { unfold append. cbn [foreign]. rewrite bufwrite_foreign. exact H1. }
  destruct (p_max_size pol); [destruct (_ <=? _)|]; exact H2.
Qed.

Lemma run_from_foreign pol ops : forall st, foreign (run_from pol st ops) = foreign st.
Proof.
  unfold run_from. induction ops as [|o t IH]; intros st; cbn [fold_left]; [reflexivity|].
  rewrite IH. apply step_foreign.
Qed.

(* non-interference: the roller's own part of the state does not depend on the foreign files *)
Lemma bufwrite_with_foreign st fs r : bufwrite (with_foreign st fs) r = with_foreign (bufwrite st r) fs.
Proof.
  unfold bufwrite. cbn [with_foreign abuf].
  destruct (_ <? _); [reflexivity|]. destruct (_ <? _); destruct (_ <=? _); reflexivity.
Qed.

Lemma roll_with_foreign pol st fs now : roll pol (with_foreign st fs) now = with_foreign (roll pol st now) fs.
Proof. reflexivity. Qed.

Lemma append_with_foreign st fs r : append (with_foreign st fs) r = with_foreign (append st r) fs.
Proof. unfold append. rewrite bufwrite_with_foreign. reflexivity. Qed.

Lemma step_with_foreign pol st fs o : step pol (with_foreign st fs) o = with_foreign (step pol st o) fs.
Proof.
  destruct o as [p r|p|]; cbn [step]; [|reflexivity|reflexivity].
  unfold write. cbv zeta.
  assert (E1 : (if cur_period (with_foreign st fs) <? eff pol p
                then roll pol (with_foreign st fs) p else with_foreign st fs)
               = with_foreign (if cur_period st <? eff pol p then roll pol st p else st) fs).
  { change (cur_period (with_foreign st fs)) with (cur_period st). destruct (_ <? _); reflexivity. }
  rewrite E1. set (st1 := if cur_period st <? eff pol p then roll pol st p else st).
  destruct (snd r =? 0); [reflexivity|].
  rewrite append_with_foreign. set (X := append st1 r).
  change (cur_size (with_foreign X fs)) with (cur_size X).
  destruct (p_max_size pol); [destruct (_ <=? _)|]; reflexivity.
Qed.

Lemma run_from_with_foreign pol ops : forall st fs,
  run_from pol (with_foreign st fs) ops = with_foreign (run_from pol st ops) fs.
Proof.
  unfold run_from. induction ops as [|o t IH]; intros st fs; cbn [fold_left]; [reflexivity|].
  rewrite step_with_foreign. apply IH.
Qed.

Theorem run_foreign pol fs p0 ops :
  foreign (run pol fs p0 ops) = fs /\
  (forall fs', run pol fs' p0 ops = with_foreign (run pol fs p0 ops) fs').
Proof.
  split; [unfold run; rewrite run_from_foreign; reflexivity|].
  intros fs'. unfold run. rewrite <- run_from_with_foreign. reflexivity.
Qed.
