(* Proofs/PatternProofs.v — lemmas and main theorems about Log/Pattern.v *)
From Fibre Require Import Common.Base Log.Json Log.Pattern.
From Coq Require Import ZifyBool ZifyNat ZifyN.
Ltac Zify.zify_post_hook ::= Z.div_mod_to_equations.
Open Scope N_scope.

(** * padding never truncates *)
Definition all_spaces (s : bytes) : Prop := Forall (fun b => b = 32) s.

Lemma spaces_all n : all_spaces (spaces n).
Proof. unfold all_spaces, spaces. apply Forall_forall. intros x H. apply repeat_spec in H. exact H. Qed.

Lemma nchars_le s : nchars s <= len s.
Proof.
  unfold nchars, len. induction s as [|b s IH]; cbn [filter length]; [lia|].
  destruct (negb (is_cont b)); cbn [length]; lia.
Qed.

Theorem padding_never_truncates : forall content p out,
  apply_padding content p = Rendered out ->
  exists fill, all_spaces fill /\ (out = fill ++ content \/ out = content ++ fill).
Proof.
  intros content p out. unfold apply_padding.
  destruct (Z.abs_N p <=? len content).
  - intros H. inversion H; subst. exists []. split; [constructor|left; reflexivity].
  - destruct (65535 <? Z.abs_N p); [discriminate|].
    destruct (0 <? p)%Z; intros H; inversion H; subst; eexists; (split; [apply spaces_all|]); [left|right]; reflexivity.
Qed.

Corollary padding_length : forall content p out,
  apply_padding content p = Rendered out -> (length content <= length out)%nat.
Proof.
  intros content p out H. destruct (padding_never_truncates _ _ _ H) as (fill & _ & [->| ->]);
    rewrite app_length; lia.
Qed.

(* when padding happens the result has exactly |p| chars (Rust's width counts chars) *)
Theorem padding_width : forall content p out,
  apply_padding content p = Rendered out -> len content < Z.abs_N p ->
  nchars out = Z.abs_N p.
Proof.
  intros content p out. unfold apply_padding.
  destruct (N.leb_spec (Z.abs_N p) (len content)) as [L|L]; [lia|].
  destruct (65535 <? Z.abs_N p); [discriminate|]. intros H _.
  assert (Hs : forall n, nchars (spaces n) = n).
  { intros n. unfold nchars, spaces, len. rewrite <- (N2Nat.id n) at 2.
    induction (N.to_nat n) as [|k IH]; [reflexivity|]. cbn [repeat filter].
    change (negb (is_cont 32)) with true. cbv iota. cbn [length]. lia. }
  assert (Happ : forall a b, nchars (a ++ b) = nchars a + nchars b).
  { intros a b. unfold nchars, len. rewrite filter_app, app_length. lia. }
  pose proof (nchars_le content).
  destruct (0 <? p)%Z; inversion H; subst; rewrite Happ, Hs; lia.
Qed.

Theorem padding_panics_iff : forall content p,
  apply_padding content p = Panicked <-> (len content < Z.abs_N p /\ 65535 < Z.abs_N p).
Proof.
  intros content p. unfold apply_padding.
  destruct (N.leb_spec (Z.abs_N p) (len content)) as [L|L].
  - split; [discriminate|lia].
  - destruct (N.ltb_spec 65535 (Z.abs_N p)) as [L2|L2].
    + split; [lia|reflexivity].
    + destruct (0 <? p)%Z; split; try discriminate; lia.
Qed.

(** * the interpreter *)
Definition pads_small (segs : list seg) : Prop :=
  forall c p o, In (Spec c (Some p) o) segs -> (Z.abs p <= 65535)%Z.

Lemma render_spec_small ev c p o : (match p with Some z => (Z.abs z <= 65535)%Z | None => True end) ->
  exists out, render_spec ev c p o = Rendered out.
Proof.
  intros H. unfold render_spec. destruct (c =? 110); [eexists; reflexivity|].
  destruct p as [z|]; [|eexists; reflexivity].
  destruct (apply_padding (spec_content ev c o) z) eqn:E; [eexists; reflexivity|].
  apply padding_panics_iff in E. lia.
Qed.

Lemma render_segs_small ev segs : pads_small segs -> exists out, render_segs ev segs = Rendered out.
Proof.
  induction segs as [|s r IH]; intros H; cbn [render_segs]; [eexists; reflexivity|].
  destruct IH as [b Hb].
  { intros c p o Hin. apply (H c p o). right. exact Hin. }
  rewrite Hb. destruct s as [t|c p o]; cbn [render_seg]; [eexists; reflexivity|].
  destruct (render_spec_small ev c p o) as [a Ha].
  { destruct p as [z|]; [|exact I]. apply (H c z o). left. reflexivity. }
  rewrite Ha. eexists; reflexivity.
Qed.

(* every event renders, for every segment list whose widths std accepts *)
Theorem format_total_small_pads : forall ev segs, pads_small segs ->
  exists out, format_segs ev segs = Rendered out.
Proof.
  intros ev segs H. unfold format_segs. destruct (render_segs_small ev segs H) as [out ->].
  eexists; reflexivity.
Qed.

(* the unrestricted statement is false (finding F-33): a width above 65535 panics *)
Definition format_total_full : Prop :=
  forall ev pat, exists out, format_pattern pat ev = Rendered out.

Definition f33_event : event :=
  mkEvent [50] [] Info [116] [110] (Some [104; 105]) None None None None [].

(* the pattern %65536m *)
Definition f33_pattern : bytes := [37; 54; 53; 53; 51; 54; 109].

Theorem format_total_refuted : ~ format_total_full.
Proof.
  intros H. destruct (H f33_event f33_pattern) as [out Ho]. vm_compute in Ho. discriminate.
Qed.

(** * the message is reproduced verbatim *)
Definition contains (out s : bytes) : Prop := exists pre post, out = pre ++ s ++ post.

Lemma contains_app_l out s x : contains out s -> contains (x ++ out) s.
Proof. intros (pre & post & ->). exists (x ++ pre), post. rewrite app_assoc. reflexivity. Qed.

Lemma contains_app_r out s x : contains out s -> contains (out ++ x) s.
Proof. intros (pre & post & ->). exists pre, (post ++ x). rewrite <- !app_assoc. reflexivity. Qed.

Lemma render_spec_contains ev c p o out : c <> 110 ->
  render_spec ev c p o = Rendered out -> contains out (spec_content ev c o).
Proof.
  intros Hc. unfold render_spec. destruct (N.eqb_spec c 110) as [E|_]; [contradiction|].
  destruct p as [z|].
  - intros H. destruct (padding_never_truncates _ _ _ H) as (fill & _ & [->| ->]).
    + exists fill, []. rewrite app_nil_r. reflexivity.
    + exists [], fill. reflexivity.
  - intros H. inversion H; subst. exists [], []. rewrite app_nil_r. reflexivity.
Qed.

Lemma render_segs_contains ev c p o : c <> 110 -> forall segs out,
  In (Spec c p o) segs -> render_segs ev segs = Rendered out -> contains out (spec_content ev c o).
Proof.
  intros Hc. induction segs as [|s r IH]; intros out Hin H; [contradiction|].
  cbn [render_segs] in H. destruct (render_seg ev s) as [a|] eqn:Ea; [|discriminate].
  destruct (render_segs ev r) as [b|] eqn:Eb; [|discriminate]. inversion H; subst out.
  destruct Hin as [->|Hin].
  - apply contains_app_r. cbn [render_seg] in Ea. apply (render_spec_contains ev c p o a Hc Ea).
  - apply contains_app_l. apply (IH b Hin eq_refl).
Qed.

Lemma format_segs_contains ev segs out s :
  format_segs ev segs = Rendered out ->
  (forall o, render_segs ev segs = Rendered o -> contains o s) -> contains out s.
Proof.
  unfold format_segs. destruct (render_segs ev segs) as [o|]; [|discriminate].
  intros H Hc. specialize (Hc o eq_refl). inversion H; subst.
  destruct (ends_nl o); [exact Hc|apply contains_app_r, Hc].
Qed.

Theorem message_verbatim : forall ev segs p o out,
  In (Spec 109 p o) segs -> format_segs ev segs = Rendered out ->
  contains out (opt_bytes (e_message ev)).
Proof.
  intros ev segs p o out Hin H. apply (format_segs_contains ev segs out _ H).
  intros o' Ho. apply (render_segs_contains ev 109 p o ltac:(discriminate) segs o' Hin Ho).
Qed.

(* likewise level (%p, %l) and target (%t) *)
Theorem level_target_verbatim : forall ev segs p o out,
  format_segs ev segs = Rendered out ->
  ((In (Spec 112 p o) segs \/ In (Spec 108 p o) segs) -> contains out (level_str (e_level ev)))
  /\ (In (Spec 116 p o) segs -> contains out (e_target ev)).
Proof.
  intros ev segs p o out H. split.
  - intros [Hin|Hin]; apply (format_segs_contains ev segs out _ H); intros o' Ho.
    + apply (render_segs_contains ev 112 p o ltac:(discriminate) segs o' Hin Ho).
    + apply (render_segs_contains ev 108 p o ltac:(discriminate) segs o' Hin Ho).
  - intros Hin. apply (format_segs_contains ev segs out _ H). intros o' Ho.
    apply (render_segs_contains ev 116 p o ltac:(discriminate) segs o' Hin Ho).
Qed.

(** * every rendered record ends with a newline *)
Lemma ends_nl_spec out : ends_nl out = true -> exists body, out = body ++ [10].
Proof.
  induction out as [|b r IH]; cbn [ends_nl]; [discriminate|].
  destruct r as [|c r'].
  - intros H. apply N.eqb_eq in H. subst b. exists []. reflexivity.
  - intros H. destruct (IH H) as [body Hb]. exists (b :: body). rewrite Hb. reflexivity.
Qed.

Theorem format_ends_newline : forall ev segs out, format_segs ev segs = Rendered out ->
  exists body, out = body ++ [10].
Proof.
  intros ev segs out. unfold format_segs. destruct (render_segs ev segs) as [o|]; [|discriminate].
  intros H. inversion H; subst. destruct (ends_nl o) eqn:E; [apply ends_nl_spec, E|].
  exists o. reflexivity.
Qed.

(** * the scanner on %-free text: one literal, rendered verbatim *)
Lemma scan_lit_no_pct : forall inp lit, ~ In 37 inp -> scan SLit lit inp = flush (lit ++ inp).
Proof.
  induction inp as [|b r IH]; intros lit H; cbn [scan].
  - rewrite app_nil_r. reflexivity.
  - destruct (N.eqb_spec b 37) as [->|Hb]; [exfalso; apply H; left; reflexivity|].
    rewrite IH by (intros Hin; apply H; right; exact Hin).
    rewrite <- app_assoc. reflexivity.
Qed.

Theorem literal_pattern : forall pat ev, ~ In 37 pat -> pat <> [] ->
  scan_pattern pat = [Lit pat]
  /\ format_pattern pat ev = Rendered (if ends_nl pat then pat else pat ++ [10]).
Proof.
  intros pat ev H Hne. unfold format_pattern, scan_pattern. rewrite scan_lit_no_pct by exact H.
  cbn [app]. destruct pat as [|b t]; [contradiction|]. cbn [flush]. split; [reflexivity|].
  unfold format_segs. cbn [render_segs render_seg]. rewrite app_nil_r. reflexivity.
Qed.
