(* Proofs/TopicInvSub.v — invariant preservation: subscribe / unsubscribe (as state transformers). *)
From Fibre Require Import Common.Base Chan.TopicOps Chan.TopicSpec Proofs.TopicLemmas Proofs.TopicInv.

Lemma rx_alive_In rs x : NoDup (map r_id rs) -> In x rs -> r_live x = true -> rx_alive (r_id x) rs = true.
Proof.
  intros Hnd Hin Hl. unfold rx_alive. rewrite (find_rx_NoDup _ _ _ Hnd Hin eq_refl). exact Hl.
Qed.

Lemma upd_srx_ext r g g' ss : (forall z, g z = g' z) -> upd_srx r g ss = upd_srx r g' ss.
Proof. intros H. unfold upd_srx. apply map_ext. intros a. rewrite H. reflexivity. Qed.

Lemma upd_rx_id r rs : upd_rx r (fun z => z) rs = rs.
Proof.
  unfold upd_rx. rewrite <- (map_id rs) at 2. apply map_ext. intros a. destruct (N.eqb (r_id a) r); reflexivity.
Qed.

Lemma st_set_rxs_same s : st_set_rxs s (rxs s) = s.
Proof. destruct s; reflexivity. Qed.

Lemma inv_spec_only c s sp r x y g :
  Inv c s sp -> find_rx r (rxs s) = Some x -> find_srx r (sp_rx sp) = Some y ->
  rel_rx c (lists s) (disp_alive s) (any_open sp) (sg c sp) x (g y) ->
  Inv c s (sp_set_rx sp (upd_srx r g (sp_rx sp))).
Proof.
  intros I Hx Hy HR. rewrite <- (st_set_rxs_same s) at 1. rewrite <- (upd_rx_id r (rxs s)).
  apply (inv_upd_rx _ _ _ _ x y); auto.
Qed.

(* change the subscription set of receiver r and the dispatcher lists *)
Lemma inv_upd_subs c s sp r x y (fs : rxh -> list N) (gs : srx -> list N) ls' :
  Inv c s sp -> find_rx r (rxs s) = Some x -> find_srx r (sp_rx sp) = Some y -> r_live x = true ->
  NoDup (fs x) ->
  (disp_alive s = true -> fs x = gs y) ->
  (disp_alive s = true -> forall t, In t (fs x) -> exists l, get_list t ls' = Some l /\ In r l) ->
  (disp_alive s = true -> good c y = true -> forall t l, get_list t ls' = Some l -> In r l -> In t (fs x)) ->
  (disp_alive s = true -> forall m, m <> r -> rx_alive m (rxs s) = true -> forall t,
       (exists l, get_list t (lists s) = Some l /\ In m l) <-> (exists l, get_list t ls' = Some l /\ In m l)) ->
  (forall t l, get_list t ls' = Some l -> NoDup l) ->
  (forall t l m, get_list t ls' = Some l -> In m l -> In m (map r_id (rxs s))) ->
  Inv c (st_set_lists (st_set_rxs s (upd_rx r (fun z => rx_set_subs z (fs z)) (rxs s))) ls')
        (sp_set_rx sp (upd_srx r (fun z => srx_set_subs z (gs z)) (sp_rx sp))).
Proof.
  intros I Hx Hy Hlive Hnd Heq Hr1 Hr2 Hoth Hlnd Hlk.
  assert (Hidf : forall x0, r_id (rx_set_subs x0 (fs x0)) = r_id x0) by reflexivity.
  constructor; cbn [txs rxs lists futs scount st_set_rxs st_set_lists sp_rx sp_tx sp_futs sp_set_rx].
  - apply (i_tx _ _ _ I).
  - change (disp_alive (st_set_lists (st_set_rxs s (upd_rx r (fun z => rx_set_subs z (fs z)) (rxs s))) ls'))
      with (disp_alive s).
    change (any_open (sp_set_rx sp (upd_srx r (fun z => srx_set_subs z (gs z)) (sp_rx sp)))) with (any_open sp).
    change (sg c (sp_set_rx sp (upd_srx r (fun z => srx_set_subs z (gs z)) (sp_rx sp)))) with (sg c sp).
    eapply upd_pair; [apply (i_rx _ _ _ I) | apply rel_rx_id | |].
    + intros x0 y0 Hx0 Hy0 HR E.
      assert (E2 : s_id y0 = r) by (rewrite <- (rr_id _ _ _ _ _ _ _ HR); exact E).
      destruct (unique_pair _ _ _ _ _ _ _ _ I Hx Hy Hx0 Hy0 E E2) as [-> ->].
      destruct HR. constructor; cbn; auto.
      * intros Hl Hda. split; [apply Heq; exact Hda | apply rr_subs; assumption].
      * intros Hl Hda t Ht. rewrite E. apply Hr1; assumption.
      * intros Hl Hda Hg t l H1 H2. rewrite E in H2. eapply Hr2; eauto.
    + intros x0 y0 Hx0 Hy0 HR E.
      assert (Hal : r_live x0 = true -> rx_alive (r_id x0) (rxs s) = true).
      { intros Hl. apply rx_alive_In; [apply (i_rnd _ _ _ I) | exact Hx0 | exact Hl]. }
      destruct HR. constructor; auto.
      * intros Hl Hda t Ht. apply (Hoth Hda (r_id x0) E (Hal Hl) t). apply rr_reg1; assumption.
      * intros Hl Hda Hg t l H1 H2.
        destruct (proj2 (Hoth Hda (r_id x0) E (Hal Hl) t)) as [l0 [A B]]; [eauto|].
        eapply rr_reg2; eauto.
  - rewrite map_r_id_upd by exact Hidf. apply (i_rnd _ _ _ I).
  - apply (i_tnd _ _ _ I).
  - apply (i_futs _ _ _ I).
  - intros f0 r0 Hin. rewrite rx_alive_upd; [eapply (i_flive _ _ _ I); eauto | exact Hidf | reflexivity].
  - exact Hlnd.
  - intros t l m H1 H2. rewrite map_r_id_upd by exact Hidf. eapply Hlk; eauto.
  - apply (i_cnt _ _ _ I).
Qed.

(* with the dispatcher gone the subscription sets are no longer related *)
Lemma rel_rx_subs_dead c ls ao sgb x y subs' ssubs' :
  rel_rx c ls false ao sgb x y -> NoDup subs' ->
  rel_rx c ls false ao sgb (rx_set_subs x subs') (srx_set_subs y ssubs').
Proof.
  intros HR Hnd. destruct HR. constructor; cbn; auto; try (intros; discriminate).
Qed.

(* the reference's subscribe / unsubscribe as transformers *)
Definition sp_sub (r t : N) (sp : spec) : spec :=
  sp_set_rx sp (upd_srx r (fun x => if mem t (s_subs x) then x else srx_set_subs x (s_subs x ++ [t])) (sp_rx sp)).
Definition sp_unsub (r t : N) (sp : spec) : spec :=
  sp_set_rx sp (upd_srx r (fun x => srx_set_subs x (filter (fun u => negb (N.eqb u t)) (s_subs x))) (sp_rx sp)).

Lemma srx_set_subs_same z : srx_set_subs z (s_subs z) = z.
Proof. destruct z; reflexivity. Qed.

Lemma sub_step c s sp r t x :
  Inv c s sp -> live_rx r s = Some x -> Inv c (subscribe_core r t s) (sp_sub r t sp).
Proof.
  intros I Hl. apply live_rx_spec in Hl. destruct Hl as [Hx Hlive].
  destruct (pair_rx _ _ _ _ _ I Hx) as [y [Hy [Hinx [Hiny HR]]]].
  unfold subscribe_core, sp_sub. rewrite Hx.
  destruct (mem t (r_subs x)) eqn:Em.
  - (* already subscribed *)
    apply (inv_spec_only _ _ _ _ x y); auto.
    destruct (disp_alive s) eqn:Eda.
    + destruct (rr_subs _ _ _ _ _ _ _ HR Hlive eq_refl) as [Hs _]. rewrite <- Hs, Em. exact HR.
    + destruct (mem t (s_subs y)); [exact HR|].
      assert (E : x = rx_set_subs x (r_subs x)) by (destruct x; reflexivity).
      rewrite E. apply rel_rx_subs_dead; [exact HR | apply (rr_nd _ _ _ _ _ _ _ HR)].
  - assert (Hnd' : NoDup (r_subs x ++ [t])).
    { apply NoDup_snoc; [apply (rr_nd _ _ _ _ _ _ _ HR) | apply mem_false_In; exact Em]. }
    destruct (disp_alive s) eqn:Eda.
    + (* registered with the dispatcher *)
      set (l := match get_list t (lists s) with Some l => l | None => [] end).
      set (l1 := filter (fun m => rx_alive m (rxs s)) l).
      set (l2 := if mem r l1 then l1 else l1 ++ [r]).
      assert (Hl0 : forall l0, get_list t (lists s) = Some l0 -> l = l0).
      { intros l0 H. unfold l. rewrite H. reflexivity. }
      assert (Hrl2 : In r l2).
      { unfold l2. destruct (mem r l1) eqn:E; [apply mem_In; exact E | apply in_or_app; right; left; reflexivity]. }
      assert (Hl2 : forall m, In m l2 -> m = r \/ (In m l /\ rx_alive m (rxs s) = true)).
      { intros m Hm. unfold l2 in Hm. destruct (mem r l1).
        - right. apply filter_In in Hm. exact Hm.
        - apply in_app_or in Hm. destruct Hm as [Hm|[Hm|[]]]; [right; apply filter_In in Hm; exact Hm | left; auto]. }
      assert (Hndl : NoDup l).
      { unfold l. destruct (get_list t (lists s)) eqn:E; [eapply (i_lnd _ _ _ I); eauto | constructor]. }
      rewrite (upd_srx_ext r _ (fun z => srx_set_subs z (if mem t (s_subs z) then s_subs z else s_subs z ++ [t]))).
      2:{ intros z. destruct (mem t (s_subs z)); [symmetry; apply srx_set_subs_same | reflexivity]. }
      apply (inv_upd_subs _ _ _ _ x y (fun z => r_subs z ++ [t])); auto.
      * intros _. destruct (rr_subs _ _ _ _ _ _ _ HR Hlive eq_refl) as [Hs _]. rewrite <- Hs, Em. reflexivity.
      * intros _ u Hu. destruct (N.eq_dec u t) as [->|Hne].
        -- exists l2. split; [apply get_set_eq | exact Hrl2].
        -- rewrite get_set_neq by exact Hne. apply in_app_or in Hu. destruct Hu as [Hu|[Hu|[]]]; [|congruence].
           pose proof (rr_reg1 _ _ _ _ _ _ _ HR Hlive eq_refl u Hu) as [l0 [A B]].
           apply find_rx_In in Hx. destruct Hx as [_ Hid]. rewrite Hid in B. eauto.
      * intros _ Hg u l0 H1 H2. destruct (N.eq_dec u t) as [->|Hne].
        -- apply in_or_app. right. left. reflexivity.
        -- rewrite get_set_neq in H1 by exact Hne. apply in_or_app. left.
           apply find_rx_In in Hx. destruct Hx as [_ Hid]. rewrite <- Hid in H2.
           eapply (rr_reg2 _ _ _ _ _ _ _ HR); eauto.
      * intros _ m Hm Hal u. destruct (N.eq_dec u t) as [->|Hne].
        -- rewrite get_set_eq. split.
           ++ intros [l0 [A B]]. exists l2. split; [reflexivity|]. rewrite <- (Hl0 _ A) in B.
              assert (In m l1) by (apply filter_In; auto).
              unfold l2. destruct (mem r l1); [assumption | apply in_or_app; left; assumption].
           ++ intros [l0 [A B]]. injection A as <-. destruct (Hl2 _ B) as [->|[B1 _]]; [contradiction|].
              unfold l in B1. destruct (get_list t (lists s)) as [l0|]; [eauto | contradiction].
        -- rewrite get_set_neq by exact Hne. tauto.
      * intros u l0 H. destruct (N.eq_dec u t) as [->|Hne].
        -- rewrite get_set_eq in H. injection H as <-. unfold l2.
           destruct (mem r l1) eqn:E; [apply filter_NoDup; exact Hndl|].
           apply NoDup_snoc; [apply filter_NoDup; exact Hndl | apply mem_false_In; exact E].
        -- rewrite get_set_neq in H by exact Hne. eapply (i_lnd _ _ _ I); eauto.
      * intros u l0 m H Hm. destruct (N.eq_dec u t) as [->|Hne].
        -- rewrite get_set_eq in H. injection H as <-. destruct (Hl2 _ Hm) as [->|[B1 _]].
           ++ apply find_rx_In in Hx. destruct Hx as [Hx Hid]. rewrite <- Hid. apply in_map. exact Hx.
           ++ unfold l in B1. destruct (get_list t (lists s)) as [l0|] eqn:E; [|contradiction].
              eapply (i_lknown _ _ _ I); eauto.
        -- rewrite get_set_neq in H by exact Hne. eapply (i_lknown _ _ _ I); eauto.
    + (* the dispatcher is gone: only the local set changes *)
      apply (inv_upd_rx _ _ _ _ x y); auto. rewrite Eda.
      destruct (mem t (s_subs y)).
      * rewrite <- (srx_set_subs_same y). apply rel_rx_subs_dead; assumption.
      * apply rel_rx_subs_dead; assumption.
Qed.

Lemma filter_neq_notin t l : ~ In t l -> filter (fun u => negb (N.eqb u t)) l = l.
Proof.
  induction l as [|a l IH]; cbn [filter]; intros H; [reflexivity|].
  destruct (N.eqb_spec a t) as [E|E]; cbn [negb].
  - exfalso. apply H. left. exact E.
  - f_equal. apply IH. intros Hi. apply H. right. exact Hi.
Qed.

Lemma In_filter_neq t u l : In u (filter (fun v => negb (N.eqb v t)) l) <-> In u l /\ u <> t.
Proof.
  rewrite filter_In. split; intros [A B]; split; auto.
  - intros ->. rewrite N.eqb_refl in B. discriminate.
  - destruct (N.eqb_spec u t); [contradiction | reflexivity].
Qed.

Lemma unsub_step c s sp r t x :
  Inv c s sp -> live_rx r s = Some x -> Inv c (unsubscribe_core r t s) (sp_unsub r t sp).
Proof.
  intros I Hl. apply live_rx_spec in Hl. destruct Hl as [Hx Hlive].
  destruct (pair_rx _ _ _ _ _ I Hx) as [y [Hy [Hinx [Hiny HR]]]].
  pose proof (find_rx_In _ _ _ Hx) as [_ Hid].
  unfold unsubscribe_core, sp_unsub. rewrite Hx.
  destruct (mem t (r_subs x)) eqn:Em.
  - assert (Hnd' : NoDup (filter (fun u => negb (N.eqb u t)) (r_subs x))).
    { apply filter_NoDup. apply (rr_nd _ _ _ _ _ _ _ HR). }
    destruct (disp_alive s) eqn:Eda.
    + destruct (rr_subs _ _ _ _ _ _ _ HR Hlive eq_refl) as [Hs _].
      apply mem_In in Em.
      destruct (rr_reg1 _ _ _ _ _ _ _ HR Hlive eq_refl t Em) as [l [Hl Hrl]]. rewrite Hl.
      set (l' := filter (fun m => rx_alive m (rxs s) && negb (N.eqb m r)) l).
      apply (inv_upd_subs _ _ _ _ x y (fun z => filter (fun u => negb (N.eqb u t)) (r_subs z))
               (fun z => filter (fun u => negb (N.eqb u t)) (s_subs z))); auto.
      * intros _. rewrite Hs. reflexivity.
      * intros _ u Hu. apply In_filter_neq in Hu. destruct Hu as [Hu Hne].
        rewrite get_set_neq by exact Hne.
        destruct (rr_reg1 _ _ _ _ _ _ _ HR Hlive eq_refl u Hu) as [l0 [A B]]. rewrite Hid in B. eauto.
      * intros _ Hg u l0 H1 H2. destruct (N.eq_dec u t) as [->|Hne].
        -- rewrite get_set_eq in H1. injection H1 as <-. unfold l' in H2. apply filter_In in H2.
           destruct H2 as [_ H2]. rewrite N.eqb_refl in H2. rewrite andb_false_r in H2. discriminate.
        -- rewrite get_set_neq in H1 by exact Hne. apply In_filter_neq. split; [|exact Hne].
           rewrite <- Hid in H2. eapply (rr_reg2 _ _ _ _ _ _ _ HR); eauto.
      * intros _ m Hm Hal u. destruct (N.eq_dec u t) as [->|Hne].
        -- rewrite get_set_eq, Hl. split; intros [l0 [A B]]; injection A as <-.
           ++ exists l'. split; [reflexivity|]. unfold l'. apply filter_In. split; [exact B|].
              rewrite Hal. destruct (N.eqb_spec m r); [contradiction | reflexivity].
           ++ exists l. split; [reflexivity|]. unfold l' in B. apply filter_In in B. tauto.
        -- rewrite get_set_neq by exact Hne. tauto.
      * intros u l0 H. destruct (N.eq_dec u t) as [->|Hne].
        -- rewrite get_set_eq in H. injection H as <-. apply filter_NoDup. eapply (i_lnd _ _ _ I); eauto.
        -- rewrite get_set_neq in H by exact Hne. eapply (i_lnd _ _ _ I); eauto.
      * intros u l0 m H Hm. destruct (N.eq_dec u t) as [->|Hne].
        -- rewrite get_set_eq in H. injection H as <-. unfold l' in Hm. apply filter_In in Hm.
           destruct Hm as [Hm _]. eapply (i_lknown _ _ _ I); eauto.
        -- rewrite get_set_neq in H by exact Hne. eapply (i_lknown _ _ _ I); eauto.
    + apply (inv_upd_rx _ _ _ _ x y); auto. rewrite Eda. apply rel_rx_subs_dead; assumption.
  - apply (inv_spec_only _ _ _ _ x y); auto.
    destruct (disp_alive s) eqn:Eda.
    + destruct (rr_subs _ _ _ _ _ _ _ HR Hlive eq_refl) as [Hs _].
      rewrite filter_neq_notin by (rewrite <- Hs; apply mem_false_In; exact Em).
      rewrite srx_set_subs_same. exact HR.
    + assert (E : x = rx_set_subs x (r_subs x)) by (destruct x; reflexivity).
      rewrite E. apply rel_rx_subs_dead; [exact HR | apply (rr_nd _ _ _ _ _ _ _ HR)].
Qed.

Lemma ok_Subscribe c r t : step_ok_for c (Subscribe r t).
Proof.
  intros s sp s1 rs w sp1 vs I Hs Hsp. cbn [step sp_step] in *.
  destruct (live_rx r s) as [x|] eqn:Hl; injection Hs as <- <- <-; injection Hsp as <- <-.
  - split; [|apply vs_ok_nil]. eapply sub_step; eauto.
  - split; [exact I | apply vs_ok_nil].
Qed.

Lemma ok_Unsubscribe c r t : step_ok_for c (Unsubscribe r t).
Proof.
  intros s sp s1 rs w sp1 vs I Hs Hsp. cbn [step sp_step] in *.
  destruct (live_rx r s) as [x|] eqn:Hl; injection Hs as <- <- <-; injection Hsp as <- <-.
  - split; [|apply vs_ok_nil]. eapply unsub_step; eauto.
  - split; [exact I | apply vs_ok_nil].
Qed.

(** receiver close_internal *)
Lemma inv_rcount c s sp k : Inv c s sp -> Inv c (st_set_rcount s k) sp.
Proof. intros I. constructor; cbn; frame I. Qed.

Lemma upd_srx_comp r g1 g2 ss :
  (forall z, s_id (g1 z) = s_id z) ->
  upd_srx r g2 (upd_srx r g1 ss) = upd_srx r (fun z => g2 (g1 z)) ss.
Proof.
  intros Hid. unfold upd_srx. rewrite map_map. apply map_ext. intros a.
  destruct (N.eqb_spec (s_id a) r) as [E|E].
  - rewrite Hid. destruct (N.eqb_spec (s_id a) r); [reflexivity | contradiction].
  - destruct (N.eqb_spec (s_id a) r); [contradiction | reflexivity].
Qed.

Lemma upd_srx_ext_in r g g' ss :
  (forall z, In z ss -> s_id z = r -> g z = g' z) -> upd_srx r g ss = upd_srx r g' ss.
Proof.
  intros H. unfold upd_srx. apply map_ext_in. intros a Ha.
  destruct (N.eqb_spec (s_id a) r); [apply H; assumption | reflexivity].
Qed.

Lemma live_rx_unsub r r' t s x :
  live_rx r s = Some x -> exists x', live_rx r (unsubscribe_core r' t s) = Some x'.
Proof.
  intros H. unfold unsubscribe_core.
  destruct (find_rx r' (rxs s)) as [x0|]; [|eauto].
  destruct (mem t (r_subs x0)); [|eauto].
  assert (P : exists x', live_rx r (st_set_rxs s (upd_rx r'
              (fun y => rx_set_subs y (filter (fun u => negb (N.eqb u t)) (r_subs y))) (rxs s))) = Some x').
  { unfold live_rx in *. cbn [rxs st_set_rxs]. rewrite find_rx_upd by reflexivity.
    destruct (find_rx r (rxs s)) as [z|]; [|discriminate].
    destruct (r_live z) eqn:L; [|discriminate].
    destruct (N.eqb r r'); cbn; rewrite L; eauto. }
  destruct (disp_alive s); [|exact P]. destruct (get_list t (lists s)); exact P.
Qed.

Lemma live_rx_sub r r' t s x :
  live_rx r s = Some x -> exists x', live_rx r (subscribe_core r' t s) = Some x'.
Proof.
  intros H. unfold subscribe_core.
  destruct (find_rx r' (rxs s)) as [x0|]; [|eauto].
  destruct (mem t (r_subs x0)); [eauto|].
  assert (P : exists x', live_rx r (st_set_rxs s (upd_rx r'
              (fun y => rx_set_subs y (r_subs y ++ [t])) (rxs s))) = Some x').
  { unfold live_rx in *. cbn [rxs st_set_rxs]. rewrite find_rx_upd by reflexivity.
    destruct (find_rx r (rxs s)) as [z|]; [|discriminate].
    destruct (r_live z) eqn:L; [|discriminate].
    destruct (N.eqb r r'); cbn; rewrite L; eauto. }
  destruct (disp_alive s); exact P.
Qed.

Lemma unsub_fold c r ts : forall s sp x,
  Inv c s sp -> live_rx r s = Some x ->
  Inv c (fold_left (fun a t => unsubscribe_core r t a) ts s) (fold_left (fun a t => sp_unsub r t a) ts sp).
Proof.
  induction ts as [|t ts IH]; intros s sp x I Hl; cbn [fold_left]; [exact I|].
  destruct (live_rx_unsub r r t s x Hl) as [x' Hl'].
  eapply IH; [eapply unsub_step; eauto | exact Hl'].
Qed.

Lemma sub_fold c r ts : forall s sp x,
  Inv c s sp -> live_rx r s = Some x ->
  Inv c (fold_left (fun a t => subscribe_core r t a) ts s) (fold_left (fun a t => sp_sub r t a) ts sp).
Proof.
  induction ts as [|t ts IH]; intros s sp x I Hl; cbn [fold_left]; [exact I|].
  destruct (live_rx_sub r r t s x Hl) as [x' Hl'].
  eapply IH; [eapply sub_step; eauto | exact Hl'].
Qed.

(* closed form of the reference's folded unsubscribe *)
Lemma sp_unsub_fold r ts : forall sp,
  fold_left (fun a t => sp_unsub r t a) ts sp =
  sp_set_rx sp (upd_srx r (fun z => srx_set_subs z (fold_left (fun l t => filter (fun u => negb (N.eqb u t)) l) ts (s_subs z))) (sp_rx sp)).
Proof.
  induction ts as [|t ts IH]; intros sp; cbn [fold_left].
  - rewrite (upd_srx_ext r _ (fun z => z)) by (intros z; apply srx_set_subs_same).
    rewrite upd_srx_id. destruct sp; reflexivity.
  - rewrite IH. unfold sp_unsub. cbn [sp_rx sp_set_rx]. rewrite upd_srx_comp by reflexivity.
    destruct sp; reflexivity.
Qed.

Lemma fold_filter_all ts : forall l, (forall u, In u l -> In u ts) ->
  fold_left (fun l t => filter (fun u => negb (N.eqb u t)) l) ts l = [].
Proof.
  induction ts as [|t ts IH]; intros l H; cbn [fold_left].
  - destruct l as [|a l]; [reflexivity|]. exfalso. apply (H a). left. reflexivity.
  - apply IH. intros u Hu. apply In_filter_neq in Hu. destruct Hu as [Hu Hne].
    destruct (H u Hu) as [E|E]; [congruence | exact E].
Qed.

Lemma close_internal_inv c s sp r x :
  Inv c s sp -> live_rx r s = Some x ->
  (fix14 c = false -> forall y, find_srx r (sp_rx sp) = Some y -> s_closed y = true) ->
  Inv c (rx_close_internal c r s) (sp_set_rx sp (upd_srx r (fun z => srx_set_subs z []) (sp_rx sp))).
Proof.
  intros I Hl Hcl. pose proof Hl as Hl0. apply live_rx_spec in Hl. destruct Hl as [Hx Hlive].
  destruct (pair_rx _ _ _ _ _ I Hx) as [y [Hy [Hinx [Hiny HR]]]].
  unfold rx_close_internal. destruct (disp_alive s) eqn:Eda.
  - rewrite Hx. destruct (fix14 c) eqn:F14.
    + apply inv_rcount.
      pose proof (unsub_fold c r (r_subs x) s sp x I Hl0) as P. rewrite sp_unsub_fold in P.
      rewrite (upd_srx_ext_in r _ (fun z => srx_set_subs z [])) in P; [exact P|].
      intros z Hz Ez.
      assert (E : z = y).
      { assert (Hnd : NoDup (map s_id (sp_rx sp))).
        { rewrite <- (ids_eq _ _ _ _ _ _ _ (i_rx _ _ _ I)). apply (i_rnd _ _ _ I). }
        pose proof (find_srx_NoDup _ _ _ Hnd Hz Ez). congruence. }
      subst z. f_equal. apply fold_filter_all.
      destruct (rr_subs _ _ _ _ _ _ _ HR Hlive eq_refl) as [Hs _]. rewrite Hs. auto.
    + apply inv_rcount. apply (inv_upd_rx _ _ _ _ x y); auto.
      assert (Hg : good c y = false).
      { unfold good. rewrite F14, (Hcl eq_refl y Hy). reflexivity. }
      destruct HR. constructor; cbn; auto.
      * constructor.
      * intros A B. split; [reflexivity | apply rr_subs; auto].
      * intros A B t [].
      * intros A B C. change (good c y = true) in C. congruence.
      * intros A B C. rewrite (Hcl eq_refl y Hy) in C. discriminate.
  - apply (inv_spec_only _ _ _ _ x y); auto. rewrite Eda.
    assert (E : x = rx_set_subs x (r_subs x)) by (destruct x; reflexivity).
    rewrite E. apply rel_rx_subs_dead; [exact HR | apply (rr_nd _ _ _ _ _ _ _ HR)].
Qed.
