(* Proofs/RouteProofs.v — lemmas and main theorems about Log/Route.v (property C19, routing). *)
From Fibre Require Import Common.Base Log.Route.
From Coq Require Import Arith.

(* ------------------------------------------------------------------ levels *)
Lemma rank_pos lv : (1 <= rank lv)%nat.
Proof. destruct lv; cbn; lia. Qed.

Lemma admits_OFF lv : admits OFF lv = false.
Proof. unfold admits. cbn [frank]. pose proof (rank_pos lv). apply Nat.leb_gt. lia. Qed.

Lemma admits_mono f g lv : (frank f <= frank g)%nat -> admits f lv = true -> admits g lv = true.
Proof. unfold admits. intros H H1. apply Nat.leb_le in H1. apply Nat.leb_le. lia. Qed.

Lemma fmax_ge_l a b : (frank a <= frank (fmax a b))%nat.
Proof. unfold fmax. destruct (Nat.leb_spec (frank a) (frank b)); lia. Qed.

Lemma fmax_ge_r a b : (frank b <= frank (fmax a b))%nat.
Proof. unfold fmax. destruct (Nat.leb_spec (frank a) (frank b)); lia. Qed.

Lemma fold_fmax_ge_init d l : (frank d <= frank (fold_right fmax d l))%nat.
Proof.
  induction l as [|x t IH]; cbn [fold_right]; [lia|].
  pose proof (fmax_ge_r x (fold_right fmax d t)). lia.
Qed.

Lemma fold_fmax_ge_in d l x : In x l -> (frank x <= frank (fold_right fmax d l))%nat.
Proof.
  induction l as [|y t IH]; cbn [fold_right]; intros Hin; [destruct Hin|].
  destruct Hin as [->|Hin].
  - apply fmax_ge_l.
  - pose proof (fmax_ge_r y (fold_right fmax d t)). specialize (IH Hin). lia.
Qed.

(* ------------------------------------------------------------------ names *)
Lemma name_eqb_eq a b : name_eqb a b = true <-> a = b.
Proof.
  revert b. induction a as [|x a IH]; intros [|y b]; cbn [name_eqb]; split; intros H;
    try reflexivity; try discriminate.
  - apply andb_true_iff in H. destruct H as [H1 H2]. apply N.eqb_eq in H1. apply IH in H2.
    subst. reflexivity.
  - inversion H; subst. apply andb_true_iff. split; [apply N.eqb_refl | apply IH; reflexivity].
Qed.

Lemma name_eqb_refl a : name_eqb a a = true.
Proof. apply name_eqb_eq. reflexivity. Qed.

Lemma name_eqb_neq a b : name_eqb a b = false <-> a <> b.
Proof.
  split; intros H.
  - intros E. apply name_eqb_eq in E. congruence.
  - destruct (name_eqb a b) eqn:E; [|reflexivity]. apply name_eqb_eq in E. contradiction.
Qed.

Lemma strip_prefix_Some p t r : strip_prefix p t = Some r <-> t = p ++ r.
Proof.
  revert t. induction p as [|a p IH]; intros t; cbn [strip_prefix app].
  - split; intros H; [inversion H | subst]; reflexivity.
  - destruct t as [|b t].
    + split; intros H; discriminate.
    + destruct (N.eqb_spec a b) as [->|Hn].
      * rewrite IH. split; intros H; [subst | inversion H]; reflexivity.
      * split; intros H; [discriminate | inversion H; congruence].
Qed.

Lemma strip_prefix_None p t : strip_prefix p t = None <-> forall r, t <> p ++ r.
Proof.
  split.
  - intros H r E. apply strip_prefix_Some in E. congruence.
  - intros H. destruct (strip_prefix p t) as [r|] eqn:E; [|reflexivity].
    apply strip_prefix_Some in E. exfalso. exact (H r E).
Qed.

Lemma is_prefix_spec p t : is_prefix p t = true <-> exists r, t = p ++ r.
Proof.
  revert t. induction p as [|a p IH]; intros t; cbn [is_prefix app].
  - split; [intros _; exists t; reflexivity | reflexivity].
  - destruct t as [|b t].
    + split; [discriminate | intros [r H]; discriminate].
    + rewrite andb_true_iff, IH, N.eqb_eq. split.
      * intros [-> [r ->]]. exists r. reflexivity.
      * intros [r H]. inversion H; subst. split; [reflexivity | exists r; reflexivity].
Qed.

(* the relation both formulations decide: p is t or a module-path ancestor of t *)
Definition mp (p t : name) : Prop := t = p \/ exists r, t = p ++ sep ++ r.

Lemma starts_with_sep_spec r : starts_with_sep r = true <-> exists r', r = sep ++ r'.
Proof.
  unfold starts_with_sep, sep. destruct r as [|a [|b r]]; cbn [app].
  - split; [discriminate | intros [r' H]; discriminate].
  - split; [discriminate | intros [r' H]; discriminate].
  - rewrite andb_true_iff, !N.eqb_eq. split.
    + intros [-> ->]. exists r. reflexivity.
    + intros [r' H]. inversion H. split; reflexivity.
Qed.

Lemma target_matches_prefix_mp t p : target_matches_prefix t p = true <-> mp p t.
Proof.
  unfold target_matches_prefix, mp.
  destruct (strip_prefix p t) as [r|] eqn:E.
  - apply strip_prefix_Some in E. subst t. destruct r as [|x r].
    + split; [intros _; left; apply app_nil_r | reflexivity].
    + rewrite starts_with_sep_spec. split.
      * intros [r' H]. right. exists r'. rewrite H. reflexivity.
      * intros [H | [r' H]].
        -- exfalso. apply (f_equal (@length N)) in H. rewrite app_length in H. cbn in H. lia.
        -- apply app_inv_head in H. exists r'. exact H.
  - split; [discriminate|]. intros [H | [r' H]]; exfalso.
    + apply (proj1 (strip_prefix_None p t) E []). rewrite app_nil_r. exact H.
    + apply (proj1 (strip_prefix_None p t) E (sep ++ r')). exact H.
Qed.

Lemma module_prefix_mp p t : module_prefix p t = true <-> mp p t.
Proof.
  unfold module_prefix, mp. rewrite orb_true_iff, name_eqb_eq, is_prefix_spec.
  split; intros [H | [r H]]; [left; exact H | right; exists r | left; exact H | right; exists r].
  - rewrite H, app_assoc. reflexivity.
  - rewrite H, app_assoc. reflexivity.
Qed.

(* the code's matcher and the specification's definition agree *)
Lemma matches_agree t p : target_matches_prefix t p = module_prefix p t.
Proof.
  destruct (target_matches_prefix t p) eqn:E1, (module_prefix p t) eqn:E2; try reflexivity.
  - apply target_matches_prefix_mp, module_prefix_mp in E1. congruence.
  - apply module_prefix_mp, target_matches_prefix_mp in E2. congruence.
Qed.

Lemma mp_firstn p t : mp p t -> p = firstn (length p) t.
Proof.
  intros [H | [r H]]; subst t.
  - symmetry. apply firstn_all.
  - rewrite firstn_app, Nat.sub_diag, firstn_all. cbn [firstn]. symmetry. apply app_nil_r.
Qed.

(* longest-prefix choice is unique: two matching logger names of the same length are equal *)
Lemma mp_same_len p q t : mp p t -> mp q t -> length p = length q -> p = q.
Proof.
  intros Hp Hq Hl. rewrite (mp_firstn p t Hp), (mp_firstn q t Hq), Hl. reflexivity.
Qed.

Lemma matches_unique t p q :
  target_matches_prefix t p = true -> target_matches_prefix t q = true ->
  length p = length q -> p = q.
Proof.
  intros Hp Hq. apply mp_same_len with t; apply target_matches_prefix_mp; assumption.
Qed.

(* the boundary: a strict extension matches only across "::" *)
Lemma matches_boundary p x r :
  target_matches_prefix (p ++ x :: r) p = true -> exists r', x :: r = 58 :: 58 :: r'.
Proof.
  intros H. apply target_matches_prefix_mp in H. destruct H as [H | [r' H]].
  - exfalso. apply (f_equal (@length N)) in H. rewrite app_length in H. cbn in H. lia.
  - apply app_inv_head in H. exists r'. exact H.
Qed.

(* ------------------------------------------------------------------ max_by_key / longest *)
Section MaxFacts.
  Variable A : Type.
  Variable key : A -> nat.

  Definition is_max (l : list A) (x : A) : Prop := In x l /\ forall y, In y l -> (key y <= key x)%nat.
  Definition uniq_key (l : list A) : Prop :=
    forall x y, In x l -> In y l -> key x = key y -> x = y.

  Lemma max_by_key_from_max b l : is_max (b :: l) (max_by_key_from key b l).
  Proof.
    revert b. induction l as [|x t IH]; intros b; cbn [max_by_key_from].
    - split; [left; reflexivity|]. intros y [<-|[]]. lia.
    - destruct (Nat.leb_spec (key b) (key x)) as [Hle|Hgt].
      + destruct (IH x) as [Hin Hmax]. split.
        * destruct Hin as [<-|Hin]; [right; left; reflexivity | right; right; exact Hin].
        * intros y [<-|[<-|Hy]].
          -- specialize (Hmax x (or_introl eq_refl)). lia.
          -- apply Hmax. left. reflexivity.
          -- apply Hmax. right. exact Hy.
      + destruct (IH b) as [Hin Hmax]. split.
        * destruct Hin as [<-|Hin]; [left; reflexivity | right; right; exact Hin].
        * intros y [<-|[<-|Hy]].
          -- apply Hmax. left. reflexivity.
          -- specialize (Hmax b (or_introl eq_refl)). lia.
          -- apply Hmax. right. exact Hy.
  Qed.

  Lemma longest_from_max b l : is_max (b :: l) (longest_from key b l).
  Proof.
    revert b. induction l as [|x t IH]; intros b; cbn [longest_from].
    - split; [left; reflexivity|]. intros y [<-|[]]. lia.
    - destruct (Nat.ltb_spec (key b) (key x)) as [Hlt|Hge].
      + destruct (IH x) as [Hin Hmax]. split.
        * destruct Hin as [<-|Hin]; [right; left; reflexivity | right; right; exact Hin].
        * intros y [<-|[<-|Hy]].
          -- specialize (Hmax x (or_introl eq_refl)). lia.
          -- apply Hmax. left. reflexivity.
          -- apply Hmax. right. exact Hy.
      + destruct (IH b) as [Hin Hmax]. split.
        * destruct Hin as [<-|Hin]; [left; reflexivity | right; right; exact Hin].
        * intros y [<-|[<-|Hy]].
          -- apply Hmax. left. reflexivity.
          -- specialize (Hmax b (or_introl eq_refl)). lia.
          -- apply Hmax. right. exact Hy.
  Qed.

  Lemma max_by_key_Some l x : max_by_key key l = Some x -> is_max l x.
  Proof.
    destruct l as [|b t]; cbn [max_by_key]; intros H; [discriminate|].
    inversion H; subst. apply max_by_key_from_max.
  Qed.

  Lemma longest_Some l x : longest key l = Some x -> is_max l x.
  Proof.
    destruct l as [|b t]; cbn [longest]; intros H; [discriminate|].
    inversion H; subst. apply longest_from_max.
  Qed.

  Lemma max_by_key_None l : max_by_key key l = None <-> l = [].
  Proof. destruct l; cbn [max_by_key]; split; intros H; try reflexivity; discriminate. Qed.

  Lemma longest_None l : longest key l = None <-> l = [].
  Proof. destruct l; cbn [longest]; split; intros H; try reflexivity; discriminate. Qed.

  Lemma is_max_unique l x y : uniq_key l -> is_max l x -> is_max l y -> x = y.
  Proof.
    intros U [Hx Mx] [Hy My]. apply U; try assumption.
    specialize (Mx y Hy). specialize (My x Hx). lia.
  Qed.

  Lemma is_max_longest l x : uniq_key l -> is_max l x -> longest key l = Some x.
  Proof.
    intros U Hm. destruct (longest key l) as [y|] eqn:E.
    - apply longest_Some in E. f_equal. apply (is_max_unique l); assumption.
    - apply longest_None in E. subst. destruct Hm as [[] _].
  Qed.

  Lemma is_max_max_by_key l x : uniq_key l -> is_max l x -> max_by_key key l = Some x.
  Proof.
    intros U Hm. destruct (max_by_key key l) as [y|] eqn:E.
    - apply max_by_key_Some in E. f_equal. apply (is_max_unique l); assumption.
    - apply max_by_key_None in E. subst. destruct Hm as [[] _].
  Qed.

  (* the two tie-breaking rules coincide on lists with the same members and unique keys *)
  Lemma max_by_key_longest l1 l2 :
    (forall x, In x l1 <-> In x l2) -> uniq_key l1 -> max_by_key key l1 = longest key l2.
  Proof.
    intros Hm U. destruct (max_by_key key l1) as [x|] eqn:E.
    - apply max_by_key_Some in E. symmetry. apply is_max_longest.
      + intros a b Ha Hb. apply U; apply Hm; assumption.
      + destruct E as [Hin Hmax]. split; [apply Hm; exact Hin|].
        intros y Hy. apply Hmax. apply Hm. exact Hy.
    - apply max_by_key_None in E. subst. symmetry. apply longest_None.
      destruct l2 as [|b t]; [reflexivity|]. exfalso. apply (Hm b). left. reflexivity.
  Qed.
End MaxFacts.
Arguments is_max {A}.
Arguments uniq_key {A}.

Lemma max_by_key_from_map {A B} (f : A -> B) (kb : B -> nat) b l :
  max_by_key_from kb (f b) (map f l) = f (max_by_key_from (fun x => kb (f x)) b l).
Proof.
  revert b. induction l as [|x t IH]; intros b; cbn [map max_by_key_from]; [reflexivity|].
  destruct (Nat.leb (kb (f b)) (kb (f x))); apply IH.
Qed.

Lemma max_by_key_map {A B} (f : A -> B) (kb : B -> nat) l :
  max_by_key kb (map f l) = option_map f (max_by_key (fun x => kb (f x)) l).
Proof.
  destruct l as [|b t]; cbn [map max_by_key option_map]; [reflexivity|].
  f_equal. apply max_by_key_from_map.
Qed.

Lemma filter_map_comm {A B} (f : A -> B) (P : B -> bool) l :
  filter P (map f l) = map f (filter (fun x => P (f x)) l).
Proof.
  induction l as [|x t IH]; cbn [map filter]; [reflexivity|].
  destruct (P (f x)); cbn [map]; rewrite IH; reflexivity.
Qed.
