(* Proofs/MpscBProofs.v — main theorems about the bounded-MPSC K2 model (C01-C04, C09). *)
From Fibre Require Import Common.Base Chan.MpscB Chan.MpscBSpec Proofs.MpscBBase Proofs.MpscBInv.
From Coq Require Import ZifyBool ZifyNat ZifyN.
Ltac Zify.zify_post_hook ::= Z.div_mod_to_equations.

Lemma reach_inv s : reach s -> Inv s.
Proof. intros (a&c&f3&fc&ops&->). apply reach_Inv. Qed.

Lemma final_snoc ops : forall s o, final s (ops ++ [o]) = fst (step (final s ops) o).
Proof.
  unfold final. induction ops as [|x t IH]; intros s o.
  - cbn [app]. rewrite run_fst_cons. reflexivity.
  - cbn [app]. rewrite !run_fst_cons. apply IH.
Qed.

Lemma reach_step s o : reach s -> reach (fst (step s o)).
Proof.
  intros (a&c&f3&fc&ops&->). exists a, c, f3, fc, (ops ++ [o]). symmetry. apply final_snoc.
Qed.

(** C01/C09: conservation in multiset form *)
Theorem conservation s : reach s -> NoDup (used s) /\ Permutation (used s) (held s).
Proof.
  intros R. destruct (reach_inv s R) as (_&_&_&[C U]). split.
  - apply (NoDup_count_occ N.eq_dec). exact U.
  - apply (Permutation_count_occ N.eq_dec). exact C.
Qed.

Theorem received_once s : reach s -> NoDup (rcv s) /\ incl (rcv s) (acc s).
Proof.
  intros R. destruct (reach_inv s R) as (_&_&[F _]&[C U]). split.
  - apply (NoDup_count_occ N.eq_dec). intros x. specialize (C x). specialize (U x).
    unfold held, cnt in *. rewrite count_occ_app in C. lia.
  - rewrite F. intros x Hx. apply in_or_app. left. exact Hx.
Qed.

Theorem failed_no_effect s o :
  failed (snd (exec s o)) = true ->
  q (fst (exec s o)) = q s /\ rcv (fst (exec s o)) = rcv s /\ acc (fst (exec s o)) = acc s.
Proof.
  destruct o; symex; cbn [failed]; intros Hf; try discriminate; auto.
  all: repeat match goal with H : _ /\ _ |- _ => destruct H end.
  all: repeat match goal with H : is_nil _ = true |- _ => apply is_nil_true in H; subst end.
  all: cbn [app] in *.
  all: try match goal with
       | Hf : (N.of_nat ?k =? 0) = true |- _ =>
           let E := fresh in assert (E : k = 0%nat) by (apply N.eqb_eq in Hf; lia);
           rewrite E; cbn [firstn]; rewrite ?app_nil_r
       end.
  all: rewrite ?app_nil_r in *; repeat split; congruence.
Qed.


(** try_send: exact in every state - Ok iff neither full nor closed *)
Theorem try_send_exact s h v r :
  aget h (hs s) = Some r -> htx r = true -> fresh [v] s = true ->
  snd (exec s (TrySend h v)) =
    if hclosed r || rdrop s then RClosedV v else if len (q s) <? cap s then ROk else RFull v.
Proof.
  intros A B C. cbn [exec]. unfold do_try_send. rewrite A, B, C. cbn [andb].
  unfold tx_dead, window_open, window_open_cold, use. cb.
  destruct (hclosed r || rdrop s); [reflexivity|].
  destruct (N.ltb_spec (len (q s)) (cap s)) as [L|L].
  - rewrite orb_true_r. reflexivity.
  - destruct (N.ltb_spec (len (q s) + unpub s) (cap s)); [lia | reflexivity].
Qed.

Theorem len_exact s h r : G1 s -> aget h (hs s) = Some r -> exec s (Len h) = (s, RNum (len (q s))).
Proof. intros [_ L] A. cbn [exec]. unfold obs, chan_len. rewrite A. f_equal. f_equal. lia. Qed.

(** what one call can do to the append-only ghost lists and the constant fields *)
Lemma exec_frame s o :
  let s' := fst (exec s o) in let r := snd (exec s o) in
  rcv s' = rcv s ++ recv_ids r
  /\ (exists d, drp s' = drp s ++ d /\ evd s' = evd s ++ d)
  /\ (exists b, back s' = back s ++ b)
  /\ (exists d, acc s' = acc s ++ d)
  /\ (exists u, used s' = u ++ used s)
  /\ (rdrop s = true -> rdrop s' = true)
  /\ cap s' = cap s /\ fix03 s' = fix03 s /\ fixcl s' = fixcl s.
Proof.
  destruct o; symex; cbn [recv_ids].
  all: repeat match goal with H : _ /\ _ |- _ => destruct H end.
  all: repeat match goal with H : is_nil _ = true |- _ => apply is_nil_true in H; subst end.
  all: rewrite ?app_nil_r in *.
  all: repeat match goal with
       | |- _ /\ _ => split
       | |- exists _, _ ++ ?d = _ ++ _ /\ _ => exists d; split; reflexivity
       | |- exists _, ?x = ?x ++ _ /\ _ => exists []; rewrite ?app_nil_r; split; reflexivity
       | |- exists _, _ ++ ?d = _ ++ _ => exists d; reflexivity
       | |- exists _, ?x = ?x ++ _ => exists []; rewrite ?app_nil_r; reflexivity
       | |- exists _, ?u ++ ?x = _ ++ ?x => exists u; reflexivity
       | |- exists _, ?x = _ ++ ?x => exists []; reflexivity
       end; try congruence; try reflexivity; auto.
Qed.

Lemma open_tx_zero l h r : open_tx l = 0 -> aget h l = Some r -> isopen r = false.
Proof.
  unfold open_tx. induction l as [|[k v] t IH]; cbn [aget filter snd]; intros Z G; [discriminate|].
  destruct (N.eqb_spec h k) as [->|Hn].
  - inversion G; subst. destruct (isopen r); [rewrite len_cons in Z; lia | reflexivity].
  - apply IH; [|exact G]. destruct (isopen v); [rewrite len_cons in Z; lia | exact Z].
Qed.

Lemma deqn_nil' m s s0 : deqn (N.to_nat m) s = (s0, []) -> (m =? 0) = false -> q s = [] /\ s0 = s.
Proof.
  intros E H. apply N.eqb_neq in H.
  destruct (deqn_nil (N.to_nat m) s) as [A B]; [rewrite E; reflexivity | lia |].
  rewrite E in B. cbn [fst] in B. auto.
Qed.

Ltac deqnil :=
  try match goal with
  | E : deqn (N.to_nat ?m) ?s = (_, []), H : (?m =? 0) = false |- _ =>
      let A := fresh "DQ" in let B := fresh "DS" in
      destruct (deqn_nil' _ _ _ E H) as [A B]; subst
  end.

(** C04: Disconnected (on a handle that was not itself closed) only with nothing buffered and no open sender *)
Theorem disc_means_drained s o :
  fut_ok s ->
  snd (exec s o) = RDisc \/ snd (exec s o) = RReady RDisc ->
  (q s = [] /\ scount s = 0)
  \/ (exists h r, aget h (hs s) = Some r /\ htx r = false /\ hclosed r = true).
Proof.
  intros FO. destruct o; symex; intros [Hd|Hd]; try discriminate.
  all: repeat match goal with H : _ /\ _ |- _ => destruct H end.
  all: repeat match goal with H : is_nil _ = true |- _ => apply is_nil_true in H; subst end.
  all: cbn [app] in *; deqnil.
  all: try (left; split; [congruence | apply N.eqb_eq; congruence]).
  all: bools.
  all: try (right; eexists; eexists; split; [eassumption|]; split; congruence).
  all: match goal with H : aget _ (fs _) = Some _ |- _ => destruct (FO _ _ H) as (r0&A&B&C) end.
  all: somes; repeat match goal with H : fk _ = _ |- _ => rewrite H in * end; cbn [is_recv_kind negb] in *.
  all: right; eexists; eexists; split; [eassumption|]; split; congruence.
Qed.

(** Disconnected is stable; no receive form yields a value afterwards - except through a clone
    taken from a closed sender (F-M1), which the repaired Clone (fixcl) excludes *)
Theorem disc_stable s o :
  GS s -> disc_state s -> (fixcl s = true \/ ~ clones_closed s o) ->
  disc_state (fst (exec s o)) /\ has_value (snd (exec s o)) = false.
Proof.
  intros (N1&N2&FO&RO&SC&RL) [Z Q0] FX. unfold disc_state, has_value.
  destruct o; symex; cbn [recv_ids is_nil negb]; auto.
  all: repeat match goal with H : _ /\ _ |- _ => destruct H end.
  all: try congruence.
  all: repeat match goal with H : is_nil _ = true |- _ => apply is_nil_true in H; subst end.
  all: cbn [app] in *; rewrite ?app_nil_r in *; deqnil.
  all: try (split; [split; congruence | reflexivity]).
  all: rewrite ?Q0 in *.
  all: repeat match goal with
       | H : aget _ (fs _) = Some ?fr |- _ =>
           lazymatch goal with
           | K : htx _ = negb (is_recv_kind (fk fr)) |- _ => fail
           | _ => let r0 := fresh "r" in destruct (FO _ _ H) as (r0 & ? & ? & ?)
           end
       end; somes; repeat match goal with H : fk _ = _ |- _ => rewrite H in * end; cbn [is_recv_kind negb] in *.
  all: try match goal with H : [] = ?a ++ ?b |- _ => symmetry in H end.
  all: try match goal with H : ?a ++ ?b = [] |- _ => apply app_eq_nil in H; destruct H; subst end.
  all: try (split; [split; congruence | reflexivity]).
  all: bools; unfold tx_dead in *; cbh.
  all: try match goal with
       | H : aget ?h (hs _) = Some ?r, T : htx ?r = true |- _ =>
           let K := fresh "K" in
           pose proof (open_tx_zero _ _ _ (eq_trans (eq_sym SC) Z) H) as K; unfold isopen in K;
           rewrite T in K; cbn [andb] in K; apply negb_false_iff in K
       end.
  all: try (exfalso; congruence).
  all: try match goal with H : _ || _ = false |- _ => apply orb_false_iff in H; destruct H end.
  all: try (exfalso; congruence).
  all: try (exfalso; destruct FX as [FX|FX]; [congruence | apply FX; do 3 eexists; split; [reflexivity|]; split; eassumption]).
  exfalso. rewrite K, andb_true_r in Heqb0. destruct FX as [FX|FX]; [congruence|].
  apply FX. exists h, h2, h0. auto.
Qed.



(** rdrop (receiver closed or dropped) is permanent, and then every send form reports Closed
    and hands the values back *)
Theorem send_after_rx_gone s o r h :
  rdrop s = true ->
  aget h (hs s) = Some r -> htx r = true ->
  match o with
  | TrySend h' v => h' = h /\ fresh [v] s = true
  | Send h' v => h' = h /\ hasync r = false /\ fresh [v] s = true
  | TrySendB h' vs _ => h' = h /\ fresh vs s = true /\ vs <> []
  | SendB h' vs _ => h' = h /\ hasync r = false /\ fresh vs s = true /\ vs <> []
  | _ => False
  end ->
  closed_with_value o (snd (exec s o)).
Proof.
  intros RD A B. destruct o; try contradiction; cbn [exec closed_with_value].
  - intros [-> F]. unfold do_try_send, tx_dead, use. rewrite A, B, F. cb. rewrite RD, orb_true_r. reflexivity.
  - intros (-> & AS & F). unfold do_send, tx_dead. rewrite A, B, AS, F. cb. rewrite RD, orb_true_r. reflexivity.
  - intros (-> & F & NE). unfold do_try_send_b, tx_dead, use. rewrite A, B, F. cb.
    destruct vs; [congruence|]. cbn [is_nil]. cb. rewrite RD, orb_true_r. destruct inplace; reflexivity.
  - intros (-> & AS & F & NE). unfold do_send_b, tx_dead. rewrite A, B, AS, F. cb.
    destruct vs; [congruence|]. cbn [is_nil]. rewrite RD, orb_true_r. destruct inplace; reflexivity.
Qed.

Theorem poll_after_rx_gone s f w fr r item :
  rdrop s = true -> aget f (fs s) = Some fr -> aget (fh fr) (hs s) = Some r -> fk fr = FSend item ->
  snd (exec s (Poll f w)) = RReady RClosed.
Proof.
  intros RD A B K. cbn [exec]. unfold do_poll, tx_dead. rewrite A, B, K, RD, orb_true_r. reflexivity.
Qed.

(** ops on a handle whose close() returned Ok fail (F-03: recv_timeout is the exception unless repaired) *)
Theorem closed_handle_rejects s h r o :
  aget h (hs s) = Some r -> hclosed r = true ->
  match o with
  | TrySend h' v => h' = h /\ htx r = true /\ fresh [v] s = true
  | Send h' v => h' = h /\ htx r = true /\ hasync r = false /\ fresh [v] s = true
  | TrySendB h' vs _ => h' = h /\ htx r = true /\ fresh vs s = true /\ vs <> []
  | SendB h' vs _ => h' = h /\ htx r = true /\ hasync r = false /\ fresh vs s = true /\ vs <> []
  | TryRecv h' => h' = h /\ htx r = false
  | Recv h' => h' = h /\ htx r = false /\ hasync r = false
  | RecvT0 h' => h' = h /\ htx r = false /\ hasync r = false /\ fix03 s = true
  | TryRecvB h' m => h' = h /\ htx r = false /\ m <> 0
  | RecvB h' m => h' = h /\ htx r = false /\ hasync r = false /\ m <> 0
  | PollNext h' _ => h' = h /\ htx r = false /\ hasync r = true /\ has_futs h s = false
  | Close h' => h' = h
  | _ => False
  end ->
  failed (snd (exec s o)) = true /\ q (fst (exec s o)) = q s.
Proof.
  intros A C. destruct o; try contradiction; cbn [exec].
  all: intros K; repeat match goal with H : _ /\ _ |- _ => destruct H end; subst.
  all: unfold do_try_send, do_send, do_try_send_b, do_send_b, do_try_recv, do_recv, do_recv_t0,
         do_try_recv_b, do_recv_b, do_poll_next, do_close, tx_dead, use, giveback, dropv, put_h.
  all: rewrite A; repeat match goal with H : _ = _ |- _ => rewrite H end; cb.
  all: rewrite ?C, ?orb_true_l; cbn [andb orb negb].
  all: try (destruct vs; [congruence|]; cbn [is_nil]; cb; rewrite ?C, ?orb_true_l).
  all: try (destruct (N.eqb_spec max 0); [congruence|]).
  all: try destruct inplace; cb; cbn [failed]; auto.
Qed.

Theorem double_close s h r : aget h (hs s) = Some r -> hclosed r = true -> exec s (Close h) = (s, RCloseErr).
Proof. intros A C. cbn [exec]. unfold do_close. rewrite A, C. reflexivity. Qed.

Theorem first_close s h r : aget h (hs s) = Some r -> hclosed r = false ->
  snd (exec s (Close h)) = ROk /\
  exists r', aget h (hs (fst (exec s (Close h)))) = Some r' /\ hclosed r' = true.
Proof.
  intros A C. cbn [exec]. unfold do_close. rewrite A, C. cb. split; [reflexivity|].
  exists (with_closed r). split; [|reflexivity].
  unfold close_h, put_h, wake_all_senders, notify_receiver. cb.
  destruct (htx r).
  - destruct (scount s =? 1); [destruct (rw s) as [[? ?]|]|]; cb; apply aget_aset_eq.
  - rewrite wake_list_eq. cb. apply aget_aset_eq.
Qed.

(** C04: closing (or dropping) one of several sender clones changes nothing another handle can
    observe: the channel state is untouched, nobody is woken, the count stays positive *)
Theorem clone_isolation s h r h' r' :
  GS s -> aget h (hs s) = Some r -> htx r = true -> hclosed r = false ->
  aget h' (hs s) = Some r' -> h' <> h -> isopen r' = true ->
  let s' := fst (exec s (Close h)) in
  0 < scount s' /\ q s' = q s /\ rdrop s' = rdrop s /\ unpub s' = unpub s /\ sq s' = sq s
  /\ rw s' = rw s /\ evw s' = evw s /\ fs s' = fs s
  /\ (forall k, k <> h -> aget k (hs s') = aget k (hs s)).
Proof.
  intros (N1&N2&FO&RO&SC&RL) A T C A' NE O'. cbn [exec]. unfold do_close. rewrite A, C. cb.
  unfold close_h, put_h. rewrite T. cb.
  assert (2 <= scount s).
  { pose proof (open_tx_adel h (hs s) N1) as E1. rewrite A in E1.
    pose proof (open_tx_adel h' (adel h (hs s)) (NoDup_adel h _ N1)) as E2.
    rewrite (aget_adel_neq h h' (hs s) NE), A', O' in E2.
    assert (O : isopen r = true) by (unfold isopen; rewrite T, C; reflexivity).
    rewrite O in E1. lia. }
  destruct (N.eqb_spec (scount s) 1); [lia|]. cb.
  repeat split; try reflexivity; try lia.
  intros k Hk. apply aget_aset_neq. exact Hk.
Qed.

(** C03: blocking send / first poll of an async send are admitted by the hot window only *)
Theorem send_admission s h v r :
  aget h (hs s) = Some r -> htx r = true -> hasync r = false -> fresh [v] s = true ->
  snd (exec s (Send h v)) =
    if hclosed r || rdrop s then RClosed else if len (q s) + unpub s <? cap s then ROk else RBlock.
Proof.
  intros A T AS F. cbn [exec]. unfold do_send, tx_dead, window_open. rewrite A, T, AS, F. cbn [andb negb].
  destruct (hclosed r || rdrop s); [reflexivity|]. destruct (len (q s) + unpub s <? cap s); reflexivity.
Qed.

Theorem poll_send_admission s f w fr r v :
  aget f (fs s) = Some fr -> aget (fh fr) (hs s) = Some r -> fk fr = FSend (Some v) ->
  snd (exec s (Poll f w)) =
    if hclosed r || rdrop s then RReady RClosed
    else if len (q s) + unpub s <? cap s then RReady ROk else RPending.
Proof.
  intros A B K. cbn [exec]. unfold do_poll, tx_dead, window_open. rewrite A, B, K.
  destruct (hclosed r || rdrop s); [reflexivity|]. destruct (len (q s) + unpub s <? cap s); reflexivity.
Qed.

(** the full C03 sentence for the waiting forms, F-30: refuted, and what holds instead *)
Definition send_waits_only_for_space : Prop :=
  forall s, reach s -> forall h v r,
    aget h (hs s) = Some r -> htx r = true -> hasync r = false -> hclosed r = false ->
    rdrop s = false -> fresh [v] s = true -> len (q s) < cap s ->
    snd (exec s (Send h v)) = ROk.

Definition F30_hist : list op := [TrySend 0 1; TrySend 0 2; TryRecv 1].

Theorem send_waits_refuted_F30 : ~ send_waits_only_for_space.
Proof.
  intros H.
  assert (R : reach (final (init false 2 false false) F30_hist))
    by (exists false, 2, false, false, F30_hist; reflexivity).
  specialize (H _ R 0 3 (mkH true false false false None)).
  vm_compute in H. specialize (H eq_refl eq_refl eq_refl eq_refl eq_refl eq_refl eq_refl). discriminate H.
Qed.

Theorem send_waits_except_F30 s h v r :
  aget h (hs s) = Some r -> htx r = true -> hasync r = false -> hclosed r = false ->
  rdrop s = false -> fresh [v] s = true -> len (q s) < cap s -> unpub s = 0 ->
  snd (exec s (Send h v)) = ROk.
Proof.
  intros A T AS C RD F L U. rewrite (send_admission s h v r A T AS F), C, RD, U. cbn [orb].
  destruct (N.ltb_spec (len (q s) + 0) (cap s)); [reflexivity | lia].
Qed.

(** C04 refutations on the faithful model *)
Definition disc_is_final : Prop :=
  forall s o, reach s -> disc_state s -> disc_state (fst (exec s o)) /\ has_value (snd (exec s o)) = false.

Theorem disc_is_final_refuted_FM1 : ~ disc_is_final.
Proof.
  intros H.
  assert (R : reach (final (init false 2 false false) [Close 0]))
    by (exists false, 2, false, false, [Close 0]; reflexivity).
  specialize (H _ (Clone 0 2) R). vm_compute in H.
  destruct H as [[H _] _]; [split; reflexivity | discriminate H].
Qed.

Definition closed_recv_timeout_rejects : Prop :=
  forall s, reach s -> forall h r, aget h (hs s) = Some r -> htx r = false -> hasync r = false ->
    hclosed r = true -> failed (snd (exec s (RecvT0 h))) = true.

Theorem closed_recv_timeout_refuted_F03 : ~ closed_recv_timeout_rejects.
Proof.
  intros H.
  assert (R : reach (final (init false 2 false false) [TrySend 0 1; Close 1]))
    by (exists false, 2, false, false, [TrySend 0 1; Close 1]; reflexivity).
  specialize (H _ R 1 (mkH false false true false None)). vm_compute in H.
  specialize (H eq_refl eq_refl eq_refl eq_refl). discriminate H.
Qed.

(** induction over reachable states *)
Lemma reach_ind' (P : st -> Prop) :
  (forall a c f3 fc, P (init a c f3 fc)) ->
  (forall s o, reach s -> P s -> P (fst (step s o))) ->
  forall s, reach s -> P s.
Proof.
  intros HI HS s (a&c&f3&fc&ops&->). induction ops as [|o t IH] using rev_ind.
  - apply HI.
  - rewrite final_snoc. apply HS; [|exact IH]. exists a, c, f3, fc, t. reflexivity.
Qed.

(** once the last handle is gone nothing is buffered *)
Definition G4 (s : st) : Prop := hs s = [] -> q s = [].

Lemma exec_G4 s o : GS s -> G4 s -> G4 (fst (exec s o)).
Proof.
  intros (N1&N2&FO&RO&SC&RL) G. unfold G4 in *. destruct o; symex; try assumption.
  all: intros X; try discriminate X.
  all: try (apply is_nil_true; assumption).
  all: try match goal with H : is_nil ?l = false |- _ => rewrite X in H; discriminate H end.
  all: repeat match goal with
       | H : aget _ (fs _) = Some _ |- _ => apply FO in H; destruct H as (?&H&_)
       end.
  all: try match goal with H : aget _ (hs _) = Some _ |- _ => rewrite X in H; discriminate H end.
  all: reflexivity.
Qed.

Lemma reach_GS s : reach s -> GS s.
Proof. intros R. apply (reach_inv s R). Qed.

Lemma reach_G4 s : reach s -> G4 s.
Proof.
  apply reach_ind'.
  - intros a c f3 fc. unfold G4, init. cb. discriminate.
  - intros s0 o R H. rewrite step_fst. apply exec_G4; [apply (reach_GS s0 R) | exact H].
Qed.

(** C09: after all handles (hence all futures) are gone every id has been returned to a caller
    (received / handed back) or dropped, exactly once *)
Theorem teardown s : reach s -> hs s = [] ->
  q s = [] /\ fs s = [] /\ NoDup (used s) /\ Permutation (used s) (rcv s ++ back s ++ drp s).
Proof.
  intros R HE. destruct (conservation s R) as [ND P].
  destruct (reach_GS s R) as (N1&N2&FO&RO&SC&RL).
  assert (FE : fs s = []).
  { destruct (fs s) as [|[f fr] t] eqn:E; [reflexivity|]. exfalso.
    destruct (FO f fr) as (r&A&_); [rewrite E; cbn [aget]; rewrite N.eqb_refl; reflexivity|].
    rewrite HE in A. discriminate A. }
  pose proof (reach_G4 s R HE) as QE.
  split; [exact QE|]. split; [exact FE|]. split; [exact ND|].
  unfold held in P. rewrite QE, FE in P. exact P.
Qed.

(** C02: what the receive forms returned, in order, is exactly the ghost list rcv *)
Theorem recv_trace ops : forall s,
  rcv (final s ops) = rcv s ++ flat_map (fun x => recv_ids (out_res x)) (snd (run s ops)).
Proof.
  unfold final. induction ops as [|o t IH]; intros s; cbn [run].
  - cbn. rewrite app_nil_r. reflexivity.
  - pose proof (exec_frame (clear_ev s) o) as (F&_).
    unfold step. fold (clear_ev s). destruct (exec (clear_ev s) o) as [s1 r] eqn:E. cbn [fst snd] in F.
    specialize (IH s1). destruct (run s1 t) as [s2 xs]. cbn [fst snd flat_map out_res] in *.
    rewrite IH, F. rewrite <- app_assoc. reflexivity.
Qed.

(** drop events of a call are exactly the ids it moved to Dropped *)
Theorem drop_events s o : exists d,
  drp (fst (step s o)) = drp s ++ d /\ out_drops (snd (step s o)) = d.
Proof.
  pose proof (exec_frame (clear_ev s) o) as (_&(d&D1&D2)&_).
  unfold step. fold (clear_ev s). destruct (exec (clear_ev s) o) as [s1 r]. cbn [fst snd out_drops] in *.
  exists d. split; [exact D1|]. rewrite D2. reflexivity.
Qed.


(* ------------------------------------------------------------------ *)
(** * statements for all histories *)

Theorem capacity_all s : reach s -> 1 <= cap s /\ len (q s) <= cap s.
Proof. intros R. apply (reach_inv s R). Qed.

Theorem fifo_all s : reach s -> acc s = rcv s ++ q s ++ qdrp s.
Proof. intros R. destruct (reach_inv s R) as (_&_&[F _]&_). exact F. Qed.

Theorem drained_all_received s : reach s -> hs s <> [] -> q s = [] -> rcv s = acc s.
Proof.
  intros R HN Q. destruct (reach_inv s R) as (_&_&[F D]&_).
  destruct (qdrp s) eqn:E; [|exfalso; apply HN, D; discriminate].
  rewrite F, Q. cbn [app]. rewrite app_nil_r. reflexivity.
Qed.

Lemma run_const ops : forall s,
  cap (final s ops) = cap s /\ fix03 (final s ops) = fix03 s /\ fixcl (final s ops) = fixcl s.
Proof.
  unfold final. induction ops as [|o t IH]; intros s; [auto|].
  rewrite run_fst_cons, step_fst. destruct (IH (fst (exec (clear_ev s) o))) as (A&B&C).
  pose proof (exec_frame (clear_ev s) o) as (_&_&_&_&_&_&X&Y&Z). cbn zeta in *.
  rewrite A, B, C, X, Y, Z. auto.
Qed.

Theorem no_open_sender s h r :
  GS s -> scount s = 0 -> aget h (hs s) = Some r -> htx r = true -> hclosed r = true.
Proof.
  intros (N1&N2&FO&RO&SC&RL) Z A T.
  pose proof (open_tx_zero _ _ _ (eq_trans (eq_sym SC) Z) A) as K. unfold isopen in K.
  rewrite T in K. cbn [andb] in K. apply negb_false_iff in K. exact K.
Qed.

Theorem receiver_gone s : GS s ->
  (forall r, aget 1 (hs s) = Some r -> htx r = true \/ hclosed r = true) -> rdrop s = true.
Proof.
  intros (N1&N2&FO&RO&SC&RL) H. destruct (rdrop s) eqn:E; [reflexivity|]. exfalso.
  apply RL in E. destruct E as (r&A&B&C). destruct (H r A); congruence.
Qed.

(** with the repaired Clone (fixcl) Disconnected is final in every history *)
Theorem disc_is_final_fixed a c f3 ops o :
  let s := final (init a c f3 true) ops in
  disc_state s -> disc_state (fst (exec s o)) /\ has_value (snd (exec s o)) = false.
Proof.
  intros s D. apply disc_stable; [|exact D|].
  - apply reach_GS. exists a, c, f3, true, ops. reflexivity.
  - left. unfold s. destruct (run_const ops (init a c f3 true)) as (_&_&->). reflexivity.
Qed.

(** with the repaired recv_timeout (fix03) every receive form on a closed handle fails *)
Theorem closed_recv_timeout_fixed a c fc ops h r :
  let s := final (init a c true fc) ops in
  aget h (hs s) = Some r -> htx r = false -> hasync r = false -> hclosed r = true ->
  failed (snd (exec s (RecvT0 h))) = true /\ q (fst (exec s (RecvT0 h))) = q s.
Proof.
  intros s A T AS C. apply (closed_handle_rejects s h r (RecvT0 h) A C).
  repeat split; try assumption.
  unfold s. destruct (run_const ops (init a c true fc)) as (_&->&_). reflexivity.
Qed.

(** C01: try_send_batch reports sent + unsent = input, in order *)
Theorem try_send_batch_split s h vs ip :
  match snd (exec s (TrySendB h vs ip)) with
  | RBatchErr k _ rest | RMutOk k rest =>
      exists j, k = N.of_nat j /\ firstn j vs ++ rest = vs /\ q (fst (exec s (TrySendB h vs ip))) = q s ++ firstn j vs
  | RBatchOk k => k = len vs /\ q (fst (exec s (TrySendB h vs ip))) = q s ++ vs
  | RMutClosed l => l = vs /\ q (fst (exec s (TrySendB h vs ip))) = q s
  | _ => True
  end.
Proof.
  symex; auto.
  all: try (apply is_nil_true in Heqb0; subst; cbn [app]; rewrite ?app_nil_r; auto).
  all: try solve [exists 0%nat; cbn [firstn app]; rewrite ?app_nil_r; auto].
  all: try match goal with
       | H : is_nil (skipn ?k ?l) = true |- _ =>
           apply is_nil_true in H;
           let E := fresh in pose proof (firstn_skipn k l) as E; rewrite H, app_nil_r in E; rewrite ?E
       end.
  all: try match goal with
       | H : is_nil (firstn ?k ?l) = true |- _ => apply is_nil_true in H; rewrite ?H, ?app_nil_r
       end.
  all: try (split; [reflexivity|]; congruence).
  all: try (eexists; split; [reflexivity|]; split; [apply firstn_skipn|]; try reflexivity;
            try match goal with H : firstn _ _ = [] |- _ => rewrite H, ?app_nil_r end; reflexivity).
  all: try match goal with
       | H1 : firstn ?k ?l = [], H2 : firstn ?k ?l = ?l |- _ => rewrite H1 in H2; subst; discriminate
       end.
  all: try (exists (length vs); unfold len; rewrite firstn_all, app_nil_r; auto).
Qed.
