(* Proofs/MpscBProofs.v — main theorems about the bounded-MPSC K2 model (C01-C04, C09). *)
From Fibre Require Import Common.Base Chan.MpscB Proofs.MpscBBase Proofs.MpscBInv.
From Coq Require Import ZifyBool ZifyNat ZifyN.
Ltac Zify.zify_post_hook ::= Z.div_mod_to_equations.
