(* Proofs/OneshotOpsTheorems.v — property theorems of the K2 oneshot model, derived from `OInv`
   (Proofs/OneshotOpsProofs.v); all histories, every cfg unless stated. *)
From Coq Require Import List Arith ZArith Bool Lia Permutation.
From Fibre Require Import Chan.OneshotOps Proofs.OneshotOpsProofs.
Import ListNotations.
Open Scope nat_scope.

Definition oreach (cf : ocfg) (ops : list oop) : ost := fst (orun cf oinit ops).
Definition ores_of (x : ost * oout) : ores := fst (snd x).

Lemma oinv_init cf : OInv cf oinit.
Proof.
  constructor; cbn; intros; try discriminate; try congruence; auto.
  all: try (unfold wf_h; cbn; split; [constructor; [intros []|constructor] | intros h [E|[]]; subst; lia]).
  all: try (match goal with |- context [?x <? 0] => destruct (Nat.ltb_spec x 0); [lia|reflexivity] end).
Qed.

Lemma oinv_set_ev cf e s : OInv cf s -> OInv cf (set_oev e s).
Proof. intros []. constructor; cbn; assumption. Qed.

Lemma oinv_step cf s o : OInv cf s -> OInv cf (fst (ostep cf s o)).
Proof.
  intros H. unfold ostep.
  destruct (oexec cf (set_oev [] s) o) as [s1 r] eqn:E. cbn.
  replace s1 with (fst (oexec cf (set_oev [] s) o)) by (rewrite E; reflexivity).
  apply oinv_exec, oinv_set_ev, H.
Qed.

Lemma oinv_run cf ops : forall s, OInv cf s -> OInv cf (fst (orun cf s ops)).
Proof.
  induction ops as [|o r IH]; intros s H; cbn [orun]; [exact H|].
  pose proof (oinv_step cf s o H) as H1.
  destruct (ostep cf s o) as [s1 x]. cbn in *. specialize (IH s1 H1).
  destruct (orun cf s1 r). exact IH.
Qed.

Lemma oreach_inv cf ops : OInv cf (oreach cf ops).
Proof. apply oinv_run, oinv_init. Qed.

(** * Theorems *)
Lemma ocnt_places x s :
  ocnt x (orecv s ++ sent_val (ostate s) ++ oret s ++ odrop s)
  = ocnt x (orecv s) + ocnt x (sent_val (ostate s)) + ocnt x (oret s) + ocnt x (odrop s).
Proof. rewrite !ocnt_app. lia. Qed.

Lemma oconservation_inv cf s : OInv cf s ->
  Permutation (orecv s ++ sent_val (ostate s) ++ oret s ++ odrop s) (seq 0 (onext s)).
Proof.
  intros H. apply (Permutation_count_occ Nat.eq_dec). intros x.
  change (ocnt x (orecv s ++ sent_val (ostate s) ++ oret s ++ odrop s) = ocnt x (seq 0 (onext s))).
  rewrite ocnt_places, (i_cons _ _ H), ocnt_seq. reflexivity.
Qed.

Lemma onodup_app_l {A} (a b : list A) : NoDup (a ++ b) -> NoDup a.
Proof.
  induction a as [|x a IH]; cbn; intros H; [constructor|].
  inversion H; subst. constructor; [|apply IH; assumption].
  intros Hin. apply H2. apply in_or_app. left. exact Hin.
Qed.

(* C01 / C09 *)
Theorem oneshot_conservation cf ops :
  let s := oreach cf ops in
  Permutation (orecv s ++ sent_val (ostate s) ++ oret s ++ odrop s) (seq 0 (onext s)).
Proof. apply oconservation_inv with (cf := cf), oreach_inv. Qed.

Theorem oneshot_received_once cf ops :
  let s := oreach cf ops in
  NoDup (orecv s) /\ (orecv s = [] \/ orecv s = oacc s) /\ length (oacc s) <= 1.
Proof.
  cbn. pose proof (oreach_inv cf ops) as H. set (s := oreach cf ops) in *.
  split; [|split; [apply (i_recv _ _ H) | apply (i_acc_len _ _ H)]].
  apply (onodup_app_l _ (sent_val (ostate s) ++ oret s ++ odrop s)).
  apply (Permutation_NoDup (l := seq 0 (onext s))); [symmetry; apply (oconservation_inv cf), H | apply seq_NoDup].
Qed.

Theorem oneshot_teardown cf ops :
  let s := oreach cf ops in
  snd_h s = [] -> rcv s = RcvGone ->
  sent_val (ostate s) = [] /\ futs s = [] /\
  Permutation (orecv s ++ oret s ++ odrop s) (seq 0 (onext s)) /\ NoDup (orecv s ++ oret s ++ odrop s).
Proof.
  cbn. pose proof (oreach_inv cf ops) as H. set (s := oreach cf ops) in *. intros Hs Hr.
  assert (Hv : sent_val (ostate s) = []).
  { pose proof (i_rdrop _ _ H) as E. rewrite Hr in E. cbn in E.
    destruct (i_rd_state _ _ H E) as [E2|E2]; rewrite E2; reflexivity. }
  assert (Hf : futs s = []).
  { destruct (futs s) eqn:E; [reflexivity|]. destruct (i_futs _ _ H) as [c Hc]; [rewrite E; discriminate | congruence]. }
  pose proof (oconservation_inv cf s H) as P. rewrite Hv in P. cbn [app] in P.
  repeat split; auto.
  apply (Permutation_NoDup (l := seq 0 (onext s))); [symmetry; exact P | apply seq_NoDup].
Qed.

(* C03: only the first send ever succeeds *)
Theorem oneshot_send_ok_iff cf s h :
  ores_of (ostep cf s (OSend h)) = OOk <->
  (find_h h (snd_h s) = Some false /\ rdrop s = false /\ ostate s = OEmpty).
Proof.
  unfold ostep, ores_of. cbn [oexec]. unfold do_osend. cbn.
  destruct (find_h h (snd_h s)) as [[|]|]; cbn; try (split; [discriminate | intros (A & _); discriminate]).
  destruct (rdrop s); cbn; try (split; [discriminate | intros (_ & A & _); discriminate]).
  destruct (ostate s); cbn; (split; [try discriminate; auto | intros (_ & _ & A); try discriminate; auto]).
Qed.

Lemma oexec_nonempty cf s o : ostate s <> OEmpty -> ostate (fst (oexec cf s o)) <> OEmpty.
Proof.
  intros H. destruct s; cbn in *. destruct o; cbn [oexec]; ounf; cbn in *.
  all: repeat (osplit1; cbn in * ); try assumption; try discriminate; try congruence.
Qed.

Lemma ostep_nonempty cf s o : ostate s <> OEmpty -> ostate (fst (ostep cf s o)) <> OEmpty.
Proof.
  intros H. unfold ostep. pose proof (oexec_nonempty cf (set_oev [] s) o H) as X.
  destruct (oexec cf (set_oev [] s) o). exact X.
Qed.

Lemma orun_nonempty cf ops : forall s, ostate s <> OEmpty -> ostate (fst (orun cf s ops)) <> OEmpty.
Proof.
  induction ops as [|o r IH]; intros s H; cbn [orun]; [exact H|].
  pose proof (ostep_nonempty cf s o H) as H1. destruct (ostep cf s o) as [s1 x]. cbn in *.
  specialize (IH s1 H1). destruct (orun cf s1 r). exact IH.
Qed.

Lemma osend_ok_nonempty cf s h :
  ores_of (ostep cf s (OSend h)) = OOk -> ostate (fst (ostep cf s (OSend h))) <> OEmpty.
Proof.
  unfold ostep, ores_of. cbn [oexec]. destruct s; ounf; cbn.
  repeat (osplit1; cbn); try discriminate; intros _; try discriminate; congruence.
Qed.

Lemma orun_app cf a : forall s b, fst (orun cf s (a ++ b)) = fst (orun cf (fst (orun cf s a)) b).
Proof.
  induction a as [|o r IH]; intros s b; cbn [orun app]; [reflexivity|].
  destruct (ostep cf s o) as [s1 x]. specialize (IH s1 b).
  destruct (orun cf s1 (r ++ b)). destruct (orun cf s1 r). cbn in *. exact IH.
Qed.

Theorem oneshot_only_first_send cf ops1 h1 ops2 h2 :
  ores_of (ostep cf (oreach cf ops1) (OSend h1)) = OOk ->
  ores_of (ostep cf (oreach cf (ops1 ++ OSend h1 :: ops2)) (OSend h2)) <> OOk.
Proof.
  intros H1 H2. apply oneshot_send_ok_iff in H2. destruct H2 as (_ & _ & E).
  unfold oreach in E. rewrite orun_app in E. cbn [orun] in E.
  pose proof (osend_ok_nonempty cf _ h1 H1) as N. unfold oreach in N.
  destruct (ostep cf (fst (orun cf oinit ops1)) (OSend h1)) as [s1 x]. cbn in *.
  pose proof (orun_nonempty cf ops2 s1 N) as N2. destruct (orun cf s1 ops2). cbn in *. congruence.
Qed.

(* C04 *)
Definition o_is_val (r : ores) : bool := match r with OVal _ => true | _ => false end.

(* a receiver that was told Disconnected never obtains a value afterwards *)
Theorem oneshot_no_value_after_disc cf ops o :
  let s := oreach cf ops in o_disc s = true -> o_is_val (ores_of (ostep cf s o)) = false.
Proof.
  cbn. pose proof (oreach_inv cf ops) as H. set (s := oreach cf ops) in *. intros Hd.
  pose proof (i_disc _ _ H Hd) as D. pose proof (i_rdrop _ _ H) as R. pose proof (i_rd_state _ _ H) as RS.
  unfold ostep, ores_of. destruct s; cbn in *.
  destruct o; cbn [oexec]; ounf; cbn; repeat (osplit1; cbn); try reflexivity; subst; cbn in *;
    repeat match goal with H : _ \/ _ |- _ => destruct H end; try discriminate; try congruence;
    try (specialize (RS eq_refl); destruct RS; discriminate).
Qed.

(* Disconnected is reported (to a receiver that did not close itself) only when nothing accepted is
   outstanding: every accepted value has been received *)
Theorem oneshot_value_before_disc cf s o :
  OInv cf s -> rcv s = RcvLive false -> ores_of (ostep cf s o) = ODisc -> oacc s = orecv s.
Proof.
  intros H Hr. pose proof (i_rdrop _ _ H) as R. rewrite Hr in R. cbn in R.
  pose proof (i_closed _ _ H) as C. pose proof (i_taken _ _ H) as T. pose proof (i_empty _ _ H) as E.
  pose proof (i_recv _ _ H) as RV.
  unfold ostep, ores_of. destruct s; cbn in *. subst.
  destruct o; cbn [oexec]; ounf; cbn; repeat (osplit1; cbn); try discriminate; intros _; subst;
    try (rewrite (T eq_refl eq_refl); reflexivity);
    try (rewrite (C eq_refl) in *; destruct RV as [X|X]; rewrite X; reflexivity);
    try (rewrite (E eq_refl) in *; destruct RV as [X|X]; rewrite X; reflexivity).
Qed.

(* after the receiver was closed or dropped every send fails with Closed(value) and changes nothing *)
Theorem oneshot_send_after_receiver_left cf s h c :
  rdrop s = true -> find_h h (snd_h s) = Some c ->
  ores_of (ostep cf s (OSend h)) = OClosedV (onext s) /\
  oacc (fst (ostep cf s (OSend h))) = oacc s.
Proof.
  intros Hr Hf. unfold ostep, ores_of. cbn [oexec]. destruct s; ounf; cbn in *. subst. rewrite Hf.
  destruct c; cbn; repeat (osplit1; cbn); auto.
Qed.

(* rdrop is exactly "the receiver was closed or dropped" *)
Theorem oneshot_rdrop_inv cf s : OInv cf s -> rdrop s = rcv_closed (rcv s).
Proof. apply i_rdrop. Qed.

(* closing or dropping one sender clone while another open clone exists changes nothing for the others:
   the channel state is untouched, and the other handle is still there and open *)
Lemma find_remove_other h h' l : h <> h' -> find_h h' (remove_h h l) = find_h h' l.
Proof.
  intros Hn. induction l as [|[x c] t IH]; cbn; [reflexivity|].
  destruct (x =? h) eqn:E1; cbn.
  - apply Nat.eqb_eq in E1. subst. destruct (h =? h') eqn:E2; [apply Nat.eqb_eq in E2; congruence | exact IH].
  - destruct (x =? h'); [reflexivity | exact IH].
Qed.
Lemma find_close_other h h' l : h <> h' -> find_h h' (set_closed_h h l) = find_h h' l.
Proof.
  intros Hn. induction l as [|[x c] t IH]; cbn; [reflexivity|].
  destruct (x =? h) eqn:E1; cbn.
  - apply Nat.eqb_eq in E1. subst. destruct (h =? h') eqn:E2; [apply Nat.eqb_eq in E2; congruence | exact IH].
  - destruct (x =? h'); [reflexivity | exact IH].
Qed.
Lemma opens_two h h' l : h <> h' -> find_h h l = Some false -> find_h h' l = Some false -> 2 <= opens l.
Proof.
  intros Hn. induction l as [|[x c] t IH]; cbn; [discriminate|].
  destruct (x =? h) eqn:E1, (x =? h') eqn:E2; intros A B.
  - apply Nat.eqb_eq in E1. apply Nat.eqb_eq in E2. congruence.
  - inversion A; subst. pose proof (opencnt_find_open h' t B) as X. unfold opencnt in X. lia.
  - inversion B; subst. pose proof (opencnt_find_open h t A) as X. unfold opencnt in X. lia.
  - specialize (IH A B). lia.
Qed.

Theorem oneshot_clone_isolation cf s h h' (o : oop) :
  OInv cf s -> h <> h' ->
  find_h h (snd_h s) = Some false -> find_h h' (snd_h s) = Some false ->
  o = OCloseS h \/ o = ODropS h ->
  ostate (fst (ostep cf s o)) = ostate s /\ rdrop (fst (ostep cf s o)) = rdrop s /\
  find_h h' (snd_h (fst (ostep cf s o))) = Some false.
Proof.
  intros H Hn Hh Hh' Ho.
  pose proof (opens_two h h' _ Hn Hh Hh') as H2. pose proof (i_cnt _ _ H) as Hc. unfold opencnt in Hc.
  assert (Hne : (ocount s =? 1)%Z = false) by (apply Z.eqb_neq; lia).
  unfold ostep. destruct Ho; subst o; cbn [oexec]; destruct s; ounf; cbn in *; rewrite Hh; cbn; rewrite Hne; cbn.
  - rewrite find_close_other by assumption. auto.
  - assert (X : find_h h' (remove_h h snd_h) = Some false) by (rewrite find_remove_other; assumption).
    destruct (remove_h h snd_h) eqn:E; [discriminate X|]. cbn -[find_h]. auto.
Qed.

(* a handle that was itself closed rejects further operations; close is idempotent *)
Theorem oneshot_closed_handle_rejects cf s :
  (forall h, find_h h (snd_h s) = Some true ->
     ores_of (ostep cf s (OSend h)) = OClosedV (onext s) /\
     oacc (fst (ostep cf s (OSend h))) = oacc s /\
     ores_of (ostep cf s (OCloseS h)) = OCloseErr) /\
  (rcv s = RcvLive true ->
     ores_of (ostep cf s OTryRecv) = ODisc /\ ores_of (ostep cf s OCloseR) = OCloseErr /\
     forall f w, mem_f f (futs s) = true -> ores_of (ostep cf s (OPoll f w)) = ODisc).
Proof.
  split.
  - intros h Hf. unfold ostep, ores_of. cbn [oexec]. destruct s; ounf; cbn in *. rewrite Hf. cbn.
    repeat split; repeat (osplit1; cbn); auto.
  - intros Hr. unfold ostep, ores_of. cbn [oexec]. destruct s; ounf; cbn in *. subst. cbn.
    repeat split. intros f w Hm. rewrite Hm. reflexivity.
Qed.

(* C06 *)
(* the most recent Pending poll is woken as soon as its own re-poll would resolve; on the code as it is
   this needs "the value has not been taken yet" (F-34-oneshot), on the repaired code it is unconditional.
   A receiver that closed itself is excluded. *)
Theorem oneshot_wake_inv cf s f w0 :
  OInv cf s -> o_pend s = Some (f, w0) -> rcv s = RcvLive false ->
  (fix_taken_wake cf = true \/ ostate s <> OTaken) ->
  (exists w, ores_of (ostep cf s (OPoll f w)) <> OPending) -> o_woken s = true.
Proof.
  intros H Hp Hr Hx [w Hq].
  destruct (o_woken s) eqn:Ew; [reflexivity|exfalso].
  destruct (i_wake _ _ H _ _ Hp Ew Hr) as (Hwk & Hst).
  pose proof (i_pend _ _ H _ _ Hp) as Hm.
  apply Hq. unfold ostep, ores_of. cbn [oexec]. unfold do_opoll. cbn. rewrite Hm, Hr. cbn.
  destruct Hst as [[E N]|[E N]]; rewrite E.
  - replace (ocount s =? 0)%Z with false by (symmetry; apply Z.eqb_neq; exact N). reflexivity.
  - destruct Hx as [Hx|Hx]; [|congruence].
    replace (ocount s =? 0)%Z with false by (symmetry; apply Z.eqb_neq; exact (N Hx)). reflexivity.
Qed.

Definition C06_oneshot_wake (cf : ocfg) : Prop :=
  forall ops f w0, let s := oreach cf ops in
  o_pend s = Some (f, w0) -> rcv s = RcvLive false ->
  (exists w, ores_of (ostep cf s (OPoll f w)) <> OPending) -> o_woken s = true.

Theorem oneshot_fixed_wake : C06_oneshot_wake ocfg_fixed.
Proof.
  intros ops f w0 s Hp Hr Hq.
  exact (oneshot_wake_inv ocfg_fixed s f w0 (oreach_inv _ ops) Hp Hr (or_introl eq_refl) Hq).
Qed.

(* F-34-oneshot: clone; send; try_recv takes the value; a second recv() future polls Pending (a sender
   clone is alive); the last sender leaves: no wake, although the future would resolve Disconnected *)
Theorem oneshot_repo_wake_refuted_F34 : ~ C06_oneshot_wake ocfg_repo.
Proof.
  intros H.
  specialize (H [OClone 0; OSend 0; OTryRecv; OMkRecv 1; OPoll 1 5; ODropS 1] 1 5 eq_refl eq_refl).
  assert (X : exists w, ores_of (ostep ocfg_repo
              (oreach ocfg_repo [OClone 0; OSend 0; OTryRecv; OMkRecv 1; OPoll 1 5; ODropS 1]) (OPoll 1 w)) <> OPending)
    by (exists 5; vm_compute; discriminate).
  specialize (H X). vm_compute in H. discriminate H.
Qed.

Theorem oneshot_repo_wake_except_F34 ops f w0 :
  let s := oreach ocfg_repo ops in
  o_pend s = Some (f, w0) -> rcv s = RcvLive false -> ostate s <> OTaken ->
  (exists w, ores_of (ostep ocfg_repo s (OPoll f w)) <> OPending) -> o_woken s = true.
Proof.
  cbn. intros Hp Hr Ht Hq.
  exact (oneshot_wake_inv ocfg_repo _ f w0 (oreach_inv _ ops) Hp Hr (or_intror Ht) Hq).
Qed.

(* dropping a future is harmless: nothing but the future table and the ghost bookkeeping changes
   (ReceiveFuture has no Drop impl; the AtomicWaker keeps a clone of the waker, not a pointer to the future) *)
Theorem oneshot_drop_future_harmless cf s f :
  let s' := fst (ostep cf s (ODropFut f)) in
  ostate s' = ostate s /\ rdrop s' = rdrop s /\ ocount s' = ocount s /\ wk s' = wk s /\
  snd_h s' = snd_h s /\ rcv s' = rcv s /\
  oacc s' = oacc s /\ orecv s' = orecv s /\ oret s' = oret s /\ odrop s' = odrop s.
Proof.
  unfold ostep. cbn [oexec]. unfold do_odropfut, fut_done. destruct s; cbn.
  destruct (mem_f f futs); cbn; repeat split.
Qed.
