(* Proofs/HMutexGuard.v — guard accounting (InvA) and list-spinlock ownership (InvB). *)
From Coq Require Import List NArith Arith Bool Lia.
From Fibre Require Import Common.Conc Sync.HMutex Proofs.HMutexBase.
Import ListNotations.

Definition InvA s := (forall u, In u (holders s) <-> holds (pcs s u) = true)
  /\ (locked s = true -> exists h, holders s = [h]) /\ (locked s = false -> holders s = []).

Lemma InvA_step s t c s' e : InvA s -> mstep s t c = Some (s', e) -> InvA s'.
Proof.
  intros [A1 [A2 A3]] H.
  pose proof (A1 t) as A1t.
  step_cases H; rewrite Epc in A1t; cbn [holds] in A1t; unfold InvA; fsimpl.
  all: try solve [ split; [ intros u; split_thr u t; [cbn [holds]; tauto | apply A1] | split; assumption ] ].
  (* acquisitions: the lock was free, so nobody held a guard *)
  1-8: (apply andb_prop in E; destruct E as [E _]; apply negb_true_iff in E;
       pose proof (A3 E) as Hh; rewrite Hh in *;
       split; [ intros u; split_thr u t;
                [ cbn [holds]; split; [reflexivity | intros _; left; reflexivity]
                | split; [ intros [X|[]]; congruence | intros X; apply A1 in X; destruct X ] ]
              | split; [ intros _; exists t; reflexivity | discriminate ] ]).
  (* release *)
  all: (assert (Hin : In t (holders s)) by (apply A1t; reflexivity);
        destruct (locked s) eqn:EL; [ | rewrite (A3 eq_refl) in Hin; destruct Hin ];
        destruct (A2 eq_refl) as [h Hh]; rewrite Hh in *; destruct Hin as [->|[]];
        cbn [rem filter]; rewrite Nat.eqb_refl; cbn [negb];
        split; [ intros u; split_thr u t;
                 [ cbn [holds]; split; [intros []|discriminate]
                 | split; [ intros [] | intros X; apply A1 in X; destruct X as [->|[]]; congruence ] ]
               | split; [ discriminate | reflexivity ] ]).
Qed.

Definition InvB s := (forall u, inlist (pcs s u) = true -> llock s = Some u)
  /\ (forall u, llock s = Some u -> inlist (pcs s u) = true).

Lemma InvB_step s t c s' e : InvB s -> mstep s t c = Some (s', e) -> InvB s'.
Proof.
  intros [B1 B2] H.
  pose proof (B1 t) as B1t. pose proof (B2 t) as B2t.
  step_cases H; rewrite Epc in B1t, B2t; cbn [inlist] in B1t, B2t; unfold InvB; fsimpl.
  (* steps that neither touch the list lock nor enter/leave a list section *)
  all: try solve [ split; intros u; split_thr u t; cbn [inlist]; auto; intros X;
                   try discriminate X; try (apply B2t in X; discriminate X) ].
  (* acquisitions and releases of the list lock *)
  all: (try (pose proof (B1t eq_refl) as HL); split; intros u; split_thr u t; cbn [inlist]; intros X;
        try reflexivity; try discriminate X; try (apply B1 in X); congruence).
Qed.
