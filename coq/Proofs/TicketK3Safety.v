(* Proofs/TicketK3Safety.v — SInv holds in every reachable state of the K3 ticket model, for every
   capacity, chunk size, table size, cadence, number of producers, programs and schedule; the
   capacity (C03) and slot-ownership (C09) theorems that follow from it. *)
From Fibre Require Import Common.Base Common.Conc Chan.TicketK3 Proofs.TicketK3Base Proofs.TicketK3Frame
  Proofs.TicketK3Prod Proofs.TicketK3Cons.
From Coq Require Import ZifyBool ZifyNat ZifyN Arith.

(* ------------------------------------------------------------ lists over ticket ranges *)
Lemma nrange_app a k1 k2 : nrange a (k1 + k2) = nrange a k1 ++ nrange (a + N.of_nat k1) k2.
Proof.
  revert a. induction k1 as [|k IH]; intros a; cbn [nrange Nat.add app].
  - rewrite N.add_0_r. reflexivity.
  - rewrite IH. replace (a + 1 + N.of_nat k) with (a + N.of_nat (S k)) by lia. reflexivity.
Qed.

Lemma in_nrange a k t : In t (nrange a k) <-> a <= t < a + N.of_nat k.
Proof.
  revert a. induction k as [|k IH]; intros a; cbn [nrange In].
  - lia.
  - rewrite IH. lia.
Qed.

Lemma vals_in_split s a m b : a <= m -> m <= b -> vals_in s a b = vals_in s a m ++ vals_in s m b.
Proof.
  intros H1 H2. unfold vals_in.
  replace (N.to_nat (b - a)) with (N.to_nat (m - a) + N.to_nat (b - m))%nat by lia.
  rewrite nrange_app, flat_map_app. replace (a + N.of_nat (N.to_nat (m - a))) with m by lia. reflexivity.
Qed.

Lemma vals_in_length s a b : (length (vals_in s a b) <= N.to_nat (b - a))%nat.
Proof.
  unfold vals_in. generalize (N.to_nat (b - a)). intros k. revert a.
  induction k as [|k IH]; intros a; cbn [nrange flat_map length]; [lia|].
  rewrite app_length. specialize (IH (a + 1)). destruct (tk s a); cbn [tk_val length]; lia.
Qed.

Lemma vals_in_nil s a b : (forall t v, a <= t < b -> tk s t <> TSet v) -> vals_in s a b = [].
Proof.
  intros H. unfold vals_in.
  assert (G : forall k a', a <= a' -> a' + N.of_nat k <= N.max a b -> flat_map (fun t => tk_val (tk s t)) (nrange a' k) = []).
  { induction k as [|k IH]; intros a' L1 L2; cbn [nrange flat_map]; [reflexivity|].
    rewrite IH by lia. destruct (tk s a') eqn:Et; cbn [tk_val app]; try reflexivity.
    exfalso. apply (H a' v); [lia | exact Et]. }
  apply G; lia.
Qed.

Lemma in_vals_in s a b v : In v (vals_in s a b) <-> exists t, a <= t < b /\ tk s t = TSet v.
Proof.
  unfold vals_in. rewrite in_flat_map. split.
  - intros [t [Ht Hv]]. apply in_nrange in Ht. exists t. split; [lia|].
    destruct (tk s t); cbn [tk_val In] in Hv; try contradiction. destruct Hv as [->|[]]. reflexivity.
  - intros [t [Ht Hv]]. exists t. split; [apply in_nrange; lia|]. rewrite Hv. left. reflexivity.
Qed.

Section Safety.
Variables cap cc n kk : N.
Variable np : nat.
Hypothesis Hcc : 0 < cc.
Hypothesis Hn : 0 < n.

Lemma SInv_init pp0 cp0 : SInv cap cc n (init np pp0 cp0).
Proof.
  constructor; cbn [init gtail progress drained retired ids sstate sdata hcid hidx hpos tk ppc cpc pseq bad]; try lia.
  - intros t. split; [lia | reflexivity].
  - intros t th. unfold owns. cbn [own_lo own_hi]. split; [discriminate | lia].
  - intros th. exact Logic.I.
  - intros t v H. discriminate H.
  - intros j Hj. apply N.mod_small. exact Hj.
  - intros j i Hj Hi. cbv zeta. destruct (N.ltb_spec (j * cc + i) 0) as [L|_]; [lia|]. split; reflexivity.
  - intros t _ H. exfalso. apply H. reflexivity.
  - exact Logic.I.
Qed.

Lemma SInv_step s t c s' e :
  SInv cap cc n s -> step cap cc n kk np s t c = Some (s', e) -> SInv cap cc n s'.
Proof.
  intros I Hs. destruct t as [|i]; cbn [step] in Hs.
  - eapply SInv_cstep; eassumption.
  - destruct (Nat.ltb i np); [|discriminate Hs]. eapply SInv_pstep; eassumption.
Qed.

Theorem SInv_reachable pp0 cp0 s :
  reachable (sys cap cc n kk np pp0 cp0) s -> SInv cap cc n s.
Proof.
  apply (invariant_lift (sys cap cc n kk np pp0 cp0) (SInv cap cc n)).
  - apply SInv_init.
  - intros s0 t c s' e. apply SInv_step.
Qed.

(* ------------------------------------------------------------ C03 *)
(* every published-and-undrained payload sits in the window [pos, pos + cap) *)
Theorem capacity_window pp0 cp0 s t v :
  reachable (sys cap cc n kk np pp0 cp0) s ->
  tk s t = TSet v -> hpos s <= t -> t < hpos s + cap.
Proof. intros Hr. apply (D_cap _ _ _ _ (SInv_reachable _ _ _ Hr)). Qed.

(* never more than cap payloads buffered *)
Theorem buffered_le_cap pp0 cp0 s :
  reachable (sys cap cc n kk np pp0 cp0) s -> (length (buffered s) <= N.to_nat cap)%nat.
Proof.
  intros Hr. pose proof (SInv_reachable _ _ _ Hr) as I. unfold buffered.
  pose proof (A_tail _ _ _ _ I) as Ht.
  destruct (N.le_gt_cases (gtail s) (hpos s + cap)) as [L|L].
  - pose proof (vals_in_length s (hpos s) (gtail s)). lia.
  - rewrite (vals_in_split s (hpos s) (hpos s + cap) (gtail s)) by lia.
    rewrite (vals_in_nil s (hpos s + cap) (gtail s)).
    + rewrite app_nil_r. pose proof (vals_in_length s (hpos s) (hpos s + cap)). lia.
    + intros t v Hr' Hv. pose proof (D_cap _ _ _ _ I t v Hv). lia.
Qed.

(* the counters are ordered; the cursor never passes an unwritten ticket *)
Theorem counters_ordered pp0 cp0 s :
  reachable (sys cap cc n kk np pp0 cp0) s ->
  progress s <= hpos s /\ drained s <= hpos s /\ hpos s <= gtail s /\
  hpos s = hcid s * cc + hidx s /\ retired s = hcid s /\
  (forall t th, tk s t = TOwn th -> hpos s <= t).
Proof.
  intros Hr. pose proof (SInv_reachable _ _ _ Hr) as I.
  repeat split; try apply I. intros t th. apply (own_ge _ _ _ _ _ _ I).
Qed.

(* ------------------------------------------------------------ C09 *)
(* the model's ownership-violation flag (payload cell overwritten live, state byte stored over a
   non-EMPTY one, take() of an empty cell) is never raised *)
Theorem no_ownership_violation pp0 cp0 s :
  reachable (sys cap cc n kk np pp0 cp0) s -> bad s = false.
Proof. intros Hr. apply (Bad _ _ _ _ (SInv_reachable _ _ _ Hr)). Qed.

(* a ticket has at most one owner (the thread whose claimed run contains it and has not yet stored its state) *)
Theorem owner_unique pp0 cp0 s t th1 th2 :
  reachable (sys cap cc n kk np pp0 cp0) s ->
  owns (ppc s th1) t -> owns (ppc s th2) t -> th1 = th2.
Proof.
  intros Hr H1 H2. pose proof (SInv_reachable _ _ _ Hr) as I.
  apply (B_own _ _ _ _ I) in H1. apply (B_own _ _ _ _ I) in H2. congruence.
Qed.

(* contents of every physical slot of the table, in terms of the ticket it currently stands for *)
Theorem slot_contents pp0 cp0 s j i :
  reachable (sys cap cc n kk np pp0 cp0) s -> j < n -> i < cc ->
  let t := ids s j * cc + i in
  sstate s (j * cc + i) = (if N.ltb t (hpos s) then sEMPTY else code (tk s t)) /\
  sdata s (j * cc + i) = (if N.ltb t (hpos s) then None else dataof (tk s) (ppc s) (pseq s) (taken (cpc s)) (hpos s) t).
Proof. intros Hr. apply (E_slot _ _ _ _ (SInv_reachable _ _ _ Hr)). Qed.

(* reset-on-drain: a chunk the consumer has retired has all its slots EMPTY and all its cells empty
   (this is what the consumer's EMPTY store on BOTH the SET and the SKIP arm maintains) *)
Theorem retired_chunk_all_empty pp0 cp0 s j i :
  reachable (sys cap cc n kk np pp0 cp0) s -> j < n -> i < cc -> ids s j < retired s ->
  sstate s (j * cc + i) = sEMPTY /\ sdata s (j * cc + i) = None.
Proof.
  intros Hr Hj Hi Hlt. pose proof (SInv_reachable _ _ _ Hr) as I.
  pose proof (E_slot _ _ _ _ I j i Hj Hi) as E. cbv zeta in E.
  rewrite (A_ret _ _ _ _ I) in Hlt.
  assert (L : ids s j * cc + i < hpos s) by (rewrite (A_pos _ _ _ _ I); apply geo_lt; assumption).
  destruct (N.ltb_spec (ids s j * cc + i) (hpos s)) as [_|X]; [exact E | lia].
Qed.

(* a chunk id is replaced in the table only when the old chunk is retired *)
Theorem reuse_only_retired pp0 cp0 s u k r cur :
  reachable (sys cap cc n kk np pp0 cp0) s -> ppc s u = PE3 k r cur -> cur < retired s.
Proof.
  intros Hr Epc. pose proof (P_inv _ _ _ _ (SInv_reachable _ _ _ Hr) u) as P.
  rewrite Epc in P. cbn [PInv] in P. lia.
Qed.

(* a written, undrained ticket keeps its chunk resident *)
Theorem written_stays_resident pp0 cp0 s t :
  reachable (sys cap cc n kk np pp0 cp0) s -> hpos s <= t -> code (tk s t) <> sEMPTY ->
  ids s (ent n (cid_of cc t)) = cid_of cc t.
Proof. intros Hr. apply (R_res _ _ _ _ (SInv_reachable _ _ _ Hr)). Qed.

End Safety.
