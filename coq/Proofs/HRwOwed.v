(* Proofs/HRwOwed.v — HybridRwLock: the wake-owed invariant RInvW. *)
From Coq Require Import List NArith Arith Bool Lia.
From Fibre Require Import Common.Conc Sync.HMutex Sync.HRwLock Proofs.HMutexBase Proofs.HRwBase Proofs.HRwGuard
     Proofs.HRwQueue Proofs.HRwNode Proofs.HRwWake.
Import ListNotations.

(* ---- the wake owed: while the lock is completely free and the list is non-empty, a wake_waiters is on
   its way (after a release that saw HAS_QUEUED, or after the drop of a WOKEN future), or the wake
   target is awake: the first queued writer is WOKEN / inside its queue section before the re-check;
   with no writer queued, some queued reader is inside its queue section before the re-check *)
Definition rwakepre (p : rpc) : bool :=
  match p with RLLSwap RLWake | RLLLoad RLWake | RLLSpin RLWake | RWSweep _ => true | _ => false end.
Definition rdroppre (p : rpc) : bool :=
  match p with RFix1 RFD | RFix2 RFD | RDUnl | RDLoad => true | _ => false end.
Definition rprew s w : Prop :=
  rwakepre (rpcs s w) = true \/ (rdroppre (rpcs s w) = true /\ rnwk s w = true).
Definition rarmed_pre (p : rpc) : bool :=
  match p with RQFor _ | RQLoad _ | RQCas _ _ _ _ => true | _ => false end.
Definition rheadok s h : Prop := rnwk s h = true \/ rarmed_pre (rpcs s h) = true.
Definition rtarget_ok s : Prop :=
  match first_writer (rqueue s) with
  | Some w => rheadok s w
  | None => exists u b, In (u, b) (rqueue s) /\ rarmed_pre (rpcs s u) = true
  end.

Definition RInvW s :=
  wl s = false -> rd s = 0%N -> rqueue s <> [] -> (exists w, rprew s w) \/ rtarget_ok s.

Lemma holds_not_free s t k : RInvA s -> holdsk k (rpcs s t) = true -> wl s = false -> rd s = 0%N -> False.
Proof.
  intros (A1 & A2 & A3 & A4 & A5 & A6) H HW HR. destruct k.
  - apply A2 in H. rewrite A4 in HR. destruct (rholders s); [destruct H|cbn in HR; lia].
  - apply A1 in H. rewrite (A6 HW) in H. destruct H.
Qed.

Lemma W_frame s s' t :
  wl s' = wl s -> rd s' = rd s -> rqueue s' = rqueue s ->
  (forall u, u <> t -> rpcs s' u = rpcs s u) ->
  (forall u, u <> t -> rnwk s u = true -> rnwk s' u = true) ->
  (rprew s t -> (exists w, rprew s' w) \/ rtarget_ok s') ->
  (rheadok s t -> (exists w, rprew s' w) \/ rheadok s' t) ->
  (rarmed_pre (rpcs s t) = true -> (exists w, rprew s' w) \/ rarmed_pre (rpcs s' t) = true) ->
  RInvW s -> RInvW s'.
Proof.
  intros HL HR HQ HP HN Hw Hh Ha W HL' HR' HQ'. unfold rtarget_ok. rewrite HL in HL'. rewrite HR in HR'. rewrite HQ in *.
  destruct (W HL' HR' HQ') as [[w Pw]|Hok].
  - destruct (Nat.eq_dec w t) as [->|Hne]; [unfold rtarget_ok in Hw; rewrite HQ in Hw; apply Hw; exact Pw|].
    left. exists w. unfold rprew in *. rewrite (HP w Hne).
    destruct Pw as [Pw|[Pw Pn]]; [left; exact Pw|right; split; [exact Pw|apply HN; assumption]].
  - unfold rtarget_ok in Hok. destruct (first_writer (rqueue s)) as [w|].
    + destruct (Nat.eq_dec w t) as [->|Hne]; [apply Hh; exact Hok|].
      right. unfold rheadok in *. rewrite (HP w Hne). destruct Hok as [X|X]; [left; apply HN; assumption|right; exact X].
    + destruct Hok as [u [b [Hu Hk]]]. destruct (Nat.eq_dec u t) as [->|Hne].
      * destruct (Ha Hk) as [X|X]; [left; exact X|right; exists t, b; split; assumption].
      * right. exists u, b. split; [exact Hu|]. rewrite (HP u Hne). exact Hk.
Qed.

Definition holdsany (p : rpc) : bool := holdsk RD p || holdsk WR p.

Lemma holdsany_not_free s t : RInvA s -> holdsany (rpcs s t) = true -> wl s = false -> rd s = 0%N -> False.
Proof.
  intros A H. unfold holdsany in H. apply orb_prop in H. destruct H as [H|H]; eapply holds_not_free; eassumption.
Qed.

Lemma first_writer_nwriters l : first_writer l = None -> nwriters l = 0.
Proof.
  induction l as [|[u b] r IH]; cbn; [reflexivity|]. destruct b; [discriminate|]. intros X. unfold nwriters in *. cbn. apply IH. exact X.
Qed.

Lemma fw_qrem_other l t w : first_writer l = Some w -> w <> t -> first_writer (qrem t l) = Some w.
Proof.
  induction l as [|[u b] r IH]; cbn; [discriminate|]. intros H Hw.
  destruct (Nat.eqb_spec u t) as [->|Hne]; cbn.
  - destruct b; [injection H as ->; contradiction|]. apply IH; assumption.
  - destruct b; [exact H|]. apply IH; assumption.
Qed.

Lemma fw_qrem_none l t : first_writer l = None -> first_writer (qrem t l) = None.
Proof.
  induction l as [|[u b] r IH]; cbn; [reflexivity|]. intros H.
  destruct b; [discriminate|]. destruct (Nat.eqb u t); cbn; apply IH; exact H.
Qed.

Lemma fw_app_some l x w : first_writer l = Some w -> first_writer (l ++ [x]) = Some w.
Proof.
  induction l as [|[u b] r IH]; cbn; [discriminate|]. destruct b; [auto|]. apply IH.
Qed.

Lemma fw_app_none l t b : first_writer l = None -> first_writer (l ++ [(t, b)]) = if b then Some t else None.
Proof.
  induction l as [|[u b'] r IH]; cbn; [destruct b; reflexivity|]. destruct b'; [discriminate|]. apply IH.
Qed.

Lemma rflush_frameW s t ws :
  wl (rflush s t ws) = wl s /\ rd (rflush s t ws) = rd s /\ rqueue (rflush s t ws) = rqueue s
  /\ rnwk (rflush s t ws) = rnwk s.
Proof.
  destruct (rflush_frame s t ws) as (X1 & X2 & _). repeat split; try assumption; [apply rflush_queue|apply rflush_nwk].
Qed.

Lemma RInvW_step s t c s' e :
  RInvA s -> RInvB s -> RInvP s -> RInvC s -> RInvD s -> RInvDp s -> RInvW s -> rwstep s t c = Some (s', e) -> RInvW s'.
Proof.
  intros A [B1 B2] P (C1 & C2 & C3) [D1 D2] Dp W H.
  pose proof (holdsany_not_free s t A) as HA. pose proof (C2 t) as Ct. unfold rlinkok in Ct.
  rstep_cases H; rewrite Epc in HA, Ct; cbn [holdsany holdsk rlk flk] in HA, Ct.
  (* the lock is not completely free afterwards *)
  all: try solve [ unfold RInvW; rsimpl; intros HL HR; first [ discriminate HL | exfalso; lia
                 | exfalso; apply HA; [ repeat match goal with x : rw |- _ => destruct x | x : rqctx |- _ => destruct x end; reflexivity | exact HL | exact HR ]
                 | exfalso; match goal with E : _ || _ = true |- _ => rewrite HL, ?HR in E; cbn in E; discriminate E end ] ].
  (* frame steps *)
  all: try solve [
    apply (W_frame s _ t); rsimpl; try reflexivity; try assumption;
    [ intros u Hu; apply upd_neq; assumption
    | intros u Hu Hn; rewrite ?upd_neq by assumption; unfold upd; repeat (destruct (Nat.eqb _ _)); auto
    | unfold rprew; rewrite Epc; cbn [rwakepre rdroppre]; intros [X|[X Y]]; try discriminate X; try congruence;
      left; exists t; unfold rprew; rsimpl; rewrite upd_eq; cbn [rwakepre rdroppre]; auto
    | intros [X|X]; [ | rewrite Epc in X; cbn [rarmed_pre] in X; try discriminate X ];
      right; unfold rheadok; rsimpl; rewrite ?upd_eq; cbn [rarmed_pre]; auto
    | rewrite Epc; cbn [rarmed_pre]; intros X; try discriminate X; right; rewrite upd_eq; reflexivity ] ].
  all: try match goal with E : rqueue _ = [] |- context [RWSweep] => idtac | E : rqueue _ = [] |- _ => rewrite <- E end.
  all: try match goal with E : rqueue _ = _ :: _ |- context [RWSweep] => idtac | E : rqueue _ = _ :: _ |- _ => rewrite <- E end.
  all: try solve [
    apply (W_frame s _ t); rsimpl; try reflexivity; try assumption;
    [ intros u Hu; apply upd_neq; assumption
    | intros u Hu Hn; rewrite ?upd_neq by assumption; unfold upd; repeat (destruct (Nat.eqb _ _)); auto
    | unfold rprew; rewrite Epc; cbn [rwakepre rdroppre]; intros [X|[X Y]]; try discriminate X; try congruence;
      left; exists t; unfold rprew; rsimpl; rewrite upd_eq; cbn [rwakepre rdroppre]; auto
    | intros [X|X]; [ | rewrite Epc in X; cbn [rarmed_pre] in X; try discriminate X ];
      right; unfold rheadok; rsimpl; rewrite ?upd_eq; cbn [rarmed_pre]; auto
    | rewrite Epc; cbn [rarmed_pre]; intros X; try discriminate X; right; rewrite upd_eq; reflexivity ] ].
  (* flush leaves: the stepping thread is neither a waker-to-be nor a target *)
  all: try solve [
    match goal with |- context [rflush ?s0 ?tt ?ws] =>
      destruct (rflush_frameW s0 tt ws) as (F1 & F2 & F3 & F4);
      apply (W_frame s _ tt); rewrite ?F1, ?F2, ?F3, ?F4; rsimpl; try reflexivity; try assumption;
      [ intros u Hu; rewrite rflush_pcs by assumption; rsimpl; reflexivity
      | intros u Hu Hn; exact Hn
      | unfold rprew; rewrite Epc; cbn [rwakepre rdroppre]; intros [X|[X Y]]; discriminate X
      | intros [X|X]; [ right; left; rewrite F4; exact X | rewrite Epc in X; discriminate X ]
      | rewrite Epc; intros X; discriminate X ]
    end ].
  all: qmem_hyps.
  (* a future is dropped while its node is not linked *)
  all: try solve [
    rewrite ?qrem_notin by assumption;
    apply (W_frame s _ t); rsimpl; try reflexivity; try assumption;
    [ intros u Hu; apply upd_neq; assumption
    | intros u Hu Hn; rewrite ?upd_neq by assumption; unfold upd; repeat (destruct (Nat.eqb _ _)); auto
    | unfold rprew; rewrite Epc; cbn [rwakepre rdroppre]; intros [X|[X Y]]; try discriminate X; try congruence;
      left; exists t; unfold rprew; rsimpl; rewrite upd_eq; cbn [rwakepre rdroppre]; auto
    | intros [X|X]; [ | rewrite Epc in X; cbn [rarmed_pre] in X; try discriminate X ];
      right; unfold rheadok; rsimpl; rewrite ?upd_eq; cbn [rarmed_pre]; auto
    | rewrite Epc; cbn [rarmed_pre]; intros X; try discriminate X; right; rewrite upd_eq; reflexivity ] ].
  (* ---- a linked future is cancelled (Idle / LLSwap LDrop -> RFix1 RFD) *)
  1-2: (unfold RInvW; rsimpl; intros HL HR HQ;
        assert (Hne0 : rqueue s <> []) by (intros X; rewrite X in HQ; apply HQ; reflexivity);
        assert (Hnt : forall w, rprew s w -> w <> t)
          by (intros w Pw ->; unfold rprew in Pw; rewrite Epc in Pw; cbn [rwakepre rdroppre] in Pw;
              destruct Pw as [X|[X _]]; discriminate X);
        destruct (W HL HR Hne0) as [[w Pw]|Hok];
        [ left; exists w; pose proof (Hnt w Pw); unfold rprew in *; rsimpl; rewrite upd_neq by assumption; exact Pw | ];
        unfold rtarget_ok in *; rsimpl; destruct (first_writer (rqueue s)) as [w|] eqn:FW;
        [ destruct (Nat.eq_dec w t) as [->|Hw];
          [ destruct Hok as [X|X]; [ | rewrite Epc in X; discriminate X ];
            left; exists t; unfold rprew; rsimpl; rewrite upd_eq; right; split; [reflexivity|exact X]
          | right; rewrite (fw_qrem_other _ _ _ FW Hw); unfold rheadok in *; rsimpl; rewrite upd_neq by assumption; exact Hok ]
        | destruct Hok as [u [b [Hu Hk]]];
          assert (u <> t) by (intros ->; rewrite Epc in Hk; discriminate Hk);
          right; rewrite (fw_qrem_none _ t FW); exists u, b; split; [apply qrem_In; split; assumption|];
          rewrite upd_neq by assumption; exact Hk ]).
  (* ---- a waiter links itself *)
  1-3: (unfold RInvW; rsimpl; intros HL HR HQ;
        assert (Hni : forall b, ~ In (t, b) (rqueue s))
          by (first [ assumption | destruct linked; cbn [andb is_wr] in Ct; exact Ct | exact Ct ]);
        destruct (rqueue s) as [|x r] eqn:EQ;
        [ right; unfold rtarget_ok; rsimpl; cbn [app first_writer];
          repeat match goal with x : rw |- _ => destruct x end; cbn [is_wr rkind_q];
          first [ right; rsimpl; rewrite upd_eq; reflexivity
                | eexists t, _; split; [left; reflexivity|rewrite upd_eq; reflexivity] ]
        | ];
        assert (Hne0 : rqueue s <> []) by (rewrite EQ; discriminate);
        destruct (W HL HR Hne0) as [[w Pw]|Hok];
        [ assert (w <> t) by (intros ->; unfold rprew in Pw; rewrite Epc in Pw; cbn [rwakepre rdroppre] in Pw;
                              destruct Pw as [X|[X _]]; discriminate X);
          left; exists w; unfold rprew in *; rsimpl; rewrite !upd_neq by assumption; exact Pw | ];
        unfold rtarget_ok in *; rsimpl; rewrite ?EQ in *; destruct (first_writer (x :: r)) as [w|] eqn:FW;
        [ assert (w <> t) by (intros ->; apply (Hni true); apply first_writer_In; exact FW);
          right; rewrite (fw_app_some _ _ _ FW); unfold rheadok in *; rsimpl; rewrite !upd_neq by assumption; exact Hok
        | destruct Hok as [u [b [Hu Hk]]];
          assert (u <> t) by (intros ->; exact (Hni b Hu));
          right; rewrite (fw_app_none _ t _ FW);
          repeat match goal with x : rw |- _ => destruct x end; cbn [is_wr rkind_q]; cbv iota;
          first [ right; rsimpl; rewrite upd_eq; reflexivity
                | exists u, b; split; [apply In_app1; left; exact Hu|rewrite upd_neq by assumption; exact Hk] ] ]).
  (* ---- a queued reader observes WRITER_PENDING while the lock is free: a writer really is queued *)
  1: { unfold RInvW; rsimpl; intros HL HR HQ.
       assert (HWP : wp s = true) by (match goal with E : wl _ || wp _ = true |- _ => rewrite HL in E; exact E end).
       assert (Hnt : forall w, rprew s w -> w <> t)
         by (intros w Pw ->; unfold rprew in Pw; rewrite Epc in Pw; cbn [rwakepre rdroppre] in Pw;
             destruct Pw as [X|[X _]]; discriminate X).
       destruct (W HL HR HQ) as [[w Pw]|Hok];
         [ left; exists w; pose proof (Hnt w Pw); unfold rprew in *; rsimpl; rewrite upd_neq by assumption; exact Pw | ].
       unfold rtarget_ok in *; rsimpl. destruct (first_writer (rqueue s)) as [w|] eqn:FW.
       - assert (w <> t).
         { intros ->. apply first_writer_In in FW. destruct (C3 t true FW) as [kk [K1 K2]].
           rewrite Epc in K1. pose proof (P t) as Pt. rewrite Epc in Pt.
           destruct q as [k l|k bl]; cbn [rkind_q rckind rfutok] in *; subst k.
           - injection K1 as <-. discriminate K2.
           - rewrite Pt in K1. injection K1 as <-. discriminate K2. }
         right. unfold rheadok in *; rsimpl. rewrite upd_neq by assumption. exact Hok.
       - exfalso. destruct (Dp HWP) as [X|[w' [f X]]].
         + apply X. apply first_writer_nwriters. exact FW.
         + assert (L1 : rllock s = Some w') by (apply B1; rewrite X; reflexivity).
           assert (L2 : rllock s = Some t) by (apply B1; rewrite Epc; reflexivity).
           assert (w' = t) by congruence. subst w'. rewrite Epc in X. discriminate X. }
  (* ---- releases *)
  1: { unfold RInvW; rsimpl; intros _ _ _. left. exists t. unfold rprew; rsimpl. rewrite upd_eq. left. reflexivity. }
  2: { unfold RInvW; rsimpl; intros _ _ _. left. exists t. unfold rprew; rsimpl. rewrite upd_eq. left. reflexivity. }
  1-2: (unfold RInvW; rsimpl; intros HL HR HQ;
        assert (HH : hq s = false)
          by (first [ assumption
                    | destruct A as (_ & A2 & _ & A4 & _);
                      assert (Hin : In t (rholders s)) by (apply A2; rewrite Epc; reflexivity);
                      assert (rd s = 1%N) by (rewrite A4 in *; destruct (rholders s); [destruct Hin|cbn [length] in *; lia]);
                      match goal with E : (rd _ =? 1)%N && hq _ = false |- _ =>
                        rewrite H in E; cbn in E; exact E end ]);
        right; unfold rtarget_ok; rsimpl;
        destruct (first_writer (rqueue s)) as [w|] eqn:FW;
        [ apply first_writer_In in FW; destruct (D2 HH w true FW) as [qq Q];
          assert (w <> t) by (intros ->; rewrite Epc in Q; discriminate Q);
          right; rsimpl; rewrite upd_neq by assumption; rewrite Q; reflexivity
        | destruct (rqueue s) as [|[u b] r] eqn:EQ; [exfalso; apply HQ; reflexivity|];
          destruct (D2 HH u b (or_introl eq_refl)) as [qq Q];
          assert (u <> t) by (intros ->; rewrite Epc in Q; discriminate Q);
          exists u, b; split; [left; reflexivity|rewrite upd_neq by assumption; rewrite Q; reflexivity] ]).
  (* ---- wake_waiters: marks the first queued writer *)
  1: { unfold RInvW; rsimpl; intros _ _ _. right. unfold rtarget_ok; rsimpl. rewrite E. left. rsimpl. apply upd_eq. }
  (* empty list: nothing owed *)
  1-2: (unfold RInvW; rsimpl; intros _ _ HQ; exfalso; apply HQ; assumption).
  (* sweeps on *)
  unfold RInvW; rsimpl; intros _ _ _. left. exists t. unfold rprew; rsimpl. rewrite upd_eq. left. reflexivity.
Qed.
