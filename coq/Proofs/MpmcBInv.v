(* Proofs/MpmcBInv.v — the invariant of the bounded-MPMC K2 model and its frame lemmas. *)
From Fibre Require Import Common.Base Chan.MpmcB Proofs.MpmcBBase.
From Coq Require Import ZifyBool ZifyNat ZifyN.

(** * derived quantities *)
(* payload ids held inside live futures (SendFuture.item) *)
Definition cellp (v : N) (x : fut) : bool :=
  f_live x && match f_item x with Some u => N.eqb v u | None => false end.
Definition cells (s : st) (v : N) : nat := cnt (cellp v) (fs s).

(* how many places hold id v *)
Definition tot (s : st) (v : N) : nat :=
  (occ v (recvd s) + occ v (q s) + cells s v + occ v (back s) + occ v (dropped s))%nat.

Definition open_tx (h : handle) : bool := h_live h && negb (h_closed h) && h_tx h.
Definition open_rx (h : handle) : bool := h_live h && negb (h_closed h) && negb (h_tx h).

(* registered futures by side and state: parked-unwoken / woken-not-yet-polled *)
Definition pw_r (x : fut) : bool := f_recv x && f_reg x && is_waiting (f_state x).
Definition pi_r (x : fut) : bool := f_recv x && f_reg x && is_success (f_state x).
Definition pw_s (x : fut) : bool := negb (f_recv x) && f_reg x && is_waiting (f_state x).
Definition pi_s (x : fut) : bool := negb (f_recv x) && f_reg x && is_success (f_state x).

Definition nq (s : st) : nat := length (q s).
Definition ncap (s : st) : nat := N.to_nat (cap s).

(* a taint is only ever set while the corresponding repair is off *)
Definition taint_ok (f : fixes) (t : taints) : Prop :=
  (fx03 f = true -> t03 t = false) /\ (fx03f f = true -> t03f t = false) /\
  (fx06 f = true -> t06 t = false) /\ (fx07 f = true -> t07 t = false) /\
  (fx08 f = true -> t08 t = false) /\ (fx12 f = true -> t12 t = false) /\
  (fx33 f = true -> t33 t = false).

(* the handle a live future borrows: alive, async, and of the future's side *)
Definition hok (recv : bool) (h : handle) : Prop :=
  h_live h = true /\ h_tx h = negb recv /\ h_async h = true.

(** * the invariant *)
(* data part, with the ids currently "in the caller's hand" (taken by [fresh], not yet placed) *)
Record InvD (hand : list N) (s : st) : Prop := {
  d_cap : (nq s <= ncap s)%nat;
  d_fifo : acc s = recvd s ++ q s;
  d_cons : forall v, (tot s v + occ v hand)%nat = if N.ltb v (next s) then 1%nat else 0%nat
}.

Record InvW (s : st) : Prop := {
  w_hnd : NoDup (akeys (hs s));
  w_fnd : NoDup (akeys (fs s));
  w_arq_nd : NoDup (akeys (arq s));
  w_asq_nd : NoDup (akeys (asq s));
  (* queued waiters point at futures of the right kind; on the send side they are always registered *)
  w_arq_k : forall f w, In (f, w) (arq s) -> exists x, getF f s = Some x /\ f_recv x = true;
  w_asq_k : forall f w, In (f, w) (asq s) -> exists x, getF f s = Some x /\ f_recv x = false /\ f_reg x = true;
  w_reg : forall f x, getF f s = Some x -> f_reg x = true -> f_live x = true /\ f_done x = false;
  (* a registered future still WAITING has its waiter queued *)
  w_wq : forall f x, getF f s = Some x -> f_reg x = true -> is_waiting (f_state x) = true ->
                     In f (akeys (if f_recv x then arq s else asq s));
  w_fh : forall f x, getF f s = Some x -> f_live x = true ->
                     exists h, getH (f_h x) s = Some h /\ hok (f_recv x) h;
  (* once a side's count is 0 every parked waiter of the other side has been CLOSED-woken *)
  w_sc0 : sc s = 0 -> forall f w x, In (f, w) (arq s) -> getF f s = Some x -> is_waiting (f_state x) = false;
  w_rc0 : rc s = 0 -> forall f w x, In (f, w) (asq s) -> getF f s = Some x -> is_waiting (f_state x) = false;
  (* no dangling registration on the receive side — unless the F-06 event happened *)
  w_arq_reg : t06 (tn s) = false -> forall f w, In (f, w) (arq s) -> exists x, getF f s = Some x /\ f_reg x = true;
  w_freed : freed s = negb (any_live s);
  w_taint : taint_ok (fx s) (tn s);
  (* a registered SendFuture holds its item *)
  w_item : forall f x, getF f s = Some x -> f_recv x = false -> f_reg x = true -> f_item x <> None;
  (* a receive-side waiter is unlinked in the same critical section that marks it SUCCESS *)
  w_arq_st : forall f w x, In (f, w) (arq s) -> getF f s = Some x ->
                           is_success (f_state x) = false /\ (f_done x = false -> f_reg x = true)
}.

Record InvK (s : st) : Prop := {
  (* the counts the code keeps are the numbers of open handles — unless the F-07 event happened *)
  k_cnt : t07 (tn s) = false ->
          sc s = N.of_nat (cnt open_tx (hs s)) /\ rc s = N.of_nat (cnt open_rx (hs s));
  (* wake accounting, receive side: parked-unwoken receivers exist only if every buffered item has a
     woken receiver on its way *)
  k_r : t06 (tn s) = false -> t12 (tn s) = false ->
        cnt pw_r (fs s) = 0%nat \/ (nq s <= cnt pi_r (fs s))%nat;
  (* send side: parked-unwoken senders exist only if every free slot has a woken sender on its way *)
  k_s : t12 (tn s) = false ->
        cnt pw_s (fs s) = 0%nat \/ (ncap s <= nq s + cnt pi_s (fs s))%nat
}.

Definition InvH (hand : list N) (s : st) : Prop := InvD hand s /\ InvW s /\ InvK s.
Definition Inv (s : st) : Prop := InvH [] s.

(** * projections of the updaters *)
Ltac st_simpl :=
  cbn [cap fx q sc rc asq arq hs fs next acc recvd back dropped freed tn wk dk bad
       with_q with_sc with_rc with_asq with_arq with_hs with_fs with_next with_acc with_recvd
       with_back with_dropped with_freed with_tn with_wk with_dk with_bad
       setF setH wake push give_back destroy] in *.

Ltac st_unfold :=
  unfold wake, mark_bad, push, give_back, destroy, fresh, setF, setH, getF, getH, taint, nq, ncap, tot, cells,
         with_q, with_sc, with_rc, with_asq, with_arq, with_hs, with_fs, with_next, with_acc, with_recvd,
         with_back, with_dropped, with_freed, with_tn, with_wk, with_dk, with_bad in *;
  cbn [cap fx q sc rc asq arq hs fs next acc recvd back dropped freed tn wk dk bad] in *.

(** ** event-only updates never matter *)
Ltac inv_frame H :=
  let HD := fresh "HD" in let HW := fresh "HW" in let HK := fresh "HK" in
  destruct H as [HD [HW HK]]; destruct HD, HW, HK;
  split; [|split]; constructor;
  unfold nq, ncap, tot, cells, getF, getH, any_live in *; st_simpl; assumption.

Lemma InvH_with_wk hand x s : InvH hand s -> InvH hand (with_wk x s).
Proof. intros H. inv_frame H. Qed.
Lemma InvH_with_dk hand x s : InvH hand s -> InvH hand (with_dk x s).
Proof. intros H. inv_frame H. Qed.
Lemma InvH_with_bad hand x s : InvH hand s -> InvH hand (with_bad x s).
Proof. intros H. inv_frame H. Qed.
Lemma InvH_wake hand w s : InvH hand s -> InvH hand (wake w s).
Proof. apply InvH_with_wk. Qed.
Lemma InvH_mark_bad hand b s : InvH hand s -> InvH hand (mark_bad b s).
Proof. unfold mark_bad. destruct b; [apply InvH_with_bad | auto]. Qed.

(** * small facts *)
Lemma getF_setF f f' x s : getF f' (setF f x s) = if N.eqb f' f then Some x else getF f' s.
Proof. unfold getF, setF. st_simpl. apply aget_aset. Qed.

Lemma getH_setH h h' x s : getH h' (setH h x s) = if N.eqb h' h then Some x else getH h' s.
Proof. unfold getH, setH. st_simpl. apply aget_aset. Qed.

Lemma cnt_setF P f x x' s :
  NoDup (akeys (fs s)) -> getF f s = Some x ->
  (cnt P (fs (setF f x' s)) + b2n (P x) = cnt P (fs s) + b2n (P x'))%nat.
Proof. unfold getF, setF. st_simpl. apply cnt_aset. Qed.

Lemma cnt_setF_new P f x' s :
  getF f s = None -> cnt P (fs (setF f x' s)) = (cnt P (fs s) + b2n (P x'))%nat.
Proof. unfold getF, setF. st_simpl. apply cnt_aset_new. Qed.

Lemma is_full_spec s : (nq s <= ncap s)%nat -> (is_full s = true <-> nq s = ncap s).
Proof.
  unfold is_full, lenq, nq, ncap. intros H. rewrite N.eqb_eq. lia.
Qed.

Lemma is_full_false s : (nq s <= ncap s)%nat -> is_full s = false -> (nq s < ncap s)%nat.
Proof.
  intros H Hf. destruct (Nat.eq_dec (nq s) (ncap s)) as [E|E]; [|lia].
  apply (is_full_spec s H) in E. congruence.
Qed.

Lemma lenq0 s : N.eqb (lenq s) 0 = true <-> q s = [].
Proof.
  unfold lenq. rewrite N.eqb_eq. destruct (q s); cbn [length]; split; intros H; try reflexivity; try discriminate; lia.
Qed.

(** ** payload moves *)
Lemma InvH_fresh s : Inv s -> InvH [next s] (snd (fresh s)) /\ fst (fresh s) = next s.
Proof.
  intros [HD [HW HK]]. split; [|reflexivity]. unfold fresh. cbn [snd].
  split; [|split].
  - destruct HD as [A B C]. constructor; unfold nq, ncap, tot, cells in *; st_simpl; try assumption.
    intros v. specialize (C v). cbn [occ] in *.
    destruct (N.eqb_spec v (next s)) as [E|Hn];
      destruct (N.ltb_spec v (next s)); destruct (N.ltb_spec v (next s + 1)); lia.
  - destruct HW. constructor; unfold getF, getH, any_live in *; st_simpl; assumption.
  - destruct HK. constructor; unfold nq, ncap in *; st_simpl; assumption.
Qed.

Lemma InvH_give_back v s : InvH [v] s -> Inv (give_back v s).
Proof.
  intros [HD [HW HK]]. unfold give_back. split; [|split].
  - destruct HD as [A B C]. constructor; unfold nq, ncap, tot, cells in *; st_simpl; try assumption.
    intros u. specialize (C u). rewrite occ_app. cbn [occ] in *. lia.
  - destruct HW. constructor; unfold getF, getH, any_live in *; st_simpl; assumption.
  - destruct HK. constructor; unfold nq, ncap in *; st_simpl; assumption.
Qed.

Lemma InvH_destroy v s : InvH [v] s -> Inv (destroy v s).
Proof.
  intros [HD [HW HK]]. unfold destroy. split; [|split].
  - destruct HD as [A B C]. constructor; unfold nq, ncap, tot, cells in *; st_simpl; try assumption.
    intros u. specialize (C u). rewrite occ_app. cbn [occ] in *. lia.
  - destruct HW. constructor; unfold getF, getH, any_live in *; st_simpl; assumption.
  - destruct HK. constructor; unfold nq, ncap in *; st_simpl; assumption.
Qed.

Lemma InvH_push v s :
  InvH [v] s -> (nq s < ncap s)%nat ->
  (t06 (tn s) = false -> t12 (tn s) = false ->
   cnt pw_r (fs s) = 0%nat \/ (nq s + 1 <= cnt pi_r (fs s))%nat) ->
  Inv (push v s).
Proof.
  intros [HD [HW HK]] Hlt Hr. unfold push. split; [|split].
  - destruct HD as [A B C]. constructor; unfold nq, ncap, tot, cells in *; st_simpl.
    + rewrite app_length. cbn [length]. lia.
    + rewrite B. rewrite app_assoc. reflexivity.
    + intros u. specialize (C u). rewrite occ_app. cbn [occ] in *. lia.
  - destruct HW. constructor; unfold getF, getH, any_live in *; st_simpl; assumption.
  - destruct HK as [K1 K2 K3]. constructor; unfold nq, ncap in *; st_simpl.
    + assumption.
    + intros T1 T2. specialize (Hr T1 T2). rewrite app_length. cbn [length]. lia.
    + intros T. specialize (K3 T). rewrite app_length. cbn [length]. lia.
Qed.

(** * waking a parked waiter *)
Lemma cellp_set_state v w x : cellp v (set_state w x) = cellp v x.
Proof. reflexivity. Qed.

Lemma cells_setF_same f x x' s v :
  NoDup (akeys (fs s)) -> getF f s = Some x -> cellp v x' = cellp v x ->
  cells (setF f x' s) v = cells s v.
Proof.
  intros Hnd Hg He. unfold cells. pose proof (cnt_setF (cellp v) f x x' s Hnd Hg) as H.
  rewrite He in H. lia.
Qed.

Ltac getF_cases H :=
  rewrite getF_setF in H;
  match type of H with
  | context [N.eqb ?a ?b] => destruct (N.eqb_spec a b); [subst; inversion H; subst; clear H | ]
  end.

(* the state reached when the channel wakes the receive-side waiter (f, w) with SUCCESS *)
Definition woken_r (f w : N) (x : fut) (s : st) : st :=
  wake w (with_arq (unlink f (arq s)) (setF f (set_state Success x) s)).

Lemma InvH_woken_r hand f w x s :
  InvH hand s -> In (f, w) (arq s) -> getF f s = Some x -> is_waiting (f_state x) = true ->
  InvH hand (woken_r f w x s)
  /\ (t06 (tn s) = false -> t12 (tn s) = false -> (nq s + 1 <= cnt pi_r (fs (woken_r f w x s)))%nat
                                                   \/ cnt pw_r (fs (woken_r f w x s)) = 0%nat).
Proof.
  intros H Hin Hg Hw. unfold woken_r.
  destruct H as [HD [HW HK]].
  destruct (w_arq_k s HW f w Hin) as [x0 [Hg' Hrecv]]. rewrite Hg in Hg'. inversion Hg'; subst x0. clear Hg'.
  set (x' := set_state Success x).
  set (s' := with_arq (unlink f (arq s)) (setF f x' s)).
  assert (HWs : InvW s').
  { destruct HW. subst s'. constructor; unfold any_live in *; st_simpl.
    - exact w_hnd0.
    - unfold setF. st_simpl. apply NoDup_aset. exact w_fnd0.
    - apply unlink_NoDup. exact w_arq_nd0.
    - exact w_asq_nd0.
    - intros f1 w1 Hi. apply unlink_In in Hi. destruct Hi as [Hi Hne]. cbn [fst] in Hne.
      destruct (w_arq_k0 f1 w1 Hi) as [y [Hy Hr]]. exists y. split; [|exact Hr].
      change (getF f1 (setF f x' s) = Some y). rewrite getF_setF.
      destruct (N.eqb_spec f1 f); [contradiction | exact Hy].
    - intros f1 w1 Hi. destruct (w_asq_k0 f1 w1 Hi) as [y [Hy [Hr Hreg]]]. exists y. split; [|auto].
      change (getF f1 (setF f x' s) = Some y). rewrite getF_setF.
      destruct (N.eqb_spec f1 f) as [->|]; [congruence | exact Hy].
    - intros f1 y Hy Hreg. change (getF f1 (setF f x' s) = Some y) in Hy. getF_cases Hy.
      + apply (w_reg0 f x Hg). exact Hreg.
      + eapply w_reg0; eauto.
    - intros f1 y Hy Hreg Hwy. change (getF f1 (setF f x' s) = Some y) in Hy. getF_cases Hy.
      + discriminate.
      + specialize (w_wq0 f1 y Hy Hreg Hwy). destruct (f_recv y); [|exact w_wq0].
        apply unlink_keys. auto.
    - intros f1 y Hy Hl. change (getF f1 (setF f x' s) = Some y) in Hy.
      change (exists h, getH (f_h y) s = Some h /\ hok (f_recv y) h). getF_cases Hy.
      + apply (w_fh0 f x Hg). exact Hl.
      + eapply w_fh0; eauto.
    - intros Hsc f1 w1 y Hi Hy. apply unlink_In in Hi. destruct Hi as [Hi Hne]. cbn [fst] in Hne.
      change (getF f1 (setF f x' s) = Some y) in Hy. getF_cases Hy; [contradiction|].
      eapply w_sc1; eauto.
    - intros Hrc f1 w1 y Hi Hy. change (getF f1 (setF f x' s) = Some y) in Hy.
      destruct (w_asq_k0 f1 w1 Hi) as [z [Hz [Hr _]]]. getF_cases Hy; [congruence|].
      eapply w_rc1; eauto.
    - intros T f1 w1 Hi. apply unlink_In in Hi. destruct Hi as [Hi Hne]. cbn [fst] in Hne.
      destruct (w_arq_reg0 T f1 w1 Hi) as [y [Hy Hr]]. exists y. split; [|exact Hr].
      change (getF f1 (setF f x' s) = Some y). rewrite getF_setF.
      destruct (N.eqb_spec f1 f); [contradiction | exact Hy].
    - exact w_freed0.
    - exact w_taint0.
    - intros f1 y Hy Hr Hd. change (getF f1 (setF f x' s) = Some y) in Hy. getF_cases Hy.
      + apply (w_item0 f x Hg); assumption.
      + eapply w_item0; eauto.
    - intros f1 w1 y Hi Hy. apply unlink_In in Hi. destruct Hi as [Hi Hne]. cbn [fst] in Hne.
      change (getF f1 (setF f x' s) = Some y) in Hy. getF_cases Hy; [contradiction|]. eapply w_arq_st0; eauto. }
  assert (Hcnt : forall P, (cnt P (fs s') + b2n (P x) = cnt P (fs s) + b2n (P x'))%nat).
  { intros P. subst s'. st_simpl. apply cnt_setF; [apply (w_fnd s HW) | exact Hg]. }
  assert (HKs : InvK s' /\ (t06 (tn s) = false -> t12 (tn s) = false ->
                 (nq s + 1 <= cnt pi_r (fs s'))%nat \/ cnt pw_r (fs s') = 0%nat)).
  { destruct HK as [K1 K2 K3]. fold (nq s) in K2, K3. fold (ncap s) in K3.
    pose proof (Hcnt pw_r) as C1. pose proof (Hcnt pi_r) as C2.
    pose proof (Hcnt pw_s) as C3. pose proof (Hcnt pi_s) as C4.
    assert (E1 : pw_r x = f_reg x) by (unfold pw_r; rewrite Hrecv, Hw; destruct (f_reg x); reflexivity).
    assert (E2 : pw_r x' = false) by (unfold pw_r, x'; cbn; apply andb_false_r).
    assert (E3 : pi_r x = false) by (unfold pi_r; destruct (f_state x); try discriminate; apply andb_false_r).
    assert (E4 : pi_r x' = f_reg x) by (unfold pi_r, x'; cbn; rewrite Hrecv; destruct (f_reg x); reflexivity).
    assert (E5 : pw_s x = false) by (unfold pw_s; rewrite Hrecv; reflexivity).
    assert (E6 : pw_s x' = false) by (unfold pw_s, x'; cbn; rewrite Hrecv; reflexivity).
    assert (E7 : pi_s x = false) by (unfold pi_s; rewrite Hrecv; reflexivity).
    assert (E8 : pi_s x' = false) by (unfold pi_s, x'; cbn; rewrite Hrecv; reflexivity).
    rewrite E1, E2 in C1. rewrite E3, E4 in C2. rewrite E5, E6 in C3. rewrite E7, E8 in C4.
    unfold b2n in *.
    assert (Eq : nq s' = nq s) by reflexivity. assert (Ec : ncap s' = ncap s) by reflexivity.
    assert (Et : tn s' = tn s) by reflexivity.
    split; [constructor|]; rewrite ?Eq, ?Ec, ?Et.
    - exact K1.
    - intros T1 T2. specialize (K2 T1 T2).
      destruct (w_arq_reg s HW T1 f w Hin) as [y [Hy Hreg]]. rewrite Hg in Hy. inversion Hy; subst y.
      rewrite Hreg in *. clear - K2 C1 C2. lia.
    - intros T. specialize (K3 T). clear - K3 C3 C4. lia.
    - intros T1 T2. specialize (K2 T1 T2).
      destruct (w_arq_reg s HW T1 f w Hin) as [y [Hy Hreg]]. rewrite Hg in Hy. inversion Hy; subst y.
      rewrite Hreg in *. clear - K2 C1 C2. lia. }
  destruct HKs as [HKs Hpost].
  split.
  - apply InvH_wake. split; [|split; assumption].
    destruct HD as [A B C]. subst s'. constructor; unfold nq, ncap, tot in *; st_simpl; try assumption.
    intros v. specialize (C v).
    change (cells (with_arq (unlink f (arq s)) (setF f x' s)) v) with (cells (setF f x' s) v).
    rewrite (cells_setF_same f x x' s v (w_fnd s HW) Hg (cellp_set_state v Success x)). exact C.
  - exact Hpost.
Qed.

(* the same on the send side; [keep] = the entry stays queued (the non-last receiver's nudge) *)
Definition woken_s (keep : bool) (f w : N) (x : fut) (s : st) : st :=
  wake w (with_asq (if keep then asq s else unlink f (asq s)) (setF f (set_state Success x) s)).

Lemma InvH_woken_s keep hand f w x s :
  InvH hand s -> In (f, w) (asq s) -> getF f s = Some x -> is_waiting (f_state x) = true ->
  InvH hand (woken_s keep f w x s)
  /\ (t12 (tn s) = false -> (ncap s <= nq s + cnt pi_s (fs (woken_s keep f w x s)) - 1)%nat
                            \/ cnt pw_s (fs (woken_s keep f w x s)) = 0%nat).
Proof.
  intros H Hin Hg Hw. unfold woken_s.
  destruct H as [HD [HW HK]].
  destruct (w_asq_k s HW f w Hin) as [x0 [Hg' [Hrecv Hreg]]]. rewrite Hg in Hg'. inversion Hg'; subst x0. clear Hg'.
  set (x' := set_state Success x).
  set (s' := with_asq (if keep then asq s else unlink f (asq s)) (setF f x' s)).
  assert (Hsub : forall e, In e (asq s') -> In e (asq s)).
  { intros e He. subst s'. st_simpl. destruct keep; [exact He | apply unlink_In in He; tauto]. }
  assert (HWs : InvW s').
  { destruct HW. subst s'. constructor; unfold any_live in *; st_simpl.
    - exact w_hnd0.
    - apply NoDup_aset. exact w_fnd0.
    - exact w_arq_nd0.
    - destruct keep; [exact w_asq_nd0 | apply unlink_NoDup; exact w_asq_nd0].
    - intros f1 w1 Hi. destruct (w_arq_k0 f1 w1 Hi) as [y [Hy Hr]]. exists y. split; [|exact Hr].
      change (getF f1 (setF f x' s) = Some y). rewrite getF_setF.
      destruct (N.eqb_spec f1 f) as [->|]; [congruence | exact Hy].
    - intros f1 w1 Hi. apply Hsub in Hi. destruct (w_asq_k0 f1 w1 Hi) as [y [Hy [Hr Hrg]]].
      change (exists z, getF f1 (setF f x' s) = Some z /\ f_recv z = false /\ f_reg z = true). rewrite getF_setF.
      destruct (N.eqb_spec f1 f) as [->|].
      + exists x'. subst x'. cbn. auto.
      + exists y. auto.
    - intros f1 y Hy Hrg. change (getF f1 (setF f x' s) = Some y) in Hy. getF_cases Hy.
      + apply (w_reg0 f x Hg). exact Hrg.
      + eapply w_reg0; eauto.
    - intros f1 y Hy Hrg Hwy. change (getF f1 (setF f x' s) = Some y) in Hy. getF_cases Hy.
      + discriminate.
      + specialize (w_wq0 f1 y Hy Hrg Hwy). destruct (f_recv y); [exact w_wq0|].
        destruct keep; [exact w_wq0 | apply unlink_keys; auto].
    - intros f1 y Hy Hl. change (getF f1 (setF f x' s) = Some y) in Hy.
      change (exists h, getH (f_h y) s = Some h /\ hok (f_recv y) h). getF_cases Hy.
      + apply (w_fh0 f x Hg). exact Hl.
      + eapply w_fh0; eauto.
    - intros Hsc f1 w1 y Hi Hy. change (getF f1 (setF f x' s) = Some y) in Hy.
      destruct (w_arq_k0 f1 w1 Hi) as [z [Hz Hr]]. getF_cases Hy; [congruence|].
      eapply w_sc1; eauto.
    - intros Hrc f1 w1 y Hi Hy. apply Hsub in Hi. change (getF f1 (setF f x' s) = Some y) in Hy.
      getF_cases Hy; [reflexivity|]. eapply w_rc1; eauto.
    - intros T f1 w1 Hi. destruct (w_arq_reg0 T f1 w1 Hi) as [y [Hy Hr]]. exists y. split; [|exact Hr].
      change (getF f1 (setF f x' s) = Some y). rewrite getF_setF.
      destruct (w_arq_k0 f1 w1 Hi) as [z [Hz Hrz]].
      destruct (N.eqb_spec f1 f) as [->|]; [congruence | exact Hy].
    - exact w_freed0.
    - exact w_taint0.
    - intros f1 y Hy Hr Hd. change (getF f1 (setF f x' s) = Some y) in Hy. getF_cases Hy.
      + apply (w_item0 f x Hg); assumption.
      + eapply w_item0; eauto.
    - intros f1 w1 y Hi Hy. change (getF f1 (setF f x' s) = Some y) in Hy.
      destruct (w_arq_k0 f1 w1 Hi) as [z [Hz Hrz]]. getF_cases Hy; [congruence|]. eapply w_arq_st0; eauto. }
  assert (Hcnt : forall P, (cnt P (fs s') + b2n (P x) = cnt P (fs s) + b2n (P x'))%nat).
  { intros P. subst s'. st_simpl. apply cnt_setF; [apply (w_fnd s HW) | exact Hg]. }
  assert (HKs : InvK s' /\ (t12 (tn s) = false -> (ncap s <= nq s + cnt pi_s (fs s') - 1)%nat \/ cnt pw_s (fs s') = 0%nat)).
  { destruct HK as [K1 K2 K3]. fold (nq s) in K2, K3. fold (ncap s) in K3.
    pose proof (Hcnt pw_r) as C1. pose proof (Hcnt pi_r) as C2.
    pose proof (Hcnt pw_s) as C3. pose proof (Hcnt pi_s) as C4.
    assert (E1 : pw_s x = true) by (unfold pw_s; rewrite Hrecv, Hw, Hreg; reflexivity).
    assert (E2 : pw_s x' = false) by (unfold pw_s, x'; cbn; apply andb_false_r).
    assert (E3 : pi_s x = false) by (unfold pi_s; destruct (f_state x); try discriminate; apply andb_false_r).
    assert (E4 : pi_s x' = true) by (unfold pi_s, x'; cbn; rewrite Hrecv, Hreg; reflexivity).
    assert (E5 : pw_r x = false) by (unfold pw_r; rewrite Hrecv; reflexivity).
    assert (E6 : pw_r x' = false) by (unfold pw_r, x'; cbn; rewrite Hrecv; reflexivity).
    assert (E7 : pi_r x = false) by (unfold pi_r; rewrite Hrecv; reflexivity).
    assert (E8 : pi_r x' = false) by (unfold pi_r, x'; cbn; rewrite Hrecv; reflexivity).
    rewrite E5, E6 in C1. rewrite E7, E8 in C2. rewrite E1, E2 in C3. rewrite E3, E4 in C4.
    unfold b2n in *.
    assert (Eq : nq s' = nq s) by reflexivity. assert (Ec : ncap s' = ncap s) by reflexivity.
    assert (Et : tn s' = tn s) by reflexivity.
    split; [constructor|]; rewrite ?Eq, ?Ec, ?Et.
    - exact K1.
    - intros T1 T2. specialize (K2 T1 T2). clear - K2 C1 C2. lia.
    - intros T. specialize (K3 T). clear - K3 C3 C4. lia.
    - intros T. specialize (K3 T). clear - K3 C3 C4. lia. }
  destruct HKs as [HKs Hpost].
  split.
  - apply InvH_wake. split; [|split; assumption].
    destruct HD as [A B C]. subst s'. constructor; unfold nq, ncap, tot in *; st_simpl; try assumption.
    intros v. specialize (C v).
    change (cells (with_asq (if keep then asq s else unlink f (asq s)) (setF f x' s)) v) with (cells (setF f x' s) v).
    rewrite (cells_setF_same f x x' s v (w_fnd s HW) Hg (cellp_set_state v Success x)). exact C.
  - exact Hpost.
Qed.

(** ** wake_one_recv / wake_one_send *)
Definition frame_r (s s' : st) : Prop :=
  cap s' = cap s /\ fx s' = fx s /\ q s' = q s /\ sc s' = sc s /\ rc s' = rc s /\ asq s' = asq s /\
  hs s' = hs s /\ next s' = next s /\ acc s' = acc s /\ recvd s' = recvd s /\ back s' = back s /\
  dropped s' = dropped s /\ freed s' = freed s /\ tn s' = tn s /\ dk s' = dk s.

Definition frame_s (s s' : st) : Prop :=
  cap s' = cap s /\ fx s' = fx s /\ q s' = q s /\ sc s' = sc s /\ rc s' = rc s /\ arq s' = arq s /\
  hs s' = hs s /\ next s' = next s /\ acc s' = acc s /\ recvd s' = recvd s /\ back s' = back s /\
  dropped s' = dropped s /\ freed s' = freed s /\ tn s' = tn s /\ dk s' = dk s.

Lemma wake_one_recv_eq s :
  InvW s ->
  (wake_one_recv s = s /\
   forall f w x, In (f, w) (arq s) -> getF f s = Some x -> is_waiting (f_state x) = false)
  \/ exists f w x, In (f, w) (arq s) /\ getF f s = Some x /\ is_waiting (f_state x) = true /\
                   wake_one_recv s = mark_bad (negb (f_live x)) (woken_r f w x s).
Proof.
  intros HW. unfold wake_one_recv.
  destruct (first_waiting (fun f => getF f s) (arq s)) as [[f w]|] eqn:E.
  - apply first_waiting_Some in E. destruct E as [Hi [x [Hg Hw]]]. right. exists f, w, x.
    rewrite Hg. unfold woken_r. rewrite (remove_first_unlink f (arq s) (w_arq_nd s HW)). auto.
  - left. split; [reflexivity|]. intros f w x Hi Hg.
    eapply (first_waiting_None _ _ E f w x Hi). exact Hg.
Qed.

Lemma wake_one_recv_frame s : frame_r s (wake_one_recv s).
Proof.
  unfold wake_one_recv, frame_r.
  destruct (first_waiting (fun f => getF f s) (arq s)) as [[f w]|]; [|repeat split].
  destruct (getF f s) as [x|]; [|repeat split].
  unfold mark_bad. destruct (negb (f_live x)); st_simpl; repeat split.
Qed.

Lemma no_waiting_r s :
  InvW s ->
  (forall f w x, In (f, w) (arq s) -> getF f s = Some x -> is_waiting (f_state x) = false) ->
  cnt pw_r (fs s) = 0%nat.
Proof.
  intros HW H. apply cnt_zero. intros f x Hi.
  destruct (pw_r x) eqn:E; [|reflexivity]. exfalso.
  unfold pw_r in E. apply andb_prop in E. destruct E as [E Ew]. apply andb_prop in E. destruct E as [Er Eg].
  assert (Hg : getF f s = Some x) by (apply In_aget; [apply (w_fnd s HW) | exact Hi]).
  pose proof (w_wq s HW f x Hg Eg Ew) as Hq. rewrite Er in Hq.
  apply akeys_In in Hq. destruct Hq as [w Hq]. rewrite (H f w x Hq Hg) in Ew. discriminate.
Qed.

Lemma InvH_wake_one_recv hand s :
  InvH hand s ->
  InvH hand (wake_one_recv s)
  /\ (t06 (tn s) = false -> t12 (tn s) = false ->
      (nq s + 1 <= cnt pi_r (fs (wake_one_recv s)))%nat \/ cnt pw_r (fs (wake_one_recv s)) = 0%nat).
Proof.
  intros H. destruct (wake_one_recv_eq s (proj1 (proj2 H))) as [[E Hn]|[f [w [x [Hi [Hg [Hw E]]]]]]]; rewrite E.
  - split; [exact H|]. intros _ _. right. apply no_waiting_r; [apply H | exact Hn].
  - destruct (InvH_woken_r hand f w x s H Hi Hg Hw) as [A B].
    split; [apply InvH_mark_bad; exact A|].
    unfold mark_bad. destruct (negb (f_live x)); exact B.
Qed.

Lemma wake_one_send_eq s :
  InvW s ->
  (wake_one_send s = s /\
   forall f w x, In (f, w) (asq s) -> getF f s = Some x -> is_waiting (f_state x) = false)
  \/ exists f w x, In (f, w) (asq s) /\ getF f s = Some x /\ is_waiting (f_state x) = true /\
                   wake_one_send s = mark_bad (negb (f_live x)) (woken_s false f w x s).
Proof.
  intros HW. unfold wake_one_send.
  destruct (first_waiting (fun f => getF f s) (asq s)) as [[f w]|] eqn:E.
  - apply first_waiting_Some in E. destruct E as [Hi [x [Hg Hw]]]. right. exists f, w, x.
    rewrite Hg. unfold woken_s. rewrite (remove_first_unlink f (asq s) (w_asq_nd s HW)). auto.
  - left. split; [reflexivity|]. intros f w x Hi Hg.
    eapply (first_waiting_None _ _ E f w x Hi). exact Hg.
Qed.

Lemma wake_one_send_frame s : frame_s s (wake_one_send s).
Proof.
  unfold wake_one_send, frame_s.
  destruct (first_waiting (fun f => getF f s) (asq s)) as [[f w]|]; [|repeat split].
  destruct (getF f s) as [x|]; [|repeat split].
  unfold mark_bad. destruct (negb (f_live x)); st_simpl; repeat split.
Qed.

Lemma no_waiting_s s :
  InvW s ->
  (forall f w x, In (f, w) (asq s) -> getF f s = Some x -> is_waiting (f_state x) = false) ->
  cnt pw_s (fs s) = 0%nat.
Proof.
  intros HW H. apply cnt_zero. intros f x Hi.
  destruct (pw_s x) eqn:E; [|reflexivity]. exfalso.
  unfold pw_s in E. apply andb_prop in E. destruct E as [E Ew]. apply andb_prop in E. destruct E as [Er Eg].
  assert (Hg : getF f s = Some x) by (apply In_aget; [apply (w_fnd s HW) | exact Hi]).
  pose proof (w_wq s HW f x Hg Eg Ew) as Hq. destruct (f_recv x); [discriminate|].
  apply akeys_In in Hq. destruct Hq as [w Hq]. rewrite (H f w x Hq Hg) in Ew. discriminate.
Qed.

Lemma InvH_wake_one_send hand s :
  InvH hand s ->
  InvH hand (wake_one_send s)
  /\ (t12 (tn s) = false ->
      (ncap s <= nq s + cnt pi_s (fs (wake_one_send s)) - 1)%nat \/ cnt pw_s (fs (wake_one_send s)) = 0%nat).
Proof.
  intros H. destruct (wake_one_send_eq s (proj1 (proj2 H))) as [[E Hn]|[f [w [x [Hi [Hg [Hw E]]]]]]]; rewrite E.
  - split; [exact H|]. intros _. right. apply no_waiting_s; [apply H | exact Hn].
  - destruct (InvH_woken_s false hand f w x s H Hi Hg Hw) as [A B].
    split; [apply InvH_mark_bad; exact A|].
    unfold mark_bad. destruct (negb (f_live x)); exact B.
Qed.

(** ** core.rs: try_send_core / try_recv_core *)
(* fields no core operation touches *)
Definition frame0 (s s' : st) : Prop :=
  cap s' = cap s /\ fx s' = fx s /\ sc s' = sc s /\ rc s' = rc s /\ hs s' = hs s /\ next s' = next s /\
  back s' = back s /\ dropped s' = dropped s /\ freed s' = freed s /\ tn s' = tn s /\ dk s' = dk s.

Lemma try_send_core_spec v s :
  InvH [v] s ->
  match try_send_core v s with
  | (s', TsOk) => Inv s' /\ rc s <> 0 /\ (nq s < ncap s)%nat /\ q s' = q s ++ [v] /\ acc s' = acc s ++ [v]
                  /\ frame0 s s' /\ asq s' = asq s /\ recvd s' = recvd s
                  /\ fs s' = fs (wake_one_recv s) /\ arq s' = arq (wake_one_recv s)
  | (s', TsFull) => s' = s /\ rc s <> 0 /\ nq s = ncap s
  | (s', TsClosed) => s' = s /\ rc s = 0
  end.
Proof.
  intros H. unfold try_send_core.
  destruct (N.eqb_spec (rc s) 0) as [E|E]; [auto|].
  pose proof (d_cap _ _ (proj1 H)) as Hcap.
  destruct (is_full s) eqn:Ef.
  - split; [reflexivity|]. split; [exact E|]. apply (is_full_spec s Hcap). exact Ef.
  - pose proof (is_full_false s Hcap Ef) as Hlt.
    destruct (InvH_wake_one_recv [v] s H) as [A B].
    destruct (wake_one_recv_frame s) as (Fcap & Ffx & Fq & Fsc & Frc & Fasq & Fhs & Fnext & Facc & Frecvd & Fback & Fdropped & Ffreed & Ftn & Fdk).
    split.
    + apply InvH_push; [exact A | unfold nq, ncap in *; congruence |].
      unfold nq in *. rewrite Ftn, Fq. intros T1 T2. destruct (B T1 T2); [right|left]; assumption.
    + unfold push, frame0. st_simpl. rewrite Fq, Facc, Frecvd.
      repeat split; try assumption; try reflexivity.
Qed.

Definition popped (v : N) (t : list N) (s : st) : st := with_recvd (recvd s ++ [v]) (with_q t s).

Lemma wake_one_send_popped v t s : wake_one_send (popped v t s) = popped v t (wake_one_send s).
Proof.
  unfold wake_one_send, popped.
  change (asq (with_recvd (recvd s ++ [v]) (with_q t s))) with (asq s).
  change (fun f => getF f (with_recvd (recvd s ++ [v]) (with_q t s))) with (fun f => getF f s).
  destruct (first_waiting (fun f => getF f s) (asq s)) as [[f w]|]; [|reflexivity].
  change (getF f (with_recvd (recvd s ++ [v]) (with_q t s))) with (getF f s).
  destruct (getF f s) as [x|]; [|reflexivity].
  unfold mark_bad. destruct (negb (f_live x)); reflexivity.
Qed.

Lemma InvH_popped hand v t s :
  InvH hand s -> q s = v :: t ->
  (t12 (tn s) = false -> (ncap s <= nq s + cnt pi_s (fs s) - 1)%nat \/ cnt pw_s (fs s) = 0%nat) ->
  InvH hand (popped v t s).
Proof.
  intros [HD [HW HK]] Hq Hs. unfold popped. split; [|split].
  - destruct HD as [A B C]. constructor; unfold nq, ncap, tot, cells in *; st_simpl.
    + rewrite Hq in A. cbn [length] in A. lia.
    + rewrite B, Hq. rewrite <- app_assoc. reflexivity.
    + intros u. specialize (C u). rewrite Hq in C. rewrite occ_app. cbn [occ] in *. lia.
  - destruct HW. constructor; unfold getF, getH, any_live in *; st_simpl; assumption.
  - destruct HK as [K1 K2 K3]. constructor; unfold nq, ncap in *; st_simpl.
    + assumption.
    + intros T1 T2. specialize (K2 T1 T2). rewrite Hq in K2. cbn [length] in K2. lia.
    + intros T. specialize (Hs T). rewrite Hq in Hs. cbn [length] in Hs. lia.
Qed.

Lemma try_recv_core_spec hand s :
  InvH hand s ->
  match try_recv_core s with
  | (s', TrVal v) => InvH hand s' /\ q s = v :: q s' /\ recvd s' = recvd s ++ [v]
                     /\ frame0 s s' /\ arq s' = arq s /\ acc s' = acc s
                     /\ fs s' = fs (wake_one_send s) /\ asq s' = asq (wake_one_send s)
  | (s', TrEmpty) => s' = s /\ q s = [] /\ sc s <> 0
  | (s', TrDisc) => s' = s /\ q s = [] /\ sc s = 0
  end.
Proof.
  intros H. unfold try_recv_core. destruct (q s) as [|v t] eqn:Eq.
  - destruct (N.eqb_spec (sc s) 0); auto.
  - change (with_recvd (recvd s ++ [v]) (with_q t s)) with (popped v t s).
    rewrite wake_one_send_popped.
    destruct (InvH_wake_one_send hand s H) as [A B].
    destruct (wake_one_send_frame s) as (Fcap & Ffx & Fq & Fsc & Frc & Farq & Fhs & Fnext & Facc & Frecvd & Fback & Fdropped & Ffreed & Ftn & Fdk).
    split.
    + apply InvH_popped; [exact A | congruence |].
      unfold nq, ncap in *. rewrite Ftn, Fq, Fcap. exact B.
    + unfold popped, frame0. st_simpl. rewrite Frecvd.
      repeat split; try assumption; try reflexivity.
Qed.

(** ** close_internal's marking loop *)
(* everything but the futures' records and the event log *)
Definition frameM (s s' : st) : Prop :=
  cap s' = cap s /\ fx s' = fx s /\ q s' = q s /\ sc s' = sc s /\ rc s' = rc s /\ asq s' = asq s /\
  arq s' = arq s /\ hs s' = hs s /\ next s' = next s /\ acc s' = acc s /\ recvd s' = recvd s /\
  back s' = back s /\ dropped s' = dropped s /\ freed s' = freed s /\ tn s' = tn s /\ dk s' = dk s.

Lemma frameM_refl s : frameM s s.
Proof. unfold frameM. repeat split. Qed.

Lemma frameM_trans a b c : frameM a b -> frameM b c -> frameM a c.
Proof.
  unfold frameM.
  intros (A1 & A2 & A3 & A4 & A5 & A6 & A7 & A8 & A9 & A10 & A11 & A12 & A13 & A14 & A15 & A16)
         (B1 & B2 & B3 & B4 & B5 & B6 & B7 & B8 & B9 & B10 & B11 & B12 & B13 & B14 & B15 & B16).
  repeat split; congruence.
Qed.

(* a WAITING future is marked CLOSED (its queue entry stays) *)
Lemma InvH_mark_closed hand f x s :
  InvH hand s -> getF f s = Some x -> is_waiting (f_state x) = true ->
  InvH hand (setF f (set_state WClosed x) s).
Proof.
  intros [HD [HW HK]] Hg Hw.
  set (x' := set_state WClosed x). set (s' := setF f x' s).
  assert (HWs : InvW s').
  { destruct HW. subst s'. constructor; unfold any_live in *; st_simpl.
    - exact w_hnd0.
    - apply NoDup_aset. exact w_fnd0.
    - exact w_arq_nd0.
    - exact w_asq_nd0.
    - intros f1 w1 Hi. destruct (w_arq_k0 f1 w1 Hi) as [y [Hy Hr]].
      change (exists z, getF f1 (setF f x' s) = Some z /\ f_recv z = true). rewrite getF_setF.
      destruct (N.eqb_spec f1 f) as [->|]; [|eauto].
      exists x'. split; [reflexivity|]. subst x'. cbn. congruence.
    - intros f1 w1 Hi. destruct (w_asq_k0 f1 w1 Hi) as [y [Hy [Hr Hrg]]].
      change (exists z, getF f1 (setF f x' s) = Some z /\ f_recv z = false /\ f_reg z = true). rewrite getF_setF.
      destruct (N.eqb_spec f1 f) as [->|]; [|eauto].
      exists x'. subst x'. cbn. rewrite Hg in Hy. inversion Hy; subst. auto.
    - intros f1 y Hy Hrg. change (getF f1 (setF f x' s) = Some y) in Hy. getF_cases Hy.
      + apply (w_reg0 f x Hg). exact Hrg.
      + eapply w_reg0; eauto.
    - intros f1 y Hy Hrg Hwy. change (getF f1 (setF f x' s) = Some y) in Hy. getF_cases Hy.
      + discriminate.
      + exact (w_wq0 f1 y Hy Hrg Hwy).
    - intros f1 y Hy Hl. change (getF f1 (setF f x' s) = Some y) in Hy.
      change (exists h, getH (f_h y) s = Some h /\ hok (f_recv y) h). getF_cases Hy.
      + apply (w_fh0 f x Hg). exact Hl.
      + eapply w_fh0; eauto.
    - intros Hsc f1 w1 y Hi Hy. change (getF f1 (setF f x' s) = Some y) in Hy.
      getF_cases Hy; [reflexivity|]. eapply w_sc1; eauto.
    - intros Hrc f1 w1 y Hi Hy. change (getF f1 (setF f x' s) = Some y) in Hy.
      getF_cases Hy; [reflexivity|]. eapply w_rc1; eauto.
    - intros T f1 w1 Hi. destruct (w_arq_reg0 T f1 w1 Hi) as [y [Hy Hr]].
      change (exists z, getF f1 (setF f x' s) = Some z /\ f_reg z = true). rewrite getF_setF.
      destruct (N.eqb_spec f1 f) as [->|]; [|eauto].
      exists x'. subst x'. cbn. rewrite Hg in Hy. inversion Hy; subst. auto.
    - exact w_freed0.
    - exact w_taint0.
    - intros f1 y Hy Hr Hd. change (getF f1 (setF f x' s) = Some y) in Hy. getF_cases Hy.
      + apply (w_item0 f x Hg); assumption.
      + eapply w_item0; eauto.
    - intros f1 w1 y Hi Hy. change (getF f1 (setF f x' s) = Some y) in Hy.
      getF_cases Hy; [|eapply w_arq_st0; eauto].
      split; [reflexivity|]. exact (proj2 (w_arq_st0 f w1 x Hi Hg)). }
  assert (Hcnt : forall P, (cnt P (fs s') + b2n (P x) = cnt P (fs s) + b2n (P x'))%nat).
  { intros P. subst s'. apply cnt_setF; [apply (w_fnd s HW) | exact Hg]. }
  split; [|split; [exact HWs|]].
  - destruct HD as [A B C]. subst s'. constructor; [exact A | exact B |].
    intros v. specialize (C v). unfold tot in *.
    rewrite (cells_setF_same f x x' s v (w_fnd s HW) Hg (cellp_set_state v WClosed x)). exact C.
  - destruct HK as [K1 K2 K3]. fold (nq s) in K2, K3. fold (ncap s) in K3.
    pose proof (Hcnt pw_r) as C1. pose proof (Hcnt pi_r) as C2.
    pose proof (Hcnt pw_s) as C3. pose proof (Hcnt pi_s) as C4.
    assert (E2 : pw_r x' = false) by (unfold pw_r, x'; cbn; apply andb_false_r).
    assert (E3 : pi_r x = false) by (unfold pi_r; destruct (f_state x); try discriminate; apply andb_false_r).
    assert (E4 : pi_r x' = false) by (unfold pi_r, x'; cbn; apply andb_false_r).
    assert (E6 : pw_s x' = false) by (unfold pw_s, x'; cbn; apply andb_false_r).
    assert (E7 : pi_s x = false) by (unfold pi_s; destruct (f_state x); try discriminate; apply andb_false_r).
    assert (E8 : pi_s x' = false) by (unfold pi_s, x'; cbn; apply andb_false_r).
    rewrite E2 in C1. rewrite E3, E4 in C2. rewrite E6 in C3. rewrite E7, E8 in C4.
    unfold b2n in *.
    assert (Eq : nq s' = nq s) by reflexivity. assert (Ec : ncap s' = ncap s) by reflexivity.
    assert (Et : tn s' = tn s) by reflexivity.
    constructor; rewrite ?Eq, ?Ec, ?Et.
    + exact K1.
    + intros T1 T2. specialize (K2 T1 T2). clear - K2 C1 C2. destruct (pw_r x); lia.
    + intros T. specialize (K3 T). clear - K3 C3 C4. destruct (pw_s x); lia.
Qed.

Lemma mark_all_spec hand l : forall s,
  InvH hand s ->
  let s' := mark_all WClosed l s in
  InvH hand s' /\ frameM s s'
  /\ (forall f x', getF f s' = Some x' ->
        exists x, getF f s = Some x /\ (is_waiting (f_state x') = true -> x' = x))
  /\ (forall f w x', In (f, w) l -> getF f s' = Some x' -> is_waiting (f_state x') = false).
Proof.
  induction l as [|[f w] t IH]; intros s H; cbn [mark_all].
  - split; [exact H|]. split; [apply frameM_refl|]. split; [eauto | intros ? ? ? []].
  - destruct (getF f s) as [x|] eqn:Hg.
    + destruct (is_waiting (f_state x)) eqn:Hw.
      * set (s1 := mark_bad (negb (f_live x)) (wake w (setF f (set_state WClosed x) s))).
        assert (H1 : InvH hand s1).
        { subst s1. apply InvH_mark_bad, InvH_wake, InvH_mark_closed; assumption. }
        assert (F1 : frameM s s1).
        { subst s1. unfold mark_bad, frameM. destruct (negb (f_live x)); st_simpl; repeat split. }
        assert (G1 : forall f1, getF f1 s1 = if N.eqb f1 f then Some (set_state WClosed x) else getF f1 s).
        { intros f1. subst s1. unfold mark_bad. destruct (negb (f_live x)); apply getF_setF. }
        destruct (IH s1 H1) as [A [B [C D]]]. cbv zeta in *.
        split; [exact A|]. split; [eapply frameM_trans; eauto|]. split.
        -- intros f1 x' Hx'. destruct (C f1 x' Hx') as [y [Hy Hyw]]. rewrite G1 in Hy.
           destruct (N.eqb_spec f1 f) as [->|].
           ++ inversion Hy; subst y. exists x. split; [exact Hg|]. intros Hwx. rewrite (Hyw Hwx) in Hwx. discriminate.
           ++ eauto.
        -- intros f1 w1 x' [E|Hi] Hx'; [|eapply D; eauto].
           inversion E; subst f1 w1. destruct (C f x' Hx') as [y [Hy Hyw]]. rewrite G1, N.eqb_refl in Hy.
           inversion Hy; subst y. destruct (is_waiting (f_state x')) eqn:Ew; [|reflexivity].
           rewrite (Hyw eq_refl) in Ew. discriminate.
      * destruct (IH s H) as [A [B [C D]]]. cbv zeta in *.
        split; [exact A|]. split; [exact B|]. split; [exact C|].
        intros f1 w1 x' [E|Hi] Hx'; [|eapply D; eauto].
        inversion E; subst f1 w1. destruct (C f x' Hx') as [y [Hy Hyw]]. rewrite Hg in Hy. inversion Hy; subst y.
        destruct (is_waiting (f_state x')) eqn:Ew; [|reflexivity]. rewrite (Hyw eq_refl) in Ew. congruence.
    + destruct (IH s H) as [A [B [C D]]]. cbv zeta in *.
      split; [exact A|]. split; [exact B|]. split; [exact C|].
      intros f1 w1 x' [E|Hi] Hx'; [|eapply D; eauto].
      inversion E; subst f1 w1. destruct (C f x' Hx') as [y [Hy Hyw]]. congruence.
Qed.

(** ** taints only weaken the conditional clauses *)
Definition tle (a b : taints) : Prop :=
  (t03 b = false -> t03 a = false) /\ (t03f b = false -> t03f a = false) /\
  (t06 b = false -> t06 a = false) /\ (t07 b = false -> t07 a = false) /\
  (t08 b = false -> t08 a = false) /\ (t12 b = false -> t12 a = false) /\
  (t33 b = false -> t33 a = false).

Lemma tle_refl a : tle a a.
Proof. unfold tle. tauto. Qed.

Lemma tle_trans a b c : tle a b -> tle b c -> tle a c.
Proof. unfold tle. tauto. Qed.

Lemma InvH_with_tn hand t' s :
  InvH hand s -> tle (tn s) t' -> taint_ok (fx s) t' -> InvH hand (with_tn t' s).
Proof.
  intros [HD [HW HK]] (L1 & L2 & L3 & L4 & L5 & L6 & L7) Hok. split; [|split].
  - destruct HD. constructor; unfold nq, ncap, tot, cells in *; st_simpl; assumption.
  - destruct HW. constructor; unfold getF, getH, any_live in *; st_simpl; try assumption.
    intros T. apply w_arq_reg0. auto.
  - destruct HK as [K1 K2 K3]. constructor; unfold nq, ncap in *; st_simpl.
    + intros T. apply K1. auto.
    + intros T1 T2. apply K2; auto.
    + intros T. apply K3; auto.
Qed.

Lemma InvH_taint hand (g : taints -> taints) b s :
  InvH hand s -> tle (tn s) (g (tn s)) -> (b = true -> taint_ok (fx s) (g (tn s))) ->
  InvH hand (taint g b s).
Proof.
  intros H L Hok. unfold taint. destruct b; [|exact H]. apply InvH_with_tn; auto.
Qed.

Lemma tle_set_t03 t : tle t (set_t03 t). Proof. unfold tle, set_t03; cbn; repeat split; auto; discriminate. Qed.
Lemma tle_set_t03f t : tle t (set_t03f t). Proof. unfold tle, set_t03f; cbn; repeat split; auto; discriminate. Qed.
Lemma tle_set_t06 t : tle t (set_t06 t). Proof. unfold tle, set_t06; cbn; repeat split; auto; discriminate. Qed.
Lemma tle_set_t07 t : tle t (set_t07 t). Proof. unfold tle, set_t07; cbn; repeat split; auto; discriminate. Qed.
Lemma tle_set_t08 t : tle t (set_t08 t). Proof. unfold tle, set_t08; cbn; repeat split; auto; discriminate. Qed.
Lemma tle_set_t12 t : tle t (set_t12 t). Proof. unfold tle, set_t12; cbn; repeat split; auto; discriminate. Qed.
Lemma tle_set_t33 t : tle t (set_t33 t). Proof. unfold tle, set_t33; cbn; repeat split; auto; discriminate. Qed.

Lemma ok_set_t03 f t : taint_ok f t -> fx03 f = false -> taint_ok f (set_t03 t).
Proof. unfold taint_ok, set_t03; cbn. intros (A&B&C&D&E&F&G) H. repeat split; auto. congruence. Qed.
Lemma ok_set_t03f f t : taint_ok f t -> fx03f f = false -> taint_ok f (set_t03f t).
Proof. unfold taint_ok, set_t03f; cbn. intros (A&B&C&D&E&F&G) H. repeat split; auto. congruence. Qed.
Lemma ok_set_t06 f t : taint_ok f t -> fx06 f = false -> taint_ok f (set_t06 t).
Proof. unfold taint_ok, set_t06; cbn. intros (A&B&C&D&E&F&G) H. repeat split; auto. congruence. Qed.
Lemma ok_set_t07 f t : taint_ok f t -> fx07 f = false -> taint_ok f (set_t07 t).
Proof. unfold taint_ok, set_t07; cbn. intros (A&B&C&D&E&F&G) H. repeat split; auto. congruence. Qed.
Lemma ok_set_t08 f t : taint_ok f t -> fx08 f = false -> taint_ok f (set_t08 t).
Proof. unfold taint_ok, set_t08; cbn. intros (A&B&C&D&E&F&G) H. repeat split; auto. congruence. Qed.
Lemma ok_set_t12 f t : taint_ok f t -> fx12 f = false -> taint_ok f (set_t12 t).
Proof. unfold taint_ok, set_t12; cbn. intros (A&B&C&D&E&F&G) H. repeat split; auto. congruence. Qed.
Lemma ok_set_t33 f t : taint_ok f t -> fx33 f = false -> taint_ok f (set_t33 t).
Proof. unfold taint_ok, set_t33; cbn. intros (A&B&C&D&E&F&G) H. repeat split; auto. congruence. Qed.

(** ** changing the handle table and the two counts *)
Lemma InvH_handles hand hs' sc' rc' fr' s :
  InvH hand s ->
  NoDup (akeys hs') ->
  (forall f x, getF f s = Some x -> f_live x = true ->
               exists h, aget (f_h x) hs' = Some h /\ hok (f_recv x) h) ->
  (sc' = 0 -> forall f w x, In (f, w) (arq s) -> getF f s = Some x -> is_waiting (f_state x) = false) ->
  (rc' = 0 -> forall f w x, In (f, w) (asq s) -> getF f s = Some x -> is_waiting (f_state x) = false) ->
  fr' = negb (existsb (fun e => h_live (snd e)) hs') ->
  (t07 (tn s) = false -> sc' = N.of_nat (cnt open_tx hs') /\ rc' = N.of_nat (cnt open_rx hs')) ->
  InvH hand (with_freed fr' (with_hs hs' (with_sc sc' (with_rc rc' s)))).
Proof.
  intros [HD [HW HK]] Hnd Hfh Hsc Hrc Hfr Hcnt. split; [|split].
  - destruct HD. constructor; unfold nq, ncap, tot, cells in *; st_simpl; assumption.
  - destruct HW. constructor; unfold getF, getH, any_live in *; st_simpl; assumption.
  - destruct HK as [K1 K2 K3]. constructor; unfold nq, ncap in *; st_simpl; assumption.
Qed.

Lemma not_borrowed h s :
  borrowed h s = false -> forall f x, getF f s = Some x -> f_live x = true -> f_h x <> h.
Proof.
  unfold borrowed. intros Hb f x Hg Hl E.
  assert (Hi : In (f, x) (fs s)) by (apply aget_In; exact Hg).
  assert (existsb (fun e => f_live (snd e) && (f_h (snd e) =? h)) (fs s) = true).
  { apply existsb_exists. exists (f, x). split; [exact Hi|]. cbn [snd]. rewrite Hl, E, N.eqb_refl. reflexivity. }
  congruence.
Qed.

Lemma cnt_hs (P : handle -> bool) h x x' l :
  NoDup (akeys l) -> aget h l = Some x ->
  (cnt P (aset h x' l) + b2n (P x) = cnt P l + b2n (P x'))%nat.
Proof. apply cnt_aset. Qed.

Lemma live_exists (l : list (N * handle)) :
  NoDup (akeys l) ->
  (existsb (fun e => h_live (snd e)) l = true <-> exists h x, aget h l = Some x /\ h_live x = true).
Proof.
  intros Hnd. rewrite existsb_exists. split.
  - intros [[h x] [Hi Hl]]. cbn [snd] in Hl. exists h, x. split; [apply In_aget; assumption | exact Hl].
  - intros [h [x [Hg Hl]]]. exists (h, x). split; [apply aget_In; exact Hg | exact Hl].
Qed.

(** ** the invariant only depends on the core fields (not on the per-step event log) *)
Definition core_eq (s s' : st) : Prop :=
  cap s' = cap s /\ fx s' = fx s /\ q s' = q s /\ sc s' = sc s /\ rc s' = rc s /\ asq s' = asq s /\
  arq s' = arq s /\ hs s' = hs s /\ fs s' = fs s /\ next s' = next s /\ acc s' = acc s /\
  recvd s' = recvd s /\ back s' = back s /\ dropped s' = dropped s /\ freed s' = freed s /\ tn s' = tn s.

Lemma InvH_ext hand s s' : core_eq s s' -> InvH hand s -> InvH hand s'.
Proof.
  unfold core_eq. destruct s, s'. st_simpl.
  intros (E1 & E2 & E3 & E4 & E5 & E6 & E7 & E8 & E9 & E10 & E11 & E12 & E13 & E14 & E15 & E16). subst.
  intros H. inv_frame H.
Qed.

Ltac core_eq_refl := unfold core_eq; st_simpl; repeat split; reflexivity.

(** * a general single-future transition: record f := x', queues := arq', asq' *)
Lemma InvW_upd f x x' arq' asq' s :
  InvW s -> getF f s = Some x ->
  f_recv x' = f_recv x -> f_h x' = f_h x ->
  (f_live x' = true -> f_live x = true) ->
  (f_reg x' = true -> f_live x' = true /\ f_done x' = false) ->
  NoDup (akeys arq') -> NoDup (akeys asq') ->
  (forall f1 w1, In (f1, w1) arq' -> (f1 <> f /\ In (f1, w1) (arq s)) \/ (f1 = f /\ f_recv x = true)) ->
  (forall f1 w1, In (f1, w1) asq' -> (f1 <> f /\ In (f1, w1) (asq s)) \/ (f1 = f /\ f_recv x = false /\ f_reg x' = true)) ->
  (forall f1, f1 <> f -> In f1 (akeys (arq s)) -> In f1 (akeys arq')) ->
  (forall f1, f1 <> f -> In f1 (akeys (asq s)) -> In f1 (akeys asq')) ->
  (f_reg x' = true -> is_waiting (f_state x') = true -> In f (akeys (if f_recv x then arq' else asq'))) ->
  (sc s = 0 -> In f (akeys arq') -> is_waiting (f_state x') = false) ->
  (rc s = 0 -> In f (akeys asq') -> is_waiting (f_state x') = false) ->
  (t06 (tn s) = false -> In f (akeys arq') -> f_reg x' = true) ->
  (f_recv x' = false -> f_reg x' = true -> f_item x' <> None) ->
  (In f (akeys arq') -> is_success (f_state x') = false /\ (f_done x' = false -> f_reg x' = true)) ->
  InvW (with_arq arq' (with_asq asq' (setF f x' s))).
Proof.
  intros HW Hg Er Eh El Hreg Hnd1 Hnd2 Hq1 Hq2 Hk1 Hk2 Hwq Hs0 Hr0 Ht6 Hit Hst.
  destruct HW. constructor; unfold any_live in *; st_simpl.
  - exact w_hnd0.
  - apply NoDup_aset. exact w_fnd0.
  - exact Hnd1.
  - exact Hnd2.
  - intros f1 w1 Hi. change (exists z, getF f1 (setF f x' s) = Some z /\ f_recv z = true). rewrite getF_setF.
    destruct (Hq1 f1 w1 Hi) as [[Hne Ho]|[-> Hr]].
    + destruct (N.eqb_spec f1 f); [contradiction|]. eapply w_arq_k0; eauto.
    + rewrite N.eqb_refl. exists x'. split; [reflexivity | congruence].
  - intros f1 w1 Hi. change (exists z, getF f1 (setF f x' s) = Some z /\ f_recv z = false /\ f_reg z = true). rewrite getF_setF.
    destruct (Hq2 f1 w1 Hi) as [[Hne Ho]|[-> [Hr Hrg]]].
    + destruct (N.eqb_spec f1 f); [contradiction|]. eapply w_asq_k0; eauto.
    + rewrite N.eqb_refl. exists x'. split; [reflexivity|]. split; [congruence | exact Hrg].
  - intros f1 y Hy Hrg. change (getF f1 (setF f x' s) = Some y) in Hy. getF_cases Hy.
    + apply Hreg. exact Hrg.
    + eapply w_reg0; eauto.
  - intros f1 y Hy Hrg Hwy. change (getF f1 (setF f x' s) = Some y) in Hy. getF_cases Hy.
    + rewrite Er. apply Hwq; assumption.
    + specialize (w_wq0 f1 y Hy Hrg Hwy). destruct (f_recv y); [apply Hk1 | apply Hk2]; assumption.
  - intros f1 y Hy Hl. change (getF f1 (setF f x' s) = Some y) in Hy.
    change (exists h, getH (f_h y) s = Some h /\ hok (f_recv y) h). getF_cases Hy.
    + rewrite Eh, Er. apply (w_fh0 f x Hg). apply El. exact Hl.
    + eapply w_fh0; eauto.
  - intros Hsc f1 w1 y Hi Hy. change (getF f1 (setF f x' s) = Some y) in Hy. getF_cases Hy.
    + apply Hs0; [exact Hsc | eapply In_akeys; exact Hi].
    + destruct (Hq1 f1 w1 Hi) as [[_ Ho]|[E _]]; [|contradiction]. eapply w_sc1; eauto.
  - intros Hrc f1 w1 y Hi Hy. change (getF f1 (setF f x' s) = Some y) in Hy. getF_cases Hy.
    + apply Hr0; [exact Hrc | eapply In_akeys; exact Hi].
    + destruct (Hq2 f1 w1 Hi) as [[_ Ho]|[E _]]; [|contradiction]. eapply w_rc1; eauto.
  - intros T f1 w1 Hi. change (exists z, getF f1 (setF f x' s) = Some z /\ f_reg z = true). rewrite getF_setF.
    destruct (N.eqb_spec f1 f) as [->|Hne].
    + exists x'. split; [reflexivity|]. apply Ht6; [exact T | eapply In_akeys; exact Hi].
    + destruct (Hq1 f1 w1 Hi) as [[_ Ho]|[E _]]; [|contradiction]. eapply w_arq_reg0; eauto.
  - exact w_freed0.
  - exact w_taint0.
  - intros f1 y Hy Hr Hd. change (getF f1 (setF f x' s) = Some y) in Hy. getF_cases Hy.
    + apply Hit; assumption.
    + eapply w_item0; eauto.
  - intros f1 w1 y Hi Hy. change (getF f1 (setF f x' s) = Some y) in Hy. getF_cases Hy.
    + apply Hst. eapply In_akeys; exact Hi.
    + destruct (Hq1 f1 w1 Hi) as [[_ Ho]|[E _]]; [|contradiction]. eapply w_arq_st0; eauto.
Qed.

(* the data part when the payload cell of f does not change *)
Lemma InvD_upd hand f x x' arq' asq' s :
  InvD hand s -> NoDup (akeys (fs s)) -> getF f s = Some x ->
  (forall v, cellp v x' = cellp v x) ->
  InvD hand (with_arq arq' (with_asq asq' (setF f x' s))).
Proof.
  intros [A B C] Hnd Hg Hc. constructor; [exact A | exact B |].
  intros v. specialize (C v). unfold tot in *.
  change (cells (with_arq arq' (with_asq asq' (setF f x' s))) v) with (cells (setF f x' s) v).
  rewrite (cells_setF_same f x x' s v Hnd Hg (Hc v)). exact C.
Qed.

(* the four registration counters after the update *)
Lemma cnt_upd (P : fut -> bool) f x x' arq' asq' s :
  NoDup (akeys (fs s)) -> getF f s = Some x ->
  (cnt P (fs (with_arq arq' (with_asq asq' (setF f x' s)))) + b2n (P x) = cnt P (fs s) + b2n (P x'))%nat.
Proof. intros Hnd Hg. change (fs (with_arq arq' (with_asq asq' (setF f x' s)))) with (fs (setF f x' s)). apply cnt_setF; assumption. Qed.

Lemma InvD_ext hand s s' : core_eq s s' -> InvD hand s -> InvD hand s'.
Proof.
  unfold core_eq. destruct s, s'. st_simpl.
  intros (E1 & E2 & E3 & E4 & E5 & E6 & E7 & E8 & E9 & E10 & E11 & E12 & E13 & E14 & E15 & E16). subst.
  intros HD. destruct HD. constructor; unfold nq, ncap, tot, cells in *; st_simpl; assumption.
Qed.

Lemma InvW_ext s s' : core_eq s s' -> InvW s -> InvW s'.
Proof.
  unfold core_eq. destruct s, s'. st_simpl.
  intros (E1 & E2 & E3 & E4 & E5 & E6 & E7 & E8 & E9 & E10 & E11 & E12 & E13 & E14 & E15 & E16). subst.
  intros HW. destruct HW. constructor; unfold getF, getH, any_live in *; st_simpl; assumption.
Qed.

(** ** the wake primitives without the wake-accounting clauses (used where a wake is being passed on
    and the accounting is momentarily one short): data + well-formedness + the effect on the counters *)
Lemma woken_r_core hand f w x s :
  InvD hand s -> InvW s -> In (f, w) (arq s) -> getF f s = Some x -> is_waiting (f_state x) = true ->
  InvD hand (woken_r f w x s) /\ InvW (woken_r f w x s)
  /\ f_recv x = true /\ (t06 (tn s) = false -> f_reg x = true).
Proof.
  intros HD HW Hin Hg Hw.
  destruct (w_arq_k s HW f w Hin) as [x0 [Hg' Hrecv]]. rewrite Hg in Hg'. inversion Hg'; subst x0. clear Hg'.
  assert (Heq : core_eq (with_arq (unlink f (arq s)) (with_asq (asq s) (setF f (set_state Success x) s))) (woken_r f w x s))
    by (unfold woken_r; core_eq_refl).
  split; [|split; [|split]].
  - apply (InvD_ext hand _ _ Heq). apply InvD_upd with x; [exact HD | apply (w_fnd s HW) | exact Hg | reflexivity].
  - apply (InvW_ext _ _ Heq). apply InvW_upd with x.
    + exact HW.
    + exact Hg.
    + reflexivity.
    + reflexivity.
    + cbn. auto.
    + cbn. intros Hr. apply (w_reg s HW f x Hg Hr).
    + apply unlink_NoDup, (w_arq_nd s HW).
    + apply (w_asq_nd s HW).
    + intros f1 w1 Hi. apply unlink_In in Hi. destruct Hi as [Hi Hne]. left. auto.
    + intros f1 w1 Hi. left. split; [|exact Hi]. intros ->.
      destruct (w_asq_k s HW f w1 Hi) as [z [Hz [Hr _]]]. congruence.
    + intros f1 Hne Hi. apply unlink_keys. auto.
    + auto.
    + cbn. discriminate.
    + cbn. auto.
    + cbn. auto.
    + intros _ Hi. apply unlink_keys in Hi. destruct Hi as [_ Hi]. contradiction.
    + cbn. intros Hr. congruence.
    + intros Hi. apply unlink_keys in Hi. destruct Hi as [_ Hi]. contradiction.
  - exact Hrecv.
  - intros T. destruct (w_arq_reg s HW T f w Hin) as [y [Hy Hr]]. congruence.
Qed.

Lemma woken_s_core keep hand f w x s :
  InvD hand s -> InvW s -> In (f, w) (asq s) -> getF f s = Some x -> is_waiting (f_state x) = true ->
  InvD hand (woken_s keep f w x s) /\ InvW (woken_s keep f w x s)
  /\ f_recv x = false /\ f_reg x = true.
Proof.
  intros HD HW Hin Hg Hw.
  destruct (w_asq_k s HW f w Hin) as [x0 [Hg' [Hrecv Hreg]]]. rewrite Hg in Hg'. inversion Hg'; subst x0. clear Hg'.
  assert (Heq : core_eq (with_arq (arq s) (with_asq (if keep then asq s else unlink f (asq s)) (setF f (set_state Success x) s)))
                        (woken_s keep f w x s))
    by (unfold woken_s; core_eq_refl).
  split; [|split; [|split]].
  - apply (InvD_ext hand _ _ Heq). apply InvD_upd with x; [exact HD | apply (w_fnd s HW) | exact Hg | reflexivity].
  - apply (InvW_ext _ _ Heq). apply InvW_upd with x.
    + exact HW.
    + exact Hg.
    + reflexivity.
    + reflexivity.
    + cbn. auto.
    + cbn. intros Hr. apply (w_reg s HW f x Hg Hr).
    + apply (w_arq_nd s HW).
    + destruct keep; [apply (w_asq_nd s HW) | apply unlink_NoDup, (w_asq_nd s HW)].
    + intros f1 w1 Hi. left. split; [|exact Hi]. intros ->.
      destruct (w_arq_k s HW f w1 Hi) as [z [Hz Hr]]. congruence.
    + intros f1 w1 Hi. destruct (N.eq_dec f1 f) as [->|Hne].
      * right. cbn. auto.
      * left. split; [exact Hne|]. destruct keep; [exact Hi | apply unlink_In in Hi; tauto].
    + auto.
    + intros f1 Hne Hi. destruct keep; [exact Hi | apply unlink_keys; auto].
    + cbn. discriminate.
    + cbn. auto.
    + cbn. auto.
    + cbn. intros _ _. exact Hreg.
    + cbn. apply (w_item s HW f x Hg).
    + intros Hi. destruct (akeys_In _ _ Hi) as [w1 Hi1].
      destruct (w_arq_k s HW f w1 Hi1) as [z [Hz Hr]]. congruence.
  - exact Hrecv.
  - exact Hreg.
Qed.

(** ** core versions: data + well-formedness + the effect on the registration counters, without
    assuming the wake-accounting clauses (needed where a step is momentarily one wake short) *)
Definition eff_r (s s' : st) : Prop :=
  cnt pw_s (fs s') = cnt pw_s (fs s) /\ cnt pi_s (fs s') = cnt pi_s (fs s) /\
  exists b : nat, (b <= 1)%nat /\ (cnt pw_r (fs s') + b = cnt pw_r (fs s))%nat
                  /\ (cnt pi_r (fs s') = cnt pi_r (fs s) + b)%nat
                  /\ (b = 0%nat -> t06 (tn s) = false -> cnt pw_r (fs s) = 0%nat).

Definition eff_s (s s' : st) : Prop :=
  cnt pw_r (fs s') = cnt pw_r (fs s) /\ cnt pi_r (fs s') = cnt pi_r (fs s) /\
  exists b : nat, (b <= 1)%nat /\ (cnt pw_s (fs s') + b = cnt pw_s (fs s))%nat
                  /\ (cnt pi_s (fs s') = cnt pi_s (fs s) + b)%nat
                  /\ (b = 0%nat -> cnt pw_s (fs s) = 0%nat).

(* futures of the other side are not touched *)
Definition keeps (recv : bool) (s s' : st) : Prop :=
  forall f x, getF f s = Some x -> f_recv x = recv -> getF f s' = Some x.

Lemma InvD_mark_bad hand b s : InvD hand s -> InvD hand (mark_bad b s).
Proof. intros H. unfold mark_bad. destruct b; [|exact H]. destruct H. constructor; unfold nq, ncap, tot, cells in *; st_simpl; assumption. Qed.
Lemma InvW_mark_bad b s : InvW s -> InvW (mark_bad b s).
Proof. intros H. unfold mark_bad. destruct b; [|exact H]. destruct H. constructor; unfold getF, getH, any_live in *; st_simpl; assumption. Qed.

Lemma pred_vals_r x :
  f_recv x = true -> is_waiting (f_state x) = true ->
  pw_r x = f_reg x /\ pi_r x = false /\ pw_s x = false /\ pi_s x = false /\
  pw_r (set_state Success x) = false /\ pi_r (set_state Success x) = f_reg x /\
  pw_s (set_state Success x) = false /\ pi_s (set_state Success x) = false.
Proof.
  intros Hr Hw. unfold pw_r, pi_r, pw_s, pi_s. cbn [f_recv f_reg f_state set_state is_waiting is_success].
  rewrite Hr, Hw. destruct (f_state x); try discriminate. destruct (f_reg x); repeat split.
Qed.

Lemma pred_vals_s x :
  f_recv x = false -> f_reg x = true -> is_waiting (f_state x) = true ->
  pw_r x = false /\ pi_r x = false /\ pw_s x = true /\ pi_s x = false /\
  pw_r (set_state Success x) = false /\ pi_r (set_state Success x) = false /\
  pw_s (set_state Success x) = false /\ pi_s (set_state Success x) = true.
Proof.
  intros Hr Hg Hw. unfold pw_r, pi_r, pw_s, pi_s. cbn [f_recv f_reg f_state set_state is_waiting is_success].
  rewrite Hr, Hg, Hw. destruct (f_state x); try discriminate. repeat split.
Qed.

Lemma wake_one_recv_core hand s :
  InvD hand s -> InvW s ->
  InvD hand (wake_one_recv s) /\ InvW (wake_one_recv s) /\ eff_r s (wake_one_recv s) /\ keeps false s (wake_one_recv s).
Proof.
  intros HD HW. destruct (wake_one_recv_eq s HW) as [[E Hn]|[f [w [x [Hi [Hg [Hw E]]]]]]]; rewrite E.
  - split; [exact HD|]. split; [exact HW|]. split.
    + unfold eff_r. split; [reflexivity|]. split; [reflexivity|]. exists 0%nat.
      split; [clear; lia|]. split; [clear; lia|]. split; [clear; lia|]. intros _ _. apply no_waiting_r; assumption.
    + intros f x Hf _. exact Hf.
  - destruct (woken_r_core hand f w x s HD HW Hi Hg Hw) as (A & B & Hr & Hreg).
    split; [apply InvD_mark_bad; exact A|]. split; [apply InvW_mark_bad; exact B|].
    assert (Ef : fs (mark_bad (negb (f_live x)) (woken_r f w x s)) = fs (setF f (set_state Success x) s))
      by (unfold mark_bad; destruct (negb (f_live x)); reflexivity).
    split.
    + unfold eff_r. rewrite Ef.
      pose proof (cnt_setF pw_r f x (set_state Success x) s (w_fnd s HW) Hg) as C1.
      pose proof (cnt_setF pi_r f x (set_state Success x) s (w_fnd s HW) Hg) as C2.
      pose proof (cnt_setF pw_s f x (set_state Success x) s (w_fnd s HW) Hg) as C3.
      pose proof (cnt_setF pi_s f x (set_state Success x) s (w_fnd s HW) Hg) as C4.
      destruct (pred_vals_r x Hr Hw) as (V1&V2&V3&V4&V5&V6&V7&V8).
      rewrite V1, V5 in C1. rewrite V2, V6 in C2. rewrite V3, V7 in C3. rewrite V4, V8 in C4. unfold b2n in *.
      split; [clear - C3; lia|]. split; [clear - C4; lia|].
      exists (if f_reg x then 1%nat else 0%nat).
      split; [clear; destruct (f_reg x); lia|]. split; [clear - C1; destruct (f_reg x); lia|].
      split; [clear - C2; destruct (f_reg x); lia|].
      intros Hb T. rewrite (Hreg T) in Hb. discriminate.
    + intros f1 y Hy Hry. unfold getF in *. rewrite Ef. change (fs (setF f (set_state Success x) s)) with (aset f (set_state Success x) (fs s)).
      rewrite aget_aset. destruct (N.eqb_spec f1 f) as [->|]; [congruence | exact Hy].
Qed.

Lemma wake_one_send_core hand s :
  InvD hand s -> InvW s ->
  InvD hand (wake_one_send s) /\ InvW (wake_one_send s) /\ eff_s s (wake_one_send s) /\ keeps true s (wake_one_send s).
Proof.
  intros HD HW. destruct (wake_one_send_eq s HW) as [[E Hn]|[f [w [x [Hi [Hg [Hw E]]]]]]]; rewrite E.
  - split; [exact HD|]. split; [exact HW|]. split.
    + unfold eff_s. split; [reflexivity|]. split; [reflexivity|]. exists 0%nat.
      split; [clear; lia|]. split; [clear; lia|]. split; [clear; lia|]. intros _. apply no_waiting_s; assumption.
    + intros f x Hf _. exact Hf.
  - destruct (woken_s_core false hand f w x s HD HW Hi Hg Hw) as (A & B & Hr & Hreg).
    split; [apply InvD_mark_bad; exact A|]. split; [apply InvW_mark_bad; exact B|].
    assert (Ef : fs (mark_bad (negb (f_live x)) (woken_s false f w x s)) = fs (setF f (set_state Success x) s))
      by (unfold mark_bad; destruct (negb (f_live x)); reflexivity).
    split.
    + unfold eff_s. rewrite Ef.
      pose proof (cnt_setF pw_r f x (set_state Success x) s (w_fnd s HW) Hg) as C1.
      pose proof (cnt_setF pi_r f x (set_state Success x) s (w_fnd s HW) Hg) as C2.
      pose proof (cnt_setF pw_s f x (set_state Success x) s (w_fnd s HW) Hg) as C3.
      pose proof (cnt_setF pi_s f x (set_state Success x) s (w_fnd s HW) Hg) as C4.
      destruct (pred_vals_s x Hr Hreg Hw) as (V1&V2&V3&V4&V5&V6&V7&V8).
      rewrite V1, V5 in C1. rewrite V2, V6 in C2. rewrite V3, V7 in C3. rewrite V4, V8 in C4. unfold b2n in *.
      split; [clear - C1; lia|]. split; [clear - C2; lia|].
      exists 1%nat. split; [clear; lia|]. split; [clear - C3; lia|]. split; [clear - C4; lia|]. intros Hb. discriminate.
    + intros f1 y Hy Hry. unfold getF in *. rewrite Ef. change (fs (setF f (set_state Success x) s)) with (aset f (set_state Success x) (fs s)).
      rewrite aget_aset. destruct (N.eqb_spec f1 f) as [->|]; [congruence | exact Hy].
Qed.

Lemma InvW_qacc a b s : InvW s -> InvW (with_acc a (with_q b s)).
Proof. intros H. destruct H. constructor; unfold getF, getH, any_live in *; st_simpl; assumption. Qed.

Lemma InvW_qrecvd a b s : InvW s -> InvW (with_recvd a (with_q b s)).
Proof. intros H. destruct H. constructor; unfold getF, getH, any_live in *; st_simpl; assumption. Qed.

Lemma try_send_core_core v s :
  InvD [v] s -> InvW s ->
  match try_send_core v s with
  | (s', TsOk) => InvD [] s' /\ InvW s' /\ rc s <> 0 /\ (nq s < ncap s)%nat /\ nq s' = (nq s + 1)%nat
                  /\ q s' = q s ++ [v] /\ frame0 s s' /\ asq s' = asq s /\ eff_r s s' /\ keeps false s s'
  | (s', TsFull) => s' = s /\ rc s <> 0 /\ nq s = ncap s
  | (s', TsClosed) => s' = s /\ rc s = 0
  end.
Proof.
  intros HD HW. unfold try_send_core.
  destruct (N.eqb_spec (rc s) 0) as [E|E]; [auto|].
  pose proof (d_cap _ _ HD) as Hcap.
  destruct (is_full s) eqn:Ef.
  - split; [reflexivity|]. split; [exact E|]. apply (is_full_spec s Hcap). exact Ef.
  - pose proof (is_full_false s Hcap Ef) as Hlt.
    destruct (wake_one_recv_core [v] s HD HW) as (A & B & Ce & Ck).
    destruct (wake_one_recv_frame s) as (Fcap & Ffx & Fq & Fsc & Frc & Fasq & Fhs & Fnext & Facc & Frecvd & Fback & Fdropped & Ffreed & Ftn & Fdk).
    unfold push. split; [|split; [apply InvW_qacc; exact B|]].
    + destruct A as [A1 A2 A3]. constructor; unfold nq, ncap, tot, cells in *; st_simpl.
      * rewrite app_length, Fq, Fcap. cbn [length]. clear - Hlt. lia.
      * rewrite A2. rewrite app_assoc. reflexivity.
      * intros u. specialize (A3 u). rewrite occ_app. cbn [occ] in *. clear - A3. lia.
    + unfold frame0, nq, ncap in *. st_simpl. rewrite Fq.
      split; [exact E|]. split; [exact Hlt|]. split; [rewrite app_length; cbn [length]; reflexivity|].
      split; [reflexivity|]. split; [repeat split; assumption|]. split; [exact Fasq|].
      split; [exact Ce | exact Ck].
Qed.

Lemma try_recv_core_core hand s :
  InvD hand s -> InvW s ->
  match try_recv_core s with
  | (s', TrVal v) => InvD hand s' /\ InvW s' /\ q s = v :: q s' /\ recvd s' = recvd s ++ [v]
                     /\ frame0 s s' /\ arq s' = arq s /\ acc s' = acc s /\ eff_s s s' /\ keeps true s s'
  | (s', TrEmpty) => s' = s /\ q s = [] /\ sc s <> 0
  | (s', TrDisc) => s' = s /\ q s = [] /\ sc s = 0
  end.
Proof.
  intros HD HW. unfold try_recv_core. destruct (q s) as [|v t] eqn:Eq.
  - destruct (N.eqb_spec (sc s) 0); auto.
  - change (with_recvd (recvd s ++ [v]) (with_q t s)) with (popped v t s).
    rewrite wake_one_send_popped.
    destruct (wake_one_send_core hand s HD HW) as (A & B & Ce & Ck).
    destruct (wake_one_send_frame s) as (Fcap & Ffx & Fq & Fsc & Frc & Farq & Fhs & Fnext & Facc & Frecvd & Fback & Fdropped & Ffreed & Ftn & Fdk).
    unfold popped. split; [|split; [apply InvW_qrecvd; exact B|]].
    + destruct A as [A1 A2 A3]. constructor; unfold nq, ncap, tot, cells in *; st_simpl.
      * rewrite Fq, Eq, Fcap in *. cbn [length] in A1. clear - A1. lia.
      * rewrite A2, Fq, Eq, Frecvd. rewrite <- app_assoc. reflexivity.
      * intros u. specialize (A3 u). rewrite Fq, Eq, Frecvd in *. rewrite occ_app. cbn [occ] in *. clear - A3. lia.
    + unfold frame0. st_simpl. rewrite Frecvd.
      split; [reflexivity|]. split; [reflexivity|]. split; [repeat split; assumption|].
      split; [exact Farq|]. split; [exact Facc|]. split; [exact Ce | exact Ck].
Qed.
