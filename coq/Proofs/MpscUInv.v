(* Proofs/MpscUInv.v — FIFO (G2) and conservation (G3) invariants of the unbounded-MPSC K2 model and
   the lifting of all invariants to every reachable state. *)
From Fibre Require Import Common.Base Chan.MpscU Proofs.MpscUBase.
From Coq Require Import ZifyBool ZifyNat ZifyN.
Ltac Zify.zify_post_hook ::= Z.div_mod_to_equations.

(* ------------------------------------------------------------------ *)
(** * C02: FIFO invariant *)

Lemma is_nil_true {A} (l : list A) : is_nil l = true -> l = [].
Proof. destruct l; [reflexivity | discriminate]. Qed.

Lemma exec_G2 s o : GS s -> G2 s -> G2 (fst (exec s o)).
Proof.
  intros (N1&N2&FO&RO&SC&RL) (E&D&R). destruct o; symex; try (repeat split; assumption).
  all: unfold G2; cb.
  all: repeat match goal with H : _ /\ _ |- _ => destruct H end.
  all: try match goal with H : tx_dead _ _ = false |- _ =>
         unfold tx_dead in H; cbh; apply orb_false_iff in H; destruct H end.
  all: try match goal with H : q ?s0 = _ :: _ |- _ =>
         destruct (rdrop s0) eqn:RD; [rewrite (R RD) in H; discriminate H|] end.
  all: try match goal with H : q ?s0 = (_ :: _) ++ _ |- _ =>
         destruct (rdrop s0) eqn:RD; [rewrite (R RD) in H; discriminate H|] end.
  all: try match goal with |- context [qdrp ?s0] => (assert (QD : qdrp s0 = []) by
    (destruct (qdrp s0) eqn:EQ; [reflexivity|]; exfalso;
     let PRE := fresh in let HD := fresh "HD" in
     match type of D with ?P -> _ => assert (PRE : P) by discriminate end;
     destruct (D PRE) as [HD|HD]; [try congruence; discriminate HD|];
     repeat match goal with
     | H : aget _ (fs _) = Some _ |- _ => apply FO in H; destruct H as (?&H&_)
     end;
     match goal with H : aget _ (hs _) = Some _ |- _ => rewrite HD in H; discriminate H end);
    rewrite ?QD, ?app_nil_r in * ) end.
  all: repeat match goal with
       | H : q _ = _ |- _ => rewrite H in *; clear H
       | H : rcv _ = _ |- _ => rewrite H in *; clear H
       end.
  all: repeat split; try (intros HN; try congruence; try discriminate).
  all: rewrite ?E, <- ?app_assoc; cbn [app]; rewrite ?app_nil_r; try reflexivity; auto.
  all: try (left; reflexivity).
  all: try (right; apply is_nil_true; assumption).
  all: try match goal with
       | HN : qdrp ?s0 <> [] |- _ =>
           destruct (D HN) as [X|X]; [left; exact X | exfalso];
           repeat match goal with
           | H : aget _ (fs _) = Some _ |- _ => apply FO in H; destruct H as (?&H&_)
           end;
           match goal with H : aget _ (hs _) = Some _ |- _ => rewrite X in H; discriminate H end
       end.
  all: try (exfalso; match goal with HN : rdrop _ = true |- _ => specialize (R HN); discriminate R end).
  all: match goal with HN : rdrop _ = true |- _ => specialize (R HN) end.
  all: apply app_eq_nil in R; destruct R; assumption.
Qed.

(* ------------------------------------------------------------------ *)
(** * C01/C09: conservation (counting form) *)

Lemma cnt_app v a b : cnt v (a ++ b) = (cnt v a + cnt v b)%nat.
Proof. apply count_occ_app. Qed.

Lemma cnt_cons v x l : cnt v (x :: l) = ((if N.eq_dec x v then 1 else 0) + cnt v l)%nat.
Proof. unfold cnt. cbn [count_occ]. destruct (N.eq_dec x v); reflexivity. Qed.

Lemma cnt_nil v : cnt v [] = 0%nat.
Proof. reflexivity. Qed.

Lemma cnt_split v k l : cnt v l = (cnt v (firstn k l) + cnt v (skipn k l))%nat.
Proof. rewrite <- cnt_app, firstn_skipn. reflexivity. Qed.

Lemma cnt_notin v l : ~ In v l -> cnt v l = 0%nat.
Proof. apply count_occ_not_In. Qed.

Lemma nodupb_cnt l : nodupb l = true -> forall v, (cnt v l <= 1)%nat.
Proof.
  induction l as [|x t IH]; cbn [nodupb]; intros H v; [cbn; lia|].
  apply andb_true_iff in H. destruct H as [H1 H2]. apply negb_true_iff, mem_false_In in H1.
  rewrite cnt_cons. specialize (IH H2 v). destruct (N.eq_dec x v) as [->|]; [|lia].
  rewrite (cnt_notin v t H1). lia.
Qed.

Lemma fresh_cnt vs s : fresh vs s = true ->
  forall v, (cnt v vs <= 1)%nat /\ ((1 <= cnt v vs)%nat -> cnt v (used s) = 0%nat).
Proof.
  unfold fresh. intros H v. apply andb_true_iff in H. destruct H as [H1 H2].
  split; [apply nodupb_cnt; exact H2|]. intros Hc.
  assert (Hin : In v vs) by (apply (count_occ_In N.eq_dec); unfold cnt in Hc; lia).
  rewrite forallb_forall in H1. specialize (H1 v Hin). apply negb_true_iff, mem_false_In in H1.
  apply cnt_notin. exact H1.
Qed.

Lemma fitems_cons f fr l : fitems ((f, fr) :: l) = kitems (fk fr) ++ fitems l.
Proof. reflexivity. Qed.

Lemma fitems_adel f l fr : NoDup (keysN l) -> aget f l = Some fr ->
  forall v, cnt v (fitems l) = (cnt v (kitems (fk fr)) + cnt v (fitems (adel f l)))%nat.
Proof.
  induction l as [|[k x] t IH]; cbn [keysN map fst aget adel]; intros Hnd Hg v; [discriminate|].
  inversion Hnd as [|? ? Hni Hnd']; subst.
  destruct (N.eqb_spec f k) as [->|Hn].
  - inversion Hg; subst. rewrite fitems_cons, cnt_app.
    rewrite (adel_id k t) by (apply aget_None_keys; exact Hni). reflexivity.
  - rewrite !fitems_cons, !cnt_app. rewrite (IH Hnd' Hg v). lia.
Qed.

Ltac g3leaf C U N2 :=
  let v0 := fresh "x" in
  intros v0; specialize (C v0); specialize (U v0); bools;
  repeat match goal with
  | H : fresh ?vs ?s0 = true |- _ => apply fresh_cnt with (v := v0) in H; cbh
  | H : aget ?f (fs ?s0) = Some ?fr |- _ =>
      lazymatch goal with
      | K : cnt v0 (fitems (fs s0)) = _ |- _ => fail
      | _ => pose proof (fitems_adel f (fs s0) fr N2 H v0)
      end
  | H : aget ?f (fs ?s0) = None |- _ => rewrite (adel_id f (fs s0) H) in *
  end;
  repeat match goal with H : _ /\ _ |- _ => destruct H end;
  repeat match goal with
  | H : is_nil ?l = true |- _ => apply is_nil_true in H
  end;
  repeat match goal with
  | H : ?v = [] |- _ => is_var v; subst v
  end;
  repeat match goal with
  | |- context [firstn ?k ?l] =>
      lazymatch goal with K : cnt v0 l = _ |- _ => fail | _ => pose proof (cnt_split v0 k l) end
  | |- context [skipn ?k ?l] =>
      lazymatch goal with K : cnt v0 l = _ |- _ => fail | _ => pose proof (cnt_split v0 k l) end
  | H : context [firstn ?k ?l] |- _ =>
      lazymatch goal with K : cnt v0 l = _ |- _ => fail | _ => pose proof (cnt_split v0 k l) end
  | H : context [skipn ?k ?l] |- _ =>
      lazymatch goal with K : cnt v0 l = _ |- _ => fail | _ => pose proof (cnt_split v0 k l) end
  end;
  repeat match goal with
  | H : firstn _ _ = [] |- _ => rewrite H in *; clear H
  | H : skipn _ _ = [] |- _ => rewrite H in *; clear H
  end;
  repeat match goal with
  | H : q _ = _ |- _ => rewrite H in *; clear H
  | H : rcv _ = _ |- _ => rewrite H in *; clear H
  | H : fk _ = _ |- _ => rewrite H in *
  end;
  cbn [fk fh kitems] in *; rewrite ?cnt_app in *; cbn [kitems] in *; rewrite ?cnt_cons, ?cnt_nil in *;
  repeat match goal with
  | |- context [N.eq_dec ?a ?b] => destruct (N.eq_dec a b)
  | H : context [N.eq_dec ?a ?b] |- _ => destruct (N.eq_dec a b)
  end;
  try lia.

Lemma exec_G3 s o : GS s -> G3 s -> G3 (fst (exec s o)).
Proof.
  intros (N1&N2&FO&RO&SC&RL) [C U]. destruct o; symex; try (split; assumption).
  all: unfold G3, held in *; cb; unfold aset; rewrite ?fitems_cons.
  all: split; g3leaf C U N2.
Qed.

(* ------------------------------------------------------------------ *)
(** * lifting to steps and runs *)

Lemma step_fst s o : fst (step s o) = fst (exec (clear_ev s) o).
Proof. unfold step. destruct (exec (clear_ev s) o). reflexivity. Qed.

Lemma clear_Inv s : Inv s -> Inv (clear_ev s).
Proof. intros H. exact H. Qed.

Lemma exec_Inv s o : Inv s -> Inv (fst (exec s o)).
Proof.
  intros (B&C&D). split; [apply (exec_GS s o B)|]. split; [apply (exec_G2 s o B C) | apply (exec_G3 s o B D)].
Qed.

Lemma step_Inv s o : Inv s -> Inv (fst (step s o)).
Proof. intros H. rewrite step_fst. apply exec_Inv, clear_Inv, H. Qed.

Lemma run_fst_cons s o t : fst (run s (o :: t)) = fst (run (fst (step s o)) t).
Proof.
  cbn [run]. destruct (step s o) as [s1 x]. cbn [fst]. destruct (run s1 t). reflexivity.
Qed.

Lemma run_Inv ops : forall s, Inv s -> Inv (final s ops).
Proof.
  unfold final. induction ops as [|o t IH]; intros s H; [exact H|].
  rewrite run_fst_cons. apply IH, step_Inv, H.
Qed.

Lemma init_Inv a fcl : Inv (init a fcl).
Proof.
  unfold Inv, GS, G2, G3, held, init, fut_ok, rx_one, rx_live, open_tx, isopen. cb.
  cbn [keysN map fst aget filter snd htx hclosed andb negb fitems flat_map app].
  repeat split; try lia; try discriminate; try (cbn; lia).
  - repeat constructor; cbn; intuition discriminate.
  - constructor.
  - intros h r. destruct (N.eqb_spec h 0) as [->|N0]; [intros E; inversion E; subst; cbn; discriminate|].
    destruct (N.eqb_spec h 1); [auto | discriminate].
  - intros _. eexists. split; [reflexivity|]. split; reflexivity.
  - intros H. exfalso. apply H. reflexivity.
Qed.

Theorem reach_Inv a fcl ops : Inv (final (init a fcl) ops).
Proof. apply run_Inv, init_Inv. Qed.
