(* Proofs/CacheC12Proofs.v — C12: nothing expired is served; on an unbounded cache
   nothing unexpired disappears (with the F-16 patch), and the refutations on the
   current code (F-15, F-16, F-33). *)
From Fibre Require Import Common.Base Cache.PolicySpec Cache.PolicyLru Cache.AMap Cache.CacheOps Cache.CacheSpec
     Proofs.AMapProofs Proofs.CacheCoreProofs Proofs.CacheStepProofs.

Section C12.
  Set Default Proof Using "All".
  Variable P : policy.
  Variable c : cfg.
  Hypothesis Hn : 0 < c_shards c.

  Notation state := (state P).
  Notation find := (find P c).
  Notation wfp := (wfp P c).

  Lemma expired_live now e : expired c now e = false <-> live c now e.
  Proof.
    unfold expired, live. split.
    - intros H. apply orb_false_iff in H. destruct H as [H1 H2]. split.
      + destruct (N.eqb_spec (e_exp e) 0) as [->|Hne]; [left; reflexivity|]. cbn [negb andb] in H1.
        right. apply N.leb_gt in H1. exact H1.
      + intros d Hd. rewrite Hd in H2. apply N.leb_gt in H2. exact H2.
    - intros [H1 H2]. apply orb_false_iff. split.
      + destruct H1 as [->|H1]; [reflexivity|]. apply andb_false_iff. right. apply N.leb_gt. exact H1.
      + destruct (c_tti c) as [d|]; [|reflexivity]. apply N.leb_gt. apply H2. reflexivity.
  Qed.

  Lemma computable_spec s k :
    match computable P c s k with
    | Some e => find s k = Some e /\ (fix_f33 (c_fix c) = true -> expired c (st_now P s) e = false)
    | None => True
    end.
  Proof.
    unfold computable. destruct (find s k) as [e|]; [|exact I].
    destruct (fix_f33 (c_fix c)); cbn [andb].
    - destruct (expired c (st_now P s) e) eqn:Ex; [exact I | split; auto].
    - split; [reflexivity | discriminate].
  Qed.

  (** ** served => live *)
  Lemma c12_served_gen s o k v :
    served P c s o k v ->
    (is_entry_op o = true -> fix_f15 (c_fix c) = true) ->
    (is_compute_op o = true -> fix_f33 (c_fix c) = true) ->
    exists e, find s k = Some e /\ e_val e = v /\ live c (st_now P s) e.
  Proof.
    intros Hs He Hc.
    assert (Hread : forall hit r, do_read P c hit s k = r -> snd r = Some v ->
                                  exists e, find s k = Some e /\ e_val e = v /\ live c (st_now P s) e).
    { intros hit r <- Hv. pose proof (do_read_spec P c Hn hit s k) as H.
      destruct (find s k) as [e|]; [destruct (expired c (st_now P s) e) eqn:Ex|]; try (rewrite H in Hv; discriminate).
      destruct H as [Hr _]. rewrite Hr in Hv. inversion Hv; subst. exists e. split; [reflexivity|]. split; [reflexivity|].
      apply expired_live. exact Ex. }
    destruct o; cbn [served] in Hs; try contradiction.
    - destruct Hs as [-> Hs]. cbn [step] in Hs. destruct (do_read P c true s k) as [s' r] eqn:Er. cbn [snd] in Hs.
      inversion Hs; subst. eapply Hread; [exact Er | reflexivity].
    - destruct Hs as [-> Hs]. cbn [step] in Hs. destruct (do_read P c true s k) as [s' r] eqn:Er. cbn [snd] in Hs.
      inversion Hs; subst. eapply Hread; [exact Er | reflexivity].
    - destruct Hs as [-> Hs]. cbn [step] in Hs. destruct (do_read P c false s k) as [s' r] eqn:Er. cbn [snd] in Hs.
      inversion Hs; subst. eapply Hread; [exact Er | reflexivity].
    - destruct Hs as [-> [e [Ho Hv]]]. pose proof (occupied_spec P c Hn s k) as H. rewrite Ho in H.
      destruct H as [Hf Hx]. exists e. split; [exact Hf|]. split; [exact Hv|]. apply expired_live. apply Hx. apply He. reflexivity.
    - destruct Hs as [-> Hs]. cbn [step snd] in Hs. pose proof (occupied_spec P c Hn s k) as H.
      destruct (occupied P c s k) as [e|]; [|discriminate]. inversion Hs; subst.
      destruct H as [Hf Hx]. exists e. split; [exact Hf|]. split; [reflexivity|]. apply expired_live. apply Hx. apply He. reflexivity.
    - destruct Hs as [-> Hs]. cbn [step] in Hs. pose proof (do_compute_ueff P c s k f) as H. cbn zeta in H.
      pose proof (computable_spec s k) as Hcs.
      destruct (computable P c s k) as [e|].
      + destruct (do_compute P c s k f) as [s' r]. cbn [fst snd] in *. destruct H as [_ [-> _]].
        inversion Hs; subst. destruct Hcs as [Hf Hx]. exists e. split; [exact Hf|]. split; [reflexivity|].
        apply expired_live. apply Hx. apply Hc. reflexivity.
      + rewrite H in Hs. cbn [snd] in Hs. discriminate.
    - destruct Hs as [l [Hs Hi]]. cbn [step] in Hs.
      destruct (do_multiget_gen P (do_read P c true) s ks []) as [s' l'] eqn:E. cbn [snd] in Hs. inversion Hs; subst.
      destruct (multiget_gen_spec P c Hn _ (do_read_rd_ok P c Hn true) ks s [] s' l E) as [_ [Hin _]].
      destruct (Hin k v Hi) as [[]|[_ [e [Hf [Hx Hv]]]]]. exists e. split; [exact Hf|]. split; [exact Hv|].
      apply expired_live. exact Hx.
    - destruct Hs as [l [Hs Hi]]. cbn [step] in Hs.
      destruct (do_multiget_gen P (do_read_direct P c) s ks []) as [s' l'] eqn:E. cbn [snd] in Hs. inversion Hs; subst.
      destruct (multiget_gen_spec P c Hn _ (do_read_direct_rd_ok P c Hn) ks s [] s' l E) as [_ [Hin _]].
      destruct (Hin k v Hi) as [[]|[_ [e [Hf [Hx Hv]]]]]. exists e. split; [exact Hf|]. split; [exact Hv|].
      apply expired_live. exact Hx.
  Qed.

  (** ** what an operation can do to an entry it does not overwrite *)
  Definition same_inc (s : state) (o : op) (k : N) (e e' : entry) : Prop :=
    e_id e' = e_id e /\ e_exp e' = e_exp e /\ e_cost e' = e_cost e
    /\ (e_la e' = e_la e
        \/ (e_la e' = st_now P s /\ live c (st_now P s) e /\ refreshes o k = true)).

  Lemma same_inc_refl s o k e : same_inc s o k e e.
  Proof. repeat split; auto. Qed.

  Lemma multiget_gen_frame rd : rd_ok P c rd -> forall ks s acc k,
    ~ In k ks -> find (fst (do_multiget_gen P rd s ks acc)) k = find s k.
  Proof.
    intros Hrd. induction ks as [|k0 t IH]; intros s acc k Hni; cbn [do_multiget_gen]; [reflexivity|].
    destruct (Hrd s k0) as [Hfr _]. destruct (rd s k0) as [s1 o]. cbn [fst] in Hfr.
    assert (Hne : k <> k0) by (intros ->; apply Hni; left; reflexivity).
    assert (Hni' : ~ In k t) by (intros Hi; apply Hni; right; exact Hi).
    destruct o; rewrite IH by exact Hni'; apply Hfr; exact Hne.
  Qed.

  Lemma refr_keep s s' o k e :
    refr P c s s' -> find s k = Some e -> refreshes o k = true ->
    exists e', find s' k = Some e' /\ same_inc s o k e e'.
  Proof.
    intros [_ [R _]] Hf Hrf. specialize (R (shard_of c k) k). rewrite !find_smap in *. rewrite Hf in R.
    unfold rel_entry in R. destruct (afind k (smap P s' (shard_of c k))) as [e'|]; [|contradiction].
    exists e'. split; [reflexivity|]. destruct R as [->|[-> Hx]]; [apply same_inc_refl|].
    unfold refreshed. destruct (c_tti c); [|apply same_inc_refl]. cbn. repeat split; auto.
    right. split; [reflexivity|]. split; [apply expired_live; exact Hx | exact Hrf].
  Qed.

  Lemma mstep_keep s s' D dcc o k e :
    mstep P c s s' D dcc -> find s k = Some e ->
    (forall e', find s' k = Some e' -> same_inc s o k e e')
    /\ (~ In k (dkeys (shard_of c k) D) -> find s' k = Some e).
  Proof.
    intros Hm Hf. rewrite (find_mstep P c Hn _ _ _ _ k Hm). split.
    - intros e' He'. destruct (mem k _); [discriminate|]. rewrite Hf in He'. inversion He'; subst. apply same_inc_refl.
    - intros Hni. apply mem_false_In in Hni. rewrite Hni. exact Hf.
  Qed.

  Lemma multi_insert_frame items : forall s k,
    ~ In k (map (fun it => fst (fst it)) items) -> find (do_multi_insert P c s items) k = find s k.
  Proof.
    unfold do_multi_insert. induction items as [|[[k0 v] cost] t IH]; intros s k Hni; cbn [fold_left]; [reflexivity|].
    cbn [map fst] in Hni. rewrite IH by (intros Hi; apply Hni; right; exact Hi).
    destruct (insert_core_ueff P c s k0 v cost (ttl_exp c (st_now P s)) (c_ttl c)) as [h H]. cbn zeta in H.
    rewrite (find_ueff_aput P c Hn _ _ _ _ _ _ k H).
    destruct (N.eqb_spec k k0) as [->|]; [exfalso; apply Hni; left; reflexivity | reflexivity].
  Qed.

  (* maintenance drops only what it may: expired entries (with the F-16 patch) or, on a bounded cache, victims *)
  Lemma maint_keep s s' D dcc k e :
    mstepx P c s s' D dcc -> Forall not_inval D -> find s k = Some e ->
    c_cap c = U64_MAX -> fix_f16 (c_fix c) = true -> live c (st_now P s) e ->
    ~ In k (dkeys (shard_of c k) D).
  Proof.
    intros [Hm [Hok _]] Hni Hf Hcap Hfix Hlive Hin.
    apply In_dkeys in Hin. destruct Hin as [d [Hd [Hs Hk]]].
    destruct Hm as [_ [_ [_ [_ [_ [_ F]]]]]]. specialize (F d Hd). rewrite Hs, Hk, <- find_smap, Hf in F.
    inversion F as [He]. rewrite Forall_forall in Hok, Hni.
    destruct (Hok d Hd) as [_ Hr]. specialize (Hni d Hd). unfold not_inval in Hni.
    destruct (d_rsn d).
    - unfold U64_MAX in *. lia.
    - rewrite <- He in Hr. apply expired_live in Hlive. rewrite (Hr Hfix) in Hlive. discriminate.
    - contradiction.
  Qed.

  Lemma dkeys_single_notin j i r k0 e0 k : k <> k0 -> ~ In k (dkeys j [mkDrop i r k0 e0]).
  Proof.
    intros Hne Hi. apply In_dkeys in Hi. destruct Hi as [d [[<-|[]] [_ Hk]]]. cbn [d_key] in Hk. congruence.
  Qed.

  Lemma c12_keep s o k e :
    wfp s -> find s k = Some e -> silent o k = false ->
    let s' := fst (step P c s o) in
    (forall e', find s' k = Some e' -> same_inc s o k e e')
    /\ (removes o k = false ->
        is_maint o = false \/ (c_cap c = U64_MAX /\ fix_f16 (c_fix c) = true /\ live c (st_now P s) e) ->
        exists e', find s' k = Some e').
  Proof.
    intros Hw Hf Hsil. cbn zeta.
    assert (Hsame : forall s', find s' k = find s k ->
              (forall e', find s' k = Some e' -> same_inc s o k e e') /\ exists e', find s' k = Some e').
    { intros s' H. rewrite H, Hf. split; [|eauto]. intros e' He'. inversion He'; subst. apply same_inc_refl. }
    assert (Hread : forall hit k0, o = OGet k0 \/ o = OFetch k0 \/ (o = OPeek k0 /\ hit = false) ->
              (forall e', find (fst (do_read P c hit s k0)) k = Some e' -> same_inc s o k e e')
              /\ exists e', find (fst (do_read P c hit s k0)) k = Some e').
    { intros hit k0 Ho. destruct (N.eq_dec k k0) as [<-|Hne].
      - pose proof (do_read_spec P c Hn hit s k) as H. rewrite Hf in H.
        destruct (expired c (st_now P s) e) eqn:Ex; [rewrite H; apply Hsame; reflexivity|].
        destruct H as [_ Hr]. destruct Ho as [->|[->|[-> ->]]].
        + destruct (refr_keep s _ (OGet k) k e Hr Hf) as [e' [He' Hs']]; [cbn; apply N.eqb_refl|].
          split; [|eauto]. intros e2 He2. rewrite He' in He2. inversion He2; subst. exact Hs'.
        + destruct (refr_keep s _ (OFetch k) k e Hr Hf) as [e' [He' Hs']]; [cbn; apply N.eqb_refl|].
          split; [|eauto]. intros e2 He2. rewrite He' in He2. inversion He2; subst. exact Hs'.
        + apply Hsame. unfold do_read. rewrite Hf, Ex. cbn [fst]. exact Hf.
      - apply Hsame. apply (do_read_rd_ok P c Hn hit s k0). exact Hne. }
    destruct o; cbn [step fst silent removes is_maint] in *.
    - apply N.eqb_neq in Hsil. destruct (do_insert_ueff P c Hn s k0 v c0) as [h H]. cbn zeta in H.
      destruct (Hsame (do_insert P c s k0 v c0)) as [A B]; [|split; [exact A | intros _ _; exact B]].
      rewrite (find_ueff_aput P c Hn _ _ _ _ _ _ k H). destruct (N.eqb_spec k k0); [contradiction | reflexivity].
    - apply N.eqb_neq in Hsil. destruct (do_insert_ttl_ueff P c Hn s k0 v c0 d) as [h H]. cbn zeta in H.
      destruct (Hsame (do_insert_ttl P c s k0 v c0 d)) as [A B]; [|split; [exact A | intros _ _; exact B]].
      rewrite (find_ueff_aput P c Hn _ _ _ _ _ _ k H). destruct (N.eqb_spec k k0); [contradiction | reflexivity].
    - destruct (Hread true k0) as [A B]; [auto|]. destruct (do_read P c true s k0). split; [exact A | intros _ _; exact B].
    - destruct (Hread true k0) as [A B]; [auto|]. destruct (do_read P c true s k0). split; [exact A | intros _ _; exact B].
    - destruct (Hread false k0) as [A B]; [auto|]. destruct (do_read P c false s k0). split; [exact A | intros _ _; exact B].
    - apply N.eqb_neq in Hsil. unfold do_or_insert. destruct (occupied P c s k0); cbn [fst].
      + destruct (Hsame s eq_refl) as [A B]. split; [exact A | intros _ _; exact B].
      + pose proof (vacant_insert_ueff' P c Hn s k0 v c0) as H. cbn zeta in H.
        destruct (Hsame (vacant_insert P c s k0 v c0)) as [A B]; [|split; [exact A | intros _ _; exact B]].
        rewrite (find_ueff_aput P c Hn _ _ _ _ _ _ k H). destruct (N.eqb_spec k k0); [contradiction | reflexivity].
    - destruct (Hsame s eq_refl) as [A B]. split; [exact A | intros _ _; exact B].
    - pose proof (do_compute_ueff P c s k0 f) as H. cbn zeta in H.
      destruct (computable P c s k0) as [e0|].
      + destruct (do_compute P c s k0 f) as [s' r]. cbn [fst snd] in *. destruct H as [H [_ Hf0]].
        destruct (N.eq_dec k k0) as [<-|Hne].
        * rewrite Hf in Hf0. inversion Hf0; subst e0.
          assert (Hx : find s' k = Some (mkE (capply f (e_val e)) (e_cost e) (e_exp e) (e_la e) (e_timer e) (e_id e))).
          { rewrite (find_ueff_aset P c Hn _ _ _ _ _ _ k H), N.eqb_refl, Hf. reflexivity. }
          split; [|intros _ _; eauto]. intros e' He'. rewrite Hx in He'. inversion He'; subst. repeat split; auto.
        * destruct (Hsame s') as [A B]; [|split; [exact A | intros _ _; exact B]].
          rewrite (find_ueff_aset P c Hn _ _ _ _ _ _ k H). destruct (N.eqb_spec k k0); [contradiction | reflexivity].
      + rewrite H. destruct (Hsame s eq_refl) as [A B]. split; [exact A | intros _ _; exact B].
    - pose proof (do_compute_ueff P c s k0 f) as H. cbn zeta in H.
      destruct (computable P c s k0) as [e0|].
      + destruct (do_compute P c s k0 f) as [s' r]. cbn [fst snd] in *. destruct H as [H [_ Hf0]].
        destruct (N.eq_dec k k0) as [<-|Hne].
        * rewrite Hf in Hf0. inversion Hf0; subst e0.
          assert (Hx : find s' k = Some (mkE (capply f (e_val e)) (e_cost e) (e_exp e) (e_la e) (e_timer e) (e_id e))).
          { rewrite (find_ueff_aset P c Hn _ _ _ _ _ _ k H), N.eqb_refl, Hf. reflexivity. }
          split; [|intros _ _; eauto]. intros e' He'. rewrite Hx in He'. inversion He'; subst. repeat split; auto.
        * destruct (Hsame s') as [A B]; [|split; [exact A | intros _ _; exact B]].
          rewrite (find_ueff_aset P c Hn _ _ _ _ _ _ k H). destruct (N.eqb_spec k k0); [contradiction | reflexivity].
      + rewrite H. destruct (Hsame s eq_refl) as [A B]. split; [exact A | intros _ _; exact B].
    - (* remove *)
      pose proof (do_remove_mstepx P c s k0 Hn) as H. destruct (find s k0) as [e0|].
      + destruct (do_remove P c s k0) as [s' r]. cbn [fst snd] in *. destruct H as [[H _] _].
        destruct (mstep_keep s s' _ _ (ORemove k0) k e H Hf) as [A B]. split; [exact A|].
        intros Hrm _. exists e. apply B. apply N.eqb_neq in Hrm. apply dkeys_single_notin. exact Hrm.
      + rewrite H. destruct (Hsame s eq_refl) as [A B]. split; [exact A | intros _ _; exact B].
    - pose proof (do_remove_mstepx P c s k0 Hn) as H. destruct (find s k0) as [e0|].
      + destruct (do_remove P c s k0) as [s' r]. cbn [fst snd] in *. destruct H as [[H _] _].
        destruct (mstep_keep s s' _ _ (OInvalidate k0) k e H Hf) as [A B]. split; [exact A|].
        intros Hrm _. exists e. apply B. apply N.eqb_neq in Hrm. apply dkeys_single_notin. exact Hrm.
      + rewrite H. destruct (Hsame s eq_refl) as [A B]. split; [exact A | intros _ _; exact B].
    - discriminate.
    - (* multiget *)
      destruct (do_multiget_gen P (do_read P c true) s ks []) as [s' l] eqn:E. cbn [fst].
      destruct (multiget_gen_spec P c Hn _ (do_read_rd_ok P c Hn true) ks s [] s' l E) as [Hr _].
      destruct (in_dec N.eq_dec k ks) as [Hi|Hni].
      + destruct (refr_keep s s' (OMultiGet ks) k e Hr Hf) as [e' [He' Hs']]; [cbn; apply mem_In; exact Hi|].
        split; [|eauto]. intros e2 He2. rewrite He' in He2. inversion He2; subst. exact Hs'.
      + destruct (Hsame s') as [A B]; [|split; [exact A | intros _ _; exact B]].
        pose proof (multiget_gen_frame _ (do_read_rd_ok P c Hn true) ks s [] k Hni) as Hx. rewrite E in Hx. exact Hx.
    - destruct (do_multiget_gen P (do_read_direct P c) s ks []) as [s' l] eqn:E. cbn [fst].
      destruct (multiget_gen_spec P c Hn _ (do_read_direct_rd_ok P c Hn) ks s [] s' l E) as [Hr _].
      destruct (in_dec N.eq_dec k ks) as [Hi|Hni].
      + destruct (refr_keep s s' (OMultiGetAsync ks) k e Hr Hf) as [e' [He' Hs']]; [cbn; apply mem_In; exact Hi|].
        split; [|eauto]. intros e2 He2. rewrite He' in He2. inversion He2; subst. exact Hs'.
      + destruct (Hsame s') as [A B]; [|split; [exact A | intros _ _; exact B]].
        pose proof (multiget_gen_frame _ (do_read_direct_rd_ok P c Hn) ks s [] k Hni) as Hx. rewrite E in Hx. exact Hx.
    - apply mem_false_In in Hsil.
      destruct (Hsame (do_multi_insert P c s items)) as [A B]; [|split; [exact A | intros _ _; exact B]].
      apply multi_insert_frame. exact Hsil.
    - destruct (do_multi_remove P c s ks []) as [s' l] eqn:E. cbn [fst].
      destruct (do_multi_remove_spec P c Hn ks s [] s' l E) as [D [dcc [[H _] [_ [_ [Hks _]]]]]].
      destruct (mstep_keep s s' _ _ (OMultiRemove ks) k e H Hf) as [A B]. split; [exact A|].
      intros Hrm _. exists e. apply B. intros Hi. apply In_dkeys in Hi. destruct Hi as [d [Hd [_ Hk]]].
      rewrite Forall_forall in Hks. specialize (Hks d Hd). rewrite Hk in Hks. apply mem_In in Hks. congruence.
    - destruct (do_multi_remove P c s ks []) as [s' l] eqn:E. cbn [fst].
      destruct (do_multi_remove_spec P c Hn ks s [] s' l E) as [D [dcc [[H _] [_ [_ [Hks _]]]]]].
      destruct (mstep_keep s s' _ _ (OMultiInvalidate ks) k e H Hf) as [A B]. split; [exact A|].
      intros Hrm _. exists e. apply B. intros Hi. apply In_dkeys in Hi. destruct Hi as [d [Hd [_ Hk]]].
      rewrite Forall_forall in Hks. specialize (Hks d Hd). rewrite Hk in Hks. apply mem_In in Hks. congruence.
    - destruct (run_maintenance_mstepx P c ord s Hw) as [D [dcc [H Hni]]].
      destruct (mstep_keep s _ _ _ (OMaint ord) k e (proj1 H) Hf) as [A B]. split; [exact A|].
      intros _ [Hx|[Hcap [Hfix Hl]]]; [discriminate|]. exists e. apply B. eapply maint_keep; eassumption.
    - destruct (janitor_tick_mstepx P c i ord s Hw) as [D [dcc [H Hni]]].
      destruct (mstep_keep s _ _ _ (OJanitorTick i ord) k e (proj1 H) Hf) as [A B]. split; [exact A|].
      intros _ [Hx|[Hcap [Hfix Hl]]]; [discriminate|]. exists e. apply B. eapply maint_keep; eassumption.
    - destruct (janitor_signal_mstepx P c i ord s Hw) as [D [dcc [H Hni]]].
      destruct (mstep_keep s _ _ _ (OJanitorSignal i ord) k e (proj1 H) Hf) as [A B]. split; [exact A|].
      intros _ [Hx|[Hcap [Hfix Hl]]]; [discriminate|]. exists e. apply B. eapply maint_keep; eassumption.
    - destruct (Hsame (mkSt P (st_sh P s) (st_cc P s) (st_now P s + d) (st_nq P s) (st_log P s) (st_tid P s)
                             (st_eid P s) (st_evdrops P s) (st_ndrops P s)) eq_refl) as [A B].
      split; [exact A | intros _ _; exact B].
    - destruct (Hsame (flush_intro P c s)) as [A B]; [|split; [exact A | intros _ _; exact B]].
      rewrite !find_smap. destruct (flush_intro_spec P c Hn s) as [M _]. rewrite M. reflexivity.
    - destruct (Hsame (do_deliver P s n)) as [A B]; [|split; [exact A | intros _ _; exact B]].
      rewrite !find_smap. destruct (do_deliver_spec P c Hn s n) as [M _]. rewrite M. reflexivity.
  Qed.

  Lemma is_maint_now s o : is_maint o = true -> wfp s -> st_now P (fst (step P c s o)) = st_now P s.
  Proof.
    intros Hm Hw. destruct o; try discriminate; cbn [step fst].
    - destruct (run_maintenance_mstepx P c ord s Hw) as [D [dcc [[[_ [_ [N _]]] _] _]]]. exact N.
    - destruct (janitor_tick_mstepx P c i ord s Hw) as [D [dcc [[[_ [_ [N _]]] _] _]]]. exact N.
    - destruct (janitor_signal_mstepx P c i ord s Hw) as [D [dcc [[[_ [_ [N _]]] _] _]]]. exact N.
  Qed.

  Theorem c12_present : fix_f16 (c_fix c) = true -> C12_present P c.
  Proof.
    intros Hfix Hcap s o k e Hwf Hpl Hf Hl Hrm Hsil.
    assert (Hw : wfp s) by (split; assumption).
    destruct (c12_keep s o k e Hw Hf Hsil) as [A B]. cbn zeta in *.
    destruct B as [e' He']; [exact Hrm | |].
    - destruct (is_maint o) eqn:Em; [right | left; reflexivity].
      rewrite (is_maint_now s o Em Hw) in Hl. auto.
    - exists e'. split; [exact He'|]. destruct (A e' He') as [H1 [H2 _]]. auto.
  Qed.

  (* without the patch: every operation except the maintenance passes *)
  Theorem c12_present_nonmaint s o k e :
    wfp s -> find s k = Some e -> removes o k = false -> silent o k = false -> is_maint o = false ->
    exists e', find (fst (step P c s o)) k = Some e' /\ e_id e' = e_id e /\ e_exp e' = e_exp e.
  Proof.
    intros Hw Hf Hrm Hsil Hm. destruct (c12_keep s o k e Hw Hf Hsil) as [A B]. cbn zeta in *.
    destruct B as [e' He']; [exact Hrm | left; exact Hm |].
    exists e'. split; [exact He'|]. destruct (A e' He') as [H1 [H2 _]]. auto.
  Qed.

  (* an entry that is there and live is returned by every read path *)
  Theorem c12_live_is_served s k e :
    find s k = Some e -> live c (st_now P s) e ->
    (forall hit, snd (do_read P c hit s k) = Some (e_val e))
    /\ snd (do_read_direct P c s k) = Some (e_val e)
    /\ occupied P c s k = Some e
    /\ computable P c s k = Some e
    /\ (forall ks, In k ks -> In k (map fst (snd (do_multiget_gen P (do_read P c true) s ks []))))
    /\ (forall ks, In k ks -> In k (map fst (snd (do_multiget_gen P (do_read_direct P c) s ks [])))).
  Proof.
    intros Hf Hl. apply expired_live in Hl. split; [|split; [|split; [|split; [|split]]]].
    - intros hit. unfold do_read. rewrite Hf, Hl. reflexivity.
    - unfold do_read_direct. rewrite Hf, Hl. reflexivity.
    - unfold occupied. rewrite Hf, Hl, andb_false_r. reflexivity.
    - unfold computable. rewrite Hf, Hl, andb_false_r. reflexivity.
    - intros ks Hi. destruct (do_multiget_gen P (do_read P c true) s ks []) as [s' l] eqn:E. cbn [snd].
      destruct (multiget_gen_spec P c Hn _ (do_read_rd_ok P c Hn true) ks s [] s' l E) as [_ [_ [Hc _]]].
      eapply Hc; eassumption.
    - intros ks Hi. destruct (do_multiget_gen P (do_read_direct P c) s ks []) as [s' l] eqn:E. cbn [snd].
      destruct (multiget_gen_spec P c Hn _ (do_read_direct_rd_ok P c Hn) ks s [] s' l E) as [_ [_ [Hc _]]].
      eapply Hc; eassumption.
  Qed.

  (* the deadline of a fresh incarnation: TTL from insertion, idle timer from now *)
  Theorem c12_deadline_set s k v cost :
    (exists h, find (do_insert P c s k v cost) k
               = Some (mkE v cost (ttl_exp c (st_now P s)) (la0 P c s) h (st_eid P s)))
    /\ (forall d, exists h, find (do_insert_ttl P c s k v cost d) k
                            = Some (mkE v cost (st_now P s + d) (la0 P c s) h (st_eid P s)))
    /\ (occupied P c s k = None ->
        find (fst (do_or_insert P c s k v cost)) k
        = Some (mkE v cost (ttl_exp c (st_now P s)) (la0 P c s) None (st_eid P s))).
  Proof.
    split; [|split].
    - destruct (do_insert_ueff P c Hn s k v cost) as [h H]. exists h. cbn zeta in H.
      rewrite (find_ueff_aput P c Hn _ _ _ _ _ _ k H), N.eqb_refl. reflexivity.
    - intros d. destruct (do_insert_ttl_ueff P c Hn s k v cost d) as [h H]. exists h. cbn zeta in H.
      rewrite (find_ueff_aput P c Hn _ _ _ _ _ _ k H), N.eqb_refl. reflexivity.
    - intros Ho. unfold do_or_insert. rewrite Ho. cbn [fst].
      pose proof (vacant_insert_ueff' P c Hn s k v cost) as H. cbn zeta in H.
      rewrite (find_ueff_aput P c Hn _ _ _ _ _ _ k H), N.eqb_refl. reflexivity.
  Qed.

  (* an operation that does not overwrite k leaves k's incarnation, deadline and cost alone;
     the idle timer moves only to [now], only by a refreshing read of a live entry *)
  Theorem c12_deadline_frame s o k e e' :
    wfp s -> find s k = Some e -> silent o k = false -> find (fst (step P c s o)) k = Some e' ->
    e_id e' = e_id e /\ e_exp e' = e_exp e /\ e_cost e' = e_cost e
    /\ (e_la e' = e_la e \/ (e_la e' = st_now P s /\ live c (st_now P s) e /\ refreshes o k = true)).
  Proof. intros Hw Hf Hsil He'. exact (proj1 (c12_keep s o k e Hw Hf Hsil) e' He'). Qed.
End C12.

(** * refutations on the code as found (no_fixes) *)
Definition c12_cfg (fx : fixes) : cfg := mkCfg 1 U64_MAX (Some 5) None 60 1 false true false false fx.

(* F-15 / F-33: insert with TTL 5, advance 5: the entry is expired, not yet collected *)
Definition c12_s0 (fx : fixes) : state LruP := state_after LruP (c12_cfg fx) 1000 [OInsert 1 100 1; OAdvance 5].

Lemma c12_served_refuted_F15 : ~ C12_served_live LruP (c12_cfg no_fixes).
Proof.
  intros H. destruct (H (c12_s0 no_fixes) (OEntryGet 1) 1 100) as [e [Hf [_ [Hl _]]]].
  - split; [reflexivity | vm_compute; reflexivity].
  - vm_compute in Hf. inversion Hf; subst. vm_compute in Hl. destruct Hl as [Hl|Hl]; discriminate.
Qed.

Lemma c12_served_refuted_F15_or_insert : ~ C12_served_live LruP (c12_cfg no_fixes).
Proof.
  intros H. destruct (H (c12_s0 no_fixes) (OEntryOrInsert 1 7 1) 1 100) as [e [Hf [_ [Hl _]]]].
  - split; [reflexivity|]. eexists. split; [vm_compute; reflexivity | reflexivity].
  - vm_compute in Hf. inversion Hf; subst. vm_compute in Hl. destruct Hl as [Hl|Hl]; discriminate.
Qed.

Lemma c12_served_refuted_F33 : ~ C12_served_live LruP (c12_cfg no_fixes).
Proof.
  intros H. destruct (H (c12_s0 no_fixes) (OComputeVal 1 FKeep) 1 100) as [e [Hf [_ [Hl _]]]].
  - split; [reflexivity | vm_compute; reflexivity].
  - vm_compute in Hf. inversion Hf; subst. vm_compute in Hl. destruct Hl as [Hl|Hl]; discriminate.
Qed.

(* F-16: TTL 5 (5 ticks); the sixth maintenance pass removes the entry at the instant it was inserted *)
Definition c12_s1 (fx : fixes) : state LruP :=
  state_after LruP (c12_cfg fx) 1000 [OInsert 1 100 1; OMaint []; OMaint []; OMaint []; OMaint []; OMaint []].

Lemma c12_present_refuted_F16 : ~ C12_present LruP (c12_cfg no_fixes).
Proof.
  intros H.
  assert (Hw : wfp LruP (c12_cfg no_fixes) (c12_s1 no_fixes)).
  { apply reachable_wfp; [reflexivity|]. exists 1000. eexists. reflexivity. }
  destruct (H eq_refl (c12_s1 no_fixes) (OMaint []) 1
              (mkE 100 1 1005 0 (Some 0) 0) (proj1 Hw) (proj2 Hw)) as [e' [Hf _]]; try reflexivity.
  - vm_compute. split; [right; reflexivity | intros d Hd; discriminate].
  - vm_compute in Hf. discriminate.
Qed.
