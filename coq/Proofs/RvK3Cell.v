(* Proofs/RvK3Cell.v — payload cells and record liveness of the K3' rendezvous model (C09):
   a registered frame's cell content is determined by its state, nothing is ever written through
   a record whose frame is gone, no frame ends while its record is linked: `bad` stays false. *)
From Coq Require Import List NArith Arith Bool Lia.
From Fibre Require Import Common.Conc Chan.RvK3 Proofs.RvK3Base Proofs.RvK3Queue.
Import ListNotations.

Definition cellok (s : st) (u : nat) : Prop :=
  match qrel (pcs s u) with
  | QLS | QXS =>
      match wstate s u with
      | W | X => cell s u = Some (cur s u)     (* not taken: the sender still owns its payload *)
      | D => cell s u = None                  (* a receiver took it under the lock *)
      | C => False                            (* sync senders never cancel *)
      end
  | QLR | QXR =>
      match wstate s u with
      | D => cell s u <> None                 (* DONE implies the sender wrote the item *)
      | _ => cell s u = None
      end
  | QN => cell s u = None
  end.

Record CInv (s : st) : Prop := {
  C_ok : forall u, cellok s u;
  C_bad : bad s = false
}.

Lemma CInv_init cfg : CInv (init cfg).
Proof. split; [intros u; unfold cellok; cbn; reflexivity | reflexivity]. Qed.

Lemma linked_live p : qrel p <> QN -> live p = true.
Proof. destruct p as [ | | | ? [| | |] | | | | | | | ? [| | |] | | | | | | | | | | | | | | | | ]; cbn; congruence. Qed.

Lemma in_sq_class s u : qok s u -> In u (sq s) -> qrel (pcs s u) = QLS /\ wstate s u = W.
Proof. unfold qok. destruct (qrel (pcs s u)); intuition. Qed.

Lemma in_rq_class s u : qok s u -> In u (rq s) -> qrel (pcs s u) = QLR /\ wstate s u = W.
Proof. unfold qok. destruct (qrel (pcs s u)); intuition. Qed.

Lemma CInv_step cfg s t c s' e :
  LockInv cfg s -> QInv cfg s -> CInv s -> step true cfg s t c = Some (s', e) -> CInv s'.
Proof.
  intros [L1 L2 L3] [N1 N2 X Qo Qf] [Co Cb] H.
  pose proof (Qo t) as Qt. pose proof (Co t) as Ct. pose proof (L2 t) as Xt. unfold qok in Qt. unfold cellok in Ct.
  step_cases H; rewrite Epc in Qt, Ct, Xt; cbn [qrel xpc] in Qt, Ct, Xt; try discriminate Xt.
  all: try solve [ split; fsimpl;
    [ intros u; pose proof (Co u) as Cu; unfold cellok, cur in *; fsimpl; split_thr u t; [cbn [qrel]|exact Cu];
      try match goal with E : wstate _ _ = _ |- _ => rewrite E in * end; try tauto; try congruence
    | rewrite Cb; cbn [orb];
      repeat match goal with |- context [mem ?a ?l] =>
        let M := fresh "M" in destruct (mem a l) eqn:M; [apply mem_In in M; tauto|] end;
      try match goal with E : wstate _ _ = _ |- _ => rewrite E in * end;
      try match goal with E : cell _ _ = _ |- _ => rewrite E in * end;
      cbn [is_some orb]; try reflexivity; try tauto; try congruence ] ].
  (* the lock holder pops the head n of a queue: n's frame is live, WAITING, its cell as expected *)
  all: match goal with
       | E : rq _ = ?n :: _ |- _ =>
           assert (Hn : In n (rq s)) by (rewrite E; left; reflexivity);
           destruct (in_rq_class _ _ (Qo n) Hn) as [Kn Wn]
       | E : sq _ = ?n :: _ |- _ =>
           assert (Hn : In n (sq s)) by (rewrite E; left; reflexivity);
           destruct (in_sq_class _ _ (Qo n) Hn) as [Kn Wn]
       end;
       match type of Hn with In ?n _ =>
         assert (Hnt : n <> t) by (intros ->; tauto);
         pose proof (Co n) as Cn; unfold cellok in Cn; rewrite Kn, Wn in Cn;
         assert (Hlive : live (pcs s n) = true) by (apply linked_live; congruence);
         split; fsimpl;
         [ intros u; pose proof (Co u) as Cu; unfold cellok, cur in *; fsimpl; split_thr u t;
           [ cbn [qrel]; rewrite ?upd_neq by congruence; exact Ct
           | split_thr u n; [ rewrite Kn; congruence | exact Cu ] ]
         | rewrite Cb, Hlive, ?Cn; reflexivity ]
       end.
Qed.
