(* Proofs/MpmcK3Life.v — milestone 2 of the K3' bounded-MPMC proofs: handle lifecycle.
   Typing of program counters by role, sender_count / receiver_count = number of threads whose
   handle has not yet given its count back (for every thread count), and C04: a receiver is told
   Disconnected only from a critical section that saw the ring empty and sender_count = 0
   (the F-08 repair, `redrain_on_close`), after which the channel stays empty for ever. *)
From Coq Require Import List NArith Arith Bool Lia Sorted.
From Fibre Require Import Common.Conc Chan.MpmcK3 Proofs.MpmcK3Base.
Import ListNotations.

(* ------------------------------------------------------------------ counting threads *)
Definition cnt (f : nat -> bool) (n : nat) : nat := length (filter f (seq 0 n)).
Definition b2n (b : bool) : nat := if b then 1 else 0.

Lemma cnt_ext f g n : (forall u, u < n -> f u = g u) -> cnt f n = cnt g n.
Proof.
  intros H. unfold cnt. f_equal. apply filter_ext_in. intros a Ha. apply in_seq in Ha. apply H. lia.
Qed.

Lemma filter_len_ext (f g : nat -> bool) l : (forall u, In u l -> f u = g u) -> length (filter f l) = length (filter g l).
Proof. intros H. f_equal. apply filter_ext_in. exact H. Qed.

Lemma cnt_upd f g n t :
  t < n -> (forall u, u <> t -> f u = g u) -> cnt f n + b2n (g t) = cnt g n + b2n (f t).
Proof.
  intros Ht H. unfold cnt.
  assert (E : seq 0 n = seq 0 t ++ t :: seq (S t) (n - S t)).
  { replace n with (t + (S (n - S t))) at 1 by lia. rewrite seq_app. cbn [seq plus]. reflexivity. }
  rewrite E. rewrite !filter_app, !app_length. cbn [filter].
  pose proof (filter_len_ext f g (seq 0 t)) as E1.
  pose proof (filter_len_ext f g (seq (S t) (n - S t))) as E2.
  rewrite E1 by (intros u Hu; apply in_seq in Hu; apply H; lia).
  destruct (f t), (g t); cbn [length b2n]; rewrite E2 by (intros u Hu; apply in_seq in Hu; apply H; lia); lia.
Qed.

Lemma cnt_zero f n : cnt f n = 0 -> forall u, u < n -> f u = false.
Proof.
  unfold cnt. intros H u Hu. destruct (f u) eqn:E; [|reflexivity].
  assert (X : In u (filter f (seq 0 n))) by (apply filter_In; split; [apply in_seq; lia|exact E]).
  destruct (filter f (seq 0 n)); [destruct X|discriminate].
Qed.

Lemma cnt_pos f n : cnt f n <> 0 -> exists u, u < n /\ f u = true.
Proof.
  unfold cnt. intros H. destruct (filter f (seq 0 n)) as [|a l] eqn:E; [exfalso; apply H; reflexivity|].
  assert (X : In a (filter f (seq 0 n))) by (rewrite E; left; reflexivity).
  apply filter_In in X. destruct X as [X1 X2]. apply in_seq in X1. exists a. split; [lia|exact X2].
Qed.

Lemma cnt_nth (f : tprog -> bool) l d k :
  length (filter f l) = length (filter (fun u => f (nth (u - k) l d)) (seq k (length l))).
Proof.
  revert k. induction l as [|a l IH]; intros k; [reflexivity|].
  cbn [length seq]. cbn [filter]. rewrite Nat.sub_diag. cbn [nth].
  destruct (f a); cbn [length]; [f_equal|]; rewrite (IH (S k)); apply filter_len_ext; intros u Hu;
    apply in_seq in Hu; replace (u - k) with (S (u - S k)) by lia; reflexivity.
Qed.

(* ------------------------------------------------------------------ typing of pcs, absent threads *)
Definition s_pc (p : pc) : bool :=
  match p with
  | SLock _ | SScan _ _ | SUnpark _ _ | SUnlock _ _ | SRegLock | SRegUnlock _ | SWLoad | SWNext | SFinal
  | SUnlLock _ | SUnlUnlock _ => true
  | _ => false
  end.
Definition r_pc (p : pc) : bool :=
  match p with
  | RLock _ | RScan _ _ _ | RUnpark _ _ _ | RUnlock _ _ | RRegLock _ | RRegUnlock _ _ | RWLoad | RWNext | RFinal
  | TWLoad | TWNext | TFinal | TCancelLock | TCancelUnlock | RUnlLock _ | RUnlUnlock _ | TDeafNext | TDeafLoad
  | Panicked => true
  | _ => false
  end.
(* the handle's count has been given back *)
Definition decd (p : pc) : bool :=
  match p with DScan _ _ _ | DUnlock _ | DUnpark _ | Done => true | _ => false end.

Definition alive_p (s : st) (u : nat) : bool := is_prod (prog s u) && negb (decd (pcs s u)).
Definition alive_c (s : st) (u : nat) : bool := negb (is_prod (prog s u)) && negb (decd (pcs s u)).

Record InvT (n : nat) (s : st) : Prop := {
  T_s : forall u, s_pc (pcs s u) = true -> is_prod (prog s u) = true;
  T_r : forall u, r_pc (pcs s u) = true -> is_prod (prog s u) = false;
  T_abs : forall u, n <= u -> pcs s u = Done;
  T_scnt : scnt s = cnt (alive_p s) n;
  T_rcnt : rcnt s = cnt (alive_c s) n;
  T_hcl : forall u, hcl s u = true -> pcs s u = DLock \/ decd (pcs s u) = true }.

Lemma next_prog_role p r : is_prod (next_prog p r) = is_prod p.
Proof. destruct p as [l|l]; [reflexivity|]. cbn. destruct l as [|[] l]; try reflexivity. destruct r; reflexivity. Qed.

Ltac dlock_count t Htn Epc :=
    let CU := fresh "CU" in let CU' := fresh "CU'" in
    match goal with
    | |- scnt ?s0 - 1 = cnt (alive_p ?s') ?n0 =>
        pose proof (cnt_upd (alive_p s0) (alive_p s') n0 t Htn) as CU
    | |- rcnt ?s0 - 1 = cnt (alive_c ?s') ?n0 =>
        pose proof (cnt_upd (alive_c s0) (alive_c s') n0 t Htn) as CU
    end;
    unfold alive_p, alive_c in CU; fsimpl; rewrite !upd_eq, Epc in CU;
    match goal with HH : is_prod (prog _ t) = _ |- _ => rewrite HH in CU end;
    cbn [decd negb andb b2n] in CU;
    (assert (CU' := CU ltac:(intros uu Nuu; rewrite !upd_neq by exact Nuu; reflexivity)));
    unfold alive_p, alive_c in *; fsimpl; lia.

Lemma InvT_step n cap cf s t c s' e :
  InvT n s -> step cap cf s t c = Some (s', e) -> InvT n s'.
Proof.
  intros [T1 T2 T3 T4 T5 T6] H.
  pose proof (T1 t) as T1t. pose proof (T2 t) as T2t. pose proof (T6 t) as T6t.
  assert (Htn : t < n).
  { destruct (Nat.lt_ge_cases t n) as [X|X]; [exact X|]. apply T3 in X. unfold step in H. rewrite X in H. discriminate. }
  step_cases H; cbn [s_pc r_pc] in *.
  all: try solve [ exfalso; destruct (T6t eq_refl) as [X|X]; discriminate X ].
  all: constructor; fsimpl.
  all: repeat match goal with |- context [match ?x with Recv => _ | _ => _ end] => destruct x end.
  all: try solve [ intros uu X; split_thr uu t;
                   [ cbn [decd]; first [ left; reflexivity | right; reflexivity
                                       | exfalso; destruct (T6t X) as [Y|Y]; discriminate Y | congruence ]
                   | apply T6; exact X ] ].
  (* typing *)
  all: try solve [ intros uu X; split_thr uu t; cbn [s_pc r_pc] in X; try discriminate X; rewrite ?next_prog_role;
                   first [ apply T1; exact X | apply T2; exact X | reflexivity
                         | apply T1t; reflexivity | apply T2t; reflexivity
                         | match goal with HH : prog _ _ = _ |- _ => rewrite ?HH end; reflexivity ] ].
  all: try solve [ intros uu X; split_thr uu t; [ lia | apply T3; exact X ] ].
  (* counts: aliveness unchanged *)
  all: try solve [ first [ etransitivity; [exact T4|] | etransitivity; [exact T5|] ]; apply cnt_ext; intros uu Huu; unfold alive_p, alive_c; fsimpl;
                   split_thr uu t; rewrite ?next_prog_role; rewrite ?Epc;
                   try match goal with HH : prog _ _ = _ |- _ => rewrite ?HH end;
                   try match goal with HH : is_prod (prog _ _) = _ |- _ => rewrite ?HH end;
                   cbn [decd is_prod negb andb]; rewrite ?andb_false_r; reflexivity ].
  all: try solve [ dlock_count t Htn Epc ].

Qed.

Ltac nil_facts := repeat match goal with
  | H : negb _ = false |- _ => apply negb_false_iff in H
  | H : isnil _ = true |- _ => apply isnil_true in H
  end.

Record InvD (s : st) : Prop := {
  D_try : forall u k, pcs s u = RUnlock k RDisc -> q s = [] /\ scnt s = 0;
  D_reg : forall u tm, pcs s u = RRegUnlock tm GoClosed -> q s = [] /\ scnt s = 0;
  D_ok : discbad s = false }.

Lemma InvD_step cap cf s t c s' e :
  redrain_on_close cf = true -> InvL s -> InvD s -> step cap cf s t c = Some (s', e) -> InvD s'.
Proof.
  intros Hcf HL [D1 D2 D3] H.
  pose proof (proj1 HL t) as L1t. pose proof (D1 t) as D1t. pose proof (D2 t) as D2t.
  step_cases H; cbn [in_sec] in L1t.
  all: try congruence.
  all: constructor; fsimpl.
  all: try solve [ intros uu k0 X; split_thr uu t;
         [ try discriminate X; arith_facts; nil_facts; split; solve [ assumption | reflexivity ]
         | first [ eapply D1; eassumption | eapply D2; eassumption | kill_other HL L1t X ] ] ].
  all: try solve [ assumption ].
  all: try solve [ first [ destruct (D1t _ eq_refl) as [Y1 Y2] | destruct (D2t _ eq_refl) as [Y1 Y2] ];
                   rewrite Y1, Y2, D3; reflexivity ].
Qed.

(* ------------------------------------------------------------------ initial state, lifting *)
Lemma InvT_init th : InvT (length th) (init th).
Proof.
  constructor; cbn [init pcs prog scnt rcnt hcl].
  - intros u X. destruct (Nat.ltb u (length th)); discriminate.
  - intros u X. destruct (Nat.ltb u (length th)); discriminate.
  - intros u Hu. destruct (Nat.ltb_spec u (length th)); [lia|reflexivity].
  - unfold count_prod. rewrite (cnt_nth is_prod th (TCons []) 0). apply filter_len_ext.
    intros u Hu. apply in_seq in Hu. unfold alive_p. cbn [init pcs prog].
    destruct (Nat.ltb_spec u (length th)); [|lia]. rewrite Nat.sub_0_r. cbn [decd negb]. rewrite andb_true_r. reflexivity.
  - unfold count_cons. rewrite (cnt_nth (fun p => negb (is_prod p)) th (TCons []) 0). apply filter_len_ext.
    intros u Hu. apply in_seq in Hu. unfold alive_c. cbn [init pcs prog].
    destruct (Nat.ltb_spec u (length th)); [|lia]. rewrite Nat.sub_0_r. cbn [decd negb]. rewrite andb_true_r. reflexivity.
  - intros u X. discriminate.
Qed.

Lemma InvD_init th : InvD (init th).
Proof.
  constructor; cbn [init pcs discbad]; try reflexivity.
  - intros u k X. destruct (Nat.ltb u (length th)); discriminate.
  - intros u k X. destruct (Nat.ltb u (length th)); discriminate.
Qed.

Definition Inv2 (n : nat) (s : st) : Prop := InvL s /\ InvT n s /\ InvD s.

Lemma Inv2_reachable cap cf th s :
  redrain_on_close cf = true -> reachable (sys cap cf th) s -> Inv2 (length th) s.
Proof.
  intros Hcf. apply (invariant_lift (sys cap cf th) (Inv2 (length th))).
  - split; [apply InvL_init|split; [apply InvT_init|apply InvD_init]].
  - intros s0 t c s' e (HL & HT & HD) H. change (step cap cf s0 t c = Some (s', e)) in H. split; [|split].
    + eapply InvL_step; eassumption.
    + eapply InvT_step; eassumption.
    + eapply InvD_step; eassumption.
Qed.

Lemma InvT_reachable cap cf th s : reachable (sys cap cf th) s -> InvL s /\ InvT (length th) s.
Proof.
  apply (invariant_lift (sys cap cf th) (fun s => InvL s /\ InvT (length th) s)).
  - split; [apply InvL_init|apply InvT_init].
  - intros s0 t c s' e (HL & HT) H. change (step cap cf s0 t c = Some (s', e)) in H. split.
    + eapply InvL_step; eassumption.
    + eapply InvT_step; eassumption.
Qed.

(* ------------------------------------------------------------------ Disconnected is final *)
Lemma s_pc_not_decd p : s_pc p = true -> decd p = false.
Proof. destruct p; cbn; congruence. Qed.

Lemma final_step n cap cf s t c s' e :
  InvT n s -> q s = [] -> scnt s = 0 -> step cap cf s t c = Some (s', e) -> q s' = [] /\ scnt s' = 0.
Proof.
  intros HT Hq Hs H.
  assert (Htn : t < n).
  { destruct (Nat.lt_ge_cases t n) as [X|X]; [exact X|]. apply (T_abs _ _ HT) in X. unfold step in H. rewrite X in H. discriminate. }
  assert (Hna : s_pc (pcs s t) = true -> False).
  { intros X. pose proof (T_s _ _ HT t X) as P. pose proof (s_pc_not_decd _ X) as D.
    pose proof (T_scnt _ _ HT) as C. rewrite Hs in C. symmetry in C.
    pose proof (cnt_zero _ _ C t Htn) as Z. unfold alive_p in Z. rewrite P, D in Z. discriminate Z. }
  step_cases H; cbn [s_pc] in Hna.
  all: try solve [ exfalso; apply Hna; reflexivity ].
  all: fsimpl; try solve [ split; [assumption|lia] ].
  all: congruence.
Qed.

Section Theorems.
  Variables (cap : nat) (cf : cfg) (th : list tprog) (s : st).
  Hypothesis Hr : reachable (sys cap cf th) s.

  (* sender_count / receiver_count are exactly the numbers of producer / consumer threads whose
     handle has not yet been closed under the lock *)
  Theorem counts :
    scnt s = cnt (alive_p s) (length th) /\ rcnt s = cnt (alive_c s) (length th).
  Proof. destruct (InvT_reachable cap cf th s Hr) as [_ HT]. split; [apply (T_scnt _ _ HT)|apply (T_rcnt _ _ HT)]. Qed.

  (* C04 (the F-08 repair): with the re-drain after a close wake-up, every Disconnected answer is
     given from a critical section in which the ring was empty and sender_count = 0 *)
  Theorem disconnected_is_justified :
    redrain_on_close cf = true ->
    discbad s = false /\
    (forall u k, pcs s u = RUnlock k RDisc -> lk s = Some u /\ q s = [] /\ scnt s = 0) /\
    (forall u tm, pcs s u = RRegUnlock tm GoClosed -> lk s = Some u /\ q s = [] /\ scnt s = 0).
  Proof.
    intros Hcf. destruct (Inv2_reachable cap cf th s Hcf Hr) as (HL & HT & HD). split; [apply (D_ok _ HD)|split].
    - intros u k X. split; [apply (proj1 HL); rewrite X; reflexivity|eapply (D_try _ HD); eassumption].
    - intros u tm X. split; [apply (proj1 HL); rewrite X; reflexivity|eapply (D_reg _ HD); eassumption].
  Qed.

  (* ... and that state is final: once the ring is empty with no sender left, no schedule ever
     puts a value into it again (so nobody obtains a value after a justified Disconnected) *)
  Theorem disconnected_is_final :
    q s = [] -> scnt s = 0 -> forall sch, let s' := fst (run (sys cap cf th) s sch) in q s' = [] /\ scnt s' = 0.
  Proof.
    intros Hq Hs sch. cbn zeta.
    assert (G : forall sch s0, (InvL s0 /\ InvT (length th) s0) -> q s0 = [] -> scnt s0 = 0 ->
                  q (fst (run (sys cap cf th) s0 sch)) = [] /\ scnt (fst (run (sys cap cf th) s0 sch)) = 0).
    { induction sch0 as [|[t c] r IH]; intros s0 HI Hq0 Hs0; cbn [run fst]; [split; assumption|].
      change (Conc.step (sys cap cf th) s0 t c) with (step cap cf s0 t c).
      destruct (step cap cf s0 t c) as [[s1 e1]|] eqn:E.
      - destruct HI as [HL HT]. destruct (final_step _ _ _ _ _ _ _ _ HT Hq0 Hs0 E) as [Hq1 Hs1].
        assert (HI1 : InvL s1 /\ InvT (length th) s1).
        { split; [eapply InvL_step; eassumption|eapply InvT_step; eassumption]. }
        specialize (IH s1 HI1 Hq1 Hs1). destruct (run (sys cap cf th) s1 r). exact IH.
      - apply IH; assumption. }
    apply G; [apply (InvT_reachable cap cf th s Hr)|assumption|assumption].
  Qed.
End Theorems.
