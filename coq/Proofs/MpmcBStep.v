(* Proofs/MpmcBStep.v — every step of the bounded-MPMC K2 model preserves the invariant. *)
From Fibre Require Import Common.Base Chan.MpmcB Proofs.MpmcBBase Proofs.MpmcBInv.
From Coq Require Import ZifyBool ZifyNat ZifyN.

Definition reset (s : st) : st := with_bad false (with_dk [] (with_wk [] s)).

Lemma Inv_reset s : Inv s -> Inv (reset s).
Proof. intros H. unfold reset. apply InvH_with_bad, InvH_with_dk, InvH_with_wk. exact H. Qed.

Lemma any_live_true s h x : InvW s -> getH h s = Some x -> h_live x = true -> any_live s = true.
Proof.
  intros HW Hg Hl. unfold any_live. apply (live_exists (hs s) (w_hnd s HW)). exists h, x. auto.
Qed.

(** * handle lifecycle *)
Lemma add_handle hand s h2 x' sc' rc' :
  InvH hand s -> getH h2 s = None -> h_live x' = true ->
  (exists h x, getH h s = Some x /\ h_live x = true) ->
  (sc' = 0 -> sc s = 0) -> (rc' = 0 -> rc s = 0) ->
  (t07 (tn s) = false ->
     sc' = sc s + N.of_nat (b2n (open_tx x')) /\ rc' = rc s + N.of_nat (b2n (open_rx x'))) ->
  InvH hand (with_hs (aset h2 x' (hs s)) (with_sc sc' (with_rc rc' s))).
Proof.
  intros H Hn Hl [h [x [Hg Hlx]]] Hsc Hrc Hc.
  pose proof (proj1 (proj2 H)) as HW. pose proof (proj2 (proj2 H)) as HK.
  eapply InvH_ext; [|apply (InvH_handles hand (aset h2 x' (hs s)) sc' rc' (freed s) s H)]; [core_eq_refl|..].
  - apply NoDup_aset. apply (w_hnd s HW).
  - intros f y Hy Hly. destruct (w_fh s HW f y Hy Hly) as [z [Hz Hlz]]. exists z. split; [|exact Hlz].
    rewrite aget_aset_other; [exact Hz|]. intros E. unfold getH in *. congruence.
  - intros E. apply (w_sc0 s HW). auto.
  - intros E. apply (w_rc0 s HW). auto.
  - rewrite (w_freed s HW). rewrite (any_live_true s h x HW Hg Hlx).
    assert (Ex : existsb (fun e : N * handle => h_live (snd e)) (aset h2 x' (hs s)) = true).
    { apply (live_exists _ (NoDup_aset h2 x' (hs s) (w_hnd s HW))). exists h2, x'. split; [apply aget_aset_same | exact Hl]. }
    rewrite Ex. reflexivity.
  - intros T. destruct (k_cnt s HK T) as [A B]. destruct (Hc T) as [C D].
    rewrite (cnt_aset_new open_tx h2 x' _ Hn), (cnt_aset_new open_rx h2 x' _ Hn). clear - A B C D. lia.
Qed.

Lemma step_clone s h h2 : Inv s -> Inv (fst (step s (Clone h h2))).
Proof.
  intros H0. apply Inv_reset in H0. unfold step. fold (reset s). set (s1 := reset s) in *. clearbody s1.
  destruct (getH h s1) as [x|] eqn:Hg; [|exact H0].
  destruct (h_live x) eqn:Hl; cbn [negb]; [|exact H0].
  destruct (getH h2 s1) eqn:Hg2; [exact H0|].
  cbn [ret fst].
  pose proof (proj1 (proj2 H0)) as HW.
  destruct (h_closed x && fx33 (fx s1)) eqn:Ec.
  - (* repaired clone of a closed handle *)
    eapply InvH_ext; [|apply (add_handle [] s1 h2 (mkH (h_tx x) (h_async x) true true) (sc s1) (rc s1) H0 Hg2 eq_refl)].
    + core_eq_refl.
    + eauto.
    + auto.
    + auto.
    + intros _. unfold open_tx, open_rx, b2n. cbn. lia.
  - assert (Ht : InvH [] (taint set_t33 (h_closed x) s1)).
    { apply InvH_taint; [exact H0 | apply tle_set_t33 |].
      intros E. apply ok_set_t33; [apply (w_taint s1 HW)|].
      rewrite E in Ec. cbn in Ec. exact Ec. }
    set (s2 := taint set_t33 (h_closed x) s1) in *.
    assert (E2 : hs s2 = hs s1 /\ sc s2 = sc s1 /\ rc s2 = rc s1).
    { subst s2. unfold taint. destruct (h_closed x); st_simpl; auto. }
    destruct E2 as (Eh & Es & Er).
    assert (Hg2' : getH h2 s2 = None) by (unfold getH in *; congruence).
    assert (Hg' : getH h s2 = Some x) by (unfold getH in *; congruence).
    assert (T7 : t07 (tn s2) = false -> t07 (tn s1) = false).
    { subst s2. unfold taint. destruct (h_closed x); st_simpl; auto. }
    destruct (h_tx x) eqn:Etx.
    + eapply InvH_ext; [|apply (add_handle [] s2 h2 (mkH true (h_async x) false true) (sc s2 + 1) (rc s2) Ht Hg2' eq_refl)].
      * core_eq_refl.
      * eauto.
      * clear. lia.
      * auto.
      * intros _. unfold open_tx, open_rx, b2n. cbn. clear. lia.
    + eapply InvH_ext; [|apply (add_handle [] s2 h2 (mkH false (h_async x) false true) (sc s2) (rc s2 + 1) Ht Hg2' eq_refl)].
      * core_eq_refl.
      * eauto.
      * auto.
      * clear. lia.
      * intros _. unfold open_tx, open_rx, b2n. cbn. clear. lia.
Qed.

Lemma mark_all_comm new l : forall s a b c d,
  mark_all new l (with_freed d (with_hs a (with_sc b (with_rc c s))))
  = with_freed d (with_hs a (with_sc b (with_rc c (mark_all new l s)))).
Proof.
  induction l as [|[f w] t IH]; intros s a b c d; cbn [mark_all]; [reflexivity|].
  change (getF f (with_freed d (with_hs a (with_sc b (with_rc c s))))) with (getF f s).
  destruct (getF f s) as [x|]; [|apply IH].
  destruct (is_waiting (f_state x)); [|apply IH].
  rewrite <- IH. f_equal. unfold mark_bad. destruct (negb (f_live x)); reflexivity.
Qed.

Lemma frameM_getH s s' h : frameM s s' -> getH h s' = getH h s.
Proof. unfold frameM, getH. intros (_&_&_&_&_&_&_&E&_). rewrite E. reflexivity. Qed.

(* what the marking loop does not change about the futures *)
Definition same_futs (s s' : st) : Prop :=
  forall f y', getF f s' = Some y' ->
    exists y, getF f s = Some y /\ f_live y' = f_live y /\ f_h y' = f_h y /\ f_recv y' = f_recv y
              /\ f_item y' = f_item y /\ f_done y' = f_done y /\ f_reg y' = f_reg y.

Lemma same_futs_refl s : same_futs s s.
Proof. intros f y Hy. exists y. repeat split; auto. Qed.

Lemma same_futs_trans a b c : same_futs a b -> same_futs b c -> same_futs a c.
Proof.
  intros H1 H2 f y Hy. destruct (H2 f y Hy) as [y1 [Hy1 (A&B&C&D&E&F)]].
  destruct (H1 f y1 Hy1) as [y0 [Hy0 (A0&B0&C0&D0&E0&F0)]]. exists y0. repeat split; congruence.
Qed.

Lemma same_futs_setF_state f x w s : getF f s = Some x -> same_futs s (setF f (set_state w x) s).
Proof.
  intros Hg f1 y Hy. rewrite getF_setF in Hy. destruct (N.eqb_spec f1 f) as [->|]; [|eauto 10].
  inversion Hy; subst. exists x. repeat split; auto.
Qed.

Lemma same_futs_core s s' : fs s' = fs s -> same_futs s s'.
Proof. intros E f y Hy. unfold getF in *. rewrite E in Hy. exists y. repeat split; auto. Qed.

Lemma mark_all_same_futs new l : forall s, same_futs s (mark_all new l s).
Proof.
  induction l as [|[f w] t IH]; intros s; cbn [mark_all]; [apply same_futs_refl|].
  destruct (getF f s) as [x|] eqn:Hg; [|apply IH].
  destruct (is_waiting (f_state x)); [|apply IH].
  eapply same_futs_trans; [|apply IH].
  eapply same_futs_trans; [apply (same_futs_setF_state f x new s Hg)|].
  apply same_futs_core. unfold mark_bad. destruct (negb (f_live x)); reflexivity.
Qed.

Lemma borrowed_same_futs h s s' :
  InvW s -> InvW s' -> same_futs s s' -> borrowed h s = false -> borrowed h s' = false.
Proof.
  intros HW HW' Hs Hb. unfold borrowed in *. apply not_true_iff_false. intros Ht.
  apply existsb_exists in Ht. destruct Ht as [[f y'] [Hi Hp]]. cbn [snd] in Hp.
  apply andb_prop in Hp. destruct Hp as [Hl Hh]. apply N.eqb_eq in Hh.
  assert (Hg' : getF f s' = Some y') by (apply In_aget; [apply (w_fnd s' HW') | exact Hi]).
  destruct (Hs f y' Hg') as [y [Hy (A&B&_)]].
  assert (existsb (fun e => f_live (snd e) && (f_h (snd e) =? h)) (fs s) = true); [|congruence].
  apply existsb_exists. exists (f, y). split; [apply aget_In; exact Hy|]. cbn [snd].
  rewrite <- A, Hl, <- B, Hh, N.eqb_refl. reflexivity.
Qed.

(* the handle-table update of close(): flag set, count decremented *)
Lemma close_update hand s h x sc' rc' :
  InvH hand s -> getH h s = Some x -> h_live x = true -> h_closed x = false ->
  (sc' = 0 -> forall f w y, In (f, w) (arq s) -> getF f s = Some y -> is_waiting (f_state y) = false) ->
  (rc' = 0 -> forall f w y, In (f, w) (asq s) -> getF f s = Some y -> is_waiting (f_state y) = false) ->
  (t07 (tn s) = false -> sc' + N.of_nat (b2n (h_tx x)) = sc s /\ rc' + N.of_nat (b2n (negb (h_tx x))) = rc s) ->
  InvH hand (with_freed (freed s) (with_hs (aset h (set_closed true x) (hs s)) (with_sc sc' (with_rc rc' s)))).
Proof.
  intros H Hg Hl Hc Hsc Hrc Hcnt.
  pose proof (proj1 (proj2 H)) as HW. pose proof (proj2 (proj2 H)) as HK.
  apply InvH_handles; try assumption.
  - apply NoDup_aset. apply (w_hnd s HW).
  - intros f y Hy Hly. destruct (w_fh s HW f y Hy Hly) as [z [Hz Hlz]]. rewrite aget_aset.
    destruct (N.eqb_spec (f_h y) h) as [E|]; [|eauto].
    exists (set_closed true x). split; [reflexivity|].
    rewrite E in Hz. rewrite Hg in Hz. inversion Hz; subst z. exact Hlz.
  - rewrite (w_freed s HW). f_equal. unfold any_live. symmetry.
    apply existsb_aset with x; [apply (w_hnd s HW) | exact Hg | reflexivity].
  - intros T. destruct (k_cnt s HK T) as [A B]. destruct (Hcnt T) as [C D].
    pose proof (cnt_hs open_tx h x (set_closed true x) (hs s) (w_hnd s HW) Hg) as P1.
    pose proof (cnt_hs open_rx h x (set_closed true x) (hs s) (w_hnd s HW) Hg) as P2.
    unfold open_tx, open_rx, set_closed, b2n in *. cbn [h_live h_closed h_tx] in *.
    rewrite Hl, Hc in *. cbn [negb andb] in *. clear - A B C D P1 P2. destruct (h_tx x); cbn [negb] in *; lia.
Qed.

Lemma canon_sc n h y s :
  with_sc n (setH h y s) = with_freed (freed s) (with_hs (aset h y (hs s)) (with_sc n (with_rc (rc s) s))).
Proof. destruct s; reflexivity. Qed.

Lemma canon_rc n h y s :
  with_rc n (setH h y s) = with_freed (freed s) (with_hs (aset h y (hs s)) (with_sc (sc s) (with_rc n s))).
Proof. destruct s; reflexivity. Qed.

Lemma canon_0 h y s :
  setH h y s = with_freed (freed s) (with_hs (aset h y (hs s)) (with_sc (sc s) (with_rc (rc s) s))).
Proof. destruct s; reflexivity. Qed.

Definition close_post (h : N) (x : handle) (s s' : st) : Prop :=
  same_futs s s' /\ (forall h1, h1 <> h -> getH h1 s' = getH h1 s)
  /\ (exists y, getH h s' = Some y /\ h_live y = true /\ h_closed y = true /\ h_tx y = h_tx x /\ h_async y = h_async x)
  /\ q s' = q s /\ next s' = next s /\ recvd s' = recvd s /\ acc s' = acc s /\ back s' = back s
  /\ dropped s' = dropped s /\ tn s' = tn s /\ fx s' = fx s /\ cap s' = cap s /\ dk s' = dk s.

Lemma close_post_intro h x s s' :
  h_live x = true -> same_futs s s' -> hs s' = aset h (set_closed true x) (hs s) ->
  (q s' = q s /\ next s' = next s /\ recvd s' = recvd s /\ acc s' = acc s /\ back s' = back s
   /\ dropped s' = dropped s /\ tn s' = tn s /\ fx s' = fx s /\ cap s' = cap s /\ dk s' = dk s) ->
  close_post h x s s'.
Proof.
  intros Hl Hs E F. unfold close_post. split; [exact Hs|]. unfold getH. rewrite E. split.
  - intros h1 Hne. apply aget_aset_other. exact Hne.
  - split; [|exact F]. exists (set_closed true x). rewrite aget_aset_same. cbn. auto.
Qed.

Lemma getH_canon h1 a b c d s : getH h1 (with_freed d (with_hs a (with_sc b (with_rc c s)))) = aget h1 a.
Proof. reflexivity. Qed.

Lemma do_close_inv h x s :
  Inv s -> getH h s = Some x -> h_live x = true ->
  Inv (fst (do_close h x s)) /\ close_post h x s (fst (do_close h x s)).
Proof.
  intros H Hg Hl. unfold do_close.
  pose proof (proj1 (proj2 H)) as HW. pose proof (proj2 (proj2 H)) as HK.
  destruct (h_closed x) eqn:Hc; cbn [fst].
  { split; [exact H|]. unfold close_post. split; [apply same_futs_refl|]. split; [auto|].
    split; [exists x; auto|]. repeat split. }
  set (xc := set_closed true x).
  destruct (h_tx x) eqn:Htx.
  - (* a sender handle *)
    unfold close_tx. change (sc (setH h xc s)) with (sc s).
    destruct (N.eqb_spec (sc s) 0) as [E0|E0]; cbn [fst].
    + (* count underflow: only possible after the F-07 event *)
      rewrite canon_0. split.
      * apply close_update; try assumption.
        -- intros _. apply (w_sc0 s HW E0).
        -- apply (w_rc0 s HW).
        -- intros T. exfalso. destruct (k_cnt s HK T) as [A _].
           assert (0 < cnt open_tx (hs s))%nat.
           { apply cnt_pos with h x; [apply aget_In; exact Hg|]. unfold open_tx. rewrite Hl, Hc, Htx. reflexivity. }
           clear - A E0 H0. lia.
      * apply (close_post_intro h x _ _ Hl); [apply same_futs_core; reflexivity | reflexivity | repeat split].
    + change (sc (with_sc (sc s - 1) (setH h xc s))) with (sc s - 1).
      change (arq (with_sc (sc s - 1) (setH h xc s))) with (arq s).
      rewrite canon_sc.
      destruct (N.eqb_spec (sc s - 1) 0) as [E1|E1].
      * rewrite mark_all_comm.
        destruct (mark_all_spec [] (arq s) s H) as [A [B [C D]]]. cbv zeta in *.
        set (sm := mark_all WClosed (arq s) s) in *.
        pose proof B as (F1&F2&F3&F4&F5&F6&F7&F8&F9&F10&F11&F12&F13&F14&F15&F16).
        assert (Hgm : getH h sm = Some x) by (rewrite (frameM_getH s sm h B); exact Hg).
        split.
        -- rewrite <- F8, <- F14, <- F5.
           apply close_update; try assumption.
           ++ intros _ f w y Hi Hy. rewrite F7 in Hi. eapply D; eauto.
           ++ rewrite F5. intros E. rewrite F6. intros f w y Hi Hy.
              destruct (C f y Hy) as [y0 [Hy0 Hsame]].
              destruct (is_waiting (f_state y)) eqn:Ew; [|reflexivity].
              rewrite (Hsame eq_refl) in Ew. rewrite (w_rc0 s HW E f w y0 Hi Hy0) in Ew. discriminate.
           ++ rewrite F15, F4, F5. intros T. rewrite Htx. cbn [b2n negb]. clear - E0 E1. lia.
        -- apply (close_post_intro h x _ _ Hl);
             [apply same_futs_trans with sm; [apply mark_all_same_futs | apply same_futs_core; reflexivity]
             | reflexivity | st_simpl; repeat split; assumption].
      * split.
        -- apply close_update; try assumption.
           ++ intros E. contradiction.
           ++ apply (w_rc0 s HW).
           ++ intros T. rewrite Htx. cbn [b2n negb]. clear - E0. lia.
        -- apply (close_post_intro h x _ _ Hl); [apply same_futs_core; reflexivity | reflexivity | repeat split].
  - (* a receiver handle *)
    unfold close_rx. change (rc (setH h xc s)) with (rc s).
    destruct (N.eqb_spec (rc s) 0) as [E0|E0]; cbn [fst].
    + rewrite canon_0. split.
      * apply close_update; try assumption.
        -- apply (w_sc0 s HW).
        -- intros _. apply (w_rc0 s HW E0).
        -- intros T. exfalso. destruct (k_cnt s HK T) as [_ A].
           assert (0 < cnt open_rx (hs s))%nat.
           { apply cnt_pos with h x; [apply aget_In; exact Hg|]. unfold open_rx. rewrite Hl, Hc, Htx. reflexivity. }
           clear - A E0 H0. lia.
      * apply (close_post_intro h x _ _ Hl); [apply same_futs_core; reflexivity | reflexivity | repeat split].
    + change (rc (with_rc (rc s - 1) (setH h xc s))) with (rc s - 1).
      change (asq (with_rc (rc s - 1) (setH h xc s))) with (asq s).
      rewrite canon_rc.
      destruct (N.eqb_spec (rc s - 1) 0) as [E1|E1].
      * rewrite mark_all_comm.
        destruct (mark_all_spec [] (asq s) s H) as [A [B [C D]]]. cbv zeta in *.
        set (sm := mark_all WClosed (asq s) s) in *.
        pose proof B as (F1&F2&F3&F4&F5&F6&F7&F8&F9&F10&F11&F12&F13&F14&F15&F16).
        assert (Hgm : getH h sm = Some x) by (rewrite (frameM_getH s sm h B); exact Hg).
        split.
        -- rewrite <- F8, <- F14, <- F4.
           apply close_update; try assumption.
           ++ rewrite F4. intros E. rewrite F7. intros f w y Hi Hy.
              destruct (C f y Hy) as [y0 [Hy0 Hsame]].
              destruct (is_waiting (f_state y)) eqn:Ew; [|reflexivity].
              rewrite (Hsame eq_refl) in Ew. rewrite (w_sc0 s HW E f w y0 Hi Hy0) in Ew. discriminate.
           ++ intros _ f w y Hi Hy. rewrite F6 in Hi. eapply D; eauto.
           ++ rewrite F15, F4, F5. intros T. rewrite Htx. cbn [b2n negb]. clear - E0 E1. lia.
        -- apply (close_post_intro h x _ _ Hl);
             [apply same_futs_trans with sm; [apply mark_all_same_futs | apply same_futs_core; reflexivity]
             | reflexivity | st_simpl; repeat split; assumption].
      * (* not the last receiver: nudge the front parked sender *)
        destruct (asq s) as [|[f w] t] eqn:Ea.
        { split.
          - apply close_update; try assumption.
            + apply (w_sc0 s HW).
            + intros E. contradiction.
            + intros T. rewrite Htx. cbn [b2n negb]. clear - E0. lia.
          - apply (close_post_intro h x _ _ Hl); [apply same_futs_core; reflexivity | reflexivity | repeat split]. }
        change (getF f (with_freed (freed s) (with_hs (aset h xc (hs s)) (with_sc (sc s) (with_rc (rc s - 1) s))))) with (getF f s).
        assert (Hbase : InvH [] (with_freed (freed s) (with_hs (aset h xc (hs s)) (with_sc (sc s) (with_rc (rc s - 1) s))))).
        { apply close_update; try assumption.
          - apply (w_sc0 s HW).
          - intros E. contradiction.
          - intros T. rewrite Htx. cbn [b2n negb]. clear - E0. lia. }
        destruct (getF f s) as [y|] eqn:Hy.
        2:{ split; [exact Hbase|].
            apply (close_post_intro h x _ _ Hl); [apply same_futs_core; reflexivity | reflexivity | repeat split]. }
        destruct (is_waiting (f_state y)) eqn:Ew.
        2:{ split; [exact Hbase|].
            apply (close_post_intro h x _ _ Hl); [apply same_futs_core; reflexivity | reflexivity | repeat split]. }
        set (s2 := with_freed (freed s) (with_hs (aset h xc (hs s)) (with_sc (sc s) (with_rc (rc s - 1) s)))) in *.
        assert (Hi2 : In (f, w) (asq s2)) by (change (asq s2) with (asq s); rewrite Ea; left; reflexivity).
        assert (Hy2 : getF f s2 = Some y) by exact Hy.
        destruct (InvH_woken_s true [] f w y s2 Hbase Hi2 Hy2 Ew) as [A _].
        split.
        -- apply InvH_mark_bad. eapply InvH_ext; [|exact A]. unfold woken_s. core_eq_refl.
        -- apply (close_post_intro h x _ _ Hl).
           ++ eapply same_futs_trans; [apply (same_futs_setF_state f y Success s Hy)|].
              apply same_futs_core. unfold mark_bad. destruct (negb (f_live y)); reflexivity.
           ++ unfold mark_bad. destruct (negb (f_live y)); reflexivity.
           ++ unfold mark_bad. destruct (negb (f_live y)); repeat split.
Qed.

Lemma step_close s h : Inv s -> Inv (fst (step s (Close h))).
Proof.
  intros H0. apply Inv_reset in H0. unfold step. fold (reset s). set (s1 := reset s) in *. clearbody s1.
  destruct (getH h s1) as [x|] eqn:Hg; [|exact H0].
  destruct (h_live x) eqn:Hl; cbn [negb]; [|exact H0].
  pose proof (do_close_inv h x s1 H0 Hg Hl) as [A _].
  destruct (do_close h x s1) as [s2 r]. exact A.
Qed.

Lemma kill_handle hand s h y :
  InvH hand s -> getH h s = Some y -> h_closed y = true -> borrowed h s = false ->
  InvH hand (maybe_free (setH h (set_hdead y) s)).
Proof.
  intros H Hg Hc Hb.
  pose proof (proj1 (proj2 H)) as HW. pose proof (proj2 (proj2 H)) as HK.
  set (hs' := aset h (set_hdead y) (hs s)).
  assert (Hcan : InvH hand (with_freed (negb (existsb (fun e => h_live (snd e)) hs')) (with_hs hs' (with_sc (sc s) (with_rc (rc s) s))))).
  { apply InvH_handles; try assumption.
    - apply NoDup_aset. apply (w_hnd s HW).
    - intros f z Hz Hlz. destruct (w_fh s HW f z Hz Hlz) as [u [Hu Hlu]]. exists u. split; [|exact Hlu].
      subst hs'. rewrite aget_aset_other; [exact Hu|]. eapply not_borrowed; eauto.
    - apply (w_sc0 s HW).
    - apply (w_rc0 s HW).
    - reflexivity.
    - intros T. destruct (k_cnt s HK T) as [A B].
      pose proof (cnt_hs open_tx h y (set_hdead y) (hs s) (w_hnd s HW) Hg) as P1.
      pose proof (cnt_hs open_rx h y (set_hdead y) (hs s) (w_hnd s HW) Hg) as P2.
      assert (E1 : open_tx y = false) by (unfold open_tx; rewrite Hc; cbn; rewrite andb_false_r; reflexivity).
      assert (E2 : open_rx y = false) by (unfold open_rx; rewrite Hc; cbn; rewrite andb_false_r; reflexivity).
      assert (E3 : open_tx (set_hdead y) = false) by reflexivity.
      assert (E4 : open_rx (set_hdead y) = false) by reflexivity.
      rewrite E1, E3 in P1. rewrite E2, E4 in P2. unfold b2n in *.
      subst hs'. clear - A B P1 P2. lia. }
  unfold maybe_free. unfold any_live. change (hs (setH h (set_hdead y) s)) with hs'.
  destruct (existsb (fun e => h_live (snd e)) hs') eqn:El.
  - eapply InvH_ext; [|exact Hcan]. unfold core_eq. st_simpl. repeat split; try reflexivity.
    cbn [negb]. rewrite (w_freed s HW). unfold any_live.
    destruct (existsb (fun e : N * handle => h_live (snd e)) (hs s)) eqn:E2; [reflexivity|].
    exfalso. apply (live_exists hs' (NoDup_aset h (set_hdead y) (hs s) (w_hnd s HW))) in El.
    destruct El as [h1 [u [Hu Hlu]]]. subst hs'. rewrite aget_aset in Hu.
    destruct (N.eqb_spec h1 h); [inversion Hu; subst; discriminate|].
    assert (existsb (fun e : N * handle => h_live (snd e)) (hs s) = true); [|congruence].
    apply (live_exists (hs s) (w_hnd s HW)). eauto.
  - eapply InvH_ext; [|exact Hcan]. core_eq_refl.
Qed.

Lemma step_drop s h : Inv s -> Inv (fst (step s (DropH h))).
Proof.
  intros H0. apply Inv_reset in H0. unfold step. fold (reset s). set (s1 := reset s) in *. clearbody s1.
  destruct (getH h s1) as [x|] eqn:Hg; [|exact H0].
  destruct (h_live x) eqn:Hl; cbn [negb]; [|exact H0].
  destruct (borrowed h s1) eqn:Hb; [exact H0|].
  pose proof (do_close_inv h x s1 H0 Hg Hl) as [A [Sf [Ho [[y [Hy [Hly [Hcy _]]]] _]]]].
  destruct (do_close h x s1) as [s2 r]. cbn [fst] in *. rewrite Hy.
  cbn [ret fst]. apply kill_handle; try assumption.
  eapply borrowed_same_futs; [apply H0 | apply A | exact Sf | exact Hb].
Qed.

Lemma step_convert s h h2 : Inv s -> Inv (fst (step s (Convert h h2))).
Proof.
  intros H0. apply Inv_reset in H0. unfold step. fold (reset s). set (s1 := reset s) in *. clearbody s1.
  destruct (getH h s1) as [x|] eqn:Hg; [|exact H0].
  destruct (h_live x) eqn:Hl; cbn [negb]; [|exact H0].
  destruct (getH h2 s1) eqn:Hg2; [exact H0|].
  destruct (borrowed h s1) eqn:Hb; [exact H0|].
  cbn [ret fst].
  pose proof (proj1 (proj2 H0)) as HW0.
  set (b := h_closed x && negb (fx07 (fx s1))).
  assert (Ht : InvH [] (taint set_t07 b s1)).
  { apply InvH_taint; [exact H0 | apply tle_set_t07 |].
    intros E. apply ok_set_t07; [apply (w_taint s1 HW0)|]. subst b. apply andb_prop in E. destruct E as [_ E].
    destruct (fx07 (fx s1)); [discriminate | reflexivity]. }
  set (s2 := taint set_t07 b s1) in *.
  assert (E2 : hs s2 = hs s1 /\ sc s2 = sc s1 /\ rc s2 = rc s1 /\ fs s2 = fs s1 /\ fx s2 = fx s1
               /\ (t07 (tn s2) = false -> b = false)).
  { subst s2. unfold taint. destruct b; st_simpl; repeat split; auto; try (cbn; discriminate). }
  destruct E2 as (Eh & Es & Er & Ef & Efx & Eb).
  assert (Hg' : getH h s2 = Some x) by (unfold getH in *; congruence).
  assert (Hg2' : getH h2 s2 = None) by (unfold getH in *; congruence).
  assert (Hb' : borrowed h s2 = false) by (unfold borrowed in *; congruence).
  pose proof (proj1 (proj2 Ht)) as HW. pose proof (proj2 (proj2 Ht)) as HK.
  set (c := h_closed x && fx07 (fx s1)).
  set (xn := mkH (h_tx x) (negb (h_async x)) c true).
  set (hs' := aset h2 xn (aset h (set_hdead x) (hs s2))).
  assert (Hne : h2 <> h) by (intros E; subst; congruence).
  assert (Hn2 : aget h2 (aset h (set_hdead x) (hs s2)) = None).
  { rewrite aget_aset_other by exact Hne. exact Hg2'. }
  eapply InvH_ext; [|apply (InvH_handles [] hs' (sc s2) (rc s2) (freed s2) s2 Ht)].
  - subst hs' s2. unfold taint. destruct b; core_eq_refl.
  - subst hs'. apply NoDup_aset, NoDup_aset. apply (w_hnd s2 HW).
  - intros f z Hz Hlz. destruct (w_fh s2 HW f z Hz Hlz) as [u [Hu Hlu]]. exists u. split; [|exact Hlu].
    subst hs'. rewrite aget_aset_other.
    + rewrite aget_aset_other; [exact Hu|]. eapply not_borrowed; eauto.
    + intros E. unfold getH in *. congruence.
  - apply (w_sc0 s2 HW).
  - apply (w_rc0 s2 HW).
  - rewrite (w_freed s2 HW). rewrite (any_live_true s2 h x HW Hg' Hl).
    assert (Ex : existsb (fun e : N * handle => h_live (snd e)) hs' = true).
    { apply (live_exists hs'); [subst hs'; apply NoDup_aset, NoDup_aset; apply (w_hnd s2 HW)|].
      exists h2, xn. split; [subst hs'; apply aget_aset_same | reflexivity]. }
    rewrite Ex. reflexivity.
  - intros T. destruct (k_cnt s2 HK T) as [A B]. specialize (Eb T).
    subst hs'. rewrite (cnt_aset_new open_tx h2 xn _ Hn2), (cnt_aset_new open_rx h2 xn _ Hn2).
    pose proof (cnt_hs open_tx h x (set_hdead x) (hs s2) (w_hnd s2 HW) Hg') as P1.
    pose proof (cnt_hs open_rx h x (set_hdead x) (hs s2) (w_hnd s2 HW) Hg') as P2.
    assert (Eo1 : open_tx xn = open_tx x /\ open_rx xn = open_rx x).
    { subst xn c b. unfold open_tx, open_rx. cbn [h_live h_closed h_tx]. rewrite Hl.
      destruct (h_closed x), (fx07 (fx s1)); cbn in *; try discriminate; auto. }
    destruct Eo1 as [Eo1 Eo2]. rewrite Eo1, Eo2.
    assert (Ed1 : open_tx (set_hdead x) = false /\ open_rx (set_hdead x) = false) by (unfold open_tx, open_rx; cbn; auto).
    destruct Ed1 as [Ed1 Ed2]. rewrite Ed1 in P1. rewrite Ed2 in P2. unfold b2n in *.
    clear - A B P1 P2. lia.
Qed.

(** * value-moving calls on handles *)
Lemma step_observe s h : Inv s -> Inv (fst (step s (Observe h))).
Proof.
  intros H0. apply Inv_reset in H0. unfold step. fold (reset s). set (s1 := reset s) in *. clearbody s1.
  destruct (getH h s1) as [x|]; [|exact H0]. destruct (h_live x); exact H0.
Qed.

Lemma step_try_send s h : Inv s -> Inv (fst (step s (TrySend h))).
Proof.
  intros H0. apply Inv_reset in H0. unfold step. fold (reset s). set (s1 := reset s) in *. clearbody s1.
  destruct (getH h s1) as [x|]; [|exact H0].
  destruct (h_live x); cbn [negb]; [|exact H0].
  destruct (h_tx x); cbn [negb]; [|exact H0].
  destruct (InvH_fresh s1 H0) as [Hf Ev]. unfold fresh in *. cbn [fst snd] in *.
  set (s2 := with_next (next s1 + 1) s1) in *.
  destruct (h_closed x).
  - cbn [ret fst]. apply InvH_give_back. exact Hf.
  - pose proof (try_send_core_spec (next s1) s2 Hf) as Hs.
    destruct (try_send_core (next s1) s2) as [s3 [| |]]; cbn [ret fst].
    + apply Hs.
    + destruct Hs as [-> _]. apply InvH_give_back. exact Hf.
    + destruct Hs as [-> _]. apply InvH_give_back. exact Hf.
Qed.

Lemma step_send s h : Inv s -> Inv (fst (step s (Send h))).
Proof.
  intros H0. apply Inv_reset in H0. unfold step. fold (reset s). set (s1 := reset s) in *. clearbody s1.
  destruct (getH h s1) as [x|]; [|exact H0].
  destruct (h_live x); cbn [negb]; [|exact H0].
  destruct (negb (h_tx x) || h_async x); [exact H0|].
  destruct (negb (rc s1 =? 0) && is_full s1); [exact H0|].
  destruct (InvH_fresh s1 H0) as [Hf Ev]. unfold fresh in *. cbn [fst snd] in *.
  set (s2 := with_next (next s1 + 1) s1) in *.
  destruct (h_closed x).
  - cbn [ret fst]. apply InvH_destroy. exact Hf.
  - pose proof (try_send_core_spec (next s1) s2 Hf) as Hs.
    destruct (try_send_core (next s1) s2) as [s3 [| |]]; cbn [ret fst].
    + apply Hs.
    + destruct Hs as [-> _]. apply InvH_destroy. exact Hf.
    + destruct Hs as [-> _]. apply InvH_destroy. exact Hf.
Qed.

Lemma step_try_recv s h : Inv s -> Inv (fst (step s (TryRecv h))).
Proof.
  intros H0. apply Inv_reset in H0. unfold step. fold (reset s). set (s1 := reset s) in *. clearbody s1.
  destruct (getH h s1) as [x|]; [|exact H0].
  destruct (h_live x); cbn [negb]; [|exact H0].
  destruct (h_tx x); [exact H0|].
  destruct (h_closed x); [exact H0|].
  pose proof (try_recv_core_spec [] s1 H0) as Hs.
  destruct (try_recv_core s1) as [s3 [v| |]]; cbn [ret fst].
  - apply Hs.
  - destruct Hs as [-> _]. exact H0.
  - destruct Hs as [-> _]. exact H0.
Qed.

Lemma step_recv s h : Inv s -> Inv (fst (step s (Recv h))).
Proof.
  intros H0. apply Inv_reset in H0. unfold step. fold (reset s). set (s1 := reset s) in *. clearbody s1.
  destruct (getH h s1) as [x|]; [|exact H0].
  destruct (h_live x); cbn [negb]; [|exact H0].
  destruct (h_tx x || h_async x); [exact H0|].
  match goal with |- context [if ?c then ret s1 RWouldBlock else _] => destruct c end; [exact H0|].
  destruct (h_closed x); [exact H0|].
  pose proof (try_recv_core_spec [] s1 H0) as Hs.
  destruct (try_recv_core s1) as [s3 [v| |]]; cbn [ret fst].
  - apply Hs.
  - destruct Hs as [-> _]. exact H0.
  - destruct Hs as [-> _]. exact H0.
Qed.

Lemma step_recv_timeout s h : Inv s -> Inv (fst (step s (RecvTimeout h))).
Proof.
  intros H0. apply Inv_reset in H0. unfold step. fold (reset s). set (s1 := reset s) in *. clearbody s1.
  destruct (getH h s1) as [x|]; [|exact H0].
  destruct (h_live x); cbn [negb]; [|exact H0].
  destruct (h_tx x || h_async x); [exact H0|].
  destruct (h_closed x && fx03 (fx s1)) eqn:Ec; [exact H0|].
  assert (Ht : InvH [] (taint set_t03 (h_closed x) s1)).
  { apply InvH_taint; [exact H0 | apply tle_set_t03 |].
    intros E. apply ok_set_t03; [apply (w_taint s1 (proj1 (proj2 H0)))|]. rewrite E in Ec. exact Ec. }
  set (s2 := taint set_t03 (h_closed x) s1) in *.
  pose proof (try_recv_core_spec [] s2 Ht) as Hs.
  destruct (try_recv_core s2) as [s3 [v| |]]; cbn [ret fst].
  - apply Hs.
  - destruct Hs as [-> _]. exact Ht.
  - destruct Hs as [-> _]. exact Ht.
Qed.

(** * futures *)
Lemma pw_r_val x : pw_r x = f_recv x && f_reg x && is_waiting (f_state x). Proof. reflexivity. Qed.
Lemma pi_r_val x : pi_r x = f_recv x && f_reg x && is_success (f_state x). Proof. reflexivity. Qed.
Lemma pw_s_val x : pw_s x = negb (f_recv x) && f_reg x && is_waiting (f_state x). Proof. reflexivity. Qed.
Lemma pi_s_val x : pi_s x = negb (f_recv x) && f_reg x && is_success (f_state x). Proof. reflexivity. Qed.

Lemma cnt4 f x x' s s' :
  NoDup (akeys (fs s)) -> getF f s = Some x -> fs s' = fs (setF f x' s) ->
  (cnt pw_r (fs s') + b2n (pw_r x) = cnt pw_r (fs s) + b2n (pw_r x'))%nat /\
  (cnt pi_r (fs s') + b2n (pi_r x) = cnt pi_r (fs s) + b2n (pi_r x'))%nat /\
  (cnt pw_s (fs s') + b2n (pw_s x) = cnt pw_s (fs s) + b2n (pw_s x'))%nat /\
  (cnt pi_s (fs s') + b2n (pi_s x) = cnt pi_s (fs s) + b2n (pi_s x'))%nat.
Proof. intros Hnd Hg ->. repeat split; apply cnt_setF; assumption. Qed.

Ltac rw_bools H :=
  repeat match goal with
         | E : _ = true |- _ => rewrite E in H
         | E : _ = false |- _ => rewrite E in H
         end.

Ltac ev_preds H :=
  rewrite ?pw_r_val, ?pi_r_val, ?pw_s_val, ?pi_s_val in H;
  cbn [f_recv f_reg f_state f_live f_done f_item f_h set_state set_reg set_done set_item set_dead] in H;
  rw_bools H;
  cbn [andb negb b2n is_waiting is_success] in H;
  rewrite ?andb_false_r, ?andb_true_r in H; cbn [andb negb b2n] in H;
  rewrite ?andb_false_r, ?andb_true_r in H; cbn [andb negb b2n] in H.

Lemma InvK_intro s :
  (t07 (tn s) = false -> sc s = N.of_nat (cnt open_tx (hs s)) /\ rc s = N.of_nat (cnt open_rx (hs s))) ->
  (t06 (tn s) = false -> t12 (tn s) = false -> cnt pw_r (fs s) = 0%nat \/ (nq s <= cnt pi_r (fs s))%nat) ->
  (t12 (tn s) = false -> cnt pw_s (fs s) = 0%nat \/ (ncap s <= nq s + cnt pi_s (fs s))%nat) ->
  InvK s.
Proof. intros A B C. constructor; assumption. Qed.

(* the unlink-and-unregister part of Drop / of the closed-handle guard *)
Definition unreg (x : fut) : fut :=
  set_reg false (if is_waiting (f_state x) then set_state Cancelled x else x).

Definition base_r (f : N) (x : fut) (s : st) : st := with_arq (unlink f (arq s)) (setF f (unreg x) s).
Definition base_s (f : N) (x : fut) (s : st) : st := with_asq (unlink f (asq s)) (setF f (unreg x) s).

Lemma unreg_fields x :
  f_recv (unreg x) = f_recv x /\ f_h (unreg x) = f_h x /\ f_live (unreg x) = f_live x /\
  f_item (unreg x) = f_item x /\ f_done (unreg x) = f_done x /\ f_reg (unreg x) = false.
Proof. unfold unreg. destruct (is_waiting (f_state x)); repeat split. Qed.

Lemma base_r_core hand f x s :
  InvD hand s -> InvW s -> getF f s = Some x -> f_recv x = true ->
  InvD hand (base_r f x s) /\ InvW (base_r f x s).
Proof.
  intros HD HW Hg Hrecv.
  destruct (unreg_fields x) as (U1 & U2 & U3 & U4 & U5 & U6).
  assert (Heq : core_eq (with_arq (unlink f (arq s)) (with_asq (asq s) (setF f (unreg x) s))) (base_r f x s))
    by (unfold base_r; core_eq_refl).
  split.
  - apply (InvD_ext hand _ _ Heq). apply InvD_upd with x; [exact HD | apply (w_fnd s HW) | exact Hg |].
    intros v. unfold cellp. rewrite U3, U4. reflexivity.
  - apply (InvW_ext _ _ Heq). apply InvW_upd with x.
    + exact HW.
    + exact Hg.
    + exact U1.
    + exact U2.
    + rewrite U3. auto.
    + rewrite U6. discriminate.
    + apply unlink_NoDup, (w_arq_nd s HW).
    + apply (w_asq_nd s HW).
    + intros f1 w1 Hi. apply unlink_In in Hi. destruct Hi as [Hi Hne]. left. auto.
    + intros f1 w1 Hi. left. split; [|exact Hi]. intros ->.
      destruct (w_asq_k s HW f w1 Hi) as [z [Hz [Hr _]]]. congruence.
    + intros f1 Hne Hi. apply unlink_keys. auto.
    + auto.
    + rewrite U6. discriminate.
    + intros _ Hi. apply unlink_keys in Hi. destruct Hi as [_ Hi]. contradiction.
    + intros _ Hi. destruct (akeys_In _ _ Hi) as [w1 Hi1].
      destruct (w_asq_k s HW f w1 Hi1) as [z [Hz [Hr _]]]. congruence.
    + intros _ Hi. apply unlink_keys in Hi. destruct Hi as [_ Hi]. contradiction.
    + rewrite U1. congruence.
    + intros Hi. apply unlink_keys in Hi. destruct Hi as [_ Hi]. contradiction.
Qed.

Lemma base_s_core hand f x s :
  InvD hand s -> InvW s -> getF f s = Some x -> f_recv x = false ->
  InvD hand (base_s f x s) /\ InvW (base_s f x s).
Proof.
  intros HD HW Hg Hrecv.
  destruct (unreg_fields x) as (U1 & U2 & U3 & U4 & U5 & U6).
  assert (Heq : core_eq (with_arq (arq s) (with_asq (unlink f (asq s)) (setF f (unreg x) s))) (base_s f x s))
    by (unfold base_s; core_eq_refl).
  split.
  - apply (InvD_ext hand _ _ Heq). apply InvD_upd with x; [exact HD | apply (w_fnd s HW) | exact Hg |].
    intros v. unfold cellp. rewrite U3, U4. reflexivity.
  - apply (InvW_ext _ _ Heq). apply InvW_upd with x.
    + exact HW.
    + exact Hg.
    + exact U1.
    + exact U2.
    + rewrite U3. auto.
    + rewrite U6. discriminate.
    + apply (w_arq_nd s HW).
    + apply unlink_NoDup, (w_asq_nd s HW).
    + intros f1 w1 Hi. left. split; [|exact Hi]. intros ->.
      destruct (w_arq_k s HW f w1 Hi) as [z [Hz Hr]]. congruence.
    + intros f1 w1 Hi. apply unlink_In in Hi. destruct Hi as [Hi Hne]. left. auto.
    + auto.
    + intros f1 Hne Hi. apply unlink_keys. auto.
    + rewrite U6. discriminate.
    + intros _ Hi. destruct (akeys_In _ _ Hi) as [w1 Hi1].
      destruct (w_arq_k s HW f w1 Hi1) as [z [Hz Hr]]. congruence.
    + intros _ Hi. apply unlink_keys in Hi. destruct Hi as [_ Hi]. contradiction.
    + intros _ Hi. destruct (akeys_In _ _ Hi) as [w1 Hi1].
      destruct (w_arq_k s HW f w1 Hi1) as [z [Hz Hr]]. congruence.
    + rewrite U6. discriminate.
    + intros Hi. destruct (akeys_In _ _ Hi) as [w1 Hi1].
      destruct (w_arq_k s HW f w1 Hi1) as [z [Hz Hr]]. congruence.
Qed.

Lemma InvD_with_tn hand t s : InvD hand s -> InvD hand (with_tn t s).
Proof. intros HD. destruct HD. constructor; unfold nq, ncap, tot, cells in *; st_simpl; assumption. Qed.

Lemma InvW_with_tn t s : InvW s -> tle (tn s) t -> taint_ok (fx s) t -> InvW (with_tn t s).
Proof.
  intros HW (L1 & L2 & L3 & L4 & L5 & L6 & L7) Hok.
  destruct HW. constructor; unfold getF, getH, any_live in *; st_simpl; try assumption.
  intros T. apply w_arq_reg. auto.
Qed.

Definition cancel_post (f : N) (x : fut) (s s' : st) : Prop :=
  (exists x', getF f s' = Some x' /\ f_reg x' = false /\ f_live x' = f_live x /\ f_item x' = f_item x
              /\ f_recv x' = f_recv x /\ f_h x' = f_h x /\ f_done x' = f_done x)
  /\ hs s' = hs s /\ q s' = q s /\ next s' = next s /\ recvd s' = recvd s /\ acc s' = acc s
  /\ back s' = back s /\ dropped s' = dropped s /\ dk s' = dk s /\ cap s' = cap s /\ fx s' = fx s
  /\ sc s' = sc s /\ rc s' = rc s /\ freed s' = freed s.

Lemma getF_mark_bad b f s : getF f (mark_bad b s) = getF f s.
Proof. unfold mark_bad. destruct b; reflexivity. Qed.

Lemma cancel_reg_recv f x s :
  Inv s -> getF f s = Some x -> f_reg x = true -> f_recv x = true ->
  Inv (cancel_reg f x s) /\ cancel_post f x s (cancel_reg f x s).
Proof.
  intros H Hg Hreg Hrecv. destruct H as [HD [HW HK]].
  unfold cancel_reg. rewrite Hreg, Hrecv.
  change (setF f (set_reg false (if is_waiting (f_state x) then set_state Cancelled x else x)) s) with (setF f (unreg x) s).
  change (with_arq (unlink f (arq (setF f (unreg x) s))) (setF f (unreg x) s)) with (base_r f x s).
  destruct (base_r_core [] f x s HD HW Hg Hrecv) as [HDb HWb].
  destruct (unreg_fields x) as (U1 & U2 & U3 & U4 & U5 & U6).
  destruct (cnt4 f x (unreg x) s (base_r f x s) (w_fnd s HW) Hg eq_refl) as (C1 & C2 & C3 & C4).
  ev_preds C1. ev_preds C2. ev_preds C3. ev_preds C4.
  destruct HK as [K1 K2 K3]. fold (nq s) in K2, K3. fold (ncap s) in K3.
  assert (Hpost0 : forall s', getF f s' = Some (unreg x) -> hs s' = hs s -> q s' = q s -> next s' = next s ->
            recvd s' = recvd s -> acc s' = acc s -> back s' = back s -> dropped s' = dropped s -> dk s' = dk s ->
            cap s' = cap s -> fx s' = fx s -> sc s' = sc s -> rc s' = rc s -> freed s' = freed s -> cancel_post f x s s').
  { intros s' G. intros. unfold cancel_post. split; [exists (unreg x); repeat split; auto|]. repeat split; assumption. }
  assert (Gb : getF f (base_r f x s) = Some (unreg x)).
  { unfold base_r. change (getF f (setF f (unreg x) s) = Some (unreg x)). rewrite getF_setF, N.eqb_refl. reflexivity. }
  destruct (is_success (f_state x)) eqn:Es; cbn [b2n] in C1, C2, C3, C4.
  - assert (Ew : is_waiting (f_state x) = false) by (destruct (f_state x); try discriminate; reflexivity).
    rewrite ?Ew in C1. cbn [b2n] in C1.
    change (fx (base_r f x s)) with (fx s).
    destruct (fx12 (fx s)) eqn:E12.
    + change (q (base_r f x s)) with (q s).
      destruct (q s) as [|v0 t0] eqn:Eq.
      * split; [|apply Hpost0; auto; reflexivity].
        split; [exact HDb|]. split; [exact HWb|]. apply InvK_intro.
        -- exact K1.
        -- intros _ _. right. unfold nq. change (q (base_r f x s)) with (q s). rewrite Eq. cbn [length]. clear. lia.
        -- intros T. specialize (K3 T). change (nq (base_r f x s)) with (nq s). change (ncap (base_r f x s)) with (ncap s).
           clear - K3 C3 C4. lia.
      * destruct (wake_one_recv_eq (base_r f x s) HWb) as [[E Hn]|[f1 [w1 [y [Hi [Hy [Hw E]]]]]]]; rewrite E.
        -- split; [|apply Hpost0; auto; reflexivity].
           split; [exact HDb|]. split; [exact HWb|]. apply InvK_intro.
           ++ exact K1.
           ++ intros _ _. left. apply no_waiting_r; assumption.
           ++ intros T. specialize (K3 T). change (nq (base_r f x s)) with (nq s). change (ncap (base_r f x s)) with (ncap s).
              clear - K3 C3 C4. lia.
        -- destruct (woken_r_core [] f1 w1 y (base_r f x s) HDb HWb Hi Hy Hw) as (HD2 & HW2 & Hry & Hrg).
           destruct (cnt4 f1 y (set_state Success y) (base_r f x s) (woken_r f1 w1 y (base_r f x s)) (w_fnd _ HWb) Hy eq_refl) as (D1 & D2 & D3 & D4).
           assert (Esy : is_success (f_state y) = false) by (destruct (f_state y); try discriminate; reflexivity).
           ev_preds D1. ev_preds D2. ev_preds D3. ev_preds D4.
           assert (Hne : f1 <> f).
           { intros ->. rewrite Gb in Hy. inversion Hy; subst y. rewrite U6 in *.
             apply unlink_In in Hi. destruct Hi as [_ Hi]. apply Hi. reflexivity. }
           split.
           ++ apply InvH_mark_bad. split; [exact HD2|]. split; [exact HW2|]. apply InvK_intro.
              ** exact K1.
              ** intros T1 T2. specialize (K2 T1 T2). rewrite ?(Hrg T1) in D1, D2. cbn [andb b2n] in D1, D2.
                 change (nq (woken_r f1 w1 y (base_r f x s))) with (nq s).
                 clear - K2 C1 C2 D1 D2. lia.
              ** intros T. specialize (K3 T).
                 change (nq (woken_r f1 w1 y (base_r f x s))) with (nq s). change (ncap (woken_r f1 w1 y (base_r f x s))) with (ncap s).
                 clear - K3 C3 C4 D3 D4. lia.
           ++ apply Hpost0; rewrite <- ?Eq; try (unfold mark_bad; destruct (negb (f_live y)); reflexivity).
              rewrite getF_mark_bad. unfold woken_r.
              change (getF f (setF f1 (set_state Success y) (base_r f x s)) = Some (unreg x)).
              rewrite getF_setF. destruct (N.eqb_spec f f1); [congruence | exact Gb].
    + (* the wake is not passed on: the F-12 event *)
      unfold taint.
      split; [|apply Hpost0; auto; reflexivity].
      split; [apply InvD_with_tn; exact HDb|]. split.
      * apply InvW_with_tn; [exact HWb | apply tle_set_t12 |].
        apply ok_set_t12; [apply (w_taint s HW) | exact E12].
      * apply InvK_intro.
        -- exact K1.
        -- cbn. discriminate.
        -- cbn. discriminate.
  - split; [|apply Hpost0; auto; reflexivity].
    split; [exact HDb|]. split; [exact HWb|]. apply InvK_intro.
    + exact K1.
    + intros T1 T2. specialize (K2 T1 T2). change (nq (base_r f x s)) with (nq s).
      clear - K2 C1 C2. destruct (is_waiting (f_state x)); cbn [b2n] in *; lia.
    + intros T. specialize (K3 T). change (nq (base_r f x s)) with (nq s). change (ncap (base_r f x s)) with (ncap s).
      clear - K3 C3 C4. lia.
Qed.

Lemma cancel_reg_send f x s :
  Inv s -> getF f s = Some x -> f_reg x = true -> f_recv x = false ->
  Inv (cancel_reg f x s) /\ cancel_post f x s (cancel_reg f x s).
Proof.
  intros H Hg Hreg Hrecv. destruct H as [HD [HW HK]].
  unfold cancel_reg. rewrite Hreg, Hrecv.
  change (setF f (set_reg false (if is_waiting (f_state x) then set_state Cancelled x else x)) s) with (setF f (unreg x) s).
  change (with_asq (unlink f (asq (setF f (unreg x) s))) (setF f (unreg x) s)) with (base_s f x s).
  destruct (base_s_core [] f x s HD HW Hg Hrecv) as [HDb HWb].
  destruct (unreg_fields x) as (U1 & U2 & U3 & U4 & U5 & U6).
  destruct (cnt4 f x (unreg x) s (base_s f x s) (w_fnd s HW) Hg eq_refl) as (C1 & C2 & C3 & C4).
  ev_preds C1. ev_preds C2. ev_preds C3. ev_preds C4.
  destruct HK as [K1 K2 K3]. fold (nq s) in K2, K3. fold (ncap s) in K3.
  assert (Hpost0 : forall s', getF f s' = Some (unreg x) -> hs s' = hs s -> q s' = q s -> next s' = next s ->
            recvd s' = recvd s -> acc s' = acc s -> back s' = back s -> dropped s' = dropped s -> dk s' = dk s ->
            cap s' = cap s -> fx s' = fx s -> sc s' = sc s -> rc s' = rc s -> freed s' = freed s -> cancel_post f x s s').
  { intros s' G. intros. unfold cancel_post. split; [exists (unreg x); repeat split; auto|]. repeat split; assumption. }
  assert (Gb : getF f (base_s f x s) = Some (unreg x)).
  { unfold base_s. change (getF f (setF f (unreg x) s) = Some (unreg x)). rewrite getF_setF, N.eqb_refl. reflexivity. }
  pose proof (d_cap _ _ HD) as Hcap.
  destruct (is_success (f_state x)) eqn:Es; cbn [b2n] in C1, C2, C3, C4.
  - assert (Ew : is_waiting (f_state x) = false) by (destruct (f_state x); try discriminate; reflexivity).
    rewrite ?Ew in C3. cbn [b2n] in C3.
    change (fx (base_s f x s)) with (fx s).
    destruct (fx12 (fx s)) eqn:E12.
    + destruct (is_full (base_s f x s)) eqn:Ef.
      * assert (Efull : nq s = ncap s).
        { apply (is_full_spec s Hcap). exact Ef. }
        split; [|apply Hpost0; auto; reflexivity].
        split; [exact HDb|]. split; [exact HWb|]. apply InvK_intro.
        -- exact K1.
        -- intros T1 T2. specialize (K2 T1 T2). change (nq (base_s f x s)) with (nq s).
           clear - K2 C1 C2. lia.
        -- intros _. right. change (nq (base_s f x s)) with (nq s). change (ncap (base_s f x s)) with (ncap s).
           clear - Efull. lia.
      * destruct (wake_one_send_eq (base_s f x s) HWb) as [[E Hn]|[f1 [w1 [y [Hi [Hy [Hw E]]]]]]]; rewrite E.
        -- split; [|apply Hpost0; auto; reflexivity].
           split; [exact HDb|]. split; [exact HWb|]. apply InvK_intro.
           ++ exact K1.
           ++ intros T1 T2. specialize (K2 T1 T2). change (nq (base_s f x s)) with (nq s).
              clear - K2 C1 C2. lia.
           ++ intros _. left. apply no_waiting_s; assumption.
        -- destruct (woken_s_core false [] f1 w1 y (base_s f x s) HDb HWb Hi Hy Hw) as (HD2 & HW2 & Hry & Hrg).
           destruct (cnt4 f1 y (set_state Success y) (base_s f x s) (woken_s false f1 w1 y (base_s f x s)) (w_fnd _ HWb) Hy eq_refl) as (D1 & D2 & D3 & D4).
           assert (Esy : is_success (f_state y) = false) by (destruct (f_state y); try discriminate; reflexivity).
           ev_preds D1. ev_preds D2. ev_preds D3. ev_preds D4.
           split.
           ++ apply InvH_mark_bad. split; [exact HD2|]. split; [exact HW2|]. apply InvK_intro.
              ** exact K1.
              ** intros T1 T2. specialize (K2 T1 T2).
                 change (nq (woken_s false f1 w1 y (base_s f x s))) with (nq s).
                 clear - K2 C1 C2 D1 D2. lia.
              ** intros T. specialize (K3 T).
                 change (nq (woken_s false f1 w1 y (base_s f x s))) with (nq s). change (ncap (woken_s false f1 w1 y (base_s f x s))) with (ncap s).
                 clear - K3 C3 C4 D3 D4. lia.
           ++ assert (Hne : f1 <> f).
              { intros ->. rewrite Gb in Hy. inversion Hy; subst y. rewrite U6 in *. discriminate. }
              apply Hpost0; try (unfold mark_bad; destruct (negb (f_live y)); reflexivity).
              rewrite getF_mark_bad. unfold woken_s.
              change (getF f (setF f1 (set_state Success y) (base_s f x s)) = Some (unreg x)).
              rewrite getF_setF. destruct (N.eqb_spec f f1); [congruence | exact Gb].
    + unfold taint.
      split; [|apply Hpost0; auto; reflexivity].
      split; [apply InvD_with_tn; exact HDb|]. split.
      * apply InvW_with_tn; [exact HWb | apply tle_set_t12 |].
        apply ok_set_t12; [apply (w_taint s HW) | exact E12].
      * apply InvK_intro.
        -- exact K1.
        -- cbn. discriminate.
        -- cbn. discriminate.
  - split; [|apply Hpost0; auto; reflexivity].
    split; [exact HDb|]. split; [exact HWb|]. apply InvK_intro.
    + exact K1.
    + intros T1 T2. specialize (K2 T1 T2). change (nq (base_s f x s)) with (nq s).
      clear - K2 C1 C2. lia.
    + intros T. specialize (K3 T). change (nq (base_s f x s)) with (nq s). change (ncap (base_s f x s)) with (ncap s).
      clear - K3 C3 C4. destruct (is_waiting (f_state x)); cbn [b2n] in *; lia.
Qed.

Lemma cancel_reg_inv f x s :
  Inv s -> getF f s = Some x ->
  Inv (cancel_reg f x s) /\ cancel_post f x s (cancel_reg f x s).
Proof.
  intros H Hg. destruct (f_reg x) eqn:Hreg.
  - destruct (f_recv x) eqn:Hrecv; [apply cancel_reg_recv | apply cancel_reg_send]; assumption.
  - unfold cancel_reg. rewrite Hreg. split; [exact H|]. unfold cancel_post.
    split; [exists x; repeat split; auto|]. repeat split.
Qed.

(** ** record-only updates of an unregistered future *)
Lemma preds_unreg x : f_reg x = false -> pw_r x = false /\ pi_r x = false /\ pw_s x = false /\ pi_s x = false.
Proof.
  intros H. unfold pw_r, pi_r, pw_s, pi_s. rewrite H. rewrite !andb_false_r. repeat split.
Qed.

Lemma rec_upd_W f x x' s :
  InvW s -> getF f s = Some x ->
  f_recv x' = f_recv x -> f_h x' = f_h x -> f_state x' = f_state x -> (f_live x' = true -> f_live x = true) ->
  f_reg x = false -> f_reg x' = false -> (f_done x' = false -> f_done x = false) ->
  InvW (setF f x' s).
Proof.
  intros HW Hg Er Eh Es El Hr Hr' Hdn.
  assert (Heq : core_eq (with_arq (arq s) (with_asq (asq s) (setF f x' s))) (setF f x' s)) by core_eq_refl.
  apply (InvW_ext _ _ Heq). apply InvW_upd with x.
  - exact HW.
  - exact Hg.
  - exact Er.
  - exact Eh.
  - exact El.
  - rewrite Hr'. discriminate.
  - apply (w_arq_nd s HW).
  - apply (w_asq_nd s HW).
  - intros f1 w1 Hi. destruct (N.eq_dec f1 f) as [->|Hne]; [|left; auto].
    right. split; [reflexivity|]. destruct (w_arq_k s HW f w1 Hi) as [z [Hz Hrz]]. congruence.
  - intros f1 w1 Hi. left. split; [|exact Hi]. intros ->.
    destruct (w_asq_k s HW f w1 Hi) as [z [Hz [_ Hrz]]]. congruence.
  - auto.
  - auto.
  - rewrite Hr'. discriminate.
  - intros Hsc Hi. destruct (akeys_In _ _ Hi) as [w1 Hi1]. rewrite Es. apply (w_sc0 s HW Hsc f w1 x Hi1 Hg).
  - intros Hrc Hi. destruct (akeys_In _ _ Hi) as [w1 Hi1]. rewrite Es. apply (w_rc0 s HW Hrc f w1 x Hi1 Hg).
  - intros T Hi. destruct (akeys_In _ _ Hi) as [w1 Hi1].
    destruct (w_arq_reg s HW T f w1 Hi1) as [z [Hz Hrz]]. congruence.
  - rewrite Hr'. discriminate.
  - intros Hi. destruct (akeys_In _ _ Hi) as [w1 Hi1]. rewrite Es.
    destruct (w_arq_st s HW f w1 x Hi1 Hg) as [A B]. split; [exact A|].
    intros E. specialize (B (Hdn E)). congruence.
Qed.

Lemma rec_upd_cnt (P : fut -> bool) f x x' s :
  InvW s -> getF f s = Some x -> P x = false -> P x' = false -> cnt P (fs (setF f x' s)) = cnt P (fs s).
Proof.
  intros HW Hg E1 E2. pose proof (cnt_setF P f x x' s (w_fnd s HW) Hg) as C. rewrite E1, E2 in C. unfold b2n in C. lia.
Qed.

Lemma rec_upd_K f x x' s :
  InvW s -> InvK s -> getF f s = Some x -> f_reg x = false -> f_reg x' = false -> InvK (setF f x' s).
Proof.
  intros HW [K1 K2 K3] Hg Hr Hr'.
  destruct (preds_unreg x Hr) as (A1&A2&A3&A4). destruct (preds_unreg x' Hr') as (B1&B2&B3&B4).
  apply InvK_intro.
  - exact K1.
  - intros T1 T2. specialize (K2 T1 T2). change (nq (setF f x' s)) with (nq s).
    rewrite (rec_upd_cnt pw_r f x x' s HW Hg A1 B1), (rec_upd_cnt pi_r f x x' s HW Hg A2 B2). exact K2.
  - intros T. specialize (K3 T). change (nq (setF f x' s)) with (nq s). change (ncap (setF f x' s)) with (ncap s).
    rewrite (rec_upd_cnt pw_s f x x' s HW Hg A3 B3), (rec_upd_cnt pi_s f x x' s HW Hg A4 B4). exact K3.
Qed.

Lemma InvD_setF hand f x x' s :
  InvD hand s -> NoDup (akeys (fs s)) -> getF f s = Some x -> (forall v, cellp v x' = cellp v x) ->
  InvD hand (setF f x' s).
Proof.
  intros [A B C] Hnd Hg Hc. constructor; [exact A | exact B |].
  intros v. specialize (C v). unfold tot in *. rewrite (cells_setF_same f x x' s v Hnd Hg (Hc v)). exact C.
Qed.

(* the cell of f loses its item (taken into the hand, or destroyed with the future) *)
Lemma InvD_cell_out f x x' v s :
  InvD [] s -> NoDup (akeys (fs s)) -> getF f s = Some x -> f_live x = true -> f_item x = Some v ->
  (forall u, cellp u x' = false) ->
  InvD [v] (setF f x' s).
Proof.
  intros [A B C] Hnd Hg Hl Hi Hc. constructor; [exact A | exact B |].
  intros u. specialize (C u). unfold tot in *.
  pose proof (cnt_setF (cellp u) f x x' s Hnd Hg) as E. fold (cells (setF f x' s) u) in E. fold (cells s u) in E.
  rewrite Hc in E. unfold cellp in E at 1. rewrite Hl, Hi in E. cbn [andb occ b2n] in *.
  change (next (setF f x' s)) with (next s). change (recvd (setF f x' s)) with (recvd s).
  change (q (setF f x' s)) with (q s). change (back (setF f x' s)) with (back s). change (dropped (setF f x' s)) with (dropped s).
  destruct (u =? v); cbn [b2n] in E; lia.
Qed.

Lemma step_dropf s f : Inv s -> Inv (fst (step s (DropF f))).
Proof.
  intros H0. apply Inv_reset in H0. unfold step. fold (reset s). set (s1 := reset s) in *. clearbody s1.
  destruct (getF f s1) as [x|] eqn:Hg; [|exact H0].
  destruct (f_live x) eqn:Hl; cbn [negb]; [|exact H0].
  destruct (cancel_reg_inv f x s1 H0 Hg) as [H2 [[x2 (G2 & R2 & L2 & I2 & Rv2 & Hh2 & D2)] _]].
  set (s2 := cancel_reg f x s1) in *. rewrite G2. cbn [ret fst].
  destruct H2 as [HD2 [HW2 HK2]].
  assert (HW3 : InvW (setF f (set_dead x2) s2)).
  { apply rec_upd_W with x2; try assumption; try reflexivity; cbn; auto; discriminate. }
  assert (HK3 : InvK (setF f (set_dead x2) s2)) by (apply rec_upd_K with x2; assumption).
  destruct (f_item x) as [v|] eqn:Ei.
  - apply InvH_destroy. split; [|split; assumption].
    apply InvD_cell_out with x2; try assumption.
    + apply (w_fnd s2 HW2).
    + congruence.
    + intros u. reflexivity.
  - split; [|split; assumption].
    apply InvD_setF with x2; try assumption; [apply (w_fnd s2 HW2)|].
    intros u. unfold cellp. cbn [f_live f_item set_dead]. rewrite I2. rewrite !andb_false_r. reflexivity.
Qed.

(** ** creating a future *)
Lemma InvW_newF f x s :
  InvW s -> getF f s = None -> f_reg x = false ->
  (f_live x = true -> exists h, getH (f_h x) s = Some h /\ hok (f_recv x) h) ->
  InvW (setF f x s).
Proof.
  intros HW Hn Hr Hh.
  assert (Hother : forall f1 y, getF f1 s = Some y -> getF f1 (setF f x s) = Some y).
  { intros f1 y Hy. rewrite getF_setF. destruct (N.eqb_spec f1 f) as [->|]; [congruence | exact Hy]. }
  destruct HW. constructor; unfold any_live in *; st_simpl.
  - exact w_hnd.
  - apply NoDup_aset. exact w_fnd.
  - exact w_arq_nd.
  - exact w_asq_nd.
  - intros f1 w1 Hi. destruct (w_arq_k f1 w1 Hi) as [y [Hy Hry]]. exists y. split; [apply (Hother f1 y Hy) | exact Hry].
  - intros f1 w1 Hi. destruct (w_asq_k f1 w1 Hi) as [y [Hy Hry]]. exists y. split; [apply (Hother f1 y Hy) | exact Hry].
  - intros f1 y Hy Hrg. change (getF f1 (setF f x s) = Some y) in Hy. getF_cases Hy; [congruence|]. eapply w_reg; eauto.
  - intros f1 y Hy Hrg Hwy. change (getF f1 (setF f x s) = Some y) in Hy. getF_cases Hy; [congruence|]. eapply w_wq; eauto.
  - intros f1 y Hy Hl. change (getF f1 (setF f x s) = Some y) in Hy.
    change (exists h, getH (f_h y) s = Some h /\ hok (f_recv y) h). getF_cases Hy; [auto|]. eapply w_fh; eauto.
  - intros Hsc f1 w1 y Hi Hy. change (getF f1 (setF f x s) = Some y) in Hy.
    destruct (w_arq_k f1 w1 Hi) as [z [Hz _]]. getF_cases Hy; [congruence|]. eapply w_sc0; eauto.
  - intros Hrc f1 w1 y Hi Hy. change (getF f1 (setF f x s) = Some y) in Hy.
    destruct (w_asq_k f1 w1 Hi) as [z [Hz _]]. getF_cases Hy; [congruence|]. eapply w_rc0; eauto.
  - intros T f1 w1 Hi. destruct (w_arq_reg T f1 w1 Hi) as [y [Hy Hry]]. exists y. split; [apply (Hother f1 y Hy) | exact Hry].
  - exact w_freed.
  - exact w_taint.
  - intros f1 y Hy Hrv Hd. change (getF f1 (setF f x s) = Some y) in Hy. getF_cases Hy; [congruence|]. eapply w_item; eauto.
  - intros f1 w1 y Hi Hy. change (getF f1 (setF f x s) = Some y) in Hy.
    destruct (w_arq_k f1 w1 Hi) as [z [Hz _]]. getF_cases Hy; [congruence|]. eapply w_arq_st; eauto.
Qed.

Lemma InvK_newF f x s : InvK s -> getF f s = None -> f_reg x = false -> InvK (setF f x s).
Proof.
  intros [K1 K2 K3] Hn Hr. destruct (preds_unreg x Hr) as (A1&A2&A3&A4).
  apply InvK_intro.
  - exact K1.
  - intros T1 T2. specialize (K2 T1 T2). change (nq (setF f x s)) with (nq s).
    rewrite (cnt_setF_new pw_r f x s Hn), (cnt_setF_new pi_r f x s Hn), A1, A2. unfold b2n. rewrite !Nat.add_0_r. exact K2.
  - intros T. specialize (K3 T). change (nq (setF f x s)) with (nq s). change (ncap (setF f x s)) with (ncap s).
    rewrite (cnt_setF_new pw_s f x s Hn), (cnt_setF_new pi_s f x s Hn), A3, A4. unfold b2n. rewrite !Nat.add_0_r. exact K3.
Qed.

Lemma step_mksend s f h : Inv s -> Inv (fst (step s (MkSend f h))).
Proof.
  intros H0. apply Inv_reset in H0. unfold step. fold (reset s). set (s1 := reset s) in *. clearbody s1.
  destruct (getH h s1) as [x|] eqn:Hg; [|exact H0].
  destruct (h_live x) eqn:Hl; cbn [negb]; [|exact H0].
  destruct (h_tx x && h_async x) eqn:Eta; cbn [negb]; [|exact H0].
  apply andb_prop in Eta. destruct Eta as [Etx Easy].
  destruct (getF f s1) eqn:Hf; [exact H0|].
  destruct (InvH_fresh s1 H0) as [[HD [HW HK]] Ev]. unfold fresh in *. cbn [fst snd ret] in *.
  set (s2 := with_next (next s1 + 1) s1) in *.
  set (xn := mkF false h (Some (next s1)) Waiting false true false).
  split; [|split].
  - destruct HD as [A B C]. constructor; [exact A | exact B |].
    intros u. specialize (C u). unfold tot in *. unfold cells.
    change (fs (setF f xn s2)) with (aset f xn (fs s2)).
    rewrite (cnt_aset_new (cellp u) f xn (fs s2) Hf). fold (cells s2 u).
    unfold cellp. cbn [f_live f_item xn andb occ b2n] in *.
    change (recvd (setF f xn s2)) with (recvd s2). change (q (setF f xn s2)) with (q s2).
    change (back (setF f xn s2)) with (back s2). change (dropped (setF f xn s2)) with (dropped s2).
    change (next (setF f xn s2)) with (next s2).
    destruct (u =? next s1); cbn [b2n]; lia.
  - apply InvW_newF; try assumption; try reflexivity.
    intros _. exists x. split; [exact Hg|]. unfold hok. cbn. rewrite Etx. auto.
  - apply InvK_newF; [exact HK | exact Hf | reflexivity].
Qed.

Lemma step_mkrecv s f h : Inv s -> Inv (fst (step s (MkRecv f h))).
Proof.
  intros H0. apply Inv_reset in H0. unfold step. fold (reset s). set (s1 := reset s) in *. clearbody s1.
  destruct (getH h s1) as [x|] eqn:Hg; [|exact H0].
  destruct (h_live x) eqn:Hl; cbn [negb]; [|exact H0].
  destruct (negb (h_tx x) && h_async x) eqn:Eta; cbn [negb]; [|exact H0].
  apply andb_prop in Eta. destruct Eta as [Etx Easy]. apply negb_true_iff in Etx.
  destruct (getF f s1) eqn:Hf; [exact H0|].
  cbn [ret fst]. destruct H0 as [HD [HW HK]].
  set (xn := mkF true h None Waiting false true false).
  split; [|split].
  - destruct HD as [A B C]. constructor; [exact A | exact B |].
    intros u. specialize (C u). unfold tot in *. unfold cells.
    change (fs (setF f xn s1)) with (aset f xn (fs s1)).
    rewrite (cnt_aset_new (cellp u) f xn (fs s1) Hf). fold (cells s1 u).
    unfold cellp. cbn [f_live f_item xn andb b2n].
    change (recvd (setF f xn s1)) with (recvd s1). change (q (setF f xn s1)) with (q s1).
    change (back (setF f xn s1)) with (back s1). change (dropped (setF f xn s1)) with (dropped s1).
    change (next (setF f xn s1)) with (next s1). cbn [occ] in *. clear - C. lia.
  - apply InvW_newF; try assumption; try reflexivity.
    intros _. exists x. split; [exact Hg|]. unfold hok. cbn. rewrite Etx. auto.
  - apply InvK_newF; [exact HK | exact Hf | reflexivity].
Qed.

Ltac st_goal :=
  cbn [cap fx q sc rc asq arq hs fs next acc recvd back dropped freed tn wk dk bad
       with_q with_sc with_rc with_asq with_arq with_hs with_fs with_next with_acc with_recvd
       with_back with_dropped with_freed with_tn with_wk with_dk with_bad setF setH wake].

(** ** SendFuture::poll *)
Lemma InvD_cell_in f y x' v s :
  InvD [v] s -> NoDup (akeys (fs s)) -> getF f s = Some y -> (forall u, cellp u y = false) ->
  f_live x' = true -> f_item x' = Some v ->
  InvD [] (setF f x' s).
Proof.
  intros [A B C] Hnd Hg Hc Hl Hi. constructor; [exact A | exact B |].
  intros u. specialize (C u). unfold tot in *.
  pose proof (cnt_setF (cellp u) f y x' s Hnd Hg) as E. fold (cells (setF f x' s) u) in E. fold (cells s u) in E.
  rewrite Hc in E. unfold cellp in E. rewrite Hl, Hi in E. cbn [andb occ b2n] in *.
  change (next (setF f x' s)) with (next s). change (recvd (setF f x' s)) with (recvd s).
  change (q (setF f x' s)) with (q s). change (back (setF f x' s)) with (back s). change (dropped (setF f x' s)) with (dropped s).
  destruct (u =? v); cbn [b2n] in E; lia.
Qed.

Lemma not_in_arq_send s f x w : InvW s -> getF f s = Some x -> f_recv x = false -> ~ In (f, w) (arq s).
Proof. intros HW Hg Hr Hi. destruct (w_arq_k s HW f w Hi) as [z [Hz Hrz]]. congruence. Qed.

Lemma not_in_asq_recv s f x w : InvW s -> getF f s = Some x -> f_recv x = true -> ~ In (f, w) (asq s).
Proof. intros HW Hg Hr Hi. destruct (w_asq_k s HW f w Hi) as [z [Hz [Hrz _]]]. congruence. Qed.

(* taking the item out of an unqueued send future (`this.item.take()`) *)
Lemma take_item_W f x0 x' s :
  InvW s -> getF f s = Some x0 -> f_recv x0 = false -> f_recv x' = false -> f_h x' = f_h x0 ->
  (f_live x' = true -> f_live x0 = true) -> f_reg x' = false ->
  (f_reg x0 = true -> is_waiting (f_state x0) = false) ->
  ~ In f (akeys (asq s)) ->
  InvW (setF f x' s).
Proof.
  intros HW Hg Hr0 Hr' Eh El Hreg Hnw Hnq.
  assert (Heq : core_eq (with_arq (arq s) (with_asq (asq s) (setF f x' s))) (setF f x' s)) by core_eq_refl.
  apply (InvW_ext _ _ Heq). apply InvW_upd with x0.
  - exact HW.
  - exact Hg.
  - congruence.
  - exact Eh.
  - exact El.
  - rewrite Hreg. discriminate.
  - apply (w_arq_nd s HW).
  - apply (w_asq_nd s HW).
  - intros f1 w1 Hi. left. split; [|exact Hi]. intros ->. eapply not_in_arq_send; eauto.
  - intros f1 w1 Hi. left. split; [|exact Hi]. intros ->. apply Hnq. eapply In_akeys; eauto.
  - auto.
  - auto.
  - rewrite Hreg. discriminate.
  - intros _ Hi. destruct (akeys_In _ _ Hi) as [w1 Hi1]. exfalso. eapply not_in_arq_send; eauto.
  - intros _ Hi. contradiction.
  - intros _ Hi. destruct (akeys_In _ _ Hi) as [w1 Hi1]. exfalso. eapply not_in_arq_send; eauto.
  - rewrite Hreg. discriminate.
  - intros Hi. destruct (akeys_In _ _ Hi) as [w1 Hi1]. exfalso. eapply not_in_arq_send; eauto.
Qed.

Lemma send_try_inv f w x0 s :
  Inv s -> getF f s = Some x0 -> f_recv x0 = false -> f_live x0 = true -> f_done x0 = false ->
  (f_reg x0 = true -> is_success (f_state x0) = true) ->
  ~ In f (akeys (asq s)) ->
  Inv (fst (send_try f w (set_reg false x0) s)).
Proof.
  intros H Hg Hrv Hl Hd Hsucc Hnq. destruct H as [HD [HW HK]].
  set (x := set_reg false x0).
  assert (Hnw : f_reg x0 = true -> is_waiting (f_state x0) = false).
  { intros E. specialize (Hsucc E). destruct (f_state x0); try discriminate; reflexivity. }
  assert (Eix : f_item x = f_item x0) by reflexivity.
  unfold send_try. rewrite Eix.
  destruct (f_item x0) as [v|] eqn:Ei.
  2:{ (* no item: only an unregistered future can be in that state *)
      cbn [fst].
      assert (Hr0 : f_reg x0 = false).
      { destruct (f_reg x0) eqn:E; [|reflexivity]. exfalso. apply (w_item s HW f x0 Hg Hrv E). exact Ei. }
      split; [|split].
      - apply InvD_setF with x0; [exact HD | apply (w_fnd s HW) | exact Hg |].
        intros u. unfold cellp. cbn. rewrite Ei. reflexivity.
      - apply rec_upd_W with x0; try assumption; try reflexivity; cbn; auto; discriminate.
      - apply rec_upd_K with x0; try assumption. reflexivity. }
  set (x1 := set_item None x).
  set (s0 := setF f x1 s).
  assert (HD0 : InvD [v] s0).
  { apply InvD_cell_out with x0; try assumption; [apply (w_fnd s HW)|]. intros u. unfold cellp. cbn. apply andb_false_r. }
  assert (HW0 : InvW s0).
  { apply take_item_W with x0; try assumption; try reflexivity. cbn. auto. }
  assert (G0 : getF f s0 = Some x1) by (unfold s0; rewrite getF_setF, N.eqb_refl; reflexivity).
  destruct (cnt4 f x0 x1 s s0 (w_fnd s HW) Hg eq_refl) as (C1 & C2 & C3 & C4).
  assert (P1 : pw_r x1 = false /\ pi_r x1 = false /\ pw_s x1 = false /\ pi_s x1 = false) by (apply preds_unreg; reflexivity).
  destruct P1 as (P1&P2&P3&P4). rewrite P1 in C1. rewrite P2 in C2. rewrite P3 in C3. rewrite P4 in C4.
  assert (Q1 : pw_r x0 = false) by (unfold pw_r; rewrite Hrv; reflexivity).
  assert (Q2 : pi_r x0 = false) by (unfold pi_r; rewrite Hrv; reflexivity).
  assert (Q3 : pw_s x0 = false).
  { unfold pw_s. destruct (f_reg x0) eqn:E; [rewrite (Hnw eq_refl)|]; rewrite ?andb_false_r; reflexivity. }
  rewrite Q1 in C1. rewrite Q2 in C2. rewrite Q3 in C3. unfold b2n in C1, C2, C3. cbn [b2n] in C4.
  assert (Q4 : (b2n (pi_s x0) <= 1)%nat) by (clear; unfold b2n; destruct (pi_s x0); lia).
  destruct HK as [K1 K2 K3]. fold (nq s) in K2, K3. fold (ncap s) in K3.
  assert (Ecell0 : forall u, cellp u x1 = false) by (intros u; unfold cellp; cbn; apply andb_false_r).
  pose proof (try_send_core_core v s0 HD0 HW0) as Hs.
  destruct (try_send_core v s0) as [s1 [| |]]; cbn [fst].
  - (* accepted *)
    destruct Hs as (HD1 & HW1 & Hrc & Hlt & Hnq1 & Hq1 & Fr & Hasq & (Es1 & Es2 & b & Hb & Er1 & Er2 & Er3) & Hkeep).
    destruct Fr as (Fcap & Ffx & Fsc & Frc & Fhs & Fnext & Fback & Fdropped & Ffreed & Ftn & Fdk).
    assert (G1 : getF f s1 = Some x1) by (apply Hkeep; [exact G0 | exact Hrv]).
    set (xd := set_done (set_reg false (set_item None x))).
    assert (Pd : f_reg xd = false) by reflexivity.
    destruct (preds_unreg xd Pd) as (D1&D2&D3&D4).
    split; [|split].
    + apply InvD_setF with x1; [exact HD1 | apply (w_fnd s1 HW1) | exact G1 |].
      intros u. rewrite Ecell0. unfold cellp. cbn. apply andb_false_r.
    + apply rec_upd_W with x1; try assumption; try reflexivity; cbn; auto; discriminate.
    + apply InvK_intro.
      * st_goal. rewrite Ftn, Fhs, Fsc, Frc. exact K1.
      * pose proof (rec_upd_cnt pw_r f x1 xd s1 HW1 G1 P1 D1) as U1.
        pose proof (rec_upd_cnt pi_r f x1 xd s1 HW1 G1 P2 D2) as U2.
        unfold nq. st_goal. fold (nq s1). rewrite Ftn. intros T1 T2. specialize (K2 T1 T2).
        change (fs (setF f xd s1)) with (aset f xd (fs s1)) in U1, U2. subst xd x1. rewrite U1, U2.
        change (tn s0) with (tn s) in Er3. change (nq s0) with (nq s) in Hnq1.
        clear - K2 C1 C2 Er1 Er2 Er3 Hnq1 Hb T1. destruct b as [|[|b]]; [specialize (Er3 eq_refl T1) | | ]; lia.
      * pose proof (rec_upd_cnt pw_s f x1 xd s1 HW1 G1 P3 D3) as U1.
        pose proof (rec_upd_cnt pi_s f x1 xd s1 HW1 G1 P4 D4) as U2.
        unfold nq, ncap. st_goal. fold (nq s1). fold (ncap s1). rewrite Ftn. intros T. specialize (K3 T).
        change (fs (setF f xd s1)) with (aset f xd (fs s1)) in U1, U2. subst xd x1. rewrite U1, U2.
        assert (Ec : ncap s1 = ncap s) by (unfold ncap; rewrite Fcap; reflexivity).
        change (nq s0) with (nq s) in Hnq1.
        clear - K3 C3 C4 Es1 Es2 Hnq1 Q4 Ec. lia.
  - (* full: put the item back and park *)
    destruct Hs as (-> & Hrc & Hfull).
    set (xw := set_reg true (set_state Waiting x)).
    assert (Heq : core_eq (with_arq (arq s0) (with_asq (asq s0 ++ [(f, w)]) (setF f xw s0)))
                          (with_asq (asq s0 ++ [(f, w)]) (setF f xw s0))) by core_eq_refl.
    assert (Hnq0 : ~ In f (akeys (asq s0))) by exact Hnq.
    split; [|split].
    + apply (InvD_ext [] _ _ Heq).
      assert (HDx : InvD [] (setF f xw s0)).
      { apply InvD_cell_in with x1 v; try assumption; try reflexivity; try apply (w_fnd s0 HW0). }
      destruct HDx as [A B C]. constructor; [exact A | exact B | exact C].
    + apply (InvW_ext _ _ Heq). apply InvW_upd with x1.
      * exact HW0.
      * exact G0.
      * reflexivity.
      * reflexivity.
      * cbn. auto.
      * cbn. auto.
      * apply (w_arq_nd s0 HW0).
      * rewrite akeys_app. apply NoDup_app_single; [apply (w_asq_nd s0 HW0) | exact Hnq0].
      * intros f1 w1 Hi. left. split; [|exact Hi]. intros ->. eapply (not_in_arq_send s0); eauto.
      * intros f1 w1 Hi. apply in_app_or in Hi. destruct Hi as [Hi|[Hi|[]]].
        -- left. split; [|exact Hi]. intros ->. apply Hnq0. eapply In_akeys; eauto.
        -- inversion Hi; subst. right. cbn. auto.
      * auto.
      * intros f1 _ Hi. rewrite akeys_app. apply in_or_app. left. exact Hi.
      * intros _ _. change (f_recv x1) with (f_recv x0). rewrite Hrv. rewrite akeys_app. apply in_or_app. right. left. reflexivity.
      * intros _ Hi. destruct (akeys_In _ _ Hi) as [w1 Hi1]. exfalso. eapply (not_in_arq_send s0); eauto.
      * intros E. exfalso. apply Hrc. exact E.
      * intros _ Hi. destruct (akeys_In _ _ Hi) as [w1 Hi1]. exfalso. eapply (not_in_arq_send s0); eauto.
      * intros _ _. cbn. rewrite Ei. discriminate.
      * intros Hi. destruct (akeys_In _ _ Hi) as [w1 Hi1]. exfalso. eapply (not_in_arq_send s0); eauto.
    + destruct (cnt4 f x1 xw s0 (with_asq (asq s0 ++ [(f, w)]) (setF f xw s0)) (w_fnd s0 HW0) G0 eq_refl) as (E1 & E2 & E3 & E4).
      rewrite P1 in E1. rewrite P2 in E2. rewrite P3 in E3. rewrite P4 in E4.
      assert (W1 : pw_r xw = false) by (unfold pw_r; cbn; rewrite Hrv; reflexivity).
      assert (W2 : pi_r xw = false) by (unfold pi_r; cbn; rewrite Hrv; reflexivity).
      assert (W3 : pw_s xw = true) by (unfold pw_s; cbn; rewrite Hrv; reflexivity).
      assert (W4 : pi_s xw = false) by (unfold pi_s; cbn; rewrite Hrv; reflexivity).
      rewrite W1 in E1. rewrite W2 in E2. rewrite W3 in E3. rewrite W4 in E4. unfold b2n in E1, E2, E3, E4.
      apply InvK_intro.
      * exact K1.
      * intros T1 T2. specialize (K2 T1 T2).
        change (nq (with_asq (asq s0 ++ [(f, w)]) (setF f xw s0))) with (nq s).
        clear - K2 C1 C2 E1 E2. lia.
      * intros _. right.
        change (nq (with_asq (asq s0 ++ [(f, w)]) (setF f xw s0))) with (nq s).
        change (ncap (with_asq (asq s0 ++ [(f, w)]) (setF f xw s0))) with (ncap s).
        change (nq s0) with (nq s) in Hfull. change (ncap s0) with (ncap s) in Hfull.
        clear - Hfull. lia.
  - (* all receivers gone: put the item back, fail *)
    destruct Hs as (-> & Hrc).
    set (xc := set_done (set_reg false x)).
    split; [|split].
    + apply InvD_cell_in with x1 v; try assumption; try reflexivity; try apply (w_fnd s0 HW0).
    + apply rec_upd_W with x1; try assumption; try reflexivity; cbn; auto; discriminate.
    + assert (Pc : f_reg xc = false) by reflexivity.
      destruct (preds_unreg xc Pc) as (D1&D2&D3&D4).
      apply InvK_intro.
      * exact K1.
      * intros T1 T2. specialize (K2 T1 T2). change (nq (setF f xc s0)) with (nq s).
        rewrite (rec_upd_cnt pw_r f x1 xc s0 HW0 G0 P1 D1), (rec_upd_cnt pi_r f x1 xc s0 HW0 G0 P2 D2).
        clear - K2 C1 C2. lia.
      * intros _. left. rewrite (rec_upd_cnt pw_s f x1 xc s0 HW0 G0 P3 D3).
        apply no_waiting_s; [exact HW0|]. apply (w_rc0 s0 HW0). exact Hrc.
Qed.

Lemma set_reg_same x : f_reg x = false -> set_reg false x = x.
Proof. destruct x. cbn. intros ->. reflexivity. Qed.

(* only the entry list of the send queue changes (same keys except possibly f's entry is dropped) *)
Lemma Inv_asq asq' f s :
  Inv s -> NoDup (akeys asq') ->
  (forall f1 w1, In (f1, w1) asq' -> exists w2, In (f1, w2) (asq s)) ->
  (forall f1, f1 <> f -> In f1 (akeys (asq s)) -> In f1 (akeys asq')) ->
  (In f (akeys (asq s)) -> In f (akeys asq') \/
     forall x, getF f s = Some x -> is_waiting (f_state x) = false) ->
  Inv (with_asq asq' s).
Proof.
  intros [HD [HW HK]] Hnd Hsub Hkeep Hf. split; [|split].
  - destruct HD. constructor; unfold nq, ncap, tot, cells in *; st_simpl; assumption.
  - destruct HW. constructor; unfold any_live in *; st_simpl; try assumption.
    + intros f1 w1 Hi. destruct (Hsub f1 w1 Hi) as [w2 Hi2]. apply (w_asq_k f1 w2 Hi2).
    + intros f1 y Hy Hrg Hwy. change (getF f1 s = Some y) in Hy. specialize (w_wq f1 y Hy Hrg Hwy).
      destruct (f_recv y); [exact w_wq|].
      destruct (N.eq_dec f1 f) as [->|Hne]; [|apply Hkeep; assumption].
      destruct (Hf w_wq) as [Hin|Hnw]; [exact Hin|]. rewrite (Hnw y Hy) in Hwy. discriminate.
    + intros Hrc f1 w1 y Hi Hy. destruct (Hsub f1 w1 Hi) as [w2 Hi2]. apply (w_rc0 Hrc f1 w2 y Hi2 Hy).
  - destruct HK. constructor; unfold nq, ncap in *; st_simpl; assumption.
Qed.

Lemma Inv_arq arq' f s :
  Inv s -> NoDup (akeys arq') ->
  (forall f1 w1, In (f1, w1) arq' -> exists w2, In (f1, w2) (arq s)) ->
  (forall f1, f1 <> f -> In f1 (akeys (arq s)) -> In f1 (akeys arq')) ->
  (In f (akeys (arq s)) -> In f (akeys arq') \/
     forall x, getF f s = Some x -> is_waiting (f_state x) = false) ->
  Inv (with_arq arq' s).
Proof.
  intros [HD [HW HK]] Hnd Hsub Hkeep Hf. split; [|split].
  - destruct HD. constructor; unfold nq, ncap, tot, cells in *; st_simpl; assumption.
  - destruct HW. constructor; unfold any_live in *; st_simpl; try assumption.
    + intros f1 w1 Hi. destruct (Hsub f1 w1 Hi) as [w2 Hi2]. apply (w_arq_k f1 w2 Hi2).
    + intros f1 y Hy Hrg Hwy. change (getF f1 s = Some y) in Hy. specialize (w_wq f1 y Hy Hrg Hwy).
      destruct (f_recv y); [|exact w_wq].
      destruct (N.eq_dec f1 f) as [->|Hne]; [|apply Hkeep; assumption].
      destruct (Hf w_wq) as [Hin|Hnw]; [exact Hin|]. rewrite (Hnw y Hy) in Hwy. discriminate.
    + intros Hsc f1 w1 y Hi Hy. destruct (Hsub f1 w1 Hi) as [w2 Hi2]. apply (w_sc0 Hsc f1 w2 y Hi2 Hy).
    + intros T f1 w1 Hi. destruct (Hsub f1 w1 Hi) as [w2 Hi2]. apply (w_arq_reg T f1 w2 Hi2).
    + intros f1 w1 y Hi Hy. destruct (Hsub f1 w1 Hi) as [w2 Hi2]. apply (w_arq_st f1 w2 y Hi2 Hy).
  - destruct HK. constructor; unfold nq, ncap in *; st_simpl; assumption.
Qed.

Lemma poll_send_inv f w x s :
  Inv s -> getF f s = Some x -> f_recv x = false -> f_live x = true -> f_done x = false ->
  Inv (fst (poll_send f w x s)).
Proof.
  intros H Hg Hrv Hl Hd. unfold poll_send.
  pose proof (proj1 (proj2 H)) as HW.
  destruct (f_reg x) eqn:Hreg.
  2:{ rewrite <- (set_reg_same x Hreg). apply send_try_inv; try assumption.
      - rewrite Hreg. discriminate.
      - intros Hi. destruct (akeys_In _ _ Hi) as [w1 Hi1].
        destruct (w_asq_k s HW f w1 Hi1) as [z [Hz [_ Hrz]]]. congruence. }
  rewrite (remove_first_unlink f (asq s) (w_asq_nd s HW)).
  destruct (f_state x) eqn:Est.
  - (* still WAITING *)
    destruct (queued f (asq s)) eqn:Eq; cbn [fst].
    + apply Inv_asq with f; try assumption.
      * rewrite set_waker_keys. apply (w_asq_nd s HW).
      * intros f1 w1 Hi. eapply set_waker_In; eauto.
      * intros f1 _ Hi. rewrite set_waker_keys. exact Hi.
      * intros Hi. left. rewrite set_waker_keys. exact Hi.
    + apply InvH_wake. exact H.
  - (* CLOSED-woken *)
    cbn [fst].
    set (xd := set_done (set_reg false x)).
    assert (Heq : core_eq (with_arq (arq s) (with_asq (unlink f (asq s)) (setF f xd s)))
                          (with_asq (unlink f (asq s)) (setF f xd s))) by core_eq_refl.
    destruct H as [HD [_ HK]].
    split; [|split].
    + apply (InvD_ext [] _ _ Heq). apply InvD_upd with x; [exact HD | apply (w_fnd s HW) | exact Hg | reflexivity].
    + apply (InvW_ext _ _ Heq). apply InvW_upd with x.
      * exact HW.
      * exact Hg.
      * reflexivity.
      * reflexivity.
      * cbn. auto.
      * cbn. discriminate.
      * apply (w_arq_nd s HW).
      * apply unlink_NoDup, (w_asq_nd s HW).
      * intros f1 w1 Hi. left. split; [|exact Hi]. intros ->. eapply not_in_arq_send; eauto.
      * intros f1 w1 Hi. apply unlink_In in Hi. destruct Hi as [Hi Hne]. left. auto.
      * auto.
      * intros f1 Hne Hi. apply unlink_keys. auto.
      * cbn. discriminate.
      * intros _ Hi. destruct (akeys_In _ _ Hi) as [w1 Hi1]. exfalso. eapply not_in_arq_send; eauto.
      * intros _ Hi. apply unlink_keys in Hi. destruct Hi as [_ Hi]. contradiction.
      * intros _ Hi. destruct (akeys_In _ _ Hi) as [w1 Hi1]. exfalso. eapply not_in_arq_send; eauto.
      * cbn. discriminate.
      * intros Hi. destruct (akeys_In _ _ Hi) as [w1 Hi1]. exfalso. eapply not_in_arq_send; eauto.
    + destruct HK as [K1 K2 K3]. fold (nq s) in K2, K3. fold (ncap s) in K3.
      destruct (cnt4 f x xd s (with_asq (unlink f (asq s)) (setF f xd s)) (w_fnd s HW) Hg eq_refl) as (C1 & C2 & C3 & C4).
      assert (Pd : f_reg xd = false) by reflexivity.
      destruct (preds_unreg xd Pd) as (D1&D2&D3&D4). rewrite D1 in C1. rewrite D2 in C2. rewrite D3 in C3. rewrite D4 in C4.
      assert (Q1 : pw_r x = false) by (unfold pw_r; rewrite Hrv; reflexivity).
      assert (Q2 : pi_r x = false) by (unfold pi_r; rewrite Hrv; reflexivity).
      assert (Q3 : pw_s x = false) by (unfold pw_s; rewrite Est; cbn; apply andb_false_r).
      assert (Q4 : pi_s x = false) by (unfold pi_s; rewrite Est; cbn; apply andb_false_r).
      rewrite Q1 in C1. rewrite Q2 in C2. rewrite Q3 in C3. rewrite Q4 in C4. unfold b2n in *.
      apply InvK_intro.
      * exact K1.
      * intros T1 T2. specialize (K2 T1 T2). change (nq (with_asq (unlink f (asq s)) (setF f xd s))) with (nq s).
        clear - K2 C1 C2. lia.
      * intros T. specialize (K3 T). change (nq (with_asq (unlink f (asq s)) (setF f xd s))) with (nq s).
        change (ncap (with_asq (unlink f (asq s)) (setF f xd s))) with (ncap s).
        clear - K3 C3 C4. lia.
  - (* woken with SUCCESS_SPACE: unlink (the non-last-receiver nudge leaves the entry), then retry *)
    assert (H1 : Inv (with_asq (unlink f (asq s)) s)).
    { apply Inv_asq with f; try assumption.
      - apply unlink_NoDup, (w_asq_nd s HW).
      - intros f1 w1 Hi. apply unlink_In in Hi. exists w1. tauto.
      - intros f1 Hne Hi. apply unlink_keys. auto.
      - intros _. right. intros y Hy. rewrite Hg in Hy. inversion Hy; subst y. rewrite Est. reflexivity. }
    apply send_try_inv; try assumption.
    + intros _. rewrite Est. reflexivity.
    + st_goal. intros Hi. apply unlink_keys in Hi. destruct Hi as [_ Hi]. contradiction.
  - (* CANCELLED is never seen by a live future; the code treats it like WAITING *)
    destruct (queued f (asq s)) eqn:Eq; cbn [fst].
    + apply Inv_asq with f; try assumption.
      * rewrite set_waker_keys. apply (w_asq_nd s HW).
      * intros f1 w1 Hi. eapply set_waker_In; eauto.
      * intros f1 _ Hi. rewrite set_waker_keys. exact Hi.
      * intros Hi. left. rewrite set_waker_keys. exact Hi.
    + apply InvH_wake. exact H.
Qed.

(** ** RecvFuture::poll *)
(* K-part bookkeeping shared by the receive-side transitions: the effect of one future's record
   change on the four counters, given the values of the predicates before and after *)
Lemma K_after (s s' : st) (dr_w dr_i : nat) (nr_w nr_i : nat) :
  InvK s ->
  tn s' = tn s -> hs s' = hs s -> sc s' = sc s -> rc s' = rc s -> ncap s' = ncap s ->
  (cnt pw_r (fs s') + dr_w = cnt pw_r (fs s) + nr_w)%nat ->
  (cnt pi_r (fs s') + dr_i = cnt pi_r (fs s) + nr_i)%nat ->
  (t12 (tn s) = false -> cnt pw_s (fs s') = 0%nat \/ (ncap s <= nq s' + cnt pi_s (fs s'))%nat) ->
  (t06 (tn s) = false -> t12 (tn s) = false ->
   (cnt pw_r (fs s) = 0%nat \/ (nq s <= cnt pi_r (fs s))%nat) ->
   (cnt pw_r (fs s) + nr_w - dr_w = 0)%nat \/ (nq s' <= cnt pi_r (fs s) + nr_i - dr_i)%nat) ->
  InvK s'.
Proof.
  intros [K1 K2 K3] Et Eh Es Er Ec C1 C2 Hs Hr. fold (nq s) in K2, K3. fold (ncap s) in K3.
  apply InvK_intro.
  - rewrite Et, Eh, Es, Er. exact K1.
  - rewrite Et. intros T1 T2. specialize (Hr T1 T2 (K2 T1 T2)). clear - Hr C1 C2. lia.
  - rewrite Et, Ec. exact Hs.
Qed.

(* K3 after try_recv_core popped one item *)
Lemma K3_after_pop s s1 :
  InvK s -> eff_s s s1 -> (nq s = nq s1 + 1)%nat ->
  t12 (tn s) = false -> cnt pw_s (fs s1) = 0%nat \/ (ncap s <= nq s1 + cnt pi_s (fs s1))%nat.
Proof.
  intros [_ _ K3] (_ & _ & b & Hb & E1 & E2 & E3) Hq T. fold (nq s) in K3. fold (ncap s) in K3. specialize (K3 T).
  clear - K3 Hb E1 E2 E3 Hq. destruct b as [|[|b]]; [specialize (E3 eq_refl) | |]; lia.
Qed.

(* the record of a receive future f that is not queued is replaced by an unregistered one *)
Lemma unq_done f x0 xd s :
  InvD [] s -> InvW s -> getF f s = Some x0 -> f_recv x0 = true ->
  ~ In f (akeys (arq s)) ->
  f_recv xd = true -> f_h xd = f_h x0 -> f_live xd = f_live x0 -> f_item xd = f_item x0 -> f_reg xd = false ->
  InvD [] (setF f xd s) /\ InvW (setF f xd s).
Proof.
  intros HD HW Hg Hrv Hnq E1 E2 E3 E4 E5.
  split.
  - apply InvD_setF with x0; [exact HD | apply (w_fnd s HW) | exact Hg |].
    intros u. unfold cellp. rewrite E3, E4. reflexivity.
  - assert (Heq : core_eq (with_arq (arq s) (with_asq (asq s) (setF f xd s))) (setF f xd s)) by core_eq_refl.
    apply (InvW_ext _ _ Heq). apply InvW_upd with x0.
    + exact HW.
    + exact Hg.
    + congruence.
    + exact E2.
    + rewrite E3. auto.
    + rewrite E5. discriminate.
    + apply (w_arq_nd s HW).
    + apply (w_asq_nd s HW).
    + intros f1 w1 Hi. left. split; [|exact Hi]. intros ->. apply Hnq. eapply In_akeys; eauto.
    + intros f1 w1 Hi. left. split; [|exact Hi]. intros ->. eapply not_in_asq_recv; eauto.
    + auto.
    + auto.
    + rewrite E5. discriminate.
    + intros _ Hi. contradiction.
    + intros _ Hi. destruct (akeys_In _ _ Hi) as [w1 Hi1]. exfalso. eapply not_in_asq_recv; eauto.
    + intros _ Hi. contradiction.
    + rewrite E1. discriminate.
    + intros Hi. contradiction.
Qed.

(* registering the waiter (f, w): poll_recv_internal's `push_back` *)
Lemma reg_recv f w x0 xw s :
  InvD [] s -> InvW s -> getF f s = Some x0 -> f_recv x0 = true -> f_live x0 = true -> f_done x0 = false ->
  ~ In f (akeys (arq s)) -> sc s <> 0 ->
  f_recv xw = true -> f_h xw = f_h x0 -> f_live xw = true -> f_done xw = false -> f_item xw = f_item x0 ->
  f_reg xw = true -> f_state xw = Waiting ->
  InvD [] (with_arq (arq s ++ [(f, w)]) (setF f xw s)) /\ InvW (with_arq (arq s ++ [(f, w)]) (setF f xw s)).
Proof.
  intros HD HW Hg Hrv Hl Hd Hnq Hsc E1 E2 E3 E4 E5 E6 E7.
  assert (Heq : core_eq (with_arq (arq s ++ [(f, w)]) (with_asq (asq s) (setF f xw s)))
                        (with_arq (arq s ++ [(f, w)]) (setF f xw s))) by core_eq_refl.
  split.
  - apply (InvD_ext [] _ _ Heq). apply InvD_upd with x0; [exact HD | apply (w_fnd s HW) | exact Hg |].
    intros u. unfold cellp. rewrite E3, E5, Hl. reflexivity.
  - apply (InvW_ext _ _ Heq). apply InvW_upd with x0.
    + exact HW.
    + exact Hg.
    + congruence.
    + exact E2.
    + auto.
    + auto.
    + rewrite akeys_app. apply NoDup_app_single; [apply (w_arq_nd s HW) | exact Hnq].
    + apply (w_asq_nd s HW).
    + intros f1 w1 Hi. apply in_app_or in Hi. destruct Hi as [Hi|[Hi|[]]].
      * left. split; [|exact Hi]. intros ->. apply Hnq. eapply In_akeys; eauto.
      * inversion Hi; subst. right. auto.
    + intros f1 w1 Hi. left. split; [|exact Hi]. intros ->. eapply not_in_asq_recv; eauto.
    + intros f1 _ Hi. rewrite akeys_app. apply in_or_app. left. exact Hi.
    + auto.
    + intros _ _. rewrite Hrv. rewrite akeys_app. apply in_or_app. right. left. reflexivity.
    + intros E. contradiction.
    + intros _ Hi. destruct (akeys_In _ _ Hi) as [w1 Hi1]. exfalso. eapply not_in_asq_recv; eauto.
    + intros _ _. exact E6.
    + rewrite E1. discriminate.
    + intros _. rewrite E7. split; [reflexivity | intros _; exact E6].
Qed.

Lemma preds_recv_unq x0 :
  f_recv x0 = true -> (f_reg x0 = true -> is_waiting (f_state x0) = false) ->
  pw_r x0 = false /\ pw_s x0 = false /\ pi_s x0 = false /\ (b2n (pi_r x0) <= 1)%nat.
Proof.
  intros Hr Hn. unfold pw_r, pw_s, pi_s. rewrite Hr. cbn [negb andb]. repeat split.
  - destruct (f_reg x0) eqn:E; [rewrite (Hn eq_refl)|]; reflexivity.
  - unfold b2n. destruct (pi_r x0); lia.
Qed.

(* recv_try for a future whose waiter is not queued (fresh, woken, or CLOSED-woken and unlinked) *)
Lemma recv_try_unq f w x0 s :
  Inv s -> getF f s = Some x0 -> f_recv x0 = true -> f_live x0 = true -> f_done x0 = false ->
  (f_reg x0 = true -> is_waiting (f_state x0) = false) ->
  ~ In f (akeys (arq s)) ->
  Inv (fst (recv_try f w false (set_reg false x0) s)).
Proof.
  intros H Hg Hrv Hl Hd Hnw Hnq. destruct H as [HD [HW HK]].
  set (x := set_reg false x0).
  destruct (preds_recv_unq x0 Hrv Hnw) as (Q1 & Q3 & Q4 & Q2).
  unfold recv_try.
  pose proof (try_recv_core_core [] s HD HW) as Hs.
  destruct (try_recv_core s) as [s1 [v| |]]; cbn [fst].
  - (* a value: complete *)
    destruct Hs as (HD1 & HW1 & Hq & Hrecvd & Fr & Harq & Hacc & Eff & Hkeep).
    destruct Fr as (Fcap & Ffx & Fsc & Frc & Fhs & Fnext & Fback & Fdropped & Ffreed & Ftn & Fdk).
    assert (G1 : getF f s1 = Some x0) by (apply Hkeep; assumption).
    set (xd := set_done (set_reg false x)).
    assert (Hnq1 : ~ In f (akeys (arq s1))) by (rewrite Harq; exact Hnq).
    destruct (unq_done f x0 xd s1 HD1 HW1 G1 Hrv Hnq1 Hrv eq_refl eq_refl eq_refl eq_refl) as [HD2 HW2].
    split; [exact HD2|]. split; [exact HW2|].
    destruct (cnt4 f x0 xd s1 (setF f xd s1) (w_fnd s1 HW1) G1 eq_refl) as (C1 & C2 & C3 & C4).
    destruct (preds_unreg xd eq_refl) as (D1&D2&D3&D4).
    rewrite D1, Q1 in C1. rewrite D2 in C2. rewrite D3, Q3 in C3. rewrite D4, Q4 in C4. cbn [b2n] in C1, C2, C3, C4.
    destruct Eff as (Er1 & Er2 & Es).
    assert (Hlen : nq s = (nq s1 + 1)%nat) by (unfold nq; rewrite Hq; cbn [length]; clear; lia).
    apply (K_after s (setF f xd s1) 0 (b2n (pi_r x0)) 0 0 HK).
    + exact Ftn.
    + exact Fhs.
    + exact Fsc.
    + exact Frc.
    + unfold ncap. st_goal. rewrite Fcap. reflexivity.
    + rewrite <- Er1. clear - C1. lia.
    + rewrite <- Er2. clear - C2. lia.
    + intros T. pose proof (K3_after_pop s s1 HK (conj Er1 (conj Er2 Es)) Hlen T) as K.
      change (nq (setF f xd s1)) with (nq s1). clear - K C3 C4. lia.
    + intros _ _ K. change (nq (setF f xd s1)) with (nq s1). clear - K Hlen Q2. lia.
  - (* empty: park *)
    destruct Hs as (-> & Hq & Hsc).
    assert (Eq : queued f (arq s) = false) by (apply queued_false; exact Hnq).
    rewrite Eq. cbn [fst].
    set (xw := set_reg true (set_state Waiting x)).
    destruct (reg_recv f w x0 xw s HD HW Hg Hrv Hl Hd Hnq Hsc Hrv eq_refl Hl Hd eq_refl eq_refl eq_refl) as [HD2 HW2].
    split; [exact HD2|]. split; [exact HW2|].
    destruct (cnt4 f x0 xw s (with_arq (arq s ++ [(f, w)]) (setF f xw s)) (w_fnd s HW) Hg eq_refl) as (C1 & C2 & C3 & C4).
    assert (W1 : pw_r xw = true) by (unfold pw_r; cbn; rewrite Hrv; reflexivity).
    assert (W2 : pi_r xw = false) by (unfold pi_r; cbn; rewrite Hrv; reflexivity).
    assert (W3 : pw_s xw = false) by (unfold pw_s; cbn; rewrite Hrv; reflexivity).
    assert (W4 : pi_s xw = false) by (unfold pi_s; cbn; rewrite Hrv; reflexivity).
    rewrite W1, Q1 in C1. rewrite W2 in C2. rewrite W3, Q3 in C3. rewrite W4, Q4 in C4. cbn [b2n] in C1, C2, C3, C4.
    apply (K_after s (with_arq (arq s ++ [(f, w)]) (setF f xw s)) 0 (b2n (pi_r x0)) 1 0 HK); try reflexivity.
    + clear - C1. lia.
    + clear - C2. lia.
    + intros T. destruct HK as [_ _ K3]. fold (nq s) in K3. fold (ncap s) in K3. specialize (K3 T).
      change (nq (with_arq (arq s ++ [(f, w)]) (setF f xw s))) with (nq s). clear - K3 C3 C4. lia.
    + intros _ _ _. right. change (nq (with_arq (arq s ++ [(f, w)]) (setF f xw s))) with (nq s).
      unfold nq. rewrite Hq. cbn [length]. clear. lia.
  - (* disconnected and drained: complete *)
    destruct Hs as (-> & Hq & Hsc).
    set (xd := set_done (set_reg false x)).
    destruct (unq_done f x0 xd s HD HW Hg Hrv Hnq Hrv eq_refl eq_refl eq_refl eq_refl) as [HD2 HW2].
    split; [exact HD2|]. split; [exact HW2|].
    destruct (cnt4 f x0 xd s (setF f xd s) (w_fnd s HW) Hg eq_refl) as (C1 & C2 & C3 & C4).
    destruct (preds_unreg xd eq_refl) as (D1&D2&D3&D4).
    rewrite D1, Q1 in C1. rewrite D2 in C2. rewrite D3, Q3 in C3. rewrite D4, Q4 in C4. cbn [b2n] in C1, C2, C3, C4.
    apply (K_after s (setF f xd s) 0 (b2n (pi_r x0)) 0 0 HK); try reflexivity.
    + clear - C1. lia.
    + clear - C2. lia.
    + intros T. destruct HK as [_ _ K3]. fold (nq s) in K3. fold (ncap s) in K3. specialize (K3 T).
      change (nq (setF f xd s)) with (nq s). clear - K3 C3 C4. lia.
    + intros _ _ _. right. change (nq (setF f xd s)) with (nq s). unfold nq. rewrite Hq. cbn [length]. clear. lia.
Qed.

(* completing a registered receive future whose entry (if any) is unlinked — the repaired Ready path *)
Lemma q_done_unlink f x0 xd s :
  InvD [] s -> InvW s -> getF f s = Some x0 -> f_recv x0 = true ->
  f_recv xd = true -> f_h xd = f_h x0 -> f_live xd = f_live x0 -> f_item xd = f_item x0 -> f_reg xd = false ->
  InvD [] (with_arq (unlink f (arq s)) (setF f xd s)) /\ InvW (with_arq (unlink f (arq s)) (setF f xd s)).
Proof.
  intros HD HW Hg Hrv E1 E2 E3 E4 E5.
  assert (Heq : core_eq (with_arq (unlink f (arq s)) (with_asq (asq s) (setF f xd s)))
                        (with_arq (unlink f (arq s)) (setF f xd s))) by core_eq_refl.
  split.
  - apply (InvD_ext [] _ _ Heq). apply InvD_upd with x0; [exact HD | apply (w_fnd s HW) | exact Hg |].
    intros u. unfold cellp. rewrite E3, E4. reflexivity.
  - apply (InvW_ext _ _ Heq). apply InvW_upd with x0.
    + exact HW.
    + exact Hg.
    + congruence.
    + exact E2.
    + rewrite E3. auto.
    + rewrite E5. discriminate.
    + apply unlink_NoDup, (w_arq_nd s HW).
    + apply (w_asq_nd s HW).
    + intros f1 w1 Hi. apply unlink_In in Hi. destruct Hi as [Hi Hne]. left. auto.
    + intros f1 w1 Hi. left. split; [|exact Hi]. intros ->. eapply not_in_asq_recv; eauto.
    + intros f1 Hne Hi. apply unlink_keys. auto.
    + auto.
    + rewrite E5. discriminate.
    + intros _ Hi. apply unlink_keys in Hi. destruct Hi as [_ Hi]. contradiction.
    + intros _ Hi. destruct (akeys_In _ _ Hi) as [w1 Hi1]. exfalso. eapply not_in_asq_recv; eauto.
    + intros _ Hi. apply unlink_keys in Hi. destruct Hi as [_ Hi]. contradiction.
    + rewrite E1. discriminate.
    + intros Hi. apply unlink_keys in Hi. destruct Hi as [_ Hi]. contradiction.
Qed.

(* ... and the same with the entry left behind (the code as it is): the F-06 event *)
Lemma q_done_stale f x0 xd s :
  InvD [] s -> InvW s -> getF f s = Some x0 -> f_recv x0 = true -> is_success (f_state x0) = false ->
  fx06 (fx s) = false ->
  f_recv xd = true -> f_h xd = f_h x0 -> f_live xd = f_live x0 -> f_item xd = f_item x0 -> f_reg xd = false ->
  f_state xd = f_state x0 -> f_done xd = true ->
  InvD [] (with_tn (set_t06 (tn s)) (setF f xd s)) /\ InvW (with_tn (set_t06 (tn s)) (setF f xd s)).
Proof.
  intros HD HW Hg Hrv Hns Hfx E1 E2 E3 E4 E5 E6 E7.
  set (s' := with_tn (set_t06 (tn s)) s).
  assert (HD' : InvD [] s') by (apply InvD_with_tn; exact HD).
  assert (HW' : InvW s').
  { apply InvW_with_tn; [exact HW | apply tle_set_t06 | apply ok_set_t06; [apply (w_taint s HW) | exact Hfx]]. }
  assert (Heq : core_eq (with_arq (arq s') (with_asq (asq s') (setF f xd s'))) (with_tn (set_t06 (tn s)) (setF f xd s)))
    by (subst s'; core_eq_refl).
  split.
  - apply (InvD_ext [] _ _ Heq). apply InvD_upd with x0; [exact HD' | apply (w_fnd s' HW') | exact Hg |].
    intros u. unfold cellp. rewrite E3, E4. reflexivity.
  - apply (InvW_ext _ _ Heq). apply InvW_upd with x0.
    + exact HW'.
    + exact Hg.
    + congruence.
    + exact E2.
    + rewrite E3. auto.
    + rewrite E5. discriminate.
    + apply (w_arq_nd s' HW').
    + apply (w_asq_nd s' HW').
    + intros f1 w1 Hi. destruct (N.eq_dec f1 f) as [->|Hne]; [right; auto | left; auto].
    + intros f1 w1 Hi. left. split; [|exact Hi]. intros ->. eapply (not_in_asq_recv s'); eauto.
    + auto.
    + auto.
    + rewrite E5. discriminate.
    + intros Hsc Hi. destruct (akeys_In _ _ Hi) as [w1 Hi1]. rewrite E6. apply (w_sc0 s' HW' Hsc f w1 x0 Hi1 Hg).
    + intros _ Hi. destruct (akeys_In _ _ Hi) as [w1 Hi1]. exfalso. eapply (not_in_asq_recv s'); eauto.
    + cbn. discriminate.
    + rewrite E1. discriminate.
    + intros _. rewrite E6. split; [exact Hns | rewrite E7; discriminate].
Qed.

Lemma recv_try_q f w x0 s :
  Inv s -> getF f s = Some x0 -> f_recv x0 = true -> f_live x0 = true -> f_done x0 = false ->
  f_reg x0 = true -> is_success (f_state x0) = false ->
  Inv (fst (recv_try f w true x0 s)).
Proof.
  intros H Hg Hrv Hl Hd Hreg Hns. destruct H as [HD [HW HK]].
  assert (Q1 : pw_r x0 = is_waiting (f_state x0)) by (unfold pw_r; rewrite Hrv, Hreg; reflexivity).
  assert (Q2 : pi_r x0 = false) by (unfold pi_r; rewrite Hns; apply andb_false_r).
  assert (Q3 : pw_s x0 = false) by (unfold pw_s; rewrite Hrv; reflexivity).
  assert (Q4 : pi_s x0 = false) by (unfold pi_s; rewrite Hrv; reflexivity).
  assert (Hwq : is_waiting (f_state x0) = true -> In f (akeys (arq s))).
  { intros E. pose proof (w_wq s HW f x0 Hg Hreg E) as Hi. rewrite Hrv in Hi. exact Hi. }
  set (xd := set_done (set_reg false x0)).
  destruct (preds_unreg xd eq_refl) as (D1&D2&D3&D4).
  (* the completion step, from any state s1 that still has f's record and entry as s has them *)
  assert (Hfin : forall s1 (dq : nat),
            InvD [] s1 -> InvW s1 -> getF f s1 = Some x0 -> arq s1 = arq s -> fx s1 = fx s -> tn s1 = tn s ->
            hs s1 = hs s -> sc s1 = sc s -> rc s1 = rc s -> ncap s1 = ncap s ->
            cnt pw_r (fs s1) = cnt pw_r (fs s) -> cnt pi_r (fs s1) = cnt pi_r (fs s) ->
            nq s = (nq s1 + dq)%nat ->
            (t12 (tn s) = false -> cnt pw_s (fs s1) = 0%nat \/ (ncap s <= nq s1 + cnt pi_s (fs s1))%nat) ->
            Inv (let s2 := setF f xd s1 in
                 if fx06 (fx s2) then with_arq (unlink f (arq s2)) s2 else taint set_t06 (queued f (arq s2)) s2)).
  { intros s1 dq HD1 HW1 G1 Ea Efx Etn Ehs Esc Erc Ecap Er Ei Hlen Hks. cbv zeta.
    change (fx (setF f xd s1)) with (fx s1). change (arq (setF f xd s1)) with (arq s1). rewrite Efx.
    destruct (fx06 (fx s)) eqn:E6.
    - destruct (q_done_unlink f x0 xd s1 HD1 HW1 G1 Hrv Hrv eq_refl eq_refl eq_refl eq_refl) as [HD2 HW2].
      split; [exact HD2|]. split; [exact HW2|].
      destruct (cnt4 f x0 xd s1 (with_arq (unlink f (arq s1)) (setF f xd s1)) (w_fnd s1 HW1) G1 eq_refl) as (C1 & C2 & C3 & C4).
      rewrite D1, Q1 in C1. rewrite D2, Q2 in C2. rewrite D3, Q3 in C3. rewrite D4, Q4 in C4. cbn [b2n] in C1, C2, C3, C4.
      apply (K_after s _ (b2n (is_waiting (f_state x0))) 0 0 0 HK); try assumption.
      + rewrite <- Er. clear - C1. lia.
      + rewrite <- Ei. clear - C2. lia.
      + intros T. specialize (Hks T). change (nq (with_arq (unlink f (arq s1)) (setF f xd s1))) with (nq s1).
        clear - Hks C3 C4. lia.
      + intros _ _ K. change (nq (with_arq (unlink f (arq s1)) (setF f xd s1))) with (nq s1).
        clear - K Hlen. unfold b2n. destruct (is_waiting (f_state x0)); lia.
    - destruct (queued f (arq s1)) eqn:Eq; unfold taint.
      + assert (Efx1 : fx06 (fx s1) = false) by (rewrite Efx; exact E6).
        change (tn (setF f xd s1)) with (tn s1).
        destruct (q_done_stale f x0 xd s1 HD1 HW1 G1 Hrv Hns Efx1 Hrv eq_refl eq_refl eq_refl eq_refl eq_refl eq_refl) as [HD2 HW2].
        split; [exact HD2|]. split; [exact HW2|].
        destruct (cnt4 f x0 xd s1 (with_tn (set_t06 (tn s1)) (setF f xd s1)) (w_fnd s1 HW1) G1 eq_refl) as (C1 & C2 & C3 & C4).
        rewrite D3, Q3 in C3. rewrite D4, Q4 in C4. cbn [b2n] in C3, C4.
        destruct HK as [K1 K2 K3].
        apply InvK_intro.
        * st_goal. rewrite Ehs, Esc, Erc. cbn [t07 set_t06]. rewrite Etn. exact K1.
        * cbn. discriminate.
        * change (tn (with_tn (set_t06 (tn s1)) (setF f xd s1))) with (set_t06 (tn s1)).
          change (nq (with_tn (set_t06 (tn s1)) (setF f xd s1))) with (nq s1).
          change (ncap (with_tn (set_t06 (tn s1)) (setF f xd s1))) with (ncap s1).
          cbn [t12 set_t06]. rewrite Ecap. intros T. rewrite Etn in T. specialize (Hks T).
          clear - Hks C3 C4. lia.
      + assert (Hnq1 : ~ In f (akeys (arq s1))) by (apply queued_false; exact Eq).
        destruct (unq_done f x0 xd s1 HD1 HW1 G1 Hrv Hnq1 Hrv eq_refl eq_refl eq_refl eq_refl) as [HD2 HW2].
        split; [exact HD2|]. split; [exact HW2|].
        destruct (cnt4 f x0 xd s1 (setF f xd s1) (w_fnd s1 HW1) G1 eq_refl) as (C1 & C2 & C3 & C4).
        assert (Enw : is_waiting (f_state x0) = false).
        { destruct (is_waiting (f_state x0)) eqn:E; [|reflexivity]. exfalso. apply Hnq1. rewrite Ea. apply Hwq. reflexivity. }
        rewrite D1, Q1, Enw in C1. rewrite D2, Q2 in C2. rewrite D3, Q3 in C3. rewrite D4, Q4 in C4. cbn [b2n] in C1, C2, C3, C4.
        apply (K_after s _ 0 0 0 0 HK); try assumption.
        * rewrite <- Er. clear - C1. lia.
        * rewrite <- Ei. clear - C2. lia.
        * intros T. specialize (Hks T). change (nq (setF f xd s1)) with (nq s1). clear - Hks C3 C4. lia.
        * intros _ _ K. change (nq (setF f xd s1)) with (nq s1). clear - K Hlen. lia. }
  unfold recv_try.
  pose proof (try_recv_core_core [] s HD HW) as Hs.
  destruct (try_recv_core s) as [s1 [v| |]]; cbn [fst].
  - destruct Hs as (HD1 & HW1 & Hq & Hrecvd & Fr & Harq & Hacc & Eff & Hkeep).
    destruct Fr as (Fcap & Ffx & Fsc & Frc & Fhs & Fnext & Fback & Fdropped & Ffreed & Ftn & Fdk).
    destruct Eff as (Er1 & Er2 & Es).
    assert (Hlen : nq s = (nq s1 + 1)%nat) by (unfold nq; rewrite Hq; cbn [length]; clear; lia).
    apply (Hfin s1 1%nat); try assumption.
    + apply Hkeep; assumption.
    + unfold ncap. rewrite Fcap. reflexivity.
    + intros T. apply (K3_after_pop s s1 HK (conj Er1 (conj Er2 Es)) Hlen T).
  - destruct Hs as (-> & Hq & Hsc).
    destruct (queued f (arq s)) eqn:Eq; cbn [fst].
    + (* still parked: refresh the waker *)
      set (xw := set_reg true x0).
      assert (Heq : core_eq (with_arq (set_waker f w (arq s)) (with_asq (asq s) (setF f xw s)))
                            (with_arq (set_waker f w (arq s)) (setF f xw s))) by core_eq_refl.
      apply queued_In in Eq.
      split; [|split].
      * apply (InvD_ext [] _ _ Heq). apply InvD_upd with x0; [exact HD | apply (w_fnd s HW) | exact Hg | reflexivity].
      * apply (InvW_ext _ _ Heq). apply InvW_upd with x0.
        -- exact HW.
        -- exact Hg.
        -- reflexivity.
        -- reflexivity.
        -- cbn. auto.
        -- cbn. auto.
        -- rewrite set_waker_keys. apply (w_arq_nd s HW).
        -- apply (w_asq_nd s HW).
        -- intros f1 w1 Hi. destruct (N.eq_dec f1 f) as [->|Hne]; [right; auto|].
           left. split; [exact Hne|]. eapply set_waker_other; eauto.
        -- intros f1 w1 Hi. left. split; [|exact Hi]. intros ->. eapply not_in_asq_recv; eauto.
        -- intros f1 _ Hi. rewrite set_waker_keys. exact Hi.
        -- auto.
        -- intros _ _. rewrite Hrv. rewrite set_waker_keys. exact Eq.
        -- intros E. contradiction.
        -- intros _ Hi. destruct (akeys_In _ _ Hi) as [w1 Hi1]. exfalso. eapply not_in_asq_recv; eauto.
        -- intros _ _. reflexivity.
        -- cbn. rewrite Hrv. discriminate.
        -- intros _. split; [exact Hns | intros _; reflexivity].
      * destruct (cnt4 f x0 xw s (with_arq (set_waker f w (arq s)) (setF f xw s)) (w_fnd s HW) Hg eq_refl) as (C1 & C2 & C3 & C4).
        assert (W1 : pw_r xw = pw_r x0) by (unfold pw_r; cbn; rewrite Hreg; reflexivity).
        assert (W2 : pi_r xw = pi_r x0) by (unfold pi_r; cbn; rewrite Hreg; reflexivity).
        assert (W3 : pw_s xw = pw_s x0) by (unfold pw_s; cbn; rewrite Hreg; reflexivity).
        assert (W4 : pi_s xw = pi_s x0) by (unfold pi_s; cbn; rewrite Hreg; reflexivity).
        rewrite W1 in C1. rewrite W2 in C2. rewrite W3 in C3. rewrite W4 in C4.
        apply (K_after s _ 0 0 0 0 HK); try reflexivity.
        -- clear - C1. lia.
        -- clear - C2. lia.
        -- intros T. destruct HK as [_ _ K3]. fold (nq s) in K3. fold (ncap s) in K3. specialize (K3 T).
           change (nq (with_arq (set_waker f w (arq s)) (setF f xw s))) with (nq s). clear - K3 C3 C4. lia.
        -- intros _ _ K. change (nq (with_arq (set_waker f w (arq s)) (setF f xw s))) with (nq s). clear - K. lia.
    + (* registered but not queued: only a (never seen) CANCELLED state; the code parks again *)
      assert (Hnq : ~ In f (akeys (arq s))) by (apply queued_false; exact Eq).
      assert (Enw : is_waiting (f_state x0) = false).
      { destruct (is_waiting (f_state x0)) eqn:E; [|reflexivity]. exfalso. apply Hnq. apply Hwq. reflexivity. }
      set (xw := set_reg true (set_state Waiting x0)).
      destruct (reg_recv f w x0 xw s HD HW Hg Hrv Hl Hd Hnq Hsc Hrv eq_refl Hl Hd eq_refl eq_refl eq_refl) as [HD2 HW2].
      split; [exact HD2|]. split; [exact HW2|].
      destruct (cnt4 f x0 xw s (with_arq (arq s ++ [(f, w)]) (setF f xw s)) (w_fnd s HW) Hg eq_refl) as (C1 & C2 & C3 & C4).
      assert (W1 : pw_r xw = true) by (unfold pw_r; cbn; rewrite Hrv; reflexivity).
      assert (W2 : pi_r xw = false) by (unfold pi_r; cbn; rewrite Hrv; reflexivity).
      assert (W3 : pw_s xw = false) by (unfold pw_s; cbn; rewrite Hrv; reflexivity).
      assert (W4 : pi_s xw = false) by (unfold pi_s; cbn; rewrite Hrv; reflexivity).
      rewrite W1, Q1, Enw in C1. rewrite W2, Q2 in C2. rewrite W3, Q3 in C3. rewrite W4, Q4 in C4. cbn [b2n] in C1, C2, C3, C4.
      apply (K_after s _ 0 0 1 0 HK); try reflexivity.
      * clear - C1. lia.
      * clear - C2. lia.
      * intros T. destruct HK as [_ _ K3]. fold (nq s) in K3. fold (ncap s) in K3. specialize (K3 T).
        change (nq (with_arq (arq s ++ [(f, w)]) (setF f xw s))) with (nq s). clear - K3 C3 C4. lia.
      * intros _ _ _. right. change (nq (with_arq (arq s ++ [(f, w)]) (setF f xw s))) with (nq s).
        unfold nq. rewrite Hq. cbn [length]. clear. lia.
  - destruct Hs as (-> & Hq & Hsc).
    apply (Hfin s 0%nat); try assumption; try reflexivity.
    + clear. lia.
    + intros T. destruct HK as [_ _ K3]. exact (K3 T).
Qed.

Lemma poll_recv_inv f w x s :
  Inv s -> getF f s = Some x -> f_recv x = true -> f_live x = true -> f_done x = false ->
  Inv (fst (poll_recv f w x s)).
Proof.
  intros H Hg Hrv Hl Hd. unfold poll_recv.
  pose proof (proj1 (proj2 H)) as HW.
  destruct (f_reg x) eqn:Hreg.
  2:{ rewrite <- (set_reg_same x Hreg). apply recv_try_unq; try assumption.
      - rewrite Hreg. discriminate.
      - intros Hi. destruct (akeys_In _ _ Hi) as [w1 Hi1].
        destruct (w_arq_st s HW f w1 x Hi1 Hg) as [_ B]. specialize (B Hd). congruence. }
  destruct (f_state x) eqn:Est.
  - apply recv_try_q; try assumption. rewrite Est. reflexivity.
  - (* CLOSED-woken: unlink, then (repaired) re-drain or (as is) report Disconnected *)
    assert (H1 : Inv (with_arq (unlink f (arq s)) s)).
    { apply Inv_arq with f; try assumption.
      - apply unlink_NoDup, (w_arq_nd s HW).
      - intros f1 w1 Hi. apply unlink_In in Hi. exists w1. tauto.
      - intros f1 Hne Hi. apply unlink_keys. auto.
      - intros _. right. intros y Hy. rewrite Hg in Hy. inversion Hy; subst y. rewrite Est. reflexivity. }
    set (s1 := with_arq (unlink f (arq s)) s) in *.
    assert (G1 : getF f s1 = Some x) by exact Hg.
    assert (Hnq1 : ~ In f (akeys (arq s1))).
    { subst s1. st_goal. intros Hi. apply unlink_keys in Hi. destruct Hi as [_ Hi]. contradiction. }
    destruct (fx08 (fx s1)) eqn:E8.
    + apply recv_try_unq; try assumption. intros _. rewrite Est. reflexivity.
    + cbn [fst].
      set (b := negb (lenq s1 =? 0)).
      assert (H2 : Inv (taint set_t08 b s1)).
      { apply InvH_taint; [exact H1 | apply tle_set_t08 |].
        intros _. apply ok_set_t08; [apply (w_taint s1 (proj1 (proj2 H1))) | exact E8]. }
      set (s2 := taint set_t08 b s1) in *.
      assert (E2 : fs s2 = fs s1 /\ arq s2 = arq s1) by (subst s2; unfold taint; destruct b; auto).
      destruct E2 as [Ef Ea].
      assert (G2 : getF f s2 = Some x) by (unfold getF; rewrite Ef; exact G1).
      assert (Hnq2 : ~ In f (akeys (arq s2))) by (rewrite Ea; exact Hnq1).
      destruct H2 as [HD2 [HW2 HK2]].
      set (xd := set_done (set_reg false x)).
      destruct (unq_done f x xd s2 HD2 HW2 G2 Hrv Hnq2 Hrv eq_refl eq_refl eq_refl eq_refl) as [HD3 HW3].
      split; [exact HD3|]. split; [exact HW3|].
      destruct (cnt4 f x xd s2 (setF f xd s2) (w_fnd s2 HW2) G2 eq_refl) as (C1 & C2 & C3 & C4).
      destruct (preds_unreg xd eq_refl) as (D1&D2&D3&D4).
      assert (Q1 : pw_r x = false) by (unfold pw_r; rewrite Est; cbn; apply andb_false_r).
      assert (Q2 : pi_r x = false) by (unfold pi_r; rewrite Est; cbn; apply andb_false_r).
      assert (Q3 : pw_s x = false) by (unfold pw_s; rewrite Hrv; reflexivity).
      assert (Q4 : pi_s x = false) by (unfold pi_s; rewrite Hrv; reflexivity).
      rewrite D1, Q1 in C1. rewrite D2, Q2 in C2. rewrite D3, Q3 in C3. rewrite D4, Q4 in C4. cbn [b2n] in C1, C2, C3, C4.
      apply (K_after s2 _ 0 0 0 0 HK2); try reflexivity.
      * clear - C1. lia.
      * clear - C2. lia.
      * intros T. destruct HK2 as [_ _ K3]. fold (nq s2) in K3. fold (ncap s2) in K3. specialize (K3 T).
        change (nq (setF f xd s2)) with (nq s2). clear - K3 C3 C4. lia.
      * intros _ _ K. change (nq (setF f xd s2)) with (nq s2). clear - K. lia.
  - (* woken: the waiter entry was removed by the waker *)
    apply recv_try_unq; try assumption.
    + intros _. rewrite Est. reflexivity.
    + intros Hi. destruct (akeys_In _ _ Hi) as [w1 Hi1].
      destruct (w_arq_st s HW f w1 x Hi1 Hg) as [A _]. rewrite Est in A. discriminate.
  - apply recv_try_q; try assumption. rewrite Est. reflexivity.
Qed.

Lemma step_poll s f w : Inv s -> Inv (fst (step s (Poll f w))).
Proof.
  intros H0. apply Inv_reset in H0. unfold step. fold (reset s). set (s1 := reset s) in *. clearbody s1.
  destruct (getF f s1) as [x|] eqn:Hg; [|exact H0].
  destruct (f_live x) eqn:Hl; cbn [negb]; [|exact H0].
  destruct (f_done x) eqn:Hd; [exact H0|].
  destruct (handle_closed (f_h x) s1 && fx03f (fx s1)) eqn:Ec.
  - (* repaired: a poll on a closed handle fails, cancelling the registration as Drop does *)
    destruct (cancel_reg_inv f x s1 H0 Hg) as [H2 [[x2 (G2 & R2 & L2 & I2 & Rv2 & Hh2 & D2)] _]].
    set (s2 := cancel_reg f x s1) in *. rewrite G2. cbn [ret fst].
    destruct H2 as [HD2 [HW2 HK2]].
    split; [|split].
    + apply InvD_setF with x2; [exact HD2 | apply (w_fnd s2 HW2) | exact G2 | reflexivity].
    + apply rec_upd_W with x2; try assumption; try reflexivity; cbn; auto; discriminate.
    + apply rec_upd_K with x2; try assumption; reflexivity.
  - assert (Ht : Inv (taint set_t03f (handle_closed (f_h x) s1) s1)).
    { apply InvH_taint; [exact H0 | apply tle_set_t03f |].
      intros E. apply ok_set_t03f; [apply (w_taint s1 (proj1 (proj2 H0)))|]. rewrite E in Ec. exact Ec. }
    set (s2 := taint set_t03f (handle_closed (f_h x) s1) s1) in *.
    assert (G2 : getF f s2 = Some x) by (subst s2; unfold taint; destruct (handle_closed (f_h x) s1); exact Hg).
    destruct (f_recv x) eqn:Hrv.
    + pose proof (poll_recv_inv f w x s2 Ht G2 Hrv Hl Hd) as A.
      destruct (poll_recv f w x s2) as [s3 r]. exact A.
    + pose proof (poll_send_inv f w x s2 Ht G2 Hrv Hl Hd) as A.
      destruct (poll_send f w x s2) as [s3 r]. exact A.
Qed.

(** * batch forms: try_send_batch[_mut], try_recv_batch[_mut] *)
Lemma skip_nw_In g l e : In e (skip_nw g l) -> In e l.
Proof.
  induction l as [|[f w] t IH]; cbn [skip_nw]; intros H; [exact H|].
  destruct (g f) as [x|]; [destruct (is_waiting (f_state x)); [exact H|]|]; right; apply IH; exact H.
Qed.

Lemma skip_nw_NoDup g l : NoDup (akeys l) -> NoDup (akeys (skip_nw g l)).
Proof.
  unfold akeys. induction l as [|[f w] t IH]; cbn [skip_nw map fst]; intros H; [constructor|].
  inversion H as [|? ? Hni Hnd]; subst.
  destruct (g f) as [x|]; [destruct (is_waiting (f_state x)); [exact H|]|]; apply IH; exact Hnd.
Qed.

Lemma skip_nw_keeps g l f :
  In f (akeys l) -> In f (akeys (skip_nw g l)) \/ forall x, g f = Some x -> is_waiting (f_state x) = false.
Proof.
  unfold akeys. induction l as [|[f1 w] t IH]; cbn [skip_nw map fst In]; intros H; [contradiction|].
  destruct (g f1) as [x|] eqn:E.
  - destruct (is_waiting (f_state x)) eqn:Ew; [left; exact H|].
    destruct H as [<-|H]; [right; intros y Hy; congruence | apply IH; exact H].
  - destruct H as [<-|H]; [right; intros y Hy; congruence | apply IH; exact H].
Qed.

(* the receive queue loses entries of futures that are not WAITING (any number of them) *)
Lemma InvH_arq_drop hand arq' s :
  InvH hand s -> NoDup (akeys arq') ->
  (forall e, In e arq' -> In e (arq s)) ->
  (forall f, In f (akeys (arq s)) -> In f (akeys arq') \/ forall x, getF f s = Some x -> is_waiting (f_state x) = false) ->
  InvH hand (with_arq arq' s).
Proof.
  intros [HD [HW HK]] Hnd Hsub Hkeep. split; [|split].
  - destruct HD. constructor; unfold nq, ncap, tot, cells in *; st_simpl; assumption.
  - destruct HW. constructor; unfold any_live in *; st_simpl; try assumption.
    + intros f1 w1 Hi. apply (w_arq_k f1 w1 (Hsub _ Hi)).
    + intros f1 y Hy Hrg Hwy. change (getF f1 s = Some y) in Hy. specialize (w_wq f1 y Hy Hrg Hwy).
      destruct (f_recv y); [|exact w_wq].
      destruct (Hkeep f1 w_wq) as [Hin|Hnw]; [exact Hin|]. rewrite (Hnw y Hy) in Hwy. discriminate.
    + intros Hsc f1 w1 y Hi Hy. apply (w_sc0 Hsc f1 w1 y (Hsub _ Hi) Hy).
    + intros T f1 w1 Hi. apply (w_arq_reg T f1 w1 (Hsub _ Hi)).
    + intros f1 w1 y Hi Hy. apply (w_arq_st f1 w1 y (Hsub _ Hi) Hy).
  - destruct HK. constructor; unfold nq, ncap in *; st_simpl; assumption.
Qed.

Lemma InvH_hand_one_recv hand s :
  InvH hand s ->
  InvH hand (hand_one_recv s)
  /\ (t06 (tn s) = false -> t12 (tn s) = false ->
      (nq s + 1 <= cnt pi_r (fs (hand_one_recv s)))%nat \/ cnt pw_r (fs (hand_one_recv s)) = 0%nat)
  /\ frame_r s (hand_one_recv s).
Proof.
  intros H. unfold hand_one_recv.
  set (s1 := with_arq (skip_nw (fun f => getF f s) (arq s)) s).
  assert (H1 : InvH hand s1).
  { apply InvH_arq_drop; [exact H | apply skip_nw_NoDup, (w_arq_nd s (proj1 (proj2 H))) | apply skip_nw_In |].
    intros f Hi. apply (skip_nw_keeps (fun f => getF f s) (arq s) f Hi). }
  destruct (InvH_wake_one_recv hand s1 H1) as [A B]. split; [exact A|]. split; [exact B|].
  destruct (wake_one_recv_frame s1) as (F1&F2&F3&F4&F5&F6&F7&F8&F9&F10&F11&F12&F13&F14&F15).
  unfold frame_r. repeat split; assumption.
Qed.

Lemma InvH_push_gen v r s :
  InvH (v :: r) s -> (nq s < ncap s)%nat ->
  (t06 (tn s) = false -> t12 (tn s) = false ->
   cnt pw_r (fs s) = 0%nat \/ (nq s + 1 <= cnt pi_r (fs s))%nat) ->
  InvH r (push v s).
Proof.
  intros [HD [HW HK]] Hlt Hr. unfold push. split; [|split].
  - destruct HD as [A B C]. constructor; unfold nq, ncap, tot, cells in *; st_simpl.
    + rewrite app_length. cbn [length]. lia.
    + rewrite B. rewrite app_assoc. reflexivity.
    + intros u. specialize (C u). rewrite occ_app. cbn [occ] in *. lia.
  - destruct HW. constructor; unfold getF, getH, any_live in *; st_simpl; assumption.
  - destruct HK as [K1 K2 K3]. constructor; unfold nq, ncap in *; st_simpl.
    + assumption.
    + intros T1 T2. specialize (Hr T1 T2). rewrite app_length. cbn [length]. lia.
    + intros T. specialize (K3 T). rewrite app_length. cbn [length]. lia.
Qed.

(* the loop of try_send_batch_core *)
Definition loop_post (vs : list N) (s s' : st) (un : list N) : Prop :=
  exists sent, vs = sent ++ un /\ q s' = q s ++ sent /\ acc s' = acc s ++ sent /\ recvd s' = recvd s
               /\ frame0 s s' /\ asq s' = asq s /\ (un <> [] -> nq s' = ncap s').

Lemma send_loop_inv vs : forall s,
  InvH vs s -> InvH (snd (send_loop vs s)) (fst (send_loop vs s)) /\ loop_post vs s (fst (send_loop vs s)) (snd (send_loop vs s)).
Proof.
  induction vs as [|v r IH]; intros s H; cbn [send_loop].
  - cbn [fst snd]. split; [exact H|]. exists []. unfold frame0. repeat split; try reflexivity; try (rewrite app_nil_r; reflexivity).
    intros E; contradiction.
  - pose proof (d_cap _ _ (proj1 H)) as Hcap.
    destruct (is_full s) eqn:Ef.
    + cbn [fst snd]. split; [exact H|]. exists []. unfold frame0. repeat split; try reflexivity; try (rewrite app_nil_r; reflexivity).
      intros _. apply (is_full_spec s Hcap). exact Ef.
    + pose proof (is_full_false s Hcap Ef) as Hlt.
      destruct (InvH_hand_one_recv (v :: r) s H) as (A & B & Fr).
      destruct Fr as (Fcap & Ffx & Fq & Fsc & Frc & Fasq & Fhs & Fnext & Facc & Frecvd & Fback & Fdropped & Ffreed & Ftn & Fdk).
      assert (H2 : InvH r (push v (hand_one_recv s))).
      { apply InvH_push_gen; [exact A | unfold nq, ncap in *; congruence |].
        unfold nq in *. rewrite Ftn, Fq. intros T1 T2. destruct (B T1 T2); [right|left]; assumption. }
      destruct (IH _ H2) as [I1 (sent & E1 & E2 & E3 & E4 & E5 & E6 & E7)].
      split; [exact I1|]. exists (v :: sent).
      destruct E5 as (G1&G2&G3&G4&G5&G6&G7&G8&G9&G10&G11).
      set (h1 := hand_one_recv s) in *.
      change (q (push v h1)) with (q h1 ++ [v]) in E2. change (acc (push v h1)) with (acc h1 ++ [v]) in E3.
      change (recvd (push v h1)) with (recvd h1) in E4. change (asq (push v h1)) with (asq h1) in E6.
      change (cap (push v h1)) with (cap h1) in G1. change (fx (push v h1)) with (fx h1) in G2.
      change (sc (push v h1)) with (sc h1) in G3. change (rc (push v h1)) with (rc h1) in G4.
      change (hs (push v h1)) with (hs h1) in G5. change (next (push v h1)) with (next h1) in G6.
      change (back (push v h1)) with (back h1) in G7. change (dropped (push v h1)) with (dropped h1) in G8.
      change (freed (push v h1)) with (freed h1) in G9. change (tn (push v h1)) with (tn h1) in G10.
      change (dk (push v h1)) with (dk h1) in G11.
      split; [cbn [app]; f_equal; exact E1|].
      split; [rewrite E2, Fq, <- app_assoc; reflexivity|].
      split; [rewrite E3, Facc, <- app_assoc; reflexivity|].
      split; [rewrite E4; exact Frecvd|].
      split; [unfold frame0; repeat split; congruence|].
      split; [congruence | exact E7].
Qed.

Lemma occ_seqN v a n : occ v (seqN a n) = if (a <=? v) && (v <? a + N.of_nat n) then 1%nat else 0%nat.
Proof.
  revert a. induction n as [|n IH]; intros a; cbn [seqN occ].
  - destruct (N.leb_spec a v), (N.ltb_spec v (a + N.of_nat 0)); cbn [andb]; try reflexivity. lia.
  - rewrite IH.
    destruct (N.eqb_spec v a), (N.leb_spec (a + 1) v), (N.ltb_spec v (a + 1 + N.of_nat n)),
             (N.leb_spec a v), (N.ltb_spec v (a + N.of_nat (S n))); cbn [andb]; try reflexivity; lia.
Qed.

Lemma InvH_fresh_n n s : Inv s -> InvH (seqN (next s) n) (with_next (next s + N.of_nat n) s).
Proof.
  intros [HD [HW HK]]. split; [|split].
  - destruct HD as [A B C]. constructor; unfold nq, ncap, tot, cells in *; st_simpl; try assumption.
    intros v. specialize (C v). cbn [occ] in C. rewrite occ_seqN.
    destruct (N.leb_spec (next s) v), (N.ltb_spec v (next s + N.of_nat n)), (N.ltb_spec v (next s)); cbn [andb]; lia.
  - destruct HW. constructor; unfold getF, getH, any_live in *; st_simpl; assumption.
  - destruct HK. constructor; unfold nq, ncap in *; st_simpl; assumption.
Qed.

Lemma InvH_give_back_all un s : InvH un s -> Inv (with_back (back s ++ un) s).
Proof.
  intros [HD [HW HK]]. split; [|split].
  - destruct HD as [A B C]. constructor; unfold nq, ncap, tot, cells in *; st_simpl; try assumption.
    intros u. specialize (C u). rewrite occ_app. cbn [occ]. lia.
  - destruct HW. constructor; unfold getF, getH, any_live in *; st_simpl; assumption.
  - destruct HK. constructor; unfold nq, ncap in *; st_simpl; assumption.
Qed.

Lemma InvH_nil_hand s : InvH [] s -> Inv s.
Proof. auto. Qed.

Lemma step_try_send_batch s b h n : Inv s -> Inv (fst (step s (TrySendBatch b h n))).
Proof.
  intros H0. apply Inv_reset in H0. unfold step. fold (reset s). set (s1 := reset s) in *. clearbody s1.
  destruct (getH h s1) as [x|]; [|exact H0].
  destruct (h_live x); cbn [negb]; [|exact H0].
  destruct (h_tx x); cbn [negb]; [|exact H0].
  pose proof (InvH_fresh_n (N.to_nat n) s1 H0) as Hf. rewrite N2Nat.id in Hf.
  set (vs := seqN (next s1) (N.to_nat n)) in *. set (s2 := with_next (next s1 + n) s1) in *.
  assert (Hfail : forall cl sent un s3, InvH un s3 ->
            Inv (fst (let s4 := with_back (back s3 ++ un) s3 in
                      if b then (if cl && (sent =? 0) then ret s4 (RMClosed un) else ret s4 (RMOk sent un))
                      else ret s4 (RBErr sent cl un)))).
  { intros cl sent un s3 H3. cbv zeta. destruct b; [destruct (cl && (sent =? 0))|]; cbn [ret fst]; apply InvH_give_back_all; exact H3. }
  destruct (n =? 0) eqn:En.
  - cbn [ret fst]. apply N.eqb_eq in En. subst n. cbn in Hf. exact Hf.
  - destruct (h_closed x); [apply Hfail; exact Hf|].
    change (rc s2) with (rc s1). destruct (rc s1 =? 0); [apply Hfail; exact Hf|].
    destruct (send_loop_inv vs s2 Hf) as [A _].
    destruct (send_loop vs s2) as [s3 un]. cbn [fst snd] in A.
    destruct un as [|u un']; [destruct b; cbn [ret fst]; exact A|].
    apply Hfail. exact A.
Qed.

(** try_recv_batch *)
Lemma wake_senders_core hand n : forall s,
  InvD hand s -> InvW s ->
  let s' := wake_senders n s in
  InvD hand s' /\ InvW s' /\ frame_s s s' /\
  cnt pw_r (fs s') = cnt pw_r (fs s) /\ cnt pi_r (fs s') = cnt pi_r (fs s) /\
  exists b : nat, (b <= n)%nat /\ (cnt pw_s (fs s') + b = cnt pw_s (fs s))%nat
                  /\ (cnt pi_s (fs s') = cnt pi_s (fs s) + b)%nat
                  /\ ((b < n)%nat -> cnt pw_s (fs s') = 0%nat).
Proof.
  induction n as [|n IH]; intros s HD HW; cbn [wake_senders]; cbv zeta.
  - split; [exact HD|]. split; [exact HW|]. split; [unfold frame_s; repeat split|].
    split; [reflexivity|]. split; [reflexivity|]. exists 0%nat. repeat split; lia.
  - destruct (wake_one_send_core hand s HD HW) as (A & B & (E1 & E2 & b1 & Hb1 & E3 & E4 & E5) & _).
    destruct (IH (wake_one_send s) A B) as (A2 & B2 & F2 & R1 & R2 & b2 & Hb2 & S1 & S2 & S3). cbv zeta in *.
    split; [exact A2|]. split; [exact B2|].
    split.
    { destruct (wake_one_send_frame s) as (G1&G2&G3&G4&G5&G6&G7&G8&G9&G10&G11&G12&G13&G14&G15).
      destruct F2 as (K1&K2&K3&K4&K5&K6&K7&K8&K9&K10&K11&K12&K13&K14&K15).
      unfold frame_s. repeat split; congruence. }
    split; [congruence|]. split; [congruence|].
    exists (b1 + b2)%nat. split; [lia|]. split; [lia|]. split; [lia|].
    intros Hlt. destruct b1 as [|b1].
    + (* the first attempt found nobody: nobody is waiting, and nobody will be *)
      specialize (E5 eq_refl). lia.
    + apply S3. lia.
Qed.

Lemma occ_firstn_skipn v k (l : list N) : (occ v (firstn k l) + occ v (skipn k l) = occ v l)%nat.
Proof. rewrite <- occ_app. rewrite firstn_skipn. reflexivity. Qed.

Lemma drain_core hand k s :
  InvD hand s -> InvW s -> InvD hand (drain k s) /\ InvW (drain k s).
Proof.
  intros HD HW. unfold drain. split; [|apply InvW_qrecvd; exact HW].
  destruct HD as [A B C]. constructor; unfold nq, ncap, tot, cells in *; st_simpl.
  - rewrite skipn_length. lia.
  - rewrite B. rewrite <- app_assoc. rewrite firstn_skipn. reflexivity.
  - intros u. specialize (C u). rewrite occ_app. pose proof (occ_firstn_skipn u k (q s)). lia.
Qed.

Lemma step_try_recv_batch s b h m : Inv s -> Inv (fst (step s (TryRecvBatch b h m))).
Proof.
  intros H0. apply Inv_reset in H0. unfold step. fold (reset s). set (s1 := reset s) in *. clearbody s1.
  destruct (getH h s1) as [x|]; [|exact H0].
  destruct (h_live x); cbn [negb]; [|exact H0].
  destruct (h_tx x); [exact H0|].
  destruct (m =? 0); [destruct b; exact H0|].
  destruct (h_closed x); [exact H0|].
  destruct (Nat.min (N.to_nat m) (length (q s1))) as [|k'] eqn:Ek; [destruct (sc s1 =? 0); exact H0|].
  set (k := S k') in *. cbn [ret fst].
  cbv zeta.
  destruct H0 as [HD [HW HK]].
  destruct (drain_core [] k s1 HD HW) as [HD1 HW1].
  destruct (wake_senders_core [] (N.to_nat m) (drain k s1) HD1 HW1) as (HD2 & HW2 & Fr & R1 & R2 & bb & Hb & S1 & S2 & S3).
  cbv zeta in *. set (s3 := wake_senders (N.to_nat m) (drain k s1)) in *.
  destruct Fr as (Fcap & Ffx & Fq & Fsc & Frc & Farq & Fhs & Fnext & Facc & Frecvd & Fback & Fdropped & Ffreed & Ftn & Fdk).
  split; [exact HD2|]. split; [exact HW2|].
  destruct HK as [K1 K2 K3]. fold (nq s1) in K2, K3. fold (ncap s1) in K3.
  assert (Hk1 : (k <= N.to_nat m)%nat) by (subst k; lia).
  assert (Hk2 : (k <= nq s1)%nat) by (unfold nq; subst k; lia).
  assert (Hq3 : nq s3 = (nq s1 - k)%nat).
  { unfold nq. rewrite Fq. unfold drain. st_simpl. apply skipn_length. }
  assert (Hc3 : ncap s3 = ncap s1) by (unfold ncap; rewrite Fcap; reflexivity).
  apply InvK_intro.
  - rewrite Ftn, Fhs, Fsc, Frc. exact K1.
  - rewrite Ftn. intros T1 T2. specialize (K2 T1 T2).
    change (fs (drain k s1)) with (fs s1) in R1, R2. rewrite R1, R2, Hq3. clear - K2. lia.
  - rewrite Ftn. intros T. specialize (K3 T).
    change (fs (drain k s1)) with (fs s1) in S1, S2. rewrite Hq3, Hc3.
    destruct (Nat.lt_ge_cases bb (N.to_nat m)) as [Hlt|Hge].
    + left. apply S3. exact Hlt.
    + clear - K3 S1 S2 Hge Hk1 Hk2. lia.
Qed.
(** * every step preserves the invariant; the initial state satisfies it *)
Theorem Inv_step s o : Inv s -> Inv (fst (step s o)).
Proof.
  destruct o.
  - apply step_try_send.
  - apply step_try_recv.
  - apply step_send.
  - apply step_recv.
  - apply step_recv_timeout.
  - apply step_clone.
  - apply step_close.
  - apply step_drop.
  - apply step_convert.
  - apply step_observe.
  - apply step_mksend.
  - apply step_mkrecv.
  - apply step_poll.
  - apply step_dropf.
  - apply step_try_send_batch.
  - apply step_try_recv_batch.
Qed.

Lemma Inv_init c a f : Inv (init c a f).
Proof.
  unfold init. split; [|split].
  - constructor; unfold nq, ncap, tot, cells; st_simpl.
    + cbn. lia.
    + reflexivity.
    + intros v. cbn. destruct (v <? 0) eqn:E; [apply N.ltb_lt in E; lia | reflexivity].
  - constructor; unfold getF, getH, any_live; st_simpl; cbn; try (intros; contradiction); try discriminate.
    + repeat constructor; cbn; intuition discriminate.
    + constructor.
    + constructor.
    + constructor.
    + reflexivity.
    + unfold taint_ok. cbn. repeat split; reflexivity.
  - constructor; unfold nq, ncap; st_simpl; cbn.
    + intros _. split; reflexivity.
    + intros _ _. left. reflexivity.
    + intros _. left. reflexivity.
Qed.

Theorem Inv_run os : forall s, Inv s -> Inv (fst (run s os)).
Proof.
  induction os as [|o r IH]; intros s H; cbn [run]; [exact H|].
  pose proof (Inv_step s o H) as H1. destruct (step s o) as [s1 x]. cbn [fst] in H1.
  specialize (IH s1 H1). destruct (run s1 r) as [s2 xs]. exact IH.
Qed.

Theorem Inv_reachable c a f os : Inv (state_after c a f os).
Proof. unfold state_after. apply Inv_run. apply Inv_init. Qed.

