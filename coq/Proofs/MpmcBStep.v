(* Proofs/MpmcBStep.v — every step of the bounded-MPMC K2 model preserves the invariant. *)
From Fibre Require Import Common.Base Chan.MpmcB Proofs.MpmcBBase Proofs.MpmcBInv.
From Coq Require Import ZifyBool ZifyNat ZifyN.

Definition reset (s : st) : st := with_bad false (with_dk [] (with_wk [] s)).

Lemma Inv_reset s : Inv s -> Inv (reset s).
Proof. intros H. unfold reset. apply InvH_with_bad, InvH_with_dk, InvH_with_wk. exact H. Qed.

Lemma any_live_true s h x : InvW s -> getH h s = Some x -> h_live x = true -> any_live s = true.
Proof.
  intros HW Hg Hl. unfold any_live. apply (live_exists (hs s) (w_hnd s HW)). exists h, x. auto.
Qed.

(** * handle lifecycle *)
Lemma add_handle hand s h2 x' sc' rc' :
  InvH hand s -> getH h2 s = None -> h_live x' = true ->
  (exists h x, getH h s = Some x /\ h_live x = true) ->
  (sc' = 0 -> sc s = 0) -> (rc' = 0 -> rc s = 0) ->
  (t07 (tn s) = false ->
     sc' = sc s + N.of_nat (b2n (open_tx x')) /\ rc' = rc s + N.of_nat (b2n (open_rx x'))) ->
  InvH hand (with_hs (aset h2 x' (hs s)) (with_sc sc' (with_rc rc' s))).
Proof.
  intros H Hn Hl [h [x [Hg Hlx]]] Hsc Hrc Hc.
  pose proof (proj1 (proj2 H)) as HW. pose proof (proj2 (proj2 H)) as HK.
  eapply InvH_ext; [|apply (InvH_handles hand (aset h2 x' (hs s)) sc' rc' (freed s) s H)]; [core_eq_refl|..].
  - apply NoDup_aset. apply (w_hnd s HW).
  - intros f y Hy Hly. destruct (w_fh s HW f y Hy Hly) as [z [Hz Hlz]]. exists z. split; [|exact Hlz].
    rewrite aget_aset_other; [exact Hz|]. intros E. unfold getH in *. congruence.
  - intros E. apply (w_sc0 s HW). auto.
  - intros E. apply (w_rc0 s HW). auto.
  - rewrite (w_freed s HW). rewrite (any_live_true s h x HW Hg Hlx).
    assert (Ex : existsb (fun e : N * handle => h_live (snd e)) (aset h2 x' (hs s)) = true).
    { apply (live_exists _ (NoDup_aset h2 x' (hs s) (w_hnd s HW))). exists h2, x'. split; [apply aget_aset_same | exact Hl]. }
    rewrite Ex. reflexivity.
  - intros T. destruct (k_cnt s HK T) as [A B]. destruct (Hc T) as [C D].
    rewrite (cnt_aset_new open_tx h2 x' _ Hn), (cnt_aset_new open_rx h2 x' _ Hn). clear - A B C D. lia.
Qed.

Lemma step_clone s h h2 : Inv s -> Inv (fst (step s (Clone h h2))).
Proof.
  intros H0. apply Inv_reset in H0. unfold step. fold (reset s). set (s1 := reset s) in *. clearbody s1.
  destruct (getH h s1) as [x|] eqn:Hg; [|exact H0].
  destruct (h_live x) eqn:Hl; cbn [negb]; [|exact H0].
  destruct (getH h2 s1) eqn:Hg2; [exact H0|].
  cbn [ret fst].
  pose proof (proj1 (proj2 H0)) as HW.
  destruct (h_closed x && fx33 (fx s1)) eqn:Ec.
  - (* repaired clone of a closed handle *)
    eapply InvH_ext; [|apply (add_handle [] s1 h2 (mkH (h_tx x) (h_async x) true true) (sc s1) (rc s1) H0 Hg2 eq_refl)].
    + core_eq_refl.
    + eauto.
    + auto.
    + auto.
    + intros _. unfold open_tx, open_rx, b2n. cbn. lia.
  - assert (Ht : InvH [] (taint set_t33 (h_closed x) s1)).
    { apply InvH_taint; [exact H0 | apply tle_set_t33 |].
      intros E. apply ok_set_t33; [apply (w_taint s1 HW)|].
      rewrite E in Ec. cbn in Ec. exact Ec. }
    set (s2 := taint set_t33 (h_closed x) s1) in *.
    assert (E2 : hs s2 = hs s1 /\ sc s2 = sc s1 /\ rc s2 = rc s1).
    { subst s2. unfold taint. destruct (h_closed x); st_simpl; auto. }
    destruct E2 as (Eh & Es & Er).
    assert (Hg2' : getH h2 s2 = None) by (unfold getH in *; congruence).
    assert (Hg' : getH h s2 = Some x) by (unfold getH in *; congruence).
    assert (T7 : t07 (tn s2) = false -> t07 (tn s1) = false).
    { subst s2. unfold taint. destruct (h_closed x); st_simpl; auto. }
    destruct (h_tx x) eqn:Etx.
    + eapply InvH_ext; [|apply (add_handle [] s2 h2 (mkH true (h_async x) false true) (sc s2 + 1) (rc s2) Ht Hg2' eq_refl)].
      * core_eq_refl.
      * eauto.
      * clear. lia.
      * auto.
      * intros _. unfold open_tx, open_rx, b2n. cbn. clear. lia.
    + eapply InvH_ext; [|apply (add_handle [] s2 h2 (mkH false (h_async x) false true) (sc s2) (rc s2 + 1) Ht Hg2' eq_refl)].
      * core_eq_refl.
      * eauto.
      * auto.
      * clear. lia.
      * intros _. unfold open_tx, open_rx, b2n. cbn. clear. lia.
Qed.

Lemma mark_all_comm new l : forall s a b c d,
  mark_all new l (with_freed d (with_hs a (with_sc b (with_rc c s))))
  = with_freed d (with_hs a (with_sc b (with_rc c (mark_all new l s)))).
Proof.
  induction l as [|[f w] t IH]; intros s a b c d; cbn [mark_all]; [reflexivity|].
  change (getF f (with_freed d (with_hs a (with_sc b (with_rc c s))))) with (getF f s).
  destruct (getF f s) as [x|]; [|apply IH].
  destruct (is_waiting (f_state x)); [|apply IH].
  rewrite <- IH. f_equal. unfold mark_bad. destruct (negb (f_live x)); reflexivity.
Qed.

Lemma frameM_getH s s' h : frameM s s' -> getH h s' = getH h s.
Proof. unfold frameM, getH. intros (_&_&_&_&_&_&_&E&_). rewrite E. reflexivity. Qed.

(* what the marking loop does not change about the futures *)
Definition same_futs (s s' : st) : Prop :=
  forall f y', getF f s' = Some y' ->
    exists y, getF f s = Some y /\ f_live y' = f_live y /\ f_h y' = f_h y /\ f_recv y' = f_recv y
              /\ f_item y' = f_item y /\ f_done y' = f_done y /\ f_reg y' = f_reg y.

Lemma same_futs_refl s : same_futs s s.
Proof. intros f y Hy. exists y. repeat split; auto. Qed.

Lemma same_futs_trans a b c : same_futs a b -> same_futs b c -> same_futs a c.
Proof.
  intros H1 H2 f y Hy. destruct (H2 f y Hy) as [y1 [Hy1 (A&B&C&D&E&F)]].
  destruct (H1 f y1 Hy1) as [y0 [Hy0 (A0&B0&C0&D0&E0&F0)]]. exists y0. repeat split; congruence.
Qed.

Lemma same_futs_setF_state f x w s : getF f s = Some x -> same_futs s (setF f (set_state w x) s).
Proof.
  intros Hg f1 y Hy. rewrite getF_setF in Hy. destruct (N.eqb_spec f1 f) as [->|]; [|eauto 10].
  inversion Hy; subst. exists x. repeat split; auto.
Qed.

Lemma same_futs_core s s' : fs s' = fs s -> same_futs s s'.
Proof. intros E f y Hy. unfold getF in *. rewrite E in Hy. exists y. repeat split; auto. Qed.

Lemma mark_all_same_futs new l : forall s, same_futs s (mark_all new l s).
Proof.
  induction l as [|[f w] t IH]; intros s; cbn [mark_all]; [apply same_futs_refl|].
  destruct (getF f s) as [x|] eqn:Hg; [|apply IH].
  destruct (is_waiting (f_state x)); [|apply IH].
  eapply same_futs_trans; [|apply IH].
  eapply same_futs_trans; [apply (same_futs_setF_state f x new s Hg)|].
  apply same_futs_core. unfold mark_bad. destruct (negb (f_live x)); reflexivity.
Qed.

Lemma borrowed_same_futs h s s' :
  InvW s -> InvW s' -> same_futs s s' -> borrowed h s = false -> borrowed h s' = false.
Proof.
  intros HW HW' Hs Hb. unfold borrowed in *. apply not_true_iff_false. intros Ht.
  apply existsb_exists in Ht. destruct Ht as [[f y'] [Hi Hp]]. cbn [snd] in Hp.
  apply andb_prop in Hp. destruct Hp as [Hl Hh]. apply N.eqb_eq in Hh.
  assert (Hg' : getF f s' = Some y') by (apply In_aget; [apply (w_fnd s' HW') | exact Hi]).
  destruct (Hs f y' Hg') as [y [Hy (A&B&_)]].
  assert (existsb (fun e => f_live (snd e) && (f_h (snd e) =? h)) (fs s) = true); [|congruence].
  apply existsb_exists. exists (f, y). split; [apply aget_In; exact Hy|]. cbn [snd].
  rewrite <- A, Hl, <- B, Hh, N.eqb_refl. reflexivity.
Qed.

(* the handle-table update of close(): flag set, count decremented *)
Lemma close_update hand s h x sc' rc' :
  InvH hand s -> getH h s = Some x -> h_live x = true -> h_closed x = false ->
  (sc' = 0 -> forall f w y, In (f, w) (arq s) -> getF f s = Some y -> is_waiting (f_state y) = false) ->
  (rc' = 0 -> forall f w y, In (f, w) (asq s) -> getF f s = Some y -> is_waiting (f_state y) = false) ->
  (t07 (tn s) = false -> sc' + N.of_nat (b2n (h_tx x)) = sc s /\ rc' + N.of_nat (b2n (negb (h_tx x))) = rc s) ->
  InvH hand (with_freed (freed s) (with_hs (aset h (set_closed true x) (hs s)) (with_sc sc' (with_rc rc' s)))).
Proof.
  intros H Hg Hl Hc Hsc Hrc Hcnt.
  pose proof (proj1 (proj2 H)) as HW. pose proof (proj2 (proj2 H)) as HK.
  apply InvH_handles; try assumption.
  - apply NoDup_aset. apply (w_hnd s HW).
  - intros f y Hy Hly. destruct (w_fh s HW f y Hy Hly) as [z [Hz Hlz]]. rewrite aget_aset.
    destruct (N.eqb_spec (f_h y) h) as [E|]; [|eauto].
    exists (set_closed true x). split; [reflexivity | exact Hl].
  - rewrite (w_freed s HW). f_equal. unfold any_live. symmetry.
    apply existsb_aset with x; [apply (w_hnd s HW) | exact Hg | reflexivity].
  - intros T. destruct (k_cnt s HK T) as [A B]. destruct (Hcnt T) as [C D].
    pose proof (cnt_hs open_tx h x (set_closed true x) (hs s) (w_hnd s HW) Hg) as P1.
    pose proof (cnt_hs open_rx h x (set_closed true x) (hs s) (w_hnd s HW) Hg) as P2.
    unfold open_tx, open_rx, set_closed, b2n in *. cbn [h_live h_closed h_tx] in *.
    rewrite Hl, Hc in *. cbn [negb andb] in *. clear - A B C D P1 P2. destruct (h_tx x); cbn [negb] in *; lia.
Qed.

Lemma canon_sc n h y s :
  with_sc n (setH h y s) = with_freed (freed s) (with_hs (aset h y (hs s)) (with_sc n (with_rc (rc s) s))).
Proof. destruct s; reflexivity. Qed.

Lemma canon_rc n h y s :
  with_rc n (setH h y s) = with_freed (freed s) (with_hs (aset h y (hs s)) (with_sc (sc s) (with_rc n s))).
Proof. destruct s; reflexivity. Qed.

Lemma canon_0 h y s :
  setH h y s = with_freed (freed s) (with_hs (aset h y (hs s)) (with_sc (sc s) (with_rc (rc s) s))).
Proof. destruct s; reflexivity. Qed.

Definition close_post (h : N) (x : handle) (s s' : st) : Prop :=
  same_futs s s' /\ (forall h1, h1 <> h -> getH h1 s' = getH h1 s)
  /\ (exists y, getH h s' = Some y /\ h_live y = true /\ h_closed y = true /\ h_tx y = h_tx x /\ h_async y = h_async x)
  /\ q s' = q s /\ next s' = next s /\ recvd s' = recvd s /\ acc s' = acc s /\ back s' = back s
  /\ dropped s' = dropped s /\ tn s' = tn s /\ fx s' = fx s /\ cap s' = cap s /\ dk s' = dk s.

Lemma close_post_intro h x s s' :
  h_live x = true -> same_futs s s' -> hs s' = aset h (set_closed true x) (hs s) ->
  (q s' = q s /\ next s' = next s /\ recvd s' = recvd s /\ acc s' = acc s /\ back s' = back s
   /\ dropped s' = dropped s /\ tn s' = tn s /\ fx s' = fx s /\ cap s' = cap s /\ dk s' = dk s) ->
  close_post h x s s'.
Proof.
  intros Hl Hs E F. unfold close_post. split; [exact Hs|]. unfold getH. rewrite E. split.
  - intros h1 Hne. apply aget_aset_other. exact Hne.
  - split; [|exact F]. exists (set_closed true x). rewrite aget_aset_same. cbn. auto.
Qed.

Lemma getH_canon h1 a b c d s : getH h1 (with_freed d (with_hs a (with_sc b (with_rc c s)))) = aget h1 a.
Proof. reflexivity. Qed.

Lemma do_close_inv h x s :
  Inv s -> getH h s = Some x -> h_live x = true ->
  Inv (fst (do_close h x s)) /\ close_post h x s (fst (do_close h x s)).
Proof.
  intros H Hg Hl. unfold do_close.
  pose proof (proj1 (proj2 H)) as HW. pose proof (proj2 (proj2 H)) as HK.
  destruct (h_closed x) eqn:Hc; cbn [fst].
  { split; [exact H|]. unfold close_post. split; [apply same_futs_refl|]. split; [auto|].
    split; [exists x; auto|]. repeat split. }
  set (xc := set_closed true x).
  destruct (h_tx x) eqn:Htx.
  - (* a sender handle *)
    unfold close_tx. change (sc (setH h xc s)) with (sc s).
    destruct (N.eqb_spec (sc s) 0) as [E0|E0]; cbn [fst].
    + (* count underflow: only possible after the F-07 event *)
      rewrite canon_0. split.
      * apply close_update; try assumption.
        -- intros _. apply (w_sc0 s HW E0).
        -- apply (w_rc0 s HW).
        -- intros T. exfalso. destruct (k_cnt s HK T) as [A _].
           assert (0 < cnt open_tx (hs s))%nat.
           { apply cnt_pos with h x; [apply aget_In; exact Hg|]. unfold open_tx. rewrite Hl, Hc, Htx. reflexivity. }
           clear - A E0 H0. lia.
      * apply (close_post_intro h x _ _ Hl); [apply same_futs_core; reflexivity | reflexivity | repeat split].
    + change (sc (with_sc (sc s - 1) (setH h xc s))) with (sc s - 1).
      change (arq (with_sc (sc s - 1) (setH h xc s))) with (arq s).
      rewrite canon_sc.
      destruct (N.eqb_spec (sc s - 1) 0) as [E1|E1].
      * rewrite mark_all_comm.
        destruct (mark_all_spec [] (arq s) s H) as [A [B [C D]]]. cbv zeta in *.
        set (sm := mark_all WClosed (arq s) s) in *.
        pose proof B as (F1&F2&F3&F4&F5&F6&F7&F8&F9&F10&F11&F12&F13&F14&F15&F16).
        assert (Hgm : getH h sm = Some x) by (rewrite (frameM_getH s sm h B); exact Hg).
        split.
        -- rewrite <- F8, <- F14, <- F5.
           apply close_update; try assumption.
           ++ intros _ f w y Hi Hy. rewrite F7 in Hi. eapply D; eauto.
           ++ rewrite F5. intros E. rewrite F6. intros f w y Hi Hy.
              destruct (C f y Hy) as [y0 [Hy0 Hsame]].
              destruct (is_waiting (f_state y)) eqn:Ew; [|reflexivity].
              rewrite (Hsame eq_refl) in Ew. rewrite (w_rc0 s HW E f w y0 Hi Hy0) in Ew. discriminate.
           ++ rewrite F15, F4, F5. intros T. rewrite Htx. cbn [b2n negb]. clear - E0 E1. lia.
        -- apply (close_post_intro h x _ _ Hl);
             [apply same_futs_trans with sm; [apply mark_all_same_futs | apply same_futs_core; reflexivity]
             | reflexivity | st_simpl; repeat split; assumption].
      * split.
        -- apply close_update; try assumption.
           ++ intros E. contradiction.
           ++ apply (w_rc0 s HW).
           ++ intros T. rewrite Htx. cbn [b2n negb]. clear - E0. lia.
        -- apply (close_post_intro h x _ _ Hl); [apply same_futs_core; reflexivity | reflexivity | repeat split].
  - (* a receiver handle *)
    unfold close_rx. change (rc (setH h xc s)) with (rc s).
    destruct (N.eqb_spec (rc s) 0) as [E0|E0]; cbn [fst].
    + rewrite canon_0. split.
      * apply close_update; try assumption.
        -- apply (w_sc0 s HW).
        -- intros _. apply (w_rc0 s HW E0).
        -- intros T. exfalso. destruct (k_cnt s HK T) as [_ A].
           assert (0 < cnt open_rx (hs s))%nat.
           { apply cnt_pos with h x; [apply aget_In; exact Hg|]. unfold open_rx. rewrite Hl, Hc, Htx. reflexivity. }
           clear - A E0 H0. lia.
      * apply (close_post_intro h x _ _ Hl); [apply same_futs_core; reflexivity | reflexivity | repeat split].
    + change (rc (with_rc (rc s - 1) (setH h xc s))) with (rc s - 1).
      change (asq (with_rc (rc s - 1) (setH h xc s))) with (asq s).
      rewrite canon_rc.
      destruct (N.eqb_spec (rc s - 1) 0) as [E1|E1].
      * rewrite mark_all_comm.
        destruct (mark_all_spec [] (asq s) s H) as [A [B [C D]]]. cbv zeta in *.
        set (sm := mark_all WClosed (asq s) s) in *.
        pose proof B as (F1&F2&F3&F4&F5&F6&F7&F8&F9&F10&F11&F12&F13&F14&F15&F16).
        assert (Hgm : getH h sm = Some x) by (rewrite (frameM_getH s sm h B); exact Hg).
        split.
        -- rewrite <- F8, <- F14, <- F4.
           apply close_update; try assumption.
           ++ rewrite F4. intros E. rewrite F7. intros f w y Hi Hy.
              destruct (C f y Hy) as [y0 [Hy0 Hsame]].
              destruct (is_waiting (f_state y)) eqn:Ew; [|reflexivity].
              rewrite (Hsame eq_refl) in Ew. rewrite (w_sc0 s HW E f w y0 Hi Hy0) in Ew. discriminate.
           ++ intros _ f w y Hi Hy. rewrite F6 in Hi. eapply D; eauto.
           ++ rewrite F15, F4, F5. intros T. rewrite Htx. cbn [b2n negb]. clear - E0 E1. lia.
        -- apply (close_post_intro h x _ _ Hl);
             [apply same_futs_trans with sm; [apply mark_all_same_futs | apply same_futs_core; reflexivity]
             | reflexivity | st_simpl; repeat split; assumption].
      * (* not the last receiver: nudge the front parked sender *)
        destruct (asq s) as [|[f w] t] eqn:Ea.
        { split.
          - apply close_update; try assumption.
            + apply (w_sc0 s HW).
            + intros E. contradiction.
            + intros T. rewrite Htx. cbn [b2n negb]. clear - E0. lia.
          - apply (close_post_intro h x _ _ Hl); [apply same_futs_core; reflexivity | reflexivity | repeat split]. }
        change (getF f (with_freed (freed s) (with_hs (aset h xc (hs s)) (with_sc (sc s) (with_rc (rc s - 1) s))))) with (getF f s).
        assert (Hbase : InvH [] (with_freed (freed s) (with_hs (aset h xc (hs s)) (with_sc (sc s) (with_rc (rc s - 1) s))))).
        { apply close_update; try assumption.
          - apply (w_sc0 s HW).
          - intros E. contradiction.
          - intros T. rewrite Htx. cbn [b2n negb]. clear - E0. lia. }
        destruct (getF f s) as [y|] eqn:Hy.
        2:{ split; [exact Hbase|].
            apply (close_post_intro h x _ _ Hl); [apply same_futs_core; reflexivity | reflexivity | repeat split]. }
        destruct (is_waiting (f_state y)) eqn:Ew.
        2:{ split; [exact Hbase|].
            apply (close_post_intro h x _ _ Hl); [apply same_futs_core; reflexivity | reflexivity | repeat split]. }
        set (s2 := with_freed (freed s) (with_hs (aset h xc (hs s)) (with_sc (sc s) (with_rc (rc s - 1) s)))) in *.
        assert (Hi2 : In (f, w) (asq s2)) by (change (asq s2) with (asq s); rewrite Ea; left; reflexivity).
        assert (Hy2 : getF f s2 = Some y) by exact Hy.
        destruct (InvH_woken_s true [] f w y s2 Hbase Hi2 Hy2 Ew) as [A _].
        split.
        -- apply InvH_mark_bad. eapply InvH_ext; [|exact A]. unfold woken_s. core_eq_refl.
        -- apply (close_post_intro h x _ _ Hl).
           ++ eapply same_futs_trans; [apply (same_futs_setF_state f y Success s Hy)|].
              apply same_futs_core. unfold mark_bad. destruct (negb (f_live y)); reflexivity.
           ++ unfold mark_bad. destruct (negb (f_live y)); reflexivity.
           ++ unfold mark_bad. destruct (negb (f_live y)); repeat split.
Qed.

Lemma step_close s h : Inv s -> Inv (fst (step s (Close h))).
Proof.
  intros H0. apply Inv_reset in H0. unfold step. fold (reset s). set (s1 := reset s) in *. clearbody s1.
  destruct (getH h s1) as [x|] eqn:Hg; [|exact H0].
  destruct (h_live x) eqn:Hl; cbn [negb]; [|exact H0].
  pose proof (do_close_inv h x s1 H0 Hg Hl) as [A _].
  destruct (do_close h x s1) as [s2 r]. exact A.
Qed.

Lemma kill_handle hand s h y :
  InvH hand s -> getH h s = Some y -> h_closed y = true -> borrowed h s = false ->
  InvH hand (maybe_free (setH h (set_hdead y) s)).
Proof.
  intros H Hg Hc Hb.
  pose proof (proj1 (proj2 H)) as HW. pose proof (proj2 (proj2 H)) as HK.
  set (hs' := aset h (set_hdead y) (hs s)).
  assert (Hcan : InvH hand (with_freed (negb (existsb (fun e => h_live (snd e)) hs')) (with_hs hs' (with_sc (sc s) (with_rc (rc s) s))))).
  { apply InvH_handles; try assumption.
    - apply NoDup_aset. apply (w_hnd s HW).
    - intros f z Hz Hlz. destruct (w_fh s HW f z Hz Hlz) as [u [Hu Hlu]]. exists u. split; [|exact Hlu].
      subst hs'. rewrite aget_aset_other; [exact Hu|]. eapply not_borrowed; eauto.
    - apply (w_sc0 s HW).
    - apply (w_rc0 s HW).
    - reflexivity.
    - intros T. destruct (k_cnt s HK T) as [A B].
      pose proof (cnt_hs open_tx h y (set_hdead y) (hs s) (w_hnd s HW) Hg) as P1.
      pose proof (cnt_hs open_rx h y (set_hdead y) (hs s) (w_hnd s HW) Hg) as P2.
      assert (E1 : open_tx y = false) by (unfold open_tx; rewrite Hc; cbn; rewrite andb_false_r; reflexivity).
      assert (E2 : open_rx y = false) by (unfold open_rx; rewrite Hc; cbn; rewrite andb_false_r; reflexivity).
      assert (E3 : open_tx (set_hdead y) = false) by reflexivity.
      assert (E4 : open_rx (set_hdead y) = false) by reflexivity.
      rewrite E1, E3 in P1. rewrite E2, E4 in P2. unfold b2n in *.
      subst hs'. clear - A B P1 P2. lia. }
  unfold maybe_free. unfold any_live. change (hs (setH h (set_hdead y) s)) with hs'.
  destruct (existsb (fun e => h_live (snd e)) hs') eqn:El.
  - eapply InvH_ext; [|exact Hcan]. unfold core_eq. st_simpl. repeat split; try reflexivity.
    cbn [negb]. rewrite (w_freed s HW). unfold any_live.
    destruct (existsb (fun e : N * handle => h_live (snd e)) (hs s)) eqn:E2; [reflexivity|].
    exfalso. apply (live_exists hs' (NoDup_aset h (set_hdead y) (hs s) (w_hnd s HW))) in El.
    destruct El as [h1 [u [Hu Hlu]]]. subst hs'. rewrite aget_aset in Hu.
    destruct (N.eqb_spec h1 h); [inversion Hu; subst; discriminate|].
    assert (existsb (fun e : N * handle => h_live (snd e)) (hs s) = true); [|congruence].
    apply (live_exists (hs s) (w_hnd s HW)). eauto.
  - eapply InvH_ext; [|exact Hcan]. core_eq_refl.
Qed.

Lemma step_drop s h : Inv s -> Inv (fst (step s (DropH h))).
Proof.
  intros H0. apply Inv_reset in H0. unfold step. fold (reset s). set (s1 := reset s) in *. clearbody s1.
  destruct (getH h s1) as [x|] eqn:Hg; [|exact H0].
  destruct (h_live x) eqn:Hl; cbn [negb]; [|exact H0].
  destruct (borrowed h s1) eqn:Hb; [exact H0|].
  pose proof (do_close_inv h x s1 H0 Hg Hl) as [A [Sf [Ho [[y [Hy [Hly [Hcy _]]]] _]]]].
  destruct (do_close h x s1) as [s2 r]. cbn [fst] in *. rewrite Hy.
  cbn [ret fst]. apply kill_handle; try assumption.
  eapply borrowed_same_futs; [apply H0 | apply A | exact Sf | exact Hb].
Qed.

Lemma step_convert s h h2 : Inv s -> Inv (fst (step s (Convert h h2))).
Proof.
  intros H0. apply Inv_reset in H0. unfold step. fold (reset s). set (s1 := reset s) in *. clearbody s1.
  destruct (getH h s1) as [x|] eqn:Hg; [|exact H0].
  destruct (h_live x) eqn:Hl; cbn [negb]; [|exact H0].
  destruct (getH h2 s1) eqn:Hg2; [exact H0|].
  destruct (borrowed h s1) eqn:Hb; [exact H0|].
  cbn [ret fst].
  pose proof (proj1 (proj2 H0)) as HW0.
  set (b := h_closed x && negb (fx07 (fx s1))).
  assert (Ht : InvH [] (taint set_t07 b s1)).
  { apply InvH_taint; [exact H0 | apply tle_set_t07 |].
    intros E. apply ok_set_t07; [apply (w_taint s1 HW0)|]. subst b. apply andb_prop in E. destruct E as [_ E].
    destruct (fx07 (fx s1)); [discriminate | reflexivity]. }
  set (s2 := taint set_t07 b s1) in *.
  assert (E2 : hs s2 = hs s1 /\ sc s2 = sc s1 /\ rc s2 = rc s1 /\ fs s2 = fs s1 /\ fx s2 = fx s1
               /\ (t07 (tn s2) = false -> b = false)).
  { subst s2. unfold taint. destruct b; st_simpl; repeat split; auto; try (cbn; discriminate). }
  destruct E2 as (Eh & Es & Er & Ef & Efx & Eb).
  assert (Hg' : getH h s2 = Some x) by (unfold getH in *; congruence).
  assert (Hg2' : getH h2 s2 = None) by (unfold getH in *; congruence).
  assert (Hb' : borrowed h s2 = false) by (unfold borrowed in *; congruence).
  pose proof (proj1 (proj2 Ht)) as HW. pose proof (proj2 (proj2 Ht)) as HK.
  set (c := h_closed x && fx07 (fx s1)).
  set (xn := mkH (h_tx x) (negb (h_async x)) c true).
  set (hs' := aset h2 xn (aset h (set_hdead x) (hs s2))).
  assert (Hne : h2 <> h) by (intros E; subst; congruence).
  assert (Hn2 : aget h2 (aset h (set_hdead x) (hs s2)) = None).
  { rewrite aget_aset_other by exact Hne. exact Hg2'. }
  eapply InvH_ext; [|apply (InvH_handles [] hs' (sc s2) (rc s2) (freed s2) s2 Ht)].
  - subst hs' s2. unfold taint. destruct b; core_eq_refl.
  - subst hs'. apply NoDup_aset, NoDup_aset. apply (w_hnd s2 HW).
  - intros f z Hz Hlz. destruct (w_fh s2 HW f z Hz Hlz) as [u [Hu Hlu]]. exists u. split; [|exact Hlu].
    subst hs'. rewrite aget_aset_other.
    + rewrite aget_aset_other; [exact Hu|]. eapply not_borrowed; eauto.
    + intros E. unfold getH in *. congruence.
  - apply (w_sc0 s2 HW).
  - apply (w_rc0 s2 HW).
  - rewrite (w_freed s2 HW). rewrite (any_live_true s2 h x HW Hg' Hl).
    assert (Ex : existsb (fun e : N * handle => h_live (snd e)) hs' = true).
    { apply (live_exists hs'); [subst hs'; apply NoDup_aset, NoDup_aset; apply (w_hnd s2 HW)|].
      exists h2, xn. split; [subst hs'; apply aget_aset_same | reflexivity]. }
    rewrite Ex. reflexivity.
  - intros T. destruct (k_cnt s2 HK T) as [A B]. specialize (Eb T).
    subst hs'. rewrite (cnt_aset_new open_tx h2 xn _ Hn2), (cnt_aset_new open_rx h2 xn _ Hn2).
    pose proof (cnt_hs open_tx h x (set_hdead x) (hs s2) (w_hnd s2 HW) Hg') as P1.
    pose proof (cnt_hs open_rx h x (set_hdead x) (hs s2) (w_hnd s2 HW) Hg') as P2.
    assert (Eo1 : open_tx xn = open_tx x /\ open_rx xn = open_rx x).
    { subst xn c b. unfold open_tx, open_rx. cbn [h_live h_closed h_tx]. rewrite Hl.
      destruct (h_closed x), (fx07 (fx s1)); cbn in *; try discriminate; auto. }
    destruct Eo1 as [Eo1 Eo2]. rewrite Eo1, Eo2.
    assert (Ed1 : open_tx (set_hdead x) = false /\ open_rx (set_hdead x) = false) by (unfold open_tx, open_rx; cbn; auto).
    destruct Ed1 as [Ed1 Ed2]. rewrite Ed1 in P1. rewrite Ed2 in P2. unfold b2n in *.
    clear - A B P1 P2. lia.
Qed.
