(* Proofs/PolicyLruProofs.v — contract and order lemmas for LruP and FifoP. *)
From Fibre Require Import Common.Base Cache.PolicySpec Cache.PolicyLru Proofs.PolicyCommon.

Lemma pop_while_spec want r : forall freed vs f rest,
  pop_while want freed r = (vs, f, rest) ->
  exists taken, r = taken ++ rest /\ vs = keys taken /\ f = freed + total taken
    /\ (want <= f \/ rest = [])
    /\ (forall pre x, taken = pre ++ [x] -> freed + total pre < want).
Proof.
  induction r as [|[k c] t IH]; intros freed vs f rest H; cbn [pop_while] in H.
  - inversion H; subst. exists []. cbn [app keys map total]. repeat split; try lia.
    + right. reflexivity.
    + intros pre x Hx. destruct pre; discriminate.
  - destruct (N.ltb_spec freed want) as [Hlt|Hge].
    + destruct (pop_while want (freed + c) t) as [[vs1 f1] rest1] eqn:E.
      inversion H; subst. destruct (IH _ _ _ _ E) as [tk [Hr [Hv [Hf [Hs Hmin]]]]].
      exists ((k, c) :: tk). cbn [app keys map fst total]. repeat split.
      * rewrite Hr. reflexivity.
      * rewrite Hv. reflexivity.
      * lia.
      * exact Hs.
      * intros pre x Hx. destruct pre as [|p pre'].
        -- cbn [total]. lia.
        -- cbn [app] in Hx. inversion Hx; subst. cbn [total].
           specialize (Hmin pre' x eq_refl). lia.
    + inversion H; subst. exists []. cbn [app keys map total]. repeat split; try lia.
      intros pre x Hx. destruct pre; discriminate.
Qed.

(** order form: victims are the back of the list, taken back to front, and no
    more than needed. *)
Lemma ll_evict_order n l l' vs f :
  ll_evict n l = (l', vs, f) ->
  exists V, l = l' ++ rev V /\ vs = keys V /\ f = total V
    /\ (n <= f \/ l' = [])
    /\ (forall pre x, V = pre ++ [x] -> total pre < n).
Proof.
  unfold ll_evict. destruct (pop_while n 0 (rev l)) as [[vs1 f1] rest] eqn:E.
  intros H. inversion H; subst.
  destruct (pop_while_spec _ _ _ _ _ _ E) as [tk [Hr [Hv [Hf [Hs Hmin]]]]].
  exists tk. repeat split.
  - rewrite <- (rev_involutive l). rewrite Hr. rewrite rev_app_distr. reflexivity.
  - exact Hv.
  - lia.
  - destruct Hs as [Hs|Hs]; [left; exact Hs | right; rewrite Hs; reflexivity].
  - intros pre x Hx. specialize (Hmin pre x Hx). lia.
Qed.

Lemma ll_evict_ok n l l' vs f :
  NoDup (keys l) -> ll_evict n l = (l', vs, f) -> evict_ok l l' n vs f.
Proof.
  intros Hnd H. destruct (ll_evict_order _ _ _ _ _ H) as [V [Hl [Hv [Hf [Hs _]]]]].
  rewrite Hv. apply evict_ok_split.
  - exact Hnd.
  - rewrite Hl. eapply Permutation_trans; [apply Permutation_app_comm|].
    apply Permutation_app_tail. apply Permutation_sym, Permutation_rev.
  - exact Hf.
  - intros Hn. destruct Hs as [Hs|Hs]; [exact Hs|].
    subst l'. cbn [app] in Hl. subst l. rewrite total_rev in Hn. lia.
Qed.

Lemma ll_evict_NoDup n l l' vs f :
  NoDup (keys l) -> ll_evict n l = (l', vs, f) -> NoDup (keys l').
Proof.
  intros Hnd H. destruct (ll_evict_order _ _ _ _ _ H) as [V [Hl _]].
  rewrite Hl, keys_app in Hnd. apply NoDup_app_l in Hnd. exact Hnd.
Qed.

Definition lru_inv (l : lru_list) : Prop := NoDup (keys l).

Lemma cons_rm_NoDup k c l : NoDup (keys l) -> NoDup (keys ((k, c) :: rm k l)).
Proof.
  intros H. cbn [keys map fst]. constructor; [apply rm_not_in | apply rm_NoDup; exact H].
Qed.

Lemma lru_inv_step l cl : lru_inv l -> lru_inv (fst (lru_step l cl)).
Proof.
  unfold lru_inv. intros H. destruct cl as [k c|k c|k|n|]; cbn [lru_step fst].
  - unfold ll_move_to_front. destruct (lookup k l); [apply cons_rm_NoDup; exact H | exact H].
  - apply cons_rm_NoDup. exact H.
  - apply rm_NoDup. exact H.
  - destruct (ll_evict n l) as [[l' vs] f] eqn:E. cbn [fst]. eapply ll_evict_NoDup; eauto.
  - constructor.
Qed.

Lemma lru_step_ok l cl : lru_inv l ->
  let '(l', o) := lru_step l cl in step_ok admit_full l cl o l'.
Proof.
  unfold lru_inv. intros H. destruct cl as [k c|k c|k|n|]; cbn [lru_step step_ok step_okG access_keep].
  - unfold ll_move_to_front. destruct (lookup k l) eqn:E; [|apply Permutation_refl].
    apply perm_rm_cons; assumption.
  - unfold admit_full, ll_push_front. apply Permutation_refl.
  - apply Permutation_refl.
  - destruct (ll_evict n l) as [[l' vs] f] eqn:E. cbn [step_ok step_okG access_keep]. eapply ll_evict_ok; eauto.
  - reflexivity.
Qed.

Theorem lru_contract : contract admit_full LruP.
Proof.
  apply (contract_lift admit_full LruP lru_inv).
  - constructor.
  - exact lru_inv_step.
  - intros s H. exact H.
  - exact lru_step_ok.
Qed.

(** LRU order: the list is the recency order.  A touch (access of a tracked
    key, or any admit) moves that key to the front and keeps the relative order
    of all others; remove keeps relative order; evict takes from the back. *)
Lemma lru_touch_front l k c :
  lookup k l = Some c -> fst (lru_step l (Access k 0)) = (k, c) :: rm k l.
Proof. intros H. cbn [lru_step fst]. unfold ll_move_to_front. rewrite H. reflexivity. Qed.

Lemma lru_admit_front l k c : fst (lru_step l (Admit k c)) = (k, c) :: rm k l.
Proof. reflexivity. Qed.

Lemma lru_access_untracked l k c : lookup k l = None -> fst (lru_step l (Access k c)) = l.
Proof. intros H. cbn [lru_step fst]. unfold ll_move_to_front. rewrite H. reflexivity. Qed.

Theorem lru_evict_least_recent l n :
  let '(l', o) := lru_step l (Evict n) in
  exists V, o = OVictims (keys V) (total V) /\ l = l' ++ rev V
    /\ (n <= total V \/ l' = [])
    /\ (forall pre x, V = pre ++ [x] -> total pre < n).
Proof.
  cbn [lru_step]. destruct (ll_evict n l) as [[l' vs] f] eqn:E.
  destruct (ll_evict_order _ _ _ _ _ E) as [V [Hl [Hv [Hf [Hs Hmin]]]]].
  exists V. subst vs f. repeat split; assumption.
Qed.

(** FIFO *)
Lemma fifo_inv_step l cl : lru_inv l -> lru_inv (fst (fifo_step l cl)).
Proof.
  unfold lru_inv. intros H. destruct cl as [k c|k c|k|n|]; cbn [fifo_step fst].
  - exact H.
  - destruct (lookup k l); [exact H | apply cons_rm_NoDup; exact H].
  - apply rm_NoDup. exact H.
  - destruct (ll_evict n l) as [[l' vs] f] eqn:E. cbn [fst]. eapply ll_evict_NoDup; eauto.
  - constructor.
Qed.

Lemma fifo_step_ok l cl : lru_inv l ->
  let '(l', o) := fifo_step l cl in step_ok admit_keep_old l cl o l'.
Proof.
  unfold lru_inv. intros H. destruct cl as [k c|k c|k|n|]; cbn [fifo_step step_ok step_okG access_keep].
  - apply Permutation_refl.
  - unfold admit_keep_old. destruct (lookup k l) eqn:E; [apply Permutation_refl|].
    unfold ll_push_front. rewrite rm_id; [apply Permutation_refl|].
    apply lookup_None. exact E.
  - apply Permutation_refl.
  - destruct (ll_evict n l) as [[l' vs] f] eqn:E. cbn [step_ok step_okG access_keep]. eapply ll_evict_ok; eauto.
  - reflexivity.
Qed.

Theorem fifo_contract_keep_old : contract admit_keep_old FifoP.
Proof.
  apply (contract_lift admit_keep_old FifoP lru_inv).
  - constructor.
  - exact fifo_inv_step.
  - intros s H. exact H.
  - exact fifo_step_ok.
Qed.

(* insertion order: a fresh admit goes to the front, nothing else reorders *)
Lemma fifo_admit_fresh l k c :
  lookup k l = None -> fst (fifo_step l (Admit k c)) = (k, c) :: l.
Proof.
  intros H. cbn [fifo_step fst]. rewrite H. unfold ll_push_front.
  rewrite rm_id; [reflexivity | apply lookup_None; exact H].
Qed.

Lemma fifo_admit_tracked l k c c0 :
  lookup k l = Some c0 -> fst (fifo_step l (Admit k c)) = l.
Proof. intros H. cbn [fifo_step fst]. rewrite H. reflexivity. Qed.

Lemma fifo_access_noop l k c : fst (fifo_step l (Access k c)) = l.
Proof. reflexivity. Qed.

Theorem fifo_evict_oldest l n :
  let '(l', o) := fifo_step l (Evict n) in
  exists V, o = OVictims (keys V) (total V) /\ l = l' ++ rev V
    /\ (n <= total V \/ l' = [])
    /\ (forall pre x, V = pre ++ [x] -> total pre < n).
Proof.
  cbn [fifo_step]. destruct (ll_evict n l) as [[l' vs] f] eqn:E.
  destruct (ll_evict_order _ _ _ _ _ E) as [V [Hl [Hv [Hf [Hs Hmin]]]]].
  exists V. subst vs f. repeat split; assumption.
Qed.

(** F-19: the full re-admission clause is false of the faithful Fifo model. *)
Theorem fifo_readmit_refuted : ~ contract admit_full FifoP.
Proof.
  intros H. specialize (H [Admit 1 1]). cbv zeta in H. destruct H as [_ H].
  specialize (H (Admit 1 50)). vm_compute in H.
  apply Permutation_length_1_inv in H. discriminate.
Qed.
