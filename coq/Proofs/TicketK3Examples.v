(* Proofs/TicketK3Examples.v — non-vacuity witnesses for the K3 ticket theorems: a concrete
   schedule, evaluated with vm_compute, of two producers and the consumer on a channel with
   cap 1, chunk_cap 1, a 2-entry chunk table and K = 1.  It exhibits: a check-then-claim race
   resolved by a SKIP tombstone (ticket 1), try_send results Ok / Full / Closed, delivery in
   ticket order, chunk-table recycling over two laps (entry 0 holds chunk 0, 2, 4; four chunks
   retired), and a payload left buffered when the receiver is dropped. *)
From Fibre Require Import Common.Base Common.Conc Chan.TicketK3.

Definition ex_rr (k : nat) : list (tid * choice) := concat (repeat [(TP 0, CGo); (TP 1, CGo); (TC, CGo)] k).
Definition ex_blk (t : tid) (k : nat) : list (tid * choice) := repeat (t, CGo) k.
Definition ex_pp (i : nat) : list pop := match i with O => repeat TrySend 5 | S O => repeat TrySend 5 | _ => [] end.
Definition ex_cp : list cop := repeat TryRecv 12.
Definition ex_sch := ex_rr 6 ++ concat (repeat (ex_blk (TP 0) 14 ++ ex_blk TC 32 ++ ex_blk (TP 1) 14 ++ ex_blk TC 32) 8).
Definition ex_sys := sys 1 1 2 1 2 ex_pp ex_cp.
Definition ex_s := fst (Conc.run ex_sys (init 2 ex_pp ex_cp) ex_sch).

Lemma ex_results :
  presl ex_s 0 = [POk (0%nat, 1); PFull (0%nat, 2); POk (0%nat, 3); POk (0%nat, 4); PFull (0%nat, 5)] /\
  presl ex_s 1 = [PFull (1%nat, 1); PFull (1%nat, 2); POk (1%nat, 3); PClosed (1%nat, 4); PClosed (1%nat, 5)] /\
  got ex_s = [(0%nat, 1); (0%nat, 3); (1%nat, 3)] /\
  ppc ex_s 0 = PDone /\ ppc ex_s 1 = PDone /\ cpc ex_s = CDone.
Proof. vm_compute. repeat split; reflexivity. Qed.

Lemma ex_tickets :
  tk ex_s 0 = TSet (0%nat, 1) /\ tk ex_s 1 = TSkip /\ tk ex_s 2 = TSet (0%nat, 3) /\ tk ex_s 3 = TSet (1%nat, 3) /\
  tk ex_s 4 = TSet (0%nat, 4) /\ gtail ex_s = 5 /\ hpos ex_s = 4 /\ buffered ex_s = [(0%nat, 4)] /\
  accepted ex_s = [(0%nat, 1); (0%nat, 3); (1%nat, 3); (0%nat, 4)].
Proof. vm_compute. repeat split; reflexivity. Qed.

Lemma ex_recycled : retired ex_s = 4 /\ ids ex_s 0 = 4 /\ ids ex_s 1 = 3 /\ bad ex_s = false.
Proof. vm_compute. repeat split; reflexivity. Qed.

(* batches: cap 2, chunk_cap 2, 2 table entries, K = 2.  Producer 0's first try_send_batch(3) claims
   a run of 2 (both SET) and hands the third item back; producer 1's racing claim of 2 overshoots and
   is tombstoned (two SKIPs); later producer 0's try_send_batch(2) gets tickets 4, 5 (chunk 2, which
   re-labels table entry 0).  The consumer's try_recv_batch drains 2 values in one call, walks over
   the tombstones, drains 2 more, then sees Disconnected. *)
Definition exb_pp (i : nat) : list pop :=
  match i with
  | O => [TrySendBatch 3; TrySendBatch 2; TrySendBatch 2]
  | S O => [TrySendBatch 2; TrySend; TrySendBatch 3]
  | _ => []
  end.
Definition exb_cp : list cop :=
  [TryRecvBatch 5; TryRecvBatch 5; TryRecv; TryRecvBatch 2; TryRecvBatch 3; TryRecvBatch 3; TryRecvBatch 3; TryRecvBatch 3].
Definition exb_sch := ex_rr 9 ++ concat (repeat (ex_blk (TP 0) 30 ++ ex_blk TC 30 ++ ex_blk (TP 1) 30 ++ ex_blk TC 30) 8).
Definition exb_s := fst (Conc.run (sys 2 2 2 2 2 exb_pp exb_cp) (init 2 exb_pp exb_cp) exb_sch).

Lemma exb_results :
  presl exb_s 0 = [POk (0%nat, 1); POk (0%nat, 2); PFull (0%nat, 3); PFull (0%nat, 4); PFull (0%nat, 5);
                   POk (0%nat, 6); POk (0%nat, 7)] /\
  presl exb_s 1 = [PFull (1%nat, 1); PFull (1%nat, 2); PFull (1%nat, 3); PFull (1%nat, 4); PFull (1%nat, 5); PFull (1%nat, 6)] /\
  cresl exb_s = [REmpty; RVal (0%nat, 1); RVal (0%nat, 2); REmpty; REmpty; RVal (0%nat, 6); RVal (0%nat, 7); RDisc; RDisc; RDisc] /\
  tk exb_s 0 = TSet (0%nat, 1) /\ tk exb_s 1 = TSet (0%nat, 2) /\ tk exb_s 2 = TSkip /\ tk exb_s 3 = TSkip /\
  tk exb_s 4 = TSet (0%nat, 6) /\ tk exb_s 5 = TSet (0%nat, 7) /\
  gtail exb_s = 6 /\ hpos exb_s = 6 /\ retired exb_s = 3 /\ ids exb_s 0 = 2 /\ bad exb_s = false /\
  ppc exb_s 0 = PDone /\ ppc exb_s 1 = PDone /\ cpc exb_s = CDone.
Proof. vm_compute. repeat split; reflexivity. Qed.
