(* Proofs/TicketK3Examples.v — non-vacuity witnesses for the K3 ticket theorems: a concrete
   schedule, evaluated with vm_compute, of two producers and the consumer on a channel with
   cap 1, chunk_cap 1, a 2-entry chunk table and K = 1.  It exhibits: a check-then-claim race
   resolved by a SKIP tombstone (ticket 1), try_send results Ok / Full / Closed, delivery in
   ticket order, chunk-table recycling over two laps (entry 0 holds chunk 0, 2, 4; four chunks
   retired), and a payload left buffered when the receiver is dropped. *)
From Fibre Require Import Common.Base Common.Conc Chan.TicketK3.

Definition ex_rr (k : nat) : list (tid * choice) := concat (repeat [(TP 0, CGo); (TP 1, CGo); (TC, CGo)] k).
Definition ex_blk (t : tid) (k : nat) : list (tid * choice) := repeat (t, CGo) k.
Definition ex_pp (i : nat) : list pop := match i with O => repeat TrySend 5 | S O => repeat TrySend 5 | _ => [] end.
Definition ex_cp : list cop := repeat TryRecv 12.
Definition ex_sch := ex_rr 6 ++ concat (repeat (ex_blk (TP 0) 14 ++ ex_blk TC 32 ++ ex_blk (TP 1) 14 ++ ex_blk TC 32) 8).
Definition ex_sys := sys 1 1 2 1 2 ex_pp ex_cp.
Definition ex_s := fst (run ex_sys (init 2 ex_pp ex_cp) ex_sch).

Lemma ex_results :
  presl ex_s 0 = [POk (0%nat, 1); PFull (0%nat, 2); POk (0%nat, 3); POk (0%nat, 4); PFull (0%nat, 5)] /\
  presl ex_s 1 = [PFull (1%nat, 1); PFull (1%nat, 2); POk (1%nat, 3); PClosed (1%nat, 4); PClosed (1%nat, 5)] /\
  got ex_s = [(0%nat, 1); (0%nat, 3); (1%nat, 3)] /\
  ppc ex_s 0 = PDone /\ ppc ex_s 1 = PDone /\ cpc ex_s = CDone.
Proof. vm_compute. repeat split; reflexivity. Qed.

Lemma ex_tickets :
  tk ex_s 0 = TSet (0%nat, 1) /\ tk ex_s 1 = TSkip /\ tk ex_s 2 = TSet (0%nat, 3) /\ tk ex_s 3 = TSet (1%nat, 3) /\
  tk ex_s 4 = TSet (0%nat, 4) /\ gtail ex_s = 5 /\ hpos ex_s = 4 /\ buffered ex_s = [(0%nat, 4)] /\
  accepted ex_s = [(0%nat, 1); (0%nat, 3); (1%nat, 3); (0%nat, 4)].
Proof. vm_compute. repeat split; reflexivity. Qed.

Lemma ex_recycled : retired ex_s = 4 /\ ids ex_s 0 = 4 /\ ids ex_s 1 = 3 /\ bad ex_s = false.
Proof. vm_compute. repeat split; reflexivity. Qed.
