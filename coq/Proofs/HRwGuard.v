(* Proofs/HRwGuard.v — HybridRwLock: guard accounting (RInvA), list-spinlock ownership (RInvB),
   WRITER_PENDING / HAS_QUEUED over-approximation (RInvD). *)
From Coq Require Import List NArith Arith Bool Lia.
From Fibre Require Import Common.Conc Sync.HMutex Sync.HRwLock Proofs.HMutexBase Proofs.HRwBase.
Import ListNotations.

Definition RInvA s :=
  (forall u, In u (wholders s) <-> holdsk WR (rpcs s u) = true)
  /\ (forall u, In u (rholders s) <-> holdsk RD (rpcs s u) = true)
  /\ NoDup (rholders s)
  /\ rd s = N.of_nat (length (rholders s))
  /\ (wl s = true -> (exists h, wholders s = [h]) /\ rholders s = [])
  /\ (wl s = false -> wholders s = []).

Lemma rem1_In u t l : NoDup l -> (In u (rem1 t l) <-> In u l /\ u <> t).
Proof.
  induction l as [|x r IH]; intros N; cbn [rem1].
  - cbn. tauto.
  - inversion N; subst. destruct (Nat.eqb_spec x t) as [->|Hne].
    + split; [intros X; split; [right; exact X|intros ->; contradiction]|intros [[X|X] Y]; [congruence|exact X]].
    + cbn [In]. rewrite (IH H2). split.
      * intros [X|[X Y]]; [split; [left; exact X|congruence]|split; [right; exact X|exact Y]].
      * intros [[X|X] Y]; [left; exact X|right; split; assumption].
Qed.

Lemma rem1_NoDup t l : NoDup l -> NoDup (rem1 t l).
Proof.
  induction l as [|x r IH]; intros N; cbn [rem1]; [constructor|].
  inversion N; subst. destruct (Nat.eqb x t); [assumption|].
  constructor; [|apply IH; assumption]. intros X. apply rem1_In in X; [|assumption]. tauto.
Qed.

Lemma rem1_length t l : In t l -> S (length (rem1 t l)) = length l.
Proof.
  induction l as [|x r IH]; intros H; cbn [rem1]; [destruct H|].
  destruct (Nat.eqb_spec x t) as [->|Hne]; [reflexivity|].
  cbn [length]. f_equal. apply IH. destruct H; [congruence|assumption].
Qed.

Lemma rflush_frame s t ws :
  wl (rflush s t ws) = wl s /\ rd (rflush s t ws) = rd s /\ wholders (rflush s t ws) = wholders s
  /\ rholders (rflush s t ws) = rholders s /\ (forall k, holdsk k (rpcs (rflush s t ws) t) = false).
Proof.
  revert s. induction ws as [|[k h] r IH]; intros s; cbn [rflush].
  - cbn. rewrite upd_eq. repeat split.
  - destruct k; try apply IH; cbn; rewrite upd_eq; repeat split.
Qed.

Lemma RInvA_step s t c s' e : RInvA s -> rwstep s t c = Some (s', e) -> RInvA s'.
Proof.
  intros (A1 & A2 & A3 & A4 & A5 & A6) H.
  pose proof (A1 t) as A1t. pose proof (A2 t) as A2t.
  rstep_cases H; rewrite Epc in A1t, A2t; cbn [holdsk rkind_q rkind_a rw_eqb] in A1t, A2t; unfold RInvA; rsimpl.
  all: try solve [ repeat apply conj; try assumption;
                   intros u; split_thr u t; try (apply A1); try (apply A2);
                   cbn [holdsk rkind_q rkind_a rw_eqb]; repeat match goal with k : rw |- _ => destruct k end;
                   cbn [holdsk rkind_q rkind_a rw_eqb] in *; tauto ].
  all: try solve [ exfalso; repeat match goal with E : rkind_a _ = _ |- _ => cbn [rkind_a] in E | E : rkind_q _ = _ |- _ => cbn [rkind_q] in E end; congruence ].
  all: repeat match goal with E : rkind_a _ = _ |- _ => cbn [rkind_a] in E; try subst | E : rkind_q _ = _ |- _ => cbn [rkind_q] in E; try subst end.
  (* flush leaves *)
  all: try solve [
    match goal with |- context [rflush ?s0 ?tt ?ws] =>
      destruct (rflush_frame s0 tt ws) as (F1 & F2 & F3 & F4 & F5); rsimpl;
      rewrite ?F1, ?F2, ?F3, ?F4; rsimpl;
      repeat apply conj; try assumption;
      intros u; (destruct (Nat.eq_dec u t) as [->|Hu];
                 [ rewrite F5; tauto
                 | rewrite rflush_pcs by assumption; rsimpl; first [apply A1 | apply A2] ])
    end ].
  all: try match goal with q : rqctx |- _ => destruct q; cbn [rkind_q] in *; subst end.
  (* every remaining acquisition saw the word without WRITE_LOCKED *)
  all: try (destruct (wl s) eqn:EW;
            [ exfalso; match goal with E : context [negb true] |- _ => cbn in E; discriminate E end | ];
            pose proof (A6 eq_refl) as HW; rewrite HW in *).
  (* reader acquisitions *)
  all: try solve [
    repeat apply conj;
    [ intros u; split_thr u t; [ cbn [holdsk rkind_q rw_eqb]; split; [intros []|discriminate] | apply A1 ]
    | intros u; split_thr u t;
      [ cbn [holdsk rkind_q rw_eqb]; split; [reflexivity|intros _; left; reflexivity]
      | split; [ intros [X|X]; [congruence|apply A2; exact X] | intros X; right; apply A2; exact X ] ]
    | constructor; [ intros X; apply A2t in X; discriminate X | exact A3 ]
    | cbn [length]; rewrite A4; lia
    | discriminate
    | intros _; reflexivity ] ].
  (* writer acquisitions: no readers either *)
  all: try solve [
    assert (HR : rholders s = [])
      by (match goal with E : _ && (rd _ =? 0)%N && _ && _ = true |- _ =>
            apply andb_prop in E; destruct E as [E _]; apply andb_prop in E; destruct E as [E _];
            apply andb_prop in E; destruct E as [_ E]; apply N.eqb_eq in E; rewrite A4 in E end;
          destruct (rholders s); [reflexivity|cbn [length] in *; lia]);
    rewrite HR in *;
    repeat apply conj;
    [ intros u; split_thr u t;
      [ cbn [holdsk rkind_q rw_eqb]; split; [reflexivity|intros _; left; reflexivity]
      | split; [ intros [X|[]]; congruence | intros X; apply A1 in X; destruct X ] ]
    | intros u; split_thr u t; [ cbn [holdsk rkind_q rw_eqb]; split; [intros []|discriminate] | apply A2 ]
    | constructor
    | assumption
    | intros _; split; [exists t; reflexivity|reflexivity]
    | discriminate ] ].
  (* read unlock *)
  1-2: (assert (Hin : In t (rholders s)) by (apply A2t; reflexivity);
        pose proof (rem1_length t (rholders s) Hin) as HLn;
        repeat apply conj;
        [ intros u; split_thr u t; [ cbn [holdsk]; tauto | apply A1 ]
        | intros u; rewrite rem1_In by assumption; split_thr u t;
          [ cbn [holdsk]; split; [intros [_ X]; congruence|discriminate]
          | rewrite (A2 u); tauto ]
        | apply rem1_NoDup; assumption
        | rewrite A4; lia
        | intros X; destruct (A5 X) as [_ Y]; rewrite Y in Hin; destruct Hin
        | assumption ]).
  (* write unlock *)
  all: (assert (Hin : In t (wholders s)) by (apply A1t; reflexivity);
        destruct (wl s) eqn:EW; [ | rewrite (A6 eq_refl) in Hin; destruct Hin ];
        destruct (A5 eq_refl) as [[h Hh] HR]; rewrite Hh in *; destruct Hin as [->|[]];
        cbn [rem filter]; rewrite Nat.eqb_refl; cbn [negb];
        repeat apply conj;
        [ intros u; split_thr u t;
          [ cbn [holdsk]; split; [intros []|discriminate]
          | split; [ intros [] | intros X; apply A1 in X; destruct X as [->|[]]; congruence ] ]
        | intros u; split_thr u t; [ cbn [holdsk]; tauto | apply A2 ]
        | assumption | assumption | discriminate | reflexivity ]).
Qed.

(* ---- the wait-list spinlock is held exactly by the thread inside a list section *)
Definition RInvB s := (forall u, rinlist (rpcs s u) = true -> rllock s = Some u)
  /\ (forall u, rllock s = Some u -> rinlist (rpcs s u) = true).

Lemma rflush_frameB s t ws :
  rllock (rflush s t ws) = rllock s /\ rinlist (rpcs (rflush s t ws) t) = false.
Proof.
  revert s. induction ws as [|[k h] r IH]; intros s; cbn [rflush].
  - cbn. rewrite upd_eq. split; reflexivity.
  - destruct k; try apply IH; cbn; rewrite upd_eq; split; reflexivity.
Qed.

Lemma RInvB_step s t c s' e : RInvB s -> rwstep s t c = Some (s', e) -> RInvB s'.
Proof.
  intros [B1 B2] H.
  pose proof (B1 t) as B1t. pose proof (B2 t) as B2t.
  rstep_cases H; rewrite Epc in B1t, B2t; cbn [rinlist] in B1t, B2t; unfold RInvB; rsimpl.
  all: try solve [ split; intros u; split_thr u t; cbn [rinlist]; auto; intros X;
                   try discriminate X; try (apply B2t in X; discriminate X) ].
  (* flush leaves: RWUnl releases the lock, RWWake does not hold it *)
  all: try solve [
    match goal with |- context [rflush ?s0 ?tt ?ws] =>
      destruct (rflush_frameB s0 tt ws) as (F1 & F2); rsimpl; rewrite ?F1; rsimpl;
      try (pose proof (B1t eq_refl) as HL);
      split; intros u; (destruct (Nat.eq_dec u tt) as [->|Hu];
        [ rewrite F2; intros X; try discriminate X; try (apply B2t in X; discriminate X)
        | rewrite rflush_pcs by assumption; rsimpl; intros X; try discriminate X;
          try (first [apply B1 in X | apply B2 in X]); congruence ])
    end ].
  all: (try (pose proof (B1t eq_refl) as HL); split; intros u; split_thr u t; cbn [rinlist]; intros X;
        try reflexivity; try discriminate X; try (apply B1 in X); congruence).
Qed.

(* ---- WRITER_PENDING / HAS_QUEUED over-approximate the list contents, except for a node whose
   owner is between its link and its fetch_or *)
Definition RInvD s :=
  (wp s = false -> forall u, In (u, true) (rqueue s) -> exists q, rpcs s u = RQFor q /\ rkind_q q = WR)
  /\ (hq s = false -> forall u b, In (u, b) (rqueue s) -> exists q, rpcs s u = RQFor q).

Lemma rflush_frameD s t ws :
  wp (rflush s t ws) = wp s /\ hq (rflush s t ws) = hq s /\ rqueue (rflush s t ws) = rqueue s.
Proof.
  revert s. induction ws as [|[k h] r IH]; intros s; cbn [rflush].
  - cbn. repeat split.
  - destruct k; try apply IH; cbn; repeat split.
Qed.

Lemma rflush_pc_t s t ws : forall q, rpcs (rflush s t ws) t <> RQFor q.
Proof.
  revert s. induction ws as [|[k h] r IH]; intros s q; cbn [rflush].
  - cbn. rewrite upd_eq. discriminate.
  - destruct k; try apply IH; cbn; rewrite upd_eq; discriminate.
Qed.

Lemma RInvD_frame s s' t :
  (forall u b, In (u, b) (rqueue s') ->
     In (u, b) (rqueue s) \/ (u = t /\ exists q, rpcs s' t = RQFor q /\ (b = true -> rkind_q q = WR))) ->
  (forall u, u <> t -> rpcs s' u = rpcs s u) ->
  (forall q, rpcs s t <> RQFor q) ->
  (wp s' = false -> wp s = false \/ nwriters (rqueue s') = 0) ->
  (hq s' = false -> hq s = false \/ rqueue s' = []) ->
  RInvD s -> RInvD s'.
Proof.
  intros HQ HP HT HW HH [D1 D2]. split.
  - intros Hw u Hu. destruct (HW Hw) as [X|X]; [|exfalso; exact (nwriters_In u _ Hu X)].
    destruct (HQ u true Hu) as [Hold|[-> [q [Q1 Q2]]]].
    + destruct (D1 X u Hold) as [q [Q1 Q2]]. exists q. split; [|exact Q2].
      rewrite HP; [exact Q1|]. intros ->. exact (HT q Q1).
    + exists q. split; [exact Q1|apply Q2; reflexivity].
  - intros Hh u b Hu. destruct (HH Hh) as [X|X]; [|rewrite X in Hu; destruct Hu].
    destruct (HQ u b Hu) as [Hold|[-> [q [Q1 _]]]].
    + destruct (D2 X u b Hold) as [q Q1]. exists q.
      rewrite HP; [exact Q1|]. intros ->. exact (HT q Q1).
    + exists q. exact Q1.
Qed.

Lemma RInvD_step s t c s' e : RInvB s -> RInvD s -> rwstep s t c = Some (s', e) -> RInvD s'.
Proof.
  intros [B1 B2] [D1 D2] H.
  rstep_cases H.
  (* flags and list untouched *)
  all: try solve [
    unfold RInvD; rsimpl; split;
    [ intros Hw; first [ discriminate Hw |
      intros uu Hu; destruct (D1 Hw uu Hu) as [qq [Q1 Q2]]; split_thr uu t;
      [ rewrite Epc in Q1; first [ discriminate Q1 | injection Q1 as <-; cbn [rkind_q] in *; congruence ]
      | exists qq; split; assumption ] ]
    | intros Hh; first [ discriminate Hh |
      intros uu bb Hu; destruct (D2 Hh uu bb Hu) as [qq Q1]; split_thr uu t;
      [ rewrite Epc in Q1; discriminate Q1
      | exists qq; assumption ] ] ] ].
  (* flush leaves *)
  all: try solve [
    match goal with |- context [rflush ?s0 ?tt ?ws] =>
      destruct (rflush_frameD s0 tt ws) as (F1 & F2 & F3);
      apply (RInvD_frame s _ tt); rsimpl; rewrite ?F1, ?F2, ?F3; rsimpl;
      [ intros uu bb Hu; left; exact Hu
      | intros uu Hu; rewrite rflush_pcs by assumption; rsimpl; reflexivity
      | intros qq; rewrite Epc; discriminate
      | intros X; left; exact X
      | intros X; left; exact X
      | split; assumption ]
    end ].
  all: try solve [ apply (RInvD_frame s _ t); rsimpl;
    [ intros uu bb Hu;
      first [ left; exact Hu
            | apply qrem_In in Hu; left; tauto
            | apply In_app1 in Hu; destruct Hu as [Hu|Hu];
              [ left; exact Hu
              | right; injection Hu as -> ->; split; [reflexivity|]; rewrite upd_eq; eexists; split; [reflexivity|];
                cbn [rkind_q is_wr]; first [ intros X; discriminate X | destruct k; cbn; intros X; first [discriminate X|reflexivity] | auto ] ]
            | left; match goal with E : rqueue _ = _ |- _ => rewrite E; exact Hu end
            | left; match goal with E : rqueue _ = _ :: _ |- _ => rewrite E; right; exact Hu end
            | destruct Hu ]
    | intros uu Hu; apply upd_neq; assumption
    | intros qq; rewrite Epc; discriminate
    | intros X; first [ left; exact X | left; assumption | right; assumption | discriminate X
                      | right; match goal with E : rqueue _ = _ |- _ => rewrite E in *; cbn in *; congruence end ]
    | intros X; first [ left; exact X | left; assumption | right; assumption | discriminate X | right; reflexivity ]
    | split; assumption ] ].
Qed.
