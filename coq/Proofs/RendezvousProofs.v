(* Proofs/RendezvousProofs.v — conservation of payloads (C01, C09) for the rendezvous model:
   every payload that entered through a send form is, at every point of every history, in exactly
   one place: handed back to its caller, returned to a receiver, destroyed, or held in the inline
   cell of a live future. *)
From Fibre Require Import Common.Base Chan.Rendezvous Proofs.RendezvousBase Proofs.RendezvousWF.

Definition cnt (x : N) (l : list N) : nat := count_occ N.eq_dec l x.

Lemma cnt_app x l l' : cnt x (l ++ l') = (cnt x l + cnt x l')%nat.
Proof. unfold cnt. apply count_occ_app. Qed.

Lemma cnt_nil x : cnt x [] = 0%nat.
Proof. reflexivity. Qed.

Lemma cnt_cons x y l : cnt x (y :: l) = (cnt x [y] + cnt x l)%nat.
Proof. change (y :: l) with ([y] ++ l). apply cnt_app. Qed.

(** payloads held in the cells of live futures *)
Definition ocell (o : option N) : list N := match o with Some v => [v] | None => [] end.
Definition cells (F : list (N * fut)) : list N := flat_map (fun p => ocell (f_cell (snd p))) F.

Lemma cells_app F F' : cells (F ++ F') = cells F ++ cells F'.
Proof. unfold cells. apply flat_map_app. Qed.

Lemma cells_aupd_same k g F :
  (forall r, f_cell (g r) = f_cell r) -> cells (aupd k g F) = cells F.
Proof.
  intros Hg. induction F as [|[k0 r] t IH]; cbn [aupd cells flat_map]; [reflexivity|].
  deq k k0; cbn [cells flat_map snd].
  - rewrite Hg. reflexivity.
  - fold (cells (aupd k g t)). fold (cells t). rewrite IH. reflexivity.
Qed.

Lemma cells_aupd k g F r x :
  NoDup (map fst F) -> aget k F = Some r ->
  (cnt x (cells (aupd k g F)) + cnt x (ocell (f_cell r)) =
   cnt x (cells F) + cnt x (ocell (f_cell (g r))))%nat.
Proof.
  induction F as [|[k0 r0] t IH]; cbn [aupd aget map fst]; intros Hn Hg; [discriminate|].
  inversion Hn as [|a l Hnot Hn']; subst.
  deq k k0.
  - inversion Hg; subst r0. cbn [cells flat_map snd]. fold (cells t). rewrite !cnt_app. lia.
  - cbn [cells flat_map snd]. fold (cells (aupd k g t)). fold (cells t). rewrite !cnt_app.
    specialize (IH Hn' Hg). lia.
Qed.

Lemma cells_adel k F r x :
  NoDup (map fst F) -> aget k F = Some r ->
  (cnt x (cells (adel k F)) + cnt x (ocell (f_cell r)) = cnt x (cells F))%nat.
Proof.
  induction F as [|[k0 r0] t IH]; cbn [adel aget map fst]; intros Hn Hg; [discriminate|].
  inversion Hn as [|a l Hnot Hn']; subst.
  deq k k0.
  - inversion Hg; subst r0. cbn [cells flat_map snd]. fold (cells t). rewrite !cnt_app. lia.
  - cbn [cells flat_map snd]. fold (cells (adel k t)). fold (cells t). rewrite !cnt_app.
    specialize (IH Hn' Hg). lia.
Qed.

Lemma cells_disc_all q F : cells (disc_all q F) = cells F.
Proof.
  revert F. induction q as [|[g w] t IH]; intros F; cbn [disc_all]; [reflexivity|].
  rewrite IH. apply cells_aupd_same. reflexivity.
Qed.

(** projections of the event lists *)
Definition ev_intro (e : ev) : list N := match e with EIntro v => [v] | _ => [] end.
Definition ev_back (e : ev) : list N := match e with EBack v => [v] | _ => [] end.
Definition ev_recv (e : ev) : list N := match e with ERecv v => [v] | _ => [] end.
Definition ev_drop (e : ev) : list N :=
  match e with EDropSlot v | EDropDest v | EDropArg v => [v] | _ => [] end.
Definition intro_of (es : list ev) : list N := flat_map ev_intro es.
Definition back_of (es : list ev) : list N := flat_map ev_back es.
Definition recv_of (es : list ev) : list N := flat_map ev_recv es.
Definition drop_of (es : list ev) : list N := flat_map ev_drop es.
Definition evs_of (tr : list titem) : list ev := flat_map (fun t => snd t) tr.

(* one step's books balance *)
Definition bal (F F' : list (N * fut)) (e : list ev) : Prop := forall x,
  (cnt x (intro_of e) + cnt x (cells F) =
   cnt x (back_of e) + cnt x (recv_of e) + cnt x (drop_of e) + cnt x (cells F'))%nat.

Lemma bal_refl F : bal F F [].
Proof. intros x. cbn. lia. Qed.

Lemma bal_wakes F q : bal F F (wakes_of q).
Proof.
  intros x. assert (X : intro_of (wakes_of q) = [] /\ back_of (wakes_of q) = []
                        /\ recv_of (wakes_of q) = [] /\ drop_of (wakes_of q) = []).
  { induction q as [|p t IH]; cbn; [repeat split; reflexivity|]. exact IH. }
  destruct X as [-> [-> [-> ->]]]. cbn. lia.
Qed.

Ltac balsimp :=
  cbn [intro_of back_of recv_of drop_of flat_map ev_intro ev_back ev_recv ev_drop app];
  rewrite ?cnt_nil.

Lemma bal_intro F F' e v : 
  (forall x, (cnt x [v] + cnt x (intro_of e) + cnt x (cells F) =
              cnt x (back_of e) + cnt x (recv_of e) + cnt x (drop_of e) + cnt x (cells F'))%nat) ->
  bal F F' (EIntro v :: e).
Proof.
  intros Hb x. specialize (Hb x). unfold intro_of, back_of, recv_of, drop_of in *.
  cbn [flat_map ev_intro ev_back ev_recv ev_drop app]. rewrite (cnt_cons x v). lia.
Qed.

Lemma core_send_bal b s v s' r e :
  WF s -> core_send b s v = (s', r, e) ->
  (r = OBlock /\ b = true /\ s' = s /\ e = []) \/
  (r <> OBlock /\ bal (fs s) (fs s') (EIntro v :: e)).
Proof.
  intros W Hs. unfold core_send in Hs.
  destruct (N.eqb (rcnt s) 0).
  - right. destruct b; inversion Hs; subst; (split; [discriminate|]); apply bal_intro; intros x; balsimp; lia.
  - destruct (rq s) as [|[g w] rest] eqn:Hrq.
    + destruct b; inversion Hs; subst.
      * left. repeat split; reflexivity.
      * right. split; [discriminate|]. apply bal_intro; intros x; balsimp; lia.
    + right. inversion Hs; subst. split; [discriminate|]. apply bal_intro. intros x.
      cbn [fs handoff_to_receiver]. balsimp.
      unfold WF in W. rewrite Hrq in W.
      destruct (wf_rq _ _ _ _ W g w (or_introl eq_refl)) as [r0 [Hg0 [_ [_ [_ Hc0]]]]].
      pose proof (cells_aupd g (fut_done (Some v)) (fs s) r0 x (wf_fs _ _ _ _ W) Hg0) as X.
      rewrite Hc0 in X. cbn [fut_done f_cell ocell] in X. rewrite cnt_nil in X. lia.
Qed.

Lemma take_bal s s' v w :
  WF s -> take_from_sender s = Some (s', v, w) ->
  forall x, (cnt x (cells (fs s)) = cnt x [v] + cnt x (cells (fs s')))%nat.
Proof.
  intros W Ht x. unfold take_from_sender in Ht.
  destruct (sq s) as [|[g w0] rest] eqn:Hsq; [discriminate|].
  destruct (aget g (fs s)) as [r0|] eqn:Hg0; [|discriminate].
  destruct (f_cell r0) as [v0|] eqn:Hc0; [|discriminate].
  inversion Ht; subst. cbn [fs].
  pose proof (cells_aupd g (fut_done None) (fs s) r0 x (wf_fs _ _ _ _ W) Hg0) as X.
  rewrite Hc0 in X. cbn [fut_done f_cell ocell] in X. rewrite cnt_nil in X. lia.
Qed.

Lemma core_recv_bal c k s s' r e :
  WF s -> core_recv c k s = (s', r, e) -> bal (fs s) (fs s') e.
Proof.
  intros W Hs. unfold core_recv in Hs. intros x.
  destruct (sq s) as [|p rest] eqn:Hsq.
  - destruct (N.eqb (scnt s) 0); [inversion Hs; subst; balsimp; lia|].
    destruct k; inversion Hs; subst; cbn [fs set_rq]; balsimp; lia.
  - destruct (take_from_sender s) as [[[s1 v] w]|] eqn:Ht; inversion Hs; subst; balsimp.
    + pose proof (take_bal _ _ _ _ W Ht x). lia.
    + lia.
Qed.

Lemma core_drop_sender_bal s s' r e :
  core_drop_sender s = (s', r, e) -> bal (fs s) (fs s') e.
Proof.
  intros Hs. unfold core_drop_sender in Hs.
  destruct (N.eqb (scnt s) 0); [inversion Hs; subst; apply bal_refl|].
  destruct (N.eqb (N.pred (scnt s)) 0); inversion Hs; subst; cbn [fs set_scnt].
  - intros x. pose proof (bal_wakes (fs s) (rq s) x). rewrite cells_disc_all. lia.
  - apply bal_refl.
Qed.

Lemma core_drop_receiver_bal s s' r e :
  core_drop_receiver s = (s', r, e) -> bal (fs s) (fs s') e.
Proof.
  intros Hs. unfold core_drop_receiver in Hs.
  destruct (N.eqb (rcnt s) 0); [inversion Hs; subst; apply bal_refl|].
  destruct (N.eqb (N.pred (rcnt s)) 0); inversion Hs; subst; cbn [fs set_rcnt].
  - intros x. pose proof (bal_wakes (fs s) (sq s) x). rewrite cells_disc_all. lia.
  - apply bal_refl.
Qed.

Lemma do_close_bal s h hd s' r e :
  do_close s h hd = (s', r, e) -> bal (fs s) (fs s') e.
Proof.
  intros Hs. unfold do_close in Hs.
  destruct (h_closed hd); [inversion Hs; subst; apply bal_refl|].
  destruct (h_side hd).
  - apply core_drop_sender_bal in Hs. exact Hs.
  - apply core_drop_receiver_bal in Hs. exact Hs.
Qed.

Lemma poll_send_bal c s f w r0 s' r e :
  WF s -> aget f (fs s) = Some r0 -> f_side r0 = Tx ->
  poll_send c s f w r0 = (s', r, e) -> bal (fs s) (fs s') e.
Proof.
  intros W Hg0 Hs0 Hs. unfold poll_send in Hs. intros x.
  pose proof (wf_fs _ _ _ _ W) as Hn.
  assert (Hu : cnt x (cells (aupd f (fut_unreg (f_cell r0)) (fs s))) = cnt x (cells (fs s))).
  { pose proof (cells_aupd f (fut_unreg (f_cell r0)) (fs s) r0 x Hn Hg0) as X.
    cbn [fut_unreg f_cell] in X. lia. }
  destruct (f_reg r0) eqn:Hr0.
  - destruct (f_st r0).
    + destruct (qhas f (sq s)); inversion Hs; subst; cbn [fs set_fs]; balsimp.
      * rewrite cells_aupd_same by reflexivity. lia.
      * lia.
    + inversion Hs; subst; cbn [fs set_fs]; balsimp. lia.
    + inversion Hs; subst; cbn [fs set_fs]; balsimp. lia.
    + inversion Hs; subst; cbn [fs set_fs]; balsimp. lia.
  - destruct (f_cell r0) as [v|] eqn:Hc0; [|inversion Hs; subst; balsimp; lia].
    destruct (fix_fut c && handle_closed s (f_h r0)); [inversion Hs; subst; balsimp; lia|].
    destruct (N.eqb (rcnt s) 0); [inversion Hs; subst; balsimp; lia|].
    destruct (rq s) as [|[g w'] rest] eqn:Hrq; inversion Hs; subst; cbn [fs]; balsimp.
    + rewrite cells_aupd_same by reflexivity. lia.
    + unfold WF in W. rewrite Hrq in W.
      destruct (wf_rq _ _ _ _ W g w' (or_introl eq_refl)) as [rg [Hgg [Hsg [_ [_ Hcg]]]]].
      assert (Hne : f <> g) by (intros ->; congruence).
      pose proof (cells_aupd f fut_sent (fs s) r0 x Hn Hg0) as X1.
      rewrite Hc0 in X1. cbn [fut_sent f_cell ocell] in X1. rewrite cnt_nil in X1.
      assert (Hgg' : aget g (aupd f fut_sent (fs s)) = Some rg) by (rewrite aget_aupd_neq; assumption).
      assert (Hn' : NoDup (map fst (aupd f fut_sent (fs s)))) by (rewrite keys_aupd; exact Hn).
      pose proof (cells_aupd g (fut_done (Some v)) _ rg x Hn' Hgg') as X2.
      rewrite Hcg in X2. cbn [fut_done f_cell ocell] in X2. rewrite cnt_nil in X2. lia.
Qed.

Lemma poll_recv_bal c s f w r0 s' r e :
  WF s -> aget f (fs s) = Some r0 -> f_side r0 = Rx ->
  poll_recv c s f w r0 = (s', r, e) -> bal (fs s) (fs s') e.
Proof.
  intros W Hg0 Hs0 Hs. unfold poll_recv in Hs. intros x.
  pose proof (wf_fs _ _ _ _ W) as Hn.
  assert (Hu : cnt x (cells (aupd f (fut_unreg (f_cell r0)) (fs s))) = cnt x (cells (fs s))).
  { pose proof (cells_aupd f (fut_unreg (f_cell r0)) (fs s) r0 x Hn Hg0) as X.
    cbn [fut_unreg f_cell] in X. lia. }
  destruct (f_reg r0) eqn:Hr0.
  - destruct (f_st r0).
    + destruct (qhas f (rq s)); inversion Hs; subst; cbn [fs set_fs]; balsimp.
      * rewrite cells_aupd_same by reflexivity. lia.
      * lia.
    + destruct (f_cell r0) as [v|] eqn:Hc0; inversion Hs; subst; cbn [fs set_fs]; balsimp; [|lia].
      pose proof (cells_aupd f (fut_unreg None) (fs s) r0 x Hn Hg0) as X.
      rewrite Hc0 in X. cbn [fut_unreg f_cell ocell] in X. rewrite cnt_nil in X. lia.
    + inversion Hs; subst; cbn [fs set_fs]; balsimp. lia.
    + inversion Hs; subst; cbn [fs set_fs]; balsimp. lia.
  - destruct (fix_fut c && handle_closed s (f_h r0)); [inversion Hs; subst; balsimp; lia|].
    destruct (sq s) as [|p rest] eqn:Hsq.
    + destruct (N.eqb (scnt s) 0); inversion Hs; subst; cbn [fs]; balsimp; [lia|].
      rewrite cells_aupd_same by reflexivity. lia.
    + destruct (take_from_sender s) as [[[s1 v] w1]|] eqn:Ht; inversion Hs; subst; balsimp.
      * pose proof (take_bal _ _ _ _ W Ht x). lia.
      * lia.
Qed.

Lemma drop_fut_bal s f r0 s' r e :
  WF s -> aget f (fs s) = Some r0 -> drop_fut s f r0 = (s', r, e) -> bal (fs s) (fs s') e.
Proof.
  intros W Hg0 Hs. unfold drop_fut in Hs. inversion Hs; subst; clear Hs. intros x.
  pose proof (wf_fs _ _ _ _ W) as Hn.
  assert (Hd : cnt x (drop_of (drop_cell_ev r0)) = cnt x (ocell (f_cell r0))
               /\ intro_of (drop_cell_ev r0) = [] /\ back_of (drop_cell_ev r0) = []
               /\ recv_of (drop_cell_ev r0) = []).
  { unfold drop_cell_ev. destruct (f_cell r0); [destruct (f_side r0)|]; cbn; repeat split; reflexivity. }
  destruct Hd as [Hd [-> [-> ->]]]. rewrite Hd, !cnt_nil.
  destruct (f_reg r0 && cancel_cas r0).
  - assert (Y : (cnt x (cells (adel f (aupd f fut_cancelled (fs s)))) + cnt x (ocell (f_cell r0))
                 = cnt x (cells (fs s)))%nat).
    { assert (Hg1 : aget f (aupd f fut_cancelled (fs s)) = Some (fut_cancelled r0))
        by (rewrite aget_aupd_eq, Hg0; reflexivity).
      assert (Hn1 : NoDup (map fst (aupd f fut_cancelled (fs s)))) by (rewrite keys_aupd; exact Hn).
      pose proof (cells_adel f _ _ x Hn1 Hg1) as X. cbn [fut_cancelled f_cell] in X.
      rewrite cells_aupd_same in X by reflexivity. exact X. }
    unfold cancel_remove. destruct (f_side r0); cbn [fs set_fs set_sq set_rq]; lia.
  - cbn [fs set_fs]. pose proof (cells_adel f _ _ x Hn Hg0). lia.
Qed.

Theorem step_bal c s o s' r e : WF s -> step c s o = (s', r, e) -> bal (fs s) (fs s') e.
Proof.
  intros W Hs. destruct o; cbn [step] in Hs.
  - destruct (h_live_side s h Tx) as [hd|]; [|inversion Hs; subst; apply bal_refl].
    destruct (h_closed hd); [inversion Hs; subst; apply bal_intro; intros x; balsimp; lia|].
    destruct (core_send false s v) as [[s1 r1] e1] eqn:Hc. inversion Hs; subst.
    destruct (core_send_bal _ _ _ _ _ _ W Hc) as [[_ [X _]]|[_ X]]; [discriminate|exact X].
  - destruct (h_live_side s h Tx) as [hd|]; [|inversion Hs; subst; apply bal_refl].
    destruct (h_async hd); [inversion Hs; subst; apply bal_refl|].
    destruct (h_closed hd); [inversion Hs; subst; apply bal_intro; intros x; balsimp; lia|].
    destruct (core_send true s v) as [[s1 r1] e1] eqn:Hc. inversion Hs; subst.
    destruct (core_send_bal _ _ _ _ _ _ W Hc) as [[-> [_ [-> _]]]|[Hnb X]]; [apply bal_refl|].
    destruct r; try exact X. congruence.
  - destruct (h_live_side s h Rx) as [hd|]; [|inversion Hs; subst; apply bal_refl].
    destruct (h_closed hd); [inversion Hs; subst; apply bal_refl|].
    eapply core_recv_bal; eauto.
  - destruct (h_live_side s h Rx) as [hd|]; [|inversion Hs; subst; apply bal_refl].
    destruct (h_async hd); [inversion Hs; subst; apply bal_refl|].
    destruct (h_closed hd); [inversion Hs; subst; apply bal_refl|].
    eapply core_recv_bal; eauto.
  - destruct (h_live_side s h Rx) as [hd|]; [|inversion Hs; subst; apply bal_refl].
    destruct (h_async hd); [inversion Hs; subst; apply bal_refl|].
    destruct (h_closed hd); [inversion Hs; subst; apply bal_refl|].
    eapply core_recv_bal; eauto.
  - destruct (aget h (hs s)) as [hd|]; [|inversion Hs; subst; apply bal_refl].
    eapply do_close_bal; eauto.
  - destruct (aget h (hs s)) as [hd|]; [|inversion Hs; subst; apply bal_refl].
    destruct (borrowed s h); [inversion Hs; subst; apply bal_refl|].
    destruct (do_close s h hd) as [[s1 r1] e1] eqn:Hc. inversion Hs; subst. cbn [fs set_hs].
    eapply do_close_bal; eauto.
  - destruct (aget h (hs s)) as [hd|]; [|inversion Hs; subst; apply bal_refl].
    destruct (ahas h' (hs s)); [inversion Hs; subst; apply bal_refl|].
    destruct (negb _); [inversion Hs; subst; apply bal_refl|].
    destruct (fix_clone c && h_closed hd); inversion Hs; subst; [apply bal_refl|].
    destruct (h_side hd); apply bal_refl.
  - destruct (aget h (hs s)) as [hd|]; [|inversion Hs; subst; apply bal_refl].
    destruct (borrowed s h); inversion Hs; subst; apply bal_refl.
  - destruct (aget h (hs s)); inversion Hs; subst; apply bal_refl.
  - destruct (h_live_side s h Tx) as [hd|]; [|inversion Hs; subst; apply bal_refl].
    destruct (negb (h_async hd) || ahas f (fs s)); inversion Hs; subst; [apply bal_refl|].
    cbn [fs set_fs]. apply bal_intro. intros x. rewrite cells_app, cnt_app. balsimp.
    cbn [cells flat_map snd f_cell ocell app]. lia.
  - destruct (h_live_side s h Rx) as [hd|]; [|inversion Hs; subst; apply bal_refl].
    destruct (negb (h_async hd) || ahas f (fs s)); inversion Hs; subst; [apply bal_refl|].
    cbn [fs set_fs]. intros x. rewrite cells_app, cnt_app. balsimp.
    cbn [cells flat_map snd f_cell ocell app]. rewrite ?cnt_nil. lia.
  - destruct (aget f (fs s)) as [r0|] eqn:Hg; [|inversion Hs; subst; apply bal_refl].
    destruct (f_side r0) eqn:Hsd.
    + eapply poll_send_bal; eauto.
    + eapply poll_recv_bal; eauto.
  - destruct (aget f (fs s)) as [r0|] eqn:Hg; [|inversion Hs; subst; apply bal_refl].
    eapply drop_fut_bal; eauto.
Qed.

(** whole histories *)
Lemma intro_of_app e e' : intro_of (e ++ e') = intro_of e ++ intro_of e'.
Proof. apply flat_map_app. Qed.
Lemma back_of_app e e' : back_of (e ++ e') = back_of e ++ back_of e'.
Proof. apply flat_map_app. Qed.
Lemma recv_of_app e e' : recv_of (e ++ e') = recv_of e ++ recv_of e'.
Proof. apply flat_map_app. Qed.
Lemma drop_of_app e e' : drop_of (e ++ e') = drop_of e ++ drop_of e'.
Proof. apply flat_map_app. Qed.

Lemma bal_trans F F1 F2 e e' : bal F F1 e -> bal F1 F2 e' -> bal F F2 (e ++ e').
Proof.
  intros A B x. specialize (A x). specialize (B x).
  rewrite intro_of_app, back_of_app, recv_of_app, drop_of_app, !cnt_app. lia.
Qed.

Lemma evs_of_cons (o : op) (r : out) (e : list ev) tr : evs_of ((o, r, e) :: tr) = e ++ evs_of tr.
Proof. reflexivity. Qed.

Theorem run_bal c ops : forall s s' tr,
  WF s -> run c s ops = (s', tr) -> bal (fs s) (fs s') (evs_of tr).
Proof.
  induction ops as [|o t IH]; intros s s' tr W Hr; cbn [run] in Hr.
  - inversion Hr; subst. apply bal_refl.
  - destruct (step c s o) as [[s1 r1] e1] eqn:Hs.
    destruct (run c s1 t) as [s2 tr2] eqn:Hr2. inversion Hr; subst.
    rewrite evs_of_cons. eapply bal_trans.
    + eapply step_bal; eauto.
    + eapply IH; [|exact Hr2]. eapply step_WF; eauto.
Qed.

(* C01 / C09: conservation.  For every configuration, constructor mode and history: the payloads
   that entered through send forms are exactly (as a multiset) those handed back in errors, those
   returned to receivers, those destroyed, and those sitting in the cells of live futures. *)
Theorem rv_conservation c a ops s tr :
  run c (init a) ops = (s, tr) ->
  Permutation (intro_of (evs_of tr))
              (back_of (evs_of tr) ++ recv_of (evs_of tr) ++ drop_of (evs_of tr) ++ cells (fs s)).
Proof.
  intros Hr. apply (Permutation_count_occ N.eq_dec). intros x.
  pose proof (run_bal c ops _ _ _ (WF_init a) Hr x) as X.
  unfold cnt in X. rewrite !count_occ_app. cbn [init fs cells flat_map count_occ] in X. lia.
Qed.

Lemma NoDup_app_inv {A} (l l' : list A) :
  NoDup (l ++ l') -> NoDup l /\ NoDup l' /\ (forall x, In x l -> ~ In x l').
Proof.
  induction l as [|a t IH]; cbn; intros Hn.
  - split; [constructor|]. split; [exact Hn|]. intros x [].
  - inversion Hn as [|y l0 Hnot Hn']; subst. destruct (IH Hn') as [A1 [A2 A3]].
    split; [constructor; [|exact A1]; intros Hi; apply Hnot; apply in_or_app; left; exact Hi|].
    split; [exact A2|]. intros x [->|Hi]; [intros Hi'; apply Hnot; apply in_or_app; right; exact Hi'|].
    apply A3. exact Hi.
Qed.

(* C01: with distinct payload ids nothing is delivered twice, nothing is delivered that was not sent,
   and a payload that was handed back or destroyed is never also delivered. *)
Theorem rv_exactly_once c a ops s tr :
  run c (init a) ops = (s, tr) -> NoDup (intro_of (evs_of tr)) ->
  NoDup (recv_of (evs_of tr))
  /\ incl (recv_of (evs_of tr)) (intro_of (evs_of tr))
  /\ (forall v, In v (recv_of (evs_of tr)) ->
        ~ In v (back_of (evs_of tr)) /\ ~ In v (drop_of (evs_of tr)) /\ ~ In v (cells (fs s))).
Proof.
  intros Hr Hn. pose proof (rv_conservation _ _ _ _ _ Hr) as P.
  pose proof (Permutation_NoDup P Hn) as Hn2.
  destruct (NoDup_app_inv _ _ Hn2) as [B1 [B2 B3]].
  destruct (NoDup_app_inv _ _ B2) as [C1 [C2 C3]].
  destruct (NoDup_app_inv _ _ C2) as [D1 [D2 D3]].
  split; [exact C1|]. split.
  - intros v Hv. eapply Permutation_in; [apply Permutation_sym; exact P|].
    apply in_or_app. right. apply in_or_app. left. exact Hv.
  - intros v Hv. split; [|split].
    + intros Hb. apply (B3 v Hb). apply in_or_app. left. exact Hv.
    + intros Hd. apply (C3 v Hv). apply in_or_app. left. exact Hd.
    + intros Hc. apply (C3 v Hv). apply in_or_app. right. exact Hc.
Qed.

(* C09: once no future is alive every payload has ended in exactly one of: handed back, received,
   destroyed -- whatever the order in which handles and futures were torn down. *)
Theorem rv_dropped_exactly_once c a ops s tr :
  run c (init a) ops = (s, tr) -> fs s = [] ->
  Permutation (intro_of (evs_of tr)) (back_of (evs_of tr) ++ recv_of (evs_of tr) ++ drop_of (evs_of tr))
  /\ (NoDup (intro_of (evs_of tr)) ->
      NoDup (back_of (evs_of tr) ++ recv_of (evs_of tr) ++ drop_of (evs_of tr))).
Proof.
  intros Hr Hf. pose proof (rv_conservation _ _ _ _ _ Hr) as P. rewrite Hf in P.
  cbn [cells flat_map] in P. rewrite app_nil_r in P. split; [exact P|].
  intros Hn. exact (Permutation_NoDup P Hn).
Qed.

(** the history events are determined by what the caller sees *)
Definition out_recv (r : out) : list N := match r with OVal v | OReadyVal v => [v] | _ => [] end.
Definition out_back (r : out) : list N := match r with OFull v | OClosedV v => [v] | _ => [] end.
Definition op_intro (o : op) (r : out) : list N :=
  match r with
  | ONa | OBlock => []
  | _ => match o with TrySend _ v | Send _ v | MkSend _ _ v => [v] | _ => [] end
  end.

Lemma wakes_proj q : intro_of (wakes_of q) = [] /\ back_of (wakes_of q) = [] /\ recv_of (wakes_of q) = [].
Proof. induction q as [|p t IH]; cbn; [repeat split; reflexivity|exact IH]. Qed.

Ltac evcase H :=
  repeat match type of H with
         | context [if ?b then _ else _] => destruct b
         | context [match ?x with _ => _ end] => destruct x
         end; inversion H; subst; cbn; repeat split; try reflexivity; try discriminate.

Lemma core_send_events b s v s' r e :
  core_send b s v = (s', r, e) ->
  intro_of e = [] /\ back_of e = out_back r /\ recv_of e = out_recv r
  /\ (r = ONa -> False) /\ (b = false -> r = OBlock -> False).
Proof. intros H. unfold core_send in H. evcase H; intros; discriminate. Qed.

Lemma core_recv_events c k s s' r e :
  core_recv c k s = (s', r, e) ->
  intro_of e = [] /\ back_of e = out_back r /\ recv_of e = out_recv r.
Proof. intros H. unfold core_recv in H. evcase H. Qed.

Lemma do_close_events s h hd s' r e :
  do_close s h hd = (s', r, e) ->
  intro_of e = [] /\ back_of e = [] /\ recv_of e = []
  /\ (r = OOk \/ r = OCloseErr \/ r = OPanic).
Proof.
  intros H. unfold do_close, core_drop_sender, core_drop_receiver in H.
  evcase H; try apply wakes_proj; auto.
Qed.

Theorem step_events_out c s o s' r e :
  step c s o = (s', r, e) ->
  intro_of e = op_intro o r /\ back_of e = out_back r /\ recv_of e = out_recv r.
Proof.
  intros Hs. destruct o; cbn [step] in Hs.
  - destruct (h_live_side s h Tx) as [hd|]; [|evcase Hs].
    destruct (h_closed hd); [evcase Hs|].
    destruct (core_send false s v) as [[s1 r1] e1] eqn:Hc. inversion Hs; subst.
    destruct (core_send_events _ _ _ _ _ _ Hc) as [A [B [C [D E]]]].
    cbn [intro_of flat_map ev_intro back_of ev_back recv_of ev_recv app].
    fold (intro_of e1) (back_of e1) (recv_of e1). rewrite A, B, C.
    destruct r; try (repeat split; reflexivity); exfalso; auto.
  - destruct (h_live_side s h Tx) as [hd|]; [|evcase Hs].
    destruct (h_async hd); [evcase Hs|].
    destruct (h_closed hd); [evcase Hs|].
    destruct (core_send true s v) as [[s1 r1] e1] eqn:Hc. inversion Hs; subst.
    destruct (core_send_events _ _ _ _ _ _ Hc) as [A [B [C [D E]]]].
    destruct r; cbn [intro_of flat_map ev_intro back_of ev_back recv_of ev_recv app];
      fold (intro_of e1) (back_of e1) (recv_of e1); rewrite ?A, ?B, ?C;
      try (repeat split; reflexivity); exfalso; auto.
  - destruct (h_live_side s h Rx) as [hd|]; [|evcase Hs].
    destruct (h_closed hd); [evcase Hs|].
    destruct (core_recv_events _ _ _ _ _ _ Hs) as [A [B C]]. rewrite A, B, C.
    unfold core_recv in Hs. evcase Hs.
  - destruct (h_live_side s h Rx) as [hd|]; [|evcase Hs].
    destruct (h_async hd); [evcase Hs|].
    destruct (h_closed hd); [evcase Hs|].
    destruct (core_recv_events _ _ _ _ _ _ Hs) as [A [B C]]. rewrite A, B, C.
    unfold core_recv in Hs. evcase Hs.
  - destruct (h_live_side s h Rx) as [hd|]; [|evcase Hs].
    destruct (h_async hd); [evcase Hs|].
    destruct (h_closed hd); [evcase Hs|].
    destruct (core_recv_events _ _ _ _ _ _ Hs) as [A [B C]]. rewrite A, B, C.
    unfold core_recv in Hs. evcase Hs.
  - destruct (aget h (hs s)) as [hd|]; [|evcase Hs].
    destruct (do_close_events _ _ _ _ _ _ Hs) as [A [B [C D]]]. rewrite A, B, C.
    destruct D as [->|[->| ->]]; repeat split; reflexivity.
  - destruct (aget h (hs s)) as [hd|]; [|evcase Hs].
    destruct (borrowed s h); [evcase Hs|].
    destruct (do_close s h hd) as [[s1 r1] e1] eqn:Hc. inversion Hs; subst.
    destruct (do_close_events _ _ _ _ _ _ Hc) as [A [B [C D]]]. rewrite A, B, C.
    destruct D as [->|[->| ->]]; repeat split; reflexivity.
  - evcase Hs.
  - evcase Hs.
  - evcase Hs.
  - evcase Hs.
  - evcase Hs.
  - destruct (aget f (fs s)) as [r0|]; [|evcase Hs].
    destruct (f_side r0); [unfold poll_send in Hs|unfold poll_recv in Hs]; evcase Hs.
  - destruct (aget f (fs s)) as [r0|]; [|evcase Hs].
    unfold drop_fut in Hs. inversion Hs; subst. unfold drop_cell_ev.
    destruct (f_cell r0); [destruct (f_side r0)|]; repeat split; reflexivity.
Qed.

(** C01: a failed operation has no effect and hands back exactly its input *)
Definition chan_same (s s' : state) : Prop :=
  hs s' = hs s /\ sq s' = sq s /\ rq s' = rq s /\ scnt s' = scnt s /\ rcnt s' = rcnt s.

Theorem rv_failed_no_effect c s o s' r e :
  step c s o = (s', r, e) ->
  match r with
  | OFull x | OClosedV x =>
      s' = s /\ (forall h v, o = TrySend h v -> x = v)
  | OClosed => s' = s /\ (forall h v, o = Send h v -> drop_of e = [v])
  | OEmpty | ODisc | OCloseErr | ONa | OBlock => s' = s
  | OTimeout => s' = set_rq s (if multi_rx c then rq s else [])
  | OReadyClosed | OReadyDisc =>
      chan_same s s' /\ (exists f w, o = Poll f w /\
                          (fs s' = fs s \/ exists r0, aget f (fs s) = Some r0 /\
                                           fs s' = aupd f (fut_unreg (f_cell r0)) (fs s)))
  | _ => True
  end.
Proof.
  intros Hs. destruct o; cbn [step] in Hs.
  - destruct (h_live_side s h Tx) as [hd|]; [|inversion Hs; subst; reflexivity].
    destruct (h_closed hd); [inversion Hs; subst; split; [reflexivity|intros ? ? X; inversion X; reflexivity]|].
    destruct (core_send false s v) as [[s1 r1] e1] eqn:Hc. inversion Hs; subst. clear Hs.
    unfold core_send in Hc.
    destruct (N.eqb (rcnt s) 0); [inversion Hc; subst; split; [reflexivity|intros ? ? X; inversion X; reflexivity]|].
    destruct (rq s) as [|[g w] rest]; inversion Hc; subst; [|exact I].
    split; [reflexivity|intros ? ? X; inversion X; reflexivity].
  - destruct (h_live_side s h Tx) as [hd|]; [|inversion Hs; subst; reflexivity].
    destruct (h_async hd); [inversion Hs; subst; reflexivity|].
    destruct (h_closed hd); [inversion Hs; subst; split; [reflexivity|intros ? ? X; inversion X; reflexivity]|].
    destruct (core_send true s v) as [[s1 r1] e1] eqn:Hc. inversion Hs; subst. clear Hs.
    unfold core_send in Hc.
    destruct (N.eqb (rcnt s) 0); [inversion Hc; subst; split; [reflexivity|intros ? ? X; inversion X; reflexivity]|].
    destruct (rq s) as [|[g w] rest]; inversion Hc; subst; [reflexivity|exact I].
  - destruct (h_live_side s h Rx) as [hd|]; [|inversion Hs; subst; reflexivity].
    destruct (h_closed hd); [inversion Hs; subst; reflexivity|].
    unfold core_recv in Hs. destruct (sq s).
    + destruct (N.eqb (scnt s) 0); inversion Hs; subst; reflexivity.
    + destruct (take_from_sender s) as [[[? ?] ?]|]; inversion Hs; subst; exact I.
  - destruct (h_live_side s h Rx) as [hd|]; [|inversion Hs; subst; reflexivity].
    destruct (h_async hd); [inversion Hs; subst; reflexivity|].
    destruct (h_closed hd); [inversion Hs; subst; reflexivity|].
    unfold core_recv in Hs. destruct (sq s).
    + destruct (N.eqb (scnt s) 0); inversion Hs; subst; reflexivity.
    + destruct (take_from_sender s) as [[[? ?] ?]|]; inversion Hs; subst; exact I.
  - destruct (h_live_side s h Rx) as [hd|]; [|inversion Hs; subst; reflexivity].
    destruct (h_async hd); [inversion Hs; subst; reflexivity|].
    destruct (h_closed hd); [inversion Hs; subst; reflexivity|].
    unfold core_recv in Hs. destruct (sq s).
    + destruct (N.eqb (scnt s) 0); inversion Hs; subst; reflexivity.
    + destruct (take_from_sender s) as [[[? ?] ?]|]; inversion Hs; subst; exact I.
  - destruct (aget h (hs s)) as [hd|]; [|inversion Hs; subst; reflexivity].
    unfold do_close, core_drop_sender, core_drop_receiver in Hs.
    destruct (h_closed hd); [inversion Hs; subst; reflexivity|].
    destruct (h_side hd); cbn [scnt rcnt set_hs] in Hs.
    + destruct (N.eqb (scnt s) 0); [|destruct (N.eqb (N.pred (scnt s)) 0)]; inversion Hs; subst; exact I.
    + destruct (N.eqb (rcnt s) 0); [|destruct (N.eqb (N.pred (rcnt s)) 0)]; inversion Hs; subst; exact I.
  - destruct (aget h (hs s)) as [hd|]; [|inversion Hs; subst; reflexivity].
    destruct (borrowed s h); [inversion Hs; subst; reflexivity|].
    destruct (do_close s h hd) as [[s1 r1] e1]. inversion Hs; subst. destruct r1; exact I.
  - destruct (aget h (hs s)) as [hd|]; [|inversion Hs; subst; reflexivity].
    destruct (ahas h' (hs s)); [inversion Hs; subst; reflexivity|].
    destruct (negb _); [inversion Hs; subst; reflexivity|].
    destruct (fix_clone c && h_closed hd); inversion Hs; subst; exact I.
  - destruct (aget h (hs s)) as [hd|]; [|inversion Hs; subst; reflexivity].
    destruct (borrowed s h); inversion Hs; subst; [reflexivity|exact I].
  - destruct (aget h (hs s)); inversion Hs; subst; [exact I|reflexivity].
  - destruct (h_live_side s h Tx) as [hd|]; [|inversion Hs; subst; reflexivity].
    destruct (negb (h_async hd) || ahas f (fs s)); inversion Hs; subst; [reflexivity|exact I].
  - destruct (h_live_side s h Rx) as [hd|]; [|inversion Hs; subst; reflexivity].
    destruct (negb (h_async hd) || ahas f (fs s)); inversion Hs; subst; [reflexivity|exact I].
  - destruct (aget f (fs s)) as [r0|] eqn:Hg; [|inversion Hs; subst; reflexivity].
    assert (U : chan_same s (set_fs s (aupd f (fut_unreg (f_cell r0)) (fs s))) /\
                (exists f0 w0, Poll f w = Poll f0 w0 /\
                   (fs (set_fs s (aupd f (fut_unreg (f_cell r0)) (fs s))) = fs s \/
                    exists r1, aget f0 (fs s) = Some r1 /\
                      fs (set_fs s (aupd f (fut_unreg (f_cell r0)) (fs s))) = aupd f0 (fut_unreg (f_cell r1)) (fs s)))).
    { split; [repeat split; reflexivity|]. exists f, w. split; [reflexivity|]. right. exists r0. split; [exact Hg|reflexivity]. }
    assert (V : chan_same s s /\ (exists f0 w0, Poll f w = Poll f0 w0 /\
                   (fs s = fs s \/ exists r1, aget f0 (fs s) = Some r1 /\ fs s = aupd f0 (fut_unreg (f_cell r1)) (fs s)))).
    { split; [repeat split; reflexivity|]. exists f, w. split; [reflexivity|]. left. reflexivity. }
    destruct (f_side r0); [unfold poll_send in Hs|unfold poll_recv in Hs].
    + destruct (f_reg r0).
      * destruct (f_st r0); [destruct (qhas f (sq s))|..]; inversion Hs; subst; try exact I; exact U.
      * destruct (f_cell r0); [|inversion Hs; subst; exact I].
        destruct (fix_fut c && handle_closed s (f_h r0)); [inversion Hs; subst; exact V|].
        destruct (N.eqb (rcnt s) 0); [inversion Hs; subst; exact V|].
        destruct (rq s) as [|[g w'] rest]; inversion Hs; subst; exact I.
    + destruct (f_reg r0).
      * destruct (f_st r0); [destruct (qhas f (rq s))| destruct (f_cell r0) |..]; inversion Hs; subst; try exact I; exact U.
      * destruct (fix_fut c && handle_closed s (f_h r0)); [inversion Hs; subst; exact V|].
        destruct (sq s).
        -- destruct (N.eqb (scnt s) 0); inversion Hs; subst; [exact V|exact I].
        -- destruct (take_from_sender s) as [[[? ?] ?]|]; inversion Hs; subst; exact I.
  - destruct (aget f (fs s)) as [r0|]; [|inversion Hs; subst; reflexivity].
    unfold drop_fut in Hs. inversion Hs; subst. exact I.
Qed.
