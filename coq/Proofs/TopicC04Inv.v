(* Proofs/TopicC04Inv.v — invariant relating the topic model to the C04 reference (Chan/TopicSpec04.v):
   handle flags, the receiver count, the sender count, and "a disconnected mailbox means no open sender". *)
From Fibre Require Import Common.Base Chan.TopicOps Chan.TopicSpec Chan.TopicSpec04 Proofs.TopicLemmas Proofs.TopicInv
     Proofs.TopicInvSub Proofs.TopicInvRx Proofs.TopicInvPub Proofs.TopicInvTx.


Definition tx_open_m (t : txh) : bool := t_live t && negb (t_closed t).
Definition rx_open_m (x : rxh) : bool := r_live x && negb (r_closed x).
Definition quiet (ts : list txh) : Prop := forall t, In t ts -> tx_open_m t = false.
Definition cls_of (c : cfg) (ts : list txh) : bool := fix04 c || Nat.eqb (length ts) 1.

Record rel4_tx (c : cfg) (x : txh) (y : tx4) : Prop := {
  q_id : t_id x = b_id y;
  q_live : t_live x = b_live y;
  q_self : t_live x = true -> b_self y = true -> t_closed x = true;
  q_cl : t_live x = true -> t_closed x = true -> b_closed y = true;
  q_cl4 : t_live x = true -> fix04 c = true -> t_closed x = b_closed y
}.

Record rel4_rx (c : cfg) (kc da : bool) (qt : Prop) (cl : bool) (x : rxh) (y : rx4) : Prop := {
  p_id : r_id x = a_id y;
  p_live : r_live x = a_live y;
  p_cl1 : r_live x = true -> a_closed y = true -> fix07 c || kc = true -> r_closed x = true;
  p_cl2 : r_live x = true -> da = true -> r_closed x = true -> a_closed y = true;
  p_sync : kc = true -> r_async x = false;
  p_disc : r_live x = true -> a_sawdisc y = true -> cl = true -> m_buf (r_mb x) = [] /\ qt
}.

Record Inv4 (c : cfg) (kc : bool) (s : state) (sp : spec4) : Prop := {
  j_tx : Forall2 (rel4_tx c) (txs s) (s4_tx sp);
  j_rx : Forall2 (rel4_rx c kc (disp_alive s) (quiet (txs s)) (cls_of c (txs s))) (rxs s) (s4_rx sp);
  j_futs : futs s = s4_futs sp;
  j_cnt : fix07 c || kc = true -> disp_alive s = true -> rcount s = Z.of_nat (length (filter rx_open_m (rxs s)));
  j_sc : fix04 c = true -> scount s = Z.of_nat (length (filter tx_open_m (txs s)));
  j_quiet : cls_of c (txs s) = true -> forall x, In x (rxs s) -> r_live x = true -> m_disc (r_mb x) = true -> quiet (txs s)
}.

Definition v4_ok (c : cfg) (kc : bool) (s : state) (v : clause4) : Prop :=
  match v with
  | V4ValueAfterDisc _ => cls_of c (txs s) = false
  | V4SendAfterLastRx _ | V4ClosedWithLiveRx _ | V4DoubleCloseRx _ => fix07 c || kc = false
  | V4ClosedTxAccepts _ | V4DoubleCloseTx _ => False
  | V4ClosedRxAccepts _ => True
  end.
Definition vs4_ok (c : cfg) (kc : bool) (s : state) (vs : list clause4) : Prop := forall v, In v vs -> v4_ok c kc s v.

Lemma vs4_ok_nil c kc s : vs4_ok c kc s [].
Proof. intros v []. Qed.

Lemma inv4_init c kc a cap : (kc = true -> a = false) -> Inv4 c kc (init a cap) s4_init.
Proof.
  intros Hk. constructor; cbn.
  - constructor; [|constructor]. constructor; cbn; auto; intros; discriminate.
  - constructor; [|constructor]. constructor; cbn; auto; intros; discriminate.
  - reflexivity.
  - intros _ _. reflexivity.
  - intros _. reflexivity.
  - intros _ x [<-|[]] _ H. cbn in H. discriminate.
Qed.

(** the part of a receiver record that Inv4 looks at *)
Definition rx_core (x : rxh) := (r_id x, r_live x, r_closed x, r_async x, r_mb x).

Lemma rel4_rx_core c kc da qt cl x x' y : rx_core x' = rx_core x -> rel4_rx c kc da qt cl x y -> rel4_rx c kc da qt cl x' y.
Proof.
  unfold rx_core. intros E HR. injection E as E1 E2 E3 E4 E5. destruct HR.
  constructor; rewrite ?E1, ?E2, ?E3, ?E4, ?E5; auto.
Qed.

Lemma cons_eq_inv {A} (a b : A) l m : a :: l = b :: m -> a = b /\ l = m.
Proof. intros H. split; [exact (f_equal (hd a) H) | exact (f_equal (@tl A) H)]. Qed.

Lemma Forall2_core (R : rxh -> rx4 -> Prop) l l' ss :
  (forall x x' y, rx_core x' = rx_core x -> R x y -> R x' y) ->
  map rx_core l' = map rx_core l -> Forall2 R l ss -> Forall2 R l' ss.
Proof.
  intros HR. revert l' ss. induction l as [|a l IH]; intros l' ss E HF.
  - destruct l'; [exact HF | discriminate].
  - destruct l' as [|a' l']; [discriminate|]. cbn [map] in E. apply cons_eq_inv in E. destruct E as [E1 E2].
    inversion HF as [|? y ? ss' Hay HF']; subst. constructor; [apply (HR a a' y E1 Hay) | apply IH; assumption].
Qed.

Lemma filter_core (f : rxh -> bool) l l' :
  (forall x x', rx_core x' = rx_core x -> f x' = f x) ->
  map rx_core l' = map rx_core l -> length (filter f l') = length (filter f l).
Proof.
  intros Hf. revert l'. induction l as [|a l IH]; intros l' E.
  - destruct l'; [reflexivity | discriminate].
  - destruct l' as [|a' l']; [discriminate|]. cbn [map] in E. apply cons_eq_inv in E. destruct E as [E1 E2].
    cbn [filter]. rewrite (Hf a a' E1). destruct (f a); cbn [length]; rewrite (IH l' E2); reflexivity.
Qed.

Lemma rx_open_core x x' : rx_core x' = rx_core x -> rx_open_m x' = rx_open_m x.
Proof. unfold rx_core, rx_open_m. intros E. injection E as E1 E2 E3 E4 E5. rewrite E2, E3. reflexivity. Qed.

Lemma In_core l l' x' : map rx_core l' = map rx_core l -> In x' l' -> exists x, In x l /\ rx_core x' = rx_core x.
Proof.
  revert l'. induction l as [|a l IH]; intros l' E Hin.
  - destruct l'; [contradiction | discriminate].
  - destruct l' as [|a' l']; [discriminate|]. cbn [map] in E. apply cons_eq_inv in E. destruct E as [E1 E2].
    destruct Hin as [->|Hin]; [exists a; split; [left; reflexivity | exact E1]|].
    destruct (IH l' E2 Hin) as [x [A B]]. exists x. split; [right; exact A | exact B].
Qed.

(* a step that leaves senders, counts, futures and the cores of all receiver records alone *)
Lemma inv4_frame c kc s s' sp :
  Inv4 c kc s sp -> txs s' = txs s -> rcount s' = rcount s -> scount s' = scount s -> futs s' = futs s ->
  map rx_core (rxs s') = map rx_core (rxs s) -> Inv4 c kc s' sp.
Proof.
  intros J Et Er Es Ef Ec.
  assert (Eda : disp_alive s' = disp_alive s) by (unfold disp_alive; rewrite Et; reflexivity).
  constructor; rewrite ?Et, ?Er, ?Es, ?Ef, ?Eda.
  - apply (j_tx _ _ _ _ J).
  - eapply Forall2_core; [|exact Ec | apply (j_rx _ _ _ _ J)].
    intros x x' y E HR. eapply rel4_rx_core; eauto.
  - apply (j_futs _ _ _ _ J).
  - intros A B. rewrite (j_cnt _ _ _ _ J A B). f_equal. symmetry.
    apply filter_core; [intros x x'; apply rx_open_core | exact Ec].
  - apply (j_sc _ _ _ _ J).
  - intros A x' Hx' Hl Hd. destruct (In_core _ _ _ Ec Hx') as [x [Hx E]].
    unfold rx_core in E. injection E as E1 E2 E3 E4 E5.
    apply (j_quiet _ _ _ _ J A x Hx); congruence.
Qed.

Lemma core_upd_subs r f rs : (forall x, rx_core (f x) = rx_core x) -> map rx_core (upd_rx r f rs) = map rx_core rs.
Proof.
  intros H. unfold upd_rx. rewrite map_map. apply map_ext. intros a. destruct (N.eqb (r_id a) r); [apply H | reflexivity].
Qed.

Lemma subscribe_core_frame r t s :
  let s' := subscribe_core r t s in
  txs s' = txs s /\ rcount s' = rcount s /\ scount s' = scount s /\ futs s' = futs s /\
  map rx_core (rxs s') = map rx_core (rxs s).
Proof.
  unfold subscribe_core. destruct (find_rx r (rxs s)) as [x|]; [|cbn; auto 6].
  destruct (mem t (r_subs x)); [cbn; auto 6|].
  destruct (disp_alive s); cbn; repeat split; apply core_upd_subs; reflexivity.
Qed.

Lemma unsubscribe_core_frame r t s :
  let s' := unsubscribe_core r t s in
  txs s' = txs s /\ rcount s' = rcount s /\ scount s' = scount s /\ futs s' = futs s /\
  map rx_core (rxs s') = map rx_core (rxs s).
Proof.
  unfold unsubscribe_core. destruct (find_rx r (rxs s)) as [x|]; [|cbn; auto 6].
  destruct (mem t (r_subs x)); [|cbn; auto 6].
  destruct (disp_alive s); [destruct (get_list t (lists s))|]; cbn; repeat split; apply core_upd_subs; reflexivity.
Qed.

Lemma fold_frame (f : N -> state -> state) ts :
  (forall t s, let s' := f t s in txs s' = txs s /\ rcount s' = rcount s /\ scount s' = scount s /\ futs s' = futs s /\
                 map rx_core (rxs s') = map rx_core (rxs s)) ->
  forall s, let s' := fold_left (fun a t => f t a) ts s in
  txs s' = txs s /\ rcount s' = rcount s /\ scount s' = scount s /\ futs s' = futs s /\
  map rx_core (rxs s') = map rx_core (rxs s).
Proof.
  intros Hf. induction ts as [|t ts IH]; intros s; cbn [fold_left]; [auto 6|].
  destruct (IH (f t s)) as [A1 [A2 [A3 [A4 A5]]]]. destruct (Hf t s) as [B1 [B2 [B3 [B4 B5]]]].
  cbv zeta in *. repeat split; congruence.
Qed.

(* receiver close_internal: only the receiver count moves *)
Lemma close_internal_frame c r s :
  let s' := rx_close_internal c r s in
  txs s' = txs s /\ scount s' = scount s /\ futs s' = futs s /\ map rx_core (rxs s') = map rx_core (rxs s) /\
  rcount s' = (if disp_alive s then match find_rx r (rxs s) with Some _ => (rcount s - 1)%Z | None => rcount s end
               else rcount s).
Proof.
  unfold rx_close_internal. destruct (disp_alive s); [|cbn; auto 6].
  destruct (find_rx r (rxs s)) as [x|]; [|cbn; auto 6].
  destruct (fix14 c).
  - destruct (fold_frame (fun t a => unsubscribe_core r t a) (r_subs x) (fun t s0 => unsubscribe_core_frame r t s0) s)
      as [A1 [A2 [A3 [A4 A5]]]]. cbv zeta in *. cbn [txs rxs scount futs rcount st_set_rcount]. repeat split; congruence.
  - cbn. repeat split. apply core_upd_subs. reflexivity.
Qed.

(** generic lookups / updates / counting by id *)
Definition b2n' (b : bool) : nat := if b then 1 else 0.

Section Gen.
  Context {A : Type} (ida : A -> N).
  Definition gfind (r : N) (l : list A) : option A := find (fun x => N.eqb (ida x) r) l.
  Definition gupd (r : N) (f : A -> A) (l : list A) : list A := map (fun x => if N.eqb (ida x) r then f x else x) l.

  Lemma gupd_notin r f l : ~ In r (map ida l) -> gupd r f l = l.
  Proof.
    intros H. unfold gupd. rewrite <- (map_id l) at 2. apply map_ext_in. intros a Ha.
    destruct (N.eqb_spec (ida a) r) as [E|E]; [|reflexivity].
    exfalso. apply H. rewrite <- E. apply in_map. exact Ha.
  Qed.

  Lemma gcount_upd (P : A -> bool) r f l x :
    NoDup (map ida l) -> gfind r l = Some x -> (forall z, ida (f z) = ida z) ->
    (length (filter P (gupd r f l)) + b2n' (P x) = length (filter P l) + b2n' (P (f x)))%nat.
  Proof.
    unfold gfind. induction l as [|a l IH]; cbn [map find]; intros Hnd Hf Hid; [discriminate|].
    inversion Hnd as [|? ? Hni Hnd']; subst.
    destruct (N.eqb_spec (ida a) r) as [E|E].
    - injection Hf as <-. subst r. unfold gupd. cbn [map]. rewrite N.eqb_refl.
      fold (gupd (ida a) f l). rewrite gupd_notin by exact Hni.
      cbn [filter]. destruct (P (f a)), (P a); cbn [length b2n']; lia.
    - unfold gupd. cbn [map]. destruct (N.eqb_spec (ida a) r); [contradiction|].
      fold (gupd r f l). cbn [filter]. specialize (IH Hnd' Hf Hid).
      destruct (P a); cbn [length]; lia.
  Qed.

  Lemma gfind_In r l x : gfind r l = Some x -> In x l /\ ida x = r.
  Proof. unfold gfind. intros H. apply find_some in H. destruct H as [H1 H2]. apply N.eqb_eq in H2. auto. Qed.

  Lemma gfind_unique r l x x' : NoDup (map ida l) -> gfind r l = Some x -> In x' l -> ida x' = r -> x' = x.
  Proof.
    unfold gfind. induction l as [|a l IH]; cbn [map find]; intros Hnd Hf Hin Hid; [contradiction|].
    inversion Hnd as [|? ? Hni Hnd']; subst.
    destruct (N.eqb_spec (ida a) (ida x')) as [E|E].
    - injection Hf as <-. destruct Hin as [->|Hin]; [reflexivity|].
      exfalso. apply Hni. rewrite E. apply in_map. exact Hin.
    - destruct Hin as [->|Hin]; [congruence | apply IH; auto].
  Qed.
End Gen.

Section Gen2.
  Context {A B : Type} (ida : A -> N) (idb : B -> N).

  Lemma gfind_pair (R : A -> B -> Prop) l1 l2 r :
    Forall2 R l1 l2 -> (forall x y, R x y -> ida x = idb y) ->
    match gfind ida r l1, gfind idb r l2 with
    | Some x, Some y => R x y /\ In x l1 /\ In y l2
    | None, None => True
    | _, _ => False
    end.
  Proof.
    intros HF Hid. unfold gfind. induction HF as [|x y l1 l2 Hxy HF IH]; cbn [find]; [exact I|].
    rewrite <- (Hid _ _ Hxy). destruct (N.eqb (ida x) r).
    - split; [exact Hxy | split; left; reflexivity].
    - destruct (find (fun x0 => N.eqb (ida x0) r) l1), (find (fun x0 => N.eqb (idb x0) r) l2); try exact IH.
      destruct IH as [A1 [B1 C1]]. split; [exact A1 | split; right; assumption].
  Qed.

  Lemma gupd_pair (R R' : A -> B -> Prop) r f g l1 l2 :
    Forall2 R l1 l2 -> (forall x y, R x y -> ida x = idb y) ->
    (forall x y, In x l1 -> In y l2 -> R x y -> ida x = r -> R' (f x) (g y)) ->
    (forall x y, In x l1 -> In y l2 -> R x y -> ida x <> r -> R' x y) ->
    Forall2 R' (gupd ida r f l1) (gupd idb r g l2).
  Proof.
    intros HF Hid H1 H2. unfold gupd. eapply Forall2_map2; [exact HF|].
    intros x y Hx Hy HR. rewrite <- (Hid _ _ HR).
    destruct (N.eqb_spec (ida x) r) as [E|E]; [apply H1 | apply H2]; assumption.
  Qed.
End Gen2.

Lemma filter_map_inv {A} (P : A -> bool) (f : A -> A) l :
  (forall x, P (f x) = P x) -> length (filter P (map f l)) = length (filter P l).
Proof.
  intros H. induction l as [|a l IH]; cbn [map filter]; [reflexivity|].
  rewrite H. destruct (P a); cbn [length]; rewrite IH; reflexivity.
Qed.

Lemma da_false_quiet s : disp_alive s = false -> quiet (txs s).
Proof.
  unfold disp_alive, quiet. intros H t Ht. unfold tx_open_m.
  destruct (t_live t) eqn:L; [|reflexivity].
  exfalso. assert (existsb t_live (txs s) = true) by (apply existsb_exists; exists t; auto). congruence.
Qed.

Lemma quiet_count ts : quiet ts <-> length (filter tx_open_m ts) = 0%nat.
Proof.
  unfold quiet. induction ts as [|a l IH]; cbn [filter]; [split; [reflexivity | intros _ t []]|].
  destruct (tx_open_m a) eqn:E; cbn [length].
  - split; [intros H; specialize (H a (or_introl eq_refl)); congruence | discriminate].
  - rewrite <- IH. split; [intros H t Ht; apply H; right; exact Ht | intros H t [<-|Ht]; auto].
Qed.
