(* Proofs/SpmcDropProofs.v — C09 for the broadcast SPMC channel: conservation of payloads in the K2 model
   Chan/SpmcOps.v, for ALL op histories.  Every payload instance entrusted to the channel (an argument of a
   send form or of a send-future constructor) and every clone handed to a receiver is, at any time, in exactly
   one place: dropped (`dlog`), resident in a slot (`resident`, until the last handle goes), or still held by a
   live send future. *)
From Fibre Require Import Common.Base Chan.SpmcOps Proofs.SpmcOpsProofs Proofs.SpmcWakeProofs.
From Coq Require Import ZifyBool ZifyNat ZifyN.

Definition cnt (l : list N) (v : N) : nat := count_occ N.eq_dec l v.

Lemma cnt_app l1 l2 v : cnt (l1 ++ l2) v = (cnt l1 v + cnt l2 v)%nat.
Proof. apply count_occ_app. Qed.
Lemma cnt_nil v : cnt [] v = 0%nat.
Proof. reflexivity. Qed.
Lemma cnt_cons x l v : cnt (x :: l) v = (cnt [x] v + cnt l v)%nat.
Proof. change (x :: l) with ([x] ++ l). apply cnt_app. Qed.

Definition hv (x : fut) : list N := if f_live x then held (f_kind x) else [].
Definition held_all (s : st) : list N := flat_map (fun p => hv (snd p)) (futs s).
Definition resident' (s : st) : list N := if all_dead s then [] else resident s.

(* the conserved quantity, per id *)
Definition TC (s : st) (v : N) : nat := (cnt (dlog s) v + cnt (resident' s) v + cnt (held_all s) v)%nat.

(* what an op entrusts to the channel, and every value its result hands to a receiver *)
Definition offered_of (o : op) (x : out) : list N :=
  match x with
  | ONA | OWouldBlock => []
  | _ =>
    match o with
    | TrySend v | Send v | MkSend _ v => [v]
    | TrySendB vs | TrySendM vs | SendB vs | SendM vs | MkSendB _ vs | MkSendM _ vs => vs
    | _ => []
    end
  end.

Fixpoint allvals (o : out) : list N :=
  match o with
  | OVal _ v => [v]
  | OVals _ vs => vs
  | OReady o' => allvals o'
  | _ => []
  end.

(* ------------------------------------------------------------------ the futures table *)
Lemma held_set l f x v :
  (cnt (flat_map (fun p => hv (snd p)) (set l f x)) v +
   cnt (match get l f with Some x0 => hv x0 | None => [] end) v
   = cnt (flat_map (fun p => hv (snd p)) l) v + cnt (hv x) v)%nat.
Proof.
  induction l as [|[k a] t IH]; cbn [set get flat_map snd].
  - rewrite app_nil_r, cnt_nil. lia.
  - destruct (N.eqb_spec f k) as [->|Hn]; cbn [flat_map snd]; rewrite !cnt_app; lia.
Qed.

Lemma held_mark w l :
  flat_map (fun p => hv (snd p)) (map (mark w) l) = flat_map (fun p => hv (snd p)) l.
Proof.
  induction l as [|[k x] t IH]; [reflexivity|]. cbn [map flat_map]. rewrite IH. f_equal.
  unfold hv, mark. destruct (f_wait x) as [w'|]; [destruct (N.eqb w w')|]; reflexivity.
Qed.

Lemma held_displace w f l :
  flat_map (fun p => hv (snd p)) (map (displace w f) l) = flat_map (fun p => hv (snd p)) l.
Proof.
  induction l as [|[k x] t IH]; [reflexivity|]. cbn [map flat_map]. rewrite IH. f_equal.
  unfold hv, displace. destruct (N.eqb k f); [reflexivity|].
  destruct (fut_rx (f_kind x)); [reflexivity|]. destruct (f_wait x) as [w'|]; [destruct (N.eqb w w')|]; reflexivity.
Qed.

(* ------------------------------------------------------------------ primitives that do not touch the
   three components *)
Definition sameK (s s' : st) : Prop :=
  dlog s' = dlog s /\ log s' = log s /\ cap s' = cap s /\ rxs s' = rxs s /\ s_alive s' = s_alive s /\
  held_all s' = held_all s.

Lemma sameK_refl s : sameK s s.
Proof. repeat split. Qed.

Lemma sameK_trans s1 s2 s3 : sameK s1 s2 -> sameK s2 s3 -> sameK s1 s3.
Proof.
  intros (A1 & A2 & A3 & A4 & A5 & A6) (B1 & B2 & B3 & B4 & B5 & B6).
  repeat split; congruence.
Qed.

Lemma sameK_TC s s' v : sameK s s' -> TC s' v = TC s v.
Proof.
  intros (A1 & A2 & A3 & A4 & A5 & A6). unfold TC, resident', all_dead, resident, head. rewrite A1, A2, A3, A4, A5, A6.
  reflexivity.
Qed.

Lemma sameK_wake w s : sameK s (wake w s).
Proof.
  repeat split. unfold held_all, wake. cbn [set_futs set_wlog futs]. apply held_mark.
Qed.

Lemma sameK_wake_list ws : forall s, sameK s (wake_list ws s).
Proof.
  induction ws as [|w t IH]; intros s; [apply sameK_refl|]. cbn [wake_list fold_left].
  change (sameK s (wake_list t (wake w s))). eapply sameK_trans; [apply sameK_wake|apply IH].
Qed.

Lemma sameK_wake_producer s : sameK s (wake_producer s).
Proof.
  unfold wake_producer. destruct (pw s); [|apply sameK_refl].
  eapply sameK_trans; [|apply sameK_wake]. repeat split.
Qed.

Lemma sameK_drain k s : sameK s (drain k s).
Proof. unfold drain. eapply sameK_trans; [|apply sameK_wake_list]. repeat split. Qed.

Lemma sameK_wake_all s : sameK s (wake_all s).
Proof. unfold wake_all. eapply sameK_trans; [|apply sameK_wake_list]. repeat split. Qed.

Lemma sameK_register k w s : sameK s (register k w s).
Proof. unfold register. destruct (has_reg k w (regs s)); repeat split. Qed.

Lemma sameK_reg_producer f w s : sameK s (reg_producer f w s).
Proof.
  repeat split. unfold held_all, reg_producer. cbn [set_pw set_futs futs]. apply held_displace.
Qed.

(* ------------------------------------------------------------------ drops, writes, liveness *)
Lemma TC_add_drops s l v : TC (add_drops s l) v = (TC s v + cnt l v)%nat.
Proof.
  unfold TC. change (resident' (add_drops s l)) with (resident' s). change (held_all (add_drops s l)) with (held_all s).
  cbn [add_drops dlog]. rewrite cnt_app. lia.
Qed.

Lemma all_dead_alive s : s_alive s = true -> all_dead s = false.
Proof. unfold all_dead. intros ->. reflexivity. Qed.

Lemma all_dead_live_rx s r x : get (rxs s) r = Some x -> r_live x = true -> all_dead s = false.
Proof.
  intros Hg Hl. unfold all_dead. apply andb_false_iff. right.
  destruct (forallb (fun p => negb (r_live (snd p))) (rxs s)) eqn:E; [|reflexivity].
  rewrite forallb_forall in E. specialize (E (r, x) (get_In _ _ _ Hg)). cbn [snd] in E. rewrite Hl in E. discriminate.
Qed.

Lemma skipn_app_le {A} n (l1 l2 : list A) : (n <= length l1)%nat -> skipn n (l1 ++ l2) = skipn n l1 ++ l2.
Proof.
  intros H. rewrite skipn_app. replace (n - length l1)%nat with 0%nat by lia. reflexivity.
Qed.

Lemma TC_write1 v s x :
  s_alive s = true -> 0 < cap s -> TC (write1 v s) x = (TC s x + cnt [v] x)%nat.
Proof.
  intros Ha Hc. unfold write1.
  set (h := head s).
  set (s1 := if N.leb (cap s) h then add_drops s [nth (N.to_nat (h - cap s)) (log s) 0] else s).
  assert (Hs1 : log s1 = log s /\ cap s1 = cap s /\ rxs s1 = rxs s /\ s_alive s1 = s_alive s /\ held_all s1 = held_all s).
  { unfold s1. destruct (N.leb (cap s) h); repeat split. }
  destruct Hs1 as (Hl1 & Hc1 & Hx1 & Ha1 & Hh1).
  rewrite (sameK_TC (set_log s1 (log s1 ++ [v])) _ x (sameK_drain _ _)).
  unfold TC, resident'.
  assert (Hd0 : all_dead (set_log s1 (log s1 ++ [v])) = false) by (apply all_dead_alive; cbn [set_log s_alive]; congruence).
  rewrite Hd0, (all_dead_alive s Ha).
  change (held_all (set_log s1 (log s1 ++ [v]))) with (held_all s1). rewrite Hh1.
  cbn [set_log dlog]. unfold resident, head, skipnN. cbn [set_log log cap]. rewrite Hl1, Hc1, lenN_app.
  fold (head s). fold h.
  replace (lenN [v]) with 1 by reflexivity.
  destruct (N.leb_spec (cap s) h) as [Hge|Hlt].
  - (* the slot held index h - cap: its original is dropped now *)
    unfold s1. destruct (N.leb_spec (cap s) h); [|lia]. cbn [add_drops dlog].
    replace (N.to_nat (h + 1 - N.min (h + 1) (cap s))) with (S (N.to_nat (h - cap s))) by lia.
    replace (N.to_nat (h - N.min h (cap s))) with (N.to_nat (h - cap s)) by lia.
    assert (Hlen : (N.to_nat (h - cap s) < length (log s))%nat) by (unfold h, head, lenN in *; lia).
    rewrite skipn_app_le by lia.
    rewrite (skipn_cons_nth 0 (N.to_nat (h - cap s)) (log s) Hlen).
    rewrite (cnt_cons (nth (N.to_nat (h - cap s)) (log s) 0) (skipn (S (N.to_nat (h - cap s))) (log s))).
    rewrite !cnt_app. lia.
  - unfold s1. destruct (N.leb_spec (cap s) h); [lia|].
    replace (N.to_nat (h + 1 - N.min (h + 1) (cap s))) with 0%nat by lia.
    replace (N.to_nat (h - N.min h (cap s))) with 0%nat by lia.
    cbn [skipn]. rewrite !cnt_app. lia.
Qed.

Lemma write1_keeps v s : s_alive (write1 v s) = s_alive s /\ cap (write1 v s) = cap s.
Proof.
  pose proof (proj_write1 v s) as H. split.
  - change (c_alive (proj (write1 v s)) = s_alive s). rewrite H. reflexivity.
  - change (c_cap (proj (write1 v s)) = cap s). rewrite H. reflexivity.
Qed.

Lemma TC_write_many vs : forall s x,
  s_alive s = true -> 0 < cap s -> TC (write_many vs s) x = (TC s x + cnt vs x)%nat.
Proof.
  induction vs as [|v t IH]; intros s x Ha Hc; [cbn [write_many fold_left]; rewrite cnt_nil; lia|].
  cbn [write_many fold_left]. change (TC (write_many t (write1 v s)) x = (TC s x + cnt (v :: t) x)%nat).
  destruct (write1_keeps v s) as [Ha1 Hc1].
  rewrite IH by congruence. rewrite TC_write1 by assumption. rewrite (cnt_cons v t). lia.
Qed.

(* receiver records: as long as liveness does not change, nothing moves *)
Lemma forallb_set_live l r x x' :
  get l r = Some x -> r_live x' = r_live x ->
  forallb (fun p => negb (r_live (snd p))) (set l r x') = forallb (fun p => negb (r_live (snd p))) l.
Proof.
  intros Hg Hl. induction l as [|[k a] t IH]; cbn [get] in Hg; [discriminate|]. cbn [set].
  destruct (N.eqb_spec r k) as [->|Hn].
  - inversion Hg; subst a. cbn [forallb snd]. rewrite Hl. reflexivity.
  - cbn [forallb snd]. rewrite IH by exact Hg. reflexivity.
Qed.

Lemma TC_set_rx_same_live s r x x' v :
  get (rxs s) r = Some x -> r_live x' = r_live x -> TC (set_rx s r x') v = TC s v.
Proof.
  intros Hg Hl. unfold TC, resident', all_dead. cbn [set_rx set_rxs s_alive rxs dlog].
  rewrite (forallb_set_live _ _ _ _ Hg Hl). reflexivity.
Qed.

Lemma TC_set_rx_clone s c xc v :
  s_alive s = true \/ (exists r x, get (rxs s) r = Some x /\ r_live x = true) ->
  get (rxs s) c = None -> r_live xc = true -> TC (set_rx s c xc) v = TC s v.
Proof.
  intros Hlive Hn Hl. unfold TC, resident'.
  assert (H0 : all_dead s = false).
  { destruct Hlive as [Ha|(r & x & Hg & Hx)]; [apply all_dead_alive; exact Ha|eapply all_dead_live_rx; eauto]. }
  assert (H1 : all_dead (set_rx s c xc) = false).
  { apply (all_dead_live_rx _ c xc); [cbn [set_rx set_rxs rxs]; apply get_set_eq|exact Hl]. }
  rewrite H0, H1. reflexivity.
Qed.

(* the last handle goes: `release` moves the residents to the drop log *)
Lemma TC_release s v : TC (release s) v = (cnt (dlog s) v + cnt (resident s) v + cnt (held_all s) v)%nat.
Proof.
  unfold release. destruct (all_dead s) eqn:E.
  - unfold TC, resident'. change (all_dead (add_drops s (resident s))) with (all_dead s). rewrite E.
    cbn [add_drops dlog]. change (held_all (add_drops s (resident s))) with (held_all s). rewrite cnt_app, cnt_nil. lia.
  - unfold TC, resident'. rewrite E. reflexivity.
Qed.

Lemma TC_live s v : all_dead s = false -> TC s v = (cnt (dlog s) v + cnt (resident s) v + cnt (held_all s) v)%nat.
Proof. intros E. unfold TC, resident'. rewrite E. reflexivity. Qed.

(* futures table updates *)
Lemma TC_set_fut s f x v :
  (TC (set_fut s f x) v + cnt (match get (futs s) f with Some x0 => hv x0 | None => [] end) v
   = TC s v + cnt (hv x) v)%nat.
Proof.
  unfold TC. change (dlog (set_fut s f x)) with (dlog s). change (resident' (set_fut s f x)) with (resident' s).
  unfold held_all. cbn [set_fut set_futs futs]. pose proof (held_set (futs s) f x v). lia.
Qed.

(* ------------------------------------------------------------------ what one future holds, across the
   primitives that never edit the futures table except by marking *)
Definition hvf (s : st) (f : N) : list N := match get (futs s) f with Some x0 => hv x0 | None => [] end.
Definition sameF (s s' : st) : Prop := forall f, hvf s' f = hvf s f.

Lemma sameF_refl s : sameF s s.
Proof. intros f. reflexivity. Qed.
Lemma sameF_trans s1 s2 s3 : sameF s1 s2 -> sameF s2 s3 -> sameF s1 s3.
Proof. intros A B f. rewrite B. apply A. Qed.

Lemma hv_mark w f x : hv (snd (mark w (f, x))) = hv x.
Proof. unfold hv, mark. destruct (f_wait x) as [w'|]; [destruct (N.eqb w w')|]; reflexivity. Qed.

Lemma sameF_wake w s : sameF s (wake w s).
Proof.
  intros f. unfold hvf, wake. cbn [set_futs set_wlog futs]. rewrite get_map_mark.
  destruct (get (futs s) f); [apply hv_mark|reflexivity].
Qed.

Lemma sameF_wake_list ws : forall s, sameF s (wake_list ws s).
Proof.
  induction ws as [|w t IH]; intros s; [apply sameF_refl|]. cbn [wake_list fold_left].
  change (sameF s (wake_list t (wake w s))). eapply sameF_trans; [apply sameF_wake|apply IH].
Qed.

Lemma sameF_wake_producer s : sameF s (wake_producer s).
Proof.
  unfold wake_producer. destruct (pw s); [|apply sameF_refl].
  eapply sameF_trans; [|apply sameF_wake]. intros f. reflexivity.
Qed.

Lemma sameF_drain k s : sameF s (drain k s).
Proof. unfold drain. eapply sameF_trans; [|apply sameF_wake_list]. intros f. reflexivity. Qed.

Lemma sameF_write1 v s : sameF s (write1 v s).
Proof.
  unfold write1. eapply sameF_trans; [|apply sameF_drain]. intros f. unfold hvf. cbn [set_log futs].
  destruct (N.leb (cap s) (head s)); reflexivity.
Qed.

Lemma sameF_write_many vs : forall s, sameF s (write_many vs s).
Proof.
  induction vs as [|v t IH]; intros s; [apply sameF_refl|]. cbn [write_many fold_left].
  change (sameF s (write_many t (write1 v s))). eapply sameF_trans; [apply sameF_write1|apply IH].
Qed.

Lemma hv_displace w f g x : hv (snd (displace w f (g, x))) = hv x.
Proof.
  unfold hv, displace. destruct (N.eqb g f); [reflexivity|].
  destruct (fut_rx (f_kind x)); [reflexivity|]. destruct (f_wait x) as [w'|]; [destruct (N.eqb w w')|]; reflexivity.
Qed.

Lemma sameF_reg_producer f w s : sameF s (reg_producer f w s).
Proof.
  intros g. unfold hvf, reg_producer. cbn [set_pw set_futs futs]. rewrite get_map_displace.
  destruct (get (futs s) g); [apply hv_displace|reflexivity].
Qed.

Lemma sameF_register k w s : sameF s (register k w s).
Proof. intros f. unfold hvf, register. destruct (has_reg k w (regs s)); reflexivity. Qed.

(* kill / pend / new *)
Lemma TC_kill s f x v : (TC (kill s f x) v + cnt (hvf s f) v = TC s v)%nat.
Proof.
  unfold kill. pose proof (TC_set_fut s f (mkFut (f_kind x) false None false false) v) as H.
  unfold hv at 2 in H. cbn [f_live] in H. rewrite cnt_nil in H. unfold hvf. lia.
Qed.

Lemma TC_pend s f k w v : (TC (pend s f k w) v + cnt (hvf s f) v = TC s v + cnt (held k) v)%nat.
Proof.
  unfold pend. pose proof (TC_set_fut s f (mkFut k true (Some w) false false) v) as H.
  unfold hv at 2 in H. cbn [f_live f_kind] in H. unfold hvf. lia.
Qed.

(* ------------------------------------------------------------------ core operations *)
Lemma try_send_core_TC v s s' res x :
  try_send_core v s = (s', res) -> s_alive s = true -> 0 < cap s ->
  sameF s s' /\ match res with SOk => TC s' x = (TC s x + cnt [v] x)%nat | _ => s' = s end.
Proof.
  unfold try_send_core. destruct (minl (cursors s)); [destruct (N.leb (cap s) (head s - n))|];
    intros H Ha Hc; inversion H; subst; (split; [try apply sameF_refl|try reflexivity]).
  - apply sameF_write1.
  - apply TC_write1; assumption.
Qed.

Lemma send_some_TC vs s s' k rest x :
  send_some vs s = Some (s', k, rest) -> s_alive s = true -> 0 < cap s ->
  sameF s s' /\ TC s' x = (TC s x + cnt (firstnN k vs) x)%nat /\ rest = skipnN k vs.
Proof.
  unfold send_some. destruct (space s); [|discriminate]. intros H Ha Hc. inversion H; subst.
  split; [apply sameF_write_many|]. split; [apply TC_write_many; assumption|reflexivity].
Qed.

Lemma recv_TC r y s s' res x :
  try_recv_core r y s = (s', res) -> get (rxs s) r = Some y ->
  sameF s s' /\ match res with RVal v => TC s' x = (TC s x + cnt [v] x)%nat | _ => s' = s end.
Proof.
  unfold try_recv_core. destruct (in_window s (r_cur y)); [|destruct (pdrop s && N.leb (head s) (r_cur y))];
    intros H Hg; inversion H; subst; (split; [try apply sameF_refl|try reflexivity]).
  - eapply sameF_trans; [|apply sameF_wake_producer]. intros f. reflexivity.
  - rewrite (sameK_TC _ _ x (sameK_wake_producer _)), TC_add_drops.
    rewrite (TC_set_rx_same_live s r y (adv y 1) x Hg eq_refl). reflexivity.
Qed.

Lemma recv_batch_TC r y n s s' res x :
  try_recv_batch_core r y n s = (s', res) -> get (rxs s) r = Some y ->
  sameF s s' /\ match res with BVals vs => TC s' x = (TC s x + cnt vs x)%nat | _ => s' = s end.
Proof.
  unfold try_recv_batch_core. destruct (N.leb (head s) (r_cur y)); [destruct (pdrop s)|];
    intros H Hg; inversion H; subst; (split; [try apply sameF_refl|try reflexivity]).
  - eapply sameF_trans; [|apply sameF_wake_producer]. intros f. reflexivity.
  - rewrite (sameK_TC _ _ x (sameK_wake_producer _)), TC_add_drops.
    rewrite (TC_set_rx_same_live s r y (adv y _) x Hg eq_refl). reflexivity.
Qed.

Lemma firstn_skipn_cnt k (l : list N) x : (cnt (firstnN k l) x + cnt (skipnN k l) x = cnt l x)%nat.
Proof. rewrite <- cnt_app. unfold firstnN, skipnN. rewrite firstn_skipn. reflexivity. Qed.

Ltac pinj H := injection H as <- <-.

(* ------------------------------------------------------------------ one poll *)
Lemma hvf_live s f x : get (futs s) f = Some x -> f_live x = true -> hvf s f = held (f_kind x).
Proof. intros Hg Hl. unfold hvf, hv. rewrite Hg, Hl. reflexivity. Qed.

Lemma poll_TC s f x w s' o v :
  poll_fut s f x w = (s', o) -> get (futs s) f = Some x -> f_live x = true -> 0 < cap s ->
  TC s' v = (TC s v + cnt (allvals o) v)%nat.
Proof.
  intros H Hg Hl Hc. pose proof (hvf_live s f x Hg Hl) as Hh. unfold poll_fut in H.
  destruct (f_kind x) as [r|r n|v0|rest sent total|rest sent] eqn:Ek; cbn [held] in Hh.
  - destruct (get (rxs s) r) as [y|] eqn:Eg; [|pinj H; cbn [allvals]; rewrite ?cnt_nil; lia].
    destruct (r_closed y).
    { pinj H. pose proof (TC_kill s f x v). rewrite ?Hh, ?cnt_nil in *. cbn [allvals]. rewrite ?cnt_nil. lia. }
    destruct (try_recv_core r y s) as [s1 res] eqn:Et. destruct (recv_TC r y s s1 res v Et Eg) as [Hf Ht].
    destruct res as [v1| |]; pinj H; cbn [allvals]; try subst s1.
    + pose proof (TC_kill s1 f x v). rewrite ?(Hf f), ?Hh, ?cnt_nil in *. lia.
    + pose proof (TC_pend (register (r_cur y mod cap s) w s) f (f_kind x) w v) as Hp.
      rewrite (sameF_register _ _ _ f), Hh, Ek in Hp. cbn [held] in Hp.
      rewrite (sameK_TC _ _ v (sameK_register _ _ _)) in Hp. rewrite ?cnt_nil in *. lia.
    + pose proof (TC_kill s f x v). rewrite ?Hh, ?cnt_nil in *. lia.
  - destruct (get (rxs s) r) as [y|] eqn:Eg; [|pinj H; cbn [allvals]; rewrite ?cnt_nil; lia].
    destruct (r_closed y).
    { pinj H. pose proof (TC_kill s f x v). rewrite ?Hh, ?cnt_nil in *. cbn [allvals]. rewrite ?cnt_nil. lia. }
    destruct (N.eqb n 0).
    { pinj H. pose proof (TC_kill s f x v). rewrite ?Hh, ?cnt_nil in *. cbn [allvals]. rewrite ?cnt_nil. lia. }
    destruct (try_recv_batch_core r y n s) as [s1 res] eqn:Et. destruct (recv_batch_TC r y n s s1 res v Et Eg) as [Hf Ht].
    destruct res as [vs| |]; pinj H; cbn [allvals]; try subst s1.
    + pose proof (TC_kill s1 f x v). rewrite ?(Hf f), ?Hh, ?cnt_nil in *. lia.
    + pose proof (TC_pend (register (r_cur y mod cap s) w s) f (f_kind x) w v) as Hp.
      rewrite (sameF_register _ _ _ f), Hh, Ek in Hp. cbn [held] in Hp.
      rewrite (sameK_TC _ _ v (sameK_register _ _ _)) in Hp. rewrite ?cnt_nil in *. lia.
    + pose proof (TC_kill s f x v). rewrite ?Hh, ?cnt_nil in *. lia.
  - destruct (s_alive s) eqn:Ea; cbn [negb] in H; [|pinj H; cbn [allvals]; rewrite ?cnt_nil; lia].
    destruct (s_closed s).
    { pinj H. rewrite TC_add_drops. pose proof (TC_kill s f x v). rewrite ?Hh in *. cbn [allvals]. rewrite ?cnt_nil. lia. }
    destruct (try_send_core v0 s) as [s1 res] eqn:Et. destruct (try_send_core_TC v0 s s1 res v Et Ea Hc) as [Hf Ht].
    destruct res; pinj H; cbn [allvals]; try subst s1; rewrite ?TC_add_drops, ?cnt_nil.
    + pose proof (TC_kill s1 f x v). rewrite ?(Hf f), ?Hh in *. lia.
    + pose proof (TC_pend (reg_producer f w s) f (f_kind x) w v) as Hp.
      rewrite (sameF_reg_producer _ _ _ f), Hh, Ek in Hp. cbn [held] in Hp.
      rewrite (sameK_TC _ _ v (sameK_reg_producer _ _ _)) in Hp. lia.
    + pose proof (TC_kill s f x v). rewrite ?Hh in *. lia.
  - destruct (s_alive s) eqn:Ea; cbn [negb] in H; [|pinj H; cbn [allvals]; rewrite ?cnt_nil; lia].
    destruct (N.eqb sent total).
    { pinj H. rewrite TC_add_drops. pose proof (TC_kill s f x v). rewrite ?Hh in *. cbn [allvals]. rewrite ?cnt_nil. lia. }
    destruct (s_closed s).
    { pinj H. rewrite TC_add_drops. pose proof (TC_kill s f x v). rewrite ?Hh in *. cbn [allvals]. rewrite ?cnt_nil. lia. }
    destruct (send_some rest s) as [[[s1 k] rest']|] eqn:Es.
    2:{ pinj H. rewrite TC_add_drops. pose proof (TC_kill s f x v). rewrite ?Hh in *. cbn [allvals]. rewrite ?cnt_nil. lia. }
    destruct (send_some_TC rest s s1 k rest' v Es Ea Hc) as (Hf & Ht & Hr).
    pose proof (firstn_skipn_cnt k rest v) as Hfs. subst rest'.
    destruct (N.eqb (sent + k) total); pinj H; cbn [allvals]; rewrite ?TC_add_drops, ?cnt_nil.
    + pose proof (TC_kill s1 f x v). rewrite ?(Hf f), ?Hh in *. lia.
    + pose proof (TC_pend (reg_producer f w s1) f (FSendB (skipnN k rest) (sent + k) total) w v) as Hp.
      rewrite (sameF_reg_producer _ _ _ f), (Hf f), Hh in Hp. cbn [held] in Hp.
      rewrite (sameK_TC _ _ v (sameK_reg_producer _ _ _)) in Hp. lia.
  - destruct (s_alive s) eqn:Ea; cbn [negb] in H; [|pinj H; cbn [allvals]; rewrite ?cnt_nil; lia].
    destruct rest as [|v1 rest0].
    { pinj H. pose proof (TC_kill s f x v). rewrite ?Hh, ?cnt_nil in *. cbn [allvals]. rewrite ?cnt_nil. lia. }
    destruct (s_closed s).
    { pinj H. rewrite TC_add_drops. pose proof (TC_kill s f x v). rewrite ?Hh in *. cbn [allvals]. rewrite ?cnt_nil. lia. }
    destruct (send_some (v1 :: rest0) s) as [[[s1 k] rest']|] eqn:Es.
    2:{ pinj H. rewrite TC_add_drops. pose proof (TC_kill s f x v). rewrite ?Hh in *. cbn [allvals]. rewrite ?cnt_nil. lia. }
    destruct (send_some_TC _ s s1 k rest' v Es Ea Hc) as (Hf & Ht & Hr).
    pose proof (firstn_skipn_cnt k (v1 :: rest0) v) as Hfs. rewrite <- Hr in Hfs.
    destruct rest' as [|v2 rest2]; pinj H; cbn [allvals]; rewrite ?cnt_nil.
    + pose proof (TC_kill s1 f x v). rewrite ?(Hf f), ?Hh in *. rewrite ?cnt_nil in *. lia.
    + pose proof (TC_pend (reg_producer f w s1) f (FSendM (v2 :: rest2) (sent + k)) w v) as Hp.
      rewrite (sameF_reg_producer _ _ _ f), (Hf f), Hh in Hp. cbn [held] in Hp.
      rewrite (sameK_TC _ _ v (sameK_reg_producer _ _ _)) in Hp. lia.
Qed.

(* ------------------------------------------------------------------ one step *)
Definition E (s : st) (v : N) : nat := (cnt (dlog s) v + cnt (resident s) v + cnt (held_all s) v)%nat.

Lemma E_same s s' v : dlog s' = dlog s -> log s' = log s -> cap s' = cap s -> held_all s' = held_all s -> E s' v = E s v.
Proof. intros H1 H2 H3 H4. unfold E, resident, head. rewrite H1, H2, H3, H4. reflexivity. Qed.

Lemma TC_release_E s v : TC (release s) v = E s v.
Proof. apply TC_release. Qed.

Lemma TC_live_E s v : all_dead s = false -> TC s v = E s v.
Proof. apply TC_live. Qed.

Lemma new_fut_TC s f k s' o v :
  new_fut s f k = (s', o) -> TC s' v = (TC s v + cnt (match o with ONA => [] | _ => held k end) v)%nat.
Proof.
  unfold new_fut. destruct (get (futs s) f) eqn:Eg; intros H; pinj H; [rewrite cnt_nil; lia|].
  pose proof (TC_set_fut s f (mkFut k true None false false) v) as Hp. rewrite Eg in Hp.
  unfold hv in Hp. cbn [f_live f_kind] in Hp. rewrite cnt_nil in Hp. lia.
Qed.

Lemma step_TC s o s' x v :
  step s o = (s', x) -> 0 < cap s ->
  TC s' v = (TC s v + cnt (offered_of o x) v + cnt (allvals x) v)%nat.
Proof.
  intros H Hc. destruct o; cbn [step] in H.
  - (* TrySend *)
    destruct (s_alive s) eqn:Ea; cbn [negb] in H; [|pinj H; cbn [offered_of allvals]; rewrite ?cnt_nil; lia].
    destruct (s_closed s); [pinj H; rewrite TC_add_drops; cbn [offered_of allvals]; rewrite ?cnt_nil; lia|].
    destruct (try_send_core v0 s) as [s1 res] eqn:Et. destruct (try_send_core_TC v0 s s1 res v Et Ea Hc) as [_ Ht].
    destruct res; pinj H; try subst s1; rewrite ?TC_add_drops; cbn [offered_of allvals]; rewrite ?cnt_nil; lia.
  - (* Send *)
    destruct (s_alive s) eqn:Ea; cbn [negb orb] in H; [|pinj H; cbn [offered_of allvals]; rewrite ?cnt_nil; lia].
    destruct (s_async s); [pinj H; cbn [offered_of allvals]; rewrite ?cnt_nil; lia|].
    destruct (s_closed s); [pinj H; rewrite TC_add_drops; cbn [offered_of allvals]; rewrite ?cnt_nil; lia|].
    destruct (try_send_core v0 s) as [s1 res] eqn:Et. destruct (try_send_core_TC v0 s s1 res v Et Ea Hc) as [_ Ht].
    destruct res; pinj H; try subst s1; rewrite ?TC_add_drops; cbn [offered_of allvals]; rewrite ?cnt_nil; lia.
  - (* TrySendB *)
    destruct (s_alive s) eqn:Ea; cbn [negb] in H; [|pinj H; cbn [offered_of allvals]; rewrite ?cnt_nil; lia].
    destruct vs as [|v1 vs0]; [pinj H; cbn [offered_of allvals]; rewrite ?cnt_nil; lia|].
    destruct (s_closed s); [pinj H; rewrite TC_add_drops; cbn [offered_of allvals]; rewrite ?cnt_nil; lia|].
    destruct (send_some (v1 :: vs0) s) as [[[s1 k] rest']|] eqn:Es;
      [|pinj H; rewrite TC_add_drops; cbn [offered_of allvals]; rewrite ?cnt_nil; lia].
    destruct (send_some_TC _ s s1 k rest' v Es Ea Hc) as (_ & Ht & Hr).
    pose proof (firstn_skipn_cnt k (v1 :: vs0) v) as Hfs. rewrite <- Hr in Hfs.
    destruct rest'; pinj H; rewrite ?TC_add_drops; cbn [offered_of allvals]; rewrite ?cnt_nil in *; lia.
  - (* TrySendM *)
    destruct (s_alive s) eqn:Ea; cbn [negb] in H; [|pinj H; cbn [offered_of allvals]; rewrite ?cnt_nil; lia].
    destruct vs as [|v1 vs0]; [pinj H; cbn [offered_of allvals]; rewrite ?cnt_nil; lia|].
    destruct (s_closed s); [pinj H; rewrite TC_add_drops; cbn [offered_of allvals]; rewrite ?cnt_nil; lia|].
    destruct (send_some (v1 :: vs0) s) as [[[s1 k] rest']|] eqn:Es;
      [|pinj H; rewrite TC_add_drops; cbn [offered_of allvals]; rewrite ?cnt_nil; lia].
    destruct (send_some_TC _ s s1 k rest' v Es Ea Hc) as (_ & Ht & Hr).
    pose proof (firstn_skipn_cnt k (v1 :: vs0) v) as Hfs. rewrite <- Hr in Hfs.
    pinj H; rewrite ?TC_add_drops; cbn [offered_of allvals]; rewrite ?cnt_nil in *; lia.
  - (* SendB *)
    destruct (s_alive s) eqn:Ea; cbn [negb orb] in H; [|pinj H; cbn [offered_of allvals]; rewrite ?cnt_nil; lia].
    destruct (s_async s); [pinj H; cbn [offered_of allvals]; rewrite ?cnt_nil; lia|].
    destruct vs as [|v1 vs0]; [pinj H; cbn [offered_of allvals]; rewrite ?cnt_nil; lia|].
    destruct (s_closed s); [pinj H; rewrite TC_add_drops; cbn [offered_of allvals]; rewrite ?cnt_nil; lia|].
    destruct (send_some (v1 :: vs0) s) as [[[s1 k] rest']|] eqn:Es;
      [|pinj H; rewrite TC_add_drops; cbn [offered_of allvals]; rewrite ?cnt_nil; lia].
    destruct (send_some_TC _ s s1 k rest' v Es Ea Hc) as (_ & Ht & Hr).
    pose proof (firstn_skipn_cnt k (v1 :: vs0) v) as Hfs. rewrite <- Hr in Hfs.
    destruct rest'; pinj H; rewrite ?TC_add_drops; cbn [offered_of allvals]; rewrite ?cnt_nil in *; lia.
  - (* SendM *)
    destruct (s_alive s) eqn:Ea; cbn [negb orb] in H; [|pinj H; cbn [offered_of allvals]; rewrite ?cnt_nil; lia].
    destruct (s_async s); [pinj H; cbn [offered_of allvals]; rewrite ?cnt_nil; lia|].
    destruct vs as [|v1 vs0]; [pinj H; cbn [offered_of allvals]; rewrite ?cnt_nil; lia|].
    destruct (s_closed s); [pinj H; rewrite TC_add_drops; cbn [offered_of allvals]; rewrite ?cnt_nil; lia|].
    destruct (send_some (v1 :: vs0) s) as [[[s1 k] rest']|] eqn:Es;
      [|pinj H; rewrite TC_add_drops; cbn [offered_of allvals]; rewrite ?cnt_nil; lia].
    destruct (send_some_TC _ s s1 k rest' v Es Ea Hc) as (_ & Ht & Hr).
    pose proof (firstn_skipn_cnt k (v1 :: vs0) v) as Hfs. rewrite <- Hr in Hfs.
    destruct rest'; pinj H; rewrite ?TC_add_drops; cbn [offered_of allvals]; rewrite ?cnt_nil in *; lia.
  - (* SClose *)
    destruct (s_alive s) eqn:Ea; cbn [negb] in H; [|pinj H; cbn [offered_of allvals]; rewrite ?cnt_nil; lia].
    destruct (tx_busy s); [pinj H; cbn [offered_of allvals]; rewrite ?cnt_nil; lia|].
    destruct (s_closed s); pinj H; cbn [offered_of allvals]; rewrite ?cnt_nil; [lia|].
    unfold sender_close_internal. rewrite (sameK_TC _ _ v (sameK_wake_all _)).
    rewrite !TC_live_E by (apply all_dead_alive; cbn [set_sender s_alive]; assumption || reflexivity).
    rewrite (E_same s _ v); try reflexivity. lia.
  - (* SDrop *)
    destruct (s_alive s) eqn:Ea; cbn [negb] in H; [|pinj H; cbn [offered_of allvals]; rewrite ?cnt_nil; lia].
    destruct (tx_busy s); [pinj H; cbn [offered_of allvals]; rewrite ?cnt_nil; lia|].
    pinj H. cbn [offered_of allvals]. rewrite ?cnt_nil, TC_release_E, (TC_live_E s) by (apply all_dead_alive; exact Ea).
    destruct (s_closed s).
    + rewrite (E_same s _ v); try reflexivity. lia.
    + set (s1 := sender_close_internal s).
      assert (Hk : sameK (set_sender s (s_alive s) (s_closed s) (s_async s) (s_taint s) true) s1)
        by (unfold s1, sender_close_internal; apply sameK_wake_all).
      destruct Hk as (K1 & K2 & K3 & K4 & K5 & K6).
      rewrite (E_same s1 _ v); try reflexivity. rewrite (E_same s s1 v); auto. lia.
  - (* SConv *)
    destruct (s_alive s) eqn:Ea; cbn [negb] in H; [|pinj H; cbn [offered_of allvals]; rewrite ?cnt_nil; lia].
    destruct (tx_busy s); [pinj H; cbn [offered_of allvals]; rewrite ?cnt_nil; lia|].
    destruct (fixedm s); pinj H; cbn [offered_of allvals]; rewrite ?cnt_nil;
      rewrite !TC_live_E by (apply all_dead_alive; cbn [set_sender s_alive]; assumption || reflexivity);
      rewrite (E_same s _ v); try reflexivity; lia.
  - (* SObs *)
    destruct (s_alive s); cbn [negb] in H; pinj H; cbn [offered_of allvals]; rewrite ?cnt_nil; lia.
  - (* TryRecv *)
    apply with_rx_inv in H. destruct H as [[-> ->]|(y & Hg & Hl & H)]; [cbn [offered_of allvals]; rewrite ?cnt_nil; lia|].
    destruct (r_closed y); [pinj H; cbn [offered_of allvals]; rewrite ?cnt_nil; lia|].
    destruct (try_recv_core r y s) as [s1 res] eqn:Et. destruct (recv_TC r y s s1 res v Et Hg) as [_ Ht].
    destruct res; pinj H; try subst s1; cbn [offered_of allvals out_of_rres]; rewrite ?cnt_nil; lia.
  - (* Recv *)
    apply with_rx_inv in H. destruct H as [[-> ->]|(y & Hg & Hl & H)]; [cbn [offered_of allvals]; rewrite ?cnt_nil; lia|].
    destruct (r_async y); [pinj H; cbn [offered_of allvals]; rewrite ?cnt_nil; lia|].
    destruct (r_closed y); [pinj H; cbn [offered_of allvals]; rewrite ?cnt_nil; lia|].
    destruct (try_recv_core r y s) as [s1 res] eqn:Et. destruct (recv_TC r y s s1 res v Et Hg) as [_ Ht].
    destruct res; pinj H; try subst s1; cbn [offered_of allvals out_of_rres]; rewrite ?cnt_nil; lia.
  - (* RecvT *)
    apply with_rx_inv in H. destruct H as [[-> ->]|(y & Hg & Hl & H)]; [cbn [offered_of allvals]; rewrite ?cnt_nil; lia|].
    destruct (r_async y); [pinj H; cbn [offered_of allvals]; rewrite ?cnt_nil; lia|].
    destruct (r_closed y); [pinj H; cbn [offered_of allvals]; rewrite ?cnt_nil; lia|].
    destruct (try_recv_core r y s) as [s1 res] eqn:Et. destruct (recv_TC r y s s1 res v Et Hg) as [_ Ht].
    destruct res; pinj H; try subst s1; cbn [offered_of allvals out_of_rres]; rewrite ?cnt_nil; lia.
  - (* TryRecvB *)
    apply with_rx_inv in H. destruct H as [[-> ->]|(y & Hg & Hl & H)]; [cbn [offered_of allvals]; rewrite ?cnt_nil; lia|].
    destruct (N.eqb n 0); [pinj H; cbn [offered_of allvals]; rewrite ?cnt_nil; lia|].
    destruct (r_closed y); [pinj H; cbn [offered_of allvals]; rewrite ?cnt_nil; lia|].
    destruct (try_recv_batch_core r y n s) as [s1 res] eqn:Et. destruct (recv_batch_TC r y n s s1 res v Et Hg) as [_ Ht].
    destruct res; pinj H; try subst s1; cbn [offered_of allvals out_of_bres]; rewrite ?cnt_nil; lia.
  - (* RecvB *)
    apply with_rx_inv in H. destruct H as [[-> ->]|(y & Hg & Hl & H)]; [cbn [offered_of allvals]; rewrite ?cnt_nil; lia|].
    destruct (r_async y); [pinj H; cbn [offered_of allvals]; rewrite ?cnt_nil; lia|].
    destruct (N.eqb n 0); [pinj H; cbn [offered_of allvals]; rewrite ?cnt_nil; lia|].
    destruct (r_closed y); [pinj H; cbn [offered_of allvals]; rewrite ?cnt_nil; lia|].
    destruct (try_recv_batch_core r y n s) as [s1 res] eqn:Et. destruct (recv_batch_TC r y n s s1 res v Et Hg) as [_ Ht].
    destruct res; pinj H; try subst s1; cbn [offered_of allvals out_of_bres]; rewrite ?cnt_nil; lia.
  - (* RClose *)
    apply with_rx_inv in H. destruct H as [[-> ->]|(y & Hg & Hl & H)]; [cbn [offered_of allvals]; rewrite ?cnt_nil; lia|].
    destruct (r_closed y); pinj H; cbn [offered_of allvals]; rewrite ?cnt_nil; [lia|].
    rewrite (sameK_TC _ _ v (sameK_wake_producer _)), (TC_set_rx_same_live s r y (rx_unreg y) v Hg eq_refl). lia.
  - (* RDrop *)
    apply with_rx_inv in H. destruct H as [[-> ->]|(y & Hg & Hl & H)]; [cbn [offered_of allvals]; rewrite ?cnt_nil; lia|].
    destruct (rx_busy s r); [pinj H; cbn [offered_of allvals]; rewrite ?cnt_nil; lia|].
    pose proof (all_dead_live_rx s r y Hg Hl) as Hd.
    destruct (r_closed y).
    + rewrite Hg in H. pinj H. cbn [offered_of allvals]. rewrite ?cnt_nil, TC_release_E, (TC_live_E s v Hd).
      rewrite (E_same s _ v); try reflexivity. lia.
    + set (s1 := wake_producer (set_rx s r (rx_unreg y))) in *.
      destruct (sameK_wake_producer (set_rx s r (rx_unreg y))) as (K1 & K2 & K3 & K4 & K5 & K6). fold s1 in K1, K2, K3, K4, K5, K6.
      rewrite K4 in H. cbn [set_rx set_rxs rxs] in H. rewrite get_set_eq in H. pinj H.
      cbn [offered_of allvals]. rewrite ?cnt_nil, TC_release_E, (TC_live_E s v Hd).
      rewrite (E_same s1 _ v); try reflexivity. rewrite (E_same s s1 v); auto. lia.
  - (* RClone *)
    apply with_rx_inv in H. destruct H as [[-> ->]|(y & Hg & Hl & H)]; [cbn [offered_of allvals]; rewrite ?cnt_nil; lia|].
    destruct (get (rxs s) c) eqn:Egc; [pinj H; cbn [offered_of allvals]; rewrite ?cnt_nil; lia|].
    destruct (fixedm s && r_closed y); pinj H; cbn [offered_of allvals]; rewrite ?cnt_nil;
      rewrite TC_set_rx_clone; try lia; try reflexivity; try assumption; right; eauto.
  - (* RConv *)
    apply with_rx_inv in H. destruct H as [[-> ->]|(y & Hg & Hl & H)]; [cbn [offered_of allvals]; rewrite ?cnt_nil; lia|].
    destruct (rx_busy s r); [pinj H; cbn [offered_of allvals]; rewrite ?cnt_nil; lia|].
    destruct (fixedm s); pinj H; cbn [offered_of allvals]; rewrite ?cnt_nil;
      (rewrite (TC_set_rx_same_live s r y _ v Hg); [lia|cbn [r_live]; congruence]).
  - (* RObs *)
    apply with_rx_inv in H. destruct H as [[-> ->]|(y & Hg & Hl & H)]; [|pinj H]; cbn [offered_of allvals]; rewrite ?cnt_nil; lia.
  - (* MkRecv *)
    apply with_rx_inv in H. destruct H as [[-> ->]|(y & Hg & Hl & H)]; [cbn [offered_of allvals]; rewrite ?cnt_nil; lia|].
    destruct (r_async y); [|pinj H; cbn [offered_of allvals]; rewrite ?cnt_nil; lia].
    rewrite (new_fut_TC _ _ _ _ _ v H). cbn [held].
    assert (Hx : x = ONA \/ x = OOk) by (unfold new_fut in H; destruct (get (futs s) f); pinj H; auto).
    destruct Hx as [-> | ->]; cbn [offered_of allvals]; rewrite ?cnt_nil; lia.
  - (* MkRecvB *)
    apply with_rx_inv in H. destruct H as [[-> ->]|(y & Hg & Hl & H)]; [cbn [offered_of allvals]; rewrite ?cnt_nil; lia|].
    destruct (r_async y); [|pinj H; cbn [offered_of allvals]; rewrite ?cnt_nil; lia].
    rewrite (new_fut_TC _ _ _ _ _ v H). cbn [held].
    assert (Hx : x = ONA \/ x = OOk) by (unfold new_fut in H; destruct (get (futs s) f); pinj H; auto).
    destruct Hx as [-> | ->]; cbn [offered_of allvals]; rewrite ?cnt_nil; lia.
  - (* MkSend *)
    destruct (s_alive s && s_async s); [|pinj H; cbn [offered_of allvals]; rewrite ?cnt_nil; lia].
    rewrite (new_fut_TC _ _ _ _ _ v H). cbn [held].
    assert (Hx : x = ONA \/ x = OOk) by (unfold new_fut in H; destruct (get (futs s) f); pinj H; auto).
    destruct Hx as [-> | ->]; cbn [offered_of allvals]; rewrite ?cnt_nil; lia.
  - (* MkSendB *)
    destruct (s_alive s && s_async s); [|pinj H; cbn [offered_of allvals]; rewrite ?cnt_nil; lia].
    rewrite (new_fut_TC _ _ _ _ _ v H). cbn [held].
    assert (Hx : x = ONA \/ x = OOk) by (unfold new_fut in H; destruct (get (futs s) f); pinj H; auto).
    destruct Hx as [-> | ->]; cbn [offered_of allvals]; rewrite ?cnt_nil; lia.
  - (* MkSendM *)
    destruct (s_alive s && s_async s); [|pinj H; cbn [offered_of allvals]; rewrite ?cnt_nil; lia].
    rewrite (new_fut_TC _ _ _ _ _ v H). cbn [held].
    assert (Hx : x = ONA \/ x = OOk) by (unfold new_fut in H; destruct (get (futs s) f); pinj H; auto).
    destruct Hx as [-> | ->]; cbn [offered_of allvals]; rewrite ?cnt_nil; lia.
  - (* Poll *)
    destruct (get (futs s) f) as [y|] eqn:Eg; [|pinj H; cbn [offered_of allvals]; rewrite ?cnt_nil; lia].
    destruct (f_live y) eqn:El; [|pinj H; cbn [offered_of allvals]; rewrite ?cnt_nil; lia].
    rewrite (poll_TC s f y w s' x v H Eg El Hc).
    assert (Ho : offered_of (Poll f w) x = []) by (destruct x; reflexivity). rewrite Ho, cnt_nil. lia.
  - (* DropF *)
    destruct (get (futs s) f) as [y|] eqn:Eg; [|pinj H; cbn [offered_of allvals]; rewrite ?cnt_nil; lia].
    destruct (f_live y) eqn:El; pinj H; cbn [offered_of allvals]; rewrite ?cnt_nil; [|lia].
    rewrite TC_add_drops. pose proof (TC_kill s f y v) as Hk. rewrite (hvf_live s f y Eg El) in Hk. lia.
  - (* PollNext *)
    apply with_rx_inv in H. destruct H as [[-> ->]|(y & Hg & Hl & H)]; [cbn [offered_of allvals]; rewrite ?cnt_nil; lia|].
    destruct (r_async y); cbn [negb] in H; [|pinj H; cbn [offered_of allvals]; rewrite ?cnt_nil; lia].
    destruct (rx_busy s r); [pinj H; cbn [offered_of allvals]; rewrite ?cnt_nil; lia|].
    destruct (r_closed y); [pinj H; cbn [offered_of allvals]; rewrite ?cnt_nil; lia|].
    destruct (try_recv_core r y s) as [s1 res] eqn:Et. destruct (recv_TC r y s s1 res v Et Hg) as [_ Ht].
    destruct res; pinj H; try subst s1; cbn [offered_of allvals]; rewrite ?cnt_nil;
      rewrite ?(sameK_TC _ _ v (sameK_register _ _ _)); lia.
  - (* Snap *)
    pinj H. cbn [offered_of allvals]. rewrite ?cnt_nil. lia.
Qed.

(* ------------------------------------------------------------------ all histories *)
Fixpoint offered (s : st) (ops : list op) : list N :=
  match ops with
  | [] => []
  | o :: t => offered_of o (snd (step s o)) ++ offered (fst (step s o)) t
  end.

Definition delivered (outs : list out) : list N := flat_map allvals outs.

Lemma cap_step s o : cap (fst (step s o)) = cap s.
Proof.
  destruct (step s o) as [s1 x] eqn:E. cbn [fst]. pose proof (step_shape _ _ _ _ E) as Hsh.
  change (c_cap (proj s1) = c_cap (proj s)). destruct Hsh; reflexivity.
Qed.

Lemma conservation_from ops : forall s v, 0 < cap s ->
  TC (end_of s ops) v = (TC s v + cnt (offered s ops) v + cnt (delivered (outs_from s ops)) v)%nat.
Proof.
  induction ops as [|o t IH]; intros s v Hc.
  - cbn [end_of offered outs_from delivered flat_map]. rewrite cnt_nil. lia.
  - cbn [end_of offered outs_from delivered flat_map]. fold (delivered (outs_from (fst (step s o)) t)).
    rewrite IH by (rewrite cap_step; exact Hc). rewrite !cnt_app.
    destruct (step s o) as [s1 x] eqn:E. cbn [fst snd]. rewrite (step_TC s o s1 x v E Hc). lia.
Qed.

Lemma TC_init fx c a v : TC (init fx c a) v = 0%nat.
Proof. reflexivity. Qed.

(* at any point of any history nothing is lost and nothing is duplicated: the drops so far, the values
   still resident in slots and the values still held by live send futures are, as a multiset, exactly
   what was entrusted to the channel plus the clones handed to receivers *)
Theorem spmc_conservation fx c a ops :
  0 < c ->
  let s := end_of (init fx c a) ops in
  Permutation (dlog s ++ resident' s ++ held_all s)
              (offered (init fx c a) ops ++ delivered (outs_from (init fx c a) ops)).
Proof.
  intros Hc s. apply (Permutation_count_occ N.eq_dec). intros v.
  pose proof (conservation_from ops (init fx c a) v Hc) as H. rewrite TC_init in H. fold s in H.
  unfold TC in H. fold (cnt (dlog s ++ resident' s ++ held_all s) v).
  fold (cnt (offered (init fx c a) ops ++ delivered (outs_from (init fx c a) ops)) v).
  rewrite !cnt_app. lia.
Qed.

(* whatever the order in which handles and futures were dropped: once every handle is gone and no
   future is alive, every payload instance entrusted to the channel and every clone handed to a receiver
   has been dropped exactly once *)
Theorem spmc_drop_exactly_once fx c a ops :
  0 < c ->
  let s := end_of (init fx c a) ops in
  all_dead s = true -> held_all s = [] ->
  Permutation (dlog s) (offered (init fx c a) ops ++ delivered (outs_from (init fx c a) ops)).
Proof.
  intros Hc s Hd Hh. pose proof (spmc_conservation fx c a ops Hc) as H. cbv zeta in H. fold s in H.
  unfold resident' in H. rewrite Hd, Hh in H. cbn [app] in H. rewrite app_nil_r in H. exact H.
Qed.

(* the channel's own share: the originals.  At any time the slots hold exactly the last min(head, cap)
   accepted values, each older original was dropped when its slot was overwritten (write1), and the rest
   go when the last handle goes (release) *)
Theorem spmc_overwrite_drops_previous_lap s v :
  s_alive s = true -> 0 < cap s ->
  dlog (write1 v s) = (if N.leb (cap s) (head s) then [nth (N.to_nat (head s - cap s)) (log s) 0] else []) ++ dlog s
  /\ log (write1 v s) = log s ++ [v].
Proof.
  intros Ha Hc. split.
  - unfold write1. destruct (sameK_drain (head s mod cap s)
        (set_log (if N.leb (cap s) (head s) then add_drops s [nth (N.to_nat (head s - cap s)) (log s) 0] else s)
                 (log (if N.leb (cap s) (head s) then add_drops s [nth (N.to_nat (head s - cap s)) (log s) 0] else s) ++ [v])))
      as (K1 & _). rewrite K1. destruct (N.leb (cap s) (head s)); reflexivity.
  - change (c_log (proj (write1 v s)) = log s ++ [v]). rewrite proj_write1. reflexivity.
Qed.
