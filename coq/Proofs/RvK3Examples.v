(* Proofs/RvK3Examples.v — non-vacuity witnesses for the K3' rendezvous theorems (concrete
   schedules evaluated with vm_compute: a receiver really parks and is woken by a handoff, a
   sender really parks and is fulfilled, try_send / try_recv fail without effect, a timed receive
   times out cleanly, the last handle disconnects a parked waiter), and the REFUTATION witness for
   the pre-fix code (finding F-01): with the cancel CAS outside the lock a timed receive returns
   Timeout although the sender committed the handoff and was told Ok — the payload is lost. *)
From Coq Require Import List NArith Arith Bool Lia.
From Fibre Require Import Common.Conc Chan.RvK3.
Import ListNotations.

Fixpoint rep (n : nat) (t : nat) (c : choice) : list (nat * choice) :=
  match n with O => [] | S m => (t, c) :: rep m t c end.

(* ---- 1. park / wake in both directions, Drain until Disconnected *)
Definition ex_cfg := [CS [Send; Send]; CR [Recv; Drain]].
Definition ex_s1 := fst (run (sys true ex_cfg) (init ex_cfg) (rep 20 1 CGo)).
Definition ex_s2 := fst (run (sys true ex_cfg) ex_s1 (rep 40 0 CGo)).
Definition ex_s3 := fst (run (sys true ex_cfg) ex_s2 (rep 100 1 CGo ++ rep 100 0 CGo ++ rep 100 1 CGo)).

Lemma ex_receiver_parks : parked ex_s1 1 /\ rq ex_s1 = [1] /\ wstate ex_s1 1 = W /\ lock ex_s1 = None.
Proof. vm_compute. repeat split; auto. Qed.

(* the sender handed payload (0,1) into the parked receiver's cell, unparked it, and is now itself
   parked with payload (0,2) in its slot *)
Lemma ex_handoff_and_sender_parks :
  results ex_s2 0 = [POk (0, 1)] /\ cell ex_s2 1 = Some (0, 1) /\ wstate ex_s2 1 = D /\ token ex_s2 1 = true /\
  parked ex_s2 0 /\ sq ex_s2 = [0] /\ cell ex_s2 0 = Some (0, 2) /\ handed ex_s2 = [((0, 1), 1)].
Proof. vm_compute. repeat split; auto. Qed.

Lemma ex_completes :
  all_done ex_cfg ex_s3 /\ results ex_s3 0 = [POk (0, 1); POk (0, 2)] /\
  results ex_s3 1 = [RVal (0, 1); RVal (0, 2); RDisc] /\ handed ex_s3 = [((0, 1), 1); ((0, 2), 1)] /\
  bad ex_s3 = false /\ quiescent_ns true ex_cfg ex_s3.
Proof.
  repeat match goal with |- _ /\ _ => split end; try (vm_compute; reflexivity).
  - intros t Ht. destruct t as [|[|t]]; [vm_compute; reflexivity|vm_compute; reflexivity|cbn in Ht; lia].
  - intros t. destruct t as [|[|t]]; [split; vm_compute; reflexivity|split; vm_compute; reflexivity|].
    unfold step, role. cbn [ex_cfg nth_error]. destruct t; split; reflexivity.
Qed.

(* ---- 2. failed try ops, a clean timeout, a sender fulfilled by a timed receive, disconnect *)
Definition ex2_cfg := [CS [TrySend; Send; Send]; CR [TryRecv; RecvT; RecvT]].
Definition ex2_s := fst (run (sys true ex2_cfg) (init ex2_cfg)
  (rep 10 0 CGo                      (* try_send: Full; send: parks *)
   ++ rep 6 1 CGo                    (* try_recv takes the parked sender's payload *)
   ++ rep 3 1 CGo ++ [(1, CGo)]      (* recv_timeout: registers, loads WAITING, parks with timeout *)
   ++ rep 6 1 CTimeout               (* deadline passed: cancel under the lock -> Timeout *)
   ++ rep 40 1 CTimeout              (* second recv_timeout times out too; receiver drops its handle *)
   ++ rep 40 0 CGo)).                (* the sender wakes (Ok), its third send finds no receiver: Closed *)

Lemma ex2_results :
  all_done ex2_cfg ex2_s /\
  results ex2_s 0 = [PFull (0, 1); POk (0, 2); PGone (0, 3)] /\
  results ex2_s 1 = [RVal (0, 2); RTimeout None; RTimeout None] /\
  handed ex2_s = [((0, 2), 1)] /\ bad ex2_s = false.
Proof.
  repeat match goal with |- _ /\ _ => split end; try (vm_compute; reflexivity).
  intros t Ht. destruct t as [|[|t]]; [vm_compute; reflexivity|vm_compute; reflexivity|cbn in Ht; lia].
Qed.

(* a parked sender is disconnected by the last receiver handle *)
Definition ex3_cfg := [CS [Send]; CR []].
Definition ex3_s1 := fst (run (sys true ex3_cfg) (init ex3_cfg) (rep 10 0 CGo)).
Definition ex3_s2 := fst (run (sys true ex3_cfg) ex3_s1 (rep 10 1 CGo ++ rep 10 0 CGo)).
Lemma ex3_disconnect :
  parked ex3_s1 0 /\ sq ex3_s1 = [0] /\ rcount ex3_s1 = 1 /\
  results ex3_s2 0 = [PGone (0, 1)] /\ all_done ex3_cfg ex3_s2 /\ handed ex3_s2 = [].
Proof.
  repeat match goal with |- _ /\ _ => split end; try (vm_compute; auto; reflexivity).
  intros t Ht. destruct t as [|[|t]]; [vm_compute; reflexivity|vm_compute; reflexivity|cbn in Ht; lia].
Qed.

(* ---- 3. F-01: the pre-fix variant (cancel CAS outside the lock) loses a delivered payload *)
Definition f01_cfg := [CS [Send]; CR [RecvT]].
Definition f01_sched : list (nat * choice) :=
  rep 4 1 CGo                (* receiver: closed.load; lock (registers); unlock; state.load = WAITING *)
  ++ rep 2 0 CGo             (* sender: closed.load; lock -> finds the parked receiver *)
  ++ [(1, CTimeout)]         (* receiver: deadline passed, CAS WAITING -> CANCELLED succeeds, OUTSIDE the lock *)
  ++ rep 3 0 CGo             (* sender: writes dest, stores DONE unconditionally; unlock; unpark: Ok *)
  ++ rep 2 1 CGo             (* receiver: lock, remove (not found), unlock: returns Timeout *)
  ++ rep 10 0 CGo ++ rep 10 1 CGo.   (* both handles dropped *)
Definition f01_s := final false f01_cfg f01_sched.

Lemma f01_witness :
  results f01_s 0 = [POk (0, 1)] /\ results f01_s 1 = [RTimeout (Some (0, 1))] /\
  got f01_s 1 = [] /\ lost f01_s 1 = [(0, 1)] /\ handed f01_s = [((0, 1), 1)] /\ all_done f01_cfg f01_s.
Proof.
  repeat match goal with |- _ /\ _ => split end; try (vm_compute; reflexivity).
  intros t Ht. destruct t as [|[|t]]; [vm_compute; reflexivity|vm_compute; reflexivity|cbn in Ht; lia].
Qed.

(* the same schedule on the repaired code: the cancel has to wait for the lock, finds DONE, and the
   receive returns the payload *)
Definition f01_fixed := final true f01_cfg f01_sched.
Lemma f01_fixed_delivers :
  results f01_fixed 0 = [POk (0, 1)] /\ results f01_fixed 1 = [RVal (0, 1)] /\ lost f01_fixed 1 = [].
Proof. vm_compute. repeat split; reflexivity. Qed.
