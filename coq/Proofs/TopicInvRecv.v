(* Proofs/TopicInvRecv.v — invariant preservation: receive forms, futures, observers, conversions. *)
From Fibre Require Import Common.Base Chan.TopicOps Chan.TopicSpec Proofs.TopicLemmas Proofs.TopicInv.

Lemma msg_eqb_refl m : msg_eqb m m = true.
Proof. unfold msg_eqb. rewrite !N.eqb_refl. reflexivity. Qed.

Lemma msg_eqb_eq a b : msg_eqb a b = true -> a = b.
Proof.
  unfold msg_eqb. destruct a, b. cbn. intros H. apply andb_true_iff in H. destruct H as [H1 H2].
  apply N.eqb_eq in H1. apply N.eqb_eq in H2. subst. reflexivity.
Qed.

Lemma sp_set_rx_same sp : sp_set_rx sp (sp_rx sp) = sp.
Proof. destruct sp; reflexivity. Qed.

(* the model pops/changes the mailbox content, the reference changes its queue and logs *)
Lemma rel_rx_change_q c ls da ao sgb x y m' q' got' :
  rel_rx c ls da ao sgb x y ->
  m_cap m' = m_cap (r_mb x) -> m_disc m' = m_disc (r_mb x) -> m_dropped m' = m_dropped (r_mb x) ->
  (good c y = true -> m_buf m' = q') ->
  rel_rx c ls da ao sgb (rx_set_mb x m')
    {| s_id := s_id y; s_live := s_live y; s_closed := s_closed y; s_subs := s_subs y; s_q := q';
       s_cap := s_cap y; s_full := s_full y; s_exp := s_exp y; s_got := got'; s_reach := s_reach y |}.
Proof.
  intros HR Hc Hd Hdr Hq. destruct HR. constructor; cbn; auto.
  - rewrite Hc. auto.
  - intros Hl Hg. split; [apply Hq; exact Hg|]. rewrite Hdr. apply rr_buf; assumption.
  - rewrite Hd. auto.
  - rewrite Hd. auto.
  - rewrite Hd. auto.
Qed.

Lemma srx_eta y : {| s_id := s_id y; s_live := s_live y; s_closed := s_closed y; s_subs := s_subs y; s_q := s_q y;
       s_cap := s_cap y; s_full := s_full y; s_exp := s_exp y; s_got := s_got y; s_reach := s_reach y |} = y.
Proof. destruct y; reflexivity. Qed.

Lemma inv_model_only c s sp r x y f :
  Inv c s sp -> find_rx r (rxs s) = Some x -> find_srx r (sp_rx sp) = Some y ->
  (forall x0, r_id (f x0) = r_id x0) -> (forall x0, r_live (f x0) = r_live x0) ->
  rel_rx c (lists s) (disp_alive s) (any_open sp) (sg c sp) (f x) y ->
  Inv c (st_set_rxs s (upd_rx r f (rxs s))) sp.
Proof.
  intros I Hx Hy H1 H2 HR.
  rewrite <- (sp_set_rx_same sp). rewrite <- (upd_srx_id r (sp_rx sp)).
  apply (inv_upd_rx _ _ _ _ x y); auto.
Qed.

Lemma recv_core_ok c s sp r x none reg s1 rs w sp1 vs :
  Inv c s sp -> live_rx r s = Some x ->
  (none = REmpty \/ none = RTimeout \/ none = RPending \/ (none = RDisc /\ r_closed x = true)) ->
  recv_core r x none reg s = (s1, (rs, w)) ->
  sp_recv sp r rs = (sp1, vs) ->
  Inv c s1 sp1 /\ vs_ok c sp vs.
Proof.
  intros I Hl Hnone Hrc Hsp.
  apply live_rx_spec in Hl. destruct Hl as [Hx Hlive].
  destruct (pair_rx _ _ _ _ _ I Hx) as [y [Hy [Hinx [Hiny HR]]]].
  unfold recv_core, mb_pop in Hrc. unfold sp_recv in Hsp. rewrite Hy in Hsp.
  destruct (m_buf (r_mb x)) as [|[t v] b] eqn:Eb.
  - (* mailbox empty *)
    assert (Hq : good c y = true -> s_q y = []).
    { intros Hg. destruct (rr_buf _ _ _ _ _ _ _ HR Hlive Hg) as [Hq _]. congruence. }
    destruct (m_disc (r_mb x)) eqn:Ed.
    + (* Disconnected *)
      injection Hrc as <- <- <-.
      destruct (s_closed y) eqn:Ec.
      * injection Hsp as <- <-. split; [exact I | apply vs_ok_nil].
      * assert (Hg : good c y = true) by (unfold good; rewrite Ec; apply orb_true_r).
        rewrite (Hq Hg) in Hsp.
        destruct (any_open sp) eqn:Eo; injection Hsp as <- <-; (split; [exact I|]); [|apply vs_ok_nil].
        intros v0 [<-|[]]. cbn.
        destruct (sg c sp) eqn:Es; [|reflexivity].
        pose proof (rr_dsound _ _ _ _ _ _ _ HR Hlive Ed eq_refl). congruence.
    + (* not disconnected *)
      assert (Hcase : rs = none /\ w = [] /\ Inv c s1 sp).
      { destruct reg as [wk|]; injection Hrc as <- <- <-; (split; [reflexivity|]); (split; [reflexivity|]); [|exact I].
        apply (inv_model_only _ _ _ _ x y); auto.
        destruct HR. constructor; cbn; auto. }
      destruct Hcase as [-> [-> I1]].
      destruct Hnone as [->|[->|[->|[-> Hcl]]]].
      1,2,3: destruct (s_q y) as [|m q] eqn:Eq;
        [ destruct (negb (s_closed y) && negb (any_open sp)) eqn:En; injection Hsp as <- <-; (split; [exact I1|]);
          [ intros v0 [<-|[]]; cbn; apply andb_true_iff in En; destruct En as [En1 En2];
            apply negb_true_iff in En2; split;
            [ destruct (fix04 c) eqn:F4; destruct (fix05 c) eqn:F5; try reflexivity;
              pose proof (rr_dcompl _ _ _ _ _ _ _ HR Hlive F4 F5 En2); congruence
            | exists y; split; [exact Hy|]; destruct (s_reach y) eqn:Er; [|reflexivity];
              pose proof (rr_reach _ _ _ _ _ _ _ HR Hlive Er); congruence ]
          | apply vs_ok_nil ]
        | injection Hsp as <- <-; split; [exact I1|]; intros v0 [<-|[]]; cbn; exists y; split; [exact Hy|];
          destruct (good c y) eqn:Eg; [|reflexivity]; specialize (Hq eq_refl); discriminate ].
      (* rto on a handle whose own closed flag is set: try_recv().map_err(|_| Disconnected) *)
      destruct (s_closed y) eqn:Ec.
      * injection Hsp as <- <-. split; [exact I1 | apply vs_ok_nil].
      * assert (Hg : good c y = true) by (unfold good; rewrite Ec; apply orb_true_r).
        rewrite (Hq Hg) in Hsp.
        pose proof (rr_cdead _ _ _ _ _ _ _ HR Hlive Hcl Ec) as Hda.
        rewrite (da_false_ao _ _ _ I Hda) in Hsp. injection Hsp as <- <-. split; [exact I1 | apply vs_ok_nil].
  - (* a message is taken *)
    injection Hrc as <- <- <-.
    assert (Hany : forall q' (got' : srx -> list msg), (good c y = true -> b = q') ->
      Inv c (st_set_rxs s (upd_rx r (fun y0 => rx_set_mb y0 (mb_set_buf (r_mb x) b)) (rxs s)))
            (sp_set_rx sp (upd_srx r (fun y0 => {| s_id := s_id y0; s_live := s_live y0; s_closed := s_closed y0;
                 s_subs := s_subs y0; s_q := q'; s_cap := s_cap y0; s_full := s_full y0; s_exp := s_exp y0;
                 s_got := got' y0; s_reach := s_reach y0 |}) (sp_rx sp)))).
    { intros q' got' Hq'. apply (inv_upd_rx _ _ _ _ x y); auto.
      apply rel_rx_change_q; auto. }
    destruct (good c y) eqn:Hg.
    + destruct (rr_buf _ _ _ _ _ _ _ HR Hlive Hg) as [Hq Hd]. rewrite Eb in Hq. rewrite <- Hq in Hsp.
      rewrite msg_eqb_refl in Hsp. injection Hsp as <- <-. split; [|apply vs_ok_nil].
      apply (Hany b (fun y0 => s_got y0 ++ [(t, v)])). reflexivity.
    + assert (Hbad : vs_ok c sp [VRouting r]).
      { intros v0 [<-|[]]. cbn. exists y. auto. }
      assert (Hsame : Inv c (st_set_rxs s (upd_rx r (fun y0 => rx_set_mb y0 (mb_set_buf (r_mb x) b)) (rxs s))) sp).
      { apply (inv_model_only _ _ _ _ x y); auto.
        pose proof (rel_rx_change_q _ _ _ _ _ _ _ (mb_set_buf (r_mb x) b) (s_q y) (s_got y) HR
                      eq_refl eq_refl eq_refl) as P.
        rewrite srx_eta in P. apply P. congruence. }
      destruct (s_q y) as [|m q] eqn:Eq.
      * injection Hsp as <- <-. split; [exact Hsame | exact Hbad].
      * destruct (msg_eqb m (t, v)) eqn:Em; injection Hsp as <- <-.
        -- split; [|apply vs_ok_nil]. apply (Hany q (fun y0 => s_got y0 ++ [(t, v)])). congruence.
        -- split; [exact Hsame | exact Hbad].
Qed.

Ltac nochange I := match goal with
  | [ H1 : (_, (_, _)) = (_, (_, _)), H2 : (_, _) = (_, _) |- _ ] =>
      injection H1 as <- <- <-; cbn in H2; injection H2 as <- <-; split; [exact I | apply vs_ok_nil]
  end.

Lemma ok_TryRecv c r : step_ok_for c (TryRecv r).
Proof.
  intros s sp s1 rs w sp1 vs I Hs Hsp. cbn [step sp_step] in *.
  destruct (live_rx r s) as [x|] eqn:Hl.
  - eapply (recv_core_ok _ _ _ _ _ REmpty); eauto.
  - injection Hs as <- <- <-. cbn in Hsp.
    unfold sp_recv in Hsp. destruct (find_srx r (sp_rx sp)); injection Hsp as <- <-; (split; [exact I | apply vs_ok_nil]).
Qed.

Lemma sp_recv_inert sp r rs : 
  match rs with RVal _ _ | REmpty | RTimeout | RPending | RDisc => False | _ => True end ->
  sp_recv sp r rs = (sp, []).
Proof.
  intros H. unfold sp_recv. destruct (find_srx r (sp_rx sp)); [|reflexivity].
  destruct rs; try reflexivity; contradiction.
Qed.

Lemma ok_RecvTimeout0 c r : step_ok_for c (RecvTimeout0 r).
Proof.
  intros s sp s1 rs w sp1 vs I Hs Hsp. cbn [step sp_step] in *.
  destruct (live_rx r s) as [x|] eqn:Hl.
  - destruct (r_async x).
    + injection Hs as <- <- <-. rewrite sp_recv_inert in Hsp by exact Logic.I. injection Hsp as <- <-.
      split; [exact I | apply vs_ok_nil].
    + destruct (r_closed x) eqn:Ec.
      * eapply (recv_core_ok _ _ _ _ _ RDisc); eauto 7.
      * eapply (recv_core_ok _ _ _ _ _ RTimeout); eauto.
  - injection Hs as <- <- <-. rewrite sp_recv_inert in Hsp by exact Logic.I. injection Hsp as <- <-.
    split; [exact I | apply vs_ok_nil].
Qed.

Lemma ok_PollNext c r wk : step_ok_for c (PollNext r wk).
Proof.
  intros s sp s1 rs w sp1 vs I Hs Hsp. cbn [step sp_step] in *.
  destruct (live_rx r s) as [x|] eqn:Hl.
  - destruct (negb (r_async x)).
    + injection Hs as <- <- <-. rewrite sp_recv_inert in Hsp by exact Logic.I. injection Hsp as <- <-.
      split; [exact I | apply vs_ok_nil].
    + destruct (rx_busy r s).
      * injection Hs as <- <- <-. rewrite sp_recv_inert in Hsp by exact Logic.I. injection Hsp as <- <-.
        split; [exact I | apply vs_ok_nil].
      * eapply (recv_core_ok _ _ _ _ _ RPending); eauto 6.
  - injection Hs as <- <- <-. rewrite sp_recv_inert in Hsp by exact Logic.I. injection Hsp as <- <-.
    split; [exact I | apply vs_ok_nil].
Qed.

Lemma ok_Poll c f wk : step_ok_for c (Poll f wk).
Proof.
  intros s sp s1 rs w sp1 vs I Hs Hsp. cbn [step sp_step] in *.
  rewrite <- (i_futs _ _ _ I) in Hsp.
  destruct (find (fun p => N.eqb (fst p) f) (futs s)) as [[f' r]|] eqn:Hf.
  - destruct (live_rx r s) as [x|] eqn:Hl.
    + eapply (recv_core_ok _ _ _ _ _ RPending); eauto 6.
    + injection Hs as <- <- <-. rewrite sp_recv_inert in Hsp by exact Logic.I. injection Hsp as <- <-.
      split; [exact I | apply vs_ok_nil].
  - injection Hs as <- <- <-. injection Hsp as <- <-. split; [exact I | apply vs_ok_nil].
Qed.

Lemma ok_observers c o :
  match o with IsClosedS _ | IsClosedR _ | IsEmptyR _ | CapR _ => True | _ => False end -> step_ok_for c o.
Proof.
  intros Ho s sp s1 rs w sp1 vs I Hs Hsp. destruct o; try contradiction; cbn [step sp_step] in *.
  - destruct (live_tx s0 s); injection Hs as <- <- <-; injection Hsp as <- <-; (split; [exact I | apply vs_ok_nil]).
  - destruct (live_rx r s); injection Hs as <- <- <-; injection Hsp as <- <-; (split; [exact I | apply vs_ok_nil]).
  - destruct (live_rx r s); injection Hs as <- <- <-; injection Hsp as <- <-; (split; [exact I | apply vs_ok_nil]).
  - destruct (live_rx r s); injection Hs as <- <- <-; injection Hsp as <- <-; (split; [exact I | apply vs_ok_nil]).
Qed.

(* futures *)
Lemma ok_MkRecv c f r : step_ok_for c (MkRecv f r).
Proof.
  intros s sp s1 rs w sp1 vs I Hs Hsp. cbn [step sp_step] in *.
  destruct (live_rx r s) as [x|] eqn:Hl.
  - destruct (negb (r_async x)).
    + injection Hs as <- <- <-. injection Hsp as <- <-. split; [exact I | apply vs_ok_nil].
    + destruct (existsb (fun p => N.eqb (fst p) f) (futs s)).
      * injection Hs as <- <- <-. injection Hsp as <- <-. split; [exact I | apply vs_ok_nil].
      * injection Hs as <- <- <-. injection Hsp as <- <-. split; [|apply vs_ok_nil].
        constructor; cbn; try (frame I).
        -- rewrite (i_futs _ _ _ I). reflexivity.
        -- intros f0 r0 Hin. apply in_app_or in Hin. destruct Hin as [Hin|[Hin|[]]]; [eapply (i_flive _ _ _ I); eauto|].
           injection Hin as <- <-. apply live_rx_spec in Hl. destruct Hl as [H1 H2].
           unfold rx_alive. rewrite H1. exact H2.
  - injection Hs as <- <- <-. injection Hsp as <- <-. split; [exact I | apply vs_ok_nil].
Qed.

Lemma ok_DropF c f : step_ok_for c (DropF f).
Proof.
  intros s sp s1 rs w sp1 vs I Hs Hsp. cbn [step sp_step] in *.
  destruct (find (fun p => N.eqb (fst p) f) (futs s)) as [p|] eqn:Hf.
  - injection Hs as <- <- <-. injection Hsp as <- <-. split; [|apply vs_ok_nil].
    constructor; cbn; try (frame I).
    + rewrite (i_futs _ _ _ I). reflexivity.
    + intros f0 r0 Hin. apply filter_In in Hin. destruct Hin as [Hin _]. eapply (i_flive _ _ _ I); eauto.
  - injection Hs as <- <- <-. injection Hsp as <- <-. split; [exact I | apply vs_ok_nil].
Qed.

(* conversions *)
Lemma ok_ConvR c r : step_ok_for c (ConvR r).
Proof.
  intros s sp s1 rs w sp1 vs I Hs Hsp. cbn [step sp_step] in *.
  destruct (live_rx r s) as [x|] eqn:Hl.
  - destruct (rx_busy r s).
    + injection Hs as <- <- <-. injection Hsp as <- <-. split; [exact I | apply vs_ok_nil].
    + injection Hs as <- <- <-. injection Hsp as <- <-. split; [|apply vs_ok_nil].
      apply live_rx_spec in Hl. destruct Hl as [Hx Hlive].
      destruct (pair_rx _ _ _ _ _ I Hx) as [y [Hy [Hinx [Hiny HR]]]].
      apply (inv_model_only _ _ _ _ x y); auto.
      destruct HR. constructor; cbn; auto.
      intros Hl Hc. apply andb_true_iff in Hc. destruct Hc as [_ Hc]. auto.
  - injection Hs as <- <- <-. injection Hsp as <- <-. split; [exact I | apply vs_ok_nil].
Qed.
