(* Proofs/RvK3Proofs.v — the combined invariant of the K3' rendezvous model (cancel CAS under the
   lock), lifted to every reachable state with Conc.invariant_lift, and the property lemmas
   pinned in Props/C0x_k3rv.v.  Everything is for ALL thread configurations (any number of
   senders and receivers, any programs) and ALL schedules. *)
From Coq Require Import List NArith Arith Bool Lia.
From Fibre Require Import Common.Conc Chan.RvK3 Proofs.RvK3Base Proofs.RvK3Queue Proofs.RvK3Cell
  Proofs.RvK3Val Proofs.RvK3Wake Proofs.RvK3Count.
Import ListNotations.

(* ------------------------------------------------------------------ V4: only senders' payloads are handed *)
Definition V4 (cfg : list tcfg) (s : st) : Prop :=
  forall p k, was_handed s (p, k) -> is_sender cfg p = true /\ 1 <= k.

Lemma V4_step cfg s t c s' e :
  LockInv cfg s -> QInv cfg s -> CInv s -> V1 cfg s -> V4 cfg s -> step true cfg s t c = Some (s', e) -> V4 cfg s'.
Proof.
  intros LI QI [Co Cb] A B H. pose proof (S_len _ _ A t) as Lt. pose proof (L_x LI t) as Xt.
  step_cases H; rewrite Epc in Lt, Xt; cbn [xpc midop b2nat] in Lt, Xt; try discriminate Xt; try exact B.
  - intros p kk Hk. whh Hk. destruct Hk as [Hk|[Hk|[]]]; [exact (B p kk Hk)|]. inversion Hk; subst.
    assert (Hs : is_sender cfg p = true) by (unfold is_sender; rewrite Er; reflexivity).
    split; [exact Hs|]. specialize (Lt Hs). lia.
  - assert (Hn : In n (sq s)) by (rewrite E; left; reflexivity).
    destruct (in_sq_class _ _ (Q_ok _ _ QI n) Hn) as [Kn Wn].
    pose proof (Co n) as Cn. unfold cellok in Cn. rewrite Kn, Wn in Cn. rewrite Cn. cbn [opt_or].
    pose proof (in_sq_sender _ _ _ LI QI Hn) as Hs. pose proof (S_len _ _ A n Hs) as Ln.
    rewrite (qls_midop (pcs s n)) in Ln by (left; exact Kn). cbn [b2nat] in Ln.
    intros p kk Hk. whh Hk. destruct Hk as [Hk|[Hk|[]]]; [exact (B p kk Hk)|]. inversion Hk; subst.
    split; [exact Hs|lia].
Qed.

(* ------------------------------------------------------------------ the invariant *)
Record Inv (cfg : list tcfg) (s : st) : Prop := {
  I_l : LockInv cfg s;
  I_q : QInv cfg s;
  I_c : CInv s;
  I_v1 : V1 cfg s;
  I_v2 : V2 cfg s;
  I_v3 : V3 cfg s;
  I_v4 : V4 cfg s;
  I_w : WInv s;
  I_k : KInv cfg s
}.

Lemma Inv_init cfg : Inv cfg (init cfg).
Proof.
  split.
  - apply LockInv_init. - apply QInv_init. - apply CInv_init. - apply V1_init. - apply V2_init.
  - apply V3_init. - intros p k H. destruct H. - apply WInv_init. - apply KInv_init.
Qed.

Lemma Inv_step cfg s t c s' e : Inv cfg s -> step true cfg s t c = Some (s', e) -> Inv cfg s'.
Proof.
  intros [L Q C A1 A2 A3 A4 Wk K] H. split.
  - exact (@LockInv_step _ _ _ _ _ _ L H).
  - exact (QInv_step _ _ _ _ _ _ L Q H).
  - exact (CInv_step _ _ _ _ _ _ L Q C H).
  - exact (V1_step _ _ _ _ _ _ L Q C A1 H).
  - exact (V2_step _ _ _ _ _ _ L Q C A1 A2 H).
  - exact (V3_step _ _ _ _ _ _ L Q C A3 H).
  - exact (V4_step _ _ _ _ _ _ L Q C A1 A4 H).
  - exact (WInv_step Wk H).
  - exact (KInv_step _ _ _ _ _ _ L Q K H).
Qed.

Theorem Inv_reachable cfg s : reachable (sys true cfg) s -> Inv cfg s.
Proof.
  apply (invariant_lift (sys true cfg) (Inv cfg)).
  - apply Inv_init.
  - intros s0 t c s1 e HI Hs. exact (Inv_step _ _ _ _ _ _ HI Hs).
Qed.
