(* Proofs/RvK3Live.v — C05 for the K3' rendezvous model, safety form: in no reachable state is a
   thread parked on a terminal state without a token or a wake in flight; a state in which no
   thread can move (spurious park returns aside) is a final state: every thread has finished and
   dropped its handle.  So no sender and receiver are ever parked against each other, and the
   last handle of a side always releases the waiters of the other side. *)
From Coq Require Import List NArith Arith Bool Lia.
From Fibre Require Import Common.Conc Chan.RvK3 Proofs.RvK3Base Proofs.RvK3Queue Proofs.RvK3Cell
  Proofs.RvK3Val Proofs.RvK3Wake Proofs.RvK3Count Proofs.RvK3Proofs.
Import ListNotations.

(* a thread that cannot take a CGo step is finished, or parked without a token *)
Lemma stuck_is_done_or_parked cfg s u :
  Inv cfg s -> role cfg u <> None -> step true cfg s u CGo = None ->
  pcs s u = Done \/ ((pcs s u = SPark \/ pcs s u = RPark) /\ token s u = false).
Proof.
  intros HI Hr H. pose proof (L_role (I_l _ _ HI) u) as Ru. pose proof (L_x (I_l _ _ HI) u) as Xu.
  pose proof (Q_front _ _ (I_q _ _ HI) u) as Fu. pose proof (@W_ne _ (I_w _ _ HI) u) as Nu.
  unfold roleok in Ru. unfold qfront, is_sender in Fu. unfold step in H.
  destruct (role cfg u) as [[|]|] eqn:Er; [| |congruence].
  - unfold sstep, dstep, drop_start, try_lock, ret in H.
    destruct (pcs s u) eqn:Ep; cbn [spc xpc] in Ru, Xu; try discriminate Ru; try discriminate Xu; auto;
      repeat (break_match H); try discriminate H; try congruence.
    right. auto.
  - unfold rstep, dstep, drop_start, try_lock, ret in H.
    destruct (pcs s u) eqn:Ep; cbn [rpc xpc] in Ru, Xu; try discriminate Ru; try discriminate Xu; auto;
      repeat (break_match H); try discriminate H; try congruence.
    right. auto.
Qed.

(* a thread that owes a wake can always move *)
Lemma owing_is_enabled cfg s t u :
  Inv cfg s -> owes (pcs s t) u -> step true cfg s t CGo <> None.
Proof.
  intros HI Ho. pose proof (L_role (I_l _ _ HI) t) as Rt. pose proof (Q_front _ _ (I_q _ _ HI) t) as Ft.
  pose proof (@W_ne _ (I_w _ _ HI) t) as Nt.
  unfold roleok in Rt. unfold qfront, is_sender in Ft. unfold step.
  destruct (role cfg t) as [[|]|] eqn:Er.
  - unfold sstep, dstep, ret. destruct (pcs s t) eqn:Ep; cbn [spc owes] in *; try discriminate Rt; try contradiction;
      repeat match goal with |- context [match ?x with _ => _ end] => destruct x eqn:? end;
      try contradiction; try congruence; discriminate.
  - unfold rstep, dstep, ret. destruct (pcs s t) eqn:Ep; cbn [rpc owes] in *; try discriminate Rt; try contradiction;
      repeat match goal with |- context [match ?x with _ => _ end] => destruct x eqn:? end;
      try contradiction; try congruence; discriminate.
  - rewrite Rt in Ho. contradiction.
Qed.

Section Live.
  Variable cfg : list tcfg.
  Variable s : st.
  Hypothesis HR : reachable (sys true cfg) s.

  Let HI : Inv cfg s := Inv_reachable cfg s HR.

  (* no lost wakeup, in every reachable state: a thread standing at `park` whose state is
     already terminal has its token, or the thread that published the state still holds the
     wake handle and is about to unpark it *)
  Theorem wake_owed u :
    (pcs s u = SPark \/ pcs s u = RPark) -> wstate s u <> W ->
    token s u = true \/ exists t, owes (pcs s t) u /\ step true cfg s t CGo <> None.
  Proof.
    intros Hp Hw. assert (Hpp : parkpc (pcs s u) = true) by (destruct Hp as [-> | ->]; reflexivity).
    destruct (W_owed (I_w _ _ HI) Hpp Hw) as [Ht|[t Ho]]; [left; exact Ht|].
    right. exists t. split; [exact Ho|]. exact (owing_is_enabled _ _ _ _ HI Ho).
  Qed.

  Hypothesis HQ : quiescent_ns true cfg s.

  (* in a quiescent state a parked thread is still WAITING and its record is linked *)
  Theorem quiescent_parked_waiting u :
    parked s u -> wstate s u = W /\ (In u (sq s) \/ In u (rq s)).
  Proof.
    intros [Hp Ht].
    assert (Hw : wstate s u = W).
    { destruct (wstate s u) eqn:Ew; [reflexivity| | |];
        (destruct (wake_owed u Hp) as [X|[t [_ X]]]; [congruence|congruence|exfalso; apply X; exact (proj1 (HQ t))]). }
    split; [exact Hw|]. pose proof (Q_ok _ _ (I_q _ _ HI) u) as Qu. unfold qok in Qu.
    destruct Hp as [Hp|Hp]; rewrite Hp in Qu; cbn [qrel] in Qu; [left|right]; tauto.
  Qed.

  Lemma quiescent_thread u : u < length cfg -> pcs s u = Done \/ parked s u.
  Proof.
    intros Hu. assert (Hr : role cfg u <> None).
    { unfold role. destruct (nth_error cfg u) as [[?|?]|] eqn:E; try discriminate. apply nth_error_None in E. lia. }
    destruct (stuck_is_done_or_parked _ _ _ HI Hr (proj1 (HQ u))) as [H|[H1 H2]]; [left; exact H|right; split; assumption].
  Qed.

  (* deadlock freedom: the only quiescent states are the final ones *)
  Theorem deadlock_free : all_done cfg s.
  Proof.
    intros u Hu. destruct (quiescent_thread u Hu) as [H|Hpk]; [exact H|]. exfalso.
    destruct (quiescent_parked_waiting u Hpk) as [Hw Hin].
    destruct (I_q _ _ HI) as [N1 N2 X Qo Qf]. destruct (I_k _ _ HI) as [K1 K2 Kc K3 K4].
    destruct Hin as [Hin|Hin].
    - (* a parked sender: some receiver has not dropped its handle; it cannot be finished, so it
         is parked too -- in the other queue *)
      assert (Hrc : rcount s <> 0).
      { intros Hz. destruct (K3 Hz) as [Hs|[t [ws [Hp Hr]]]]; [rewrite Hs in Hin; destruct Hin|].
        pose proof (Qf t) as Ft. unfold qfront in Ft. rewrite Hp in Ft. 
        assert (Hst : is_sender cfg t = false).
        { unfold is_sender, is_receiver in *. destruct (role cfg t) as [[|]|]; congruence. }
        rewrite Hst in Ft. pose proof (proj1 (HQ t)) as Hq. unfold step in Hq. unfold is_receiver in Hr.
        destruct (role cfg t) as [[|]|]; try discriminate. unfold rstep, dstep, ret in Hq. rewrite Hp in Hq.
        destruct (sq s); [congruence|discriminate Hq]. }
      rewrite K2 in Hrc. apply cnt_pos in Hrc. destruct Hrc as [r [Hr Ha]]. unfold alive_r in Ha.
      apply andb_true_iff in Ha. destruct Ha as [Ha1 Ha2].
      destruct (quiescent_thread r Hr) as [Hd|Hpr]; [rewrite Hd in Ha2; discriminate|].
      destruct (quiescent_parked_waiting r Hpr) as [_ [Hi|Hi]].
      + pose proof (in_sq_sender _ _ _ (I_l _ _ HI) (I_q _ _ HI) Hi) as Hs.
        rewrite (sender_not_receiver _ _ Hs) in Ha1. discriminate.
      + destruct X as [X|X]; [rewrite X in Hin; destruct Hin|rewrite X in Hi; destruct Hi].
    - assert (Hsc : scount s <> 0).
      { intros Hz. destruct (K4 Hz) as [Hs|[t [ws [Hp Hr]]]]; [rewrite Hs in Hin; destruct Hin|].
        pose proof (Qf t) as Ft. unfold qfront in Ft. rewrite Hp, Hr in Ft.
        pose proof (proj1 (HQ t)) as Hq. unfold step in Hq. unfold is_sender in Hr.
        destruct (role cfg t) as [[|]|]; try discriminate. unfold sstep, dstep, ret in Hq. rewrite Hp in Hq.
        destruct (rq s); [congruence|discriminate Hq]. }
      rewrite K1 in Hsc. apply cnt_pos in Hsc. destruct Hsc as [p [Hp Ha]]. unfold alive_s in Ha.
      apply andb_true_iff in Ha. destruct Ha as [Ha1 Ha2].
      destruct (quiescent_thread p Hp) as [Hd|Hpp]; [rewrite Hd in Ha2; discriminate|].
      destruct (quiescent_parked_waiting p Hpp) as [_ [Hi|Hi]].
      + destruct X as [X|X]; [rewrite X in Hi; destruct Hi|rewrite X in Hin; destruct Hin].
      + pose proof (in_rq_receiver _ _ _ (I_l _ _ HI) (I_q _ _ HI) Hi) as Hs.
        unfold is_sender, is_receiver in *. destruct (role cfg p) as [[|]|]; congruence.
  Qed.
End Live.
