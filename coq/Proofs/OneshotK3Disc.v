(* Proofs/OneshotK3Disc.v — the disconnect protocol of the K3 oneshot model: Disconnected on the open
   receiver handle only after the last sender left (every cfg); with the repair of F-36 (fixA) only
   when everything written was already received, and never a value afterwards; CLOSED only once one
   side is gone; Closed(value) only after receiver_dropped.  All N, programs and schedules. *)
From Coq Require Import List Arith Bool Lia.
From Fibre Require Import Common.Conc Chan.OneshotK3 Proofs.OneshotK3Base Proofs.OneshotK3Life
     Proofs.OneshotK3Slot Proofs.OneshotK3Vals.
Import ListNotations.

(* no value is returned after Disconnected was reported (on the open handle) *)
Fixpoint nvad (seen : bool) (l : list rres) : bool :=
  match l with
  | [] => true
  | r :: t => negb (seen && is_val r) && nvad (seen || is_disc r) t
  end.

Lemma nvad_snoc b l x : nvad b (l ++ [x]) = nvad b l && negb ((b || existsb is_disc l) && is_val x).
Proof.
  revert b. induction l as [|r t IH]; intros b; cbn [app nvad existsb].
  - rewrite orb_false_r, andb_true_r. reflexivity.
  - rewrite IH. rewrite <- andb_assoc. rewrite orb_assoc. reflexivity.
Qed.

Lemma nvad_app_local b l l' : forallb is_local l' = true -> nvad b (l ++ l') = nvad b l.
Proof.
  revert l. induction l' as [|x t IH]; intros l H.
  - rewrite app_nil_r. reflexivity.
  - cbn in H. apply andb_prop in H. destruct H as [H1 H2].
    replace (l ++ x :: t) with ((l ++ [x]) ++ t) by (rewrite <- app_assoc; reflexivity).
    rewrite IH by exact H2. rewrite nvad_snoc.
    replace (is_val x) with false by (destruct x; cbn in *; congruence).
    rewrite andb_false_r. apply andb_true_r.
Qed.

Lemma local_nodisc l : forallb is_local l = true -> existsb is_disc l = false.
Proof. intros H. pose proof (dseen_app_local [] l H) as X. cbn in X. exact X. Qed.
Lemma local_noval l : forallb is_local l = true -> flat_map rres_val l = [].
Proof. intros H. pose proof (vals_app_local [] l H) as X. cbn in X. exact X. Qed.

Section Disc.
  Variable C : cfg.
  Variable n : nat.
  Variable sprog : nat -> sop.

  Notation inr := (inr n).
  Notation LInv := (LInv n).
  Notation GInv := (GInv n sprog).

  Definition rdz (p : rpc_t) : bool :=
    match p with CCas1 _ | CCas2 _ | CLock _ | CUnlock _ | RArc | RShLoad | RDone => true | _ => false end.
  Definition rdsz (p : spc_t) : bool := match p with DLock | SBack | DCas2 => true | _ => false end.

  Record DInv (s : st) : Prop := mkDInv {
    d_rc : rclosed s = true -> rd s = true;
    d_rd : rdz (rpc s) = true -> rd s = true;
    d_rds : forall t, rdsz (spc s t) = true -> rd s = true;
    d_dr : drops s <> [] -> rd s = true;
    d_k1 : cs s = Closed -> cnt s = 0 \/ rd s = true;
    d_e1 : forall t, In (t, SClosedE) (slog s) -> rd s = true;
    d_cnt : dseen s = true -> cnt s = 0;
    d_tl : fixA C = true -> forall c, rpc s = TLock c -> dseen s = false;
    d_tu : fixA C = true -> forall c v, rpc s = TUnlock c (Some v) -> dseen s = false;
    d_nv : fixA C = true -> nvad false (rlog s) = true;
    d_fin : fixA C = true -> dseen s = true -> cs s = Taken \/ cs s = Closed;
    d_drain : fixA C = true -> dseen s = true -> wrote s = returned s
  }.

  Lemma DInv_init rp : DInv (init n rp).
  Proof.
    constructor; cbn; intros; try discriminate; try congruence; auto; try contradiction.
  Qed.

  (* when Disconnected is reported: the receiver is open, not a taker, nothing in hand *)
  Lemma disc_drained s :
    SInv s -> GInv s -> DInv s ->
    rd s = false -> rtaker (rpc s) = false -> inhand s = [] -> cs s <> Sent -> cs s <> Writing ->
    wrote s = returned s.
  Proof.
    intros V G D Rd Rt Ih Cs1 Cs2.
    pose proof (g_hand _ _ _ G) as E1. pose proof (g_cons _ _ _ G) as E2.
    rewrite Ih, app_nil_r in E1.
    assert (Dr : drops s = []).
    { destruct (drops s) eqn:E; [reflexivity|]. exfalso.
      assert (X : rd s = true) by (apply (d_dr _ D); rewrite E; discriminate).
      congruence. }
    assert (Sl : slot s = None).
    { destruct (slot s) eqn:E; [exfalso|reflexivity].
      destruct (cs s) eqn:Cs; try congruence.
      - rewrite (v_ec _ V (or_introl Cs)) in E. discriminate.
      - destruct (v_tk3 _ V Cs) as [X|[t X]]; [rewrite E; discriminate|congruence|].
        assert (rd s = true) by (apply (d_rds _ D t); rewrite X; reflexivity). congruence.
      - rewrite (v_ec _ V (or_intror Cs)) in E. discriminate. }
    unfold dropped, slot_l in E2. rewrite Dr, Sl in E2. cbn in E2. rewrite app_nil_r in E2. congruence.
  Qed.

  Ltac dl :=
    unfold dseen, returned, inhand in *; fsimpl;
    try match goal with Hl : forallb is_local ?l = true |- _ => rewrite ?(nvad_app_local false _ l Hl) in * end;
    rewrite ?existsb_app, ?flat_map_app, ?nvad_snoc in *;
    cbn [existsb is_disc is_val flat_map rres_val app orb andb negb] in *;
    try match goal with Hl1 : existsb is_disc ?l = false, Hl2 : flat_map rres_val ?l = [] |- _ => rewrite ?Hl1, ?Hl2 in * end;
    rewrite ?orb_false_r, ?orb_true_r, ?andb_true_r, ?andb_false_r, ?app_nil_r in *.

  Ltac prep :=
    intros; fsimpl; pcsimpl; norm; spec_refl;
    repeat (match goal with
            | I : ?P -> _, H : ?P |- _ => match type of P with Prop => specialize (I H) end
            end; spec_refl);
    repeat match goal with
           | H : _ \/ _ |- _ => destruct H as [H|H]
           | H : exists _, _ |- _ => destruct H as [? H]
           | H : _ /\ _ |- _ => destruct H
           end.

  Ltac dsolve1 :=
    rewrite ?andb_true_r, ?orb_false_r, ?app_nil_r; norm; try contradiction;
    try discriminate; try congruence; try (exfalso; congruence); eauto; try lia;
    try (match goal with
         | Hl : forallb is_local ?l = true |- _ =>
             rewrite ?(dseen_app_local _ l Hl), ?(vals_app_local _ l Hl), ?(nvad_app_local false _ l Hl) in *
         end; first [congruence | solve [eauto]]);
    try (match goal with
         | X : _ -> _ -> wrote ?s = _ |- wrote ?s = _ => apply X; congruence
         | X : _ -> wrote ?s = _ |- wrote ?s = _ => apply X; congruence
         end);
    try (match goal with E : _ = false |- _ => rewrite E in *; cbn [andb orb negb] in *; rewrite ?andb_true_r; congruence end);
    try (match goal with |- ?b = false => destruct b eqn:?; [exfalso|reflexivity] end; prep; congruence).

  Lemma DInv_rstep s s' e : LInv s -> SInv s -> GInv s -> DInv s -> rstep C s = Some (s', e) -> DInv s'.
  Proof.
    intros L V G D H.
    pose proof (disc_drained s V G D) as Hdd.
    assert (Hrdf : rclosed s = false -> rfin (rpc s) = false -> rd s = false).
    { intros A B. destruct (rd s) eqn:E; [|reflexivity]. destruct (l_rd _ _ L E); congruence. }
    destruct (fixA C) eqn:FA;
    rstep_cases H; norm; try exact D;
    destruct L as [Irng Ird Iopen Iw1 Iwu Iw3 Idcas2 Itk Itkr Itku1 Icl Itku2 Itcas Iunr Iabs Itclose Ilast Icnt Iarc Ish1a Ish1b Ish2a Ish2b];
    destruct V as [Vec Vsent Vwr1 Vwr Vtk1 Vtk2 Vtk3 Vshd Vunr];
    destruct D as [Drc Drd Drds Ddr Dk1 De1 Dcnt Dtl Dtu Dnv Dfin Ddrain];
    repeat match goal with b : bool |- _ => destruct b end;
    repeat match goal with E : ?x = _ |- _ => is_var x; lazymatch type of x with tctx => subst x | option nat => subst x | wsite => subst x end end;
    unfold dseen, returned, inhand in *;
    try match goal with Hl : forallb is_local ?l = true |- _ =>
      pose proof (local_nodisc l Hl) as Hl1; pose proof (local_noval l Hl) as Hl2 end;
    rewrite ?FA in *; rewrite ?Epc in *; pcsimpl; spec_refl; cbv iota in *;
    try match goal with I : forall c v, TUnlock ?c0 (Some ?v0) = TUnlock c (Some v) -> _ |- _ => pose proof (I c0 v0 eq_refl) end;
    try match goal with I : forall c, TLock ?c0 = TLock c -> _ |- _ => pose proof (I c0 eq_refl) end;
    try (exfalso;
         match goal with
         | I : forall c0 : tctx, TNone ?c <> TNone c0 /\ _ |- _ => exact (proj1 (I c) eq_refl)
         | I : forall c0 : tctx, TUnlock ?c None <> TNone c0 /\ _ |- _ => exact (proj2 (I c) eq_refl)
         | I : forall c0 : tctx, TFLoad ?c <> TFLoad c0 /\ _ |- _ => exact (proj1 (I c) eq_refl)
         | I : forall c0 : tctx, TFCnt ?c <> TFLoad c0 /\ _ |- _ => exact (proj2 (I c) eq_refl)
         end).
    all: constructor; dl; prep; dsolve1.
  Qed.
  Ltac splitvars :=
    repeat match goal with
           | u : nat |- _ => lazymatch goal with
                             | |- context [upd _ ?t0 _ u] => split_thr u t0
                             | H : context [upd _ ?t0 _ u] |- _ => split_thr u t0
                             end
           end.

  Ltac innorm :=
    repeat match goal with
           | H : In _ (_ ++ [_]) |- _ => apply in_app_iff in H; destruct H as [H|[H|[]]]
           | H : (_, _) = (_, _) |- _ => inversion H; clear H; subst
           end.

  Lemma DInv_sstep s t s' e :
    inr t -> LInv s -> SInv s -> GInv s -> DInv s -> sstep sprog s t = Some (s', e) -> DInv s'.
  Proof.
    intros Rt L V G D H.
    assert (Hrelr : arc s = 0 -> rdz (rpc s) = true).
    { intros A. pose proof (proj1 (arc0_rel n s L A)) as X. destruct (rpc s); cbn in *; congruence. }
    destruct (fixA C) eqn:FA;
    sstep_cases H; norm; try exact D;
    destruct L as [Irng Ird Iopen Iw1 Iwu Iw3 Idcas2 Itk Itkr Itku1 Icl Itku2 Itcas Iunr Iabs Itclose Ilast Icnt Iarc Ish1a Ish1b Ish2a Ish2b];
    destruct V as [Vec Vsent Vwr1 Vwr Vtk1 Vtk2 Vtk3 Vshd Vunr];
    destruct D as [Drc Drd Drds Ddr Dk1 De1 Dcnt Dtl Dtu Dnv Dfin Ddrain];
    repeat match goal with E : ?x = _ |- _ => is_var x; lazymatch type of x with tctx => subst x | option nat => subst x | wsite => subst x end end;
    pose proof (Iw1 t) as Iw1t; pose proof (Ilast t) as Ilastt; pose proof (Drds t) as Drdst;
    pose proof (Ish2a t) as Ish2at;
    unfold dseen, returned, inhand in *;
    cbv beta in *; rewrite ?FA in *; rewrite Epc in *; pcsimpl; spec_refl; cbv iota in *.
    all: constructor; dl; intros; splitvars; rewrite ?Epc in *; innorm; prep; dsolve1.
  Qed.

  Lemma DInv_step s t c s' e :
    LInv s -> SInv s -> GInv s -> DInv s -> step C n sprog s t c = Some (s', e) -> DInv s'.
  Proof.
    intros L V G D H. unfold step in H. destruct t as [|k].
    - exact (DInv_rstep _ _ _ L V G D H).
    - destruct (Nat.leb (S k) n) eqn:E; [|discriminate].
      apply Nat.leb_le in E. apply (DInv_sstep s (S k) s' e); [unfold OneshotK3Life.inr; lia|assumption..].
  Qed.

  Definition Inv2 (s : st) : Prop := Inv1 n sprog s /\ DInv s.

  Theorem Inv2_reachable rp s : reachable (sys C n sprog rp) s -> Inv2 s.
  Proof.
    apply (invariant_lift (sys C n sprog rp) Inv2).
    - split; [split; [apply LInv_init|split; [apply SInv_init|apply GInv_init]]|apply DInv_init].
    - intros s0 t c s1 e [[L [V G]] D] H. split; [split; [|split]|].
      + exact (LInv_step C n sprog s0 t c s1 e L H).
      + exact (SInv_step C n sprog s0 t c s1 e L V H).
      + exact (GInv_step C n sprog s0 t c s1 e L V G H).
      + exact (DInv_step s0 t c s1 e L V G D H).
  Qed.

  Section Thms.
    Variable rp : list rop.
    Variable s : st.
    Hypothesis R : reachable (sys C n sprog rp) s.

    (* Disconnected is reported on the open receiver handle only after the last sender left: every
       sender thread has passed its fetch_sub (so dropping one of several clones disconnects nothing) *)
    Theorem k3_disc_after_last_sender :
      dseen s = true -> cnt s = 0 /\ forall t, inr t -> pre_fsub (spc s t) = false.
    Proof.
      destruct (Inv2_reachable rp s R) as [[L _] D]. intros H.
      pose proof (d_cnt _ D H) as Z. split; [exact Z|].
      intros t Ht. rewrite (l_cnt _ _ L) in Z. exact (cntf_zero _ _ Z t Ht).
    Qed.

    (* CLOSED only once one side is entirely gone *)
    Theorem k3_closed_side_gone : cs s = Closed -> cnt s = 0 \/ rd s = true.
    Proof. destruct (Inv2_reachable rp s R) as [_ D]. apply (d_k1 _ D). Qed.

    (* a send answers Closed only after the receiver was dropped / closed *)
    Theorem k3_closed_err_receiver_gone t : In (t, SClosedE) (slog s) -> rd s = true.
    Proof. destruct (Inv2_reachable rp s R) as [_ D]. apply (d_e1 _ D). Qed.

    (* values destroyed by channel code: only after the receiver is gone *)
    Theorem k3_drop_only_after_receiver_gone : drops s <> [] -> rd s = true.
    Proof. destruct (Inv2_reachable rp s R) as [_ D]. apply (d_dr _ D). Qed.

    (* with the repair of F-36: Disconnected only once everything ever written has been returned to the
       receiver, the state machine is in a terminal state (no send can succeed any more) ... *)
    Theorem k3_disc_drained :
      fixA C = true -> dseen s = true ->
      wrote s = returned s /\ (cs s = Taken \/ cs s = Closed) /\ incl (oks s) (returned s).
    Proof.
      destruct (Inv2_reachable rp s R) as [[_ [_ G]] D]. intros F H.
      pose proof (d_drain _ D F H) as E. split; [exact E|split; [exact (d_fin _ D F H)|]].
      intros x Hx. rewrite <- E. apply (g_oks _ _ _ G x Hx).
    Qed.

    (* ... and no value is returned after it *)
    Theorem k3_no_value_after_disc : fixA C = true -> nvad false (rlog s) = true.
    Proof. destruct (Inv2_reachable rp s R) as [_ D]. apply (d_nv _ D). Qed.
  End Thms.
End Disc.

(* ---------------------------------------------------------------- the code before the repair (cfg 0):
   F-36-oneshot.  try_recv loads state == EMPTY, the only sender sends its value and leaves
   (sender_count 1 -> 0), try_recv loads sender_count == 0, ignores the failed CAS EMPTY->CLOSED and
   reports Disconnected; the next try_recv returns the value. *)
Definition cfg0 : cfg := mkCfg false false.
Definition sys_f36 : system := sys cfg0 1 (fun _ => SSend) [RTry; RTry].
Definition sch_f36 : list (nat * unit) :=
  map (fun t => (t, tt)) ([0] ++ repeat 1 13 ++ [0; 0] ++ [0; 0; 0; 0]).
Definition st_f36 : st := fst (run sys_f36 (Conc.init sys_f36) sch_f36).

Lemma f36_witness :
  rlog st_f36 = [RDisc; RVal 1] /\ oks st_f36 = [1] /\ slog st_f36 = [(1, SOk)] /\ nvad false (rlog st_f36) = false.
Proof. vm_compute. repeat split. Qed.

Lemma f36_reachable : reachable sys_f36 st_f36.
Proof. exists sch_f36. unfold st_f36. reflexivity. Qed.

(* the pending value is reported Disconnected while it sits in the slot (state SENT) *)
Definition sch_f36a : list (nat * unit) := map (fun t => (t, tt)) ([0] ++ repeat 1 13 ++ [0; 0]).
Definition st_f36a : st := fst (run sys_f36 (Conc.init sys_f36) sch_f36a).
Lemma f36a_witness :
  dseen st_f36a = true /\ cs st_f36a = Sent /\ slot st_f36a = Some 1 /\ oks st_f36a = [1] /\ returned st_f36a = [].
Proof. vm_compute. repeat split. Qed.
Lemma f36a_reachable : reachable sys_f36 st_f36a.
Proof. exists sch_f36a. unfold st_f36a. reflexivity. Qed.

Theorem k3_disc_full_refuted_cfg0 :
  ~ (forall n sprog rp s, reachable (sys cfg0 n sprog rp) s ->
       nvad false (rlog s) = true /\ (dseen s = true -> incl (oks s) (returned s))).
Proof.
  intros H. destruct (H 1 (fun _ => SSend) [RTry; RTry] st_f36 f36_reachable) as [X _].
  destruct f36_witness as [_ [_ [_ Y]]]. rewrite X in Y. discriminate Y.
Qed.
