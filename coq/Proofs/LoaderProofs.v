(* Proofs/LoaderProofs.v — all-schedules invariants of the E-LOADER section model (Cache/Loader.v). *)
From Fibre Require Import Common.Base Cache.Loader.
Import ListNotations.
Open Scope N_scope.

(* ------------------------------------------------------------------ basics *)
Lemma updn_eq {A} (m : nat -> A) k v : updn m k v k = v.
Proof. unfold updn. now rewrite Nat.eqb_refl. Qed.
Lemma updn_neq {A} (m : nat -> A) k v x : x <> k -> updn m k v x = m x.
Proof. unfold updn. intros H. destruct (Nat.eqb_spec x k); congruence. Qed.
Lemma updN_eq {A} (m : N -> A) k v : updN m k v k = v.
Proof. unfold updN. now rewrite N.eqb_refl. Qed.
Lemma updN_neq {A} (m : N -> A) k v x : x <> k -> updN m k v x = m x.
Proof. unfold updN. intros H. destruct (N.eqb_spec x k); congruence. Qed.

Lemma wake_pc cs ws c : c_pc (wake_all cs ws c) = c_pc (cs c).
Proof. unfold wake_all. destruct (existsb _ ws); reflexivity. Qed.
Lemma wake_prog cs ws c : c_prog (wake_all cs ws c) = c_prog (cs c).
Proof. unfold wake_all. destruct (existsb _ ws); reflexivity. Qed.
Lemma wake_token_keep cs ws c : c_token (cs c) = true -> c_token (wake_all cs ws c) = true.
Proof. unfold wake_all. destruct (existsb _ ws); auto. Qed.
Lemma wake_token_in cs ws c : In c ws -> c_token (wake_all cs ws c) = true.
Proof.
  unfold wake_all. intros H. destruct (existsb (Nat.eqb c) ws) eqn:E; [reflexivity|].
  exfalso. assert (X : existsb (Nat.eqb c) ws = true) by (apply existsb_exists; exists c; split; [assumption|apply Nat.eqb_refl]).
  congruence.
Qed.

Definition premark (p : tpc) : bool :=
  match p with TLoad | TWrite _ _ | TUnmark _ => true | _ => false end.

Definition mkwr (f : nat) (k v c : N) : wr := {| w_fut := f; w_key := k; w_val := v; w_cost := c |}.

(* what the task's program counter says about the future's ghost fields and state *)
Definition tinv (ws : list wr) (f : nat) (F : future) : Prop :=
  match f_tpc F with
  | TLoad => f_state F = Computing /\ f_loaded F = None /\ f_written F = None /\ f_unmarked F = None /\ f_ncomplete F = 0%nat
  | TWrite v c => f_state F = Computing /\ f_loaded F = Some (v, c) /\ f_written F = None /\ f_unmarked F = None /\ f_ncomplete F = 0%nat
  | TUnmark v => f_state F = Computing /\ (exists c, f_loaded F = Some (v, c) /\ In (mkwr f (f_key F) v c) ws)
                 /\ f_written F <> None /\ f_unmarked F = None /\ f_ncomplete F = 0%nat
  | TComplete v => f_state F = Computing /\ (exists c, f_loaded F = Some (v, c) /\ In (mkwr f (f_key F) v c) ws)
                 /\ f_written F <> None /\ f_unmarked F <> None /\ f_ncomplete F = 0%nat
  | TDone => exists v, f_state F = Complete v /\ f_waiters F = []
                 /\ (exists c, f_loaded F = Some (v, c) /\ In (mkwr f (f_key F) v c) ws)
                 /\ f_written F <> None /\ f_unmarked F <> None /\ f_ncomplete F = 1%nat
  end.

Record Inv (cf : config) (s : state) : Prop := {
  I_wf   : forall f, (nfut s <= f)%nat -> futs s f = None;
  I_ref  : forall c, match c_pc (callers s c) with
                     | CWait k f | CPark k f => exists F, futs s f = Some F /\ f_key F = k
                     | _ => True
                     end;
  I_pend : forall k f, pending s k = Some f -> exists F, futs s f = Some F /\ f_key F = k;
  I_mark : forall f F, futs s f = Some F -> premark (f_tpc F) = true -> pending s (f_key F) = Some f;
  I_task : forall f F, futs s f = Some F -> tinv (writes s) f F;
  I_park : forall c k f, c_pc (callers s c) = CPark k f ->
             (exists F, futs s f = Some F /\ f_state F = Computing /\ In c (f_waiters F))
             \/ c_token (callers s c) = true;
  I_ret  : forall r f, In r (rets s) -> r_via r = Some f ->
             exists F, futs s f = Some F /\ f_key F = r_key r /\ f_state F = Complete (r_val r);
  I_timeF : forall f F, futs s f = Some F ->
             (f_read_at F < gt s)%nat /\ (f_created F < gt s)%nat
             /\ (forall w, f_written F = Some w -> (w < gt s)%nat)
             /\ (forall u, f_unmarked F = Some u -> (u < gt s)%nat);
  I_timeC : forall c k r rs, c_pc (callers s c) = CStripe k r rs -> (r < gt s)%nat;
  I_fresh : c_ttl cf <> Some 0 -> forall f F w, futs s f = Some F -> f_written F = Some w ->
             is_fresh (clock s) (map s (f_key F)) = true \/ (w < last_reset s (f_key F))%nat;
  I_lateC : c_ttl cf <> Some 0 -> forall c k r rs, c_pc (callers s c) = CStripe k r rs ->
             forall f F w, futs s f = Some F -> f_key F = k -> f_written F = Some w ->
             (w < r)%nat -> (w < rs)%nat;
  I_lateF : c_ttl cf <> Some 0 -> forall f1 f2 F1 F2 w, f1 <> f2 ->
             futs s f1 = Some F1 -> futs s f2 = Some F2 -> f_key F1 = f_key F2 ->
             f_written F1 = Some w -> (w < f_read_at F2)%nat -> (w < f_reset_seen F2)%nat;
  I_seq  : forall f1 f2 F1 F2, (f1 < f2)%nat -> futs s f1 = Some F1 -> futs s f2 = Some F2 ->
             f_key F1 = f_key F2 -> exists u, f_unmarked F1 = Some u /\ (u < f_created F2)%nat;
  (* a marker always designates a load whose task has not yet removed it: not completed *)
  I_pmark : forall k f F, pending s k = Some f -> futs s f = Some F -> premark (f_tpc F) = true
}.

(* ------------------------------------------------------------------ step inversion *)
Lemma step_inv cf s t b s' : step cf s t b = Some s' ->
  exists s1, s' = w_gt s1 (S (gt s1)) /\
    match t with Caller c => caller_step cf s c b = Some s1 | Task f => task_step cf s f = Some s1 end.
Proof.
  unfold step. destruct t as [c|f].
  - destruct (caller_step cf s c b) as [s1|]; [|discriminate]. intros [= <-]. eauto.
  - destruct (task_step cf s f) as [s1|]; [|discriminate]. intros [= <-]. eauto.
Qed.

Ltac red_st :=
  cbn [finish push_out push_ret set_caller set_fut create_future reset_key reset_everything
       reset_keys remove_key wheel_cancel wheel_schedule wheel_advance
       w_clock w_map w_pending w_futs w_nfut w_callers w_wheel w_runs w_gt w_reset
       w_outs w_rets w_writes mkst
       clock map pending futs nfut callers timers tick next_timer nruns runs gt reset_k reset_all
       runs_since outs rets writes
       f_key f_state f_waiters f_tpc f_read_at f_reset_seen f_created f_loaded f_written f_unmarked
       f_ncomplete fw_state fw_tpc fw_loaded fw_written fw_unmarked fw_ncomplete new_future mkf
       c_prog c_pc c_token r_caller r_key r_via r_val] in *.

(* split "caller_step ... = Some s1" (H) into its 6 source-level cases, substituting s1 *)
Ltac caller_cases H :=
  unfold caller_step in H;
  match type of H with context [c_pc ?C] => destruct (c_pc C) as [|k0 r0 rs0|k0 f0|k0 f0] eqn:Epc end;
  [ match type of H with context [c_prog ?C] => destruct (c_prog C) as [|o rest] eqn:Eprog end;
    [discriminate|]; injection H as <-
  | match type of H with context [pending ?s ?k] => destruct (pending s k) as [fp|] eqn:Epend end;
    injection H as <-
  | match type of H with context [futs ?s ?f] => destruct (futs s f) as [F0|] eqn:EF0 end;
    [|discriminate];
    match goal with E : futs _ _ = Some ?F |- _ => destruct (f_state F) as [|v0] eqn:Est0 end; injection H as <-
  | match type of H with context [c_token ?C] => destruct (c_token C) eqn:Etok end;
    [ injection H as <-
    | match type of H with context [if ?b then _ else _] => destruct b end;
      [injection H as <-|discriminate] ] ].

(* split start_op into its 10 cases *)
Ltac op_cases :=
  match goal with o : op |- _ => destruct o as [k1|k1 v1 c1|k1|k1|dt1|] end;
  unfold start_op in *; cbv beta iota in *;
  [ match goal with |- context [classify ?cf ?n ?e] => destruct (classify cf n e) as [vh|vs|] eqn:Ecl end;
    [ | match goal with |- context [if ?b then _ else _] => destruct b end;
        [ | match goal with |- context [pending ?s ?k] => destruct (pending s k) as [fq|] eqn:Epq end ]
      | ]
  | | | | | ].

Ltac task_cases H :=
  unfold task_step in H;
  match type of H with context [futs ?s ?f] => destruct (futs s f) as [F0|] eqn:EF0 end;
  [|discriminate];
  match goal with E : futs _ _ = Some ?F |- _ => destruct (f_tpc F) as [|vl cl|vl|vl|] eqn:Etpc end;
  [injection H as <-..|discriminate].

Ltac split_nat a b :=
  let E := fresh "E" in
  destruct (Nat.eq_dec a b) as [E|E];
  [ first [subst a | subst b | rewrite E in *]; rewrite ?Nat.eqb_refl in *
  | rewrite ?(proj2 (Nat.eqb_neq a b) E) in * ].
Ltac split_N a b :=
  let E := fresh "E" in
  destruct (N.eq_dec a b) as [E|E];
  [ first [subst a | subst b | rewrite E in *]; rewrite ?N.eqb_refl in *
  | rewrite ?(proj2 (N.eqb_neq a b) E) in * ].
Ltac neq :=
  repeat match goal with
         | |- context [Nat.eqb ?a ?b] => split_nat a b
         | H : context [Nat.eqb ?a ?b] |- _ => split_nat a b
         end.
Ltac Neq :=
  repeat match goal with
         | |- context [N.eqb ?a ?b] => split_N a b
         | H : context [N.eqb ?a ?b] |- _ => split_N a b
         end.

(* ------------------------------------------------------------------ I_wf *)
Lemma pres_wf cf s t b s' : Inv cf s -> step cf s t b = Some s' ->
  forall f, (nfut s' <= f)%nat -> futs s' f = None.
Proof.
  intros IV H. apply step_inv in H as (s1 & -> & H). pose proof (I_wf _ _ IV) as W.
  destruct t as [c|ft].
  - caller_cases H; [op_cases|..]; red_st; intros f Hf; unfold updn in *; neq; try (apply W; lia); try lia.
    all: try (rewrite W in EF0 by lia; discriminate).
  - task_cases H; red_st; intros f Hf; unfold updn; neq; try (apply W; lia);
      rewrite W in EF0 by lia; discriminate.
Qed.

(* ------------------------------------------------------------------ I_ref *)
Ltac ref_tail W HFr :=
  neq;
  [ first [ rewrite W in HFr by lia; discriminate
          | match goal with E : futs _ _ = Some _ |- _ => rewrite E in HFr; injection HFr as <- end;
            eexists; split; [reflexivity|red_st; assumption] ]
  | eauto ].
Ltac ref_others R W :=
  revert R; match goal with |- _ -> match c_pc ?C with _ => _ end => destruct (c_pc C) end; intros R; auto;
  let Fr := fresh "Fr" in let HFr := fresh "HFr" in let HKr := fresh "HKr" in
  destruct R as (Fr & HFr & HKr); ref_tail W HFr.

Lemma pres_ref cf s t b s' : Inv cf s -> step cf s t b = Some s' ->
  forall c', match c_pc (callers s' c') with
             | CWait k f | CPark k f => exists F, futs s' f = Some F /\ f_key F = k
             | _ => True
             end.
Proof.
  intros IV H. apply step_inv in H as (s1 & -> & H).
  pose proof (I_wf _ _ IV) as W. pose proof (I_ref _ _ IV) as R. pose proof (I_pend _ _ IV) as P.
  destruct t as [c|ft].
  - pose proof (R c) as Rc.
    caller_cases H; [op_cases|..]; red_st; intros c'; unfold updn in *;
      (destruct (Nat.eq_dec c' c) as [->|Ec];
       [ rewrite ?Nat.eqb_refl; red_st | rewrite ?(proj2 (Nat.eqb_neq c' c) Ec); specialize (R c') ]).
    all: try exact Logic.I.
    all: try assumption.
    all: try solve [ref_others R W].
    + eauto.
    + rewrite Nat.eqb_refl. eexists; split; reflexivity.
    + rewrite Nat.eqb_refl. destruct Rc as (F & [= <-] & HK). eexists; split; [reflexivity|exact HK].
  - task_cases H; red_st; intros c'; unfold updn in *; rewrite ?wake_pc; specialize (R c'); ref_others R W.
Qed.

(* ------------------------------------------------------------------ futures only grow *)
Definition fsame (F F' : future) : Prop :=
  f_key F' = f_key F /\ f_read_at F' = f_read_at F /\ f_reset_seen F' = f_reset_seen F
  /\ f_created F' = f_created F.

Lemma fsame_refl F : fsame F F.
Proof. repeat split. Qed.

Lemma step_fsame cf s t b s' : Inv cf s -> step cf s t b = Some s' ->
  forall f F, futs s f = Some F -> exists F', futs s' f = Some F' /\ fsame F F'.
Proof.
  intros IV H. apply step_inv in H as (s1 & -> & H). pose proof (I_wf _ _ IV) as W.
  destruct t as [c|ft].
  - caller_cases H; [op_cases|..]; red_st; intros f F HF; unfold updn; neq;
      try (rewrite W in HF by lia; discriminate);
      try (rewrite EF0 in HF; injection HF as <-);
      eexists; (split; [first [eassumption|reflexivity]|]); repeat split.
  - task_cases H; red_st; intros f F HF; unfold updn; neq;
      try (rewrite EF0 in HF; injection HF as <-);
      eexists; (split; [first [eassumption|reflexivity]|]); repeat split.
Qed.

(* ------------------------------------------------------------------ I_pend *)
Lemma pres_pend cf s t b s' : Inv cf s -> step cf s t b = Some s' ->
  forall k f, pending s' k = Some f -> exists F, futs s' f = Some F /\ f_key F = k.
Proof.
  intros IV H. pose proof (step_fsame _ _ _ _ _ IV H) as M.
  apply step_inv in H as (s1 & -> & H).
  pose proof (I_wf _ _ IV) as W. pose proof (I_pend _ _ IV) as P.
  assert (G : forall k f, pending s k = Some f -> exists F, futs (w_gt s1 (S (gt s1))) f = Some F /\ f_key F = k).
  { intros k f Hp. destruct (P _ _ Hp) as (F & HF & HK). destruct (M _ _ HF) as (F' & HF' & HS & _).
    exists F'. split; [assumption|congruence]. }
  clear M. destruct t as [c|ft].
  - caller_cases H; [op_cases|..]; red_st; try exact G.
    all: intros k f; unfold updN, updn; Neq; try (intros [= <-]; rewrite Nat.eqb_refl; eexists; split; reflexivity).
    all: intros Hp; apply G in Hp; red_st; unfold updn in Hp; exact Hp.
  - task_cases H; red_st; try exact G.
    intros k f; unfold updN; Neq; [discriminate|]. intros Hp; apply G in Hp; red_st; exact Hp.
Qed.
(* ------------------------------------------------------------------ I_mark *)
Lemma pres_mark cf s t b s' : Inv cf s -> step cf s t b = Some s' ->
  forall f F, futs s' f = Some F -> premark (f_tpc F) = true -> pending s' (f_key F) = Some f.
Proof.
  intros IV H. apply step_inv in H as (s1 & -> & H).
  pose proof (I_wf _ _ IV) as W. pose proof (I_mark _ _ IV) as M.
  destruct t as [c|ft].
  - caller_cases H; [op_cases|..]; red_st; try exact M.
    all: intros f F; unfold updn, updN; neq.
    all: try (intros [= <-]; red_st; intros _; now rewrite ?N.eqb_refl).
    all: try (intros HF HP; Neq; [apply M in HF; [congruence|assumption] | now apply M]).
    all: try (intros HF HP; now apply M).
    intros [= <-]; red_st. now apply M.
  - task_cases H; red_st; pose proof (M _ _ EF0) as M0; rewrite Etpc in M0; cbn [premark] in M0; try specialize (M0 eq_refl).
    all: intros f F; unfold updn, updN; neq.
    all: try (intros [= <-]; red_st; first [discriminate | intros _; assumption]).
    all: try (intros HF HP; now apply M).
    intros HF HP. pose proof (M _ _ HF HP) as X. Neq; [congruence|assumption].
Qed.

(* ------------------------------------------------------------------ I_task *)
Lemma tinv_mono ws ws' f F : (forall w, In w ws -> In w ws') -> tinv ws f F -> tinv ws' f F.
Proof.
  unfold tinv. intros Hi. destruct (f_tpc F); try tauto.
  - intros (A & (c & B & C) & D). split; [assumption|]. split; [exists c; auto|assumption].
  - intros (A & (c & B & C) & D). split; [assumption|]. split; [exists c; auto|assumption].
  - intros (v & A & A' & (c & B & C) & D). exists v. split; [assumption|]. split; [assumption|].
    split; [exists c; auto|assumption].
Qed.

Lemma pres_task cf s t b s' : Inv cf s -> step cf s t b = Some s' ->
  forall f F, futs s' f = Some F -> tinv (writes s') f F.
Proof.
  intros IV H. apply step_inv in H as (s1 & -> & H).
  pose proof (I_wf _ _ IV) as W. pose proof (I_task _ _ IV) as T.
  destruct t as [c|ft].
  - caller_cases H; [op_cases|..]; red_st; try exact T.
    all: intros f F; unfold updn; neq; try apply T.
    all: intros [= <-]; try (unfold tinv; red_st; now repeat split).
    pose proof (T _ _ EF0) as T0. clear T. unfold tinv in *. red_st.
    destruct (f_tpc F0); try (destruct T0 as (_ & R); split; [reflexivity|exact R]). destruct T0 as (v & X & _). congruence.
  - task_cases H; red_st; pose proof (T _ _ EF0) as T0; unfold tinv in T0; rewrite Etpc in T0.
    all: intros f F; unfold updn; neq.
    all: try (intros HF; apply T in HF; revert HF; apply tinv_mono; intros w; simpl; tauto).
    all: intros [= <-]; unfold tinv; red_st.
    + tauto.
    + destruct T0 as (A & B & C & D & E'). repeat split; try assumption; try discriminate.
      exists cl. split; [assumption|left; reflexivity].
    + destruct T0 as (A & B & C & D & E'). repeat split; try assumption; discriminate.
    + destruct T0 as (A & B & C & D & E'). exists vl. repeat split; try assumption. now rewrite E'.
Qed.

(* ------------------------------------------------------------------ I_park *)
Definition parkinv (s : state) : Prop :=
  forall c k f, c_pc (callers s c) = CPark k f ->
    (exists F, futs s f = Some F /\ f_state F = Computing /\ In c (f_waiters F))
    \/ c_token (callers s c) = true.

Lemma pres_park cf s t b s' : Inv cf s -> step cf s t b = Some s' -> parkinv s'.
Proof.
  intros IV H. apply step_inv in H as (s1 & -> & H).
  pose proof (I_wf _ _ IV) as W. pose proof (I_park _ _ IV) as K. fold (parkinv s) in K.
  unfold parkinv in *.
  destruct t as [c|ft].
  - caller_cases H; [op_cases|..]; red_st; intros c' k f; unfold updn;
      (destruct (Nat.eq_dec c' c) as [->|Ec];
       [ rewrite ?Nat.eqb_refl; red_st; try discriminate
       | rewrite ?(proj2 (Nat.eqb_neq c' c) Ec); try apply K ]).
    all: try (intros HP; destruct (K _ _ _ HP) as [(F & HF & HS & HI)|HT]; [left|right; assumption];
              neq; [rewrite W in HF by lia; discriminate | eauto]).
    + intros [= <- <-]. left. rewrite Nat.eqb_refl. eexists. split; [reflexivity|]. red_st. split; [reflexivity|now left].
    + intros HP; destruct (K _ _ _ HP) as [(F & HF & HS & HI)|HT]; [left|right; assumption].
      neq; [|eauto]. rewrite EF0 in HF. injection HF as <-. eexists. split; [reflexivity|]. red_st.
      split; [reflexivity|now right].
  - task_cases H; red_st; intros c' k f; unfold updn; rewrite ?wake_pc.
    all: intros HP; destruct (K _ _ _ HP) as [(F & HF & HS & HI)|HT]; [|right; auto using wake_token_keep].
    all: neq; [rewrite EF0 in HF; injection HF as <- | left; eauto].
    all: try (left; eexists; split; [reflexivity|]; red_st; split; assumption).
    right. now apply wake_token_in.
Qed.

(* ------------------------------------------------------------------ Complete is final *)
Lemma tinv_computing ws f F : tinv ws f F -> f_tpc F <> TDone -> f_state F = Computing.
Proof. unfold tinv. destruct (f_tpc F); try tauto. Qed.

Lemma step_complete_stable cf s t b s' : Inv cf s -> step cf s t b = Some s' ->
  forall f F v, futs s f = Some F -> f_state F = Complete v ->
  exists F', futs s' f = Some F' /\ f_key F' = f_key F /\ f_state F' = Complete v.
Proof.
  intros IV H. apply step_inv in H as (s1 & -> & H).
  pose proof (I_wf _ _ IV) as W. pose proof (I_task _ _ IV) as T.
  destruct t as [c|ft].
  - caller_cases H; [op_cases|..]; red_st; intros f F v HF HS; unfold updn; neq;
      try (rewrite W in HF by lia; discriminate); try (rewrite EF0 in HF; injection HF as <-; congruence); eauto.
  - task_cases H; red_st; intros f F v HF HS; unfold updn; neq; eauto.
    all: rewrite EF0 in HF; injection HF as <-.
    all: pose proof (tinv_computing _ _ _ (T _ _ EF0)) as X; rewrite Etpc in X;
      rewrite X in HS by discriminate; discriminate.
Qed.

(* ------------------------------------------------------------------ I_ret *)
Definition retinv (s : state) : Prop :=
  forall r f, In r (rets s) -> r_via r = Some f ->
    exists F, futs s f = Some F /\ f_key F = r_key r /\ f_state F = Complete (r_val r).

Lemma pres_ret cf s t b s' : Inv cf s -> step cf s t b = Some s' -> retinv s'.
Proof.
  intros IV H. pose proof (step_complete_stable _ _ _ _ _ IV H) as M.
  pose proof (I_ret _ _ IV) as R. pose proof (I_ref _ _ IV) as RF.
  assert (G : forall r f, In r (rets s) -> r_via r = Some f ->
     exists F, futs s' f = Some F /\ f_key F = r_key r /\ f_state F = Complete (r_val r)).
  { intros r f Hi Hv. destruct (R _ _ Hi Hv) as (F & HF & HK & HS).
    destruct (M _ _ _ HF HS) as (F' & HF' & HK' & HS'). exists F'. repeat split; congruence. }
  clear M. apply step_inv in H as (s1 & -> & H). unfold retinv.
  destruct t as [c|ft].
  - specialize (RF c).
    caller_cases H; [op_cases|..]; red_st; try exact G.
    all: intros r f [<-|Hi]; red_st; try discriminate; try (now apply G).
    intros [= <-]. destruct RF as (F & [= <-] & HK). eauto.
  - task_cases H; red_st; exact G.
Qed.
(* ------------------------------------------------------------------ I_timeF, I_timeC *)
Definition timeF (s : state) : Prop :=
  forall f F, futs s f = Some F ->
    (f_read_at F < gt s)%nat /\ (f_created F < gt s)%nat
    /\ (forall w, f_written F = Some w -> (w < gt s)%nat)
    /\ (forall u, f_unmarked F = Some u -> (u < gt s)%nat).

Lemma timeF_weaken (F : future) g :
  ((f_read_at F < g)%nat /\ (f_created F < g)%nat
    /\ (forall w, f_written F = Some w -> (w < g)%nat)
    /\ (forall u, f_unmarked F = Some u -> (u < g)%nat)) ->
  ((f_read_at F < S g)%nat /\ (f_created F < S g)%nat
    /\ (forall w, f_written F = Some w -> (w < S g)%nat)
    /\ (forall u, f_unmarked F = Some u -> (u < S g)%nat)).
Proof.
  intros (A & B & C & D). repeat split; try lia.
  - intros w Hw. specialize (C _ Hw). lia.
  - intros u Hu. specialize (D _ Hu). lia.
Qed.

Lemma pres_timeF cf s t b s' : Inv cf s -> step cf s t b = Some s' -> timeF s'.
Proof.
  intros IV H. apply step_inv in H as (s1 & -> & H).
  pose proof (I_wf _ _ IV) as W. pose proof (I_timeF _ _ IV) as T. pose proof (I_timeC _ _ IV) as TC.
  unfold timeF.
  destruct t as [c|ft].
  - pose proof (TC c) as TCc.
    caller_cases H; [op_cases|..]; red_st; intros f F; unfold updn; neq;
      try (intros HF; apply timeF_weaken; exact (T _ _ HF)).
    all: intros [= <-]; red_st.
    all: try (specialize (TCc _ _ _ eq_refl)).
    all: try (repeat split; try lia; discriminate).
    apply timeF_weaken. red_st. exact (T _ _ EF0).
  - task_cases H; red_st; intros f F; unfold updn; neq;
      try (intros HF; apply timeF_weaken; exact (T _ _ HF)).
    all: intros [= <-]; red_st; destruct (T _ _ EF0) as (A & B & C & D).
    all: repeat split; try lia.
    all: try (intros w Hw; first [specialize (C _ Hw); lia | injection Hw as <-; lia]).
    all: try (intros u Hu; first [specialize (D _ Hu); lia | injection Hu as <-; lia]).
Qed.

Lemma pres_timeC cf s t b s' : Inv cf s -> step cf s t b = Some s' ->
  forall c k r rs, c_pc (callers s' c) = CStripe k r rs -> (r < gt s')%nat.
Proof.
  intros IV H. apply step_inv in H as (s1 & -> & H). pose proof (I_timeC _ _ IV) as TC.
  destruct t as [c|ft].
  - caller_cases H; [op_cases|..]; red_st; intros c' k r rs; unfold updn;
      (destruct (Nat.eq_dec c' c) as [->|Ec];
       [ rewrite ?Nat.eqb_refl; red_st; try discriminate
       | rewrite ?(proj2 (Nat.eqb_neq c' c) Ec); intros HP; specialize (TC _ _ _ _ HP); lia ]).
    intros [= <- <- <-]. lia.
  - task_cases H; red_st; intros c' k r rs; rewrite ?wake_pc; intros HP; specialize (TC _ _ _ _ HP); lia.
Qed.
(* ------------------------------------------------------------------ I_fresh *)
Lemma new_entry_fresh cf now v c h : c_ttl cf <> Some 0 ->
  is_fresh now (Some (new_entry cf now v c h)) = true.
Proof.
  intros Ht. unfold is_fresh, new_entry. cbn [e_exp]. destruct (c_ttl cf) as [t|].
  - assert (t <> 0) by congruence. apply orb_true_iff. right. apply N.ltb_lt. lia.
  - reflexivity.
Qed.

Definition freshinv (s : state) : Prop :=
  forall f F w, futs s f = Some F -> f_written F = Some w ->
    is_fresh (clock s) (map s (f_key F)) = true \/ (w < last_reset s (f_key F))%nat.

Lemma pres_fresh cf s t b s' : c_ttl cf <> Some 0 -> Inv cf s -> step cf s t b = Some s' -> freshinv s'.
Proof.
  intros Ht IV H. apply step_inv in H as (s1 & -> & H).
  pose proof (I_wf _ _ IV) as W. pose proof (I_fresh _ _ IV Ht) as M. pose proof (I_timeF _ _ IV) as T.
  fold (freshinv s) in M. unfold freshinv, last_reset in *.
  destruct t as [c|ft].
  - caller_cases H; [op_cases|..]; red_st; try exact M.
    all: intros f F w; unfold updn, updN; neq; try (intros [= <-]; red_st; discriminate).
    all: try (intros [= <-]; red_st; intros HW; now apply (M _ _ _ EF0)).
    all: intros HF HW; pose proof (M _ _ _ HF HW) as [X|X]; destruct (T _ _ HF) as (_ & _ & TW & _);
      specialize (TW _ HW); Neq; auto using new_entry_fresh; try (right; lia).
    all: destruct (mem (f_key F) (snd (sweep_now cf s))); [right; lia|auto].
  - task_cases H; red_st; try exact M.
    all: intros f F w; unfold updn, updN; neq.
    all: try (intros [= <-]; red_st; intros HW; try (now apply (M _ _ _ EF0))).
    all: try (intros HF HW; now apply (M _ _ _ HF)).
    + rewrite N.eqb_refl. left. now apply new_entry_fresh.
    + intros HF HW. destruct (N.eqb_spec (f_key F) (f_key F0)); [left; now apply new_entry_fresh|].
      now apply (M _ _ _ HF).
Qed.
(* ------------------------------------------------------------------ I_lateC *)
Lemma classify_not_hit_not_fresh cf now oe :
  (forall v, classify cf now oe <> RHit v) -> is_fresh now oe = false.
Proof.
  unfold classify, is_fresh. destruct oe as [e|]; [|reflexivity]. intros H.
  destruct (e_exp e =? 0); [exfalso; eapply H; reflexivity|].
  destruct (now <? e_exp e); [exfalso; eapply H; reflexivity|]. reflexivity.
Qed.

Definition lateC (s : state) : Prop :=
  forall c k r rs, c_pc (callers s c) = CStripe k r rs ->
    forall f F w, futs s f = Some F -> f_key F = k -> f_written F = Some w ->
    (w < r)%nat -> (w < rs)%nat.

Lemma pres_lateC cf s t b s' : c_ttl cf <> Some 0 -> Inv cf s -> step cf s t b = Some s' -> lateC s'.
Proof.
  intros Ht IV H. apply step_inv in H as (s1 & -> & H).
  pose proof (I_wf _ _ IV) as W. pose proof (I_fresh _ _ IV Ht) as M. pose proof (I_timeC _ _ IV) as TC.
  pose proof (I_lateC _ _ IV Ht) as B. fold (lateC s) in B. unfold lateC in *.
  destruct t as [c|ft].
  - caller_cases H; [op_cases|..]; red_st; intros c' k r rs; unfold updn;
      (destruct (Nat.eq_dec c' c) as [->|Ec];
       [ rewrite ?Nat.eqb_refl; red_st; try discriminate
       | rewrite ?(proj2 (Nat.eqb_neq c' c) Ec); try apply B ]).
    all: try (intros HP f F w; neq; [intros [= <-]; red_st; discriminate | now apply (B _ _ _ _ HP)]).
    + intros [= <- <- <-] f F w HF HK HW _. destruct (M _ _ _ HF HW) as [X|X]; [|now rewrite HK in X].
      rewrite HK, (classify_not_hit_not_fresh cf) in X; [discriminate|]. intros v; congruence.
    + intros HP f F w; neq; [|now apply (B _ _ _ _ HP)].
      intros [= <-]; red_st. now apply (B _ _ _ _ HP _ _ _ EF0).
  - pose proof (I_timeF _ _ IV) as T.
    task_cases H; red_st; intros c' k r rs; rewrite ?wake_pc; intros HP f F w; unfold updn; neq;
      try (now apply (B _ _ _ _ HP)); intros [= <-]; red_st; try (now apply (B _ _ _ _ HP _ _ _ EF0)).
    intros _ [= <-]. specialize (TC _ _ _ _ HP). lia.
Qed.

(* ------------------------------------------------------------------ I_lateF *)
Definition lateF (s : state) : Prop :=
  forall f1 f2 F1 F2 w, f1 <> f2 ->
    futs s f1 = Some F1 -> futs s f2 = Some F2 -> f_key F1 = f_key F2 ->
    f_written F1 = Some w -> (w < f_read_at F2)%nat -> (w < f_reset_seen F2)%nat.

Lemma pres_lateF cf s t b s' : c_ttl cf <> Some 0 -> Inv cf s -> step cf s t b = Some s' -> lateF s'.
Proof.
  intros Ht IV H. apply step_inv in H as (s1 & -> & H).
  pose proof (I_wf _ _ IV) as W. pose proof (I_fresh _ _ IV Ht) as M. pose proof (I_timeF _ _ IV) as T.
  pose proof (I_lateC _ _ IV Ht) as BC.
  pose proof (I_lateF _ _ IV Ht) as B. fold (lateF s) in B. unfold lateF in *.
  destruct t as [c|ft].
  - caller_cases H; [op_cases|..]; red_st; try exact B.
    all: intros f1 f2 F1 F2 w Hne; unfold updn; neq; try congruence.
    all: try (intros [= <-]; red_st; discriminate).
    all: try (intros HF1 HF2; now apply (B _ _ _ _ _ Hne HF1 HF2)).
    + intros HF1 [= <-]; red_st. intros HK HW _. destruct (M _ _ _ HF1 HW) as [X|X]; [|now rewrite HK in X].
      rewrite HK, (classify_not_hit_not_fresh cf) in X; [discriminate|]. intros v; congruence.
    + intros HF1 [= <-]; red_st. intros HK HW. now apply (BC _ _ _ _ Epc _ _ _ HF1).
    + intros [= <-] HF2; red_st. now apply (B _ _ _ _ _ Hne EF0 HF2).
    + intros HF1 [= <-]; red_st. now apply (B _ _ _ _ _ Hne HF1 EF0).
  - task_cases H; red_st; try exact B.
    all: intros f1 f2 F1 F2 w Hne; unfold updn; neq; try congruence.
    all: try (intros HF1 HF2; now apply (B _ _ _ _ _ Hne HF1 HF2)).
    all: try (intros [= <-] HF2; red_st; now apply (B _ _ _ _ _ Hne EF0 HF2)).
    all: try (intros HF1 [= <-]; red_st; now apply (B _ _ _ _ _ Hne HF1 EF0)).
    intros [= <-] HF2; red_st. intros _ [= <-] X. destruct (T _ _ HF2) as (A & _). lia.
Qed.
(* ------------------------------------------------------------------ I_seq *)
Definition seqinv (s : state) : Prop :=
  forall f1 f2 F1 F2, (f1 < f2)%nat -> futs s f1 = Some F1 -> futs s f2 = Some F2 ->
    f_key F1 = f_key F2 -> exists u, f_unmarked F1 = Some u /\ (u < f_created F2)%nat.

Lemma unmarked_of_not_premark ws f F : tinv ws f F -> premark (f_tpc F) = false ->
  exists u, f_unmarked F = Some u.
Proof.
  unfold tinv. destruct (f_tpc F); cbn [premark]; try discriminate; intros X _.
  - destruct X as (_ & _ & _ & X & _). destruct (f_unmarked F); [eauto|congruence].
  - destruct X as (v & _ & _ & _ & _ & X & _). destruct (f_unmarked F); [eauto|congruence].
Qed.

Lemma seq_new cf s k : Inv cf s -> pending s k = None ->
  forall f1 F1, futs s f1 = Some F1 -> f_key F1 = k ->
  exists u, f_unmarked F1 = Some u /\ (u < gt s)%nat.
Proof.
  intros IV Hp f1 F1 HF HK.
  destruct (premark (f_tpc F1)) eqn:Ep.
  - pose proof (I_mark _ _ IV _ _ HF Ep) as X. congruence.
  - destruct (unmarked_of_not_premark _ _ _ (I_task _ _ IV _ _ HF) Ep) as (u & Hu).
    exists u. split; [assumption|]. destruct (I_timeF _ _ IV _ _ HF) as (_ & _ & _ & D). now apply D.
Qed.

Lemma pres_seq cf s t b s' : Inv cf s -> step cf s t b = Some s' -> seqinv s'.
Proof.
  intros IV H. apply step_inv in H as (s1 & -> & H).
  pose proof (I_wf _ _ IV) as W. pose proof (I_seq _ _ IV) as A. fold (seqinv s) in A.
  unfold seqinv in *.
  destruct t as [c|ft].
  - caller_cases H; [op_cases|..]; red_st; try exact A.
    all: intros f1 f2 F1 F2 Hlt; unfold updn; neq; try lia.
    all: try (intros HF1 HF2; now apply (A _ _ _ _ Hlt HF1 HF2)).
    all: try (intros _ HF2; rewrite W in HF2 by lia; discriminate).
    all: try (intros HF1 [= <-]; red_st; intros HK; now apply (seq_new _ _ _ IV ltac:(eassumption) _ _ HF1)).
    + intros [= <-] HF2; red_st. now apply (A _ _ _ _ Hlt EF0 HF2).
    + intros HF1 [= <-]; red_st. now apply (A _ _ _ _ Hlt HF1 EF0).
  - pose proof (I_task _ _ IV) as T.
    task_cases H; red_st; try exact A.
    all: intros f1 f2 F1 F2 Hlt; unfold updn; neq; try lia.
    all: try (intros HF1 HF2; now apply (A _ _ _ _ Hlt HF1 HF2)).
    all: try (intros HF1 [= <-]; red_st; now apply (A _ _ _ _ Hlt HF1 EF0)).
    all: try (intros [= <-] HF2; red_st; now apply (A _ _ _ _ Hlt EF0 HF2)).
    intros [= <-] HF2; red_st. intros HK. destruct (A _ _ _ _ Hlt EF0 HF2 HK) as (u & Hu & _).
    pose proof (T _ _ EF0) as X. unfold tinv in X. rewrite Etpc in X. destruct X as (_ & _ & _ & X & _). congruence.
Qed.

(* ------------------------------------------------------------------ I_pmark *)
Lemma pres_pmark cf s t b s' : Inv cf s -> step cf s t b = Some s' ->
  forall k f F, pending s' k = Some f -> futs s' f = Some F -> premark (f_tpc F) = true.
Proof.
  intros IV H. apply step_inv in H as (s1 & -> & H).
  pose proof (I_wf _ _ IV) as W. pose proof (I_pend _ _ IV) as P. pose proof (I_pmark _ _ IV) as Q.
  destruct t as [c|ft].
  - caller_cases H; [op_cases|..]; red_st; try exact Q.
    all: intros k f F; unfold updN, updn; Neq; neq.
    all: try (intros _ [= <-]; reflexivity).
    all: try (intros HP HF; now apply (Q _ _ _ HP HF)).
    all: try (intros HP; destruct (P _ _ HP) as (Fp & HFp & _); rewrite W in HFp by lia; discriminate).
    all: try (intros [= <-]; rewrite W by lia; discriminate).
    all: try (intros HP [= <-]; red_st; now apply (Q _ _ _ HP EF0)).
  - task_cases H; red_st; try exact Q.
    all: intros k f F; unfold updN, updn; Neq; neq; try discriminate.
    all: try (intros HP HF; now apply (Q _ _ _ HP HF)).
    all: try (intros _ [= <-]; reflexivity).
    all: try (intros HP [= <-]; pose proof (Q _ _ _ HP EF0) as X; rewrite Etpc in X; discriminate).
    all: try (intros HP _; destruct (P _ _ HP) as (Fp & HFp & HKp); rewrite EF0 in HFp; injection HFp as <-; congruence).
Qed.

(* ------------------------------------------------------------------ the invariant holds on every run *)
Lemma Inv_init cf t0 progs : Inv cf (init t0 progs).
Proof.
  constructor; cbn; intros; try discriminate; try reflexivity; try exact Logic.I.
  contradiction.
Qed.

Lemma Inv_step cf s t b s' : Inv cf s -> step cf s t b = Some s' -> Inv cf s'.
Proof.
  intros IV H. constructor.
  - exact (pres_wf _ _ _ _ _ IV H).
  - exact (pres_ref _ _ _ _ _ IV H).
  - exact (pres_pend _ _ _ _ _ IV H).
  - exact (pres_mark _ _ _ _ _ IV H).
  - exact (pres_task _ _ _ _ _ IV H).
  - exact (pres_park _ _ _ _ _ IV H).
  - exact (pres_ret _ _ _ _ _ IV H).
  - exact (pres_timeF _ _ _ _ _ IV H).
  - exact (pres_timeC _ _ _ _ _ IV H).
  - intros Ht. exact (pres_fresh _ _ _ _ _ Ht IV H).
  - intros Ht. exact (pres_lateC _ _ _ _ _ Ht IV H).
  - intros Ht. exact (pres_lateF _ _ _ _ _ Ht IV H).
  - exact (pres_seq _ _ _ _ _ IV H).
  - exact (pres_pmark _ _ _ _ _ IV H).
Qed.

Lemma Inv_run cf sch : forall s, Inv cf s -> Inv cf (run cf s sch).
Proof.
  induction sch as [|[t b] r IH]; intros s IV; cbn [run]; [assumption|].
  destruct (step cf s t b) as [s'|] eqn:E; [apply IH; eapply Inv_step; eassumption | now apply IH].
Qed.

Theorem Inv_reachable cf t0 progs s : reachable cf t0 progs s -> Inv cf s.
Proof. intros (sch & <-). apply Inv_run, Inv_init. Qed.
(* ================================================================== theorems *)

(* (a) each LoadFuture is completed exactly once *)
Theorem complete_once cf t0 progs s f F : reachable cf t0 progs s -> futs s f = Some F ->
  f_ncomplete F = match f_state F with Computing => 0%nat | Complete _ => 1%nat end.
Proof.
  intros R HF. pose proof (I_task _ _ (Inv_reachable _ _ _ _ R) _ _ HF) as T. unfold tinv in T.
  destruct (f_tpc F).
  - destruct T as (-> & _ & _ & _ & ->). reflexivity.
  - destruct T as (-> & _ & _ & _ & ->). reflexivity.
  - destruct T as (-> & _ & _ & _ & ->). reflexivity.
  - destruct T as (-> & _ & _ & _ & ->). reflexivity.
  - destruct T as (v & -> & _ & _ & _ & _ & ->). reflexivity.
Qed.

Lemma task_enabled cf s f F b : futs s f = Some F -> f_tpc F <> TDone ->
  exists s', step cf s (Task f) b = Some s'.
Proof.
  intros HF Hn. unfold step, task_step. rewrite HF. destruct (f_tpc F); try congruence; eauto.
Qed.

(* (a) completion wakes every registered waiter, empties the list and is the only transition to Complete *)
Theorem complete_wakes_all cf s f F v b : futs s f = Some F -> f_tpc F = TComplete v ->
  exists s', step cf s (Task f) b = Some s'
    /\ (forall c, In c (f_waiters F) -> c_token (callers s' c) = true)
    /\ exists F', futs s' f = Some F' /\ f_state F' = Complete v /\ f_waiters F' = []
                  /\ f_ncomplete F' = S (f_ncomplete F) /\ f_tpc F' = TDone.
Proof.
  intros HF Ht. unfold step, task_step. rewrite HF, Ht. eexists. split; [reflexivity|]. red_st. split.
  - intros c Hc. now apply wake_token_in.
  - rewrite updn_eq. eexists. split; [reflexivity|]. red_st. repeat split.
Qed.

(* safety form of "no caller waits forever once the loader has returned": a caller blocked in
   park waits on a future of ITS key that is still Computing, has it on the waiter list, and the
   future's loader task is enabled (it is never blocked: every task step is enabled). *)
Theorem no_waiter_left cf t0 progs s c k f : reachable cf t0 progs s ->
  c_pc (callers s c) = CPark k f -> c_token (callers s c) = false ->
  exists F, futs s f = Some F /\ f_key F = k /\ f_state F = Computing /\ In c (f_waiters F)
            /\ exists s', step cf s (Task f) false = Some s'.
Proof.
  intros R HP HT. pose proof (Inv_reachable _ _ _ _ R) as IV.
  destruct (I_park _ _ IV _ _ _ HP) as [(F & HF & HS & HI)|X]; [|congruence].
  pose proof (I_ref _ _ IV c) as RF. rewrite HP in RF. destruct RF as (F' & HF' & HK).
  rewrite HF in HF'. injection HF' as <-.
  exists F. repeat split; try assumption.
  eapply task_enabled; [eassumption|]. intros Hd.
  pose proof (I_task _ _ IV _ _ HF) as T. unfold tinv in T. rewrite Hd in T.
  destruct T as (v & X & _). congruence.
Qed.

(* a parked caller on a completed future always has its wake-up token *)
Theorem no_waiter_on_completed cf t0 progs s c k f F v : reachable cf t0 progs s ->
  c_pc (callers s c) = CPark k f -> futs s f = Some F -> f_state F = Complete v ->
  c_token (callers s c) = true.
Proof.
  intros R HP HF HS. destruct (c_token (callers s c)) eqn:E; [reflexivity|].
  destruct (no_waiter_left _ _ _ _ _ _ _ R HP E) as (F' & HF' & _ & HS' & _). congruence.
Qed.

(* quiescence = everybody finished: no reachable state in which nobody can move has a caller
   still inside a call or with calls left *)
Theorem no_deadlock cf t0 progs s : reachable cf t0 progs s ->
  (forall t, step cf s t false = None) ->
  forall c, c_pc (callers s c) = CIdle /\ c_prog (callers s c) = [].
Proof.
  intros R Q c. pose proof (Inv_reachable _ _ _ _ R) as IV.
  pose proof (Q (Caller c)) as Qc. unfold step, caller_step in Qc.
  destruct (c_pc (callers s c)) as [|k r rs|k f|k f] eqn:Epc.
  - destruct (c_prog (callers s c)); [auto|discriminate].
  - destruct (pending s k); discriminate.
  - pose proof (I_ref _ _ IV c) as RF. rewrite Epc in RF. destruct RF as (F & HF & _).
    rewrite HF in Qc. destruct (f_state F); discriminate.
  - destruct (c_token (callers s c)) eqn:Et; [discriminate|].
    destruct (no_waiter_left _ _ _ _ _ _ _ R Epc Et) as (_ & _ & _ & _ & _ & s' & Hs').
    rewrite (Q (Task f)) in Hs'. discriminate.
Qed.

(* (b) every caller that joined a future returns the value the loader produced for it, which is
   the value the task wrote to the map together with its cost *)
Theorem joined_return_loaded cf t0 progs s r f : reachable cf t0 progs s ->
  In r (rets s) -> r_via r = Some f ->
  exists F c, futs s f = Some F /\ f_key F = r_key r /\ f_state F = Complete (r_val r)
              /\ f_loaded F = Some (r_val r, c) /\ In (mkwr f (r_key r) (r_val r) c) (writes s).
Proof.
  intros R Hi Hv. pose proof (Inv_reachable _ _ _ _ R) as IV.
  destruct (I_ret _ _ IV _ _ Hi Hv) as (F & HF & HK & HS).
  pose proof (I_task _ _ IV _ _ HF) as T. unfold tinv in T.
  destruct (f_tpc F); try (destruct T as (X & _); congruence).
  destruct T as (v & X & _ & (c & HL & HW) & _). rewrite HS in X. injection X as <-.
  exists F, c. rewrite <- HK. repeat split; assumption.
Qed.

Theorem same_future_same_value cf t0 progs s r1 r2 f : reachable cf t0 progs s ->
  In r1 (rets s) -> In r2 (rets s) -> r_via r1 = Some f -> r_via r2 = Some f ->
  r_val r1 = r_val r2 /\ r_key r1 = r_key r2.
Proof.
  intros R H1 H2 V1 V2.
  destruct (joined_return_loaded _ _ _ _ _ _ R H1 V1) as (F & c & HF & HK & HS & _).
  destruct (joined_return_loaded _ _ _ _ _ _ R H2 V2) as (F' & c' & HF' & HK' & HS' & _).
  rewrite HF in HF'. injection HF' as <-. split; congruence.
Qed.

(* (b) the task's map-write section makes the loaded value resident with its cost (and fresh) *)
Theorem write_makes_resident cf s f F v c b : futs s f = Some F -> f_tpc F = TWrite v c ->
  exists s', step cf s (Task f) b = Some s'
    /\ map s' (f_key F) = Some (new_entry cf (clock s) v c None) /\ clock s' = clock s
    /\ (c_ttl cf <> Some 0 -> is_fresh (clock s') (map s' (f_key F)) = true).
Proof.
  intros HF Ht. unfold step, task_step. rewrite HF, Ht. eexists. split; [reflexivity|]. red_st.
  rewrite updN_eq. repeat split. intros H0. now apply new_entry_fresh.
Qed.

(* (c) the loader closure runs outside every lock: its step touches no shared cache state *)
Theorem loader_outside_locks cf s f F b s' : futs s f = Some F -> f_tpc F = TLoad ->
  step cf s (Task f) b = Some s' ->
  map s' = map s /\ pending s' = pending s /\ callers s' = callers s /\ clock s' = clock s
  /\ timers s' = timers s /\ nfut s' = nfut s /\ (forall f', f' <> f -> futs s' f' = futs s f')
  /\ runs s' (f_key F) = S (runs s (f_key F)).
Proof.
  intros HF Ht. unfold step, task_step. rewrite HF, Ht. intros [= <-]. red_st.
  repeat split. - intros f' Hn. now apply updn_neq. - now rewrite updN_eq.
Qed.

(* (c) futures are per key: whatever a caller of key k waits on, and whatever marker sits under k,
   is a future created for k *)
Theorem futures_are_per_key cf t0 progs s : reachable cf t0 progs s ->
  (forall k f, pending s k = Some f -> exists F, futs s f = Some F /\ f_key F = k)
  /\ (forall c k f, c_pc (callers s c) = CWait k f \/ c_pc (callers s c) = CPark k f ->
        exists F, futs s f = Some F /\ f_key F = k).
Proof.
  intros R. pose proof (Inv_reachable _ _ _ _ R) as IV. split.
  - exact (I_pend _ _ IV).
  - intros c k f [H|H]; pose proof (I_ref _ _ IV c) as X; rewrite H in X; exact X.
Qed.

(* (d) two loads of one key never overlap: the earlier one wrote the map and removed its marker
   before the later one's marker was inserted; and the later one exists only because its creator
   read the map before the earlier value was written (late arrival, F-22) or after an
   invalidation / expiry-capable event that followed the write *)
Theorem single_flight_except_late_arrival cf t0 progs s f1 f2 F1 F2 :
  c_ttl cf <> Some 0 -> reachable cf t0 progs s ->
  (f1 < f2)%nat -> futs s f1 = Some F1 -> futs s f2 = Some F2 -> f_key F1 = f_key F2 ->
  exists w u, f_written F1 = Some w /\ f_unmarked F1 = Some u /\ (u < f_created F2)%nat
    /\ ((f_read_at F2 <= w)%nat \/ (w < f_reset_seen F2)%nat).
Proof.
  intros Ht R Hlt HF1 HF2 HK. pose proof (Inv_reachable _ _ _ _ R) as IV.
  destruct (I_seq _ _ IV _ _ _ _ Hlt HF1 HF2 HK) as (u & Hu & Hc).
  pose proof (I_task _ _ IV _ _ HF1) as T. unfold tinv in T.
  assert (exists w, f_written F1 = Some w) as (w & Hw).
  { destruct (f_tpc F1).
    - destruct T as (_ & _ & _ & X & _); congruence.
    - destruct T as (_ & _ & _ & X & _); congruence.
    - destruct T as (_ & _ & _ & X & _); congruence.
    - destruct T as (_ & _ & X & _). destruct (f_written F1); [eauto|congruence].
    - destruct T as (v & _ & _ & _ & X & _). destruct (f_written F1); [eauto|congruence]. }
  exists w, u. repeat split; try assumption.
  destruct (Nat.le_gt_cases (f_read_at F2) w) as [L|G]; [left; assumption|right].
  assert (Hne : f1 <> f2) by lia.
  exact (I_lateF _ _ IV Ht _ _ _ _ _ Hne HF1 HF2 HK Hw G).
Qed.

Theorem loads_never_overlap cf t0 progs s f1 f2 F1 F2 : reachable cf t0 progs s ->
  (f1 < f2)%nat -> futs s f1 = Some F1 -> futs s f2 = Some F2 -> f_key F1 = f_key F2 ->
  exists u, f_unmarked F1 = Some u /\ (u < f_created F2)%nat.
Proof. intros R. exact (I_seq _ _ (Inv_reachable _ _ _ _ R) f1 f2 F1 F2). Qed.

(* (d) the full single-flight statement, and its refutation by the late-arrival schedule (F-22) *)
Definition single_flight_full : Prop :=
  forall cf t0 progs sch k, (runs_since (run cf (init t0 progs) sch) k <= 1)%nat.

Definition f22_cfg : config := {| c_ttl := None; c_grace := None; c_wheel := 1 |}.
Definition f22_progs : nat -> list op :=
  fun c => match c with 0%nat | 1%nat => [OFetch 7] | _ => [] end.
(* A and B miss in the map; A becomes leader; A's task loads, writes, removes the marker;
   B reaches the stripe, finds no marker, becomes leader of a second load *)
Definition f22_sched : sched :=
  [(Caller 0, false); (Caller 1, false); (Caller 0, false);
   (Task 0, false); (Task 0, false); (Task 0, false);
   (Caller 1, false); (Task 1, false)].

Theorem single_flight_refuted_F22 : ~ single_flight_full.
Proof.
  intros H. specialize (H f22_cfg 1 f22_progs f22_sched 7). vm_compute in H. lia.
Qed.

(* ---------------------------------------------------------------- C12: stale-while-revalidate *)
(* a value is served from the map only if fresh, or stale inside [expires_at, expires_at+grace);
   in the stale case a load is pending afterwards unless the stripe try_lock failed *)
Theorem stale_only_in_grace cf s c k rest b s' :
  c_pc (callers s c) = CIdle -> c_prog (callers s c) = OFetch k :: rest ->
  step cf s (Caller c) b = Some s' ->
  match map s k with
  | None => rets s' = rets s /\ exists r rs, c_pc (callers s' c) = CStripe k r rs
  | Some e =>
      if is_fresh (clock s) (Some e)
      then rets s' = {| r_caller := c; r_key := k; r_via := None; r_val := e_val e |} :: rets s
           /\ pending s' = pending s
      else match c_grace cf with
           | Some g =>
               if clock s <? e_exp e + g
               then rets s' = {| r_caller := c; r_key := k; r_via := None; r_val := e_val e |} :: rets s
                    /\ e_exp e <= clock s
                    /\ (b = false -> exists f, pending s' k = Some f)
               else rets s' = rets s /\ exists r rs, c_pc (callers s' c) = CStripe k r rs
           | None => rets s' = rets s /\ exists r rs, c_pc (callers s' c) = CStripe k r rs
           end
  end.
Proof.
  intros Hpc Hpr. unfold step, caller_step. rewrite Hpc, Hpr. intros [= <-].
  unfold start_op, classify, is_fresh. destruct (map s k) as [e|].
  - destruct (N.eqb_spec (e_exp e) 0) as [E0|E0]; cbn [orb].
    + red_st. split; reflexivity.
    + destruct (N.ltb_spec (clock s) (e_exp e)) as [L|L].
      * red_st. split; reflexivity.
      * destruct (c_grace cf) as [g|].
        -- destruct (clock s <? e_exp e + g).
           ++ destruct b.
              ** red_st. repeat split; [assumption|discriminate].
              ** destruct (pending s k) as [fq|] eqn:Ep; red_st.
                 --- repeat split; [assumption|]. intros _. eauto.
                 --- repeat split; [assumption|]. intros _. rewrite updN_eq. eauto.
           ++ red_st. rewrite updn_eq. red_st. split; [reflexivity|eauto].
        -- red_st. rewrite updn_eq. red_st. split; [reflexivity|eauto].
  - red_st. rewrite updn_eq. red_st. split; [reflexivity|eauto].
Qed.

(* ------------------------------------------------------------------ no join after completion *)
(* a future that is still registered as the in-flight load of k (marker present) has not been
   completed: the task removes the marker BEFORE complete().  Hence whoever finds a marker in its
   stripe section joins a load whose completion is still in the future. *)
Theorem no_join_after_completion cf t0 progs s k f : reachable cf t0 progs s ->
  pending s k = Some f ->
  exists F, futs s f = Some F /\ f_key F = k /\ f_state F = Computing /\ f_ncomplete F = 0%nat
            /\ premark (f_tpc F) = true.
Proof.
  intros R HP. pose proof (Inv_reachable _ _ _ _ R) as IV.
  destruct (I_pend _ _ IV _ _ HP) as (F & HF & HK).
  pose proof (I_pmark _ _ IV _ _ _ HP HF) as PM.
  pose proof (I_task _ _ IV _ _ HF) as T. unfold tinv in T.
  exists F. repeat split; try assumption.
  - destruct (f_tpc F); try discriminate; tauto.
  - destruct (f_tpc F); try discriminate; tauto.
Qed.

(* the stripe section of a missing caller always leaves it on a future that is still Computing
   (joined or freshly created): the value it will return is produced by a completion that
   happens after its miss, hence after any invalidation that preceded the miss *)
Theorem stripe_joins_only_uncompleted cf t0 progs s c k r rs b s' : reachable cf t0 progs s ->
  c_pc (callers s c) = CStripe k r rs -> step cf s (Caller c) b = Some s' ->
  exists f F, c_pc (callers s' c) = CWait k f /\ futs s' f = Some F /\ f_key F = k
              /\ f_state F = Computing /\ f_ncomplete F = 0%nat.
Proof.
  intros R Hpc. unfold step, caller_step. rewrite Hpc.
  destruct (pending s k) as [f|] eqn:HP; intros [= <-].
  - destruct (no_join_after_completion _ _ _ _ _ _ R HP) as (F & HF & HK & HS & HN & _).
    exists f, F. red_st. rewrite updn_eq. red_st. repeat split; assumption.
  - exists (nfut s). eexists. red_st. rewrite !updn_eq. red_st. repeat split.
Qed.

(* the property sentence: once every load of k has completed (the loader returned and its waiters
   were released), a later miss on k -- e.g. after invalidate/remove/expiry -- starts a NEW load;
   it can never be handed an earlier load's value *)
Theorem miss_after_completion_starts_new_load cf t0 progs s c k r rs b s' :
  reachable cf t0 progs s ->
  c_pc (callers s c) = CStripe k r rs ->
  (forall f F, futs s f = Some F -> f_key F = k -> f_state F <> Computing) ->
  step cf s (Caller c) b = Some s' ->
  nfut s' = S (nfut s) /\ c_pc (callers s' c) = CWait k (nfut s)
  /\ exists F, futs s' (nfut s) = Some F /\ f_key F = k /\ f_tpc F = TLoad /\ f_state F = Computing
               /\ pending s' k = Some (nfut s).
Proof.
  intros R Hpc Hall. unfold step, caller_step. rewrite Hpc.
  destruct (pending s k) as [f|] eqn:HP.
  - destruct (no_join_after_completion _ _ _ _ _ _ R HP) as (F & HF & HK & HS & _).
    exfalso. exact (Hall _ _ HF HK HS).
  - intros [= <-]. red_st. rewrite !updn_eq, updN_eq. red_st. repeat split.
    eexists. repeat split.
Qed.
