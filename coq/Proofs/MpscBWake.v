(* Proofs/MpscBWake.v — C06 for the bounded-MPSC K2 model, part 1: the receive-side wake-up
   invariants W1..W8 (definitions in Chan/MpscBSpec.v) for all op/poll/drop histories. *)
From Fibre Require Import Common.Base Chan.MpscB Chan.MpscBSpec Proofs.MpscBBase Proofs.MpscBInv Proofs.MpscBProofs.
From Coq Require Import ZifyBool ZifyNat ZifyN.
Ltac Zify.zify_post_hook ::= Z.div_mod_to_equations.

(** wake counters only grow, and the primitives do not touch the receive-waiter slot *)
Definition wk_le (s s' : st) : Prop := forall x, wk s x <= wk s' x.

Lemma wk_le_refl s : wk_le s s.
Proof. intros x. lia. Qed.

Lemma wk_le_trans a b c : wk_le a b -> wk_le b c -> wk_le a c.
Proof. intros H1 H2 x. specialize (H1 x). specialize (H2 x). lia. Qed.

Lemma flush_wk s : wk_le s (flush s).
Proof.
  unfold wk_le, flush, publish, notify_senders, wake. intros x.
  destruct (0 <? unpub s); [|lia]. cbn [sq set_unpub]. destruct (sq s) as [|[f w] r]; cbn; [lia|].
  destruct (x =? w); lia.
Qed.

Lemma deq1_wk s : wk_le s (fst (deq1 s)).
Proof.
  unfold wk_le, deq1, publish, notify_senders, wake. intros x.
  destruct (q s) as [|v r]; cbn [fst]; [lia|].
  cbn [kk unpub set_rcv set_unpub set_q sq].
  destruct (kk s <=? unpub s + 1); [|cbn; lia].
  cbn [sq set_unpub set_rcv set_q]. destruct (sq s) as [|[f w] t]; cbn; [lia|]. destruct (x =? w); lia.
Qed.

Lemma deqn_wk n : forall s, wk_le s (fst (deqn n s)).
Proof.
  induction n as [|n IH]; intros s; cbn [deqn]; [apply wk_le_refl|].
  pose proof (deq1_wk s) as H1.
  destruct (deq1 s) as [s1 [v|]] eqn:E; cbn [fst] in *; [|exact H1].
  specialize (IH s1). destruct (deqn n s1) as [s2 vs] eqn:E2. cbn [fst] in *.
  eapply wk_le_trans; eauto.
Qed.

Ltac dm_frame_w :=
  match goal with
  | |- context [match deq1 ?s with _ => _ end] =>
      lazymatch s with
      | context [match _ with _ => _ end] => fail
      | _ =>
        let F := fresh "F" in let Q := fresh "Q" in let s1 := fresh "s" in let M := fresh "MW" in
        pose proof (deq1_frame s) as F; pose proof (deq1_q s) as Q; pose proof (deq1_wk s) as M;
        destruct (deq1 s) as [s1 [?|]]; cbn [fst] in F, M; unfold deq_frame in F;
        [ rewrite F; cb | clear F M; let Q1 := fresh "Q" in destruct Q as [Q Q1]; subst s1 ]
      end
  | |- context [flush ?x] =>
      lazymatch x with
      | context [match _ with _ => _ end] => fail
      | _ =>
        let F := fresh "F" in let Q := fresh "Q" in let s2 := fresh "s" in let E := fresh "E" in
        let M := fresh "MW" in
        pose proof (flush_frame x) as F; pose proof (flush_q x) as Q; pose proof (flush_wk x) as M;
        remember (flush x) as s2 eqn:E; clear E; unfold deq_frame in F; rewrite F; cb;
        cbn [q rcv set_q set_rcv set_unpub set_sq set_wk set_evw set_rw] in Q
      end
  | |- context [match deqn ?n ?s with _ => _ end] =>
      lazymatch s with
      | context [match _ with _ => _ end] => fail
      | _ =>
        let F := fresh "F" in let Q := fresh "Q" in let E := fresh "E" in let M := fresh "MW" in
        pose proof (deqn_frame n s) as F; pose proof (deqn_q n s) as Q; pose proof (deqn_wk n s) as M;
        destruct (deqn n s) as [? ?] eqn:E; cbn [fst snd] in F, Q, M; unfold deq_frame in F;
        rewrite F; cb
      end
  end.

Ltac symex_w := cbn [exec]; unf; repeat (cb; first [dm_wl | dm_frame_w | dm_any]); cb.


Lemma wake_list_wk l : forall s, wk_le s (wake_list l s).
Proof.
  induction l as [|[f w] t IH]; intros s; cbn [wake_list]; [apply wk_le_refl|].
  eapply wk_le_trans; [|apply IH]. intros x. unfold wake. cbn. destruct (x =? w); lia.
Qed.

(** turn the opaque counters left by [dm_wl] into a monotonicity fact *)
Ltac wl_mono :=
  repeat match goal with
  | H : ?WK = wk (wake_list ?l ?s0) |- _ =>
      let M := fresh "MW" in
      pose proof (wake_list_wk l s0) as M; unfold wk_le in M; rewrite <- H in M; cbh; clear H
  end.

Ltac inst_mw w :=
  unfold wk_le in *; cbh;
  repeat match goal with
  | MW : forall x : N, _ <= _ |- _ =>
      let X := fresh "MI" in pose proof (MW w) as X; cbv beta in X; clear MW
  end.

Lemma exec_W1 s o : W1 s -> W1 (fst (exec s o)).
Proof.
  intros W. unfold W1 in *. destruct o; symex_w; try assumption.
  all: try (intros o1 w1 Hr; discriminate Hr).
  all: intros o1 w1 Hr; somes.
  all: repeat match goal with H : _ /\ _ |- _ => destruct H end.
  all: repeat match goal with H : is_nil _ = true |- _ => apply is_nil_true in H; subst end.
  all: cbn [app] in *; deqnil.
  all: try (destruct (W _ _ Hr) as [A B]).
  all: repeat match goal with
       | H : (_ =? _) = false |- _ => apply N.eqb_neq in H
       | H : (_ =? _) = true |- _ => apply N.eqb_eq in H
       end.
  all: try (split; [congruence | lia]).
  all: try (split; [congruence | congruence]).
  all: match goal with A : q ?s = [], H : q ?s = ?l ++ ?r |- _ =>
         rewrite A in H; symmetry in H; apply app_eq_nil in H; destruct H end.
  all: split; congruence.
Qed.

Ltac wkfun :=
  repeat match goal with
  | |- context [if ?a =? ?b then _ else _] => destruct (N.eqb_spec a b); subst
  | H : context [if ?a =? ?b then _ else _] |- _ => destruct (N.eqb_spec a b); subst
  end.

Lemma recv_fut_on_rx s f fr : fut_ok s -> rx_one s ->
  aget f (fs s) = Some fr -> is_recv_kind (fk fr) = true -> fh fr = 1.
Proof.
  intros FO RO A K. destruct (FO f fr A) as (r&B&_&C). rewrite K in C. cbn in C. exact (RO _ _ B C).
Qed.

(** a receive future exists, yet a direct call on the receiver handle went through: impossible *)
Ltac no_fut_on_rx FO RO :=
  exfalso;
  match goal with
  | A : aget ?f (fs ?s) = Some ?fr, K : is_recv_kind (fk ?fr) = true,
    NF : has_futs ?h ?s = false, G : aget ?h (hs ?s) = Some ?r, T : htx ?r = false |- _ =>
      pose proof (recv_fut_on_rx s f fr FO RO A K) as X1;
      pose proof (RO h r G T) as X2;
      apply (has_futs_false h s f fr NF A); congruence
  end.

Ltac w2leaf V2 V4 FO RO :=
  match goal with
  | A1 : aget ?f1 (fs ?s) = Some ?fr1, K1 : is_recv_kind (fk ?fr1) = true,
    P1 : fpend ?fr1 = Some (?w1, ?c1) |- _ =>
      let B1 := fresh "B" in let B2 := fresh "B" in
      destruct (V2 f1 w1 c1 (ex_intro _ fr1 (conj A1 (conj K1 P1)))) as [B1 B2];
      inst_mw w1;
      split; [wkfun; lia|];
      destruct B2 as [B2|[B2|B2]];
      [ | right; left; wkfun; lia | right; right; rewrite ?B2; reflexivity ]
  end.

Lemma exec_W2 s o : GS s -> W1 s -> W2 s -> W4 s -> W5 s -> W2 (fst (exec s o)).
Proof.
  intros (N1&N2&FO&RO&SC&RL) V1 V2 V4 V5. unfold W2, rpend in *. destruct o; symex_w; try assumption.
  all: wl_mono.
  all: intros f1 w1 c1 (fr1 & A1 & K1 & P1); ag; somes; cbn [fh fk fpend is_recv_kind] in *; somes; try discriminate.
  all: try w2leaf V2 V4 FO RO.
  all: somes.
  all: try (left; reflexivity).
  all: try (left; assumption).
  all: try (right; right; reflexivity).
  all: try (split; [lia | left; reflexivity]).
  all: try solve [no_fut_on_rx FO RO].
  all: try (bools; solve [no_fut_on_rx FO RO]).
  all: try (right; right;
            match goal with |- multi ?s0 = true => destruct (multi s0) eqn:M; [reflexivity|exfalso] end;
            match goal with
            | NE : ?f1 <> ?f, A1 : aget ?f1 (fs _) = Some ?fr1, A : aget ?f (fs _) = Some ?f0,
              K1 : is_recv_kind (fk ?fr1) = true, E : fk ?f0 = _ |- _ =>
                apply NE; apply (V4 M f1 f fr1 f0 A1 A K1); rewrite E; reflexivity
            end).
  all: try (right; left; rewrite ?N.eqb_refl; lia).
Qed.

Lemma existsb_recv_false (l : list (N * frec)) f fr :
  existsb (fun p => is_recv_kind (fk (snd p))) l = false -> aget f l = Some fr -> is_recv_kind (fk fr) = false.
Proof.
  intros E A. apply aget_In in A. destruct (is_recv_kind (fk fr)) eqn:K; [|reflexivity].
  assert (existsb (fun p => is_recv_kind (fk (snd p))) l = true); [|congruence].
  apply existsb_exists. exists (f, fr). auto.
Qed.

Ltac kinds :=
  repeat match goal with
  | E : fk ?x = FRecv _ |- _ =>
      lazymatch goal with K : is_recv_kind (fk x) = true |- _ => fail
      | _ => assert (is_recv_kind (fk x) = true) by (rewrite E; reflexivity) end
  | E : fk ?x = FRecvB _ _ |- _ =>
      lazymatch goal with K : is_recv_kind (fk x) = true |- _ => fail
      | _ => assert (is_recv_kind (fk x) = true) by (rewrite E; reflexivity) end
  end.

Lemma exec_W4 s o : GS s -> W4 s -> W4 (fst (exec s o)).
Proof.
  intros (N1&N2&FO&RO&SC&RL) V4. unfold W4 in *. destruct o; symex_w; try assumption.
  all: intros M f1 f2 fr1 fr2 A1 A2 K1 K2; ag; somes; cbn [fh fk fpend is_recv_kind] in *; try discriminate.
  all: try reflexivity.
  all: kinds.
  all: try (eapply (V4 M); eauto; fail).
  all: try (symmetry; eapply (V4 M); eauto; fail).
  all: bools.
  all: try match goal with
       | E : existsb _ (fs ?s0) = false, A : aget _ (fs ?s0) = Some ?fr, K : is_recv_kind (fk ?fr) = true |- _ =>
           rewrite (existsb_recv_false _ _ _ E A) in K; discriminate K
       end.
Qed.

Lemma exec_W8 s o : W8 s -> W8 (fst (exec s o)).
Proof.
  intros V8. unfold W8 in *. destruct o; symex_w; try assumption.
  all: intros h1 r1 A1; ag; somes; try (apply (V8 _ _ A1)).
  all: cbn [with_closed with_async with_reg hpend hreg htx]; try (split; intros; congruence).
  all: try (destruct (V8 _ _ Heqo) as [X Y]; split; auto; fail).
  all: try (destruct (V8 _ _ Heqo) as [X Y]; split; [auto|]; intros Z; destruct (Y Z); split; auto; fail).
  bools. split; auto.
Qed.


Lemma exec_W6 s o : W6 s -> W6 (fst (exec s o)).
Proof.
  intros V6. unfold W6 in *. destruct o; symex_w; try assumption.
  all: intros f1 w1 Hr; somes.
  all: try (destruct (V6 _ _ Hr) as (fr1 & A1 & G1)).
  all: ag; somes.
  all: try (eexists; split; [eassumption || reflexivity|]; cbn [fk reg_of]; try assumption; reflexivity).
  all: repeat match goal with E : fk _ = _ |- _ => rewrite E in * end; cbn [reg_of] in *; try discriminate.
  all: try (eexists; split; [reflexivity|]; cbn [fk reg_of]; congruence).
Qed.


Lemma exec_W7 s o : W8 s -> W7 s -> W7 (fst (exec s o)).
Proof.
  intros V8 V7. unfold W7 in *. destruct o; symex_w; try assumption.
  all: intros h1 w1 Hr; somes.
  all: try (destruct (V7 _ _ Hr) as (r1 & A1 & G1)).
  all: ag; somes.
  all: try (eexists; split; [eassumption || reflexivity|]; cbn [with_closed with_async with_reg hreg]; try assumption; reflexivity).
  all: try match goal with A : aget ?h (hs _) = Some ?r, G : hreg ?r = true |- _ =>
         destruct (V8 _ _ A) as [_ Y]; destruct (Y G) end.
  all: bools; try congruence.
  all: exfalso; repeat match goal with
       | H : htx _ = _ |- _ => rewrite H in *; clear H
       | H : hasync _ = _ |- _ => rewrite H in *; clear H
       | H : hreg _ = _ |- _ => rewrite H in *; clear H
       end; cbn [andb negb orb] in *; discriminate.
Qed.

Lemma exec_W5 s o : GS s -> W8 s -> W5 s -> W5 (fst (exec s o)).
Proof.
  intros (N1&N2&FO&RO&SC&RL) V8 V5. unfold W5 in *. destruct o; symex_w; try assumption.
  all: intros M f1 fr1 h1 r1 A1 K1 G1; ag; somes; cbn [fh fk fpend is_recv_kind] in *; try discriminate.
  all: kinds.
  all: cbn [with_closed with_async with_reg hreg]; try reflexivity.
  all: try (eapply (V5 M); eauto; fail).
  all: bools.
  all: try solve [no_fut_on_rx FO RO].
  all: destruct (hreg r1) eqn:HR; [exfalso|reflexivity].
  all: destruct (V8 _ _ G1) as [_ Y]; destruct (Y HR) as [T1 _].
  all: pose proof (RO _ _ G1 T1) as E1; pose proof (RO _ _ Heqo H) as E2; subst; somes; congruence.
Qed.



Ltac w3leaf V3 :=
  match goal with
  | A1 : aget ?h1 (hs ?s) = Some ?r1, P1 : hpend ?r1 = Some (?w1, ?c1) |- _ =>
      let B1 := fresh "B" in let B2 := fresh "B" in
      destruct (V3 h1 w1 c1 (ex_intro _ r1 (conj A1 P1))) as [B1 B2];
      inst_mw w1;
      split; [wkfun; lia|];
      destruct B2 as [B2|[B2|B2]];
      [ | right; left; wkfun; lia | right; right; rewrite ?B2; reflexivity ]
  end.

Lemma exec_W3 s o : GS s -> W8 s -> W5 s -> W3 s -> W3 (fst (exec s o)).
Proof.
  intros (N1&N2&FO&RO&SC&RL) V8 V5 V3. unfold W3, spend in *. destruct o; symex_w; try assumption.
  all: wl_mono.
  all: intros h1 w1 c1 (r1 & A1 & P1); ag; somes; cbn [with_closed with_async with_reg hpend] in *; try discriminate.
  all: try w3leaf V3.
  all: somes.
  all: try (left; reflexivity).
  all: try (left; assumption).
  all: try (right; right; reflexivity).
  all: try (split; [lia | left; reflexivity]).
  all: try (right; left; rewrite ?N.eqb_refl; lia).
  all: bools; kinds.
  all: try match goal with
       | A1 : aget ?h1 (hs _) = Some ?r1, P1 : hpend ?r1 = Some _ |- _ =>
           let HR := fresh "HR" in let T1 := fresh "T" in
           assert (HR : hreg r1 = true) by (apply (V8 _ _ A1); rewrite P1; discriminate);
           destruct (proj2 (V8 _ _ A1) HR) as [T1 _]
       end.
  all: try (exfalso; match goal with
       | NE : ?h1 <> ?h, A1 : aget ?h1 (hs _) = Some ?r1, T1 : htx ?r1 = false,
         A : aget ?h (hs _) = Some ?r, T : htx ?r = false |- _ =>
           apply NE; rewrite (RO _ _ A1 T1), (RO _ _ A T); reflexivity
       end).
  all: try (right; right;
            match goal with |- multi ?s0 = true => destruct (multi s0) eqn:M; [reflexivity|exfalso] end;
            match goal with
            | A : aget ?f (fs _) = Some ?f0, K : is_recv_kind (fk ?f0) = true,
              A1 : aget ?h1 (hs _) = Some ?r1, HR : hreg ?r1 = true |- _ =>
                rewrite (V5 M f f0 h1 r1 A K A1) in HR; discriminate HR
            end).
Qed.


