(* Proofs/MpscBSend.v — C06 for the bounded-MPSC K2 model, part 2: the async send-waiter queue
   invariants S1..S5 (definitions in Chan/MpscBSpec.v) for all op/poll/drop histories. *)
From Fibre Require Import Common.Base Chan.MpscB Chan.MpscBSpec Proofs.MpscBBase Proofs.MpscBInv Proofs.MpscBProofs Proofs.MpscBWake.
From Coq Require Import ZifyBool ZifyNat ZifyN.
Ltac Zify.zify_post_hook ::= Z.div_mod_to_equations.

Definition nf (f : N) (l : list (N * N)) := filter (fun p => negb (fst p =? f)) l.

Lemma nf_in f l x w : In (x, w) (nf f l) <-> In (x, w) l /\ x <> f.
Proof.
  unfold nf. rewrite filter_In. cbn [fst]. split; intros [A B]; split; auto.
  - apply negb_true_iff, N.eqb_neq in B. exact B.
  - apply negb_true_iff, N.eqb_neq. exact B.
Qed.

Lemma nf_keys f l x : In x (map fst (nf f l)) <-> In x (map fst l) /\ x <> f.
Proof.
  rewrite !in_map_iff. split.
  - intros ([a b]&E&I). cbn in E. subst. apply nf_in in I. destruct I. split; [exists (x, b); auto | auto].
  - intros (([a b]&E&I)&NE). cbn in E. subst. exists (x, b). split; [reflexivity|]. apply nf_in. auto.
Qed.

Lemma nf_nodup f l : NoDup (map fst l) -> NoDup (map fst (nf f l)).
Proof.
  unfold nf. induction l as [|[a b] t IH]; cbn [map filter fst]; intros H; [constructor|].
  inversion H as [|? ? Hni Hnd]; subst.
  destruct (a =? f); cbn [negb map fst]; [apply IH; exact Hnd|].
  constructor; [|apply IH; exact Hnd].
  intros Hi. apply (nf_keys f t a) in Hi. destruct Hi. contradiction.
Qed.

Lemma nodup_snoc (l : list N) x : NoDup l -> ~ In x l -> NoDup (l ++ [x]).
Proof.
  induction l as [|a t IH]; cbn [app]; intros H Hn; [constructor; [intros []|constructor]|].
  inversion H as [|? ? Hni Hnd]; subst. constructor.
  - intros Hi. apply in_app_or in Hi. destruct Hi as [Hi|[Hi|[]]]; [contradiction|].
    subst. apply Hn. left. reflexivity.
  - apply IH; [exact Hnd|]. intros Hi. apply Hn. right. exact Hi.
Qed.

Lemma nf_snoc_nodup f w l : NoDup (map fst l) -> NoDup (map fst (nf f l ++ [(f, w)])).
Proof.
  intros H. rewrite map_app. cbn [map fst]. apply nodup_snoc; [apply nf_nodup; exact H|].
  intros Hi. apply nf_keys in Hi. destruct Hi. congruence.
Qed.

Ltac foldnf :=
  repeat match goal with
  | |- context [filter (fun p => negb (fst p =? ?f)) ?l] =>
      change (filter (fun p => negb (fst p =? f)) l) with (nf f l)
  | H : context [filter (fun p => negb (fst p =? ?f)) ?l] |- _ =>
      change (filter (fun p => negb (fst p =? f)) l) with (nf f l) in H
  end.


Lemma in_sq_false f l : existsb (fun p : N * N => fst p =? f) l = false <-> ~ In f (map fst l).
Proof.
  induction l as [|[a b] t IH]; cbn [existsb map fst In]; [tauto|].
  destruct (N.eqb_spec a f) as [->|NE]; cbn [orb].
  - split; [discriminate | intros H; exfalso; apply H; left; reflexivity].
  - rewrite IH. split; [intros H [E|I]; [congruence | auto] | intros H I; apply H; right; exact I].
Qed.

(** publishing progress: pops and wakes the front async send waiter *)
Lemma publish_SI s : SI s -> SI (publish s).
Proof.
  intros (V1&V2&V3&V4&V5). unfold publish, notify_senders, wake.
  cbn [sq set_unpub]. destruct (sq s) as [|[f0 w0] t] eqn:E.
  - unfold SI, S1, S2, S3, S4, S5, psend, in_sq in *. cb. rewrite ?E in *.
    split; [intros f w I; contradiction|]. split; [constructor|].
    split; [intros f w c P; destruct (V3 f w c P) as [A [B|B]]; [contradiction | split; [exact A | right; exact B]]|].
    split; [auto|]. intros _ H. contradiction.
  - assert (ND : ~ In f0 (map fst t) /\ NoDup (map fst t)).
    { unfold S2 in V2. rewrite E in V2. cbn [map fst] in V2. inversion V2; auto. }
    destruct ND as [NI ND].
    unfold SI, S1, S2, S3, S4, S5, psend, in_sq in *. cb. rewrite ?E in *.
    split; [intros f w I; apply V1; right; exact I|].
    split; [exact ND|].
    split.
    { intros f w c P. destruct (V3 f w c P) as [A [B|B]].
      - destruct B as [B|B].
        + inversion B; subst. rewrite N.eqb_refl. split; [lia | right; lia].
        + split; [destruct (w =? w0); lia | left; exact B].
      - split; [destruct (w =? w0); lia | right; destruct (w =? w0); lia]. }
    split; [intros R; specialize (V4 R); discriminate V4|].
    intros L NE. right. right. destruct (V1 f0 w0 (or_introl eq_refl)) as (c&P).
    exists f0, w0, c. split; [exact P|]. apply in_sq_false. exact NI.
Qed.

Lemma flush_SI s : SI s -> SI (flush s).
Proof. intros H. unfold flush. destruct (0 <? unpub s); [apply publish_SI|]; exact H. Qed.

Lemma deq1_SI s : SI s -> SI (fst (deq1 s)).
Proof.
  intros H. unfold deq1. destruct (q s) as [|v r] eqn:E; cbn [fst]; [exact H|].
  assert (H1 : SI (set_rcv (set_unpub (set_q s r) (unpub s + 1)) (rcv s ++ [v]))).
  { destruct H as (V1&V2&V3&V4&V5). unfold SI, S1, S2, S3, S4, S5, psend, in_sq in *. cb.
    split; [exact V1|]. split; [exact V2|]. split; [exact V3|]. split; [exact V4|].
    intros L NE. right. left. lia. }
  match goal with |- SI (if ?c then _ else _) => destruct c end; [apply publish_SI|]; exact H1.
Qed.

Lemma deqn_SI n : forall s, SI s -> SI (fst (deqn n s)).
Proof.
  induction n as [|n IH]; intros s H; cbn [deqn fst]; [exact H|].
  pose proof (deq1_SI s H) as H1. destruct (deq1 s) as [s1 [v|]]; cbn [fst] in *; [|exact H1].
  specialize (IH s1 H1). destruct (deqn n s1). exact IH.
Qed.

(** [deqn] in a goal whose context has [HSI : SI s]: bring the invariant along to the new state *)
Ltac dm_deqn_si :=
  match goal with
  | HSI : SI ?s |- context [match deqn ?n ?s with _ => _ end] =>
      let F := fresh "F" in let Q := fresh "Q" in let E := fresh "E" in let I0 := fresh "SI0" in
      pose proof (deqn_frame n s) as F; pose proof (deqn_q n s) as Q; pose proof (deqn_SI n s HSI) as I0;
      destruct (deqn n s) as [? ?] eqn:E; cbn [fst snd] in F, Q, I0; unfold deq_frame in F;
      unfold SI, S1, S2, S3, S4, S5, psend, in_sq in I0; rewrite F in I0; cbh;
      rewrite F; cb
  end.

Ltac symex_si :=
  cbn [exec]; unf; unfold flush, publish, notify_senders, wake in *;
  repeat (cb; first [dm_wl | dm_any | dm_deqn_si
                    | dm_deq1_unfold; unfold flush, publish, notify_senders, wake in * ]); cb.

Lemma exec_S1 s o : GS s -> SI s -> S1 (fst (exec s o)).
Proof.
  intros (N1&N2&FO&RO&SC&RL) HSI. pose proof HSI as (V1&V2&V3&V4&V5).
  destruct o; symex_si; try assumption.
  all: foldnf.
  all: unfold S1, psend in *; cb.
  all: try (intros f1 w1 I1; contradiction).
  all: intros f1 w1 I1.
  all: try (apply in_app_or in I1; destruct I1 as [I1|[I1|[]]]).
  all: repeat match goal with H : In _ (nf _ _) |- _ => apply nf_in in H; destruct H end.
  all: try match goal with H : (_, _) = (_, _) |- _ => inversion H; subst; clear H end.
  all: try (destruct SI0 as (U1&U2&U3&U4&U5)).
  all: try match goal with
       | H : sq ?s0 = _ :: ?l, I : In ?x ?l |- _ =>
           assert (In x (sq s0)) by (rewrite H; right; exact I)
       end.
  all: try match goal with
       | U1 : forall f w : N, In (f, w) (_ :: ?l) -> _, I : In (?f1, ?w1) ?l |- _ =>
           let c := fresh "c" in let fr := fresh "fr" in
           destruct (U1 f1 w1 (or_intror I)) as (c & fr & ? & ? & ?)
       | U1 : forall f w : N, In (f, w) ?l -> _, I : In (?f1, ?w1) ?l |- _ =>
           let c := fresh "c" in let fr := fresh "fr" in
           destruct (U1 f1 w1 I) as (c & fr & ? & ? & ?)
       | I : In (?f1, ?w1) (sq _) |- _ =>
           let c := fresh "c" in let fr := fresh "fr" in
           destruct (V1 f1 w1 I) as (c & fr & ? & ? & ?)
       end.
  all: ag; somes.
  all: repeat match goal with E : fk _ = _ |- _ => rewrite E in * end; cbn [is_recv_kind] in *; try discriminate.
  all: try (eexists; eexists; split; [eassumption || reflexivity|]; cbn [fk fpend is_recv_kind]; split; [assumption || reflexivity | eassumption || reflexivity]).
Qed.

Lemma exec_S4 s o : SI s -> S4 (fst (exec s o)).
Proof.
  intros HSI. pose proof HSI as (V1&V2&V3&V4&V5).
  destruct o; symex_si; try assumption.
  all: foldnf.
  all: unfold S4 in *; cb.
  all: try (intros R; reflexivity).
  all: try (destruct SI0 as (U1&U2&U3&U4&U5)).
  all: intros R; try discriminate R.
  all: repeat match goal with H : sq _ = _ |- _ => rewrite H in * end.
  all: try (specialize (V4 R); try discriminate V4; rewrite ?V4; reflexivity).
  all: try (specialize (U4 R); try discriminate U4; rewrite ?U4; reflexivity).
  all: unfold tx_dead in *; bools; congruence.
Qed.

Lemma wake_list_lt l : forall s f w, In (f, w) l -> wk s w < wk (wake_list l s) w.
Proof.
  induction l as [|[f0 w0] t IH]; intros s f w I; [contradiction|]. cbn [wake_list].
  destruct I as [E|I].
  - inversion E; subst. pose proof (wake_list_wk t (wake w s) w) as M. unfold wake in M at 1. cbn in M.
    rewrite N.eqb_refl in M. lia.
  - specialize (IH (wake w0 s) f w I). unfold wake in IH at 1. cbn in IH. destruct (w =? w0); lia.
Qed.

(** like [wl_mono], plus: every waiter in the list was woken *)
Ltac wl_mono2 :=
  repeat match goal with
  | H : ?WK = wk (wake_list ?l ?s0) |- _ =>
      let M := fresh "MW" in let L := fresh "WL" in
      pose proof (wake_list_wk l s0) as M; unfold wk_le in M; rewrite <- H in M;
      pose proof (wake_list_lt l s0) as L; rewrite <- H in L; cbh; clear H
  end.

Ltac s3leaf V3 :=
  match goal with
  | A1 : aget ?f1 (fs ?s) = Some ?fr1, K1 : is_recv_kind (fk ?fr1) = false,
    P1 : fpend ?fr1 = Some (?w1, ?c1) |- _ =>
      let B1 := fresh "B" in let B2 := fresh "B" in
      destruct (V3 f1 w1 c1 (ex_intro _ fr1 (conj A1 (conj K1 P1)))) as [B1 B2]
  end.

Lemma exec_S3 s o : GS s -> SI s -> S3 (fst (exec s o)).
Proof.
  intros (N1&N2&FO&RO&SC&RL) HSI. pose proof HSI as (V1&V2&V3&V4&V5).
  destruct o; symex_si; try assumption.
  all: foldnf.
  all: try (destruct SI0 as (U1&U2&U3&U4&U5)).
  all: wl_mono2.
  all: unfold S3, psend in *; cb.
  all: intros f1 w1 c1 (fr1 & A1 & K1 & P1); ag; somes; cbn [fh fk fpend is_recv_kind] in *; somes; try discriminate.
  all: try (s3leaf U3 || s3leaf V3).
  all: try (inst_mw w1).
  all: repeat match goal with H : sq _ = _ |- _ => rewrite H in * end; cbn [In] in *.
  all: split; [try (wkfun; lia)|].
  all: try match goal with B0 : _ \/ _ < _ |- _ => destruct B0 as [B0|B0]; [|right; wkfun; lia] end.
  all: try match goal with B0 : (_, _) = (_, _) \/ _ |- _ =>
         destruct B0 as [B0|B0]; [inversion B0; subst; right; rewrite ?N.eqb_refl; lia|] end.
  all: try (left; assumption).
  all: try (left; apply nf_in; split; assumption).
  all: try (left; apply in_or_app; left; apply nf_in; split; assumption).
  all: try (left; apply in_or_app; right; left; reflexivity).
  all: try (right; match goal with WL : forall f w : N, In (f, w) ?l -> _, I : In (?a, ?b) ?l |- _ =>
                     specialize (WL a b I); lia end).
  all: try (left; apply in_or_app; left; apply nf_in; split; [apply nf_in; split; assumption | assumption]).
  all: left; apply nf_in; split; [apply nf_in; split; assumption | assumption].
Qed.

Lemma exec_S2 s o : SI s -> S2 (fst (exec s o)).
Proof.
  intros HSI. pose proof HSI as (V1&V2&V3&V4&V5).
  destruct o; symex_si; try assumption.
  all: foldnf.
  all: try (destruct SI0 as (U1&U2&U3&U4&U5)).
  all: unfold S2 in *; cb.
  all: repeat match goal with H : sq ?s0 = _ |- _ => rewrite H in * end.
  all: cbn [map fst] in *; try assumption; try constructor.
  all: try (inversion V2; subst; assumption).
  all: try (inversion U2; subst; assumption).
  all: try (apply nf_nodup; assumption).
  all: try (apply nf_snoc_nodup; assumption).
  all: try (apply nf_snoc_nodup, nf_nodup; assumption).
  all: try (apply nf_nodup, nf_nodup; assumption).
Qed.
