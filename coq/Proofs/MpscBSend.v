(* Proofs/MpscBSend.v — C06 for the bounded-MPSC K2 model, part 2: the async send-waiter queue
   invariants S1..S5 (definitions in Chan/MpscBSpec.v) for all op/poll/drop histories. *)
From Fibre Require Import Common.Base Chan.MpscB Chan.MpscBSpec Proofs.MpscBBase Proofs.MpscBInv Proofs.MpscBProofs Proofs.MpscBWake.
From Coq Require Import ZifyBool ZifyNat ZifyN.
Ltac Zify.zify_post_hook ::= Z.div_mod_to_equations.

Definition nf (f : N) (l : list (N * N)) := filter (fun p => negb (fst p =? f)) l.

Lemma nf_in f l x w : In (x, w) (nf f l) <-> In (x, w) l /\ x <> f.
Proof.
  unfold nf. rewrite filter_In. cbn [fst]. split; intros [A B]; split; auto.
  - apply negb_true_iff, N.eqb_neq in B. exact B.
  - apply negb_true_iff, N.eqb_neq. exact B.
Qed.

Lemma nf_keys f l x : In x (map fst (nf f l)) <-> In x (map fst l) /\ x <> f.
Proof.
  rewrite !in_map_iff. split.
  - intros ([a b]&E&I). cbn in E. subst. apply nf_in in I. destruct I. split; [exists (x, b); auto | auto].
  - intros (([a b]&E&I)&NE). cbn in E. subst. exists (x, b). split; [reflexivity|]. apply nf_in. auto.
Qed.

Lemma nf_nodup f l : NoDup (map fst l) -> NoDup (map fst (nf f l)).
Proof.
  unfold nf. induction l as [|[a b] t IH]; cbn [map filter fst]; intros H; [constructor|].
  inversion H as [|? ? Hni Hnd]; subst.
  destruct (a =? f); cbn [negb map fst]; [apply IH; exact Hnd|].
  constructor; [|apply IH; exact Hnd].
  intros Hi. apply (nf_keys f t a) in Hi. destruct Hi. contradiction.
Qed.

Lemma nodup_snoc (l : list N) x : NoDup l -> ~ In x l -> NoDup (l ++ [x]).
Proof.
  induction l as [|a t IH]; cbn [app]; intros H Hn; [constructor; [intros []|constructor]|].
  inversion H as [|? ? Hni Hnd]; subst. constructor.
  - intros Hi. apply in_app_or in Hi. destruct Hi as [Hi|[Hi|[]]]; [contradiction|].
    subst. apply Hn. left. reflexivity.
  - apply IH; [exact Hnd|]. intros Hi. apply Hn. right. exact Hi.
Qed.

Lemma nf_snoc_nodup f w l : NoDup (map fst l) -> NoDup (map fst (nf f l ++ [(f, w)])).
Proof.
  intros H. rewrite map_app. cbn [map fst]. apply nodup_snoc; [apply nf_nodup; exact H|].
  intros Hi. apply nf_keys in Hi. destruct Hi. congruence.
Qed.

Ltac foldnf :=
  repeat match goal with
  | |- context [filter (fun p => negb (fst p =? ?f)) ?l] =>
      change (filter (fun p => negb (fst p =? f)) l) with (nf f l)
  | H : context [filter (fun p => negb (fst p =? ?f)) ?l] |- _ =>
      change (filter (fun p => negb (fst p =? f)) l) with (nf f l) in H
  end.


Lemma in_sq_false f l : existsb (fun p : N * N => fst p =? f) l = false <-> ~ In f (map fst l).
Proof.
  induction l as [|[a b] t IH]; cbn [existsb map fst In]; [tauto|].
  destruct (N.eqb_spec a f) as [->|NE]; cbn [orb].
  - split; [discriminate | intros H; exfalso; apply H; left; reflexivity].
  - rewrite IH. split; [intros H [E|I]; [congruence | auto] | intros H I; apply H; right; exact I].
Qed.

(** publishing progress: pops and wakes the front async send waiter *)
Lemma publish_SI s : SI s -> SI (publish s).
Proof.
  intros (V1&V2&V3&V4&V5). unfold publish, notify_senders, wake.
  cbn [sq set_unpub]. destruct (sq s) as [|[f0 w0] t] eqn:E.
  - unfold SI, S1, S2, S3, S4, S5, psend, in_sq in *. cb. rewrite ?E in *.
    split; [intros f w I; contradiction|]. split; [constructor|].
    split; [intros f w c P; destruct (V3 f w c P) as [A [B|B]]; [contradiction | split; [exact A | right; exact B]]|].
    split; [auto|]. intros _ H. contradiction.
  - assert (ND : ~ In f0 (map fst t) /\ NoDup (map fst t)).
    { unfold S2 in V2. rewrite E in V2. cbn [map fst] in V2. inversion V2; auto. }
    destruct ND as [NI ND].
    unfold SI, S1, S2, S3, S4, S5, psend, in_sq in *. cb. rewrite ?E in *.
    split; [intros f w I; apply V1; right; exact I|].
    split; [exact ND|].
    split.
    { intros f w c P. destruct (V3 f w c P) as [A [B|B]].
      - destruct B as [B|B].
        + inversion B; subst. rewrite N.eqb_refl. split; [lia | right; lia].
        + split; [destruct (w =? w0); lia | left; exact B].
      - split; [destruct (w =? w0); lia | right; destruct (w =? w0); lia]. }
    split; [intros R; specialize (V4 R); discriminate V4|].
    intros L NE. right. right. destruct (V1 f0 w0 (or_introl eq_refl)) as (c&P).
    exists f0, w0, c. split; [exact P|]. apply in_sq_false. exact NI.
Qed.

Lemma flush_SI s : SI s -> SI (flush s).
Proof. intros H. unfold flush. destruct (0 <? unpub s); [apply publish_SI|]; exact H. Qed.

Lemma deq1_SI s : SI s -> SI (fst (deq1 s)).
Proof.
  intros H. unfold deq1. destruct (q s) as [|v r] eqn:E; cbn [fst]; [exact H|].
  assert (H1 : SI (set_rcv (set_unpub (set_q s r) (unpub s + 1)) (rcv s ++ [v]))).
  { destruct H as (V1&V2&V3&V4&V5). unfold SI, S1, S2, S3, S4, S5, psend, in_sq in *. cb.
    split; [exact V1|]. split; [exact V2|]. split; [exact V3|]. split; [exact V4|].
    intros L NE. right. left. lia. }
  match goal with |- SI (if ?c then _ else _) => destruct c end; [apply publish_SI|]; exact H1.
Qed.

Lemma deqn_SI n : forall s, SI s -> SI (fst (deqn n s)).
Proof.
  induction n as [|n IH]; intros s H; cbn [deqn fst]; [exact H|].
  pose proof (deq1_SI s H) as H1. destruct (deq1 s) as [s1 [v|]]; cbn [fst] in *; [|exact H1].
  specialize (IH s1 H1). destruct (deqn n s1). exact IH.
Qed.

(** [deqn] in a goal whose context has [HSI : SI s]: bring the invariant along to the new state *)
Ltac dm_deqn_si :=
  match goal with
  | HSI : SI ?s |- context [match deqn ?n ?s with _ => _ end] =>
      let F := fresh "F" in let Q := fresh "Q" in let E := fresh "E" in let I0 := fresh "SI0" in
      pose proof (deqn_frame n s) as F; pose proof (deqn_q n s) as Q; pose proof (deqn_SI n s HSI) as I0;
      destruct (deqn n s) as [? ?] eqn:E; cbn [fst snd] in F, Q, I0; unfold deq_frame in F;
      unfold SI, S1, S2, S3, S4, S5, psend, in_sq in I0; rewrite F in I0; cbh;
      rewrite F; cb
  end.

Ltac symex_si :=
  cbn [exec]; unf; unfold flush, publish, notify_senders, wake in *;
  repeat (cb; first [dm_wl | dm_any | dm_deqn_si
                    | dm_deq1_unfold; unfold flush, publish, notify_senders, wake in * ]); cb.

Lemma exec_S1 s o : GS s -> SI s -> S1 (fst (exec s o)).
Proof.
  intros (N1&N2&FO&RO&SC&RL) HSI. pose proof HSI as (V1&V2&V3&V4&V5).
  destruct o; symex_si; try assumption.
  all: foldnf.
  all: unfold S1, psend in *; cb.
  all: try (intros f1 w1 I1; contradiction).
  all: intros f1 w1 I1.
  all: try (apply in_app_or in I1; destruct I1 as [I1|[I1|[]]]).
  all: repeat match goal with H : In _ (nf _ _) |- _ => apply nf_in in H; destruct H end.
  all: try match goal with H : (_, _) = (_, _) |- _ => inversion H; subst; clear H end.
  all: try (destruct SI0 as (U1&U2&U3&U4&U5)).
  all: try match goal with
       | H : sq ?s0 = _ :: ?l, I : In ?x ?l |- _ =>
           assert (In x (sq s0)) by (rewrite H; right; exact I)
       end.
  all: try match goal with
       | U1 : forall f w : N, In (f, w) (_ :: ?l) -> _, I : In (?f1, ?w1) ?l |- _ =>
           let c := fresh "c" in let fr := fresh "fr" in
           destruct (U1 f1 w1 (or_intror I)) as (c & fr & ? & ? & ?)
       | U1 : forall f w : N, In (f, w) ?l -> _, I : In (?f1, ?w1) ?l |- _ =>
           let c := fresh "c" in let fr := fresh "fr" in
           destruct (U1 f1 w1 I) as (c & fr & ? & ? & ?)
       | I : In (?f1, ?w1) (sq _) |- _ =>
           let c := fresh "c" in let fr := fresh "fr" in
           destruct (V1 f1 w1 I) as (c & fr & ? & ? & ?)
       end.
  all: ag; somes.
  all: repeat match goal with E : fk _ = _ |- _ => rewrite E in * end; cbn [is_recv_kind] in *; try discriminate.
  all: try (eexists; eexists; split; [eassumption || reflexivity|]; cbn [fk fpend is_recv_kind]; split; [assumption || reflexivity | eassumption || reflexivity]).
Qed.

Lemma exec_S4 s o : SI s -> S4 (fst (exec s o)).
Proof.
  intros HSI. pose proof HSI as (V1&V2&V3&V4&V5).
  destruct o; symex_si; try assumption.
  all: foldnf.
  all: unfold S4 in *; cb.
  all: try (intros R; reflexivity).
  all: try (destruct SI0 as (U1&U2&U3&U4&U5)).
  all: intros R; try discriminate R.
  all: repeat match goal with H : sq _ = _ |- _ => rewrite H in * end.
  all: try (specialize (V4 R); try discriminate V4; rewrite ?V4; reflexivity).
  all: try (specialize (U4 R); try discriminate U4; rewrite ?U4; reflexivity).
  all: unfold tx_dead in *; bools; congruence.
Qed.

Lemma wake_list_lt l : forall s f w, In (f, w) l -> wk s w < wk (wake_list l s) w.
Proof.
  induction l as [|[f0 w0] t IH]; intros s f w I; [contradiction|]. cbn [wake_list].
  destruct I as [E|I].
  - inversion E; subst. pose proof (wake_list_wk t (wake w s) w) as M. unfold wake in M at 1. cbn in M.
    rewrite N.eqb_refl in M. lia.
  - specialize (IH (wake w0 s) f w I). unfold wake in IH at 1. cbn in IH. destruct (w =? w0); lia.
Qed.

(** like [wl_mono], plus: every waiter in the list was woken *)
Ltac wl_mono2 :=
  repeat match goal with
  | H : ?WK = wk (wake_list ?l ?s0) |- _ =>
      let M := fresh "MW" in let L := fresh "WL" in
      pose proof (wake_list_wk l s0) as M; unfold wk_le in M; rewrite <- H in M;
      pose proof (wake_list_lt l s0) as L; rewrite <- H in L; cbh; clear H
  end.

Ltac s3leaf V3 :=
  match goal with
  | A1 : aget ?f1 (fs ?s) = Some ?fr1, K1 : is_recv_kind (fk ?fr1) = false,
    P1 : fpend ?fr1 = Some (?w1, ?c1) |- _ =>
      let B1 := fresh "B" in let B2 := fresh "B" in
      destruct (V3 f1 w1 c1 (ex_intro _ fr1 (conj A1 (conj K1 P1)))) as [B1 B2]
  end.

Lemma exec_S3 s o : GS s -> SI s -> S3 (fst (exec s o)).
Proof.
  intros (N1&N2&FO&RO&SC&RL) HSI. pose proof HSI as (V1&V2&V3&V4&V5).
  destruct o; symex_si; try assumption.
  all: foldnf.
  all: try (destruct SI0 as (U1&U2&U3&U4&U5)).
  all: wl_mono2.
  all: unfold S3, psend in *; cb.
  all: intros f1 w1 c1 (fr1 & A1 & K1 & P1); ag; somes; cbn [fh fk fpend is_recv_kind] in *; somes; try discriminate.
  all: try (s3leaf U3 || s3leaf V3).
  all: try (inst_mw w1).
  all: repeat match goal with H : sq _ = _ |- _ => rewrite H in * end; cbn [In] in *.
  all: split; [try (wkfun; lia)|].
  all: try match goal with B0 : _ \/ _ < _ |- _ => destruct B0 as [B0|B0]; [|right; wkfun; lia] end.
  all: try match goal with B0 : (_, _) = (_, _) \/ _ |- _ =>
         destruct B0 as [B0|B0]; [inversion B0; subst; right; rewrite ?N.eqb_refl; lia|] end.
  all: try (left; assumption).
  all: try (left; apply nf_in; split; assumption).
  all: try (left; apply in_or_app; left; apply nf_in; split; assumption).
  all: try (left; apply in_or_app; right; left; reflexivity).
  all: try (right; match goal with WL : forall f w : N, In (f, w) ?l -> _, I : In (?a, ?b) ?l |- _ =>
                     specialize (WL a b I); lia end).
  all: try (left; apply in_or_app; left; apply nf_in; split; [apply nf_in; split; assumption | assumption]).
  all: left; apply nf_in; split; [apply nf_in; split; assumption | assumption].
Qed.

Lemma exec_S2 s o : SI s -> S2 (fst (exec s o)).
Proof.
  intros HSI. pose proof HSI as (V1&V2&V3&V4&V5).
  destruct o; symex_si; try assumption.
  all: foldnf.
  all: try (destruct SI0 as (U1&U2&U3&U4&U5)).
  all: unfold S2 in *; cb.
  all: repeat match goal with H : sq ?s0 = _ |- _ => rewrite H in * end.
  all: cbn [map fst] in *; try assumption; try constructor.
  all: try (inversion V2; subst; assumption).
  all: try (inversion U2; subst; assumption).
  all: try (apply nf_nodup; assumption).
  all: try (apply nf_snoc_nodup; assumption).
  all: try (apply nf_snoc_nodup, nf_nodup; assumption).
  all: try (apply nf_nodup, nf_nodup; assumption).
Qed.

(* ------------------------------------------------------------------ *)
(** * S5: who holds the wake *)

Lemma nf_nonempty f l : nf f l <> [] -> l <> [].
Proof. intros H E. subst. apply H. reflexivity. Qed.

Lemma in_sq_nf g f l : existsb (fun p : N * N => fst p =? g) l = false ->
  existsb (fun p : N * N => fst p =? g) (nf f l) = false.
Proof.
  intros H. apply in_sq_false. apply in_sq_false in H. intros I. apply nf_keys in I. destruct I. contradiction.
Qed.

Lemma in_sq_snoc g f w l : g <> f -> existsb (fun p : N * N => fst p =? g) l = false ->
  existsb (fun p : N * N => fst p =? g) (l ++ [(f, w)]) = false.
Proof.
  intros NE H. rewrite existsb_app, H. cbn. destruct (N.eqb_spec f g); [congruence | reflexivity].
Qed.

Definition pb (l : list (N * frec)) (g w c : N) : Prop :=
  exists fr, aget g l = Some fr /\ is_recv_kind (fk fr) = false /\ fpend fr = Some (w, c).

Lemma pb_aset_other l f r g w c : g <> f -> (pb (aset f r l) g w c <-> pb l g w c).
Proof. intros NE. unfold pb. rewrite (aget_aset_neq f g r l NE). tauto. Qed.

Lemma pb_adel_other l f g w c : g <> f -> (pb (adel f l) g w c <-> pb l g w c).
Proof. intros NE. unfold pb. rewrite (aget_adel_neq f g l NE). tauto. Qed.

(** replacing / adding an entry that is not a pending send future, over one that was not either *)
Lemma pb_aset_inert l f r g w c :
  (is_recv_kind (fk r) = true \/ fpend r = None) ->
  (forall w' c', ~ pb l f w' c') ->
  (pb (aset f r l) g w c <-> pb l g w c).
Proof.
  intros NP OLD. destruct (N.eq_dec g f) as [->|NE]; [|apply pb_aset_other; exact NE].
  split.
  - intros (fr & A & K & P). rewrite aget_aset_eq in A. inversion A; subst.
    destruct NP as [X|X]; congruence.
  - intros H. exfalso. exact (OLD _ _ H).
Qed.

Lemma not_pb_none l f w c : aget f l = None -> ~ pb l f w c.
Proof. intros E (fr & A & _). congruence. Qed.

Lemma not_pb_recv l f fr w c : aget f l = Some fr -> is_recv_kind (fk fr) = true -> ~ pb l f w c.
Proof. intros E K (fr' & A & K' & _). rewrite E in A. inversion A; subst. congruence. Qed.

Lemma not_pb_nopend l f fr w c : aget f l = Some fr -> fpend fr = None -> ~ pb l f w c.
Proof. intros E K (fr' & A & _ & P). rewrite E in A. inversion A; subst. congruence. Qed.

(** "a popped waiter holds the wake": a pending send future that is not queued *)
Definition popped (l : list (N * frec)) (sqv : list (N * N)) : Prop :=
  exists g w c, pb l g w c /\ existsb (fun p : N * N => fst p =? g) sqv = false.

Lemma popped_aset_inert l f r sqv :
  (is_recv_kind (fk r) = true \/ fpend r = None) -> (forall w' c', ~ pb l f w' c') ->
  (popped (aset f r l) sqv <-> popped l sqv).
Proof.
  intros A B. unfold popped. split; intros (g & w & c & P & I); exists g, w, c; split; auto.
  - apply (pb_aset_inert l f r g w c A B). exact P.
  - apply (pb_aset_inert l f r g w c A B). exact P.
Qed.

Lemma popped_pop l g w t : (exists c, pb l g w c) -> ~ In g (map fst t) -> popped l t.
Proof. intros (c & P) NI. exists g, w, c. split; [exact P | apply in_sq_false; exact NI]. Qed.

(** the future f leaves the queue/table; the wake holder is somebody else *)
Lemma popped_other l f sqv (l' : list (N * frec)) :
  (forall g w c, g <> f -> pb l g w c -> pb l' g w c) ->
  (existsb (fun p : N * N => fst p =? f) sqv = true \/ forall w c, ~ pb l f w c) ->
  popped l sqv -> popped l' (nf f sqv).
Proof.
  intros K Q (g & w & c & P & I).
  assert (NE : g <> f).
  { intros ->. destruct Q as [Q|Q]; [congruence | exact (Q _ _ P)]. }
  exists g, w, c. split; [apply K; assumption | apply in_sq_nf; exact I].
Qed.

Lemma pb_keep_aset l f r g w c : g <> f -> pb l g w c -> pb (aset f r l) g w c.
Proof. intros NE. apply pb_aset_other. exact NE. Qed.

Lemma pb_keep_adel l f g w c : g <> f -> pb l g w c -> pb (adel f l) g w c.
Proof. intros NE. apply pb_adel_other. exact NE. Qed.

Lemma popped_adel_inert l f sqv : (forall w c, ~ pb l f w c) -> popped l sqv -> popped (adel f l) sqv.
Proof.
  intros B (g & w & c & P & I). exists g, w, c. split; [|exact I].
  apply pb_adel_other; [|exact P]. intros ->. exact (B _ _ P).
Qed.

Lemma slack_zero (rest : list N) s :
  is_nil (firstn (N.to_nat (N.min (len rest) (hot_slack s))) rest) = true ->
  is_nil (skipn (N.to_nat (N.min (len rest) (hot_slack s))) rest) = false ->
  hot_slack s = 0.
Proof.
  intros A B. apply is_nil_true in A. destruct rest as [|x t]; [cbn in B; rewrite skipn_nil in B; discriminate|].
  destruct (N.to_nat (N.min (len (x :: t)) (hot_slack s))) eqn:E; [|cbn in A; discriminate].
  rewrite len_cons in E. lia.
Qed.

Lemma slack_zero_busy s : 1 <= cap s -> hot_slack s = 0 -> q s <> [] \/ 0 < unpub s.
Proof.
  unfold hot_slack. intros C H. destruct (q s) eqn:E; [right; rewrite len_nil in H; lia | left; discriminate].
Qed.

Ltac foldpop :=
  repeat match goal with
  | |- ?A \/ ?B \/ (exists g w c : N,
         (exists fr : frec, aget g ?L = Some fr /\ is_recv_kind (fk fr) = false /\ fpend fr = Some (w, c)) /\
         existsb (fun p : N * N => fst p =? g) ?SQ = false) =>
      change (A \/ B \/ popped L SQ)
  | H : ?X -> ?Y -> ?A \/ ?B \/ (exists g w c : N,
         (exists fr : frec, aget g ?L = Some fr /\ is_recv_kind (fk fr) = false /\ fpend fr = Some (w, c)) /\
         existsb (fun p : N * N => fst p =? g) ?SQ = false) |- _ =>
      change (X -> Y -> A \/ B \/ popped L SQ) in H
  end.

(** a send_batch future that is Pending still holds items *)
Definition FB (s : st) : Prop := forall f fr sent total,
  aget f (fs s) = Some fr -> fk fr = FSendB [] sent total -> fpend fr = None.

Lemma exec_FB s o : FB s -> FB (fst (exec s o)).
Proof.
  intros V. unfold FB in *. destruct o; symex; try assumption.
  all: intros f1 fr1 sent1 total1 A1 K1; ag; somes; cbn [fk fpend] in *; try discriminate; try reflexivity.
  all: try (eapply V; eassumption).
  all: try match goal with H : FSendB _ _ _ = FSendB [] _ _ |- _ => inversion H; subst end.
  all: try match goal with H : is_nil ?l = false, E : ?l = [] |- _ => rewrite E in H; discriminate H end.
  all: try (repeat match goal with E : fk _ = _ |- _ => rewrite E in * end; eapply V; eassumption).
Qed.

Lemma exec_S5 s o : FB s -> G1 s -> GS s -> SI s -> S5 (fst (exec s o)).
Proof.
  intros VFB [C1 C2] (N1&N2&FO&RO&SC&RL) HSI. pose proof HSI as (V1&V2&V3&V4&V5).
  destruct o; symex_si; try assumption.
  all: foldnf.
  all: try (destruct SI0 as (U1&U2&U3&U4&U5)).
  all: unfold S5, S1, S3, S4, psend, in_sq in *; cb.
  all: intros L NE.
  all: try discriminate L.
  all: try (exfalso; apply NE; reflexivity).
  (* the queue grew *)
  all: try (left; intros X; apply app_eq_nil in X; destruct X; discriminate).
  all: try (left; intros X; apply app_eq_nil in X; destruct X as [_ X];
            match goal with H : is_nil _ = false |- _ => rewrite X in H; discriminate H end).
  all: try congruence.
  all: try (right; left; lia).
  all: unfold S2 in *.
  (* a publication popped the front waiter: it holds the wake *)
  all: try match goal with
       | H : sq ?s0 = (?g, ?w) :: ?l |- context [existsb _ ?l = false] =>
           right; right;
           first [ destruct (V1 g w ltac:(rewrite H; left; reflexivity)) as (c & P)
                 | destruct (U1 g w (or_introl eq_refl)) as (c & P) ];
           exists g, w, c; split; [exact P|]; apply in_sq_false;
           first [ rewrite H in V2; cbn [map fst] in V2; inversion V2; assumption
                 | cbn [map fst] in U2; inversion U2; assumption ]
       end.
  (* window closed: something is buffered or credit is unpublished *)
  all: try match goal with
       | H : window_open ?s0 = false |- _ =>
           unfold window_open in H; cbh; apply N.ltb_ge in H;
           destruct (q s0) eqn:EQ; [right; left; rewrite len_nil in H; lia | left; discriminate]
       end.
  all: rewrite ?adel_aset in *.
  (* last handle dropped while a sender is queued: impossible *)
  all: try match goal with
       | HN : is_nil (adel ?h (hs ?s0)) = true, NF : has_futs ?h ?s0 = false |- _ =>
           exfalso; destruct (sq s0) as [|[g w] t] eqn:ES; [congruence|];
           destruct (V1 g w ltac:(rewrite ?ES; left; reflexivity)) as (c & fr & A & _);
           destruct (FO _ _ A) as (r & B & _);
           pose proof (has_futs_false _ _ _ _ NF A) as X;
           apply is_nil_true in HN;
           assert (Y : aget (fh fr) (adel h (hs s0)) = Some r) by (rewrite aget_adel_neq; auto);
           rewrite HN in Y; discriminate Y
       end.
  all: foldpop.
  (* inert table updates *)
  all: try (rewrite popped_aset_inert;
            [ | cbn [fk fpend is_recv_kind]; auto
              | intros w' c';
                first [ apply not_pb_none; assumption
                      | eapply not_pb_recv; [eassumption | match goal with E : fk _ = _ |- _ => rewrite E; reflexivity end] ] ]).
  all: try (exact (V5 L NE)).
  all: try (exact (U5 L NE)).
  all: try match goal with
       | H : sq ?s0 = (?g, ?w) :: ?t |- _ \/ _ \/ popped _ ?t =>
           right; right; apply (popped_pop _ g w t);
           [ first [ apply V1; rewrite H; left; reflexivity | apply U1; left; reflexivity ]
           | first [ rewrite H in V2; cbn [map fst] in V2; inversion V2; assumption
                   | cbn [map fst] in U2; inversion U2; assumption ] ]
       end.
  all: try match goal with
       | NE : nf _ (nf _ (sq ?s0)) <> [] |- _ => pose proof (nf_nonempty _ _ (nf_nonempty _ _ NE)) as NE0
       | NE : nf _ (sq ?s0) <> [] |- _ => pose proof (nf_nonempty _ _ NE) as NE0
       | NE : sq ?s0 <> [] |- _ => pose proof NE as NE0
       end.
  all: try (destruct (V5 L NE0) as [X|[X|X]]; [left; exact X | right; left; exact X | right; right]).
  all: try (apply popped_adel_inert; [|exact X]; intros w' c';
            eapply not_pb_recv; [eassumption | match goal with E : fk _ = _ |- _ => rewrite E; reflexivity end]).
  all: try (eapply popped_other; [ | | exact X];
            [ intros g0 w0 c0 NG PG; first [apply pb_keep_aset | apply pb_keep_adel]; assumption | ]).
  all: try match goal with
       | |- existsb ?P ?l = true \/ _ =>
           destruct (existsb P l) eqn:IQ; [left; reflexivity | right];
           first [ intros w' c'; eapply not_pb_nopend; eassumption
                 | exfalso;
                   match goal with
                   | H : negb _ && negb (rdrop ?s0) = false |- _ =>
                       try rewrite IQ in H; cbn [negb andb] in H; apply negb_false_iff in H;
                       apply NE0; apply V4; exact H
                   end ]
       end.
  all: try match goal with
       | A : is_nil (firstn _ ?rest) = true, B : is_nil (skipn _ ?rest) = false |- _ =>
           destruct (slack_zero_busy _ C1 (slack_zero _ _ A B)) as [Z|Z]; [left; exact Z | right; left; exact Z]
       end.
  (* a batch future with nothing left is not pending *)
  right. intros w0 c0 (fr0 & A0 & K0 & P0).
  apply is_nil_true in Heqb1, Heqb2.
  pose proof (firstn_skipn (N.to_nat (N.min (len rest) (hot_slack s))) rest) as E.
  rewrite Heqb1, Heqb2 in E. cbn [app] in E. subst rest.
  rewrite Heqo in A0. inversion A0; subst. rewrite (VFB _ _ _ _ Heqo Heqf1) in P0. discriminate P0.
Qed.


(* ------------------------------------------------------------------ *)
(** * all histories *)

Lemma exec_SI s o : FB s -> G1 s -> GS s -> SI s -> SI (fst (exec s o)).
Proof.
  intros B C G H.
  split; [apply (exec_S1 s o G H)|].
  split; [apply (exec_S2 s o H)|].
  split; [apply (exec_S3 s o G H)|].
  split; [apply (exec_S4 s o H) | apply (exec_S5 s o B C G H)].
Qed.

Lemma init_SI a c f3 fc : SI (init a c f3 fc) /\ FB (init a c f3 fc).
Proof.
  unfold SI, S1, S2, S3, S4, S5, FB, psend, in_sq, init. cb.
  split; [|intros f fr sent total A; discriminate A].
  split; [intros f w I; contradiction|]. split; [constructor|].
  split; [intros f w c0 (fr & A & _); discriminate A|].
  split; [reflexivity|]. intros _ H. contradiction.
Qed.

Lemma reach_SI : forall s, reach s -> SI s /\ FB s.
Proof.
  apply (reach_ind' (fun s => SI s /\ FB s)).
  - apply init_SI.
  - intros s0 o R [H B]. rewrite step_fst.
    destruct (reach_inv s0 R) as (C & G & _).
    split; [apply exec_SI; assumption | apply exec_FB; exact B].
Qed.

(** C06, send side.  (1) disconnect: once the receiver is gone every pending send future has been woken *)
Theorem send_disconnect_wake s f w c : reach s -> rdrop s = true -> psend s f w c -> c < wk s w.
Proof.
  intros R RD P. destruct (reach_SI s R) as [(V1&V2&V3&V4&V5) _].
  destruct (V3 f w c P) as [_ [I|X]]; [|exact X]. rewrite (V4 RD) in I. contradiction.
Qed.

(** (2) every pending send future is either still queued for a wake or has been woken *)
Theorem send_parked_or_woken s f w c : reach s -> psend s f w c -> In (f, w) (sq s) \/ c < wk s w.
Proof. intros R P. destruct (reach_SI s R) as [(V1&V2&V3&V4&V5) _]. apply (V3 f w c P). Qed.

(** (3) no dangling registration: every queue entry is a live pending send future (so dropping a
    future leaves nothing pointing at it) *)
Theorem send_no_dangling s f w : reach s -> In (f, w) (sq s) -> exists c, psend s f w c.
Proof. intros R. destruct (reach_SI s R) as [(V1&_) _]. apply V1. Qed.

(** (4) the metered drip never loses the wake on its own: unless a future that had been handed the
    publication's single wake left without sending (ghost flag [lost], F-11), whenever senders are
    parked either something is buffered / unpublished (the consumer's next call publishes), or a
    woken sender has not been polled yet *)
Theorem send_wake_held_except_F11 s : reach s -> lost s = false -> sq s <> [] ->
  q s <> [] \/ 0 < unpub s \/ (exists g w c, psend s g w c /\ in_sq g s = false /\ c < wk s w).
Proof.
  intros R L NE. destruct (reach_SI s R) as [(V1&V2&V3&V4&V5) _].
  destruct (V5 L NE) as [X|[X|(g&w&c&P&I)]]; [left; exact X | right; left; exact X|].
  right. right. exists g, w, c. split; [exact P|]. split; [exact I|].
  destruct (V3 g w c P) as [_ [J|J]]; [|exact J]. exfalso.
  unfold in_sq in I. apply in_sq_false in I. apply I. apply in_map_iff. exists (g, w). auto.
Qed.

(** the literal C06 clause for send futures ("would be ready => woken") and its two refutations *)
Definition send_wake_clause : Prop :=
  forall s, reach s -> forall f w c w', psend s f w c ->
    snd (exec s (Poll f w')) <> RPending -> c < wk s w.

Definition F11_cancel_hist : list op :=
  [Clone 0 2; TrySend 0 1; MkSend 0 0 2; MkSend 1 2 3; Poll 0 0; Poll 1 1; TryRecv 1; DropF 0].

Theorem send_wake_refuted_F11 : ~ send_wake_clause.
Proof.
  intros H.
  assert (R : reach (final (init true 1 false false) F11_cancel_hist))
    by (exists true, 1, false, false, F11_cancel_hist; reflexivity).
  specialize (H _ R 1 1 0 2).
  assert (P : psend (final (init true 1 false false) F11_cancel_hist) 1 1 0).
  { exists (mkF 2 (FSend (Some 3)) (Some (1, 0))). vm_compute. auto. }
  specialize (H P). vm_compute in H. assert (X : Some Lt = Some Lt -> False); [|auto].
  intros _. assert (Y : RReady ROk <> RPending) by discriminate. specialize (H Y). discriminate H.
Qed.

(** the same clause fails without any cancellation: two parked senders, two credits freed, one wake *)
Definition F11_drip_hist : list op :=
  [Clone 0 2; TrySend 0 1; TrySend 0 2; MkSend 0 0 3; MkSend 1 2 4; Poll 0 0; Poll 1 1; TryRecv 1; TryRecv 1].

Theorem send_wake_refuted_F11_drip : ~ send_wake_clause.
Proof.
  intros H.
  assert (R : reach (final (init true 2 false false) F11_drip_hist))
    by (exists true, 2, false, false, F11_drip_hist; reflexivity).
  specialize (H _ R 1 1 0 2).
  assert (P : psend (final (init true 2 false false) F11_drip_hist) 1 1 0).
  { exists (mkF 2 (FSend (Some 4)) (Some (1, 0))). vm_compute. auto. }
  specialize (H P). vm_compute in H.
  assert (Y : RReady ROk <> RPending) by discriminate. specialize (H Y). discriminate H.
Qed.

(** F-30: with readiness read as "space is available" (len < cap) the clause fails as well *)
Definition send_space_clause : Prop :=
  forall s, reach s -> forall f w c fr r, psend s f w c ->
    aget f (fs s) = Some fr -> aget (fh fr) (hs s) = Some r -> hclosed r = false -> rdrop s = false ->
    len (q s) < cap s -> c < wk s w.

Definition F30_fut_hist : list op := [TrySend 0 1; TrySend 0 2; MkSend 0 0 3; Poll 0 0; TryRecv 1].

Theorem send_space_refuted_F30 : ~ send_space_clause.
Proof.
  intros H.
  assert (R : reach (final (init true 2 false false) F30_fut_hist))
    by (exists true, 2, false, false, F30_fut_hist; reflexivity).
  specialize (H _ R 0 0 0 (mkF 0 (FSend (Some 3)) (Some (0, 0))) (mkH true true false false None)).
  assert (P : psend (final (init true 2 false false) F30_fut_hist) 0 0 0).
  { exists (mkF 0 (FSend (Some 3)) (Some (0, 0))). vm_compute. auto. }
  specialize (H P). vm_compute in H.
  specialize (H eq_refl eq_refl eq_refl eq_refl eq_refl). discriminate H.
Qed.

(** ... and it holds (as parked-or-woken with the model's own readiness) once nothing is unpublished:
    a pending send future whose own poll would return Ready is woken or still first in line for the
    next publication *)
Theorem send_ready_parked_or_woken s f w c : reach s -> psend s f w c ->
  c < wk s w \/ In (f, w) (sq s).
Proof. intros R P. destruct (send_parked_or_woken s f w c R P); auto. Qed.
