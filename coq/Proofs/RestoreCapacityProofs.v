(* Proofs/RestoreCapacityProofs.v — capacity after run_maintenance, for caches
   built empty and for caches built from a snapshot (whose restore path, since
   the repair of finding F-23, admits every restored entry to its policy).

   Invariant over insert / insert_with_ttl / clock / peek / iter / fully
   draining run_maintenance:
     - current_cost = sum of the resident costs (no wrap),
     - everything the policy tracks with no write pending is resident with
       exactly the tracked cost; the last pending write of a key describes the
       resident entry,
   and the cost of the residents the policy does NOT know (neither tracked nor
   pending), U, never grows.  After a fully draining run_maintenance:
     current_cost <= capacity  \/  current_cost <= U. *)
From Fibre Require Import Common.Base Cache.PolicySpec Cache.PolicyLru Cache.Iter Cache.Snapshot
     Proofs.PolicyCommon Proofs.PolicyLruProofs Proofs.IterProofs Proofs.SnapshotProofs.
From Coq Require Import ZifyBool ZifyNat ZifyN.

(* ------------------------------------------------------------------------ *)
(** key/cost lists *)

Lemma In_rm_pair k k' c l : In (k', c) (rm k l) <-> In (k', c) l /\ k' <> k.
Proof.
  rewrite rm_filter, filter_In. cbn [fst]. split; intros [H1 H2]; (split; [exact H1|]).
  - intros ->. rewrite N.eqb_refl in H2. discriminate.
  - destruct (N.eqb_spec k k'); [subst; contradiction|reflexivity].
Qed.

Lemma without_cons k vs T : without (k :: vs) T = without vs (rm k T).
Proof.
  unfold without. induction T as [|[k' c] t IH]; cbn [filter rm fst mem existsb]; [reflexivity|].
  fold (mem k' vs). rewrite (N.eqb_sym k' k).
  destruct (N.eqb_spec k k') as [->|Hn]; cbn [orb negb].
  - exact IH.
  - cbn [filter fst]. destruct (mem k' vs); cbn [negb]; [exact IH | f_equal; exact IH].
Qed.

Lemma total_without : forall V T,
  NoDup (keys T) -> NoDup (keys V) -> incl V T -> total (without (keys V) T) + total V = total T.
Proof.
  induction V as [|[k c] V IH]; intros T HT HV Hin.
  - cbn [keys map total]. rewrite without_nil. lia.
  - cbn [keys map fst total] in *. rewrite without_cons.
    inversion HV as [|? ? Hni HV']; subst.
    assert (Hkc : In (k, c) T) by (apply Hin; left; reflexivity).
    assert (Hco : cost_of T k = c) by (unfold cost_of; rewrite (NoDup_lookup k c T HT Hkc); reflexivity).
    pose proof (total_rm k T HT) as Hrm. rewrite Hco in Hrm.
    specialize (IH (rm k T) (rm_NoDup k T HT) HV').
    rewrite <- Hrm. rewrite <- IH; [fold (keys V); lia|].
    intros [k' c'] Hx. apply In_rm_pair. split; [apply Hin; right; exact Hx|].
    intros ->. apply Hni. apply in_map_iff. exists (k, c'). split; [reflexivity|exact Hx].
Qed.

Lemma total_filter_mono (P Q : kc -> bool) l :
  (forall x, In x l -> P x = true -> Q x = true) -> total (filter P l) <= total (filter Q l).
Proof.
  induction l as [|[k c] t IH]; intros H; cbn [filter total]; [lia|].
  assert (IH' : total (filter P t) <= total (filter Q t)) by (apply IH; intros x Hx; apply H; right; exact Hx).
  destruct (P (k, c)) eqn:EP.
  - rewrite (H (k, c) (or_introl eq_refl) EP). cbn [total]. lia.
  - destruct (Q (k, c)); cbn [total]; lia.
Qed.

Lemma total_filter_le (P : kc -> bool) l : total (filter P l) <= total l.
Proof.
  induction l as [|[k c] t IH]; cbn [filter total]; [lia|]. destruct (P (k, c)); cbn [total]; lia.
Qed.

Lemma keys_mkc m : keys (mkc m) = map ekey m.
Proof. unfold keys, mkc. rewrite map_map. reflexivity. Qed.

Lemma mkc_filter (P : N -> bool) m :
  mkc (filter (fun e => P (ekey e)) m) = filter (fun p => P (fst p)) (mkc m).
Proof.
  induction m as [|e t IH]; cbn [filter mkc map fst]; [reflexivity|].
  destruct (P (ekey e)); cbn [mkc map]; [f_equal|]; exact IH.
Qed.

Lemma In_mkc k c m : In (k, c) (mkc m) <-> exists e, In e m /\ ekey e = k /\ ecost e = c.
Proof.
  unfold mkc. rewrite in_map_iff. split.
  - intros [e [He Hi]]. inversion He; subst. exists e. auto.
  - intros [e [Hi [<- <-]]]. exists e. auto.
Qed.

Lemma total_mkc m : total (mkc m) = sumN (map ecost m).
Proof. induction m as [|e t IH]; cbn [mkc map total sumN]; [reflexivity|]. fold (mkc t). rewrite IH. reflexivity. Qed.

(* ------------------------------------------------------------------------ *)
(** upsert *)

Lemma upsert_spec e : forall m m' old,
  NoDup (map ekey m) -> upsert e m = (m', old) ->
  NoDup (map ekey m')
  /\ (forall x, In x m' <-> x = e \/ (In x m /\ ekey x <> ekey e))
  /\ total (mkc m') + match old with Some o => ecost o | None => 0 end = total (mkc m) + ecost e
  /\ match old with Some o => ecost o | None => 0 end <= total (mkc m).
Proof.
  induction m as [|h t IH]; intros m' old Hnd H; cbn [upsert] in H.
  - inversion H; subst. cbn [map mkc total]. repeat split; try lia.
    + constructor; [intros []|constructor].
    + intros [<-|[]]. left. reflexivity.
    + intros [->|[[] _]]. left. reflexivity.
  - cbn [map] in Hnd. inversion Hnd as [|? ? Hni Hnd']; subst.
    destruct (N.eqb_spec (ekey h) (ekey e)) as [Hk|Hk].
    + inversion H; subst. cbn [map mkc total]. fold (mkc t). repeat split; try lia.
      * constructor; [rewrite <- Hk; exact Hni|exact Hnd'].
      * intros [<-|Hx]; [left; reflexivity|]. right. split; [right; exact Hx|].
        intros Hxe. apply Hni. rewrite Hk, <- Hxe. apply in_map. exact Hx.
      * intros [->|[[->|Hx] Hne]]; [left; reflexivity|contradiction|right; exact Hx].
    + destruct (upsert e t) as [t' o] eqn:E. inversion H; subst.
      destruct (IH t' old Hnd' eq_refl) as [H1 [H2 [H3 H4]]].
      cbn [map mkc total]. fold (mkc t) (mkc t'). repeat split; try lia.
      * constructor; [|exact H1]. intros Hi. apply in_map_iff in Hi. destruct Hi as [x [Hx Hxi]].
        apply H2 in Hxi. destruct Hxi as [->|[Hxi _]]; [apply Hk; symmetry; exact Hx|].
        apply Hni. rewrite <- Hx. apply in_map. exact Hxi.
      * intros [<-|Hx]; [right; split; [left; reflexivity|exact Hk]|].
        apply H2 in Hx. destruct Hx as [->|[Hx Hne]]; [left; reflexivity|right; split; [right; exact Hx|exact Hne]].
      * intros [->|[[->|Hx] Hne]].
        -- right. apply H2. left. reflexivity.
        -- left. reflexivity.
        -- right. apply H2. right. split; assumption.
Qed.

Lemma filter_upsert (P : kc -> bool) e : forall m,
  (forall c, P (ekey e, c) = false) ->
  filter P (mkc (fst (upsert e m))) = filter P (mkc m).
Proof.
  intros m HP. induction m as [|h t IH]; cbn [upsert].
  - cbn [fst mkc map filter]. rewrite HP. reflexivity.
  - destruct (N.eqb_spec (ekey h) (ekey e)) as [Hk|Hk].
    + cbn [fst mkc map filter]. rewrite HP, Hk, HP. reflexivity.
    + destruct (upsert e t) as [t' o]. cbn [fst mkc map filter] in *. fold (mkc t) (mkc t') in *.
      rewrite IH. reflexivity.
Qed.

(* ------------------------------------------------------------------------ *)
(** sums over the shard list *)

Lemma sum_set_nth {A} (f : A -> N) (d x : A) : forall (l : list A) (i : nat),
  (i < length l)%nat ->
  sumN (map f (set_nth i x l)) + f (nth i l d) = sumN (map f l) + f x.
Proof.
  induction l as [|h t IH]; intros [|i] H; cbn [length] in H; try lia; cbn [set_nth map sumN nth]; [lia|].
  specialize (IH i). assert (Hi : (i < length t)%nat) by lia. specialize (IH Hi). lia.
Qed.

Lemma sum_nth_le {A} (f : A -> N) (d : A) : forall (l : list A) (i : nat),
  (i < length l)%nat -> f (nth i l d) <= sumN (map f l).
Proof.
  induction l as [|h t IH]; intros [|i] H; cbn [length] in H; try lia; cbn [map sumN nth]; [lia|].
  specialize (IH i). assert (Hi : (i < length t)%nat) by lia. specialize (IH Hi). lia.
Qed.

Lemma map_set_nth {A B} (f : A -> B) (x : A) : forall (l : list A) (i : nat),
  map f (set_nth i x l) = set_nth i (f x) (map f l).
Proof. induction l as [|h t IH]; intros [|i]; cbn [set_nth map]; try reflexivity. f_equal. apply IH. Qed.

Lemma Forall_set_nth {A} (P : A -> Prop) (x : A) : forall (l : list A) (i : nat),
  Forall P l -> P x -> Forall P (set_nth i x l).
Proof.
  induction l as [|h t IH]; intros [|i] Hl Hx; cbn [set_nth]; try constructor; inversion Hl; subst; auto.
Qed.

Lemma nil_or_last {A} (l : list A) : l = [] \/ exists l' a, l = l' ++ [a].
Proof. induction l as [|a l' _] using rev_ind; [left; reflexivity|right; exists l', a; reflexivity]. Qed.

Lemma wsub_ok a b : b <= a -> a < W64 -> wsub a b = a - b.
Proof.
  intros H1 H2. unfold wsub. assert (HW : 0 < W64) by (unfold W64; lia).
  rewrite (N.mod_small b) by lia.
  replace (a + W64 - b) with ((a - b) + 1 * W64) by lia.
  rewrite N.mod_add by lia. apply N.mod_small. lia.
Qed.

Lemma wadd_ok a b : a + b < W64 -> wadd a b = a + b.
Proof. intros H. unfold wadd. apply N.mod_small. exact H. Qed.

(* ------------------------------------------------------------------------ *)
(** the per-shard accounting invariant *)

Definition known (sh : shardst) : list N := keys (sh_pol sh) ++ keys (sh_pend sh).
Definition unknownb (sh : shardst) (p : kc) : bool := negb (mem (fst p) (known sh)).
(* cost of the residents the policy has never been told about *)
Definition ucost (sh : shardst) : N := total (filter (unknownb sh) (mkc (sh_map sh))).
Definition res_cost (sh : shardst) : N := total (mkc (sh_map sh)).
Definition total_res (shs : list shardst) : N := sumN (map res_cost shs).
Definition U (shs : list shardst) : N := sumN (map ucost shs).

Record sh_acc (sh : shardst) : Prop := mkAcc {
  a_nodup : NoDup (map ekey (sh_map sh));
  a_pol : NoDup (keys (sh_pol sh));
  (* tracked with no write pending => resident with exactly the tracked cost *)
  a_tracked : forall k c, In (k, c) (sh_pol sh) ->
                In k (keys (sh_pend sh)) \/ In (k, c) (mkc (sh_map sh));
  (* the last pending write of a key describes the resident entry *)
  a_pend : forall p1 k c p2, sh_pend sh = p1 ++ (k, c) :: p2 -> ~ In k (keys p2) ->
             In (k, c) (mkc (sh_map sh))
}.

Lemma ucost_le_res sh : ucost sh <= res_cost sh.
Proof. apply total_filter_le. Qed.

Lemma ins_shard_acc sh e m' old :
  sh_acc sh -> upsert e (sh_map sh) = (m', old) ->
  let sh' := mkSh m' (sh_pol sh) (sh_pend sh ++ [(ekey e, ecost e)]) in
  let oldc := match old with Some o => ecost o | None => 0 end in
  sh_acc sh' /\ ucost sh' <= ucost sh
  /\ res_cost sh' + oldc = res_cost sh + ecost e /\ oldc <= res_cost sh
  /\ (forall x, In x m' <-> x = e \/ (In x (sh_map sh) /\ ekey x <> ekey e)).
Proof.
  intros [A1 A2 A3 A4] E. cbv zeta.
  destruct (upsert_spec e _ _ _ A1 E) as [H1 [H2 [H3 H4]]].
  assert (Hother : forall k c, k <> ekey e -> In (k, c) (mkc (sh_map sh)) -> In (k, c) (mkc m')).
  { intros k c Hk Hi. apply In_mkc in Hi. destruct Hi as [x [Hx [Hxk Hxc]]].
    apply In_mkc. exists x. split; [|split; assumption]. apply H2. right. split; [exact Hx|congruence]. }
  assert (Hnew : In (ekey e, ecost e) (mkc m')).
  { apply In_mkc. exists e. split; [apply H2; left; reflexivity|split; reflexivity]. }
  split; [|split; [|split; [exact H3|split; [exact H4|exact H2]]]].
  - constructor; cbn [sh_map sh_pol sh_pend].
    + exact H1.
    + exact A2.
    + intros k c Hi. destruct (N.eq_dec k (ekey e)) as [->|Hk].
      * left. rewrite keys_app. apply in_or_app. right. left. reflexivity.
      * destruct (A3 k c Hi) as [Hp|Hm].
        -- left. rewrite keys_app. apply in_or_app. left. exact Hp.
        -- right. apply Hother; assumption.
    + intros p1 k c p2 Hsplit Hni. destruct (nil_or_last p2) as [->|[p2' [z ->]]].
      * apply app_inj_tail in Hsplit. destruct Hsplit as [_ Hz]. inversion Hz; subst. exact Hnew.
      * change (p1 ++ (k, c) :: p2' ++ [z]) with (p1 ++ ((k, c) :: p2') ++ [z]) in Hsplit.
        rewrite app_assoc in Hsplit. apply app_inj_tail in Hsplit. destruct Hsplit as [Hp Hz]. subst z.
        rewrite keys_app in Hni. cbn [keys map fst] in Hni.
        assert (Hk : k <> ekey e) by (intros ->; apply Hni; apply in_or_app; right; left; reflexivity).
        apply Hother; [exact Hk|]. apply (A4 p1 k c p2' Hp).
        intros Hi. apply Hni. apply in_or_app. left. exact Hi.
  - unfold ucost. cbn [sh_map]. replace m' with (fst (upsert e (sh_map sh))) by (rewrite E; reflexivity).
    rewrite filter_upsert.
    + apply total_filter_mono. intros x _. unfold unknownb, known. cbn [sh_pol sh_pend].
      rewrite !negb_true_iff, !mem_false_In. intros Hn Hi. apply Hn.
      rewrite keys_app. apply in_app_or in Hi. apply in_or_app. destruct Hi as [Hi|Hi]; [left; exact Hi|].
      right. apply in_or_app. left. exact Hi.
    + intros c. unfold unknownb, known. cbn [sh_pol sh_pend fst]. rewrite negb_false_iff, mem_In.
      apply in_or_app. right. rewrite keys_app. apply in_or_app. right. left. reflexivity.
Qed.

(* ------------------------------------------------------------------------ *)
(** admission of the drained write events *)

Lemma admit_all_NoDup : forall ws pol, NoDup (keys pol) -> NoDup (keys (admit_all ws pol)).
Proof.
  unfold admit_all. induction ws as [|[k c] r IH]; intros pol H; cbn [fold_left fst snd]; [exact H|].
  apply IH. unfold ll_push_front. apply cons_rm_NoDup. exact H.
Qed.

Lemma admit_all_keys : forall ws pol k,
  In k (keys ws) \/ In k (keys pol) -> In k (keys (admit_all ws pol)).
Proof.
  unfold admit_all. induction ws as [|[kw cw] r IH]; intros pol k H; cbn [fold_left fst snd keys map] in *.
  - destruct H as [[]|H]. exact H.
  - apply IH. unfold ll_push_front. cbn [keys map fst].
    destruct (N.eq_dec k kw) as [->|Hn]; [right; left; reflexivity|].
    destruct H as [[Hk|Hk]|Hk]; [congruence|left; exact Hk|].
    right. right. apply rm_keys_keep; assumption.
Qed.

Lemma admit_all_keys_inv : forall ws pol k,
  In k (keys (admit_all ws pol)) -> In k (keys ws) \/ In k (keys pol).
Proof.
  unfold admit_all. induction ws as [|[kw cw] r IH]; intros pol k H; cbn [fold_left fst snd keys map] in *.
  - right. exact H.
  - apply IH in H. destruct H as [H|H]; [left; right; exact H|].
    unfold ll_push_front in H. cbn [keys map fst] in H. destruct H as [<-|H]; [left; left; reflexivity|].
    right. apply rm_keys_subset in H. apply H.
Qed.

(* every tracked pair is the last drained write of its key, or an old pair of an undrained key *)
Lemma admit_all_spec : forall ws pol k c,
  In (k, c) (admit_all ws pol) ->
  (exists p1 p2, ws = p1 ++ (k, c) :: p2 /\ ~ In k (keys p2))
  \/ (~ In k (keys ws) /\ In (k, c) pol).
Proof.
  unfold admit_all. induction ws as [|[kw cw] r IH]; intros pol k c H; cbn [fold_left fst snd] in H.
  - right. split; [intros []|exact H].
  - apply IH in H. destruct H as [[p1 [p2 [Hr Hn]]]|[Hn H]].
    + left. exists ((kw, cw) :: p1), p2. split; [rewrite Hr; reflexivity|exact Hn].
    + unfold ll_push_front in H. destruct H as [H|H].
      * inversion H; subst. left. exists [], r. split; [reflexivity|exact Hn].
      * apply In_rm_pair in H. destruct H as [H Hk]. right. split; [|exact H].
        cbn [keys map fst]. intros [Hx|Hx]; [congruence|exact (Hn Hx)].
Qed.

Lemma filter_andb {A} (P Q : A -> bool) l : filter P (filter Q l) = filter (fun x => Q x && P x) l.
Proof.
  induction l as [|h t IH]; cbn [filter]; [reflexivity|].
  destruct (Q h); cbn [filter andb]; [destruct (P h); [f_equal|]; exact IH | exact IH].
Qed.

Lemma mkc_remove_keys vs m : mkc (remove_keys vs m) = without vs (mkc m).
Proof. unfold remove_keys, without. apply (mkc_filter (fun k => negb (mem k vs))). Qed.

Lemma resident_In m k : resident m k = true <-> In k (map ekey m).
Proof.
  unfold resident. rewrite existsb_exists, in_map_iff. split.
  - intros [e [He Hk]]. apply N.eqb_eq in Hk. exists e. split; assumption.
  - intros [e [Hk He]]. exists e. split; [exact He|apply N.eqb_eq; exact Hk].
Qed.

Lemma last_occurrence k : forall l : list kc, In k (keys l) ->
  exists p1 c p2, l = p1 ++ (k, c) :: p2 /\ ~ In k (keys p2).
Proof.
  induction l as [|[k' c'] t IH]; cbn [keys map fst]; intros H; [contradiction|].
  destruct (in_dec N.eq_dec k (keys t)) as [Hi|Hn].
  - destruct (IH Hi) as [p1 [c [p2 [-> Hp]]]]. exists ((k', c') :: p1), c, p2. split; [reflexivity|exact Hp].
  - destruct H as [->|H]; [|contradiction]. exists [], c', t. split; [reflexivity|exact Hn].
Qed.

Lemma filter_id {A} (P : A -> bool) l : (forall x, In x l -> P x = true) -> filter P l = l.
Proof.
  induction l as [|h t IH]; intros H; cbn [filter]; [reflexivity|].
  rewrite (H h (or_introl eq_refl)). f_equal. apply IH. intros x Hx. apply H. right. exact Hx.
Qed.

(* what the victims actually take out of the map, and what stays, add up *)
Lemma removed_cost_partition vs m :
  total (mkc (remove_keys vs m)) + removed_cost vs m = total (mkc m).
Proof.
  unfold remove_keys, removed_cost. induction m as [|e t IH]; cbn [filter mkc map total sumN]; [lia|].
  fold (mkc t). destruct (mem (ekey e) vs); cbn [negb mkc map total sumN]; fold (mkc (filter (fun e0 => negb (mem (ekey e0) vs)) t)); lia.
Qed.

(* ------------------------------------------------------------------------ *)
(** one shard of a fully draining run_maintenance *)

Lemma maint_one_spec cp sh cost :
  sh_acc sh -> (length (sh_pend sh) <= drain_limit)%nat -> res_cost sh <= cost -> cost < W64 ->
  exists sh' cost', maint_one (Some cp) sh cost = (sh', cost')
    /\ sh_acc sh' /\ sh_pend sh' = []
    /\ cost' + res_cost sh = cost + res_cost sh'
    /\ cost' <= cost
    /\ ucost sh' <= ucost sh
    /\ (cost' <= cp \/ sh_pol sh' = [])
    /\ incl (sh_map sh') (sh_map sh).
Proof.
  intros [A1 A2 A3 A4] Hdr Hres HW. unfold maint_one.
  rewrite (firstn_all2 _ Hdr), (skipn_all2 _ Hdr).
  (* every pending write is for a resident key (its last write describes the resident
     entry), so the residency filter of fix 0a3449f drops nothing here *)
  assert (Hres_all : filter (fun w => resident (sh_map sh) (fst w)) (sh_pend sh) = sh_pend sh).
  { apply filter_id. intros [k c] Hx. cbn [fst]. apply resident_In.
    assert (Hk : In k (keys (sh_pend sh))) by (apply in_map_iff; exists (k, c); split; [reflexivity|exact Hx]).
    destruct (last_occurrence k _ Hk) as [p1 [c1 [p2 [Hs Hn]]]].
    pose proof (A4 p1 k c1 p2 Hs Hn) as Hm. rewrite <- keys_mkc. apply in_map_iff.
    exists (k, c1). split; [reflexivity|exact Hm]. }
  rewrite Hres_all.
  set (pol1 := admit_all (sh_pend sh) (sh_pol sh)).
  assert (F1 : NoDup (keys pol1)) by (apply admit_all_NoDup; exact A2).
  assert (F2 : forall k c, In (k, c) pol1 -> In (k, c) (mkc (sh_map sh))).
  { intros k c Hi. apply admit_all_spec in Hi. destruct Hi as [[p1 [p2 [Hs Hn]]]|[Hn Hi]].
    - apply (A4 p1 k c p2 Hs Hn).
    - destruct (A3 k c Hi) as [Hp|Hm]; [contradiction|exact Hm]. }
  assert (F3 : forall k, In k (known sh) -> In k (keys pol1)).
  { intros k Hk. apply admit_all_keys. unfold known in Hk. apply in_app_or in Hk. tauto. }
  assert (Hacc : forall m pol, NoDup (map ekey m) -> NoDup (keys pol) ->
                   (forall k c, In (k, c) pol -> In (k, c) (mkc m)) -> sh_acc (mkSh m pol [])).
  { intros m pol H1 H2 H3. constructor; cbn [sh_map sh_pol sh_pend]; auto.
    intros p1 k c p2 Hs. destruct p1; discriminate. }
  assert (Hu : forall pol, (forall k, In k (keys pol1) -> In k (keys pol) \/ False) ->
                 ucost (mkSh (sh_map sh) pol []) <= ucost sh).
  { intros pol Hsub. unfold ucost. cbn [sh_map]. apply total_filter_mono. intros x _.
    unfold unknownb, known. cbn [sh_pol sh_pend keys map]. rewrite app_nil_r.
    rewrite !negb_true_iff, !mem_false_In. intros Hn Hi. apply Hn.
    destruct (Hsub (fst x) (F3 _ Hi)) as [H|[]]. exact H. }
  destruct (N.leb_spec cost cp) as [Hle|Hgt].
  - exists (mkSh (sh_map sh) pol1 []), cost. split; [reflexivity|].
    split; [apply Hacc; assumption|]. split; [reflexivity|].
    split; [reflexivity|]. split; [lia|]. split; [apply Hu; intros k Hk; left; exact Hk|].
    split; [left; exact Hle|apply incl_refl].
  - destruct (ll_evict (cost - cp) pol1) as [[pol2 vs] freed] eqn:E.
    destruct (ll_evict_order _ _ _ _ _ E) as [V [Hl [Hv [Hf Hs]]]].
    destruct Hs as [Hs _].
    destruct V as [|v0 V'].
    + (* the policy has nothing to offer *)
      cbn [keys map] in Hv. subst vs. cbn [rev] in Hl. rewrite app_nil_r in Hl. subst pol2.
      cbn [total] in Hf. subst freed.
      exists (mkSh (sh_map sh) pol1 []), cost. split; [reflexivity|].
      split; [apply Hacc; assumption|]. split; [reflexivity|].
      split; [reflexivity|]. split; [lia|]. split; [apply Hu; intros k Hk; left; exact Hk|].
      split; [|apply incl_refl]. destruct Hs as [Hs|Hs]; [lia|right; exact Hs].
    + set (V := v0 :: V') in *.
      assert (Hvs : vs = fst v0 :: keys V') by (rewrite Hv; reflexivity).
      rewrite Hvs. rewrite <- Hvs. clear Hvs.
      assert (HVin : incl V pol1).
      { intros x Hx. rewrite Hl. apply in_or_app. right. apply in_rev in Hx. exact Hx. }
      assert (Hk12 : NoDup (keys pol2 ++ keys (rev V))) by (rewrite <- keys_app, <- Hl; exact F1).
      assert (HVnd : NoDup (keys V)).
      { apply (NoDup_keys_perm (rev V) V); [apply Permutation_sym, Permutation_rev|].
        apply NoDup_app_r in Hk12. exact Hk12. }
      assert (HVm : incl V (mkc (sh_map sh))) by (intros [k c] Hx; apply F2, HVin; exact Hx).
      assert (Hsum : total (without vs (mkc (sh_map sh))) + freed = res_cost sh).
      { rewrite Hv, Hf. apply total_without; [rewrite keys_mkc; exact A1|exact HVnd|exact HVm]. }
      assert (Hfle : freed <= cost) by lia.
      (* the victims are resident with exactly the tracked costs: what is actually
         removed (fix 496bcb6) is what the policy reported *)
      assert (Hact : removed_cost vs (sh_map sh) = freed).
      { pose proof (removed_cost_partition vs (sh_map sh)) as Hp. rewrite mkc_remove_keys in Hp.
        unfold res_cost in Hsum. lia. }
      exists (mkSh (remove_keys vs (sh_map sh)) pol2 []), (cost - freed).
      split; [rewrite Hact, (wsub_ok cost freed Hfle HW); reflexivity|].
      assert (Hdisj : forall k, In k (keys pol2) -> ~ In k vs).
      { intros k Hk Hkv. apply (NoDup_app_disjoint _ _ k Hk12 Hk).
        rewrite keys_rev. apply -> in_rev. rewrite <- Hv. exact Hkv. }
      split.
      { apply Hacc.
        - unfold remove_keys. apply NoDup_map_filter. exact A1.
        - apply NoDup_app_l in Hk12. exact Hk12.
        - intros k c Hi. rewrite mkc_remove_keys. unfold without. apply filter_In. split.
          + apply F2. rewrite Hl. apply in_or_app. left. exact Hi.
          + cbn [fst]. rewrite negb_true_iff, mem_false_In. apply Hdisj.
            apply in_map_iff. exists (k, c). split; [reflexivity|exact Hi]. }
      split; [reflexivity|].
      split; [unfold res_cost at 2; cbn [sh_map]; rewrite mkc_remove_keys; lia|].
      split; [lia|].
      split.
      { unfold ucost. cbn [sh_map]. rewrite mkc_remove_keys. unfold without. rewrite filter_andb.
        apply total_filter_mono. intros x _. unfold unknownb, known. cbn [sh_pol sh_pend keys map].
        rewrite app_nil_r. rewrite andb_true_iff, !negb_true_iff, !mem_false_In.
        intros [Hn1 Hn2] Hi. apply F3 in Hi. rewrite Hl, keys_app in Hi. apply in_app_or in Hi.
        destruct Hi as [Hi|Hi]; [exact (Hn2 Hi)|].
        apply Hn1. rewrite Hv. rewrite keys_rev in Hi. apply in_rev in Hi. exact Hi. }
      split; [destruct Hs as [Hs|Hs]; [left; lia|right; exact Hs]|].
      cbn [sh_map]. unfold remove_keys. intros x Hx. apply filter_In in Hx. apply Hx.
Qed.

(* ------------------------------------------------------------------------ *)
(** all shards, in order, against the one global current_cost *)

Definition drained_shs (shs : list shardst) : Prop :=
  Forall (fun sh => (length (sh_pend sh) <= drain_limit)%nat) shs.

Lemma maint_shards_spec cp : forall shs cost,
  Forall sh_acc shs -> drained_shs shs -> total_res shs <= cost -> cost < W64 ->
  exists shs' cost', maint_shards (Some cp) shs cost = (shs', cost')
    /\ Forall sh_acc shs' /\ Forall (fun sh => sh_pend sh = []) shs'
    /\ cost' + total_res shs = cost + total_res shs'
    /\ cost' <= cost
    /\ U shs' <= U shs
    /\ (cost' <= cp \/ Forall (fun sh => sh_pol sh = []) shs')
    /\ Forall2 (fun sh' sh => incl (sh_map sh') (sh_map sh)) shs' shs.
Proof.
  induction shs as [|sh r IH]; intros cost Hacc Hdr Hres HW.
  - exists [], cost. cbn [maint_shards]. split; [reflexivity|]. split; [constructor|]. split; [constructor|].
    split; [lia|]. split; [lia|]. split; [lia|]. split; [right; constructor|constructor].
  - inversion Hacc as [|? ? Ha Hacc']; subst. inversion Hdr as [|? ? Hd Hdr']; subst.
    unfold total_res in Hres. cbn [map sumN] in Hres. fold (total_res r) in Hres.
    destruct (maint_one_spec cp sh cost Ha Hd) as [sh' [c1 [E1 [A1 [P1 [S1 [L1 [U1 [D1 I1]]]]]]]]]; [lia|exact HW|].
    destruct (IH c1 Hacc' Hdr') as [r' [c2 [E2 [A2 [P2 [S2 [L2 [U2 [D2 I2]]]]]]]]]; [lia|lia|].
    exists (sh' :: r'), c2. cbn [maint_shards]. rewrite E1, E2.
    split; [reflexivity|]. split; [constructor; assumption|]. split; [constructor; assumption|].
    unfold total_res, U. cbn [map sumN]. fold (total_res r) (total_res r') (U r) (U r').
    split; [lia|]. split; [lia|]. split; [lia|]. split; [|constructor; assumption].
    destruct D2 as [D2|D2]; [left; exact D2|].
    destruct D1 as [D1|D1]; [left; lia|right; constructor; assumption].
Qed.

Lemma filter_all_true {A} (P : A -> bool) l : (forall x, P x = true) -> filter P l = l.
Proof. intros H. induction l as [|h t IH]; cbn [filter]; [reflexivity|]. rewrite H, IH. reflexivity. Qed.

Lemma ucost_unknown sh : sh_pol sh = [] -> sh_pend sh = [] -> ucost sh = res_cost sh.
Proof.
  intros H1 H2. unfold ucost, res_cost. rewrite filter_all_true; [reflexivity|].
  intros x. unfold unknownb, known. rewrite H1, H2. reflexivity.
Qed.

Lemma U_all_unknown shs :
  Forall (fun sh => sh_pol sh = []) shs -> Forall (fun sh => sh_pend sh = []) shs -> U shs = total_res shs.
Proof.
  induction shs as [|sh r IH]; intros H1 H2; [reflexivity|].
  inversion H1; subst. inversion H2; subst. unfold U, total_res. cbn [map sumN].
  fold (U r) (total_res r). rewrite IH by assumption. rewrite ucost_unknown by assumption. reflexivity.
Qed.

Lemma U_le_res shs : U shs <= total_res shs.
Proof.
  induction shs as [|sh r IH]; [cbn; lia|]. unfold U, total_res in *. cbn [map sumN].
  pose proof (ucost_le_res sh). lia.
Qed.

Lemma total_res_concat shs : total_res shs = sumN (map ecost (concat (map sh_map shs))).
Proof.
  induction shs as [|sh r IH]; [reflexivity|]. unfold total_res in *. cbn [map sumN concat].
  rewrite map_app, sumN_app, <- IH. unfold res_cost. rewrite total_mkc. reflexivity.
Qed.

(* ------------------------------------------------------------------------ *)
(** the cache-level invariant *)

Record Inv (c : cache) : Prop := mkInv {
  i_wf : wf c;
  i_acc : Forall sh_acc (c_shs c);
  i_cost : c_cost c = total_res (c_shs c);      (* current_cost is exact *)
  i_w : c_cost c < W64
}.

Definition drained (c : cache) : Prop := drained_shs (c_shs c).

Lemma Forall2_len {A B} (R : A -> B -> Prop) l l' : Forall2 R l l' -> length l = length l'.
Proof. induction 1; cbn [length]; lia. Qed.

Lemma Forall2_nth_incl : forall (l' l : list shardst) j,
  Forall2 (fun sh' sh => incl (sh_map sh') (sh_map sh)) l' l ->
  incl (nth j (map sh_map l') []) (nth j (map sh_map l) []).
Proof.
  induction l' as [|h' t' IH]; intros l j H; inversion H; subst; cbn [map].
  - destruct j; intros x [].
  - destruct j as [|j]; cbn [nth]; [assumption|apply IH; assumption].
Qed.

Lemma maint_inv c cp :
  Inv c -> c_cap c = Some cp -> drained c ->
  let c' := run_maintenance c in
  Inv c' /\ c_cap c' = Some cp /\ U (c_shs c') <= U (c_shs c)
  /\ (c_cost c' <= cp \/ c_cost c' <= U (c_shs c')).
Proof.
  intros [[Hn Hwf] Hacc Hcost HW] Hcap Hdr. unfold run_maintenance. rewrite Hcap.
  destruct (maint_shards_spec cp (c_shs c) (c_cost c) Hacc Hdr) as
    [shs' [cost' [E [A [P [S [L [Uu [D I]]]]]]]]]; [lia|exact HW|].
  rewrite E. cbv zeta. cbn [c_shs c_cost c_cap].
  assert (Hlen : length shs' = length (c_shs c)) by (eapply Forall2_len; exact I).
  split; [|split; [reflexivity|split; [exact Uu|]]].
  - constructor; cbn [c_shs c_cost]; [|exact A|lia|lia].
    split; cbn [c_shs]; [lia|]. unfold maps in *. cbn [c_shs].
    intros j Hj. rewrite map_length in *. rewrite Hlen in *.
    destruct (Hwf j) as [H1 H2]; [rewrite map_length; lia|]. rewrite map_length in H2.
    split.
    + assert (Hsh : sh_acc (nth j shs' empty_sh)) by (apply Forall_nth; [exact A|lia]).
      rewrite (nth_indep _ [] (sh_map empty_sh)) by (rewrite map_length; lia).
      rewrite map_nth. apply Hsh.
    + intros e He. apply H2. eapply Forall2_nth_incl; eauto.
  - destruct D as [D|D]; [left; exact D|right].
    rewrite (U_all_unknown shs' D P). lia.
Qed.

Lemma insert_inv c e :
  Inv c -> c_cost c + ecost e < W64 ->
  let c' := insert_entry c e in
  Inv c' /\ c_cap c' = c_cap c /\ U (c_shs c') <= U (c_shs c).
Proof.
  intros [[Hn Hwf] Hacc Hcost HW] Hov. unfold insert_entry.
  set (n := length (c_shs c)) in *. set (i := shard_idx n (ekey e)).
  assert (Hi : (i < n)%nat) by (apply shard_idx_lt; exact Hn).
  set (sh := nth i (c_shs c) empty_sh).
  assert (Hsh : sh_acc sh) by (apply Forall_nth; [exact Hacc|exact Hi]).
  destruct (upsert e (sh_map sh)) as [m' old] eqn:E.
  destruct (ins_shard_acc sh e m' old Hsh E) as [A [Uu [R [O M]]]].
  set (sh' := mkSh m' (sh_pol sh) (sh_pend sh ++ [(ekey e, ecost e)])) in *.
  set (oldc := match old with Some o => ecost o | None => 0 end) in *.
  cbv zeta. cbn [c_shs c_cost c_cap].
  pose proof (sum_set_nth res_cost empty_sh sh' (c_shs c) i Hi) as HR. fold sh in HR.
  pose proof (sum_set_nth ucost empty_sh sh' (c_shs c) i Hi) as HU. fold sh in HU.
  pose proof (sum_nth_le res_cost empty_sh (c_shs c) i Hi) as HL. fold sh in HL.
  fold (total_res (set_nth i sh' (c_shs c))) (total_res (c_shs c)) in HR, HL.
  fold (U (set_nth i sh' (c_shs c))) (U (c_shs c)) in HU.
  assert (Hc : wadd (wsub (c_cost c) oldc) (ecost e) = c_cost c - oldc + ecost e).
  { rewrite wsub_ok by lia. apply wadd_ok. lia. }
  split; [|split; [reflexivity|lia]].
  constructor; cbn [c_shs c_cost].
  - split; cbn [c_shs]; [rewrite set_nth_length; exact Hn|].
    unfold maps in *. cbn [c_shs]. rewrite map_set_nth. cbn [sh_map].
    intros j Hj. rewrite set_nth_length, map_length in *. fold n in Hj |- *.
    destruct (Nat.eq_dec j i) as [->|Hne].
    + rewrite nth_set_nth_eq by (rewrite map_length; exact Hi). split; [apply A|].
      intros x Hx. apply M in Hx. destruct Hx as [->|[Hx _]]; [reflexivity|].
      destruct (Hwf i) as [_ H2]; [rewrite map_length; fold n; lia|]. rewrite map_length in H2. fold n in H2.
      apply H2. unfold sh in Hx.
      rewrite (nth_indep _ [] (sh_map empty_sh)) by (rewrite map_length; exact Hi).
      rewrite map_nth. exact Hx.
    + rewrite nth_set_nth_neq by lia. destruct (Hwf j) as [H1 H2]; [rewrite map_length; fold n; lia|].
      rewrite map_length in H2. fold n in H2. split; assumption.
  - apply Forall_set_nth; assumption.
  - rewrite Hc. lia.
  - rewrite Hc. lia.
Qed.

(* ------------------------------------------------------------------------ *)
(** op sequences *)

(* the ops the capacity theorem ranges over (no fetch / iter_snapshot: they
   only refresh last_accessed; no snapshot: it starts a new cache) *)
Definition cap_op (o : op) : bool :=
  match o with
  | OIns _ _ _ | OInsTtl _ _ _ _ | OAdv _ | OPeek _ | OIter _ _ _ | OMaint | OCost => true
  | _ => false
  end.

Definition op_cost (o : op) : N :=
  match o with OIns _ _ c | OInsTtl _ _ c _ => c | _ => 0 end.

(* every run_maintenance in the sequence drains its buffers completely (at most
   16 pending writes per shard), and current_cost never reaches 2^64 *)
Fixpoint ok_run (c : cache) (os : list op) : Prop :=
  match os with
  | [] => True
  | o :: r => cap_op o = true /\ (o = OMaint -> drained c) /\ c_cost c + op_cost o < W64
              /\ ok_run (fst (step c o)) r
  end.

Lemma Inv_same c1 c2 : c_shs c1 = c_shs c2 -> c_cost c1 = c_cost c2 -> Inv c1 -> Inv c2.
Proof.
  intros Hs Hc [[Hn Hwf] Hacc Hcost HW]. unfold maps in *.
  constructor; [split|..]; unfold maps; rewrite <- ?Hs, <- ?Hc; assumption.
Qed.

Lemma step_inv c cp o :
  Inv c -> c_cap c = Some cp -> cap_op o = true -> (o = OMaint -> drained c) ->
  c_cost c + op_cost o < W64 ->
  let c' := fst (step c o) in
  Inv c' /\ c_cap c' = Some cp /\ U (c_shs c') <= U (c_shs c)
  /\ (o = OMaint -> c_cost c' <= cp \/ c_cost c' <= U (c_shs c')).
Proof.
  intros HI Hcap Hop Hdr Hov. cbv zeta.
  destruct o; cbn [cap_op] in Hop; try discriminate; cbn [step fst op_cost] in *.
  - destruct (insert_inv c (new_entry c k v c0 (c_ttl c)) HI Hov) as [H1 [H2 H3]].
    split; [exact H1|]. split; [rewrite H2; exact Hcap|]. split; [exact H3|discriminate].
  - destruct (insert_inv c (new_entry c k v c0 (Some d)) HI Hov) as [H1 [H2 H3]].
    split; [exact H1|]. split; [rewrite H2; exact Hcap|]. split; [exact H3|discriminate].
  - split; [eapply Inv_same; [| |exact HI]; reflexivity|]. split; [exact Hcap|]. split; [cbn [c_shs]; lia|discriminate].
  - split; [exact HI|]. split; [exact Hcap|]. split; [lia|discriminate].
  - destruct (iterate_adv (maps c) (c_tti c) (Nat.max 1 batch) (c_now c) d K) as [out ok]. cbn [fst].
    split; [eapply Inv_same; [| |exact HI]; reflexivity|]. split; [exact Hcap|]. split; [cbn [c_shs]; lia|discriminate].
  - destruct (maint_inv c cp HI Hcap (Hdr eq_refl)) as [H1 [H2 [H3 H4]]].
    split; [exact H1|]. split; [exact H2|]. split; [exact H3|]. intros _. exact H4.
  - split; [exact HI|]. split; [exact Hcap|]. split; [lia|discriminate].
Qed.

Lemma run_cons c o r : fst (run c (o :: r)) = fst (run (fst (step c o)) r).
Proof. cbn [run]. destruct (step c o) as [c1 x]. cbn [fst]. destruct (run c1 r) as [c2 xs]. reflexivity. Qed.

Lemma run_app c a b : fst (run c (a ++ b)) = fst (run (fst (run c a)) b).
Proof.
  revert c. induction a as [|o r IH]; intros c; [reflexivity|].
  cbn [app]. rewrite !run_cons. apply IH.
Qed.

Lemma ok_run_app c a b : ok_run c (a ++ b) -> ok_run c a /\ ok_run (fst (run c a)) b.
Proof.
  revert c. induction a as [|o r IH]; intros c H; [split; [exact I|exact H]|].
  cbn [app ok_run] in H. destruct H as [H1 [H2 [H3 H4]]]. destruct (IH _ H4) as [H5 H6].
  split; [cbn [ok_run]; tauto|]. rewrite run_cons. exact H6.
Qed.

Lemma run_inv cp : forall os c,
  Inv c -> c_cap c = Some cp -> ok_run c os ->
  let c' := fst (run c os) in
  Inv c' /\ c_cap c' = Some cp /\ U (c_shs c') <= U (c_shs c).
Proof.
  induction os as [|o r IH]; intros c HI Hcap Hok; cbv zeta.
  - cbn [run fst]. split; [exact HI|]. split; [exact Hcap|lia].
  - destruct Hok as [H1 [H2 [H3 H4]]]. rewrite run_cons.
    destruct (step_inv c cp o HI Hcap H1 H2 H3) as [S1 [S2 [S3 _]]].
    destruct (IH _ S1 S2 H4) as [R1 [R2 R3]]. split; [exact R1|]. split; [exact R2|lia].
Qed.

(** after any admissible history that ends in a fully draining run_maintenance:
    current_cost is exact, and it is within capacity unless what is left is
    entirely made of entries the policy was never told about *)
Theorem maint_capacity c cp os :
  Inv c -> c_cap c = Some cp -> ok_run c (os ++ [OMaint]) ->
  let cf := fst (run c (os ++ [OMaint])) in
  c_cost cf = total_res (c_shs cf)
  /\ (c_cost cf <= cp \/ c_cost cf <= U (c_shs c)).
Proof.
  intros HI Hcap Hok. cbv zeta. rewrite run_app.
  destruct (ok_run_app _ _ _ Hok) as [Ha Hb].
  destruct (run_inv cp os c HI Hcap Ha) as [R1 [R2 R3]].
  set (c1 := fst (run c os)) in *. cbn [ok_run] in Hb. destruct Hb as [B1 [B2 [B3 _]]].
  destruct (step_inv c1 cp OMaint R1 R2 B1 B2 B3) as [S1 [S2 [S3 S4]]].
  rewrite run_cons. cbn [run fst]. split; [apply S1|].
  destruct (S4 eq_refl) as [H|H]; [left; exact H|right; lia].
Qed.

(* ------------------------------------------------------------------------ *)
(** the two starting points *)

Lemma sh_acc_fresh m : NoDup (map ekey m) -> sh_acc (mkSh m [] []).
Proof.
  intros H. constructor; cbn [sh_map sh_pol sh_pend]; [exact H|constructor|intros k c []|].
  intros p1 k c p2 Hs. destruct p1; discriminate.
Qed.

Lemma Inv_new n cap ttl tti now : (0 < n)%nat -> Inv (new_cache n cap ttl tti now) /\ U (c_shs (new_cache n cap ttl tti now)) = 0.
Proof.
  intros Hn. unfold new_cache.
  assert (Hz : forall k, total_res (repeat empty_sh k) = 0 /\ U (repeat empty_sh k) = 0).
  { induction k as [|k [IH1 IH2]]; [split; reflexivity|]. unfold total_res, U in *. cbn [repeat map sumN].
    rewrite IH1, IH2. split; reflexivity. }
  split; [|apply Hz]. constructor; cbn [c_shs c_cost].
  - split; cbn [c_shs]; [rewrite repeat_length; exact Hn|].
    intros j Hj. unfold maps. cbn [c_shs].
    assert (Hnil : nth j (map sh_map (repeat empty_sh n)) [] = []).
    { destruct (Nat.lt_ge_cases j n) as [Hlt|Hge].
      - rewrite (nth_indep _ [] (sh_map empty_sh)) by (rewrite map_length, repeat_length; exact Hlt).
        rewrite map_nth. rewrite nth_repeat. reflexivity.
      - apply nth_overflow. rewrite map_length, repeat_length. exact Hge. }
    rewrite Hnil. split; [constructor|intros e []].
  - apply Forall_forall. intros sh Hsh. apply repeat_spec in Hsh. subst sh. apply sh_acc_fresh. constructor.
  - symmetry. apply Hz.
  - unfold W64. lia.
Qed.

(* what the repaired restore leaves in a bounded cache's shard: every resident is
   tracked by the shard's policy with its cost, nothing else is, nothing pending *)
Definition all_tracked (sh : shardst) : Prop :=
  sh_pend sh = []
  /\ NoDup (keys (sh_pol sh))
  /\ (forall e, In e (sh_map sh) -> In (ekey e) (keys (sh_pol sh)))
  /\ (forall k c, In (k, c) (sh_pol sh) -> In (k, c) (mkc (sh_map sh))).

Lemma all_tracked_ucost sh : all_tracked sh -> ucost sh = 0.
Proof.
  intros [_ [_ [H _]]]. unfold ucost.
  assert (Hf : filter (unknownb sh) (mkc (sh_map sh)) = []).
  { induction (sh_map sh) as [|e t IH]; [reflexivity|]. cbn [mkc map filter]. fold (mkc t).
    assert (Hk : unknownb sh (ekey e, ecost e) = false).
    { unfold unknownb, known. cbn [fst]. rewrite negb_false_iff, mem_In. apply in_or_app. left.
      apply H. left. reflexivity. }
    rewrite Hk. apply IH. intros x Hx. apply H. right. exact Hx. }
  rewrite Hf. reflexivity.
Qed.

Lemma U_all_tracked shs : Forall all_tracked shs -> U shs = 0.
Proof.
  induction 1 as [|sh r Hsh _ IH]; [reflexivity|]. unfold U in *. cbn [map sumN].
  rewrite (all_tracked_ucost sh Hsh), IH. reflexivity.
Qed.

Lemma restore_policy_tracks cp n i es :
  NoDup (map ekey es) ->
  all_tracked (mkSh (filter (fun e => Nat.eqb (shard_idx n (ekey e)) i) es)
                    (restore_policy (Some cp) n i es) []).
Proof.
  intros Hnd. unfold restore_policy. set (m := filter _ es).
  split; [reflexivity|]. cbn [sh_map sh_pol sh_pend]. split; [apply admit_all_NoDup; constructor|]. split.
  - intros e He. apply admit_all_keys. left. rewrite keys_mkc. apply in_map. exact He.
  - intros k c Hi. apply admit_all_spec in Hi. destruct Hi as [[p1 [p2 [Hs _]]]|[_ []]].
    rewrite Hs. apply in_or_app. right. left. reflexivity.
Qed.

(* the snapshot's entries in any order [ps] *)
Lemma Inv_restore c ps now' ttl' tti' cp :
  wf c -> c_cap c = Some cp -> Permutation ps (s_entries (snapshot c)) ->
  sumN (map ecost (filter (live (c_tti c) (c_now c)) (concat (maps c)))) < W64 ->
  let c' := restore (mkSnap ps (c_cap c) (length (c_shs c))) now' ttl' tti' in
  Inv c' /\ Forall all_tracked (c_shs c') /\ U (c_shs c') = 0.
Proof.
  intros Hwf Hcap Hperm Hlt. cbv zeta.
  destruct (restore_cost c ps now' ttl' tti' Hwf Hperm) as [Hc1 Hc2].
  pose proof (restore_wf c ps now' ttl' tti' Hwf Hperm) as Hwf'.
  pose proof (restore_shs c ps now' ttl' tti' Hwf Hperm) as Hshs.
  pose proof (es_NoDup c ps now' tti' Hwf Hperm) as Hnd.
  set (c' := restore (mkSnap ps (c_cap c) (length (c_shs c))) now' ttl' tti') in *.
  assert (Hall : Forall all_tracked (c_shs c')).
  { rewrite Hshs, Hcap. apply Forall_forall. intros sh Hsh. apply in_map_iff in Hsh.
    destruct Hsh as [i [<- _]]. apply restore_policy_tracks. exact Hnd. }
  assert (Hcost : c_cost c' = total_res (c_shs c')).
  { rewrite Hc1. rewrite total_res_concat. reflexivity. }
  split; [|split; [exact Hall|]].
  - constructor; [exact Hwf'| |exact Hcost|rewrite Hc2; exact Hlt].
    apply Forall_forall. intros sh Hsh.
    destruct (proj1 (Forall_forall _ _) Hall sh Hsh) as [Hp [Hn [_ Ht]]].
    constructor.
    + destruct (In_nth _ _ empty_sh Hsh) as [j [Hj Hnth]].
      destruct Hwf' as [_ Hw]. destruct (Hw j) as [H1 _]; [unfold maps; rewrite map_length; lia|].
      unfold maps in H1. rewrite (nth_indep _ [] (sh_map empty_sh)) in H1 by (rewrite map_length; exact Hj).
      rewrite map_nth, Hnth in H1. exact H1.
    + exact Hn.
    + intros k c0 Hi. right. apply Ht. exact Hi.
    + intros p1 k c0 p2 Hs. rewrite Hp in Hs. destruct p1; discriminate.
  - apply U_all_tracked. exact Hall.
Qed.

(** "honours its capacity like any other cache" — the baseline: a cache that
    was built empty *)
Theorem fresh_capacity n cp ttl tti now os :
  (0 < n)%nat ->
  let c := new_cache n (Some cp) ttl tti now in
  ok_run c (os ++ [OMaint]) ->
  let cf := fst (run c (os ++ [OMaint])) in
  c_cost cf <= cp /\ c_cost cf = total_res (c_shs cf).
Proof.
  intros Hn c Hok. cbv zeta. destruct (Inv_new n (Some cp) ttl tti now Hn) as [HI HU].
  destruct (maint_capacity c cp os HI eq_refl Hok) as [H1 H2]. split; [|exact H1].
  fold c in HU. destruct H2 as [H2|H2]; lia.
Qed.

(** a cache built from a snapshot (entries in any order), after the repair of
    F-23: exactly the same guarantee *)
Theorem restored_capacity c ps now' tti' cp os :
  wf c -> c_cap c = Some cp -> Permutation ps (s_entries (snapshot c)) ->
  sumN (map ecost (filter (live (c_tti c) (c_now c)) (concat (maps c)))) < W64 ->
  let c' := restore (mkSnap ps (c_cap c) (length (c_shs c))) now' None tti' in
  ok_run c' (os ++ [OMaint]) ->
  let cf := fst (run c' (os ++ [OMaint])) in
  c_cost cf <= cp /\ c_cost cf = total_res (c_shs cf).
Proof.
  intros Hwf Hcap Hperm Hlt c' Hok. cbv zeta.
  destruct (Inv_restore c ps now' None tti' cp Hwf Hcap Hperm Hlt) as [HI [_ HU]]. fold c' in HI, HU.
  assert (Hcap' : c_cap c' = Some cp) by (unfold c', restore; cbn [c_cap s_cap]; exact Hcap).
  destruct (maint_capacity c' cp os HI Hcap' Hok) as [H1 H2].
  split; [|exact H1]. rewrite HU in H2. destruct H2 as [H2|H2]; lia.
Qed.

Lemma sumN_filter_le (f : entry -> bool) l : sumN (map ecost (filter f l)) <= sumN (map ecost l).
Proof.
  induction l as [|e t IH]; cbn [filter map sumN]; [lia|]. destruct (f e); cbn [map sumN]; lia.
Qed.

(* ------------------------------------------------------------------------ *)
(** the full clauses of the property, and why they fail *)

(* "remaining lifetimes no longer than the originals", all causes of expiry *)
Definition snapshot_lifetime_full : Prop :=
  forall c now' tti' e,
    wf c -> In e (filter (live (c_tti c) (c_now c)) (concat (maps c))) ->
    ole (life_left tti' now' (entry_of_p now' tti' (pentry_of (c_now c) e)))
        (life_left (c_tti c) (c_now c) e).

(* "from then on honours its capacity like any other cache": from any consistent
   cache state c (over capacity or not), any ordering ps of its snapshot, after
   any admissible history ending in a fully draining run_maintenance *)
Definition restored_capacity_full : Prop :=
  forall c ps now' tti' cp os,
    Inv c -> c_cap c = Some cp -> Permutation ps (s_entries (snapshot c)) ->
    let c' := restore (mkSnap ps (c_cap c) (length (c_shs c))) now' None tti' in
    ok_run c' (os ++ [OMaint]) ->
    let cf := fst (run c' (os ++ [OMaint])) in
    c_cost cf <= cp /\ c_cost cf = total_res (c_shs cf).

Ltac solve_ok_run :=
  cbn [ok_run app]; repeat (split; [first [reflexivity | discriminate | (vm_compute; reflexivity)
                                           | (intros _; unfold drained, drained_shs; vm_compute;
                                              repeat (apply Forall_cons; [cbn; lia|]); apply Forall_nil)]|]);
  try exact I.

(* an entry idle for 9 of its 10 ticks gets 10 fresh ticks from the restore *)
Definition w_tti : cache :=
  fst (run (new_cache 1 (Some 100) None (Some 10) 1000) [OIns 1 1 1; OAdv 9]).

Lemma w_tti_wf : wf w_tti.
Proof.
  destruct (Inv_new 1 (Some 100) None (Some 10) 1000) as [HI _]; [lia|].
  assert (Hok : ok_run (new_cache 1 (Some 100) None (Some 10) 1000) [OIns 1 1 1; OAdv 9]) by solve_ok_run.
  apply (run_inv 100 _ _ HI eq_refl Hok).
Qed.

Theorem snapshot_lifetime_refuted : ~ snapshot_lifetime_full.
Proof.
  intros H. specialize (H w_tti 1009 (Some 10) (mkE 1 1 1 0 1000) w_tti_wf).
  assert (Hin : In (mkE 1 1 1 0 1000) (filter (live (c_tti w_tti) (c_now w_tti)) (concat (maps w_tti))))
    by (vm_compute; left; reflexivity).
  specialize (H Hin).
  assert (Hx : ole (Some 10) (Some 1)) by exact H.
  cbn [ole] in Hx. lia.
Qed.

(* since the repair of F-23 the full clause holds *)
Theorem restored_capacity_holds : restored_capacity_full.
Proof.
  intros c ps now' tti' cp os HI Hcap Hperm c' Hok.
  apply (restored_capacity c ps now' tti' cp os); try assumption; [apply HI|].
  destruct HI as [_ _ Hcost HW]. rewrite Hcost, total_res_concat in HW. fold (maps c) in HW.
  pose proof (sumN_filter_le (live (c_tti c) (c_now c)) (concat (maps c))). lia.
Qed.

(* the former witness of F-23: a snapshot taken while the cache is over capacity
   (3 inserts of cost 4 into capacity 10, no maintenance yet).  The restored
   cache now ends its first run_maintenance at 8, like the original. *)
Definition w_cap : cache :=
  fst (run (new_cache 1 (Some 10) None None 1000) [OIns 1 1 4; OIns 2 2 4; OIns 3 3 4]).

Lemma w_cap_Inv : Inv w_cap.
Proof.
  destruct (Inv_new 1 (Some 10) None None 1000) as [HI _]; [lia|].
  assert (Hok : ok_run (new_cache 1 (Some 10) None None 1000) [OIns 1 1 4; OIns 2 2 4; OIns 3 3 4]) by solve_ok_run.
  apply (run_inv 10 _ _ HI eq_refl Hok).
Qed.

Example former_F23_witness :
  c_cost w_cap = 12
  /\ c_cost (fst (run w_cap [OMaint])) = 8
  /\ c_cost (fst (run (restore (snapshot w_cap) 1000 None None) [OMaint])) = 8
  /\ c_cost (fst (run (restore (reorder (snapshot w_cap)) 1000 None None) [OMaint])) = 8.
Proof. repeat split; vm_compute; reflexivity. Qed.
