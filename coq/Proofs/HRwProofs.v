(* Proofs/HRwProofs.v — the C10 theorems for HybridRwLock (all thread counts, programs, schedules). *)
From Coq Require Import List NArith Arith Bool Lia.
From Fibre Require Import Common.Conc Sync.HMutex Sync.HRwLock Proofs.HMutexBase Proofs.HRwBase Proofs.HRwGuard.
Import ListNotations.

Definition RInv s := RInvA s /\ RInvB s /\ RInvD s.

Lemma RInv_init progs : RInv (rwinit progs).
Proof.
  unfold RInv. split; [|split].
  - unfold RInvA. cbn. repeat split; try tauto; try discriminate. constructor.
  - unfold RInvB. split; intro u; cbn; intro X; discriminate X.
  - unfold RInvD. cbn. split; intros _ u; [intros []|intros b []].
Qed.

Lemma RInv_step s t c s' e : RInv s -> rwstep s t c = Some (s', e) -> RInv s'.
Proof.
  intros (A & B & D) H. split; [|split].
  - eapply RInvA_step; eassumption.
  - eapply RInvB_step; eassumption.
  - eapply RInvD_step; eassumption.
Qed.

Theorem RInv_reachable progs s : reachable (rwsys progs) s -> RInv s.
Proof.
  apply (invariant_lift (rwsys progs) RInv).
  - apply RInv_init.
  - intros s0 t c s' e. apply RInv_step.
Qed.

(* ------------------------------------------------------------------ mutual exclusion *)
Theorem rw_excl progs s :
  reachable (rwsys progs) s ->
  (wl s = true -> rd s = 0%N /\ rholders s = [] /\ exists h, wholders s = [h])
  /\ (wl s = false -> wholders s = [])
  /\ rd s = N.of_nat (length (rholders s)) /\ NoDup (rholders s)
  /\ (forall u, In u (wholders s) <-> holdsk WR (rpcs s u) = true)
  /\ (forall u, In u (rholders s) <-> holdsk RD (rpcs s u) = true)
  /\ (forall t u k, holdsk WR (rpcs s t) = true -> holdsk k (rpcs s u) = true -> t = u).
Proof.
  intros R. destruct (RInv_reachable _ _ R) as ((A1 & A2 & A3 & A4 & A5 & A6) & _).
  repeat apply conj; try assumption.
  - intros X. destruct (A5 X) as [Y Z]. rewrite A4, Z. repeat split. exact Y.
  - intros t u k Ht Hu. apply A1 in Ht.
    destruct (wl s) eqn:EW; [|rewrite (A6 eq_refl) in Ht; destruct Ht].
    destruct (A5 eq_refl) as [[h Hh] HR]. rewrite Hh in Ht. destruct Ht as [<-|[]].
    destruct k.
    + apply A2 in Hu. rewrite HR in Hu. destruct Hu.
    + apply A1 in Hu. rewrite Hh in Hu. destruct Hu as [<-|[]]. reflexivity.
Qed.

Corollary rw_critical_sections progs s t u k :
  reachable (rwsys progs) s -> rpcs s t = RCS WR -> rpcs s u = RCS k -> t = u.
Proof.
  intros R Ht Hu. destruct (rw_excl _ _ R) as (_ & _ & _ & _ & _ & _ & X).
  apply (X t u k); [rewrite Ht|rewrite Hu]; cbn; destruct k; reflexivity.
Qed.

(* ------------------------------------------------------------------ the writer gate *)
Lemma rem1_length_le t l : length (rem1 t l) <= length l.
Proof.
  induction l as [|x r IH]; cbn [rem1 length]; [lia|]. destruct (Nat.eqb x t); cbn [length]; lia.
Qed.

Lemma rflush_rholders s t ws : rholders (rflush s t ws) = rholders s.
Proof. destruct (rflush_frame s t ws) as (_ & _ & _ & X & _). exact X. Qed.

(* A step that creates a read guard saw the word without WRITE_LOCKED and WITHOUT WRITER_PENDING;
   so (RInvD) every writer node linked at that moment belongs to a writer that has linked itself
   but not yet executed its fetch_or(WRITER_PENDING): from that fetch_or until the writer is
   unlinked no new reader acquires — by try_acquire_read, try_read, or the queue-section CAS. *)
Theorem rw_writer_gate progs s t c s' e :
  reachable (rwsys progs) s -> rwstep s t c = Some (s', e) ->
  length (rholders s') = S (length (rholders s)) ->
  wl s = false /\ wp s = false
  /\ forall u, In (u, true) (rqueue s) -> exists q, rpcs s u = RQFor q /\ rkind_q q = WR.
Proof.
  intros R H HL. destruct (RInv_reachable _ _ R) as (_ & _ & [D1 _]).
  assert (X : wl s = false /\ wp s = false).
  { rstep_cases H; rsimpl; rewrite ?rflush_rholders in HL; rsimpl; try (exfalso; lia);
      try (exfalso; pose proof (rem1_length_le t (rholders s)); lia).
    all: match goal with E : ?X = true |- _ =>
           match X with context [negb (wl ?s0) && negb (wp ?s0)] =>
             destruct (wl s0); [cbn in E; discriminate E|]; destruct (wp s0); [cbn in E; discriminate E|]; split; reflexivity
           end
         end. }
  destruct X as [X1 X2]. repeat split; try assumption. apply D1. exact X2.
Qed.

(* the gate is up whenever a queued writer is past its fetch_or *)
Corollary rw_gate_up progs s u :
  reachable (rwsys progs) s -> In (u, true) (rqueue s) -> (forall q, rpcs s u <> RQFor q) -> wp s = true.
Proof.
  intros R Hu Hq. destruct (RInv_reachable _ _ R) as (_ & _ & [D1 _]).
  destruct (wp s) eqn:EW; [reflexivity|]. destruct (D1 eq_refl u Hu) as [q [Q _]]. exfalso. exact (Hq q Q).
Qed.

(* ------------------------------------------------------------------ try_read / try_write never block *)
Definition rtry_pc (p : rpc) : bool :=
  match p with RTALoad (RATry _) | RTACas (RATry _) _ _ _ => true | _ => false end.

Definition rstate_access (e : mev) : Prop :=
  match e with EvLoad VState _ _ | EvCas VState _ _ _ _ _ _ => True | _ => False end.

Theorem rw_try_nonblocking s t c :
  rtry_pc (rpcs s t) = true ->
  exists s' e, rwstep s t c = Some (s', e) /\ rstate_access e /\
    match rpcs s t with
    | RTALoad (RATry k) => (exists a b d, rpcs s' t = RTACas (RATry k) a b d) \/ rpcs s' t = RIdle
    | RTACas (RATry k) _ _ _ => rpcs s' t = RCS k \/ rpcs s' t = RIdle
    | _ => False
    end.
Proof.
  intros H. unfold rwstep. destruct (rpcs s t) as [] eqn:Epc; try discriminate H.
  - destruct a; try discriminate H. unfold rdo_taload, ta_fail, rret. cbn [rkind_a]. destruct k.
    + destruct (wl s || wp s).
      * eexists; eexists; split; [reflexivity|]. split; [exact I|]. right. cbn. apply upd_eq.
      * eexists; eexists; split; [reflexivity|]. split; [exact I|]. left. do 3 eexists. cbn. apply upd_eq.
    + destruct (wl s || negb (rd s =? 0)%N).
      * eexists; eexists; split; [reflexivity|]. split; [exact I|]. right. cbn. apply upd_eq.
      * eexists; eexists; split; [reflexivity|]. split; [exact I|]. left. do 3 eexists. cbn. apply upd_eq.
  - destruct a; try discriminate H. unfold ta_fail, after_acq_a, rret. cbn [rkind_a]. destruct k.
    + cbn [andb]. match goal with |- context [if ?b then _ else _] => destruct b end.
      * eexists; eexists; split; [reflexivity|]. split; [exact I|]. left. cbn. apply upd_eq.
      * eexists; eexists; split; [reflexivity|]. split; [exact I|]. right. cbn. apply upd_eq.
    + match goal with |- context [if ?b then _ else _] => destruct b end.
      * eexists; eexists; split; [reflexivity|]. split; [exact I|]. left. cbn. apply upd_eq.
      * eexists; eexists; split; [reflexivity|]. split; [exact I|]. right. cbn. apply upd_eq.
Qed.

(* ------------------------------------------------------------------ wake initiation (partial) *)
(* A release that leaves the lock completely free (write unlock, or the LAST read unlock) while a
   node is linked whose owner is past its fetch_or continues into wake_waiters.  (This is only the
   initiation half of "wake owed"; that the wake reaches a waiter that can use it is NOT proved
   for the rwlock.) *)
Theorem rw_release_wakes progs s t k c u b :
  reachable (rwsys progs) s -> rpcs s t = RURel k ->
  (k = WR \/ rd s = 1%N) ->
  In (u, b) (rqueue s) -> (forall q, rpcs s u <> RQFor q) ->
  exists s' e, rwstep s t c = Some (s', e) /\ rpcs s' t = RLLSwap RLWake.
Proof.
  intros R Epc Hk Hu Hq. destruct (RInv_reachable _ _ R) as (_ & _ & [_ D2]).
  assert (HH : hq s = true).
  { destruct (hq s) eqn:EH; [reflexivity|]. destruct (D2 eq_refl u b Hu) as [q Q]. exfalso. exact (Hq q Q). }
  unfold rwstep. rewrite Epc. unfold rret. destruct k.
  - destruct Hk as [X|X]; [discriminate X|]. rewrite X, HH. cbn.
    eexists; eexists; split; [reflexivity|]. cbn. apply upd_eq.
  - rewrite HH. eexists; eexists; split; [reflexivity|]. cbn. apply upd_eq.
Qed.

Theorem rw_cancel_forwards_wake s t c :
  rpcs s t = RDLoad -> rnwk s t = true ->
  exists s' e, rwstep s t c = Some (s', e) /\ rpcs s' t = RLLSwap RLWake /\ rfut s' t = None.
Proof.
  intros Epc Hn. unfold rwstep. rewrite Epc, Hn. unfold rret.
  eexists; eexists; split; [reflexivity|]. cbn. rewrite !upd_eq. split; reflexivity.
Qed.
