(* Proofs/RvK3Final.v — the K3' rendezvous theorems in schedule form (for every configuration
   `cfg` = any number of sender / receiver threads with arbitrary programs, and every schedule
   `sch`), the statement `rv_exactly_once` with its proof for the repaired code (cas_under_lock =
   true) and its refutation for the pre-fix code (cas_under_lock = false, finding F-01). *)
From Coq Require Import List NArith Arith Bool Lia.
From Fibre Require Import Common.Conc Chan.RvK3 Proofs.RvK3Base Proofs.RvK3Queue Proofs.RvK3Cell
  Proofs.RvK3Val Proofs.RvK3Wake Proofs.RvK3Count Proofs.RvK3Proofs Proofs.RvK3Thm Proofs.RvK3Live
  Proofs.RvK3Examples.
Import ListNotations.

Lemma final_reachable cul cfg sch : reachable (sys cul cfg) (final cul cfg sch).
Proof. exists sch. reflexivity. Qed.

(* rv_exactly_once: in every state of every schedule, the payload of every send that reported Ok
   is with exactly one receiver (returned by exactly one of its receives, or still in its hand /
   destination cell), and no receive reported Timeout over a delivered payload *)
Definition rv_exactly_once (cul : bool) : Prop :=
  forall cfg sch p v, let s := final cul cfg sch in
  is_sender cfg p = true -> In v (sent_ok s p) ->
  (exists r, is_receiver cfg r = true /\ In v (got s r ++ r_inflight cfg s r) /\
             NoDup (got s r ++ r_inflight cfg s r) /\
             forall r', is_receiver cfg r' = true -> In v (got s r' ++ r_inflight cfg s r') -> r' = r)
  /\ forall r, lost s r = [].

Theorem rv_exactly_once_fixed : rv_exactly_once true.
Proof.
  intros cfg sch p v s Hp Hv. split.
  - exact (exactly_once cfg s (final_reachable true cfg sch) p v Hp Hv).
  - intros r. exact (no_lost cfg s (final_reachable true cfg sch) r).
Qed.

(* F-01: before commit 2e08297 (cancel CAS outside the lock) the statement is false *)
Theorem rv_exactly_once_prefix_refuted : ~ rv_exactly_once false.
Proof.
  intros H. specialize (H f01_cfg f01_sched 0 (0, 1)). cbv zeta in H.
  pose proof f01_witness as Hw. unfold f01_s in Hw. destruct Hw as [H0 [_ [_ [Hl _]]]].
  destruct H as [_ H]; [reflexivity| |].
  - unfold sent_ok. rewrite H0. left. reflexivity.
  - specialize (H 1). rewrite Hl in H. discriminate H.
Qed.

(* the lost payload, spelled out: sender told Ok, every thread finished, nobody received it *)
Theorem rv_prefix_loses_value :
  exists cfg sch p v, let s := final false cfg sch in
  is_sender cfg p = true /\ In v (sent_ok s p) /\ all_done cfg s /\ (forall r, ~ In v (got s r)) /\
  In (RTimeout (Some v)) (results s 1).
Proof.
  exists f01_cfg, f01_sched, 0, (0, 1). cbv zeta.
  pose proof f01_witness as Hw. unfold f01_s in Hw. destruct Hw as [H0 [H1 [H2 [H3 [H4 H5]]]]].
  split; [reflexivity|]. split.
  - unfold sent_ok. rewrite H0. left. reflexivity.
  - split; [exact H5|]. split.
    + intros r. destruct r as [|[|r]].
      * unfold got. rewrite H0. cbn. tauto.
      * rewrite H2. intros [].
      * unfold got.
        match goal with |- ~ In _ (flat_map _ (results ?s0 _)) =>
          assert (Hr : results s0 (S (S r)) = []) by (vm_compute; reflexivity) end.
        rewrite Hr. intros [].
    + rewrite H1. left. reflexivity.
Qed.

Section Sched.
  Variable cfg : list tcfg.
  Variable sch : list (nat * choice).
  Let s := final true cfg sch.
  Let HR : reachable (sys true cfg) s := final_reachable true cfg sch.

  Definition F_ok_is_handed := ok_is_handed cfg s HR.
  Definition F_failed_not_handed := failed_not_handed cfg s HR.
  Definition F_handed_once := handed_once cfg s HR.
  Definition F_handed_commits := handed_commits cfg s HR.
  Definition F_no_timeout_after_handoff := no_timeout_after_handoff cfg s HR.
  Definition F_receiver_accounting := receiver_accounting cfg s HR.
  Definition F_exactly_once_final := exactly_once_final cfg s HR.
  Definition F_never_bad := never_bad cfg s HR.
  Definition F_cells_ok := cells_ok cfg s HR.
  Definition F_queues_ok := queues_ok cfg s HR.
  Definition F_linked_is_live := linked_is_live cfg s HR.
  Definition F_sender_slot_not_handed := sender_slot_not_handed cfg s HR.
  Definition F_received_was_handed := received_was_handed cfg s HR.
  Definition F_wake_owed := wake_owed cfg s HR.
  Definition F_quiescent_parked_waiting := quiescent_parked_waiting cfg s HR.
  Definition F_deadlock_free := deadlock_free cfg s HR.

  (* the single-slot receiver store of mpsc / spsc rendezvous (`Option<RecvRec>`) is the list
     model with at most one element: with at most one receiver thread at most one record is linked *)
  Lemma F_single_receiver_store :
    (forall u u', is_receiver cfg u = true -> is_receiver cfg u' = true -> u = u') -> length (rq s) <= 1.
  Proof.
    intros H1. pose proof (Inv_reachable cfg s HR) as HI. pose proof (Q_ndr _ _ (I_q _ _ HI)) as N.
    destruct (rq s) as [|a [|b l]] eqn:E; cbn; try lia. exfalso.
    assert (Ha : In a (rq s)) by (rewrite E; left; reflexivity).
    assert (Hb : In b (rq s)) by (rewrite E; right; left; reflexivity).
    pose proof (H1 a b (in_rq_receiver _ _ _ (I_l _ _ HI) (I_q _ _ HI) Ha) (in_rq_receiver _ _ _ (I_l _ _ HI) (I_q _ _ HI) Hb)).
    subst b. apply NoDup_cons_inv in N. apply (proj1 N). left. reflexivity.
  Qed.
End Sched.
