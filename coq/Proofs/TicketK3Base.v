(* Proofs/TicketK3Base.v — arithmetic of the ticket geometry, function-update lemmas, the step
   inversion tactic and the definition of the slot/ticket invariant SInv of the K3 ticket model
   (Chan/TicketK3.v). *)
From Fibre Require Import Common.Base Common.Conc Chan.TicketK3.
From Coq Require Import ZifyBool ZifyNat ZifyN Arith.

(* ---------------------------------------------------------------- function updates *)
Lemma updN_eq {A} (f : N -> A) k v : updN f k v k = v.
Proof. unfold updN. rewrite N.eqb_refl. reflexivity. Qed.
Lemma updN_neq {A} (f : N -> A) k v x : x <> k -> updN f k v x = f x.
Proof. unfold updN. intros H. destruct (N.eqb_spec x k); [contradiction|reflexivity]. Qed.
Lemma updn_eq {A} (f : nat -> A) k v : updn f k v k = v.
Proof. unfold updn. rewrite Nat.eqb_refl. reflexivity. Qed.
Lemma updn_neq {A} (f : nat -> A) k v x : x <> k -> updn f k v x = f x.
Proof. unfold updn. intros H. destruct (Nat.eqb_spec x k); [contradiction|reflexivity]. Qed.

(* ---------------------------------------------------------------- geometry: t = cid*cc + idx *)
Section Geo.
Variable cc : N.
Hypothesis Hcc : 0 < cc.

Lemma geo_div c i : i < cc -> (c * cc + i) / cc = c.
Proof. intros Hi. symmetry. apply N.div_unique with i; [exact Hi | lia]. Qed.
Lemma geo_mod c i : i < cc -> (c * cc + i) mod cc = i.
Proof. intros Hi. symmetry. apply N.mod_unique with c; [exact Hi | lia]. Qed.
Lemma geo_split t : t = (t / cc) * cc + t mod cc /\ t mod cc < cc.
Proof.
  split.
  - rewrite N.mul_comm. apply N.div_mod. lia.
  - apply N.mod_lt. lia.
Qed.
Lemma geo_key_inj j i j' i' : i < cc -> i' < cc -> j * cc + i = j' * cc + i' -> j = j' /\ i = i'.
Proof.
  intros Hi Hi' E. split.
  - rewrite <- (geo_div j i Hi), <- (geo_div j' i' Hi'), E. reflexivity.
  - rewrite <- (geo_mod j i Hi), <- (geo_mod j' i' Hi'), E. reflexivity.
Qed.
(* a ticket at or beyond the cursor lives in the cursor's chunk or a later one *)
Lemma geo_ge hc hi t : hc * cc + hi <= t -> hc <= t / cc.
Proof. intros H. apply N.div_le_lower_bound; lia. Qed.
(* every slot of an earlier chunk is before the cursor *)
Lemma geo_lt cur hc hi i : cur < hc -> i < cc -> cur * cc + i < hc * cc + hi.
Proof. intros H Hi. nia. Qed.
(* the next ticket stays in the chunk unless it starts a new one *)
Lemma geo_succ t : (t + 1) mod cc <> 0 -> (t + 1) / cc = t / cc.
Proof.
  intros H. destruct (geo_split t) as [Ht Hm].
  destruct (N.eq_dec (t mod cc + 1) cc) as [E|E].
  - exfalso. apply H. replace (t + 1) with ((t / cc + 1) * cc + 0) by nia. apply geo_mod. lia.
  - replace (t + 1) with (t / cc * cc + (t mod cc + 1)) by lia. apply geo_div. lia.
Qed.
End Geo.

(* ---------------------------------------------------------------- step inversion *)
Ltac unf_steps :=
  unfold p_closed_window, p_loop, p_done_batch, p_done, p_done_n, c_done_vals, c_done, c_done_l, p_resident,
    p_lock, c_lock, c_after_pub, c_next, c_miss, set_ppc_at in *.

(* break the step equation [H : ... = Some (s', e)] into its branches *)
Ltac inv_step H :=
  first [ discriminate H
        | match type of H with
          | Some (_, _) = Some _ => injection H as <- <-
          | Some (if ?x then _ else _) = Some _ => destruct x eqn:?; inv_step H
          | Some (match ?x with _ => _ end) = Some _ => destruct x eqn:?; inv_step H
          | (if ?x then _ else _) = Some _ => destruct x eqn:?; inv_step H
          | (match ?x with _ => _ end) = Some _ => destruct x eqn:?; inv_step H
          end ].

(* after inversion the new state may still be an `if` / `match` over the values read *)
Ltac split_goal :=
  repeat match goal with
  | |- context [if ?b then _ else _] => let E := fresh "E" in destruct b eqn:E
  | |- context [match ?x with _ => _ end] => let E := fresh "E" in destruct x eqn:E
  end.

(* ---------------------------------------------------------------- pc projections *)
(* the ticket range [own_lo, own_hi) a producer pc owns (claimed by its fetch_add, state not yet stored) *)
Definition own_lo (pc : ppc_t) : N :=
  match pc with
  | PS4 _ t | PC4 _ t _ => t
  | PE1 _ r | PE2 _ r _ | PEs _ r _ | PE3 _ r _ | PW0 _ r | PW1 _ r => rt r + rw r
  | _ => 0
  end.
Definition own_hi (pc : ppc_t) : N :=
  match pc with
  | PS4 _ t => t + 1
  | PC4 _ t m => t + m
  | PE1 _ r | PE2 _ r _ | PEs _ r _ | PE3 _ r _ | PW0 _ r | PW1 _ r => rt r + rm r
  | _ => 0
  end.
Definition owns (pc : ppc_t) (t : N) : Prop := own_lo pc <= t < own_hi pc.

(* the payload cell of the ticket being resolved has been written: (ticket, item index) *)
Definition wval_of (pc : ppc_t) : option (N * N) :=
  match pc with
  | PW1 k r => if rset r then Some (rcur r, kitem k + rw r) else None
  | _ => None
  end.
(* the consumer has taken the payload of the ticket at the cursor, the state byte is still SET *)
Definition taken (pc : cpc_t) : bool := match pc with CD5 _ true => true | _ => false end.

Definition code (x : tstat) : N := match x with TSet _ => sSET | TSkip => sSKIP | _ => sEMPTY end.

(* contents of the payload cell of ticket t, as determined by the ghost state *)
Definition dataof (tkf : N -> tstat) (pcf : nat -> ppc_t) (sq : nat -> N) (tak : bool) (hp t : N) : option val :=
  match tkf t with
  | TSet v => if tak && N.eqb t hp then None else Some v
  | TOwn th => match wval_of (pcf th) with
               | Some (t0, i) => if N.eqb t t0 then Some (th, sq th + 1 + i) else None
               | None => None
               end
  | _ => None
  end.

Section Inv.
Variables cap cc n kk : N.

(* what a run in its write phase knows: there is a current ticket; the SET tickets have credit *)
Definition RInv (hp : N) (k : kctx) (r : trun) : Prop :=
  rw r < rm r /\ rv r <= rm r /\ (rv r = 0 \/ rt r + rv r <= hp + cap) /\
  match k with KOne _ => rm r = 1 | KBatch b => bsent b + rm r <= btotal b end.
Definition resident (idf : N -> N) (t : N) : Prop := idf (ent n (cid_of cc t)) = cid_of cc t.

(* what a producer pc knows (the observed values that license its next step) *)
Definition PInv (hp ret : N) (idf : N -> N) (pc : ppc_t) : Prop :=
  match pc with
  | PE1 k r | PE2 k r _ | PEs k r _ => RInv hp k r
  | PE3 k r cur => RInv hp k r /\ cur + 1 <= ret
  | PW0 k r => RInv hp k r /\ rw r < rv r /\ resident idf (rcur r)
  | PW1 k r => RInv hp k r /\ resident idf (rcur r)
  | PN1 k r | PN2 k r | PN3 k r =>
      rw r = rm r /\ rv r <= rm r /\ match k with KOne _ => rm r = 1 | KBatch b => bsent b + rm r <= btotal b end
  | PB1 b | PL1 b | PC0 b | PC1 b | PC2 b _ => bsent b <= btotal b
  | PC3 b m | PC4 b _ m => 0 < m /\ bsent b + m <= btotal b
  | _ => True
  end.

(* what the consumer pc knows *)
Definition CInv (idf : N -> N) (ssf : N -> N) (hc hi : N) (pc : cpc_t) : Prop :=
  match pc with
  | CD2 _ => idf (ent n hc) = hc /\ hi = cc
  | CD3 _ => idf (ent n hc) = hc /\ hi < cc
  | CD4 _ | CD5 _ true => idf (ent n hc) = hc /\ hi < cc /\ ssf (slot_at cc n hc hi) = sSET
  | CD5 _ false => idf (ent n hc) = hc /\ hi < cc /\ ssf (slot_at cc n hc hi) = sSKIP
  | _ => True
  end.

Record SInv (s : st) : Prop := {
  (* clause 1: the counters *)
  A_pos : hpos s = hcid s * cc + hidx s;
  A_idx : hidx s <= cc;
  A_ret : retired s = hcid s;
  A_prog : progress s <= hpos s;
  A_drn : drained s <= hpos s;
  A_tail : hpos s <= gtail s;
  (* clause 2: ticket classes *)
  B_free : forall t, tk s t = TFree <-> gtail s <= t;
  B_done : forall t, t < hpos s -> code (tk s t) <> sEMPTY;
  B_own : forall t th, tk s t = TOwn th <-> owns (ppc s th) t;
  P_inv : forall th, PInv (hpos s) (retired s) (ids s) (ppc s th);
  (* clause 3: capacity *)
  D_cap : forall t v, tk s t = TSet v -> hpos s <= t -> t < hpos s + cap;
  (* clause 4: the chunk table and the physical slots *)
  T_ids : forall j, j < n -> ids s j mod n = j;
  E_slot : forall j i, j < n -> i < cc ->
           let t := ids s j * cc + i in
           sstate s (j * cc + i) = (if N.ltb t (hpos s) then sEMPTY else code (tk s t))
           /\ sdata s (j * cc + i) =
              (if N.ltb t (hpos s) then None else dataof (tk s) (ppc s) (pseq s) (taken (cpc s)) (hpos s) t);
  R_res : forall t, hpos s <= t -> code (tk s t) <> sEMPTY -> ids s (ent n (cid_of cc t)) = cid_of cc t;
  C_inv : CInv (ids s) (sstate s) (hcid s) (hidx s) (cpc s);
  Bad : bad s = false
}.
End Inv.
