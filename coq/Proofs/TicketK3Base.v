(* Proofs/TicketK3Base.v — arithmetic of the ticket geometry, function-update lemmas, the step
   inversion tactic and the definition of the slot/ticket invariant SInv of the K3 ticket model
   (Chan/TicketK3.v). *)
From Fibre Require Import Common.Base Common.Conc Chan.TicketK3.
From Coq Require Import ZifyBool ZifyNat ZifyN Arith.

(* ---------------------------------------------------------------- function updates *)
Lemma updN_eq {A} (f : N -> A) k v : updN f k v k = v.
Proof. unfold updN. rewrite N.eqb_refl. reflexivity. Qed.
Lemma updN_neq {A} (f : N -> A) k v x : x <> k -> updN f k v x = f x.
Proof. unfold updN. intros H. destruct (N.eqb_spec x k); [contradiction|reflexivity]. Qed.
Lemma updn_eq {A} (f : nat -> A) k v : updn f k v k = v.
Proof. unfold updn. rewrite Nat.eqb_refl. reflexivity. Qed.
Lemma updn_neq {A} (f : nat -> A) k v x : x <> k -> updn f k v x = f x.
Proof. unfold updn. intros H. destruct (Nat.eqb_spec x k); [contradiction|reflexivity]. Qed.

(* ---------------------------------------------------------------- geometry: t = cid*cc + idx *)
Section Geo.
Variable cc : N.
Hypothesis Hcc : 0 < cc.

Lemma geo_div c i : i < cc -> (c * cc + i) / cc = c.
Proof. intros Hi. symmetry. apply N.div_unique with i; [exact Hi | lia]. Qed.
Lemma geo_mod c i : i < cc -> (c * cc + i) mod cc = i.
Proof. intros Hi. symmetry. apply N.mod_unique with c; [exact Hi | lia]. Qed.
Lemma geo_split t : t = (t / cc) * cc + t mod cc /\ t mod cc < cc.
Proof.
  split.
  - rewrite N.mul_comm. apply N.div_mod. lia.
  - apply N.mod_lt. lia.
Qed.
Lemma geo_key_inj j i j' i' : i < cc -> i' < cc -> j * cc + i = j' * cc + i' -> j = j' /\ i = i'.
Proof.
  intros Hi Hi' E. split.
  - rewrite <- (geo_div j i Hi), <- (geo_div j' i' Hi'), E. reflexivity.
  - rewrite <- (geo_mod j i Hi), <- (geo_mod j' i' Hi'), E. reflexivity.
Qed.
(* a ticket at or beyond the cursor lives in the cursor's chunk or a later one *)
Lemma geo_ge hc hi t : hc * cc + hi <= t -> hc <= t / cc.
Proof. intros H. apply N.div_le_lower_bound; lia. Qed.
(* every slot of an earlier chunk is before the cursor *)
Lemma geo_lt cur hc hi i : cur < hc -> i < cc -> cur * cc + i < hc * cc + hi.
Proof. intros H Hi. nia. Qed.
End Geo.

(* ---------------------------------------------------------------- step inversion *)
Ltac unf_steps :=
  unfold p_done, c_done, p_resident, p_lock, c_lock, c_after_pub, set_ppc_at in *.

(* break the step equation [H : ... = Some (s', e)] into its branches *)
Ltac inv_step H :=
  first [ discriminate H
        | match type of H with
          | Some (_, _) = Some _ => injection H as <- <-
          | Some (if ?x then _ else _) = Some _ => destruct x eqn:?; inv_step H
          | Some (match ?x with _ => _ end) = Some _ => destruct x eqn:?; inv_step H
          | (if ?x then _ else _) = Some _ => destruct x eqn:?; inv_step H
          | (match ?x with _ => _ end) = Some _ => destruct x eqn:?; inv_step H
          end ].

(* after inversion the new state may still be an `if` / `match` over the values read *)
Ltac split_goal :=
  repeat match goal with
  | |- context [if ?b then _ else _] => let E := fresh "E" in destruct b eqn:E
  | |- context [match ?x with _ => _ end] => let E := fresh "E" in destruct x eqn:E
  end.

(* ---------------------------------------------------------------- pc projections *)
(* the ticket a producer pc owns (between its fetch_add and its state store) *)
Definition own_of (pc : ppc_t) : option N :=
  match pc with
  | PS4 _ t | PE1 _ t _ | PE2 _ t _ _ | PEs _ t _ _ | PE3 _ t _ _ | PW0 _ t | PW1 _ t _ => Some t
  | _ => None
  end.
(* the payload cell of the owned ticket has been written *)
Definition w1_of (pc : ppc_t) : bool := match pc with PW1 _ _ true => true | _ => false end.
(* the consumer has taken the payload of the ticket at the cursor, the state byte is still SET *)
Definition taken (pc : cpc_t) : bool := match pc with CD5 _ true => true | _ => false end.

Definition code (x : tstat) : N := match x with TSet _ => sSET | TSkip => sSKIP | _ => sEMPTY end.

(* contents of the payload cell of ticket t, as determined by the ghost state *)
Definition dataof (tkf : N -> tstat) (pcf : nat -> ppc_t) (sq : nat -> N) (tak : bool) (hp t : N) : option val :=
  match tkf t with
  | TSet v => if tak && N.eqb t hp then None else Some v
  | TOwn th => if w1_of (pcf th) then Some (th, sq th + 1) else None
  | _ => None
  end.

Section Inv.
Variables cap cc n kk : N.

(* what a producer pc knows (the observed values that license its next step) *)
Definition PInv (tkf : N -> tstat) (hp ret : N) (idf : N -> N) (mv : val) (pc : ppc_t) : Prop :=
  match pc with
  | PE1 _ t ok | PE2 _ t ok _ | PEs _ t ok _ => ok = true -> t < hp + cap
  | PE3 _ t ok cur => (ok = true -> t < hp + cap) /\ cur + 1 <= ret
  | PW0 _ t => t < hp + cap /\ idf (ent n (cid_of cc t)) = cid_of cc t
  | PW1 _ t ok => (ok = true -> t < hp + cap) /\ idf (ent n (cid_of cc t)) = cid_of cc t
  | PN1 _ t ok | PN2 _ t ok | PN3 _ t ok => ok = true -> tkf t = TSet mv
  | _ => True
  end.

(* what the consumer pc knows *)
Definition CInv (idf : N -> N) (ssf : N -> N) (hc hi : N) (pc : cpc_t) : Prop :=
  match pc with
  | CD2 _ => idf (ent n hc) = hc /\ hi = cc
  | CD3 _ => idf (ent n hc) = hc /\ hi < cc
  | CD4 _ | CD5 _ true => idf (ent n hc) = hc /\ hi < cc /\ ssf (slot_at cc n hc hi) = sSET
  | CD5 _ false => idf (ent n hc) = hc /\ hi < cc /\ ssf (slot_at cc n hc hi) = sSKIP
  | _ => True
  end.

Record SInv (s : st) : Prop := {
  (* clause 1: the counters *)
  A_pos : hpos s = hcid s * cc + hidx s;
  A_idx : hidx s <= cc;
  A_ret : retired s = hcid s;
  A_prog : progress s <= hpos s;
  A_drn : drained s <= hpos s;
  A_tail : hpos s <= gtail s;
  (* clause 2: ticket classes *)
  B_free : forall t, tk s t = TFree <-> gtail s <= t;
  B_done : forall t, t < hpos s -> code (tk s t) <> sEMPTY;
  B_own : forall t th, tk s t = TOwn th <-> own_of (ppc s th) = Some t;
  P_inv : forall th, PInv (tk s) (hpos s) (retired s) (ids s) (myval s th) (ppc s th);
  (* clause 3: capacity *)
  D_cap : forall t v, tk s t = TSet v -> hpos s <= t -> t < hpos s + cap;
  (* clause 4: the chunk table and the physical slots *)
  T_ids : forall j, j < n -> ids s j mod n = j;
  E_slot : forall j i, j < n -> i < cc ->
           let t := ids s j * cc + i in
           sstate s (j * cc + i) = (if N.ltb t (hpos s) then sEMPTY else code (tk s t))
           /\ sdata s (j * cc + i) =
              (if N.ltb t (hpos s) then None else dataof (tk s) (ppc s) (pseq s) (taken (cpc s)) (hpos s) t);
  R_res : forall t, hpos s <= t -> code (tk s t) <> sEMPTY -> ids s (ent n (cid_of cc t)) = cid_of cc t;
  C_inv : CInv (ids s) (sstate s) (hcid s) (hidx s) (cpc s);
  Bad : bad s = false
}.
End Inv.
