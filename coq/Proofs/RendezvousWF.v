(* Proofs/RendezvousWF.v — every step of the rendezvous model preserves the structural
   invariant WF (Proofs/RendezvousBase.v), for every configuration. *)
From Fibre Require Import Common.Base Chan.Rendezvous Proofs.RendezvousBase.

Lemma in_fst_exists {A} f (q : list (N * A)) : In f (map fst q) -> exists w, In (f, w) q.
Proof.
  intros H. apply in_map_iff in H. destruct H as [[f' w] [E Hi]]. cbn in E. subst. exists w. exact Hi.
Qed.

Lemma In_aupd_fst {A} f g f' w' (q : list (N * A)) :
  In (f', w') (aupd f g q) -> exists w0, In (f', w0) q.
Proof. intros H. apply In_aupd_inv in H. apply in_fst_exists. exact H. Qed.

Lemma qhas_app f q q' : qhas f (q ++ q') = qhas f q || qhas f q'.
Proof.
  unfold qhas, ahas. rewrite aget_app. destruct (aget f q); reflexivity.
Qed.

Lemma qhas_cons_neq f g w q : f <> g -> qhas f ((g, w) :: q) = qhas f q.
Proof. intros Hn. unfold qhas, ahas. cbn [aget]. deq f g; [congruence | reflexivity]. Qed.

Lemma qhas_qdel_neq f g q : f <> g -> qhas f (qdel g q) = qhas f q.
Proof. intros Hn. unfold qhas, ahas, qdel. rewrite aget_adel_neq by congruence. reflexivity. Qed.

Lemma qhas_qrefresh f g w q : qhas f (qrefresh g w q) = qhas f q.
Proof.
  unfold qhas, ahas, qrefresh. rewrite aget_aupd. deq g f; [|reflexivity].
  destruct (aget f q); reflexivity.
Qed.

Lemma nodup_app_single {A} (l : list A) x : NoDup l -> ~ In x l -> NoDup (l ++ [x]).
Proof.
  induction l as [|a t IH]; cbn; intros Hn Hx.
  - constructor; [intros []|constructor].
  - inversion Hn; subst. constructor.
    + rewrite in_app_iff. intros [Hi|[He|[]]]; [contradiction|]. apply Hx. left. symmetry. exact He.
    + apply IH; [assumption|]. intros Hi. apply Hx. right. exact Hi.
Qed.

(** consequences of WF *)
Section Facts.
Variables (H : list (N * handle)) (F : list (N * fut)) (SQ RQ : list (N * N)).
Hypothesis W : WFc H F SQ RQ.

Lemma sq_member f : qhas f SQ = true ->
  exists r, aget f F = Some r /\ f_side r = Tx /\ f_reg r = true /\ f_st r = WAITING
            /\ f_cell r = Some (f_val r).
Proof.
  intros Hq. apply qhas_true in Hq. apply in_fst_exists in Hq. destruct Hq as [w Hi].
  exact (wf_sq _ _ _ _ W f w Hi).
Qed.

Lemma rq_member f : qhas f RQ = true ->
  exists r, aget f F = Some r /\ f_side r = Rx /\ f_reg r = true /\ f_st r = WAITING
            /\ f_cell r = None.
Proof.
  intros Hq. apply qhas_true in Hq. apply in_fst_exists in Hq. destruct Hq as [w Hi].
  exact (wf_rq _ _ _ _ W f w Hi).
Qed.

Lemma not_in_sq f r : aget f F = Some r -> (f_reg r = false \/ f_st r <> WAITING \/ f_side r = Rx) ->
  qhas f SQ = false.
Proof.
  intros Hg Hc. destruct (qhas f SQ) eqn:E; [|reflexivity].
  destruct (sq_member f E) as [r' [Hg' [Hs [Hr [Hst Hcell]]]]].
  rewrite Hg in Hg'. inversion Hg'; subst r'.
  destruct Hc as [Hc|[Hc|Hc]]; congruence.
Qed.

Lemma not_in_rq f r : aget f F = Some r -> (f_reg r = false \/ f_st r <> WAITING \/ f_side r = Tx) ->
  qhas f RQ = false.
Proof.
  intros Hg Hc. destruct (qhas f RQ) eqn:E; [|reflexivity].
  destruct (rq_member f E) as [r' [Hg' [Hs [Hr [Hst Hcell]]]]].
  rewrite Hg in Hg'. inversion Hg'; subst r'.
  destruct Hc as [Hc|[Hc|Hc]]; congruence.
Qed.
End Facts.

(** a generic way to rebuild fut_ok for an untouched future *)
Lemma fut_ok_mono H SQ SQ' f r :
  fut_ok H SQ f r ->
  (qhas f SQ = true -> qhas f SQ' = true) ->
  fut_ok H SQ' f r.
Proof.
  unfold fut_ok. intros [Hk Hh] Hq. split; [|exact Hh].
  destruct (f_side r); [|exact Hk].
  destruct Hk as [Hc Hr]. split; [exact Hc|]. intros A B. apply Hq. apply Hr; assumption.
Qed.

(** handles: only the handle table changes *)
Lemma WF_hs H H' F SQ RQ :
  WFc H F SQ RQ -> NoDup (map fst H') ->
  (forall f r, aget f F = Some r -> forall hd, aget (f_h r) H = Some hd ->
               exists hd', aget (f_h r) H' = Some hd' /\ h_side hd' = h_side hd) ->
  WFc H' F SQ RQ.
Proof.
  intros W Hn Hp. destruct W as [A B C D E G I J].
  constructor; try assumption.
  intros f r Hg. destruct (J f r Hg) as [Hk [hd [Hh Hs]]]. split; [exact Hk|].
  destruct (Hp f r Hg hd Hh) as [hd' [Hh' Hs']]. exists hd'. split; [exact Hh'|congruence].
Qed.

(** fulfill_receiver: hand v to the parked receiver at the head of the store *)
Lemma WF_handoff H F SQ g w rest v :
  WFc H F SQ ((g, w) :: rest) ->
  WFc H (aupd g (fut_done (Some v)) F) SQ rest.
Proof.
  intros W. pose proof W as [A B C D E G I J].
  assert (HSQ : SQ = []) by (destruct I as [I|I]; [exact I|discriminate]). subst SQ.
  cbn [map fst] in D. inversion D as [|x l Hnot Dn]; subst.
  destruct (G g w (or_introl eq_refl)) as [r0 [Hg0 [Hs0 [Hr0 [Hst0 Hc0]]]]].
  constructor.
  - rewrite keys_aupd. exact A.
  - exact B.
  - constructor.
  - exact Dn.
  - intros f w' [].
  - intros f w' Hi. assert (Hne : g <> f).
    { intros ->. apply Hnot. apply (in_map fst) in Hi. exact Hi. }
    destruct (G f w' (or_intror Hi)) as [r Hr]. exists r.
    rewrite aget_aupd_neq by exact Hne. exact Hr.
  - left. reflexivity.
  - intros f r Hg. rewrite aget_aupd in Hg. deq g f.
    + rewrite Hg0 in Hg. cbn in Hg. inversion Hg; subst r. clear Hg.
      unfold fut_ok. cbn [fut_done f_side f_cell f_st f_reg f_h]. rewrite Hs0.
      split; [split; [intros v' _; split; [reflexivity|exact Hr0] | intros _ _ X; discriminate]|].
      destruct (J f r0 Hg0) as [_ Hh]. rewrite Hs0 in Hh. exact Hh.
    + exact (J f r Hg).
Qed.

(** fulfill_sender: take the payload of the parked sender at the head of sender_waiters *)
Lemma WF_take H F g w rest RQ :
  WFc H F ((g, w) :: rest) RQ ->
  WFc H (aupd g (fut_done None) F) rest RQ.
Proof.
  intros W. pose proof W as [A B C D E G I J].
  assert (HRQ : RQ = []) by (destruct I as [I|I]; [discriminate|exact I]). subst RQ.
  cbn [map fst] in C. inversion C as [|x l Hnot Cn]; subst.
  destruct (E g w (or_introl eq_refl)) as [r0 [Hg0 [Hs0 [Hr0 [Hst0 Hc0]]]]].
  constructor.
  - rewrite keys_aupd. exact A.
  - exact B.
  - exact Cn.
  - constructor.
  - intros f w' Hi. assert (Hne : g <> f).
    { intros ->. apply Hnot. apply (in_map fst) in Hi. exact Hi. }
    destruct (E f w' (or_intror Hi)) as [r Hr]. exists r.
    rewrite aget_aupd_neq by exact Hne. exact Hr.
  - intros f w' [].
  - right. reflexivity.
  - intros f r Hg. rewrite aget_aupd in Hg. deq g f.
    + rewrite Hg0 in Hg. cbn in Hg. inversion Hg; subst r. clear Hg.
      unfold fut_ok. cbn [fut_done f_side f_cell f_st f_reg f_h]. rewrite Hs0.
      split; [split; [left; reflexivity | intros _ Hx; discriminate]|].
      destruct (J f r0 Hg0) as [_ Hh]. rewrite Hs0 in Hh. exact Hh.
    + eapply fut_ok_mono; [exact (J f r Hg)|].
      intros Hq. rewrite qhas_cons_neq in Hq by congruence. exact Hq.
Qed.

(** the last sender went away: every parked receiver is disconnected *)
Lemma WF_disc_receivers H F SQ RQ :
  WFc H F SQ RQ -> WFc H (disc_all RQ F) SQ [].
Proof.
  intros W. pose proof W as [A B C D E G I J].
  constructor.
  - rewrite keys_disc_all. exact A.
  - exact B.
  - exact C.
  - constructor.
  - intros f w Hi. destruct (E f w Hi) as [r [Hg Hr]]. exists r. split; [|exact Hr].
    rewrite aget_disc_all.
    assert (Hq : qhas f RQ = false).
    { eapply not_in_rq; [exact W | exact Hg |]. right. right. tauto. }
    rewrite Hq. exact Hg.
  - intros f w [].
  - right. reflexivity.
  - intros f r Hg. rewrite aget_disc_all in Hg. destruct (qhas f RQ) eqn:Hq.
    + destruct (rq_member _ _ _ _ W f Hq) as [r0 [Hg0 [Hs0 [Hr0 [Hst0 Hc0]]]]].
      rewrite Hg0 in Hg. cbn in Hg. inversion Hg; subst r. clear Hg.
      unfold fut_ok. cbn [fut_disc f_side f_cell f_st f_reg f_h]. rewrite Hs0.
      split; [split; [intros v Hv; congruence | intros _ X; discriminate]|].
      destruct (J f r0 Hg0) as [_ Hh]. rewrite Hs0 in Hh. exact Hh.
    + exact (J f r Hg).
Qed.

(** the last receiver went away: every parked sender is disconnected *)
Lemma WF_disc_senders H F SQ RQ :
  WFc H F SQ RQ -> WFc H (disc_all SQ F) [] RQ.
Proof.
  intros W. pose proof W as [A B C D E G I J].
  constructor.
  - rewrite keys_disc_all. exact A.
  - exact B.
  - constructor.
  - exact D.
  - intros f w [].
  - intros f w Hi. destruct (G f w Hi) as [r [Hg Hr]]. exists r. split; [|exact Hr].
    rewrite aget_disc_all.
    assert (Hq : qhas f SQ = false).
    { eapply not_in_sq; [exact W | exact Hg |]. right. right. tauto. }
    rewrite Hq. exact Hg.
  - left. reflexivity.
  - intros f r Hg. rewrite aget_disc_all in Hg. destruct (qhas f SQ) eqn:Hq.
    + destruct (sq_member _ _ _ _ W f Hq) as [r0 [Hg0 [Hs0 [Hr0 [Hst0 Hc0]]]]].
      rewrite Hg0 in Hg. cbn in Hg. inversion Hg; subst r. clear Hg.
      unfold fut_ok. cbn [fut_disc f_side f_cell f_st f_reg f_h]. rewrite Hs0.
      split; [split; [right; exact Hc0 | intros _ Hx; discriminate]|].
      destruct (J f r0 Hg0) as [_ Hh]. rewrite Hs0 in Hh. exact Hh.
    + destruct (J f r Hg) as [Hk Hh]. split; [|exact Hh].
      destruct (f_side r); [|exact Hk]. destruct Hk as [Hc Hr]. split; [exact Hc|].
      intros X Y. rewrite (Hr X Y) in Hq. discriminate.
Qed.

(** poll_send parks *)
Lemma WF_park_send H F SQ f w r0 :
  WFc H F SQ [] -> aget f F = Some r0 -> f_side r0 = Tx -> f_reg r0 = false ->
  f_cell r0 <> None ->
  WFc H (aupd f fut_park F) (SQ ++ [(f, w)]) [].
Proof.
  intros W Hg0 Hs0 Hr0 Hc0. pose proof W as [A B C D E G I J].
  assert (Hq : qhas f SQ = false) by (eapply not_in_sq; [exact W|exact Hg0|left; exact Hr0]).
  assert (Hcell : f_cell r0 = Some (f_val r0)).
  { destruct (J f r0 Hg0) as [Hk _]. rewrite Hs0 in Hk. destruct Hk as [[Hk|Hk] _]; congruence. }
  constructor.
  - rewrite keys_aupd. exact A.
  - exact B.
  - rewrite map_app. cbn [map fst]. apply nodup_app_single; [exact C|].
    apply qhas_false. exact Hq.
  - constructor.
  - intros f' w' Hi. apply in_app_iff in Hi. destruct Hi as [Hi|[Hi|[]]].
    + assert (Hne : f <> f').
      { intros ->. apply qhas_In in Hi. congruence. }
      destruct (E f' w' Hi) as [r Hr]. exists r. rewrite aget_aupd_neq by exact Hne. exact Hr.
    + inversion Hi; subst f' w'. exists (fut_park r0). rewrite aget_aupd_eq, Hg0.
      cbn [option_map fut_park f_side f_reg f_st f_cell f_val]. repeat split; assumption.
  - intros f' w' [].
  - right. reflexivity.
  - intros f' r Hg. rewrite aget_aupd in Hg. deq f f'.
    + rewrite Hg0 in Hg. cbn in Hg. inversion Hg; subst r. clear Hg.
      unfold fut_ok. cbn [fut_park f_side f_cell f_st f_reg f_h f_val]. rewrite Hs0.
      split.
      * split; [right; exact Hcell|]. intros _ _. rewrite qhas_app.
        unfold qhas at 2, ahas. cbn [aget]. rewrite N.eqb_refl. apply orb_true_r.
      * destruct (J f' r0 Hg0) as [_ Hh]. rewrite Hs0 in Hh. exact Hh.
    + eapply fut_ok_mono; [exact (J f' r Hg)|]. intros X. rewrite qhas_app, X. reflexivity.
Qed.

(** poll_recv parks (deque: push_back; single slot: overwrite) *)
Lemma WF_park_recv c H F RQ f w r0 :
  WFc H F [] RQ -> aget f F = Some r0 -> f_side r0 = Rx -> f_reg r0 = false ->
  WFc H (aupd f fut_park F) [] (push_receiver c f w RQ).
Proof.
  intros W Hg0 Hs0 Hr0. pose proof W as [A B C D E G I J].
  assert (Hq : qhas f RQ = false) by (eapply not_in_rq; [exact W|exact Hg0|left; exact Hr0]).
  assert (Hcell : f_cell r0 = None).
  { destruct (J f r0 Hg0) as [Hk _]. rewrite Hs0 in Hk. destruct Hk as [Hk _].
    destruct (f_cell r0) as [v|]; [|reflexivity].
    destruct (Hk v eq_refl). congruence. }
  assert (Hnew : exists r, aget f (aupd f fut_park F) = Some r /\ f_side r = Rx /\ f_reg r = true
                           /\ f_st r = WAITING /\ f_cell r = None).
  { exists (fut_park r0). rewrite aget_aupd_eq, Hg0.
    cbn [option_map fut_park f_side f_reg f_st f_cell]. repeat split; assumption. }
  constructor.
  - rewrite keys_aupd. exact A.
  - exact B.
  - constructor.
  - unfold push_receiver. destruct (multi_rx c).
    + rewrite map_app. cbn [map fst]. apply nodup_app_single; [exact D|]. apply qhas_false. exact Hq.
    + cbn. constructor; [intros []|constructor].
  - intros f' w' [].
  - intros f' w' Hi. unfold push_receiver in Hi. destruct (multi_rx c).
    + apply in_app_iff in Hi. destruct Hi as [Hi|[Hi|[]]].
      * assert (Hne : f <> f').
        { intros ->. apply qhas_In in Hi. congruence. }
        destruct (G f' w' Hi) as [r Hr]. exists r. rewrite aget_aupd_neq by exact Hne. exact Hr.
      * inversion Hi; subst f' w'. exact Hnew.
    + destruct Hi as [Hi|[]]. inversion Hi; subst f' w'. exact Hnew.
  - left. reflexivity.
  - intros f' r Hg. rewrite aget_aupd in Hg. deq f f'.
    + rewrite Hg0 in Hg. cbn in Hg. inversion Hg; subst r. clear Hg.
      unfold fut_ok. cbn [fut_park f_side f_cell f_st f_reg f_h f_val]. rewrite Hs0.
      split; [split; [intros v Hv; congruence | intros _ X; discriminate]|].
      destruct (J f' r0 Hg0) as [_ Hh]. rewrite Hs0 in Hh. exact Hh.
    + exact (J f' r Hg).
Qed.

(** a transformer that only touches the ghost woken flag *)
Lemma WF_repoll_fs H F SQ RQ f :
  WFc H F SQ RQ -> WFc H (aupd f fut_repoll F) SQ RQ.
Proof.
  intros W. pose proof W as [A B C D E G I J].
  assert (X : forall f' r, aget f' F = Some r ->
              exists r', aget f' (aupd f fut_repoll F) = Some r' /\ f_side r' = f_side r /\
                         f_reg r' = f_reg r /\ f_st r' = f_st r /\ f_cell r' = f_cell r /\
                         f_val r' = f_val r /\ f_h r' = f_h r).
  { intros f' r Hg. rewrite aget_aupd. deq f f'.
    - rewrite Hg. exists (fut_repoll r). cbn. repeat split; reflexivity.
    - exists r. repeat split; assumption. }
  constructor; try assumption.
  - rewrite keys_aupd. exact A.
  - intros f' w' Hi. destruct (E f' w' Hi) as [r [Hg [a1 [a2 [a3 a4]]]]].
    destruct (X f' r Hg) as [r' [Hg' [b1 [b2 [b3 [b4 [b5 b6]]]]]]]. exists r'.
    repeat split; congruence.
  - intros f' w' Hi. destruct (G f' w' Hi) as [r [Hg [a1 [a2 [a3 a4]]]]].
    destruct (X f' r Hg) as [r' [Hg' [b1 [b2 [b3 [b4 [b5 b6]]]]]]]. exists r'.
    repeat split; congruence.
  - intros f' r Hg. rewrite aget_aupd in Hg. deq f f'; [|exact (J f' r Hg)].
    destruct (aget f' F) as [r0|] eqn:Hg0; [|discriminate]. cbn in Hg. inversion Hg; subst r.
    exact (J f' r0 Hg0).
Qed.

Lemma WF_refresh_sq H F SQ RQ f w :
  WFc H F SQ RQ -> WFc H F (qrefresh f w SQ) RQ.
Proof.
  intros W. pose proof W as [A B C D E G I J].
  constructor; try assumption.
  - unfold qrefresh. rewrite keys_aupd. exact C.
  - intros f' w' Hi. unfold qrefresh in Hi. apply In_aupd_fst in Hi. destruct Hi as [w0 Hi].
    exact (E f' w0 Hi).
  - destruct I as [I|I]; [left; subst; reflexivity | right; exact I].
  - intros f' r Hg. eapply fut_ok_mono; [exact (J f' r Hg)|]. intros X.
    rewrite qhas_qrefresh. exact X.
Qed.

Lemma WF_refresh_rq H F SQ RQ f w :
  WFc H F SQ RQ -> WFc H F SQ (qrefresh f w RQ).
Proof.
  intros W. pose proof W as [A B C D E G I J].
  constructor; try assumption.
  - unfold qrefresh. rewrite keys_aupd. exact D.
  - intros f' w' Hi. unfold qrefresh in Hi. apply In_aupd_fst in Hi. destruct Hi as [w0 Hi].
    exact (G f' w0 Hi).
  - destruct I as [I|I]; [left; exact I | right; subst; reflexivity].
Qed.

(** poll completes on the registered path *)
Lemma WF_unreg H F SQ RQ f r0 c :
  WFc H F SQ RQ -> aget f F = Some r0 ->
  qhas f SQ = false -> qhas f RQ = false ->
  (f_side r0 = Tx -> c = f_cell r0) ->
  (f_side r0 = Rx -> c = None \/ (c = f_cell r0 /\ f_st r0 <> DONE)) ->
  WFc H (aupd f (fut_unreg c) F) SQ RQ.
Proof.
  intros W Hg0 Hq1 Hq2 Hc1 Hc2. pose proof W as [A B C D E G I J].
  constructor; try assumption.
  - rewrite keys_aupd. exact A.
  - intros f' w' Hi. assert (Hne : f <> f') by (intros ->; apply qhas_In in Hi; congruence).
    destruct (E f' w' Hi) as [r Hr]. exists r. rewrite aget_aupd_neq by exact Hne. exact Hr.
  - intros f' w' Hi. assert (Hne : f <> f') by (intros ->; apply qhas_In in Hi; congruence).
    destruct (G f' w' Hi) as [r Hr]. exists r. rewrite aget_aupd_neq by exact Hne. exact Hr.
  - intros f' r Hg. rewrite aget_aupd in Hg. deq f f'; [|exact (J f' r Hg)].
    rewrite Hg0 in Hg. cbn in Hg. inversion Hg; subst r. clear Hg.
    destruct (J f' r0 Hg0) as [Hk Hh].
    unfold fut_ok. cbn [fut_unreg f_side f_cell f_st f_reg f_h f_val]. split; [|exact Hh].
    destruct (f_side r0) eqn:Hs0.
    + rewrite (Hc1 eq_refl). destruct Hk as [Hk _]. split; [exact Hk|]. intros X; discriminate.
    + destruct Hk as [Hk Hk2]. destruct (Hc2 eq_refl) as [->|[-> Hnd]].
      * split; [intros v Hv; discriminate | intros X; discriminate].
      * split; [intros v Hv; destruct (Hk v Hv) as [X _]; congruence | intros X; discriminate].
Qed.

(** fresh poll_send hands off: slot.take() *)
Lemma WF_sent H F SQ RQ f r0 :
  WFc H F SQ RQ -> aget f F = Some r0 -> f_side r0 = Tx -> f_reg r0 = false ->
  WFc H (aupd f fut_sent F) SQ RQ.
Proof.
  intros W Hg0 Hs0 Hr0. pose proof W as [A B C D E G I J].
  assert (Hq1 : qhas f SQ = false) by (eapply not_in_sq; [exact W|exact Hg0|left; exact Hr0]).
  assert (Hq2 : qhas f RQ = false) by (eapply not_in_rq; [exact W|exact Hg0|left; exact Hr0]).
  constructor; try assumption.
  - rewrite keys_aupd. exact A.
  - intros f' w' Hi. assert (Hne : f <> f') by (intros ->; apply qhas_In in Hi; congruence).
    destruct (E f' w' Hi) as [r Hr]. exists r. rewrite aget_aupd_neq by exact Hne. exact Hr.
  - intros f' w' Hi. assert (Hne : f <> f') by (intros ->; apply qhas_In in Hi; congruence).
    destruct (G f' w' Hi) as [r Hr]. exists r. rewrite aget_aupd_neq by exact Hne. exact Hr.
  - intros f' r Hg. rewrite aget_aupd in Hg. deq f f'; [|exact (J f' r Hg)].
    rewrite Hg0 in Hg. cbn in Hg. inversion Hg; subst r. clear Hg.
    destruct (J f' r0 Hg0) as [Hk Hh].
    unfold fut_ok. cbn [fut_sent f_side f_cell f_st f_reg f_h f_val]. split; [|exact Hh].
    rewrite Hs0. split; [left; reflexivity|]. intros X; congruence.
Qed.

(** Drop of a future *)
Lemma WF_drop_unqueued H F SQ RQ f :
  WFc H F SQ RQ -> qhas f SQ = false -> qhas f RQ = false ->
  WFc H (adel f F) SQ RQ.
Proof.
  intros W Hq1 Hq2. pose proof W as [A B C D E G I J].
  constructor; try assumption.
  - apply keys_adel_nodup. exact A.
  - intros f' w' Hi. assert (Hne : f <> f') by (intros ->; apply qhas_In in Hi; congruence).
    destruct (E f' w' Hi) as [r Hr]. exists r. rewrite aget_adel_neq by exact Hne. exact Hr.
  - intros f' w' Hi. assert (Hne : f <> f') by (intros ->; apply qhas_In in Hi; congruence).
    destruct (G f' w' Hi) as [r Hr]. exists r. rewrite aget_adel_neq by exact Hne. exact Hr.
  - intros f' r Hg. deq f f'.
    + rewrite aget_adel_eq in Hg by exact A. discriminate.
    + rewrite aget_adel_neq in Hg by assumption. exact (J f' r Hg).
Qed.

Lemma WF_cancelled_fs H F SQ RQ f :
  WFc H (adel f F) SQ RQ -> NoDup (map fst F) -> WFc H (adel f (aupd f fut_cancelled F)) SQ RQ.
Proof.
  intros W A0.
  assert (X : forall f', aget f' (adel f (aupd f fut_cancelled F)) = aget f' (adel f F)).
  { intros f'. deq f f'.
    - rewrite !aget_adel_eq; [reflexivity | exact A0 | rewrite keys_aupd; exact A0].
    - rewrite !aget_adel_neq by assumption. apply aget_aupd_neq. assumption. }
  destruct W as [A B C D E G I J]; constructor; try assumption.
  - apply keys_adel_nodup. rewrite keys_aupd. exact A0.
  - intros f' w' Hi. destruct (E f' w' Hi) as [r Hr]. exists r. rewrite X. exact Hr.
  - intros f' w' Hi. destruct (G f' w' Hi) as [r Hr]. exists r. rewrite X. exact Hr.
  - intros f' r Hg. rewrite X in Hg. exact (J f' r Hg).
Qed.

Lemma WF_qdel_sq H F SQ RQ f :
  WFc H F SQ RQ -> qhas f RQ = false -> WFc H (adel f F) (qdel f SQ) RQ.
Proof.
  intros W Hq2. pose proof W as [A B C D E G I J].
  assert (Hnot : ~ In f (map fst (qdel f SQ))) by (apply keys_adel_notin; exact C).
  constructor; try assumption.
  - apply keys_adel_nodup. exact A.
  - apply keys_adel_nodup. exact C.
  - intros f' w' Hi. assert (Hne : f <> f').
    { intros ->. apply Hnot. apply (in_map fst) in Hi. exact Hi. }
    apply In_adel_inv in Hi. destruct (E f' w' Hi) as [r Hr]. exists r.
    rewrite aget_adel_neq by exact Hne. exact Hr.
  - intros f' w' Hi. assert (Hne : f <> f') by (intros ->; apply qhas_In in Hi; congruence).
    destruct (G f' w' Hi) as [r Hr]. exists r. rewrite aget_adel_neq by exact Hne. exact Hr.
  - destruct I as [I|I]; [left; subst; reflexivity | right; exact I].
  - intros f' r Hg. deq f f'.
    + rewrite aget_adel_eq in Hg by exact A. discriminate.
    + rewrite aget_adel_neq in Hg by assumption.
      eapply fut_ok_mono; [exact (J f' r Hg)|]. intros X. rewrite qhas_qdel_neq by congruence. exact X.
Qed.

Lemma WF_qdel_rq H F SQ RQ f :
  WFc H F SQ RQ -> qhas f SQ = false -> WFc H (adel f F) SQ (qdel f RQ).
Proof.
  intros W Hq1. pose proof W as [A B C D E G I J].
  assert (Hnot : ~ In f (map fst (qdel f RQ))) by (apply keys_adel_notin; exact D).
  constructor; try assumption.
  - apply keys_adel_nodup. exact A.
  - apply keys_adel_nodup. exact D.
  - intros f' w' Hi. assert (Hne : f <> f') by (intros ->; apply qhas_In in Hi; congruence).
    destruct (E f' w' Hi) as [r Hr]. exists r. rewrite aget_adel_neq by exact Hne. exact Hr.
  - intros f' w' Hi. assert (Hne : f <> f').
    { intros ->. apply Hnot. apply (in_map fst) in Hi. exact Hi. }
    apply In_adel_inv in Hi. destruct (G f' w' Hi) as [r Hr]. exists r.
    rewrite aget_adel_neq by exact Hne. exact Hr.
  - destruct I as [I|I]; [left; exact I | right; subst; reflexivity].
  - intros f' r Hg. deq f f'.
    + rewrite aget_adel_eq in Hg by exact A. discriminate.
    + rewrite aget_adel_neq in Hg by assumption. exact (J f' r Hg).
Qed.

(** the core functions preserve WF *)
Ltac wfsimp := unfold WF in *; cbn [hs fs sq rq scnt rcnt set_hs set_fs set_sq set_rq set_scnt set_rcnt
                                    handoff_to_receiver] in *.

Lemma core_send_WF b s v s' r e :
  WF s -> core_send b s v = (s', r, e) -> WF s'.
Proof.
  intros W Hs. unfold core_send in Hs.
  destruct (N.eqb (rcnt s) 0).
  - destruct b; inversion Hs; subst; exact W.
  - destruct (rq s) as [|[g w] rest] eqn:Hrq.
    + destruct b; inversion Hs; subst; exact W.
    + inversion Hs; subst. wfsimp. rewrite Hrq in W. apply WF_handoff with (w := w). exact W.
Qed.

Lemma take_WF s s' v w :
  WF s -> take_from_sender s = Some (s', v, w) -> WF s'.
Proof.
  intros W Ht. unfold take_from_sender in Ht.
  destruct (sq s) as [|[g w0] rest] eqn:Hsq; [discriminate|].
  destruct (aget g (fs s)) as [r0|]; [|discriminate].
  destruct (f_cell r0); [|discriminate].
  inversion Ht; subst. wfsimp. rewrite Hsq in W. apply WF_take with (w := w). exact W.
Qed.

Lemma core_recv_WF c k s s' r e :
  WF s -> core_recv c k s = (s', r, e) -> WF s'.
Proof.
  intros W Hs. unfold core_recv in Hs.
  destruct (sq s) as [|p rest] eqn:Hsq.
  - destruct (N.eqb (scnt s) 0); [inversion Hs; subst; exact W|].
    destruct k; inversion Hs; subst; try exact W.
    wfsimp. destruct (multi_rx c); [exact W|].
    destruct W as [A B C D E G I J]. constructor; try assumption.
    + constructor.
    + intros f w [].
    + right. reflexivity.
  - destruct (take_from_sender s) as [[[s1 v] w]|] eqn:Ht.
    + inversion Hs; subst. eapply take_WF; eauto.
    + inversion Hs; subst. exact W.
Qed.

Lemma core_drop_sender_WF s s' r e :
  WF s -> core_drop_sender s = (s', r, e) -> WF s'.
Proof.
  intros W Hs. unfold core_drop_sender in Hs.
  destruct (N.eqb (scnt s) 0); [inversion Hs; subst; exact W|].
  destruct (N.eqb (N.pred (scnt s)) 0); inversion Hs; subst; wfsimp.
  - apply WF_disc_receivers. exact W.
  - exact W.
Qed.

Lemma core_drop_receiver_WF s s' r e :
  WF s -> core_drop_receiver s = (s', r, e) -> WF s'.
Proof.
  intros W Hs. unfold core_drop_receiver in Hs.
  destruct (N.eqb (rcnt s) 0); [inversion Hs; subst; exact W|].
  destruct (N.eqb (N.pred (rcnt s)) 0); inversion Hs; subst; wfsimp.
  - apply WF_disc_senders. exact W.
  - exact W.
Qed.

Lemma WF_hs_aupd s h g :
  WF s -> (forall x, h_side (g x) = h_side x) -> WF (set_hs s (aupd h g (hs s))).
Proof.
  intros W Hg. wfsimp. eapply WF_hs; [exact W| |].
  - rewrite keys_aupd. exact (wf_hs _ _ _ _ W).
  - intros f r _ hd Hh. rewrite aget_aupd. deq h (f_h r).
    + rewrite Hh. exists (g hd). split; [reflexivity|apply Hg].
    + exists hd. split; [exact Hh|reflexivity].
Qed.

Lemma do_close_WF s h hd s' r e :
  WF s -> do_close s h hd = (s', r, e) -> WF s'.
Proof.
  intros W Hs. unfold do_close in Hs.
  destruct (h_closed hd); [inversion Hs; subst; exact W|].
  assert (W1 : WF (set_hs s (aupd h h_close (hs s)))) by (apply WF_hs_aupd; [exact W|reflexivity]).
  destruct (h_side hd).
  - eapply core_drop_sender_WF; eauto.
  - eapply core_drop_receiver_WF; eauto.
Qed.

Lemma do_close_fs_hs s h hd s' r e :
  do_close s h hd = (s', r, e) ->
  map fst (fs s') = map fst (fs s) /\ map fst (hs s') = map fst (hs s)
  /\ (forall f r0, aget f (fs s') = Some r0 -> exists r1, aget f (fs s) = Some r1 /\ f_h r1 = f_h r0).
Proof.
  intros Hs. unfold do_close in Hs.
  assert (X : forall q f r0 F, aget f (disc_all q F) = Some r0 ->
              exists r1, aget f F = Some r1 /\ f_h r1 = f_h r0).
  { intros q f r0 F Hg. rewrite aget_disc_all in Hg. destruct (qhas f q).
    - destruct (aget f F) as [r1|]; [|discriminate]. cbn in Hg. inversion Hg; subst.
      exists r1. split; reflexivity.
    - exists r0. split; [exact Hg|reflexivity]. }
  destruct (h_closed hd).
  { inversion Hs; subst. repeat split; try reflexivity. intros f r0 Hg. exists r0. split; [exact Hg|reflexivity]. }
  destruct (h_side hd).
  - unfold core_drop_sender in Hs. cbn [scnt set_hs rq fs hs sq rcnt] in Hs.
    destruct (N.eqb (scnt s) 0); [|destruct (N.eqb (N.pred (scnt s)) 0)]; inversion Hs; subst;
      cbn [fs hs set_hs set_scnt]; rewrite ?keys_disc_all, ?keys_aupd; repeat split; try reflexivity;
      try (intros f r0 Hg; exists r0; split; [exact Hg|reflexivity]).
    intros f r0 Hg. eapply X. exact Hg.
  - unfold core_drop_receiver in Hs. cbn [rcnt set_hs rq fs hs sq scnt] in Hs.
    destruct (N.eqb (rcnt s) 0); [|destruct (N.eqb (N.pred (rcnt s)) 0)]; inversion Hs; subst;
      cbn [fs hs set_hs set_rcnt]; rewrite ?keys_disc_all, ?keys_aupd; repeat split; try reflexivity;
      try (intros f r0 Hg; exists r0; split; [exact Hg|reflexivity]).
    intros f r0 Hg. eapply X. exact Hg.
Qed.

Lemma poll_send_WF c s f w r0 s' r e :
  WF s -> aget f (fs s) = Some r0 -> f_side r0 = Tx ->
  poll_send c s f w r0 = (s', r, e) -> WF s'.
Proof.
  intros W Hg0 Hs0 Hs. unfold poll_send in Hs.
  destruct (f_reg r0) eqn:Hr0.
  - assert (Hq2 : qhas f (rq s) = false) by (eapply not_in_rq; [exact W|exact Hg0|right; right; exact Hs0]).
    assert (Hu : qhas f (sq s) = false -> WF (set_fs s (aupd f (fut_unreg (f_cell r0)) (fs s)))).
    { intros Hq1. wfsimp.
      eapply WF_unreg; [exact W|exact Hg0|exact Hq1|exact Hq2|reflexivity|intros X; congruence]. }
    destruct (f_st r0) eqn:Hst0.
    + destruct (qhas f (sq s)) eqn:Hq; inversion Hs; subst.
      * wfsimp. apply WF_refresh_sq. apply WF_repoll_fs. exact W.
      * apply Hu. reflexivity.
    + inversion Hs; subst. apply Hu.
      eapply not_in_sq; [exact W|exact Hg0|right; left; congruence].
    + inversion Hs; subst. apply Hu.
      eapply not_in_sq; [exact W|exact Hg0|right; left; congruence].
    + inversion Hs; subst. apply Hu.
      eapply not_in_sq; [exact W|exact Hg0|right; left; congruence].
  - destruct (f_cell r0) as [v|] eqn:Hc0; [|inversion Hs; subst; exact W].
    destruct (fix_fut c && handle_closed s (f_h r0)); [inversion Hs; subst; exact W|].
    destruct (N.eqb (rcnt s) 0); [inversion Hs; subst; exact W|].
    destruct (rq s) as [|[g w'] rest] eqn:Hrq; inversion Hs; subst; wfsimp.
    + rewrite Hrq in W. eapply WF_park_send; [exact W|exact Hg0|exact Hs0|exact Hr0|congruence].
    + apply WF_handoff with (w := w'). rewrite Hrq in W.
      eapply WF_sent; [exact W|exact Hg0|exact Hs0|exact Hr0].
Qed.

Lemma poll_recv_WF c s f w r0 s' r e :
  WF s -> aget f (fs s) = Some r0 -> f_side r0 = Rx ->
  poll_recv c s f w r0 = (s', r, e) -> WF s'.
Proof.
  intros W Hg0 Hs0 Hs. unfold poll_recv in Hs.
  destruct (f_reg r0) eqn:Hr0.
  - assert (Hq1 : qhas f (sq s) = false) by (eapply not_in_sq; [exact W|exact Hg0|right; right; exact Hs0]).
    assert (Hu : qhas f (rq s) = false -> f_st r0 <> DONE ->
                 WF (set_fs s (aupd f (fut_unreg (f_cell r0)) (fs s)))).
    { intros Hq2 Hnd. wfsimp.
      eapply WF_unreg; [exact W|exact Hg0|exact Hq1|exact Hq2|intros X; congruence|].
      intros _. right. split; [reflexivity|exact Hnd]. }
    destruct (f_st r0) eqn:Hst0.
    + destruct (qhas f (rq s)) eqn:Hq; inversion Hs; subst.
      * wfsimp. apply WF_refresh_rq. apply WF_repoll_fs. exact W.
      * apply Hu; [reflexivity|congruence].
    + destruct (f_cell r0) as [v|]; inversion Hs; subst; [|exact W]. wfsimp.
      eapply WF_unreg; [exact W|exact Hg0|exact Hq1| |intros X; congruence|intros _; left; reflexivity].
      eapply not_in_rq; [exact W|exact Hg0|right; left; congruence].
    + inversion Hs; subst. apply Hu; [|congruence].
      eapply not_in_rq; [exact W|exact Hg0|right; left; congruence].
    + inversion Hs; subst. apply Hu; [|congruence].
      eapply not_in_rq; [exact W|exact Hg0|right; left; congruence].
  - destruct (fix_fut c && handle_closed s (f_h r0)); [inversion Hs; subst; exact W|].
    destruct (sq s) as [|p rest] eqn:Hsq.
    + destruct (N.eqb (scnt s) 0); inversion Hs; subst; [exact W|]. wfsimp.
      rewrite Hsq in W. eapply WF_park_recv; [exact W|exact Hg0|exact Hs0|exact Hr0].
    + destruct (take_from_sender s) as [[[s1 v] w1]|] eqn:Ht; inversion Hs; subst.
      * eapply take_WF; eauto.
      * exact W.
Qed.

Lemma drop_fut_WF s f r0 s' r e :
  WF s -> aget f (fs s) = Some r0 -> drop_fut s f r0 = (s', r, e) -> WF s'.
Proof.
  intros W Hg0 Hs. unfold drop_fut in Hs. inversion Hs; subst; clear Hs.
  destruct (f_reg r0 && cancel_cas r0) eqn:Hc.
  - unfold cancel_remove. destruct (f_side r0) eqn:Hs0; wfsimp.
    + apply WF_cancelled_fs; [|exact (wf_fs _ _ _ _ W)].
      apply WF_qdel_sq; [exact W|].
      eapply not_in_rq; [exact W|exact Hg0|right; right; exact Hs0].
    + apply WF_cancelled_fs; [|exact (wf_fs _ _ _ _ W)].
      apply WF_qdel_rq; [exact W|].
      eapply not_in_sq; [exact W|exact Hg0|right; right; exact Hs0].
  - wfsimp. apply WF_drop_unqueued; [exact W| |].
    + eapply not_in_sq; [exact W|exact Hg0|].
      apply andb_false_iff in Hc. destruct Hc as [Hc|Hc]; [left; exact Hc|].
      right. left. unfold cancel_cas in Hc. destruct (f_st r0); [discriminate|congruence..].
    + eapply not_in_rq; [exact W|exact Hg0|].
      apply andb_false_iff in Hc. destruct Hc as [Hc|Hc]; [left; exact Hc|].
      right. left. unfold cancel_cas in Hc. destruct (f_st r0); [discriminate|congruence..].
Qed.

Lemma borrowed_false s h f r :
  borrowed s h = false -> aget f (fs s) = Some r -> f_h r <> h.
Proof.
  unfold borrowed. intros Hb Hg He. apply aget_Some_In in Hg.
  assert (X : existsb (fun p => N.eqb (f_h (snd p)) h) (fs s) = true).
  { apply existsb_exists. exists (f, r). split; [exact Hg|]. cbn. apply N.eqb_eq. exact He. }
  congruence.
Qed.

Lemma h_live_side_Some s h sd hd :
  h_live_side s h sd = Some hd -> aget h (hs s) = Some hd /\ h_side hd = sd.
Proof.
  unfold h_live_side. destruct (aget h (hs s)) as [x|]; [|discriminate].
  destruct (h_side x) eqn:E; destruct sd; intros X; inversion X; subst; split; congruence.
Qed.

Lemma WF_mk s f r0 :
  WF s -> ahas f (fs s) = false ->
  (exists hd, aget (f_h r0) (hs s) = Some hd /\ h_side hd = f_side r0) ->
  f_reg r0 = false ->
  match f_side r0 with Tx => f_cell r0 = Some (f_val r0) | Rx => f_cell r0 = None end ->
  WF (set_fs s (fs s ++ [(f, r0)])).
Proof.
  intros W Hf Hh Hr Hc. wfsimp. pose proof W as [A B C D E G I J].
  assert (Hn : aget f (fs s) = None) by (unfold ahas in Hf; destruct (aget f (fs s)); [discriminate|reflexivity]).
  assert (X : forall f' r, aget f' (fs s) = Some r -> aget f' (fs s ++ [(f, r0)]) = Some r).
  { intros f' r Hg. rewrite aget_app, Hg. reflexivity. }
  constructor; try assumption.
  - rewrite map_app. cbn [map fst]. apply nodup_app_single; [exact A|]. apply aget_None_key. exact Hn.
  - intros f' w' Hi. destruct (E f' w' Hi) as [r [Hg Hr']]. exists r. split; [apply X; exact Hg|exact Hr'].
  - intros f' w' Hi. destruct (G f' w' Hi) as [r [Hg Hr']]. exists r. split; [apply X; exact Hg|exact Hr'].
  - intros f' r Hg. rewrite aget_app in Hg. destruct (aget f' (fs s)) as [r1|] eqn:Hg1.
    + inversion Hg; subst. exact (J f' r Hg1).
    + cbn [aget] in Hg. deq f' f; [|discriminate]. inversion Hg; subst r.
      unfold fut_ok. split; [|exact Hh]. destruct (f_side r0).
      * split; [right; exact Hc|]. intros Y; congruence.
      * split; [intros v Hv; congruence | intros Y; congruence].
Qed.

(** every step preserves WF *)
Theorem step_WF c s o s' r e : WF s -> step c s o = (s', r, e) -> WF s'.
Proof.
  intros W Hs. destruct o; cbn [step] in Hs.
  - (* TrySend *)
    destruct (h_live_side s h Tx) as [hd|]; [|inversion Hs; subst; exact W].
    destruct (h_closed hd); [inversion Hs; subst; exact W|].
    destruct (core_send false s v) as [[s1 r1] e1] eqn:Hc. inversion Hs; subst.
    eapply core_send_WF; eauto.
  - (* Send *)
    destruct (h_live_side s h Tx) as [hd|]; [|inversion Hs; subst; exact W].
    destruct (h_async hd); [inversion Hs; subst; exact W|].
    destruct (h_closed hd); [inversion Hs; subst; exact W|].
    destruct (core_send true s v) as [[s1 r1] e1] eqn:Hc. inversion Hs; subst.
    eapply core_send_WF; eauto.
  - (* TryRecv *)
    destruct (h_live_side s h Rx) as [hd|]; [|inversion Hs; subst; exact W].
    destruct (h_closed hd); [inversion Hs; subst; exact W|].
    eapply core_recv_WF; eauto.
  - (* Recv *)
    destruct (h_live_side s h Rx) as [hd|]; [|inversion Hs; subst; exact W].
    destruct (h_async hd); [inversion Hs; subst; exact W|].
    destruct (h_closed hd); [inversion Hs; subst; exact W|].
    eapply core_recv_WF; eauto.
  - (* RecvTimeout0 *)
    destruct (h_live_side s h Rx) as [hd|]; [|inversion Hs; subst; exact W].
    destruct (h_async hd); [inversion Hs; subst; exact W|].
    destruct (h_closed hd); [inversion Hs; subst; exact W|].
    eapply core_recv_WF; eauto.
  - (* Close *)
    destruct (aget h (hs s)) as [hd|]; [|inversion Hs; subst; exact W].
    eapply do_close_WF; eauto.
  - (* DropH *)
    destruct (aget h (hs s)) as [hd|] eqn:Hh; [|inversion Hs; subst; exact W].
    destruct (borrowed s h) eqn:Hb; [inversion Hs; subst; exact W|].
    destruct (do_close s h hd) as [[s1 r1] e1] eqn:Hc. inversion Hs; subst. clear Hs.
    pose proof (do_close_WF _ _ _ _ _ _ W Hc) as W1.
    destruct (do_close_fs_hs _ _ _ _ _ _ Hc) as [_ [_ Hf]].
    wfsimp. eapply WF_hs; [exact W1| |].
    + apply keys_adel_nodup. exact (wf_hs _ _ _ _ W1).
    + intros f r0 Hg hd0 Hh0. exists hd0. split; [|reflexivity].
      rewrite aget_adel_neq; [exact Hh0|].
      destruct (Hf f r0 Hg) as [r1' [Hg1 He]]. rewrite <- He.
      intros Hx. eapply borrowed_false; eauto.
  - (* Clone *)
    destruct (aget h (hs s)) as [hd|] eqn:Hh; [|inversion Hs; subst; exact W].
    destruct (ahas h' (hs s)) eqn:Hh'; [inversion Hs; subst; exact W|].
    assert (X : forall nh, WF (set_hs s (hs s ++ [(h', nh)]))).
    { intros nh. wfsimp. eapply WF_hs; [exact W| |].
      - rewrite map_app. cbn [map fst]. apply nodup_app_single; [exact (wf_hs _ _ _ _ W)|].
        apply ahas_false. exact Hh'.
      - intros f r0 _ hd0 Hh0. exists hd0. split; [|reflexivity]. rewrite aget_app, Hh0. reflexivity. }
    destruct (negb (match h_side hd with Tx => tx_clone c | Rx => rx_clone c end));
      [inversion Hs; subst; exact W|].
    destruct (fix_clone c && h_closed hd); inversion Hs; subst; [apply X|].
    destruct (h_side hd); wfsimp; apply X.
  - (* Conv *)
    destruct (aget h (hs s)) as [hd|] eqn:Hh; [|inversion Hs; subst; exact W].
    destruct (borrowed s h); inversion Hs; subst; [exact W|].
    apply WF_hs_aupd; [exact W|reflexivity].
  - (* Obs *)
    destruct (aget h (hs s)); inversion Hs; subst; exact W.
  - (* MkSend *)
    destruct (h_live_side s h Tx) as [hd|] eqn:Hl; [|inversion Hs; subst; exact W].
    apply h_live_side_Some in Hl. destruct Hl as [Hh Hsd].
    destruct (negb (h_async hd) || ahas f (fs s)) eqn:Hc; inversion Hs; subst; [exact W|].
    apply orb_false_iff in Hc. destruct Hc as [_ Hf].
    apply WF_mk; cbn; try reflexivity; [exact W|exact Hf|]. exists hd. split; assumption.
  - (* MkRecv *)
    destruct (h_live_side s h Rx) as [hd|] eqn:Hl; [|inversion Hs; subst; exact W].
    apply h_live_side_Some in Hl. destruct Hl as [Hh Hsd].
    destruct (negb (h_async hd) || ahas f (fs s)) eqn:Hc; inversion Hs; subst; [exact W|].
    apply orb_false_iff in Hc. destruct Hc as [_ Hf].
    apply WF_mk; cbn; try reflexivity; [exact W|exact Hf|]. exists hd. split; assumption.
  - (* Poll *)
    destruct (aget f (fs s)) as [r0|] eqn:Hg; [|inversion Hs; subst; exact W].
    destruct (f_side r0) eqn:Hsd.
    + eapply poll_send_WF; eauto.
    + eapply poll_recv_WF; eauto.
  - (* DropF *)
    destruct (aget f (fs s)) as [r0|] eqn:Hg; [|inversion Hs; subst; exact W].
    eapply drop_fut_WF; eauto.
Qed.

Theorem run_WF c ops : forall s s' tr, WF s -> run c s ops = (s', tr) -> WF s'.
Proof.
  induction ops as [|o t IH]; intros s s' tr W Hr; cbn [run] in Hr.
  - inversion Hr; subst. exact W.
  - destruct (step c s o) as [[s1 r1] e1] eqn:Hs.
    destruct (run c s1 t) as [s2 tr2] eqn:Hr2. inversion Hr; subst.
    eapply IH; [|exact Hr2]. eapply step_WF; eauto.
Qed.
