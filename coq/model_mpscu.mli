
val negb : bool -> bool

type nat =
| O
| S of nat

val snd : ('a1 * 'a2) -> 'a2

val length : 'a1 list -> nat

val app : 'a1 list -> 'a1 list -> 'a1 list

val add : nat -> nat -> nat

val existsb : ('a1 -> bool) -> 'a1 list -> bool

val forallb : ('a1 -> bool) -> 'a1 list -> bool

type positive =
| XI of positive
| XO of positive
| XH

type n =
| N0
| Npos of positive

module Pos :
 sig
  type mask =
  | IsNul
  | IsPos of positive
  | IsNeg
 end

module Coq_Pos :
 sig
  val succ : positive -> positive

  val add : positive -> positive -> positive

  val add_carry : positive -> positive -> positive

  val pred_double : positive -> positive

  type mask = Pos.mask =
  | IsNul
  | IsPos of positive
  | IsNeg

  val succ_double_mask : mask -> mask

  val double_mask : mask -> mask

  val double_pred_mask : positive -> mask

  val sub_mask : positive -> positive -> mask

  val sub_mask_carry : positive -> positive -> mask

  val eqb : positive -> positive -> bool

  val iter_op : ('a1 -> 'a1 -> 'a1) -> positive -> 'a1 -> 'a1

  val to_nat : positive -> nat

  val of_succ_nat : nat -> positive
 end

module N :
 sig
  val add : n -> n -> n

  val sub : n -> n -> n

  val eqb : n -> n -> bool

  val to_nat : n -> nat

  val of_nat : nat -> n
 end

val mem : n -> n list -> bool

val len : 'a1 list -> n

val aget : n -> (n * 'a1) list -> 'a1 option

val adel : n -> (n * 'a1) list -> (n * 'a1) list

val aset : n -> 'a1 -> (n * 'a1) list -> (n * 'a1) list

val is_nil : 'a1 list -> bool

val nodupb : n list -> bool

type owner =
| OF of n
| OH of n

type hrec = { htx : bool; hasync : bool; hclosed : bool; hreg : bool;
              hpend : (n * n) option }

type fkind =
| FSend of n option
| FRecv of bool
| FSendB of n list * n * n
| FRecvB of n * bool

type frec = { fh : n; fk : fkind; fpend : (n * n) option }

type st = { q : n list; scount : n; rdrop : bool; rw : (owner * n) option;
            hs : (n * hrec) list; fs : (n * frec) list; wk : (n -> n);
            used : n list; acc : n list; rcv : n list; back : n list;
            drp : n list; qdrp : n list; multi : bool; evw : n list;
            evd : n list; fixcl : bool }

val set_q : st -> n list -> st

val set_scount : st -> n -> st

val set_rdrop : st -> bool -> st

val set_rw : st -> (owner * n) option -> st

val set_hs : st -> (n * hrec) list -> st

val set_fs : st -> (n * frec) list -> st

val set_wk : st -> (n -> n) -> st

val set_used : st -> n list -> st

val set_acc : st -> n list -> st

val set_rcv : st -> n list -> st

val set_back : st -> n list -> st

val set_drp : st -> n list -> st

val set_qdrp : st -> n list -> st

val set_multi : st -> bool -> st

val set_evw : st -> n list -> st

val set_evd : st -> n list -> st

val init : bool -> bool -> st

type op =
| TrySend of n * n
| Send of n * n
| TryRecv of n
| Recv of n
| RecvT0 of n
| Close of n
| DropH of n
| Clone of n * n
| ToSync of n
| ToAsync of n
| Len of n
| IsEmpty of n
| IsClosed of n
| SenderCount of n
| MkSend of n * n * n
| MkRecv of n * n
| Poll of n * n
| DropF of n
| PollNext of n * n
| SendB of n * n list * bool * bool
| TryRecvB of n * n
| RecvB of n * n
| MkSendB of n * n * n list
| MkRecvB of n * n * n

type res =
| ROk
| RClosedV of n
| RClosed
| RVal of n
| REmpty
| RDisc
| RTimeout
| RCloseErr
| RBad
| RBlock
| RPanic
| RNum of n
| RBool of bool
| RBatchOk of n
| RBatchErr of n * n list
| RMutOk of n * n list
| RMutClosed of n list
| RVals of n list
| RPending
| RReady of res

val fresh : n list -> st -> bool

val use : n list -> st -> st

val giveback : n list -> st -> st

val dropv : n list -> st -> st

val wake : n -> st -> st

val notify_receiver : st -> st

val pushl : n list -> st -> st

val deq1 : st -> st * n option

val deqn : nat -> st -> st * n list

val tx_dead : st -> hrec -> bool

val has_futs : n -> st -> bool

val with_closed : hrec -> hrec

val with_async : hrec -> bool -> hrec

val with_reg : hrec -> bool -> (n * n) option -> hrec

val put_h : n -> hrec -> st -> st

val put_f : n -> frec -> st -> st

val is_recv_kind : fkind -> bool

val kitems : fkind -> n list

val note_multi : n -> hrec -> st -> st

val lookup_free : st -> n -> hrec option

val do_try_send : st -> n -> n -> st * res

val do_send : st -> n -> n -> st * res

val do_send_b : st -> n -> n list -> bool -> bool -> st * res

val try_recv_core : st -> res -> st * res

val do_try_recv : st -> n -> st * res

val do_recv : st -> n -> res -> st * res

val recv_b_core : st -> n -> res -> st * res

val do_try_recv_b : st -> n -> n -> st * res

val do_recv_b : st -> n -> n -> st * res

val close_h : st -> n -> hrec -> st

val do_close : st -> n -> st * res

val destroy : st -> st

val do_drop_h : st -> n -> st * res

val do_clone : st -> n -> n -> st * res

val do_to_async : st -> n -> st * res

val do_to_sync : st -> n -> st * res

val obs : st -> n -> (hrec -> res) -> st * res

val is_closed_h : st -> hrec -> bool

val do_mk_send : st -> n -> n -> n list -> fkind -> st * res

val do_mk_recv : st -> n -> n -> fkind -> st * res

val poll_recv_core : st -> owner -> n -> bool -> (st * bool) * res

val poll_recv_b_core : st -> owner -> n -> n -> bool -> (st * bool) * res

val pend_of : st -> n -> res -> (n * n) option

val do_poll : st -> n -> n -> st * res

val do_drop_f : st -> n -> st * res

val do_poll_next : st -> n -> n -> st * res

val exec : st -> op -> st * res

type out = (res * n list) * n list

val clear_ev : st -> st

val step : st -> op -> st * out
