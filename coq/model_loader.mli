
val negb : bool -> bool

type nat =
| O
| S of nat

val fst : ('a1 * 'a2) -> 'a1

val snd : ('a1 * 'a2) -> 'a2

type comparison =
| Eq
| Lt
| Gt

module Nat :
 sig
  val eqb : nat -> nat -> bool

  val max : nat -> nat -> nat
 end

val existsb : ('a1 -> bool) -> 'a1 list -> bool

val filter : ('a1 -> bool) -> 'a1 list -> 'a1 list

type positive =
| XI of positive
| XO of positive
| XH

type n =
| N0
| Npos of positive

module Pos :
 sig
  type mask =
  | IsNul
  | IsPos of positive
  | IsNeg
 end

module Coq_Pos :
 sig
  val succ : positive -> positive

  val add : positive -> positive -> positive

  val add_carry : positive -> positive -> positive

  val pred_double : positive -> positive

  type mask = Pos.mask =
  | IsNul
  | IsPos of positive
  | IsNeg

  val succ_double_mask : mask -> mask

  val double_mask : mask -> mask

  val double_pred_mask : positive -> mask

  val sub_mask : positive -> positive -> mask

  val sub_mask_carry : positive -> positive -> mask

  val compare_cont : comparison -> positive -> positive -> comparison

  val compare : positive -> positive -> comparison

  val eqb : positive -> positive -> bool
 end

module N :
 sig
  val succ_double : n -> n

  val double : n -> n

  val add : n -> n -> n

  val sub : n -> n -> n

  val compare : n -> n -> comparison

  val eqb : n -> n -> bool

  val leb : n -> n -> bool

  val ltb : n -> n -> bool

  val pos_div_eucl : positive -> n -> n * n

  val div_eucl : n -> n -> n * n

  val div : n -> n -> n

  val modulo : n -> n -> n
 end

val mem : n -> n list -> bool

type config = { c_ttl : n option; c_grace : n option; c_wheel : n }

type op =
| OFetch of n
| OInsert of n * n * n
| ORemove of n
| OInvalidate of n
| OAdvance of n
| OMaint

type entry = { e_val : n; e_cost : n; e_exp : n; e_timer : n option }

type timer = { t_id : n; t_key : n; t_slot : n; t_laps : n }

type fstate =
| Computing
| Complete of n

type tpc =
| TLoad
| TWrite of n * n
| TUnmark of n
| TComplete of n
| TDone

type future = { f_key : n; f_state : fstate; f_waiters : nat list;
                f_tpc : tpc; f_read_at : nat; f_reset_seen : nat;
                f_created : nat; f_loaded : (n * n) option;
                f_written : nat option; f_unmarked : nat option;
                f_ncomplete : nat }

type cpc =
| CIdle
| CStripe of n * nat * nat
| CWait of n * nat
| CPark of n * nat

type caller = { c_prog : op list; c_pc : cpc; c_token : bool }

type out =
| ORet of n
| OOk
| ORem of n option
| OInv of bool

type ret = { r_caller : nat; r_key : n; r_via : nat option; r_val : n }

type wr = { w_fut : nat; w_key : n; w_val : n; w_cost : n }

type state = { clock : n; map : (n -> entry option);
               pending : (n -> nat option); futs : (nat -> future option);
               nfut : nat; callers : (nat -> caller); timers : timer list;
               tick : n; next_timer : n; nruns : n; runs : (n -> nat);
               gt : nat; reset_k : (n -> nat); reset_all : nat;
               runs_since : (n -> nat); outs : out list; rets : ret list;
               writes : wr list }

type tid =
| Caller of nat
| Task of nat

val updN : (n -> 'a1) -> n -> 'a1 -> n -> 'a1

val updn : (nat -> 'a1) -> nat -> 'a1 -> nat -> 'a1

val vbase : n

val loader_cost : n -> n -> n

val last_reset : state -> n -> nat

val mkst :
  n -> (n -> entry option) -> (n -> nat option) -> (nat -> future option) ->
  nat -> (nat -> caller) -> timer list -> n -> n -> n -> (n -> nat) -> nat ->
  (n -> nat) -> nat -> (n -> nat) -> out list -> ret list -> wr list -> state

val w_clock : state -> n -> state

val w_map : state -> (n -> entry option) -> state

val w_pending : state -> (n -> nat option) -> state

val w_futs : state -> (nat -> future option) -> state

val w_nfut : state -> nat -> state

val w_callers : state -> (nat -> caller) -> state

val w_wheel : state -> timer list -> n -> n -> state

val w_runs : state -> n -> (n -> nat) -> (n -> nat) -> state

val w_gt : state -> nat -> state

val w_reset : state -> (n -> nat) -> nat -> (n -> nat) -> state

val w_outs : state -> out list -> state

val w_rets : state -> ret list -> state

val w_writes : state -> wr list -> state

val mkf :
  n -> fstate -> nat list -> tpc -> nat -> nat -> nat -> (n * n) option ->
  nat option -> nat option -> nat -> future

val fw_state : future -> fstate -> nat list -> future

val fw_tpc : future -> tpc -> future

val fw_loaded : future -> (n * n) option -> future

val fw_written : future -> nat option -> future

val fw_unmarked : future -> nat option -> future

val fw_ncomplete : future -> nat -> future

val new_future : n -> nat -> nat -> nat -> future

val set_caller : state -> nat -> op list -> cpc -> bool -> state

val new_timer : config -> state -> n -> n -> timer

val wheel_schedule : config -> state -> n -> state

val schedule_handle : config -> state -> n option

val wheel_cancel : state -> n option -> state

val wheel_sweep : n -> timer list -> timer list * n list

val sweep_now : config -> state -> timer list * n list

val wheel_advance : config -> state -> state

val new_entry : config -> n -> n -> n -> n option -> entry

type rd =
| RHit of n
| RStale of n
| RMiss

val classify : config -> n -> entry option -> rd

val is_fresh : n -> entry option -> bool

val create_future : state -> n -> nat -> nat -> state

val push_out : state -> out -> state

val push_ret : state -> nat -> n -> nat option -> n -> state

val reset_key : state -> n -> state

val reset_everything : state -> state

val reset_keys : state -> n list -> state

val entry_timer : entry option -> n option

val remove_key : state -> n -> state

val finish : state -> nat -> op list -> bool -> out -> state

val start_op :
  config -> state -> nat -> bool -> op -> op list -> bool -> state

val caller_step : config -> state -> nat -> bool -> state option

val wake_all : (nat -> caller) -> nat list -> nat -> caller

val set_fut : state -> nat -> future -> state

val task_step : config -> state -> nat -> state option

val step : config -> state -> tid -> bool -> state option

type sched = (tid * bool) list

val run : config -> state -> sched -> state

val init : n -> (nat -> op list) -> state

val first_task : config -> state -> nat -> nat -> state option

val drive : config -> nat -> state -> state * bool

val seq_op : config -> state -> op -> state * bool

val seq_run : config -> state -> op list -> state * bool
