(* Sync/HRwLock.v — atomic-step (K3) model of fibre::sync::HybridRwLock
   (channels/src/sync/rwlock.rs over channels/src/sync/wait_queue.rs).

   Same conventions as Sync/HMutex.v (one step per traced event, SC semantics with the source
   Orderings as event data, untraced code runs in the step of the preceding traced event,
   threads = nat, arbitrary programs).  State word: WRITE_LOCKED = 1, WRITER_PENDING = 2,
   HAS_QUEUED = 4, reader count in units of 8.  The wait list holds (owner, is_writer).

   Program ops (k = RD | WR): ROLock k (read()/write(); critical section; unlock),
   ROTry k (try_read / try_write), ROAsync k (block_on(read_async / write_async)),
   ROPoll k (create the future if none / of the other kind: that one is dropped first; poll once
   with a non-blocking waker), RODropFut, ROWait (yield until the future's waker fired).
   choice: RAgain = one more spin round / poll attempt / critical-section step, RGo = move on,
   RSpur = this compare_exchange_weak fails spuriously (try_acquire_read only). *)
From Coq Require Import List NArith Arith Bool.
From Fibre Require Import Common.Conc Sync.HMutex.
Import ListNotations.

Inductive rw := RD | WR.
Inductive rop := ROLock (k : rw) | ROTry (k : rw) | ROAsync (k : rw) | ROPoll (k : rw) | RODropFut | ROWait.
Inductive rres := RRL (k : rw) | RRT (k : rw) (got : bool) | RRA (k : rw) | RRP (ready : bool).
Inductive rch := RGo | RAgain | RSpur.

Inductive ractx := RALock (k : rw) | RASpin (k : rw) (linked : bool) | RATry (k : rw)
                 | RAFirst (k : rw) (blk : bool) | RAPoll (k : rw) (blk : bool).
Inductive rqctx := RQSync (k : rw) (linked : bool) | RQFut (k : rw) (blk : bool).
Inductive rfixk := RFQ (q : rqctx) | RFX (q : rqctx) | RFD | RFW (ws : list (wk * nat)).
Inductive rlctx := RLQ (q : rqctx) | RLX (q : rqctx) | RLDrop | RLWake.

Inductive rpc :=
| RIdle
| RTALoad (a : ractx)
| RTACas (a : ractx) (swp shq : bool) (srd : N)     (* observed word: no WL; RD: no WP (swp unused); WR: no readers (srd unused) *)
| RYield (k : rw) (linked : bool) | RSpinNext (k : rw) (linked : bool)
| RPollNext (k : rw) (blk : bool)
| RLLSwap (l : rlctx) | RLLLoad (l : rlctx) | RLLSpin (l : rlctx)
| RQRearm (q : rqctx) | RQFor (q : rqctx) | RQLoad (q : rqctx)
| RQCas (q : rqctx) (swp shq : bool) (srd : N)
| RFix1 (f : rfixk) | RFix2 (f : rfixk)
| RQUnl (q : rqctx) (acq : bool)
| RPLoad (k : rw) | RPark (k : rw) | RBPark
| RXUnl (q : rqctx)
| RCS (k : rw) | RURel (k : rw)
| RWSweep (ws : list (wk * nat)) | RWUnl (ws : list (wk * nat)) | RWWake (h : nat) (rest : list (wk * nat))
| RDUnl | RDLoad
| RWaitW.

Record rwstate := mkRS {
  wl : bool; wp : bool; hq : bool; rd : N;         (* the state word *)
  rllock : option nat;                             (* holder of the wait-list spinlock *)
  rqueue : list (nat * bool);                      (* linked nodes: (owner, is_writer), FIFO *)
  rnarm : nat -> option wk;                        (* node.waiter *)
  rnwk : nat -> bool;                              (* node.state = WOKEN *)
  rtoken : nat -> bool;
  rbwoken : nat -> bool;
  rprog : nat -> list rop;
  rpcs : nat -> rpc;
  rfut : nat -> option (rw * bool);                (* owns a future with an allocated node: (kind, block_on) *)
  wholders : list nat;                             (* GHOST: threads holding a WriteGuard *)
  rholders : list nat;                             (* GHOST: threads holding a ReadGuard *)
  rresults : list (nat * rres)
}.

Definition rs_word (s : rwstate) (f : bool * bool * bool * N) : rwstate :=
  let '(a, b, c, d) := f in
  mkRS a b c d (rllock s) (rqueue s) (rnarm s) (rnwk s) (rtoken s) (rbwoken s) (rprog s) (rpcs s) (rfut s)
       (wholders s) (rholders s) (rresults s).
Definition rs_wl s v := rs_word s (v, wp s, hq s, rd s).
Definition rs_wp s v := rs_word s (wl s, v, hq s, rd s).
Definition rs_hq s v := rs_word s (wl s, wp s, v, rd s).
Definition rs_rd s v := rs_word s (wl s, wp s, hq s, v).
Definition rs_llock s v := mkRS (wl s) (wp s) (hq s) (rd s) v (rqueue s) (rnarm s) (rnwk s) (rtoken s) (rbwoken s) (rprog s) (rpcs s) (rfut s) (wholders s) (rholders s) (rresults s).
Definition rs_queue s v := mkRS (wl s) (wp s) (hq s) (rd s) (rllock s) v (rnarm s) (rnwk s) (rtoken s) (rbwoken s) (rprog s) (rpcs s) (rfut s) (wholders s) (rholders s) (rresults s).
Definition rs_narm s t v := mkRS (wl s) (wp s) (hq s) (rd s) (rllock s) (rqueue s) (upd (rnarm s) t v) (rnwk s) (rtoken s) (rbwoken s) (rprog s) (rpcs s) (rfut s) (wholders s) (rholders s) (rresults s).
Definition rs_nwk s t v := mkRS (wl s) (wp s) (hq s) (rd s) (rllock s) (rqueue s) (rnarm s) (upd (rnwk s) t v) (rtoken s) (rbwoken s) (rprog s) (rpcs s) (rfut s) (wholders s) (rholders s) (rresults s).
Definition rs_token s t v := mkRS (wl s) (wp s) (hq s) (rd s) (rllock s) (rqueue s) (rnarm s) (rnwk s) (upd (rtoken s) t v) (rbwoken s) (rprog s) (rpcs s) (rfut s) (wholders s) (rholders s) (rresults s).
Definition rs_bwoken s t v := mkRS (wl s) (wp s) (hq s) (rd s) (rllock s) (rqueue s) (rnarm s) (rnwk s) (rtoken s) (upd (rbwoken s) t v) (rprog s) (rpcs s) (rfut s) (wholders s) (rholders s) (rresults s).
Definition rs_prog s t v := mkRS (wl s) (wp s) (hq s) (rd s) (rllock s) (rqueue s) (rnarm s) (rnwk s) (rtoken s) (rbwoken s) (upd (rprog s) t v) (rpcs s) (rfut s) (wholders s) (rholders s) (rresults s).
Definition rs_pc s t v := mkRS (wl s) (wp s) (hq s) (rd s) (rllock s) (rqueue s) (rnarm s) (rnwk s) (rtoken s) (rbwoken s) (rprog s) (upd (rpcs s) t v) (rfut s) (wholders s) (rholders s) (rresults s).
Definition rs_fut s t v := mkRS (wl s) (wp s) (hq s) (rd s) (rllock s) (rqueue s) (rnarm s) (rnwk s) (rtoken s) (rbwoken s) (rprog s) (rpcs s) (upd (rfut s) t v) (wholders s) (rholders s) (rresults s).
Definition rs_wholders s v := mkRS (wl s) (wp s) (hq s) (rd s) (rllock s) (rqueue s) (rnarm s) (rnwk s) (rtoken s) (rbwoken s) (rprog s) (rpcs s) (rfut s) v (rholders s) (rresults s).
Definition rs_rholders s v := mkRS (wl s) (wp s) (hq s) (rd s) (rllock s) (rqueue s) (rnarm s) (rnwk s) (rtoken s) (rbwoken s) (rprog s) (rpcs s) (rfut s) (wholders s) v (rresults s).
Definition rlog s t r := mkRS (wl s) (wp s) (hq s) (rd s) (rllock s) (rqueue s) (rnarm s) (rnwk s) (rtoken s) (rbwoken s) (rprog s) (rpcs s) (rfut s) (wholders s) (rholders s) (rresults s ++ [(t, r)]).

Definition qmem (t : nat) (l : list (nat * bool)) : bool := existsb (fun x => Nat.eqb (fst x) t) l.
Definition qrem (t : nat) (l : list (nat * bool)) : list (nat * bool) := filter (fun x => negb (Nat.eqb (fst x) t)) l.
Definition nwriters (l : list (nat * bool)) : nat := length (filter snd l).
Fixpoint first_writer (l : list (nat * bool)) : option nat :=
  match l with
  | [] => None
  | (h, true) :: _ => Some h
  | (_, false) :: r => first_writer r
  end.
(* remove one occurrence (ReadGuard release) *)
Fixpoint rem1 (t : nat) (l : list nat) : list nat :=
  match l with
  | [] => []
  | x :: r => if Nat.eqb x t then r else x :: rem1 t r
  end.

Definition renc (a b c : bool) (d : N) : N :=
  ((if a then 1 else 0) + (if b then 2 else 0) + (if c then 4 else 0) + 8 * d)%N.
Definition rword s : N := renc (wl s) (wp s) (hq s) (rd s).

(* Ordering literals, one definition per source site *)
Definition ro_ta_load := Rlx.      Definition ro_ta_cas := Acq.       Definition ro_ta_casf := Rlx.
Definition ro_q_for := Rlx.        Definition ro_q_load := Rlx.       Definition ro_q_cas := Acq.
Definition ro_q_casf := Rlx.       Definition ro_fix := Rlx.          Definition ro_unlock := Rel.

Definition rkind_a (a : ractx) : rw :=
  match a with RALock k | RASpin k _ | RATry k | RAFirst k _ | RAPoll k _ => k end.
Definition rkind_q (q : rqctx) : rw := match q with RQSync k _ | RQFut k _ => k end.
Definition is_wr (k : rw) : bool := match k with WR => true | RD => false end.
Definition rw_eqb (a b : rw) : bool := match a, b with RD, RD | WR, WR => true | _, _ => false end.
Definition rkind_of (q : rqctx) : wk :=
  match q with RQSync _ _ => WThread | RQFut _ true => WBlock | RQFut _ false => WCount end.

Definition rres_a (a : ractx) : rres :=
  match a with
  | RALock k | RASpin k _ => RRL k | RATry k => RRT k true
  | RAFirst k true | RAPoll k true => RRA k | RAFirst _ false | RAPoll _ false => RRP true
  end.
Definition rres_q (q : rqctx) : rres :=
  match q with RQSync k _ => RRL k | RQFut k true => RRA k | RQFut _ false => RRP true end.

Definition rret s t p (e : mev) : option (rwstate * mev) := Some (rs_pc s t p, e).

(* continuation of a failed try_acquire_* *)
Definition ta_fail s t (a : ractx) (e : mev) : option (rwstate * mev) :=
  match a with
  | RALock k => rret s t (RTALoad (RASpin k false)) e
  | RASpin k l => rret s t (RYield k l) e
  | RATry k => rret (rlog s t (RRT k false)) t RIdle e
  | RAFirst k b => rret s t (RTALoad (RAPoll k b)) e
  | RAPoll k b => rret s t (RPollNext k b) e
  end.

Definition rdo_taload s t (a : ractx) : option (rwstate * mev) :=
  let e := EvLoad VState ro_ta_load (rword s) in
  match rkind_a a with
  | RD => if wl s || wp s then ta_fail s t a e else rret s t (RTACas a false (hq s) (rd s)) e
  | WR => if wl s || negb (N.eqb (rd s) 0) then ta_fail s t a e else rret s t (RTACas a (wp s) (hq s) 0%N) e
  end.

Definition rafter_llock s t (l : rlctx) : rwstate :=
  match l with
  | RLQ q => rs_pc s t (RQRearm q)
  | RLX q =>
      let was := qmem t (rqueue s) in
      let s1 := rs_queue s (qrem t (rqueue s)) in
      match q with
      | RQSync _ _ => rs_pc s1 t (RFix1 (RFX q))
      | RQFut _ _ => rs_pc s1 t (if was then RFix1 (RFX q) else RXUnl q)
      end
  | RLDrop =>
      let was := qmem t (rqueue s) in
      rs_pc (rs_queue s (qrem t (rqueue s))) t (if was then RFix1 RFD else RDUnl)
  | RLWake => rs_pc s t (RWSweep [])
  end.

Definition rdo_llswap s t (l : rlctx) : option (rwstate * mev) :=
  let s := match l with RLQ (RQFut k b) => rs_fut s t (Some (k, b)) | _ => s end in
  match rllock s with
  | None => Some (rafter_llock (rs_llock s (Some t)) t l, EvSwap VLocked o_ll_swap 1 0)
  | Some _ => rret s t (RLLLoad l) (EvSwap VLocked o_ll_swap 1 1)
  end.

Definition rdo_wait s t (c : rch) : option (rwstate * mev) :=
  let s1 := rs_token s t true in
  match c with
  | RAgain => rret s1 t RWaitW (EvUnpark t)
  | _ => rret s1 t RIdle (EvUnpark t)
  end.

Fixpoint rdispatch s t (c : rch) (p : list rop) : option (rwstate * mev) :=
  match p with
  | [] => match rfut s t with Some _ => rdo_llswap (rs_prog s t []) t RLDrop | None => None end
  | ROLock k :: r =>
      match rfut s t with
      | Some _ => rdo_llswap (rs_prog s t p) t RLDrop
      | None => rdo_taload (rs_prog s t r) t (RALock k)
      end
  | ROAsync k :: r =>
      match rfut s t with
      | Some _ => rdo_llswap (rs_prog s t p) t RLDrop
      | None => rdo_taload (rs_prog s t r) t (RAFirst k true)
      end
  | ROTry k :: r => rdo_taload (rs_prog s t r) t (RATry k)
  | ROPoll k :: r =>
      match rfut s t with
      | Some (k', _) =>
          if rw_eqb k k' then rdo_taload (rs_prog s t r) t (RAPoll k false)
          else rdo_llswap (rs_prog s t p) t RLDrop
      | None => rdo_taload (rs_prog s t r) t (RAFirst k false)
      end
  | RODropFut :: r =>
      match rfut s t with
      | Some _ => rdo_llswap (rs_prog s t r) t RLDrop
      | None => rdispatch s t c r
      end
  | ROWait :: r =>
      match rfut s t with
      | Some _ => rdo_wait (rs_prog s t r) t c
      | None => rdispatch s t c r
      end
  end.

Definition rblock_next s t : rwstate :=
  let k := match rfut s t with Some (k, _) => k | None => RD end in
  if rbwoken s t then rs_pc (rs_bwoken s t false) t (RTALoad (RAPoll k true)) else rs_pc s t RBPark.

(* the two RMWs of fix_flags *)
Definition rdo_fix1 s t (f : rfixk) : option (rwstate * mev) :=
  match nwriters (rqueue s) with
  | O => rret (rs_wp s false) t (RFix2 f) (EvFand VState ro_fix 2 (rword s))
  | S _ => rret (rs_wp s true) t (RFix2 f) (EvFor VState ro_fix 2 (rword s))
  end.

(* after the list unlock in wake_waiters: run the collected wakes up to the next traced unpark *)
Fixpoint rflush s t (ws : list (wk * nat)) : rwstate :=
  match ws with
  | [] => rs_pc s t RIdle
  | (WCount, _) :: r => rflush s t r
  | (WThread, h) :: r => rs_pc s t (RWWake h r)
  | (WBlock, h) :: r => rs_pc (rs_bwoken s h true) t (RWWake h r)
  end.

Definition wake_of s (h : nat) : list (wk * nat) :=
  match rnarm s h with Some k => [(k, h)] | None => [] end.

Definition after_acq_a s t (a : ractx) : rpc :=
  match a with
  | RASpin WR true => RLLSwap (RLX (RQSync WR true))
  | RAPoll k b => match rfut s t with Some _ => RLLSwap (RLX (RQFut k b)) | None => RCS k end
  | _ => RCS (rkind_a a)
  end.

Definition rwstep (s : rwstate) (t : nat) (c : rch) : option (rwstate * mev) :=
  match rpcs s t with
  | RIdle => rdispatch s t c (rprog s t)
  | RWaitW => rdo_wait s t c
  | RTALoad a => rdo_taload s t a
  | RTACas a swp shq srd =>
      match rkind_a a with
      | RD =>
          let weak := match a with RATry _ => false | _ => true end in
          let spur := weak && match c with RSpur => true | _ => false end in
          let ok := negb (wl s) && negb (wp s) && Bool.eqb (hq s) shq && N.eqb (rd s) srd && negb spur in
          let x := renc false false shq srd in
          let e := if weak then EvCasW VState ro_ta_cas ro_ta_casf x (x + 8) (rword s) ok
                   else EvCas VState ro_ta_cas ro_ta_casf x (x + 8) (rword s) ok in
          if ok then
            let s1 := rlog (rs_rholders (rs_rd s (rd s + 1)%N) (t :: rholders s)) t (rres_a a) in
            rret s1 t (after_acq_a s t a) e
          else ta_fail s t a e
      | WR =>
          let ok := negb (wl s) && N.eqb (rd s) 0 && Bool.eqb (wp s) swp && Bool.eqb (hq s) shq in
          let x := renc false swp shq 0 in
          let e := EvCas VState ro_ta_cas ro_ta_casf x (x + 1) (rword s) ok in
          if ok then
            let s1 := rlog (rs_wholders (rs_wl s true) (t :: wholders s)) t (rres_a a) in
            rret s1 t (after_acq_a s t a) e
          else ta_fail s t a e
      end
  | RYield k l => rret s t (RSpinNext k l) EvYield
  | RSpinNext k l =>
      match c with
      | RAgain => rdo_taload s t (RASpin k l)
      | _ => rdo_llswap s t (RLQ (RQSync k l))
      end
  | RPollNext k b =>
      match c with
      | RAgain => rdo_taload s t (RAPoll k b)
      | _ => rdo_llswap s t (RLQ (RQFut k b))
      end
  | RLLSwap l => rdo_llswap s t l
  | RLLLoad l =>
      match rllock s with
      | Some _ => rret s t (RLLSpin l) (EvLoad VLocked o_ll_load 1)
      | None => rret s t (RLLSwap l) (EvLoad VLocked o_ll_load 0)
      end
  | RLLSpin l => rret s t (RLLLoad l) EvSpin
  | RQRearm q =>
      let s1 := rs_nwk (rs_narm s t (Some (rkind_of q))) t false in
      let is_linked := match q with
                       | RQSync RD _ => false
                       | RQSync WR l => l
                       | RQFut _ _ => qmem t (rqueue s)
                       end in
      let s2 := if is_linked then s1 else rs_queue s1 (rqueue s1 ++ [(t, is_wr (rkind_q q))]) in
      rret s2 t (RQFor q) (EvStore (VNode t) o_rearm 0)
  | RQFor q =>
      match rkind_q q with
      | RD => rret (rs_hq s true) t (RQLoad q) (EvFor VState ro_q_for 4 (rword s))
      | WR => rret (rs_wp (rs_hq s true) true) t (RQLoad q) (EvFor VState ro_q_for 6 (rword s))
      end
  | RQLoad q =>
      let e := EvLoad VState ro_q_load (rword s) in
      match rkind_q q with
      | RD => if wl s || wp s then rret s t (RQUnl q false) e else rret s t (RQCas q false (hq s) (rd s)) e
      | WR => if wl s || negb (N.eqb (rd s) 0) then rret s t (RQUnl q false) e else rret s t (RQCas q (wp s) (hq s) 0%N) e
      end
  | RQCas q swp shq srd =>
      match rkind_q q with
      | RD =>
          let ok := negb (wl s) && negb (wp s) && Bool.eqb (hq s) shq && N.eqb (rd s) srd in
          let x := renc false false shq srd in
          let e := EvCas VState ro_q_cas ro_q_casf x (x + 8) (rword s) ok in
          if ok then
            let s1 := rlog (rs_rholders (rs_rd s (rd s + 1)%N) (t :: rholders s)) t (rres_q q) in
            rret (rs_queue s1 (qrem t (rqueue s1))) t (RFix1 (RFQ q)) e
          else rret s t (RQLoad q) e
      | WR =>
          let ok := negb (wl s) && N.eqb (rd s) 0 && Bool.eqb (wp s) swp && Bool.eqb (hq s) shq in
          let x := renc false swp shq 0 in
          let e := EvCas VState ro_q_cas ro_q_casf x (x + 1) (rword s) ok in
          if ok then
            let s1 := rlog (rs_wholders (rs_wl s true) (t :: wholders s)) t (rres_q q) in
            rret (rs_queue s1 (qrem t (rqueue s1))) t (RFix1 (RFQ q)) e
          else rret s t (RQLoad q) e
      end
  | RFix1 f => rdo_fix1 s t f
  | RFix2 f =>
      let next := match f with
                  | RFQ q => RQUnl q true | RFX q => RXUnl q | RFD => RDUnl | RFW ws => RWUnl ws
                  end in
      match rqueue s with
      | [] => rret (rs_hq s false) t next (EvFand VState ro_fix 4 (rword s))
      | _ => rret (rs_hq s true) t next (EvFor VState ro_fix 4 (rword s))
      end
  | RQUnl q acq =>
      let e := EvStore VLocked o_ll_unlock 0 in
      let s1 := rs_llock s None in
      if acq then
        match q with
        | RQSync k _ => rret s1 t (RCS k) e
        | RQFut k _ => rret (rs_fut s1 t None) t (RCS k) e
        end
      else
        match q with
        | RQSync k _ => rret s1 t (RPLoad k) e
        | RQFut _ false => rret (rlog s1 t (RRP false)) t RIdle e
        | RQFut _ true => Some (rblock_next s1 t, e)
        end
  | RPLoad k =>
      let e := EvLoad (VNode t) o_node_load (b2n (rnwk s t)) in
      if rnwk s t then rret s t (RTALoad (RASpin k (is_wr k))) e else rret s t (RPark k) e
  | RPark k => if rtoken s t then rret (rs_token s t false) t (RPLoad k) EvPark else None
  | RBPark => if rtoken s t then Some (rblock_next (rs_token s t false) t, EvPark) else None
  | RXUnl q =>
      let e := EvStore VLocked o_ll_unlock 0 in
      let s1 := rs_llock s None in
      match q with
      | RQSync k _ => rret s1 t (RCS k) e
      | RQFut k _ => rret (rs_fut s1 t None) t (RCS k) e
      end
  | RCS k =>
      let s1 := rs_token s t true in
      match c with
      | RAgain => rret s1 t (RCS k) (EvUnpark t)
      | _ => rret s1 t (RURel k) (EvUnpark t)
      end
  | RURel RD =>
      let e := EvFsub VState ro_unlock 8 (rword s) in
      let s1 := rs_rholders (rs_rd s (rd s - 1)%N) (rem1 t (rholders s)) in
      if N.eqb (rd s) 1 && hq s then rret s1 t (RLLSwap RLWake) e else rret s1 t RIdle e
  | RURel WR =>
      let e := EvFand VState ro_unlock 1 (rword s) in
      let s1 := rs_wholders (rs_wl s false) (rem t (wholders s)) in
      if hq s then rret s1 t (RLLSwap RLWake) e else rret s1 t RIdle e
  | RWSweep ws =>
      match first_writer (rqueue s) with
      | Some h =>
          rret (rs_nwk (rs_narm s h None) h true) t (RWUnl (ws ++ wake_of s h)) (EvStore (VNode h) o_mark 1)
      | None =>
          match rqueue s with
          | [] => rdo_fix1 s t (RFW ws)
          | (h, _) :: r =>
              rret (rs_queue (rs_nwk (rs_narm s h None) h true) r) t (RWSweep (ws ++ wake_of s h))
                   (EvStore (VNode h) o_mark 1)
          end
      end
  | RWUnl ws => Some (rflush (rs_llock s None) t ws, EvStore VLocked o_ll_unlock 0)
  | RWWake h rest => Some (rflush (rs_token s h true) t rest, EvUnpark h)
  | RDUnl => rret (rs_llock s None) t RDLoad (EvStore VLocked o_ll_unlock 0)
  | RDLoad =>
      let e := EvLoad (VNode t) o_node_load (b2n (rnwk s t)) in
      let s1 := rs_fut s t None in
      if rnwk s t then rret s1 t (RLLSwap RLWake) e else rret s1 t RIdle e
  end.

Definition rwinit (progs : nat -> list rop) : rwstate :=
  mkRS false false false 0%N None [] (fun _ => None) (fun _ => false) (fun _ => false) (fun _ => false)
       progs (fun _ => RIdle) (fun _ => None) [] [] [].

Definition rwsys (progs : nat -> list rop) : system :=
  mkSystem rwstate nat rch mev (rwinit progs) rwstep.

Definition rw_replay_trace (progs : nat -> list rop) (tr : list (nat * rch * mev)) : option rwstate + nat :=
  replay (rwsys progs) mev_eqb (rwinit progs) tr.

Definition rw_replay_from (progs : nat -> list rop) (s : rwstate) (tr : list (nat * rch * mev)) : option rwstate + nat :=
  replay (rwsys progs) mev_eqb s tr.

Definition rwpeek (s : rwstate) (t : nat) (c : rch) : option mev :=
  match rwstep s t c with Some (_, e) => Some e | None => None end.

(* ---- D3 table (rows in the format of vlib/lockskel.py) *)
Inductive rfn := RfTryAcqR | RfTryAcqW | RfRead | RfReadSlow | RfReadAsync | RfWrite | RfWriteSlow | RfWriteAsync
               | RfTryRead | RfTryWrite | RfUnlockR | RfUnlockW | RfFixFlags | RfWakeWaiters
               | RfRGuardDrop | RfWGuardDrop | RfRFutPoll | RfRFutFinish | RfRFutDrop
               | RfWFutPoll | RfWFutFinish | RfWFutDrop
               | RfListLock | RfRearm | RfMarkWoken | RfWake.
Inductive rsop := RsLoad | RsStore | RsCas | RsCasWeak | RsFor | RsFand | RsFsub | RsPark | RsYield | RsCall (f : rfn).

Definition rcall (f : rfn) : svar * rsop * option ord * option ord := (SvNone, RsCall f, None, None).
Definition rq_section : list (svar * rsop * option ord * option ord) :=
  [ rcall RfListLock; rcall RfRearm; (SvState, RsFor, Some ro_q_for, None); (SvState, RsLoad, Some ro_q_load, None);
    (SvState, RsCas, Some ro_q_cas, Some ro_q_casf); rcall RfFixFlags ].
Definition rpark_tail : list (svar * rsop * option ord * option ord) :=
  [ (SvNode, RsLoad, Some o_node_load, None); (SvNone, RsPark, None, None) ].

Definition rskeleton : list (rfn * list (svar * rsop * option ord * option ord)) :=
  [ (RfTryAcqR, [ (SvState, RsLoad, Some ro_ta_load, None); (SvState, RsCasWeak, Some ro_ta_cas, Some ro_ta_casf) ]);
    (RfTryAcqW, [ (SvState, RsLoad, Some ro_ta_load, None); (SvState, RsCas, Some ro_ta_cas, Some ro_ta_casf) ]);
    (RfRead, [ rcall RfTryAcqR; rcall RfReadSlow ]);
    (RfReadSlow, [ rcall RfTryAcqR; (SvNone, RsYield, None, None) ] ++ rq_section ++ rpark_tail);
    (RfReadAsync, [ rcall RfTryAcqR ]);
    (RfWrite, [ rcall RfTryAcqW; rcall RfWriteSlow ]);
    (RfWriteSlow, [ rcall RfTryAcqW; rcall RfListLock; rcall RfFixFlags; (SvNone, RsYield, None, None) ]
                  ++ rq_section ++ rpark_tail);
    (RfWriteAsync, [ rcall RfTryAcqW ]);
    (RfTryRead, [ (SvState, RsLoad, Some ro_ta_load, None); (SvState, RsCas, Some ro_ta_cas, Some ro_ta_casf) ]);
    (RfTryWrite, [ rcall RfTryAcqW ]);
    (RfUnlockR, [ (SvState, RsFsub, Some ro_unlock, None); rcall RfWakeWaiters ]);
    (RfUnlockW, [ (SvState, RsFand, Some ro_unlock, None); rcall RfWakeWaiters ]);
    (RfFixFlags, [ (SvState, RsFand, Some ro_fix, None); (SvState, RsFor, Some ro_fix, None);
                   (SvState, RsFand, Some ro_fix, None); (SvState, RsFor, Some ro_fix, None) ]);
    (RfWakeWaiters, [ rcall RfListLock; rcall RfMarkWoken; rcall RfWake; rcall RfMarkWoken; rcall RfFixFlags; rcall RfWake ]);
    (RfRGuardDrop, [ rcall RfUnlockR ]);
    (RfWGuardDrop, [ rcall RfUnlockW ]);
    (RfRFutPoll, [ rcall RfTryAcqR; rcall RfRFutFinish ] ++ rq_section);
    (RfRFutFinish, [ rcall RfListLock; rcall RfFixFlags ]);
    (RfRFutDrop, [ rcall RfListLock; rcall RfFixFlags; (SvNode, RsLoad, Some o_node_load, None); rcall RfWakeWaiters ]);
    (RfWFutPoll, [ rcall RfTryAcqW; rcall RfWFutFinish ] ++ rq_section);
    (RfWFutFinish, [ rcall RfListLock; rcall RfFixFlags ]);
    (RfWFutDrop, [ rcall RfListLock; rcall RfFixFlags; (SvNode, RsLoad, Some o_node_load, None); rcall RfWakeWaiters ]) ].
