(* Sync/HMutex.v — atomic-mstep (K3) model of fibre::sync::HybridMutex
   (channels/src/sync/mutex.rs over channels/src/sync/wait_queue.rs).

   One model mstep = one traced mev of the code (hook H1), in source order, with the same
   variable, operation and Ordering.  Semantics: sequentially consistent (orderings are data
   in the events and are compared by the tie, D2/D3).  Untraced code (list edits under the
   list spinlock, the block_on executor's `woken` flag) runs in the mstep of the traced mev
   that precedes it, exactly as under the baton scheduler.

   Threads are natural numbers (any number of them); each runs an arbitrary program of
     OLock   lock(); critical section; unlock        OTry   try_lock() (+cs, unlock if Some)
     OAsync  block_on(lock_async()) (+cs, unlock)    OPoll  create the lock future if the thread
     has none and poll it once with a non-blocking (counting) waker (+cs, unlock if Ready)
     ODropFut drop the pending future.              OWait  while it owns a pending future: >= 1
     steps `unpark(self)` (the harness waits, with yield points, until the future's waker fired).
   A thread that starts OLock/OAsync while it owns a pending future drops the future first,
   and a pending future is dropped at the end of the program (Rust scoping).
   The critical section is >= 1 steps `unpark(self)` (the harness' yield point; it leaves a
   park token, so spurious park returns are exercised).

   mch: ChAgain = one more spin/yield round | one more poll attempt | one more
   critical-section mstep;  ChGo = move on.  SPIN_YIELDS / POLL_ATTEMPTS are thereby
   abstracted to "any finite budget >= 1".  No model definitions below use proofs. *)
From Coq Require Import List NArith Arith Bool.
From Fibre Require Import Common.Conc.
Import ListNotations.

Inductive ord := Rlx | Acq | Rel | AcqRel | SeqCst.
Inductive var := VState | VLocked | VNode (owner : nat).

Inductive mev :=
| EvLoad (v : var) (o : ord) (r : N)
| EvStore (v : var) (o : ord) (a : N)
| EvSwap (v : var) (o : ord) (a r : N)
| EvCas (v : var) (o f : ord) (a b r : N) (ok : bool)
| EvCasW (v : var) (o f : ord) (a b r : N) (ok : bool)   (* compare_exchange_weak (HRwLock only) *)
| EvFsub (v : var) (o : ord) (a r : N)                   (* fetch_sub (HRwLock only) *)
| EvFor (v : var) (o : ord) (a r : N)
| EvFand (v : var) (o : ord) (clr r : N)      (* operand = !clr *)
| EvPark
| EvUnpark (target : nat)
| EvYield
| EvSpin.

Inductive op := OLock | OTry | OAsync | OPoll | ODropFut | OWait.
Inductive res := RL | RT (got : bool) | RA | RP (ready : bool).
Inductive mch := ChGo | ChAgain.

(* who is registered in a waiter node: a sync thread, a block_on task (waker = set flag +
   unpark), a task with a non-blocking waker *)
Inductive wk := WThread | WBlock | WCount.

(* context of a try_acquire *)
Inductive actx := ALock | ASpin (linked : bool) | ATry | AFirst (blk : bool) | APoll (blk : bool).
(* owner of a queue section: lock_slow (local `linked`) or MutexFuture::poll *)
Inductive qctx := QSync (linked : bool) | QFut (blk : bool).
(* what the list spinlock is being taken for *)
Inductive lctx := LQ (q : qctx) | LX (q : qctx) | LDrop | LWake.

Inductive pc :=
| Idle
| TALoad (a : actx) | TACas (a : actx) (sq : bool)
| Yield (linked : bool) | SpinNext (linked : bool)
| PollNext (blk : bool)
| LLSwap (l : lctx) | LLLoad (l : lctx) | LLSpin (l : lctx)
| QRearm (q : qctx) | QFor (q : qctx) | QLoad (q : qctx) | QCas (q : qctx) (sq : bool)
| QFix (q : qctx) | QUnl (q : qctx) (acq : bool)
| PLoad | Park | BPark
| XFix (q : qctx) | XUnl (q : qctx)
| CS | UFand
| WMark | WUnl (w : option (wk * nat)) | WWake (h : nat)
| DFix | DUnl | DLoad
| WaitW.

Record mstate := mkS {
  locked : bool;                 (* LOCKED bit of the `state` word *)
  hasq : bool;                   (* HAS_QUEUED bit of the `state` word *)
  llock : option nat;            (* holder of the wait-list spinlock *)
  queue : list nat;              (* linked nodes (by owner), FIFO *)
  narm : nat -> option wk;       (* node.waiter *)
  nwk : nat -> bool;             (* node.state = WOKEN *)
  token : nat -> bool;           (* park token *)
  bwoken : nat -> bool;          (* block_on's `woken` flag *)
  prog : nat -> list op;
  pcs : nat -> pc;
  fut : nat -> option bool;      (* the thread owns a MutexFuture with an allocated node; Some blk *)
  holders : list nat;            (* GHOST: threads holding a MutexGuard *)
  results : list (nat * res)     (* GHOST: API results in completion order *)
}.

Definition upd {A} (f : nat -> A) (t : nat) (v : A) : nat -> A :=
  fun u => if Nat.eqb u t then v else f u.

Definition set_locked s v := mkS v (hasq s) (llock s) (queue s) (narm s) (nwk s) (token s) (bwoken s) (prog s) (pcs s) (fut s) (holders s) (results s).
Definition set_hasq s v := mkS (locked s) v (llock s) (queue s) (narm s) (nwk s) (token s) (bwoken s) (prog s) (pcs s) (fut s) (holders s) (results s).
Definition set_llock s v := mkS (locked s) (hasq s) v (queue s) (narm s) (nwk s) (token s) (bwoken s) (prog s) (pcs s) (fut s) (holders s) (results s).
Definition set_queue s v := mkS (locked s) (hasq s) (llock s) v (narm s) (nwk s) (token s) (bwoken s) (prog s) (pcs s) (fut s) (holders s) (results s).
Definition set_narm s t v := mkS (locked s) (hasq s) (llock s) (queue s) (upd (narm s) t v) (nwk s) (token s) (bwoken s) (prog s) (pcs s) (fut s) (holders s) (results s).
Definition set_nwk s t v := mkS (locked s) (hasq s) (llock s) (queue s) (narm s) (upd (nwk s) t v) (token s) (bwoken s) (prog s) (pcs s) (fut s) (holders s) (results s).
Definition set_token s t v := mkS (locked s) (hasq s) (llock s) (queue s) (narm s) (nwk s) (upd (token s) t v) (bwoken s) (prog s) (pcs s) (fut s) (holders s) (results s).
Definition set_bwoken s t v := mkS (locked s) (hasq s) (llock s) (queue s) (narm s) (nwk s) (token s) (upd (bwoken s) t v) (prog s) (pcs s) (fut s) (holders s) (results s).
Definition set_prog s t v := mkS (locked s) (hasq s) (llock s) (queue s) (narm s) (nwk s) (token s) (bwoken s) (upd (prog s) t v) (pcs s) (fut s) (holders s) (results s).
Definition set_pc s t v := mkS (locked s) (hasq s) (llock s) (queue s) (narm s) (nwk s) (token s) (bwoken s) (prog s) (upd (pcs s) t v) (fut s) (holders s) (results s).
Definition set_fut s t v := mkS (locked s) (hasq s) (llock s) (queue s) (narm s) (nwk s) (token s) (bwoken s) (prog s) (pcs s) (upd (fut s) t v) (holders s) (results s).
Definition set_holders s v := mkS (locked s) (hasq s) (llock s) (queue s) (narm s) (nwk s) (token s) (bwoken s) (prog s) (pcs s) (fut s) v (results s).
Definition log s t r := mkS (locked s) (hasq s) (llock s) (queue s) (narm s) (nwk s) (token s) (bwoken s) (prog s) (pcs s) (fut s) (holders s) (results s ++ [(t, r)]).

Definition mem (t : nat) (l : list nat) : bool := existsb (Nat.eqb t) l.
Definition rem (t : nat) (l : list nat) : list nat := filter (fun u => negb (Nat.eqb u t)) l.

(* the state word: LOCKED = 1, HAS_QUEUED = 2 *)
Definition enc (l q : bool) : N := ((if l then 1 else 0) + (if q then 2 else 0))%N.
Definition word s : N := enc (locked s) (hasq s).
Definition b2n (b : bool) : N := if b then 1%N else 0%N.

(* ---- Ordering literals of the source, one definition per source site (the D3 table in
   `skeleton` below is built from the same constants the mstep function uses) *)
Definition o_ta_load := Rlx.        Definition o_ta_cas := Acq.      Definition o_ta_casf := Rlx.
Definition o_ll_swap := Acq.        Definition o_ll_load := Rlx.     Definition o_ll_unlock := Rel.
Definition o_rearm := Rlx.          Definition o_q_for := Rlx.       Definition o_q_load := Rlx.
Definition o_q_cas := Acq.          Definition o_q_casf := Rlx.      Definition o_fix := Rlx.
Definition o_node_load := Acq.      Definition o_unlock := Rel.      Definition o_mark := Rel.

Definition kind_of (q : qctx) : wk :=
  match q with QSync _ => WThread | QFut true => WBlock | QFut false => WCount end.

(* result logged when the guard is obtained *)
Definition res_of_actx (a : actx) : res :=
  match a with
  | ALock | ASpin _ => RL | ATry => RT true
  | AFirst true | APoll true => RA | AFirst false | APoll false => RP true
  end.
Definition res_of_qctx (q : qctx) : res :=
  match q with QSync _ => RL | QFut true => RA | QFut false => RP true end.

Definition ret s t p e : option (mstate * mev) := Some (set_pc s t p, e).

(* fix_flags: one RMW, chosen by list emptiness *)
Definition fix_flags s : mstate * mev :=
  match queue s with
  | [] => (set_hasq s false, EvFand VState o_fix 2 (word s))
  | _ => (set_hasq s true, EvFor VState o_fix 2 (word s))
  end.

(* first mev of try_acquire *)
Definition do_taload s t (a : actx) : option (mstate * mev) :=
  let e := EvLoad VState o_ta_load (word s) in
  if locked s then
    match a with
    | ALock => ret s t (TALoad (ASpin false)) e
    | ASpin l => ret s t (Yield l) e
    | ATry => ret (log s t (RT false)) t Idle e
    | AFirst b => ret s t (TALoad (APoll b)) e
    | APoll b => ret s t (PollNext b) e
    end
  else ret s t (TACas a (hasq s)) e.

(* WaitList::lock: first mev (swap) *)
Definition after_llock s t (l : lctx) : mstate :=
  match l with
  | LQ q => set_pc s t (QRearm q)
  | LX q =>
      let wl := mem t (queue s) in
      let s1 := set_queue s (rem t (queue s)) in
      match q with
      | QSync _ => set_pc s1 t (XFix q)
      | QFut _ => set_pc s1 t (if wl then XFix q else XUnl q)
      end
  | LDrop =>
      let wl := mem t (queue s) in
      set_pc (set_queue s (rem t (queue s))) t (if wl then DFix else DUnl)
  | LWake => set_pc s t WMark
  end.

Definition do_llswap s t (l : lctx) : option (mstate * mev) :=
  let s := match l with LQ (QFut b) => set_fut s t (Some b) | _ => s end in
  match llock s with
  | None => Some (after_llock (set_llock s (Some t)) t l, EvSwap VLocked o_ll_swap 1 0)
  | Some _ => ret s t (LLLoad l) (EvSwap VLocked o_ll_swap 1 1)
  end.

(* OWait: one `unpark(self)` yield point of the harness' wait-until-woken loop *)
Definition do_wait s t (c : mch) : option (mstate * mev) :=
  let s1 := set_token s t true in
  match c with
  | ChAgain => ret s1 t WaitW (EvUnpark t)
  | ChGo => ret s1 t Idle (EvUnpark t)
  end.

(* start of the next API call (ops without events are skipped) *)
Fixpoint dispatch s t (c : mch) (p : list op) : option (mstate * mev) :=
  match p with
  | [] => match fut s t with Some _ => do_llswap (set_prog s t []) t LDrop | None => None end
  | OLock :: r =>
      match fut s t with
      | Some _ => do_llswap (set_prog s t p) t LDrop
      | None => do_taload (set_prog s t r) t ALock
      end
  | OAsync :: r =>
      match fut s t with
      | Some _ => do_llswap (set_prog s t p) t LDrop
      | None => do_taload (set_prog s t r) t (AFirst true)
      end
  | OTry :: r => do_taload (set_prog s t r) t ATry
  | OPoll :: r =>
      match fut s t with
      | Some _ => do_taload (set_prog s t r) t (APoll false)
      | None => do_taload (set_prog s t r) t (AFirst false)
      end
  | ODropFut :: r =>
      match fut s t with
      | Some _ => do_llswap (set_prog s t r) t LDrop
      | None => dispatch s t c r
      end
  | OWait :: r =>
      match fut s t with
      | Some _ => do_wait (set_prog s t r) t c
      | None => dispatch s t c r
      end
  end.

(* block_on after Pending / after a park return: consume the `woken` flag or park *)
Definition block_next s t : mstate :=
  if bwoken s t then set_pc (set_bwoken s t false) t (TALoad (APoll true)) else set_pc s t BPark.

Definition mstep (s : mstate) (t : nat) (c : mch) : option (mstate * mev) :=
  match pcs s t with
  | Idle => dispatch s t c (prog s t)
  | WaitW => do_wait s t c
  | TALoad a => do_taload s t a
  | TACas a sq =>
      let ok := andb (negb (locked s)) (Bool.eqb (hasq s) sq) in
      let e := EvCas VState o_ta_cas o_ta_casf (enc false sq) (enc true sq) (word s) ok in
      if ok then
        let s1 := log (set_holders (set_locked s true) (t :: holders s)) t (res_of_actx a) in
        match a with
        | ASpin true => ret s1 t (LLSwap (LX (QSync true))) e
        | APoll b => match fut s t with
                     | Some _ => ret s1 t (LLSwap (LX (QFut b))) e
                     | None => ret s1 t CS e
                     end
        | _ => ret s1 t CS e
        end
      else
        match a with
        | ALock => ret s t (TALoad (ASpin false)) e
        | ASpin l => ret s t (Yield l) e
        | ATry => ret (log s t (RT false)) t Idle e
        | AFirst b => ret s t (TALoad (APoll b)) e
        | APoll b => ret s t (PollNext b) e
        end
  | Yield l => ret s t (SpinNext l) EvYield
  | SpinNext l =>
      match c with
      | ChAgain => do_taload s t (ASpin l)
      | ChGo => do_llswap s t (LQ (QSync l))
      end
  | PollNext b =>
      match c with
      | ChAgain => do_taload s t (APoll b)
      | ChGo => do_llswap s t (LQ (QFut b))
      end
  | LLSwap l => do_llswap s t l
  | LLLoad l =>
      match llock s with
      | Some _ => ret s t (LLSpin l) (EvLoad VLocked o_ll_load 1)
      | None => ret s t (LLSwap l) (EvLoad VLocked o_ll_load 0)
      end
  | LLSpin l => ret s t (LLLoad l) EvSpin
  | QRearm q =>
      let s1 := set_nwk (set_narm s t (Some (kind_of q))) t false in
      let is_linked := match q with QSync l => l | QFut _ => mem t (queue s) end in
      let s2 := if is_linked then s1 else set_queue s1 (queue s1 ++ [t]) in
      ret s2 t (QFor q) (EvStore (VNode t) o_rearm 0)
  | QFor q => ret (set_hasq s true) t (QLoad q) (EvFor VState o_q_for 2 (word s))
  | QLoad q =>
      let e := EvLoad VState o_q_load (word s) in
      if locked s then ret s t (QUnl q false) e else ret s t (QCas q (hasq s)) e
  | QCas q sq =>
      let ok := andb (negb (locked s)) (Bool.eqb (hasq s) sq) in
      let e := EvCas VState o_q_cas o_q_casf (enc false sq) (enc true sq) (word s) ok in
      if ok then
        let s1 := log (set_holders (set_locked s true) (t :: holders s)) t (res_of_qctx q) in
        ret (set_queue s1 (rem t (queue s1))) t (QFix q) e
      else ret s t (QLoad q) e
  | QFix q => let '(s1, e) := fix_flags s in ret s1 t (QUnl q true) e
  | QUnl q acq =>
      let e := EvStore VLocked o_ll_unlock 0 in
      let s1 := set_llock s None in
      if acq then
        match q with
        | QSync _ => ret s1 t CS e
        | QFut _ => ret (set_fut s1 t None) t CS e
        end
      else
        match q with
        | QSync _ => ret s1 t PLoad e
        | QFut false => ret (log s1 t (RP false)) t Idle e
        | QFut true => Some (block_next s1 t, e)
        end
  | PLoad =>
      let e := EvLoad (VNode t) o_node_load (b2n (nwk s t)) in
      if nwk s t then ret s t (TALoad (ASpin true)) e else ret s t Park e
  | Park => if token s t then ret (set_token s t false) t PLoad EvPark else None
  | BPark => if token s t then Some (block_next (set_token s t false) t, EvPark) else None
  | XFix q => let '(s1, e) := fix_flags s in ret s1 t (XUnl q) e
  | XUnl q =>
      let e := EvStore VLocked o_ll_unlock 0 in
      let s1 := set_llock s None in
      match q with
      | QSync _ => ret s1 t CS e
      | QFut _ => ret (set_fut s1 t None) t CS e
      end
  | CS =>
      let s1 := set_token s t true in
      match c with
      | ChAgain => ret s1 t CS (EvUnpark t)
      | ChGo => ret s1 t UFand (EvUnpark t)
      end
  | UFand =>
      let e := EvFand VState o_unlock 1 (word s) in
      let s1 := set_holders (set_locked s false) (rem t (holders s)) in
      if hasq s then ret s1 t (LLSwap LWake) e else ret s1 t Idle e
  | WMark =>
      match queue s with
      | [] => let '(s1, e) := fix_flags s in ret s1 t (WUnl None) e
      | h :: _ =>
          let w := match narm s h with Some k => Some (k, h) | None => None end in
          ret (set_nwk (set_narm s h None) h true) t (WUnl w) (EvStore (VNode h) o_mark 1)
      end
  | WUnl w =>
      let e := EvStore VLocked o_ll_unlock 0 in
      let s1 := set_llock s None in
      match w with
      | None => ret s1 t Idle e
      | Some (WCount, _) => ret s1 t Idle e
      | Some (WThread, h) => ret s1 t (WWake h) e
      | Some (WBlock, h) => ret (set_bwoken s1 h true) t (WWake h) e
      end
  | WWake h => ret (set_token s h true) t Idle (EvUnpark h)
  | DFix => let '(s1, e) := fix_flags s in ret s1 t DUnl e
  | DUnl => ret (set_llock s None) t DLoad (EvStore VLocked o_ll_unlock 0)
  | DLoad =>
      let e := EvLoad (VNode t) o_node_load (b2n (nwk s t)) in
      let s1 := set_fut s t None in
      if nwk s t then ret s1 t (LLSwap LWake) e else ret s1 t Idle e
  end.

Definition minit (progs : nat -> list op) : mstate :=
  mkS false false None [] (fun _ => None) (fun _ => false) (fun _ => false) (fun _ => false)
      progs (fun _ => Idle) (fun _ => None) [] [].

Definition sys (progs : nat -> list op) : system :=
  mkSystem mstate nat mch mev (minit progs) mstep.

(* ---- mev equality for the D2 replay *)
Definition ord_eqb (a b : ord) : bool :=
  match a, b with
  | Rlx, Rlx | Acq, Acq | Rel, Rel | AcqRel, AcqRel | SeqCst, SeqCst => true
  | _, _ => false
  end.
Definition var_eqb (a b : var) : bool :=
  match a, b with
  | VState, VState | VLocked, VLocked => true
  | VNode x, VNode y => Nat.eqb x y
  | _, _ => false
  end.
Definition mev_eqb (a b : mev) : bool :=
  match a, b with
  | EvLoad v o r, EvLoad v' o' r' => var_eqb v v' && ord_eqb o o' && N.eqb r r'
  | EvStore v o x, EvStore v' o' x' => var_eqb v v' && ord_eqb o o' && N.eqb x x'
  | EvSwap v o x r, EvSwap v' o' x' r' => var_eqb v v' && ord_eqb o o' && N.eqb x x' && N.eqb r r'
  | EvCas v o f x y r k, EvCas v' o' f' x' y' r' k' =>
      var_eqb v v' && ord_eqb o o' && ord_eqb f f' && N.eqb x x' && N.eqb y y' && N.eqb r r' && Bool.eqb k k'
  | EvCasW v o f x y r k, EvCasW v' o' f' x' y' r' k' =>
      var_eqb v v' && ord_eqb o o' && ord_eqb f f' && N.eqb x x' && N.eqb y y' && N.eqb r r' && Bool.eqb k k'
  | EvFsub v o x r, EvFsub v' o' x' r' => var_eqb v v' && ord_eqb o o' && N.eqb x x' && N.eqb r r'
  | EvFor v o x r, EvFor v' o' x' r' => var_eqb v v' && ord_eqb o o' && N.eqb x x' && N.eqb r r'
  | EvFand v o x r, EvFand v' o' x' r' => var_eqb v v' && ord_eqb o o' && N.eqb x x' && N.eqb r r'
  | EvPark, EvPark | EvYield, EvYield | EvSpin, EvSpin => true
  | EvUnpark x, EvUnpark y => Nat.eqb x y
  | _, _ => false
  end.

Definition replay_trace (progs : nat -> list op) (tr : list (nat * mch * mev)) : option mstate + nat :=
  replay (sys progs) mev_eqb (minit progs) tr.

(* the same strict replay from an arbitrary state (the driver checks long traces chunk by chunk) *)
Definition replay_from (progs : nat -> list op) (s : mstate) (tr : list (nat * mch * mev)) : option mstate + nat :=
  replay (sys progs) mev_eqb s tr.

(* what the model would emit (for the driver's diagnostics) *)
Definition peek (s : mstate) (t : nat) (c : mch) : option mev :=
  match mstep s t c with Some (_, e) => Some e | None => None end.

(* ---- D3: the source skeleton the model stands for: per Rust function, the ordered facade
   operations (variable, operation, orderings), built from the constants used by `mstep` *)
Inductive fn := FnTryAcquire | FnLock | FnLockSlow | FnLockAsync | FnTryLock | FnUnlock | FnFixFlags | FnWakeNext
              | FnGuardDrop | FnFutPoll | FnFutFinish | FnFutDrop | FnListLock | FnListUnlock | FnRearm
              | FnMarkWoken | FnWake.
Inductive sop := SLoad | SStore | SSwap | SCas | SCasWeak | SFor | SFand | SFadd | SFsub
               | SPark | SUnpark | SYield | SSpin | SCall (f : fn).
Inductive svar := SvState | SvLocked | SvNode | SvNone.

Definition call (f : fn) : svar * sop * option ord * option ord := (SvNone, SCall f, None, None).

Definition skeleton : list (fn * list (svar * sop * option ord * option ord)) :=
  [ (FnTryAcquire, [ (SvState, SLoad, Some o_ta_load, None); (SvState, SCas, Some o_ta_cas, Some o_ta_casf) ]);
    (FnLock, [ call FnTryAcquire; call FnLockSlow ]);
    (FnLockSlow, [ call FnTryAcquire; call FnListLock; call FnFixFlags; (SvNone, SYield, None, None);
                   call FnListLock; call FnRearm;
                   (SvState, SFor, Some o_q_for, None); (SvState, SLoad, Some o_q_load, None);
                   (SvState, SCas, Some o_q_cas, Some o_q_casf); call FnFixFlags;
                   (SvNode, SLoad, Some o_node_load, None); (SvNone, SPark, None, None) ]);
    (FnLockAsync, [ call FnTryAcquire ]);
    (FnTryLock, [ call FnTryAcquire ]);
    (FnUnlock, [ (SvState, SFand, Some o_unlock, None); call FnWakeNext ]);
    (FnFixFlags, [ (SvState, SFand, Some o_fix, None); (SvState, SFor, Some o_fix, None) ]);
    (FnWakeNext, [ call FnListLock; call FnFixFlags; call FnMarkWoken; call FnWake ]);
    (FnGuardDrop, [ call FnUnlock ]);
    (FnFutPoll, [ call FnTryAcquire; call FnFutFinish; call FnListLock; call FnRearm;
                  (SvState, SFor, Some o_q_for, None); (SvState, SLoad, Some o_q_load, None);
                  (SvState, SCas, Some o_q_cas, Some o_q_casf); call FnFixFlags ]);
    (FnFutFinish, [ call FnListLock; call FnFixFlags ]);
    (FnFutDrop, [ call FnListLock; call FnFixFlags; (SvNode, SLoad, Some o_node_load, None); call FnWakeNext ]);
    (FnListLock, [ (SvLocked, SSwap, Some o_ll_swap, None); (SvLocked, SLoad, Some o_ll_load, None);
                   (SvNone, SSpin, None, None) ]);
    (FnListUnlock, [ (SvLocked, SStore, Some o_ll_unlock, None) ]);
    (FnRearm, [ (SvNode, SStore, Some o_rearm, None) ]);
    (FnMarkWoken, [ (SvNode, SStore, Some o_mark, None) ]);
    (FnWake, [ (SvNone, SUnpark, None, None) ]) ].
