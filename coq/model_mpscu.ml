
(** val negb : bool -> bool **)

let negb = function
| true -> false
| false -> true

type nat =
| O
| S of nat

(** val snd : ('a1 * 'a2) -> 'a2 **)

let snd = function
| (_, y) -> y

(** val length : 'a1 list -> nat **)

let rec length = function
| [] -> O
| _ :: l' -> S (length l')

(** val app : 'a1 list -> 'a1 list -> 'a1 list **)

let rec app l m =
  match l with
  | [] -> m
  | a :: l1 -> a :: (app l1 m)

module Coq__1 = struct
 (** val add : nat -> nat -> nat **)
 let rec add n0 m =
   match n0 with
   | O -> m
   | S p -> S (add p m)
end
include Coq__1

(** val existsb : ('a1 -> bool) -> 'a1 list -> bool **)

let rec existsb f = function
| [] -> false
| a :: l0 -> (||) (f a) (existsb f l0)

(** val forallb : ('a1 -> bool) -> 'a1 list -> bool **)

let rec forallb f = function
| [] -> true
| a :: l0 -> (&&) (f a) (forallb f l0)

type positive =
| XI of positive
| XO of positive
| XH

type n =
| N0
| Npos of positive

module Pos =
 struct
  type mask =
  | IsNul
  | IsPos of positive
  | IsNeg
 end

module Coq_Pos =
 struct
  (** val succ : positive -> positive **)

  let rec succ = function
  | XI p -> XO (succ p)
  | XO p -> XI p
  | XH -> XO XH

  (** val add : positive -> positive -> positive **)

  let rec add x y =
    match x with
    | XI p ->
      (match y with
       | XI q0 -> XO (add_carry p q0)
       | XO q0 -> XI (add p q0)
       | XH -> XO (succ p))
    | XO p ->
      (match y with
       | XI q0 -> XI (add p q0)
       | XO q0 -> XO (add p q0)
       | XH -> XI p)
    | XH -> (match y with
             | XI q0 -> XO (succ q0)
             | XO q0 -> XI q0
             | XH -> XO XH)

  (** val add_carry : positive -> positive -> positive **)

  and add_carry x y =
    match x with
    | XI p ->
      (match y with
       | XI q0 -> XI (add_carry p q0)
       | XO q0 -> XO (add_carry p q0)
       | XH -> XI (succ p))
    | XO p ->
      (match y with
       | XI q0 -> XO (add_carry p q0)
       | XO q0 -> XI (add p q0)
       | XH -> XO (succ p))
    | XH ->
      (match y with
       | XI q0 -> XI (succ q0)
       | XO q0 -> XO (succ q0)
       | XH -> XI XH)

  (** val pred_double : positive -> positive **)

  let rec pred_double = function
  | XI p -> XI (XO p)
  | XO p -> XI (pred_double p)
  | XH -> XH

  type mask = Pos.mask =
  | IsNul
  | IsPos of positive
  | IsNeg

  (** val succ_double_mask : mask -> mask **)

  let succ_double_mask = function
  | IsNul -> IsPos XH
  | IsPos p -> IsPos (XI p)
  | IsNeg -> IsNeg

  (** val double_mask : mask -> mask **)

  let double_mask = function
  | IsPos p -> IsPos (XO p)
  | x0 -> x0

  (** val double_pred_mask : positive -> mask **)

  let double_pred_mask = function
  | XI p -> IsPos (XO (XO p))
  | XO p -> IsPos (XO (pred_double p))
  | XH -> IsNul

  (** val sub_mask : positive -> positive -> mask **)

  let rec sub_mask x y =
    match x with
    | XI p ->
      (match y with
       | XI q0 -> double_mask (sub_mask p q0)
       | XO q0 -> succ_double_mask (sub_mask p q0)
       | XH -> IsPos (XO p))
    | XO p ->
      (match y with
       | XI q0 -> succ_double_mask (sub_mask_carry p q0)
       | XO q0 -> double_mask (sub_mask p q0)
       | XH -> IsPos (pred_double p))
    | XH -> (match y with
             | XH -> IsNul
             | _ -> IsNeg)

  (** val sub_mask_carry : positive -> positive -> mask **)

  and sub_mask_carry x y =
    match x with
    | XI p ->
      (match y with
       | XI q0 -> succ_double_mask (sub_mask_carry p q0)
       | XO q0 -> double_mask (sub_mask p q0)
       | XH -> IsPos (pred_double p))
    | XO p ->
      (match y with
       | XI q0 -> double_mask (sub_mask_carry p q0)
       | XO q0 -> succ_double_mask (sub_mask_carry p q0)
       | XH -> double_pred_mask p)
    | XH -> IsNeg

  (** val eqb : positive -> positive -> bool **)

  let rec eqb p q0 =
    match p with
    | XI p0 -> (match q0 with
                | XI q1 -> eqb p0 q1
                | _ -> false)
    | XO p0 -> (match q0 with
                | XO q1 -> eqb p0 q1
                | _ -> false)
    | XH -> (match q0 with
             | XH -> true
             | _ -> false)

  (** val iter_op : ('a1 -> 'a1 -> 'a1) -> positive -> 'a1 -> 'a1 **)

  let rec iter_op op0 p a =
    match p with
    | XI p0 -> op0 a (iter_op op0 p0 (op0 a a))
    | XO p0 -> iter_op op0 p0 (op0 a a)
    | XH -> a

  (** val to_nat : positive -> nat **)

  let to_nat x =
    iter_op Coq__1.add x (S O)

  (** val of_succ_nat : nat -> positive **)

  let rec of_succ_nat = function
  | O -> XH
  | S x -> succ (of_succ_nat x)
 end

module N =
 struct
  (** val add : n -> n -> n **)

  let add n0 m =
    match n0 with
    | N0 -> m
    | Npos p -> (match m with
                 | N0 -> n0
                 | Npos q0 -> Npos (Coq_Pos.add p q0))

  (** val sub : n -> n -> n **)

  let sub n0 m =
    match n0 with
    | N0 -> N0
    | Npos n' ->
      (match m with
       | N0 -> n0
       | Npos m' ->
         (match Coq_Pos.sub_mask n' m' with
          | Coq_Pos.IsPos p -> Npos p
          | _ -> N0))

  (** val eqb : n -> n -> bool **)

  let eqb n0 m =
    match n0 with
    | N0 -> (match m with
             | N0 -> true
             | Npos _ -> false)
    | Npos p -> (match m with
                 | N0 -> false
                 | Npos q0 -> Coq_Pos.eqb p q0)

  (** val to_nat : n -> nat **)

  let to_nat = function
  | N0 -> O
  | Npos p -> Coq_Pos.to_nat p

  (** val of_nat : nat -> n **)

  let of_nat = function
  | O -> N0
  | S n' -> Npos (Coq_Pos.of_succ_nat n')
 end

(** val mem : n -> n list -> bool **)

let mem k l =
  existsb (N.eqb k) l

(** val len : 'a1 list -> n **)

let len l =
  N.of_nat (length l)

(** val aget : n -> (n * 'a1) list -> 'a1 option **)

let rec aget k = function
| [] -> None
| p :: t -> let (k', v) = p in if N.eqb k k' then Some v else aget k t

(** val adel : n -> (n * 'a1) list -> (n * 'a1) list **)

let rec adel k = function
| [] -> []
| p :: t ->
  let (k', v) = p in if N.eqb k k' then adel k t else (k', v) :: (adel k t)

(** val aset : n -> 'a1 -> (n * 'a1) list -> (n * 'a1) list **)

let aset k v l =
  (k, v) :: (adel k l)

(** val is_nil : 'a1 list -> bool **)

let is_nil = function
| [] -> true
| _ :: _ -> false

(** val nodupb : n list -> bool **)

let rec nodupb = function
| [] -> true
| x :: t -> (&&) (negb (mem x t)) (nodupb t)

type owner =
| OF of n
| OH of n

type hrec = { htx : bool; hasync : bool; hclosed : bool; hreg : bool;
              hpend : (n * n) option }

type fkind =
| FSend of n option
| FRecv of bool
| FSendB of n list * n * n
| FRecvB of n * bool

type frec = { fh : n; fk : fkind; fpend : (n * n) option }

type st = { q : n list; scount : n; rdrop : bool; rw : (owner * n) option;
            hs : (n * hrec) list; fs : (n * frec) list; wk : (n -> n);
            used : n list; acc : n list; rcv : n list; back : n list;
            drp : n list; qdrp : n list; multi : bool; evw : n list;
            evd : n list; fixcl : bool }

(** val set_q : st -> n list -> st **)

let set_q s x =
  { q = x; scount = s.scount; rdrop = s.rdrop; rw = s.rw; hs = s.hs; fs =
    s.fs; wk = s.wk; used = s.used; acc = s.acc; rcv = s.rcv; back = s.back;
    drp = s.drp; qdrp = s.qdrp; multi = s.multi; evw = s.evw; evd = s.evd;
    fixcl = s.fixcl }

(** val set_scount : st -> n -> st **)

let set_scount s x =
  { q = s.q; scount = x; rdrop = s.rdrop; rw = s.rw; hs = s.hs; fs = s.fs;
    wk = s.wk; used = s.used; acc = s.acc; rcv = s.rcv; back = s.back; drp =
    s.drp; qdrp = s.qdrp; multi = s.multi; evw = s.evw; evd = s.evd; fixcl =
    s.fixcl }

(** val set_rdrop : st -> bool -> st **)

let set_rdrop s x =
  { q = s.q; scount = s.scount; rdrop = x; rw = s.rw; hs = s.hs; fs = s.fs;
    wk = s.wk; used = s.used; acc = s.acc; rcv = s.rcv; back = s.back; drp =
    s.drp; qdrp = s.qdrp; multi = s.multi; evw = s.evw; evd = s.evd; fixcl =
    s.fixcl }

(** val set_rw : st -> (owner * n) option -> st **)

let set_rw s x =
  { q = s.q; scount = s.scount; rdrop = s.rdrop; rw = x; hs = s.hs; fs =
    s.fs; wk = s.wk; used = s.used; acc = s.acc; rcv = s.rcv; back = s.back;
    drp = s.drp; qdrp = s.qdrp; multi = s.multi; evw = s.evw; evd = s.evd;
    fixcl = s.fixcl }

(** val set_hs : st -> (n * hrec) list -> st **)

let set_hs s x =
  { q = s.q; scount = s.scount; rdrop = s.rdrop; rw = s.rw; hs = x; fs =
    s.fs; wk = s.wk; used = s.used; acc = s.acc; rcv = s.rcv; back = s.back;
    drp = s.drp; qdrp = s.qdrp; multi = s.multi; evw = s.evw; evd = s.evd;
    fixcl = s.fixcl }

(** val set_fs : st -> (n * frec) list -> st **)

let set_fs s x =
  { q = s.q; scount = s.scount; rdrop = s.rdrop; rw = s.rw; hs = s.hs; fs =
    x; wk = s.wk; used = s.used; acc = s.acc; rcv = s.rcv; back = s.back;
    drp = s.drp; qdrp = s.qdrp; multi = s.multi; evw = s.evw; evd = s.evd;
    fixcl = s.fixcl }

(** val set_wk : st -> (n -> n) -> st **)

let set_wk s x =
  { q = s.q; scount = s.scount; rdrop = s.rdrop; rw = s.rw; hs = s.hs; fs =
    s.fs; wk = x; used = s.used; acc = s.acc; rcv = s.rcv; back = s.back;
    drp = s.drp; qdrp = s.qdrp; multi = s.multi; evw = s.evw; evd = s.evd;
    fixcl = s.fixcl }

(** val set_used : st -> n list -> st **)

let set_used s x =
  { q = s.q; scount = s.scount; rdrop = s.rdrop; rw = s.rw; hs = s.hs; fs =
    s.fs; wk = s.wk; used = x; acc = s.acc; rcv = s.rcv; back = s.back; drp =
    s.drp; qdrp = s.qdrp; multi = s.multi; evw = s.evw; evd = s.evd; fixcl =
    s.fixcl }

(** val set_acc : st -> n list -> st **)

let set_acc s x =
  { q = s.q; scount = s.scount; rdrop = s.rdrop; rw = s.rw; hs = s.hs; fs =
    s.fs; wk = s.wk; used = s.used; acc = x; rcv = s.rcv; back = s.back;
    drp = s.drp; qdrp = s.qdrp; multi = s.multi; evw = s.evw; evd = s.evd;
    fixcl = s.fixcl }

(** val set_rcv : st -> n list -> st **)

let set_rcv s x =
  { q = s.q; scount = s.scount; rdrop = s.rdrop; rw = s.rw; hs = s.hs; fs =
    s.fs; wk = s.wk; used = s.used; acc = s.acc; rcv = x; back = s.back;
    drp = s.drp; qdrp = s.qdrp; multi = s.multi; evw = s.evw; evd = s.evd;
    fixcl = s.fixcl }

(** val set_back : st -> n list -> st **)

let set_back s x =
  { q = s.q; scount = s.scount; rdrop = s.rdrop; rw = s.rw; hs = s.hs; fs =
    s.fs; wk = s.wk; used = s.used; acc = s.acc; rcv = s.rcv; back = x; drp =
    s.drp; qdrp = s.qdrp; multi = s.multi; evw = s.evw; evd = s.evd; fixcl =
    s.fixcl }

(** val set_drp : st -> n list -> st **)

let set_drp s x =
  { q = s.q; scount = s.scount; rdrop = s.rdrop; rw = s.rw; hs = s.hs; fs =
    s.fs; wk = s.wk; used = s.used; acc = s.acc; rcv = s.rcv; back = s.back;
    drp = x; qdrp = s.qdrp; multi = s.multi; evw = s.evw; evd = s.evd;
    fixcl = s.fixcl }

(** val set_qdrp : st -> n list -> st **)

let set_qdrp s x =
  { q = s.q; scount = s.scount; rdrop = s.rdrop; rw = s.rw; hs = s.hs; fs =
    s.fs; wk = s.wk; used = s.used; acc = s.acc; rcv = s.rcv; back = s.back;
    drp = s.drp; qdrp = x; multi = s.multi; evw = s.evw; evd = s.evd; fixcl =
    s.fixcl }

(** val set_multi : st -> bool -> st **)

let set_multi s x =
  { q = s.q; scount = s.scount; rdrop = s.rdrop; rw = s.rw; hs = s.hs; fs =
    s.fs; wk = s.wk; used = s.used; acc = s.acc; rcv = s.rcv; back = s.back;
    drp = s.drp; qdrp = s.qdrp; multi = x; evw = s.evw; evd = s.evd; fixcl =
    s.fixcl }

(** val set_evw : st -> n list -> st **)

let set_evw s x =
  { q = s.q; scount = s.scount; rdrop = s.rdrop; rw = s.rw; hs = s.hs; fs =
    s.fs; wk = s.wk; used = s.used; acc = s.acc; rcv = s.rcv; back = s.back;
    drp = s.drp; qdrp = s.qdrp; multi = s.multi; evw = x; evd = s.evd;
    fixcl = s.fixcl }

(** val set_evd : st -> n list -> st **)

let set_evd s x =
  { q = s.q; scount = s.scount; rdrop = s.rdrop; rw = s.rw; hs = s.hs; fs =
    s.fs; wk = s.wk; used = s.used; acc = s.acc; rcv = s.rcv; back = s.back;
    drp = s.drp; qdrp = s.qdrp; multi = s.multi; evw = s.evw; evd = x;
    fixcl = s.fixcl }

(** val init : bool -> bool -> st **)

let init async fcl =
  { q = []; scount = (Npos XH); rdrop = false; rw = None; hs = ((N0, { htx =
    true; hasync = async; hclosed = false; hreg = false; hpend =
    None }) :: (((Npos XH), { htx = false; hasync = async; hclosed = false;
    hreg = false; hpend = None }) :: [])); fs = []; wk = (fun _ -> N0);
    used = []; acc = []; rcv = []; back = []; drp = []; qdrp = []; multi =
    false; evw = []; evd = []; fixcl = fcl }

type op =
| TrySend of n * n
| Send of n * n
| TryRecv of n
| Recv of n
| RecvT0 of n
| Close of n
| DropH of n
| Clone of n * n
| ToSync of n
| ToAsync of n
| Len of n
| IsEmpty of n
| IsClosed of n
| SenderCount of n
| MkSend of n * n * n
| MkRecv of n * n
| Poll of n * n
| DropF of n
| PollNext of n * n
| SendB of n * n list * bool * bool
| TryRecvB of n * n
| RecvB of n * n
| MkSendB of n * n * n list
| MkRecvB of n * n * n

type res =
| ROk
| RClosedV of n
| RClosed
| RVal of n
| REmpty
| RDisc
| RTimeout
| RCloseErr
| RBad
| RBlock
| RPanic
| RNum of n
| RBool of bool
| RBatchOk of n
| RBatchErr of n * n list
| RMutOk of n * n list
| RMutClosed of n list
| RVals of n list
| RPending
| RReady of res

(** val fresh : n list -> st -> bool **)

let fresh vs s =
  (&&) (forallb (fun v -> negb (mem v s.used)) vs) (nodupb vs)

(** val use : n list -> st -> st **)

let use vs s =
  set_used s (app vs s.used)

(** val giveback : n list -> st -> st **)

let giveback vs s =
  set_back s (app s.back vs)

(** val dropv : n list -> st -> st **)

let dropv vs s =
  set_evd (set_drp s (app s.drp vs)) (app s.evd vs)

(** val wake : n -> st -> st **)

let wake w s =
  set_evw
    (set_wk s (fun x ->
      if N.eqb x w then N.add (s.wk x) (Npos XH) else s.wk x))
    (app s.evw (w :: []))

(** val notify_receiver : st -> st **)

let notify_receiver s =
  match s.rw with
  | Some p -> let (_, w) = p in wake w (set_rw s None)
  | None -> s

(** val pushl : n list -> st -> st **)

let pushl vs s =
  if is_nil vs
  then s
  else notify_receiver (set_acc (set_q s (app s.q vs)) (app s.acc vs))

(** val deq1 : st -> st * n option **)

let deq1 s =
  match s.q with
  | [] -> (s, None)
  | v :: r -> ((set_rcv (set_q s r) (app s.rcv (v :: []))), (Some v))

(** val deqn : nat -> st -> st * n list **)

let rec deqn n0 s =
  match n0 with
  | O -> (s, [])
  | S n' ->
    let (s1, o) = deq1 s in
    (match o with
     | Some v -> let (s2, vs) = deqn n' s1 in (s2, (v :: vs))
     | None -> (s1, []))

(** val tx_dead : st -> hrec -> bool **)

let tx_dead s r =
  (||) r.hclosed s.rdrop

(** val has_futs : n -> st -> bool **)

let has_futs h s =
  existsb (fun p -> N.eqb (snd p).fh h) s.fs

(** val with_closed : hrec -> hrec **)

let with_closed r =
  { htx = r.htx; hasync = r.hasync; hclosed = true; hreg = r.hreg; hpend =
    r.hpend }

(** val with_async : hrec -> bool -> hrec **)

let with_async r a =
  { htx = r.htx; hasync = a; hclosed = r.hclosed; hreg = false; hpend = None }

(** val with_reg : hrec -> bool -> (n * n) option -> hrec **)

let with_reg r g p =
  { htx = r.htx; hasync = r.hasync; hclosed = r.hclosed; hreg = g; hpend = p }

(** val put_h : n -> hrec -> st -> st **)

let put_h h r s =
  set_hs s (aset h r s.hs)

(** val put_f : n -> frec -> st -> st **)

let put_f f r s =
  set_fs s (aset f r s.fs)

(** val is_recv_kind : fkind -> bool **)

let is_recv_kind = function
| FSend _ -> false
| FSendB (_, _, _) -> false
| _ -> true

(** val kitems : fkind -> n list **)

let kitems = function
| FSend item -> (match item with
                 | Some v -> v :: []
                 | None -> [])
| FSendB (rest, _, _) -> rest
| _ -> []

(** val note_multi : n -> hrec -> st -> st **)

let note_multi _ r s =
  if (||) (existsb (fun p -> is_recv_kind (snd p).fk) s.fs) r.hreg
  then set_multi s true
  else s

(** val lookup_free : st -> n -> hrec option **)

let lookup_free s h =
  if has_futs h s then None else aget h s.hs

(** val do_try_send : st -> n -> n -> st * res **)

let do_try_send s h v =
  match lookup_free s h with
  | Some r ->
    if (&&) r.htx (fresh (v :: []) s)
    then let s0 = use (v :: []) s in
         if tx_dead s0 r
         then ((giveback (v :: []) s0), (RClosedV v))
         else ((pushl (v :: []) s0), ROk)
    else (s, RBad)
  | None -> (s, RBad)

(** val do_send : st -> n -> n -> st * res **)

let do_send s h v =
  match lookup_free s h with
  | Some r ->
    if (&&) ((&&) r.htx (negb r.hasync)) (fresh (v :: []) s)
    then let s0 = use (v :: []) s in
         if tx_dead s0 r
         then ((dropv (v :: []) s0), RClosed)
         else ((pushl (v :: []) s0), ROk)
    else (s, RBad)
  | None -> (s, RBad)

(** val do_send_b : st -> n -> n list -> bool -> bool -> st * res **)

let do_send_b s h vs inplace synconly =
  match lookup_free s h with
  | Some r ->
    if (&&) ((&&) r.htx (negb ((&&) synconly r.hasync))) (fresh vs s)
    then if is_nil vs
         then (s, (if inplace then RMutOk (N0, []) else RBatchOk N0))
         else let s0 = use vs s in
              if tx_dead s0 r
              then ((giveback vs s0),
                     (if inplace then RMutClosed vs else RBatchErr (N0, vs)))
              else ((pushl vs s0),
                     (if inplace
                      then RMutOk ((len vs), [])
                      else RBatchOk (len vs)))
    else (s, RBad)
  | None -> (s, RBad)

(** val try_recv_core : st -> res -> st * res **)

let try_recv_core s onempty =
  let (s1, o) = deq1 s in
  (match o with
   | Some v -> (s1, (RVal v))
   | None -> if N.eqb s1.scount N0 then (s1, RDisc) else (s1, onempty))

(** val do_try_recv : st -> n -> st * res **)

let do_try_recv s h =
  match lookup_free s h with
  | Some r ->
    if r.htx
    then (s, RBad)
    else if r.hclosed then (s, RDisc) else try_recv_core s REmpty
  | None -> (s, RBad)

(** val do_recv : st -> n -> res -> st * res **)

let do_recv s h onempty =
  match lookup_free s h with
  | Some r ->
    if (||) r.htx r.hasync
    then (s, RBad)
    else if r.hclosed then (s, RDisc) else try_recv_core s onempty
  | None -> (s, RBad)

(** val recv_b_core : st -> n -> res -> st * res **)

let recv_b_core s max onempty =
  let (s1, vs) = deqn (N.to_nat max) s in
  if is_nil vs
  then if N.eqb s1.scount N0 then (s1, RDisc) else (s1, onempty)
  else (s1, (RVals vs))

(** val do_try_recv_b : st -> n -> n -> st * res **)

let do_try_recv_b s h max =
  match lookup_free s h with
  | Some r ->
    if r.htx
    then (s, RBad)
    else if N.eqb max N0
         then (s, (RVals []))
         else if r.hclosed then (s, RDisc) else recv_b_core s max REmpty
  | None -> (s, RBad)

(** val do_recv_b : st -> n -> n -> st * res **)

let do_recv_b s h max =
  match lookup_free s h with
  | Some r ->
    if (||) r.htx r.hasync
    then (s, RBad)
    else if N.eqb max N0
         then (s, (RVals []))
         else if r.hclosed then (s, RDisc) else recv_b_core s max RBlock
  | None -> (s, RBad)

(** val close_h : st -> n -> hrec -> st **)

let close_h s h r =
  let s1 = put_h h (with_closed r) s in
  if r.htx
  then let s2 = set_scount s1 (N.sub s1.scount (Npos XH)) in
       if N.eqb s1.scount (Npos XH) then notify_receiver s2 else s2
  else dropv s1.q (set_qdrp (set_q (set_rdrop s1 true) []) (app s1.q s1.qdrp))

(** val do_close : st -> n -> st * res **)

let do_close s h =
  match lookup_free s h with
  | Some r -> if r.hclosed then (s, RCloseErr) else ((close_h s h r), ROk)
  | None -> (s, RBad)

(** val destroy : st -> st **)

let destroy s =
  dropv s.q (set_qdrp (set_q s []) (app s.q s.qdrp))

(** val do_drop_h : st -> n -> st * res **)

let do_drop_h s h =
  match lookup_free s h with
  | Some r ->
    let s0 =
      if (&&) ((&&) (negb r.htx) r.hasync) r.hreg then set_rw s None else s
    in
    let s1 = if r.hclosed then s0 else close_h s0 h r in
    let s2 = set_hs s1 (adel h s1.hs) in
    ((if is_nil s2.hs then destroy s2 else s2), ROk)
  | None -> (s, RBad)

(** val do_clone : st -> n -> n -> st * res **)

let do_clone s h h2 =
  match lookup_free s h with
  | Some r ->
    (match aget h2 s.hs with
     | Some _ -> (s, RBad)
     | None ->
       if r.htx
       then if (&&) s.fixcl r.hclosed
            then ((put_h h2 { htx = true; hasync = r.hasync; hclosed = true;
                    hreg = false; hpend = None } s), ROk)
            else ((put_h h2 { htx = true; hasync = r.hasync; hclosed = false;
                    hreg = false; hpend = None }
                    (set_scount s (N.add s.scount (Npos XH)))), ROk)
       else (s, RBad))
  | None -> (s, RBad)

(** val do_to_async : st -> n -> st * res **)

let do_to_async s h =
  match lookup_free s h with
  | Some r ->
    if r.hasync then (s, RBad) else ((put_h h (with_async r true) s), ROk)
  | None -> (s, RBad)

(** val do_to_sync : st -> n -> st * res **)

let do_to_sync s h =
  match lookup_free s h with
  | Some r ->
    if negb r.hasync
    then (s, RBad)
    else let s0 = if (&&) (negb r.htx) r.hreg then set_rw s None else s in
         ((put_h h (with_async r false) s0), ROk)
  | None -> (s, RBad)

(** val obs : st -> n -> (hrec -> res) -> st * res **)

let obs s h f =
  match lookup_free s h with
  | Some r -> (s, (f r))
  | None -> (s, RBad)

(** val is_closed_h : st -> hrec -> bool **)

let is_closed_h s r =
  if r.htx
  then (||) r.hclosed s.rdrop
  else (&&) (N.eqb s.scount N0) (is_nil s.q)

(** val do_mk_send : st -> n -> n -> n list -> fkind -> st * res **)

let do_mk_send s f h vs k =
  match lookup_free s h with
  | Some r ->
    (match aget f s.fs with
     | Some _ -> (s, RBad)
     | None ->
       if (&&) ((&&) r.htx r.hasync) (fresh vs s)
       then ((put_f f { fh = h; fk = k; fpend = None } (use vs s)), ROk)
       else (s, RBad))
  | None -> (s, RBad)

(** val do_mk_recv : st -> n -> n -> fkind -> st * res **)

let do_mk_recv s f h k =
  match lookup_free s h with
  | Some r ->
    (match aget f s.fs with
     | Some _ -> (s, RBad)
     | None ->
       if (&&) (negb r.htx) r.hasync
       then ((put_f f { fh = h; fk = k; fpend = None } (note_multi h r s)),
              ROk)
       else (s, RBad))
  | None -> (s, RBad)

(** val poll_recv_core : st -> owner -> n -> bool -> (st * bool) * res **)

let poll_recv_core s o w reg =
  let (s1, o0) = deq1 s in
  (match o0 with
   | Some v ->
     (((if reg then set_rw s1 None else s1), false), (RReady (RVal v)))
   | None ->
     if N.eqb s1.scount N0
     then (((if reg then set_rw s1 None else s1), false), (RReady RDisc))
     else (((set_rw s1 (Some (o, w))), true), RPending))

(** val poll_recv_b_core :
    st -> owner -> n -> n -> bool -> (st * bool) * res **)

let poll_recv_b_core s o w max reg =
  if N.eqb max N0
  then ((s, reg), (RReady (RVals [])))
  else let (s1, vs) = deqn (N.to_nat max) s in
       if is_nil vs
       then if N.eqb s1.scount N0
            then (((if reg then set_rw s1 None else s1), false), (RReady
                   RDisc))
            else (((set_rw s1 (Some (o, w))), true), RPending)
       else (((if reg then set_rw s1 None else s1), false), (RReady (RVals
              vs)))

(** val pend_of : st -> n -> res -> (n * n) option **)

let pend_of s w = function
| RPending -> Some (w, (s.wk w))
| _ -> None

(** val do_poll : st -> n -> n -> st * res **)

let do_poll s f w =
  match aget f s.fs with
  | Some fr ->
    (match aget fr.fh s.hs with
     | Some r ->
       (match fr.fk with
        | FSend item ->
          if r.hclosed
          then (s, (RReady RClosed))
          else (match item with
                | Some v ->
                  if s.rdrop
                  then ((put_f f { fh = fr.fh; fk = (FSend None); fpend =
                          None } (dropv (v :: []) s)), (RReady RClosed))
                  else ((put_f f { fh = fr.fh; fk = (FSend None); fpend =
                          None } (pushl (v :: []) s)), (RReady ROk))
                | None -> (s, RPanic))
        | FRecv reg ->
          if r.hclosed
          then (s, (RReady RDisc))
          else let (p, res0) = poll_recv_core s (OF f) w reg in
               let (s1, reg') = p in
               ((put_f f { fh = fr.fh; fk = (FRecv reg'); fpend =
                  (pend_of s1 w res0) } s1), res0)
        | FSendB (rest, sent, total) ->
          if N.eqb sent (Npos XH)
          then (s, RPanic)
          else if is_nil rest
               then ((put_f f { fh = fr.fh; fk = (FSendB ([], (Npos XH),
                       total)); fpend = None } s), (RReady (RBatchOk N0)))
               else if tx_dead s r
                    then ((put_f f { fh = fr.fh; fk = (FSendB ([], (Npos XH),
                            total)); fpend = None } (giveback rest s)),
                           (RReady (RBatchErr (N0, rest))))
                    else ((put_f f { fh = fr.fh; fk = (FSendB ([], (Npos XH),
                            total)); fpend = None } (pushl rest s)), (RReady
                           (RBatchOk (len rest))))
        | FRecvB (max, reg) ->
          if r.hclosed
          then (s, (RReady RDisc))
          else let (p, res0) = poll_recv_b_core s (OF f) w max reg in
               let (s1, reg') = p in
               ((put_f f { fh = fr.fh; fk = (FRecvB (max, reg')); fpend =
                  (pend_of s1 w res0) } s1), res0))
     | None -> (s, RBad))
  | None -> (s, RBad)

(** val do_drop_f : st -> n -> st * res **)

let do_drop_f s f =
  match aget f s.fs with
  | Some fr ->
    let s1 =
      match fr.fk with
      | FRecv reg -> if reg then set_rw s None else s
      | FRecvB (_, reg) -> if reg then set_rw s None else s
      | _ -> dropv (kitems fr.fk) s
    in
    ((set_fs s1 (adel f s1.fs)), ROk)
  | None -> (s, RBad)

(** val do_poll_next : st -> n -> n -> st * res **)

let do_poll_next s h w =
  match lookup_free s h with
  | Some r ->
    if (||) r.htx (negb r.hasync)
    then (s, RBad)
    else if r.hclosed
         then ((put_h h (with_reg r r.hreg None) s), (RReady RDisc))
         else let (p, res0) = poll_recv_core s (OH h) w r.hreg in
              let (s1, reg') = p in
              ((put_h h (with_reg r reg' (pend_of s1 w res0)) s1), res0)
  | None -> (s, RBad)

(** val exec : st -> op -> st * res **)

let exec s = function
| TrySend (h, v) -> do_try_send s h v
| Send (h, v) -> do_send s h v
| TryRecv h -> do_try_recv s h
| Recv h -> do_recv s h RBlock
| RecvT0 h -> do_recv s h RTimeout
| Close h -> do_close s h
| DropH h -> do_drop_h s h
| Clone (h, h2) -> do_clone s h h2
| ToSync h -> do_to_sync s h
| ToAsync h -> do_to_async s h
| Len h -> obs s h (fun _ -> RNum (len s.q))
| IsEmpty h -> obs s h (fun _ -> RBool (is_nil s.q))
| IsClosed h -> obs s h (fun r -> RBool (is_closed_h s r))
| SenderCount h -> obs s h (fun _ -> RNum s.scount)
| MkSend (f, h, v) -> do_mk_send s f h (v :: []) (FSend (Some v))
| MkRecv (f, h) -> do_mk_recv s f h (FRecv false)
| Poll (f, w) -> do_poll s f w
| DropF f -> do_drop_f s f
| PollNext (h, w) -> do_poll_next s h w
| SendB (h, vs, ip, so) -> do_send_b s h vs ip so
| TryRecvB (h, max) -> do_try_recv_b s h max
| RecvB (h, max) -> do_recv_b s h max
| MkSendB (f, h, vs) -> do_mk_send s f h vs (FSendB (vs, N0, (len vs)))
| MkRecvB (f, h, max) -> do_mk_recv s f h (FRecvB (max, false))

type out = (res * n list) * n list

(** val clear_ev : st -> st **)

let clear_ev s =
  set_evd (set_evw s []) []

(** val step : st -> op -> st * out **)

let step s o =
  let (s1, r) = exec (clear_ev s) o in (s1, ((r, s1.evw), s1.evd))
